(* C18 -- proofs about stringutility.hh: hasPrefix / hasSuffix / formatString. *)
From Coq Require Import List Arith Bool Ascii Lia.
From DuneV Require Import Params_gen C18_Model C18_Spec.
Import ListNotations.
Local Open Scope char_scope.

Lemma c18_eqs_eq : forall a b, c18_eqs a b = true <-> a = b.
Proof.
  induction a as [|x a IH]; destruct b as [|y b]; simpl; split; intro H; try congruence; try discriminate.
  - apply andb_true_iff in H. destruct H as [H1 H2]. apply Ascii.eqb_eq in H1. apply IH in H2. congruence.
  - inversion H; subst. rewrite Ascii.eqb_refl. simpl. apply IH. reflexivity.
Qed.

Lemma c18_eqs_refl : forall a, c18_eqs a a = true.
Proof. intro a. apply c18_eqs_eq. reflexivity. Qed.

Lemma c18_eqs_false : forall a b, c18_eqs a b = false <-> a <> b.
Proof.
  intros a b. split.
  - intros H E. apply c18_eqs_eq in E. congruence.
  - intro H. destruct (c18_eqs a b) eqn:E; auto. apply c18_eqs_eq in E. contradiction.
Qed.

Lemma c18_equal_iff : forall p s, c18_equal p s = true <-> exists t, s = p ++ t.
Proof.
  induction p as [|x p IH]; intro s; simpl.
  - split; eauto.
  - destruct s as [|y s].
    + split; [discriminate | intros [t H]; discriminate].
    + rewrite andb_true_iff, Ascii.eqb_eq, IH. split.
      * intros [-> [t ->]]. eauto.
      * intros [t H]. inversion H; subst. eauto.
Qed.

Lemma c18_hasPrefix_iff : forall s x, c18_hasPrefix s x = true <-> exists t, s = x ++ t.
Proof.
  intros s x. unfold c18_hasPrefix. rewrite andb_true_iff, c18_equal_iff, Nat.leb_le. split.
  - intros [_ H]. exact H.
  - intros [t ->]. split; eauto. rewrite app_length. lia.
Qed.

Lemma c18_hasSuffix_iff : forall s x, c18_hasSuffix s x = true <-> exists t, s = t ++ x.
Proof.
  intros s x. unfold c18_hasSuffix. destruct (Nat.ltb (length s) (length x)) eqn:E.
  - apply Nat.ltb_lt in E. split; [discriminate|]. intros [t ->]. rewrite app_length in E. lia.
  - apply Nat.ltb_ge in E. rewrite c18_equal_iff. split.
    + intros [t H].
      assert (L : length (skipn (length s - length x) s) = length x) by (rewrite skipn_length; lia).
      rewrite H, app_length in L. assert (t = []) by (destruct t; simpl in L; [reflexivity | lia]). subst t.
      rewrite app_nil_r in H. exists (firstn (length s - length x) s).
      pose proof (firstn_skipn (length s - length x) s) as FS. rewrite H in FS. symmetry; exact FS.
    + intros [t ->]. exists []. rewrite app_nil_r, app_length.
      replace (length t + length x - length x) with (length t + 0) by lia.
      rewrite skipn_app, Nat.add_0_r, skipn_all. simpl.
      replace (length t - length t) with 0 by lia. reflexivity.
Qed.

(* the executable spec functions are the plain definitions *)
Lemma c18_spec_prefix_iff : forall x s, c18_spec_prefix x s = true <-> exists t, s = x ++ t.
Proof.
  induction x as [|a x IH]; intro s; simpl.
  - split; eauto.
  - destruct s as [|b s].
    + split; [discriminate | intros [t H]; discriminate].
    + rewrite andb_true_iff, Ascii.eqb_eq, IH. split.
      * intros [-> [t ->]]. eauto.
      * intros [t H]. inversion H; subst. eauto.
Qed.

Lemma c18_spec_suffix_iff : forall x s, c18_spec_suffix x s = true <-> exists t, s = t ++ x.
Proof.
  intros x s. unfold c18_spec_suffix. rewrite c18_spec_prefix_iff. split.
  - intros [t H]. exists (rev t). apply (f_equal (@rev ascii)) in H.
    rewrite rev_involutive, rev_app_distr, rev_involutive in H. exact H.
  - intros [t ->]. exists (rev t). apply rev_app_distr.
Qed.

Lemma c18_prefix_suffix_model_spec : forall s x,
  c18_hasPrefix s x = c18_spec_prefix x s /\ c18_hasSuffix s x = c18_spec_suffix x s.
Proof.
  intros s x. split; apply eq_true_iff_eq.
  - rewrite c18_hasPrefix_iff, c18_spec_prefix_iff. reflexivity.
  - rewrite c18_hasSuffix_iff, c18_spec_suffix_iff. reflexivity.
Qed.

(* ---- formatString *)
Definition c18_nulfree (F : c18_str) : Prop := Forall (fun c => c <> zero) F.

Lemma c18_cstr_nulfree : forall F, c18_nulfree F -> c18_cstr F = F.
Proof.
  induction 1 as [|c F Hc _ IH]; simpl; auto.
  destruct (Ascii.eqb c zero) eqn:E; [apply Ascii.eqb_eq in E; contradiction | now rewrite IH].
Qed.

(* for EVERY buffer size n >= 1 and every expansion F (any length): the result is F as a C string *)
Lemma c18_formatString_n_cstr : forall n F, 1 <= n -> c18_formatString_n n F = c18_cstr F.
Proof.
  intros n F Hn. unfold c18_formatString_n, c18_snprintf.
  destruct (Nat.ltb (length F) n) eqn:E.
  - apply Nat.ltb_lt in E. rewrite firstn_all2 by lia. reflexivity.
  - replace (length F + 1 - 1) with (length F) by lia. rewrite firstn_all. reflexivity.
Qed.

Lemma c18_buffer_positive : 1 <= c18_param_format_buffer.
Proof. apply Nat.leb_le. vm_compute. reflexivity. Qed.

Lemma c18_formatString_correct : forall F,
  c18_formatString F = c18_cstr F /\ (c18_nulfree F -> c18_formatString F = F).
Proof.
  intro F. unfold c18_formatString. rewrite c18_formatString_n_cstr by apply c18_buffer_positive.
  split; [reflexivity | apply c18_cstr_nulfree].
Qed.

(* ---- the const char* argument: NUL-terminated *)
Lemma c18_hasPrefix_c_iff : forall s x, c18_hasPrefix_c s x = true <-> exists t, s = c18_cstr x ++ t.
Proof. intros. apply c18_hasPrefix_iff. Qed.

Lemma c18_hasSuffix_c_iff : forall s x, c18_hasSuffix_c s x = true <-> exists t, s = t ++ c18_cstr x.
Proof. intros. apply c18_hasSuffix_iff. Qed.

Lemma c18_formatString_err_correct : forall F,
  c18_formatString_err None = None /\ c18_formatString_err (Some F) = Some (c18_cstr F).
Proof. intro F. split; [reflexivity|]. simpl. f_equal. apply c18_formatString_correct. Qed.
