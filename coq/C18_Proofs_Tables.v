(* C18 -- concatPaths, pathIndicatesDirectory, prettyPath against their documented tables;
   relativePath: executable check used for the sweep Example (the unbounded proof is C18_Proofs_Rel.v). *)
From Coq Require Import List Arith Bool Ascii Lia.
From DuneV Require Import Params_gen C18_Model C18_Spec C18_Proofs_Str C18_Proofs_Passes C18_Proofs_Pass4 C18_Proofs.
Import ListNotations.
Local Open Scope char_scope.

(* ---------------------------------------------------------------- concatPaths *)
Lemma c18_strip_slash_snoc : forall t, c18_strip_slash (t ++ ["/"]) = t.
Proof. intro t. unfold c18_strip_slash. rewrite rev_app_distr. simpl. apply rev_involutive. Qed.

Lemma c18_strip_slash_other : forall a, c18_hasSuffix a ["/"] = false -> c18_strip_slash a = a.
Proof.
  intros a H. unfold c18_strip_slash. destruct (rev a) as [|c r] eqn:R; [reflexivity|].
  destruct (c18_is_slash c) eqn:E; [|reflexivity].
  exfalso. apply c18_is_slash_true in E. subst c.
  assert (A : a = rev r ++ ["/"]) by (rewrite <- (rev_involutive a), R; reflexivity).
  assert (S : c18_hasSuffix a ["/"] = true) by (apply c18_hasSuffix_iff; eauto). congruence.
Qed.

Lemma c18_concat_table : forall a b, c18_concatPaths a b = c18_spec_concat a b.
Proof.
  intros a b. unfold c18_concatPaths, c18_spec_concat.
  destruct b as [|c b']; [reflexivity|]. simpl c18_is_empty. simpl c18_is_abs. cbv iota.
  destruct (c18_is_slash c); [reflexivity|].
  destruct a as [|x a']; [reflexivity|]. simpl c18_is_empty. cbv iota.
  destruct (c18_hasSuffix (x :: a') ["/"]) eqn:S.
  - apply c18_hasSuffix_iff in S. destruct S as [t S]. rewrite S, c18_strip_slash_snoc, <- app_assoc. reflexivity.
  - rewrite c18_strip_slash_other by exact S. reflexivity.
Qed.

Lemma c18_split_app_slash : forall q r, c18_split (q ++ "/" :: r) = c18_split q ++ c18_split r.
Proof.
  induction q as [|x q IH]; intro r; [reflexivity|].
  simpl. destruct (c18_is_slash x); rewrite IH; [reflexivity|].
  destruct (c18_split q) as [|h rest] eqn:S; [exfalso; eapply c18_split_not_nil; eauto | reflexivity].
Qed.

Lemma c18_step_empty : forall abs st, c18_step abs st [] = st.
Proof. intros abs [u stk]. reflexivity. Qed.

Lemma c18_run_trailing_empty : forall abs cs st, c18_run abs (cs ++ [[]]) st = c18_run abs cs st.
Proof. intros. rewrite c18_run_app, c18_run_cons, c18_step_empty. reflexivity. Qed.

Lemma c18_concat_denote : forall a b, c18_is_abs b = false ->
  c18_denote (c18_concatPaths a b) = c18_denote_then a b.
Proof.
  intros a b Hb. rewrite c18_concat_table. unfold c18_spec_concat, c18_denote_then.
  destruct b as [|c b'].
  - simpl c18_is_empty. cbv iota. unfold c18_denote. simpl c18_split.
    rewrite c18_run_cons, c18_step_empty. reflexivity.
  - simpl c18_is_empty. cbv iota. rewrite Hb.
    destruct a as [|x a'].
    + simpl c18_is_empty. cbv iota. unfold c18_denote. rewrite Hb. reflexivity.
    + simpl c18_is_empty. cbv iota. set (a := x :: a') in *. set (b := c :: b') in *.
      assert (K : c18_is_abs (c18_strip_slash a ++ "/" :: b) = c18_is_abs a /\
                  forall st, c18_run (c18_is_abs a) (c18_split (c18_strip_slash a)) st = c18_run (c18_is_abs a) (c18_split a) st).
      { destruct (c18_hasSuffix a ["/"]) eqn:S.
        - apply c18_hasSuffix_iff in S. destruct S as [t S]. rewrite S, c18_strip_slash_snoc. split.
          + destruct t as [|y t]; [reflexivity | reflexivity].
          + intro st. rewrite c18_split_app_slash. simpl (c18_split []). rewrite c18_run_trailing_empty. reflexivity.
        - rewrite c18_strip_slash_other by exact S. split; [reflexivity | reflexivity]. }
      destruct K as [K1 K2].
      unfold c18_denote. rewrite K1, c18_split_app_slash, c18_run_app, K2. reflexivity.
Qed.

(* ---------------------------------------------------------------- relativePath: bounded sweep *)
Fixpoint c18_strings (alpha : list ascii) (n : nat) : list c18_str :=
  match n with
  | O => [[]]
  | S m => [] :: flat_map (fun s => map (fun c => c :: s) alpha) (c18_strings alpha m)
  end.

Definition c18_rel_check (a b : c18_str) : bool :=
  match c18_relativePath a b with
  | C18_Ok r => c18_spec_rel_defined a b && c18_spec_rel_accepts a b r
                && c18_eq_loc (c18_denote (c18_concatPaths a r)) (c18_denote b) && c18_nf r
  | C18_NotImplemented => negb (c18_spec_rel_defined a b)
  | C18_OutOfFuel => false
  end.

Definition c18_path_alpha : list ascii := ["/"; "."; "a"; "b"].

Lemma c18_relative_sweep :
  forallb (fun a => forallb (fun b => c18_rel_check a b) (c18_strings c18_path_alpha 4)) (c18_strings c18_path_alpha 4) = true.
Proof. vm_compute. reflexivity. Qed.

(* ---------------------------------------------------------------- pathIndicatesDirectory *)
Lemma c18_sf_app : forall a b, c18_sf (a ++ b) <-> c18_sf a /\ c18_sf b.
Proof. intros. unfold c18_sf, c18_slashfree. rewrite forallb_app, andb_true_iff. reflexivity. Qed.

Lemma c18_split_sf_single : forall c, c18_sf c -> c18_split c = [c].
Proof.
  induction c as [|x c IH]; intro H; [reflexivity|].
  apply c18_sf_cons in H. destruct H as [Hx Hc]. simpl. rewrite Hx, IH by exact Hc. reflexivity.
Qed.

Lemma c18_last_split : forall q c, c18_sf c -> last (c18_split (q ++ "/" :: c)) [] = c.
Proof. intros q c H. rewrite c18_split_app_slash, (c18_split_sf_single c H). apply last_last. Qed.

Lemma c18_decompose : forall p, c18_sf p \/ exists q c, p = q ++ "/" :: c /\ c18_sf c.
Proof.
  induction p as [|x p IH]; [left; reflexivity|].
  destruct IH as [H | [q [c [E H]]]].
  - destruct (c18_is_slash x) eqn:S.
    + right. apply c18_is_slash_true in S. subst x. exists [], p. auto.
    + left. apply c18_sf_cons. auto.
  - right. exists (x :: q), c. subst p. auto.
Qed.

Lemma c18_not_sf_slash : forall t x, ~ c18_sf (t ++ "/" :: x).
Proof. intros t x H. apply c18_sf_app in H. destruct H as [_ H]. apply c18_sf_cons in H. destruct H. discriminate. Qed.

Lemma c18_hasSuffix_slash_sf : forall p x, c18_sf p -> c18_hasSuffix p ("/" :: x) = false.
Proof.
  intros p x H. destruct (c18_hasSuffix p ("/" :: x)) eqn:S; [|reflexivity].
  apply c18_hasSuffix_iff in S. destruct S as [t S]. subst p. exfalso. eapply c18_not_sf_slash; eauto.
Qed.

Lemma c18_hasSuffix_last : forall q c x, c18_sf c -> c18_sf x ->
  c18_hasSuffix (q ++ "/" :: c) ("/" :: x) = c18_eqs c x.
Proof.
  intros q c x Hc Hx. apply eq_true_iff_eq. rewrite c18_hasSuffix_iff, c18_eqs_eq. split.
  - intros [t E]. apply (f_equal (fun s => last (c18_split s) [])) in E.
    rewrite !c18_last_split in E by assumption. exact E.
  - intros ->. exists q. reflexivity.
Qed.

Lemma c18_isdir_table : forall p, c18_pathIndicatesDirectory p = c18_spec_isdir p.
Proof.
  intro p. unfold c18_pathIndicatesDirectory, c18_spec_isdir.
  destruct (c18_decompose p) as [H | [q [c [E H]]]].
  - rewrite c18_split_sf_single by exact H. simpl last.
    rewrite !c18_hasSuffix_slash_sf by exact H.
    unfold c18_is_dotc, c18_is_dotdot, c18_dotdot.
    destruct p as [|x p]; [reflexivity|]. simpl c18_is_empty. simpl c18_eqs at 1.
    destruct (c18_eqs (x :: p) ["."]); [reflexivity|]. destruct (c18_eqs (x :: p) ["."; "."]); reflexivity.
  - subst p. rewrite c18_last_split by exact H.
    assert (N : forall s, c18_sf s -> c18_eqs (q ++ "/" :: c) s = false).
    { intros s Hs. apply c18_eqs_false. intro E. rewrite <- E in Hs. eapply c18_not_sf_slash; eauto. }
    rewrite !N by reflexivity.
    rewrite (c18_hasSuffix_last q c [] H) by reflexivity.
    rewrite (c18_hasSuffix_last q c ["."] H) by reflexivity.
    rewrite (c18_hasSuffix_last q c ["."; "."] H) by reflexivity.
    unfold c18_is_dotc, c18_is_dotdot, c18_dotdot.
    destruct c as [|y c]; [reflexivity|]. simpl c18_is_empty. simpl c18_eqs at 1.
    destruct (c18_eqs (y :: c) ["."]); [reflexivity|]. destruct (c18_eqs (y :: c) ["."; "."]); reflexivity.
Qed.

(* ---------------------------------------------------------------- prettyPath (table: C18_Proofs_Pretty.v)
   it is a function of the canonical form only, and never runs out of fuel *)
Lemma c18_pretty_of_canon : forall p q d, c18_canon p = c18_canon q -> c18_prettyPath p d = c18_prettyPath q d.
Proof. intros p q d H. unfold c18_prettyPath. rewrite !c18_processPath_canon, H. reflexivity. Qed.

Lemma c18_pretty_current_dir : forall p d, c18_canon p = [] -> c18_prettyPath p d = C18_Ok ["."].
Proof. intros p d H. unfold c18_prettyPath. rewrite c18_processPath_canon, H. reflexivity. Qed.
