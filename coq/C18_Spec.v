(* C18 -- the abstract statement about path.cc / stringutility.hh, and the executable oracle.
   A path string denotes a location: (absolute?, number of levels above the start, components below).
   The denotation is the usual stack machine over the '/'-separated components. *)
From Coq Require Import List Arith Bool Ascii.
From DuneV Require Import C18_Model.
Import ListNotations.
Local Open Scope char_scope.

(* components: the pieces between '/' characters; c18_split "" = [""] *)
Fixpoint c18_split (s : c18_str) : list c18_str :=
  match s with
  | [] => [[]]
  | c :: t =>
      if c18_is_slash c then [] :: c18_split t
      else match c18_split t with
           | h :: r => (c :: h) :: r
           | [] => [[c]]
           end
  end.

(* every component followed by one '/' *)
Definition c18_join (cs : list c18_str) : c18_str := concat (map (fun c => c ++ ["/"]) cs).

Definition c18_dotdot : c18_str := ["."; "."].
Definition c18_is_empty (c : c18_str) : bool := match c with [] => true | _ => false end.
Definition c18_is_dotc (c : c18_str) : bool := c18_eqs c ["."].
Definition c18_is_dotdot (c : c18_str) : bool := c18_eqs c c18_dotdot.

Definition c18_is_abs (p : c18_str) : bool := match p with c :: _ => c18_is_slash c | [] => false end.

(* one step of the stack machine; the stack is kept reversed (top first) *)
Definition c18_step (abs : bool) (st : nat * list c18_str) (c : c18_str) : nat * list c18_str :=
  let '(u, stk) := st in
  if c18_is_empty c || c18_is_dotc c then st
  else if c18_is_dotdot c then
         match stk with
         | _ :: stk' => (u, stk')
         | [] => if abs then (u, []) else (S u, [])      (* the root absorbs "..", a relative path goes up *)
         end
       else (u, c :: stk).

Definition c18_loc := (bool * nat * list c18_str)%type.

Definition c18_run (abs : bool) (cs : list c18_str) (st : nat * list c18_str) : nat * list c18_str :=
  fold_left (c18_step abs) cs st.

Definition c18_denote (p : c18_str) : c18_loc :=
  let abs := c18_is_abs p in
  let '(u, stk) := c18_run abs (c18_split p) (0, []) in
  (abs, u, rev stk).

(* `q` interpreted starting from where `p` leads (q relative) *)
Definition c18_denote_then (p q : c18_str) : c18_loc :=
  let abs := c18_is_abs p in
  let '(u, stk) := c18_run abs (c18_split q) (c18_run abs (c18_split p) (0, [])) in
  (abs, u, rev stk).

Definition c18_render (d : c18_loc) : c18_str :=
  let '(abs, u, cs) := d in
  (if abs then ["/"] else []) ++ c18_join (repeat c18_dotdot u ++ cs).

(* THE normal form of p *)
Definition c18_canon (p : c18_str) : c18_str := c18_render (c18_denote p).

(* ---- the documented normal form, stated directly *)
Definition c18_slashfree (c : c18_str) : bool := forallb (fun x => negb (c18_is_slash x)) c.
Definition c18_ordinary (c : c18_str) : bool :=
  c18_slashfree c && negb (c18_is_empty c) && negb (c18_is_dotc c) && negb (c18_is_dotdot c).

Definition C18_NormalForm (s : c18_str) : Prop :=
  exists cs, s = c18_join cs /\
    ((exists r, cs = [] :: r /\ forallb c18_ordinary r = true)                          (* absolute *)
     \/ (exists u r, cs = repeat c18_dotdot u ++ r /\ forallb c18_ordinary r = true)).  (* relative *)

(* executable version for the oracle *)
Fixpoint c18_drop_dotdots (cs : list c18_str) : list c18_str :=
  match cs with
  | c :: r => if c18_is_dotdot c then c18_drop_dotdots r else cs
  | [] => []
  end.
Definition c18_nf (s : c18_str) : bool :=
  match s with
  | [] => true
  | _ =>
      let cs := c18_split s in
      c18_is_empty (last cs ["x"]) &&
      match removelast cs with
      | [] => false
      | c1 :: rest =>
          if c18_is_empty c1 then forallb c18_ordinary rest
          else forallb c18_ordinary (c18_drop_dotdots (c1 :: rest))
      end
  end.

Fixpoint c18_eq_comps (a b : list c18_str) : bool :=
  match a, b with
  | [], [] => true
  | x :: a', y :: b' => c18_eqs x y && c18_eq_comps a' b'
  | _, _ => false
  end.
Definition c18_eq_loc (a b : c18_loc) : bool :=
  let '(aa, au, ac) := a in let '(ba, bu, bc) := b in
  Bool.eqb aa ba && Nat.eqb au bu && c18_eq_comps ac bc.

(* ---- prettyPath: the documented table as a function of the denotation *)
Fixpoint c18_intercalate (cs : list c18_str) : c18_str :=
  match cs with
  | [] => []
  | [c] => c
  | c :: r => c ++ "/" :: c18_intercalate r
  end.
Definition c18_spec_pretty (p : c18_str) (isDirectory : bool) : c18_str :=
  let '(abs, u, cs) := c18_denote p in
  match repeat c18_dotdot u ++ cs with
  | [] => if abs then ["/"] else ["."]
  | all =>
      let body := (if abs then ["/"] else []) ++ c18_intercalate all in
      match cs with
      | [] => body                                   (* ends in "..": obviously a directory *)
      | _ => if isDirectory then body ++ ["/"] else body
      end
  end.

(* ---- pathIndicatesDirectory: the last component is empty, "." or ".." *)
Definition c18_spec_isdir (p : c18_str) : bool :=
  let l := last (c18_split p) [] in
  c18_is_empty l || c18_is_dotc l || c18_is_dotdot l.

(* ---- concatPaths: p if absolute, else base and p with exactly one separating '/' where needed *)
Definition c18_strip_slash (s : c18_str) : c18_str :=
  match rev s with
  | c :: r => if c18_is_slash c then rev r else s
  | [] => s
  end.
Definition c18_spec_concat (base p : c18_str) : c18_str :=
  if c18_is_empty p then base
  else if c18_is_abs p then p
  else if c18_is_empty base then p
  else c18_strip_slash base ++ "/" :: p.

(* ---- relativePath: defined iff both absolute or both relative and the base does not go up further
        than the target; a reported result r is right iff base/r denotes the target *)
Definition c18_spec_rel_defined (base p : c18_str) : bool :=
  let '(ab, ub, _) := c18_denote base in
  let '(ap, up, _) := c18_denote p in
  Bool.eqb ab ap && Nat.leb ub up.
Definition c18_spec_rel_accepts (base p r : c18_str) : bool :=
  c18_eq_loc (c18_denote (c18_spec_concat base r)) (c18_denote p).

(* which NotImplemented is documented for which situation, with the ORIGINAL arguments quoted verbatim *)
Definition c18_spec_rel_message (base p : c18_str) : c18_str :=
  if Bool.eqb (c18_is_abs base) (c18_is_abs p) then c18_msg_up base p else c18_msg_abs base p.

(* ---- prefix / suffix: plain definitions *)
Fixpoint c18_spec_prefix (x s : c18_str) : bool :=
  match x, s with
  | [], _ => true
  | a :: x', b :: s' => Ascii.eqb a b && c18_spec_prefix x' s'
  | _ :: _, [] => false
  end.
Definition c18_spec_suffix (x s : c18_str) : bool := c18_spec_prefix (rev x) (rev s).
