(* Extraction of the C19 model and spec for the correspondence check (ExtrOcamlBasic only). *)
From Coq Require Import Extraction ExtrOcamlBasic.
From Coq Require Import List NArith Arith.
From DuneV Require Import Params_gen C19_Model C19_Spec.
Extraction Language OCaml.
Extraction "c19_model.ml"
  c19_run c19_resume c19_exec c19_guard_scope c19_guard_scope_ctor c19_ctor_active c19_scopes_run c19_nested_run c19_groups c19_script c19_sections_run c19_spec_exit c19_first_fail
  c19_fstep c19_ftrace c19_etrace c19_fut_ctor c19_start_rejected c19_history c19_ptrace c19_fut_started c19_fut_default c19_fut_prevalid c19_cfg_fixed c19_cfg_current
  c19_xstep c19_xrun c19_xtrace c19_xinit c19_xinflight c19_owned
  c19_outer_outs c19_spec_accept c19_count_data c19_all_data_is c19_spec_data.
