(* C19 — executable model of MPIGuard (dune/common/parallel/mpiguard.hh) and of the futures
   MPIFuture (mpifuture.hh) / PseudoFuture (future.hh).  Definitions only, no proofs.

   Part 1: MPIGuard.  One process = a script of guard operations executed inside one scope
     { MPIGuard guard(comm, active0);  op_0; op_1; ...; }   // destructor at scope exit / unwinding
   The only communication of the guard is `comm_->sum(int)` (one MPI_Allreduce).  A process runs
   until it arrives at such a collective (c19_run), the communicator adds the contributions of all
   its processes, and every process continues with the sum (c19_resume).  A communicator in which
   some processes wait in the collective while the others have left the scope is a deadlock.

   Part 2: futures.  MPIFuture<R> = { req_, data_ (impl::Buffer<R>) }; events are the member
   calls valid/ready/wait/get and the completion of the operation in the network. *)
From Coq Require Import List Bool Arith NArith.
From DuneV Require Import Params_gen.
Import ListNotations.

(* ------------------------------------------------------------------------------------------ *)
(** * Part 1: MPIGuard *)

(* operations of a script *)
Inductive c19_gop :=
| C19_FinDefault (* guard.finalize()  -- default argument, re-read from the source: c19_param_finalize_default *)
| C19_FinOk      (* guard.finalize(true)  *)
| C19_FinFail    (* guard.finalize(false) *)
| C19_Throw      (* the guarded code throws (anything but MPIGuardError) *)
| C19_React.     (* guard.reactivate()    *)

(* how a process leaves the scope; pc = index of the operation that threw *)
Inductive c19_exit :=
| C19_Normal
| C19_GuardError (pc nerr : nat)      (* MPIGuardError "... due to <nerr> remote error(s)" *)
| C19_UserExc (pc : nat).

(* finalize(bool success):  int result = success ? 0 : 1;  bool was_active = active_;  active_ = false;
                            result = comm_->sum(result);    if (result>0 && was_active) DUNE_THROW(MPIGuardError,...) *)
(* the literals 0, 1 and the threshold 0 are re-read from mpiguard.hh into Params_gen.v on every run *)
Definition c19_finalize_contrib (success : bool) : nat := if success then c19_param_ok_contrib else c19_param_fail_contrib.
Definition c19_finalize_throws (was_active : bool) (result : nat) : bool := (c19_param_throw_threshold <? result) && was_active.

(* constructors: MPIGuard(..., bool active = <default>): None = argument omitted *)
Definition c19_ctor_active (arg : option bool) : bool :=
  match arg with Some a => a | None => c19_param_ctor_default_active end.

(* what a process does when the collective it waits in returns *)
Inductive c19_kont :=
| C19_KFin (was_active react : bool) (rest : list c19_gop) (pc : nat)
    (* inside finalize() called by operation pc (react: called from reactivate(), which sets active_=true afterwards) *)
| C19_KDtor (e : c19_exit).
    (* inside ~MPIGuard(): active_ was set to false first, so finalize(false) cannot throw; leaves with e *)

Inductive c19_stop :=
| C19_AtColl (contrib : nat) (k : c19_kont)
| C19_Done (e : c19_exit).

(* run the script until the next collective.
   ~MPIGuard(): if (active_) { active_ = false; finalize(false); }
   reactivate(): if (active_ == true) finalize(); active_ = true; *)
Fixpoint c19_run (ops : list c19_gop) (pc : nat) (active : bool) : c19_stop :=
  match ops with
  | [] => if active then C19_AtColl (c19_finalize_contrib c19_param_dtor_success) (C19_KDtor C19_Normal) else C19_Done C19_Normal
  | C19_Throw :: _ => if active then C19_AtColl (c19_finalize_contrib c19_param_dtor_success) (C19_KDtor (C19_UserExc pc))
                      else C19_Done (C19_UserExc pc)
  | C19_FinDefault :: rest => C19_AtColl (c19_finalize_contrib c19_param_finalize_default) (C19_KFin active false rest pc)
  | C19_FinOk :: rest => C19_AtColl (c19_finalize_contrib true) (C19_KFin active false rest pc)
  | C19_FinFail :: rest => C19_AtColl (c19_finalize_contrib false) (C19_KFin active false rest pc)
  | C19_React :: rest =>
      if active then C19_AtColl (c19_finalize_contrib c19_param_finalize_default) (C19_KFin true true rest pc)   (* finalize(); *)
      else c19_run rest (S pc) true
  end.

(* continue after the collective returned `sum` *)
Definition c19_resume (sum : nat) (s : c19_stop) : c19_stop :=
  match s with
  | C19_Done e => C19_Done e
  | C19_AtColl _ (C19_KDtor e) => C19_Done e
  | C19_AtColl _ (C19_KFin wa react rest pc) =>
      if c19_finalize_throws wa sum then C19_Done (C19_GuardError pc sum)   (* active_ is false: the destructor is silent *)
      else c19_run rest (S pc) react
  end.

Definition c19_is_done (s : c19_stop * nat) : bool := match fst s with C19_Done _ => true | _ => false end.
Definition c19_is_coll (s : c19_stop * nat) : bool := match fst s with C19_AtColl _ _ => true | _ => false end.
Definition c19_contrib (s : c19_stop * nat) : nat := match fst s with C19_AtColl c _ => c | _ => 0 end.
Definition c19_sum (l : list nat) : nat := fold_right Nat.add 0 l.

(* observation of one process: how it left (None: blocked for ever in a collective) and the number of collectives it issued *)
Definition c19_obs (s : c19_stop * nat) : option c19_exit * nat :=
  match fst s with C19_Done e => (Some e, snd s) | C19_AtColl _ _ => (None, S (snd s)) end.

Inductive c19_gres :=
| C19_Finished (r : list (option c19_exit * nat))
| C19_Deadlock (r : list (option c19_exit * nat))
| C19_OutOfFuel.

(* all processes of ONE communicator, in lock step *)
Fixpoint c19_exec (fuel : nat) (st : list (c19_stop * nat)) : c19_gres :=
  match fuel with
  | O => C19_OutOfFuel
  | S fuel' =>
      if forallb c19_is_done st then C19_Finished (map c19_obs st)
      else if forallb c19_is_coll st then
        let sum := c19_sum (map c19_contrib st) in
        c19_exec fuel' (map (fun s => (c19_resume sum (fst s), S (snd s))) st)
      else C19_Deadlock (map c19_obs st)
  end.

Definition c19_maxlen (scripts : list (list c19_gop)) : nat := fold_right (fun s m => Nat.max (length s) m) 0 scripts.

(* one guarded scope on a communicator whose process r runs script r *)
Definition c19_guard_scope (active0 : bool) (scripts : list (list c19_gop)) : c19_gres :=
  c19_exec (c19_maxlen scripts + 2) (map (fun ops => (c19_run ops 0 active0, 0)) scripts).

Definition c19_guard_scope_ctor (arg : option bool) (scripts : list (list c19_gop)) : c19_gres :=
  c19_guard_scope (c19_ctor_active arg) scripts.

(* the documented use: a sequence of guarded sections
      [reactivate();]  section_0  reactivate();  section_1  reactivate(); ... section_{S-1}
   where section = work; finalize(work succeeded) *)
Inductive c19_outcome := C19_Ok | C19_Throws | C19_ReportsFailure.

Definition c19_op_of (o : c19_outcome) : c19_gop :=
  match o with C19_Ok => C19_FinOk | C19_Throws => C19_Throw | C19_ReportsFailure => C19_FinFail end.

Fixpoint c19_body (os : list c19_outcome) : list c19_gop :=
  match os with
  | [] => []
  | o :: rest => c19_op_of o :: match rest with [] => [] | _ => C19_React :: c19_body rest end
  end.

Definition c19_script (active0 : bool) (os : list c19_outcome) : list c19_gop :=
  (if active0 then [] else [C19_React]) ++ c19_body os.

Definition c19_sections_run (active0 : bool) (outs : list (list c19_outcome)) : c19_gres :=
  c19_guard_scope active0 (map (c19_script active0) outs).

(* communicators obtained by MPI_Comm_split(world, colour, key = world rank): one group per colour, members in rank order *)
Definition c19_group_of (colors : list nat) (c : nat) : list nat :=
  filter (fun r => nth r colors 0 =? c) (seq 0 (length colors)).
Definition c19_groups (colors : list nat) : list (list nat) := map (c19_group_of colors) (nodup Nat.eq_dec colors).

(* several guarded scopes one after the other (a new guard each; an exception leaving a scope is caught outside it) *)
Definition c19_scopes_run (scopes : list (bool * list (list c19_outcome))) : list c19_gres :=
  map (fun sc => c19_sections_run (fst sc) (snd sc)) scopes.

(* nested guards on different communicators:
     { MPIGuard outer(world);
       { MPIGuard inner(group communicator);  section_0 ... section_{S-1} }      // groups: a partition of world
       outer.finalize(); }
   The groups run their inner scopes independently (disjoint communicators); a process whose inner scope ended by an
   exception unwinds through the outer scope (the outer destructor reports), the others reach outer.finalize(). *)
Definition c19_is_finished (g : c19_gres) : bool := match g with C19_Finished _ => true | _ => false end.
Definition c19_obs_of (g : c19_gres) : list (option c19_exit * nat) :=
  match g with C19_Finished l | C19_Deadlock l => l | C19_OutOfFuel => [] end.
Definition c19_outer_outcome (inner : option c19_exit * nat) : c19_outcome :=
  match fst inner with Some C19_Normal => C19_Ok | _ => C19_Throws end.
Definition c19_nested_run (groups : list (list (list c19_outcome))) : list c19_gres * c19_gres :=
  let inner := map (c19_sections_run true) groups in
  (inner,
   if forallb c19_is_finished inner
   then c19_sections_run true (map (fun o => [c19_outer_outcome o]) (concat (map c19_obs_of inner)))
   else C19_Deadlock []).

(* ------------------------------------------------------------------------------------------ *)
(** * Part 2: futures *)

(* the non-blocking operations; which calls are refused at the start with ParallelError:
   Communication<No_Comm>::isend/irecv ("not supported in sequential programs"), Communication<MPI_Comm>::irecv with an
   empty buffer ("Size if irecv data object is zero") *)
Inductive c19_nbop := C19_Isend | C19_Irecv | C19_Ibcast | C19_Igather | C19_Iscatter | C19_Iallgather | C19_Iallreduce | C19_Ibarrier.
Inductive c19_fam := C19_FamMPI | C19_FamSeq.
Definition c19_start_rejected (fam : c19_fam) (op : c19_nbop) (buflen : nat) : bool :=
  match fam, op with
  | C19_FamSeq, (C19_Isend | C19_Irecv) => true
  | C19_FamMPI, C19_Irecv => buflen =? 0
  | _, _ => false
  end.

Inductive c19_fop := C19_Valid | C19_Ready | C19_Wait | C19_Get
                   | C19_Move        (* F g(std::move(f)): afterwards the script talks to g; observation = f.valid() *)
                   | C19_MoveAssign  (* F d; d = std::move(f): operator=(F&&) SWAPS, so f gets d's (invalid, null) state; observation = f.valid() *)
                   | C19_SendData.   (* get_send_data(): wait(); return send_data_.get();  (called at most once per history) *)
Inductive c19_fev := C19_EvOp (o : c19_fop) | C19_EvComplete.   (* EvComplete: the network finished the operation *)

(* impl::Buffer<T> (owned value), Buffer<T&> (reference), Buffer<void> *)
Inductive c19_bkind := C19_BValue | C19_BRef | C19_BVoid.

Inductive c19_req := C19_ReqNull | C19_ReqActive (netdone : bool).

(* variants of the code: as it is / with the proposed fixes *)
Record c19_cfg := { c19_void_get_clears : bool;     (* Buffer<void>::get() resets valid_           (fix C19-1) *)
                    c19_move_clears : bool }.       (* moving a Buffer<T&>/Buffer<void> disengages the source *)
Definition c19_cfg_current := {| c19_void_get_clears := false; c19_move_clears := false |}.
Definition c19_cfg_fixed := {| c19_void_get_clears := true; c19_move_clears := false |}.

Section Future.
  Variable D : Type.

  Inductive c19_fres :=
  | C19_RBool (b : bool)
  | C19_RUnit
  | C19_RData (d : D)
  | C19_RSent              (* the send buffer came back (its content is compared by the driver) *)
  | C19_RInvalid.          (* InvalidFutureException *)

  (* trace items: results of the calls, and the point at which the operation completed *)
  Inductive c19_titem := C19_TOp (o : c19_fop) (r : c19_fres) | C19_TEnable.

  Record c19_fut := C19_mkfut { c19_buf : option D; c19_rq : c19_req }.

  Definition c19_fvalid (f : c19_fut) : bool := match c19_buf f with Some _ => true | None => false end.

  (* the network completes the operation: the receive buffer now holds the delivered data v *)
  Definition c19_complete (v : D) (f : c19_fut) : c19_fut :=
    match c19_rq f with
    | C19_ReqActive false => C19_mkfut (option_map (fun _ => v) (c19_buf f)) (C19_ReqActive true)
    | _ => f
    end.
  Definition c19_pending (f : c19_fut) : bool := match c19_rq f with C19_ReqActive false => true | _ => false end.

  (* MPI_Wait(&req_): returns once the operation is complete; req_ = MPI_REQUEST_NULL *)
  Definition c19_mpi_wait (v : D) (f : c19_fut) : c19_fut := C19_mkfut (c19_buf (c19_complete v f)) C19_ReqNull.
  (* MPI_Test(&req_,&flag): null request -> flag = true; complete -> flag = true, req_ = null; else false *)
  Definition c19_mpi_test (f : c19_fut) : bool * c19_fut :=
    match c19_rq f with
    | C19_ReqNull => (true, f)
    | C19_ReqActive true => (true, C19_mkfut (c19_buf f) C19_ReqNull)
    | C19_ReqActive false => (false, f)
    end.

  (* Buffer<R>::get(): tmp = move( * value ); value.reset(); return tmp;     Buffer<void>::get(){} *)
  Definition c19_buf_after_get (cfg : c19_cfg) (k : c19_bkind) (b : option D) : option D :=
    match k with C19_BVoid => if c19_void_get_clears cfg then None else b | _ => None end.
  (* moved-from buffer: unique_ptr -> empty; optional<reference_wrapper> and bool keep their value *)
  Definition c19_buf_after_move (cfg : c19_cfg) (k : c19_bkind) (b : option D) : option D :=
    match k with C19_BValue => None | _ => if c19_move_clears cfg then None else b end.

  (* one member call; returns (items appended to the trace, new state) *)
  Definition c19_fstep (cfg : c19_cfg) (k : c19_bkind) (v : D) (o : c19_fop) (f : c19_fut) : list c19_titem * c19_fut :=
    match o with
    | C19_Valid => ([C19_TOp o (C19_RBool (c19_fvalid f))], f)
    | C19_Ready => let (b, f') := c19_mpi_test f in ([C19_TOp o (C19_RBool b)], f')
    | C19_Wait =>
        if c19_fvalid f
        then ((if c19_pending f then [C19_TEnable] else []) ++ [C19_TOp o C19_RUnit], c19_mpi_wait v f)
        else ([C19_TOp o C19_RInvalid], f)
    | C19_Get =>
        if c19_fvalid f
        then let f' := c19_mpi_wait v f in
             ((if c19_pending f then [C19_TEnable] else []) ++
              [C19_TOp o (match c19_buf f' with Some d => C19_RData d | None => C19_RInvalid end)],
              C19_mkfut (c19_buf_after_get cfg k (c19_buf f')) C19_ReqNull)
        else ([C19_TOp o C19_RInvalid], f)
    | C19_MoveAssign => ([C19_TOp o (C19_RBool false)], f)
    | C19_SendData =>
        if c19_fvalid f
        then ((if c19_pending f then [C19_TEnable] else []) ++ [C19_TOp o C19_RSent], c19_mpi_wait v f)
        else ([C19_TOp o C19_RInvalid], f)
    | C19_Move =>
        (* MPIFuture(MPIFuture&& f): data_(std::move(f.data_)), req_ swapped with MPI_REQUEST_NULL.
           The script continues with the new object (same buffer, same request); the observation is old.valid() *)
        ([C19_TOp o (C19_RBool (match c19_buf_after_move cfg k (c19_buf f) with Some _ => true | None => false end))], f)
    end.

  Fixpoint c19_ftrace (cfg : c19_cfg) (k : c19_bkind) (v : D) (h : list c19_fev) (f : c19_fut) : list c19_titem :=
    match h with
    | [] => []
    | C19_EvComplete :: h' =>
        (if c19_pending f then [C19_TEnable] else []) ++ c19_ftrace cfg k v h' (c19_complete v f)
    | C19_EvOp o :: h' => let (t, f') := c19_fstep cfg k v o f in t ++ c19_ftrace cfg k v h' f'
    end.

  (* a future returned by a non-blocking call: buffer present (content `init` until completion), request active;
     a default-constructed one: no buffer, null request *)
  Definition c19_fut_started (init : D) : c19_fut := C19_mkfut (Some init) (C19_ReqActive false).
  Definition c19_fut_default : c19_fut := C19_mkfut None C19_ReqNull.
  (* MPIFuture<T>(true): valid, value-initialised buffer, no request *)
  Definition c19_fut_prevalid (v : D) : c19_fut := C19_mkfut (Some v) C19_ReqNull.

  (* MPIFuture(bool valid = <default>) with value-initialised buffer v0: None = argument omitted *)
  Definition c19_fut_ctor (arg : option bool) (v0 : D) : c19_fut :=
    if match arg with Some a => a | None => c19_param_mpifuture_default_valid end then c19_fut_prevalid v0 else c19_fut_default.

  (* Dune::Future<T>: type erasure, std::unique_ptr<FutureBase> _future.  None = no future object (default-constructed
     or moved-from wrapper): valid() = false, wait/get/ready throw InvalidFutureException (since e5bbbdf).
     Moving the wrapper moves the unique_ptr: the source is always empty, the script goes on with the target.
     get_send_data is not part of the interface (no trace item). *)
  Definition c19_estep (cfg : c19_cfg) (k : c19_bkind) (v : D) (o : c19_fop) (e : option c19_fut) : list c19_titem * option c19_fut :=
    match o with
    | C19_Move | C19_MoveAssign => ([C19_TOp o (C19_RBool false)], e)
    | C19_SendData => ([], e)
    | _ => match e with
           | None => ([C19_TOp o (match o with C19_Valid => C19_RBool false | _ => C19_RInvalid end)], None)
           | Some f => let (t, f') := c19_fstep cfg k v o f in (t, Some f')
           end
    end.
  Fixpoint c19_etrace (cfg : c19_cfg) (k : c19_bkind) (v : D) (h : list c19_fev) (e : option c19_fut) : list c19_titem :=
    match h with
    | [] => []
    | C19_EvComplete :: h' =>
        match e with
        | Some f => (if c19_pending f then [C19_TEnable] else []) ++ c19_etrace cfg k v h' (Some (c19_complete v f))
        | None => c19_etrace cfg k v h' None
        end
    | C19_EvOp o :: h' => let (t, e') := c19_estep cfg k v o e in t ++ c19_etrace cfg k v h' e'
    end.

  (* PseudoFuture<T>: { bool valid_; T data_ } *)
  Record c19_pfut := C19_mkpfut { c19_pvalid : bool; c19_pdata : D }.
  Definition c19_pstep (o : c19_fop) (f : c19_pfut) : c19_titem * c19_pfut :=
    match o with
    | C19_Valid => (C19_TOp o (C19_RBool (c19_pvalid f)), f)
    | C19_Ready => (C19_TOp o (if c19_pvalid f then C19_RBool true else C19_RInvalid), f)
    | C19_Wait => (C19_TOp o (if c19_pvalid f then C19_RUnit else C19_RInvalid), f)
    | C19_Get => if c19_pvalid f then (C19_TOp o (C19_RData (c19_pdata f)), C19_mkpfut false (c19_pdata f))
                 else (C19_TOp o C19_RInvalid, f)
    | C19_Move => (* implicit move constructor: copies valid_ *) (C19_TOp o (C19_RBool (c19_pvalid f)), f)
    | C19_MoveAssign => (* implicit move assignment: copies valid_ too *) (C19_TOp o (C19_RBool (c19_pvalid f)), f)
    | C19_SendData => (* PseudoFuture has no send buffer *) (C19_TOp o C19_RInvalid, f)
    end.
  Fixpoint c19_ptrace (ops : list c19_fop) (f : c19_pfut) : list c19_titem :=
    match ops with
    | [] => []
    | o :: ops' => let (t, f') := c19_pstep o f in t :: c19_ptrace ops' f'
    end.
End Future.

Arguments C19_RBool {D}. Arguments C19_RUnit {D}. Arguments C19_RSent {D}. Arguments C19_RData {D}. Arguments C19_RInvalid {D}.
Arguments C19_TOp {D}. Arguments C19_TEnable {D}.
Arguments C19_mkfut {D}. Arguments c19_buf {D}. Arguments c19_rq {D}. Arguments c19_fvalid {D}.
Arguments c19_complete {D}. Arguments c19_pending {D}. Arguments c19_mpi_wait {D}. Arguments c19_mpi_test {D}.
Arguments c19_buf_after_get {D}. Arguments c19_buf_after_move {D}. Arguments c19_fstep {D}. Arguments c19_ftrace {D}.
Arguments c19_fut_started {D}. Arguments c19_fut_default {D}. Arguments c19_fut_prevalid {D}.
Arguments c19_fut_ctor {D}. Arguments c19_estep {D}. Arguments c19_etrace {D}.
Arguments C19_mkpfut {D}. Arguments c19_pvalid {D}. Arguments c19_pdata {D}. Arguments c19_pstep {D}. Arguments c19_ptrace {D}.

(* histories: the operations with the completion event inserted before operation number c (c >= length: never observed) *)
Fixpoint c19_history (ops : list c19_fop) (c : nat) : list c19_fev :=
  match c, ops with
  | O, _ => C19_EvComplete :: map C19_EvOp ops
  | S c', o :: ops' => C19_EvOp o :: c19_history ops' c'
  | S _, [] => []
  end.

(* ------------------------------------------------------------------------------------------ *)
(** * Part 3: several MPIFuture objects of one process and the requests they have posted in MPI

   Parts 1-2 follow ONE future whose request nobody else can touch.  Here a process owns a vector of future variables
   ("slots") and MPI owns the multiset of posted requests (the pool).  Special members create, hand over and release
   requests:
     ~MPIFuture()                 if(req_ != MPI_REQUEST_NULL){ MPI_Cancel(&req_); MPI_Request_free(&req_); }
     MPIFuture(MPIFuture&& f)     req_(NULL), data_(move(f.data_)); swap(req_, f.req_)
     operator=(MPIFuture&& f)     swap(req_, f.req_); swap(data_, f.data_); ...  -- the PREVIOUS operation of the target ends up
                                  in f and is withdrawn when f (the temporary returned by the non-blocking call) is destroyed
     Dune::Future<T>              unique_ptr: assignment destroys the MPIFuture held before
   A receive buffer is identified with the operation that was started on it (buffer id = handle id). *)
Inductive c19_xst := C19_XPending | C19_XDone.     (* posted and not matched | complete in MPI (message in the buffer) *)
Record c19_xreq := C19_mkxreq { c19_xh : nat; c19_xs : c19_xst; c19_xsnd : bool }.
Record c19_xfut := C19_mkxfut { c19_xrq : option nat;      (* req_  (None = MPI_REQUEST_NULL) *)
                                c19_xdt : option nat }.    (* data_ (buffer id; None = no buffer: invalid) *)
Inductive c19_xslot := C19_SNone                 (* no object (not yet constructed / destroyed) *)
                     | C19_SEmpty                (* Dune::Future<T> without a future object *)
                     | C19_SObj (f : c19_xfut).
Record c19_xstate := C19_mkxstate { c19_xpool : list c19_xreq;         (* requests posted in MPI, in posting order *)
                                    c19_xslots : list c19_xslot;
                                    c19_xnext : nat;                   (* next handle *)
                                    c19_xstore : list (nat * nat);     (* buffer contents, latest binding first *)
                                    c19_xunexp : list nat }.           (* messages that arrived before a receive was posted *)
Inductive c19_xop :=
| C19_XPost (snd : bool) (v : nat) (s : nat)   (* slot_s = comm.irecv(buf, ...)  /  comm.isend(v, ...)  (construction if the slot has no object) *)
| C19_XMoveCtor (s t : nat)                    (* F slot_t(std::move(slot_s)) *)
| C19_XAssign (s t : nat)                      (* slot_t = std::move(slot_s) *)
| C19_XDestroy (s : nat)
| C19_XValid (s : nat) | C19_XReady (s : nat) | C19_XWait (s : nat) | C19_XGet (s : nat)
| C19_XSend (v : nat).                         (* network: the partner's next message v arrives *)
Inductive c19_xres := C19_XRBool (b : bool) | C19_XRUnit | C19_XRData (v : nat) | C19_XRInvalid
                    | C19_XRBlocks       (* MPI_Wait on a request nothing will complete: the script is stuck *)
                    | C19_XRDangling     (* req_ names a request MPI no longer knows *)
                    | C19_XRSkip.        (* ill-formed step (no such object) *)

Definition c19_xremove (h : nat) (p : list c19_xreq) : list c19_xreq := filter (fun r => negb (c19_xh r =? h)) p.
Definition c19_xfind (h : nat) (p : list c19_xreq) : option c19_xreq := find (fun r => c19_xh r =? h) p.
(* an arriving message is matched with the first pending receive in posting order (MPI non-overtaking rule) *)
Fixpoint c19_xdeliver (p : list c19_xreq) : option (nat * list c19_xreq) :=
  match p with
  | [] => None
  | r :: p' => match c19_xs r, c19_xsnd r with
               | C19_XPending, false => Some (c19_xh r, C19_mkxreq (c19_xh r) C19_XDone false :: p')
               | _, _ => match c19_xdeliver p' with Some (b, q) => Some (b, r :: q) | None => None end
               end
  end.
Fixpoint c19_xlookup (b : nat) (m : list (nat * nat)) : nat :=
  match m with [] => 0 | (k, v) :: m' => if k =? b then v else c19_xlookup b m' end.

(* MPI_Cancel + MPI_Request_free / completion observed by MPI_Wait, MPI_Test: MPI forgets the request *)
Definition c19_xdtor (f : c19_xfut) (p : list c19_xreq) : list c19_xreq :=
  match c19_xrq f with Some h => c19_xremove h p | None => p end.
Definition c19_xslot_dtor (x : c19_xslot) (p : list c19_xreq) : list c19_xreq :=
  match x with C19_SObj f => c19_xdtor f p | _ => p end.
(* operator=(MPIFuture&&): returns (target, source) afterwards.  sw = true: the code (swap);  sw = false: a "take over"
   variant that leaves the source without request - and forgets the target's previous request *)
Definition c19_xassign (sw : bool) (k : c19_bkind) (tgt src : c19_xfut) : c19_xfut * c19_xfut :=
  if sw then (src, tgt) else (src, C19_mkxfut None (c19_buf_after_move c19_cfg_fixed k (c19_xdt src))).
Definition c19_xmovector (k : c19_bkind) (src : c19_xfut) : c19_xfut * c19_xfut :=
  (C19_mkxfut (c19_xrq src) (c19_xdt src), C19_mkxfut None (c19_buf_after_move c19_cfg_fixed k (c19_xdt src))).

Inductive c19_xcompl := C19_XCNull | C19_XCDone | C19_XCPending | C19_XCDangling.
Definition c19_xstatus (f : c19_xfut) (p : list c19_xreq) : c19_xcompl :=
  match c19_xrq f with
  | None => C19_XCNull
  | Some h => match c19_xfind h p with
              | Some r => match c19_xs r with C19_XDone => C19_XCDone | C19_XPending => C19_XCPending end
              | None => C19_XCDangling
              end
  end.

Fixpoint c19_set (s : nat) (x : c19_xslot) (l : list c19_xslot) : list c19_xslot :=
  match l, s with
  | [], _ => []
  | _ :: l', O => x :: l'
  | y :: l', S s' => y :: c19_set s' x l'
  end.

Definition c19_slot_req (x : c19_xslot) : list nat :=
  match x with C19_SObj f => match c19_xrq f with Some h => [h] | None => [] end | _ => [] end.
(* the requests the live future objects stand for *)
Definition c19_owned (l : list c19_xslot) : list nat := flat_map c19_slot_req l.
Definition c19_handles (p : list c19_xreq) : list nat := map c19_xh p.

(* sw: operator= variant, e: the slots are type-erased Dune::Future<T>, k: buffer kind *)
Definition c19_xstep (sw e : bool) (k : c19_bkind) (o : c19_xop) (st : c19_xstate) : c19_xres * c19_xstate :=
  let p := c19_xpool st in
  let sl := c19_xslots st in
  let n := length sl in
  let upd p' sl' := C19_mkxstate p' sl' (c19_xnext st) (c19_xstore st) (c19_xunexp st) in
  let member (s : nat) (g : c19_xfut -> c19_xres * c19_xstate) : c19_xres * c19_xstate :=
    if s <? n then
      match nth s sl C19_SNone with
      | C19_SObj f => g f
      | C19_SEmpty => (match o with C19_XValid _ => C19_XRBool false | _ => C19_XRInvalid end, st)
      | C19_SNone => (C19_XRSkip, st)
      end
    else (C19_XRSkip, st) in
  match o with
  | C19_XSend v =>
      match c19_xdeliver p with
      | Some (b, p') => (C19_XRUnit, C19_mkxstate p' sl (c19_xnext st) ((b, v) :: c19_xstore st) (c19_xunexp st))
      | None => (C19_XRUnit, C19_mkxstate p sl (c19_xnext st) (c19_xstore st) (c19_xunexp st ++ [v]))
      end
  | C19_XPost snd v s =>
      if s <? n then
        let h := c19_xnext st in
        let '(rs, val, ux) :=
          if snd then (C19_XDone, v, c19_xunexp st)      (* small message: buffered, complete at once *)
          else match c19_xunexp st with m :: u => (C19_XDone, m, u) | [] => (C19_XPending, 0, []) end in
        let p1 := p ++ [C19_mkxreq h rs snd] in
        let tmp := C19_mkxfut (Some h) (Some h) in       (* the future returned by the call *)
        let '(x', p2) :=
          match nth s sl C19_SNone with
          | C19_SObj f =>
              if e then (C19_SObj tmp, c19_xdtor f p1)
              else let (t', tmp') := c19_xassign sw k f tmp in (C19_SObj t', c19_xdtor tmp' p1)   (* ~temporary *)
          | _ => (C19_SObj tmp, p1)
          end in
        (C19_XRUnit, C19_mkxstate p2 (c19_set s x' sl) (S h) ((h, val) :: c19_xstore st) ux)
      else (C19_XRSkip, st)
  | C19_XMoveCtor s t =>
      if (s <? n) && (t <? n) then
        match nth t sl C19_SNone, nth s sl C19_SNone with
        | C19_SNone, C19_SObj fs =>
            if e then (C19_XRUnit, upd p (c19_set s C19_SEmpty (c19_set t (C19_SObj fs) sl)))
            else let (nw, old) := c19_xmovector k fs in
                 (C19_XRUnit, upd p (c19_set s (C19_SObj old) (c19_set t (C19_SObj nw) sl)))
        | C19_SNone, C19_SEmpty => (C19_XRUnit, upd p (c19_set t C19_SEmpty sl))
        | _, _ => (C19_XRSkip, st)
        end
      else (C19_XRSkip, st)
  | C19_XAssign s t =>
      if (s <? n) && (t <? n) then
        if s =? t then (C19_XRUnit, st)
        else match nth s sl C19_SNone, nth t sl C19_SNone with
             | C19_SNone, _ | _, C19_SNone => (C19_XRSkip, st)
             | C19_SObj fs, C19_SObj ft =>
                 if e then (C19_XRUnit, upd (c19_xdtor ft p) (c19_set s C19_SEmpty (c19_set t (C19_SObj fs) sl)))
                 else let (t', s') := c19_xassign sw k ft fs in
                      (C19_XRUnit, upd p (c19_set s (C19_SObj s') (c19_set t (C19_SObj t') sl)))
             | xs, xt => (C19_XRUnit, upd (c19_xslot_dtor xt p) (c19_set s C19_SEmpty (c19_set t xs sl)))
             end
      else (C19_XRSkip, st)
  | C19_XDestroy s =>
      if s <? n then
        match nth s sl C19_SNone with
        | C19_SNone => (C19_XRSkip, st)
        | x => (C19_XRUnit, upd (c19_xslot_dtor x p) (c19_set s C19_SNone sl))
        end
      else (C19_XRSkip, st)
  | C19_XValid s => member s (fun f => (C19_XRBool (match c19_xdt f with Some _ => true | None => false end), st))
  | C19_XReady s =>
      member s (fun f =>
        match c19_xstatus f p with
        | C19_XCNull => (C19_XRBool true, st)
        | C19_XCDone => (C19_XRBool true, upd (c19_xdtor f p) (c19_set s (C19_SObj (C19_mkxfut None (c19_xdt f))) sl))
        | C19_XCPending => (C19_XRBool false, st)
        | C19_XCDangling => (C19_XRDangling, st)
        end)
  | C19_XWait s =>
      member s (fun f =>
        match c19_xdt f with
        | None => (C19_XRInvalid, st)
        | Some _ =>
            match c19_xstatus f p with
            | C19_XCNull => (C19_XRUnit, st)
            | C19_XCDone => (C19_XRUnit, upd (c19_xdtor f p) (c19_set s (C19_SObj (C19_mkxfut None (c19_xdt f))) sl))
            | C19_XCPending => (C19_XRBlocks, st)
            | C19_XCDangling => (C19_XRDangling, st)
            end
        end)
  | C19_XGet s =>
      member s (fun f =>
        match c19_xdt f with
        | None => (C19_XRInvalid, st)
        | Some b =>
            match c19_xstatus f p with
            | C19_XCNull => (C19_XRData (c19_xlookup b (c19_xstore st)), upd p (c19_set s (C19_SObj (C19_mkxfut None None)) sl))
            | C19_XCDone => (C19_XRData (c19_xlookup b (c19_xstore st)), upd (c19_xdtor f p) (c19_set s (C19_SObj (C19_mkxfut None None)) sl))
            | C19_XCPending => (C19_XRBlocks, st)
            | C19_XCDangling => (C19_XRDangling, st)
            end
        end)
  end.

Fixpoint c19_xrun (sw e : bool) (k : c19_bkind) (ops : list c19_xop) (st : c19_xstate) : c19_xstate :=
  match ops with [] => st | o :: r => c19_xrun sw e k r (snd (c19_xstep sw e k o st)) end.
(* per step: result, number of requests posted in MPI, number of requests the live futures stand for *)
Fixpoint c19_xtrace (sw e : bool) (k : c19_bkind) (ops : list c19_xop) (st : c19_xstate) : list (c19_xres * (nat * nat)) :=
  match ops with
  | [] => []
  | o :: r => let (res, st') := c19_xstep sw e k o st in
              (res, (length (c19_xpool st'), length (c19_owned (c19_xslots st')))) :: c19_xtrace sw e k r st'
  end.
Definition c19_xinit (nslots : nat) : c19_xstate := C19_mkxstate [] (repeat C19_SNone nslots) 0 [] [].
(* has a message been matched with a receive whose completion no future has observed yet?  (the harness lets the script
   go on only with wait/get on that future: everything else would race with the arrival) *)
Definition c19_xinflight (st : c19_xstate) : list nat :=
  map c19_xh (filter (fun r => match c19_xs r with C19_XDone => negb (c19_xsnd r) | _ => false end) (c19_xpool st)).
