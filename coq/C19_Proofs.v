(* C19 — proofs, part 1: MPIGuard (agreement, termination, re-arming).  Futures: C19_Proofs_Fut.v *)
From Coq Require Import List Bool Arith NArith Lia.
From DuneV Require Import Params_gen C19_Model C19_Spec.
Import ListNotations.

(* ------------------------------------------------------------------------------------------ *)
(** * list helpers *)

Lemma nth_tl : forall (A : Type) (k : nat) (l : list A) (d : A), nth (S k) l d = nth k (tl l) d.
Proof. intros A k [|a l] d; simpl; [destruct k|]; reflexivity. Qed.

Lemma map_nth_seq : forall (A B : Type) (f : A -> B) (d : A) (l : list A),
  map (fun r => f (nth r l d)) (seq 0 (length l)) = map f l.
Proof.
  intros A B f d l. induction l as [|a l IH]; simpl; [reflexivity|].
  f_equal. rewrite <- seq_shift, map_map. exact IH.
Qed.

(* ------------------------------------------------------------------------------------------ *)
(** * the script of a section sequence, one step at a time *)

Definition tl_script (rest : list c19_outcome) : list c19_gop :=
  match rest with [] => [] | _ => C19_React :: c19_body rest end.

Lemma body_cons : forall o rest, c19_body (o :: rest) = c19_op_of o :: tl_script rest.
Proof. intros o [|o' rest]; reflexivity. Qed.

Lemma run_body_cons : forall o rest pc,
  c19_run (c19_body (o :: rest)) pc true =
  match o with
  | C19_Ok => C19_AtColl 0 (C19_KFin true false (tl_script rest) pc)
  | C19_ReportsFailure => C19_AtColl 1 (C19_KFin true false (tl_script rest) pc)
  | C19_Throws => C19_AtColl 1 (C19_KDtor (C19_UserExc pc))
  end.
Proof. intros o rest pc. rewrite body_cons. destruct o; reflexivity. Qed.

Lemma run_tl_script : forall rest pc,
  c19_run (tl_script rest) pc false =
  match rest with [] => C19_Done C19_Normal | _ => c19_run (c19_body rest) (S pc) true end.
Proof. intros [|o rest] pc; reflexivity. Qed.

Lemma run_script : forall act0 os,
  c19_run (c19_script act0 os) 0 act0 = c19_run (c19_body os) (if act0 then 0 else 1) true.
Proof. intros [|] os; reflexivity. Qed.

(* state of the communicator at the start of a section: every process about to run its remaining sections *)
Definition sec_state (pc n : nat) (outs : list (list c19_outcome)) : list (c19_stop * nat) :=
  map (fun os => (c19_run (c19_body os) pc true, n)) outs.

Definition nonempty {A} (l : list A) : Prop := l <> [].

Lemma len_S_nonempty : forall (A : Type) S (outs : list (list A)),
  Forall (fun os => length os = Datatypes.S S) outs -> Forall (fun os => exists o rest, os = o :: rest /\ length rest = S) outs.
Proof.
  intros A S outs H. induction H as [|os outs H _ IH]; constructor; [|exact IH].
  destruct os as [|o rest]; [discriminate|]. exists o, rest. split; [reflexivity|]. simpl in H. lia.
Qed.

Lemma sec_state_all_coll : forall S pc n (outs : list (list c19_outcome)),
  Forall (fun os => length os = Datatypes.S S) outs -> forallb c19_is_coll (sec_state pc n outs) = true.
Proof.
  intros S pc n outs H. apply len_S_nonempty in H. unfold sec_state.
  induction H as [|os outs (o & rest & -> & _) _ IH]; [reflexivity|].
  cbn [map forallb]. rewrite IH, andb_true_r. unfold c19_is_coll. cbn [fst]. rewrite run_body_cons. destruct o; reflexivity.
Qed.

Lemma sec_state_not_done : forall S pc n (outs : list (list c19_outcome)),
  outs <> [] -> Forall (fun os => length os = Datatypes.S S) outs -> forallb c19_is_done (sec_state pc n outs) = false.
Proof.
  intros S pc n outs Hne H. apply len_S_nonempty in H. destruct H as [|os outs (o & rest & -> & _) _]; [congruence|].
  unfold sec_state. cbn [map forallb]. unfold c19_is_done at 1. cbn [fst]. rewrite run_body_cons. destruct o; reflexivity.
Qed.

Lemma sec_state_sum : forall S pc n (outs : list (list c19_outcome)),
  Forall (fun os => length os = Datatypes.S S) outs -> c19_sum (map c19_contrib (sec_state pc n outs)) = c19_nfail outs 0.
Proof.
  intros S pc n outs H. apply len_S_nonempty in H. unfold sec_state, c19_nfail.
  induction H as [|os outs (o & rest & -> & _) _ IH]; [reflexivity|].
  cbn [map filter nth]. unfold c19_sum in *. cbn [fold_right]. rewrite IH.
  unfold c19_contrib. cbn [fst]. rewrite run_body_cons. destruct o; reflexivity.
Qed.

(* a failing section: everybody leaves *)
Lemma sec_state_resume_fail : forall S pc n sum (outs : list (list c19_outcome)),
  0 < sum -> Forall (fun os => length os = Datatypes.S S) outs ->
  map (fun s : c19_stop * nat => (c19_resume sum (fst s), Datatypes.S (snd s))) (sec_state pc n outs) =
  map (fun os => (C19_Done (if c19_is_throw (nth 0 os C19_Ok) then C19_UserExc pc else C19_GuardError pc sum), Datatypes.S n)) outs.
Proof.
  intros S pc n sum outs Hs H. apply len_S_nonempty in H. unfold sec_state. rewrite map_map.
  induction H as [|os outs (o & rest & -> & _) _ IH]; [reflexivity|].
  cbn [map]. rewrite IH. f_equal. cbn [fst snd nth]. rewrite run_body_cons.
  assert (Ht : c19_finalize_throws true sum = true).
  { unfold c19_finalize_throws. rewrite andb_true_r. apply Nat.ltb_lt. exact Hs. }
  destruct o; cbn [c19_resume c19_is_throw]; rewrite ?Ht; reflexivity.
Qed.

Lemma nfail0_all_ok : forall (outs : list (list c19_outcome)),
  c19_nfail outs 0 = 0 -> Forall (fun os => c19_is_ok (nth 0 os C19_Ok) = true) outs.
Proof.
  unfold c19_nfail. induction outs as [|os outs IH]; intros H; constructor.
  - cbn [filter] in H. destruct (c19_is_ok (nth 0 os C19_Ok)); [reflexivity|]. cbn in H. discriminate.
  - apply IH. cbn [filter] in H. destruct (negb (c19_is_ok (nth 0 os C19_Ok))); [cbn in H; discriminate|exact H].
Qed.

(* a clean section: everybody goes on with the remaining sections *)
Lemma sec_state_resume_ok : forall S pc n (outs : list (list c19_outcome)),
  c19_nfail outs 0 = 0 -> Forall (fun os => length os = Datatypes.S S) outs ->
  map (fun s : c19_stop * nat => (c19_resume 0 (fst s), Datatypes.S (snd s))) (sec_state pc n outs) =
  map (fun os => (c19_run (tl_script (tl os)) (Datatypes.S pc) false, Datatypes.S n)) outs.
Proof.
  intros S pc n outs H0 H. apply nfail0_all_ok in H0. apply len_S_nonempty in H. unfold sec_state. rewrite map_map.
  induction H as [|os outs (o & rest & -> & _) _ IH]; [reflexivity|].
  inversion H0 as [|? ? Hok H0' ]; subst. cbn [map]. rewrite (IH H0'). f_equal. cbn [fst snd tl].
  rewrite run_body_cons. cbn [nth] in Hok. destruct o; try discriminate. reflexivity.
Qed.

Lemma all_done_exec : forall fuel (l : list (c19_exit * nat)),
  c19_exec (S fuel) (map (fun p => (C19_Done (fst p), snd p)) l) = C19_Finished (map (fun p => (Some (fst p), snd p)) l).
Proof.
  intros fuel l. cbn [c19_exec].
  assert (H : forallb c19_is_done (map (fun p : c19_exit * nat => (C19_Done (fst p), snd p)) l) = true).
  { induction l as [|p l IH]; [reflexivity|]. cbn [map forallb]. rewrite IH. reflexivity. }
  rewrite H. f_equal. rewrite map_map. apply map_ext. intros p. reflexivity.
Qed.

(* ------------------------------------------------------------------------------------------ *)
(** * the first failing section *)

Lemma nfail_tl : forall outs k, c19_nfail outs (S k) = c19_nfail (map (@tl _) outs) k.
Proof.
  intros outs k. unfold c19_nfail. induction outs as [|os outs IH]; [reflexivity|].
  cbn [map filter]. rewrite nth_tl. destruct (negb (c19_is_ok (nth k (tl os) C19_Ok))); cbn [length]; rewrite IH; reflexivity.
Qed.

Lemma first_fail_shift : forall n outs k,
  c19_first_fail outs (S k) n = option_map S (c19_first_fail (map (@tl _) outs) k n).
Proof.
  induction n as [|n IH]; intros outs k; [reflexivity|].
  cbn [c19_first_fail]. rewrite nfail_tl. destruct (0 <? c19_nfail (map (@tl _) outs) k); [reflexivity|]. apply IH.
Qed.

(* reading of c19_first_fail (used by the statement of the theorem) *)
Lemma first_fail_from_None : forall n outs k0, c19_first_fail outs k0 n = None -> forall k, k0 <= k < k0 + n -> c19_nfail outs k = 0.
Proof.
  induction n as [|n IH]; intros outs k0 H k Hk; [lia|].
  cbn [c19_first_fail] in H. destruct (0 <? c19_nfail outs k0) eqn:E; [discriminate|].
  apply Nat.ltb_ge in E. destruct (Nat.eq_dec k k0) as [->|Hne]; [lia|]. apply (IH outs (S k0) H). lia.
Qed.

Lemma first_fail_from_Some : forall n outs k0 k, c19_first_fail outs k0 n = Some k ->
  k0 <= k < k0 + n /\ 0 < c19_nfail outs k /\ forall j, k0 <= j < k -> c19_nfail outs j = 0.
Proof.
  induction n as [|n IH]; intros outs k0 k H; [discriminate|].
  cbn [c19_first_fail] in H. destruct (0 <? c19_nfail outs k0) eqn:E.
  - inversion H; subst. apply Nat.ltb_lt in E. repeat split; lia.
  - apply Nat.ltb_ge in E. destruct (IH outs (S k0) k H) as (Hk & Hf & Hj). repeat split; try lia.
    intros j Hjk. destruct (Nat.eq_dec j k0) as [->|Hne]; [lia|]. apply Hj. lia.
Qed.

Lemma P_first_fail_None : forall S outs, c19_first_fail outs 0 S = None -> forall k, k < S -> c19_nfail outs k = 0.
Proof. intros S outs H k Hk. apply (first_fail_from_None S outs 0 H). lia. Qed.

Lemma P_first_fail_Some : forall S outs k, c19_first_fail outs 0 S = Some k ->
  k < S /\ 0 < c19_nfail outs k /\ forall j, j < k -> c19_nfail outs j = 0.
Proof.
  intros S outs k H. destruct (first_fail_from_Some S outs 0 k H) as (A & B & C). repeat split; try lia.
  intros j Hj. apply C. lia.
Qed.

(* c19_nfail counts exactly the processes whose outcome in section k is not Ok *)
Lemma P_nfail_zero_iff : forall outs k,
  c19_nfail outs k = 0 <-> forall r, r < length outs -> c19_outcome_at outs r k = C19_Ok.
Proof.
  intros outs k. unfold c19_nfail, c19_outcome_at. induction outs as [|os outs IH]; split; intros H.
  - intros r Hr. simpl in Hr. lia.
  - reflexivity.
  - cbn [filter] in H. destruct (c19_is_ok (nth k os C19_Ok)) eqn:E; cbn [negb] in H; [|cbn in H; discriminate].
    intros [|r] Hr; cbn [nth].
    + destruct (nth k os C19_Ok); try discriminate; reflexivity.
    + apply (proj1 IH H). simpl in Hr. lia.
  - cbn [filter]. assert (E : nth k os C19_Ok = C19_Ok) by (apply (H 0); simpl; lia). rewrite E. cbn.
    apply (proj2 IH). intros r Hr. apply (H (S r)). simpl. lia.
Qed.

(* ------------------------------------------------------------------------------------------ *)
(** * agreement *)

Lemma first_fail_unfold : forall outs k n,
  c19_first_fail outs k (S n) = if 0 <? c19_nfail outs k then Some k else c19_first_fail outs (S k) n.
Proof. reflexivity. Qed.

Definition expected (outs : list (list c19_outcome)) (pc n S : nat) : list (option c19_exit * nat) :=
  match c19_first_fail outs 0 S with
  | None => map (fun _ => (Some C19_Normal, n + S)) outs
  | Some k => map (fun os => (Some (if c19_is_throw (nth k os C19_Ok) then C19_UserExc (pc + 2 * k)
                                    else C19_GuardError (pc + 2 * k) (c19_nfail outs k)), n + k + 1)) outs
  end.

Lemma exec_sections : forall S outs pc n fuel,
  outs <> [] -> Forall (fun os => length os = Datatypes.S S) outs -> S + 2 <= fuel ->
  c19_exec fuel (sec_state pc n outs) = C19_Finished (expected outs pc n (Datatypes.S S)).
Proof.
  induction S as [|S IH]; intros outs pc n fuel Hne Hlen Hfuel.
  - (* a single section *)
    destruct fuel as [|fuel]; [lia|]. cbn [c19_exec].
    rewrite (sec_state_not_done 0 pc n outs Hne Hlen), (sec_state_all_coll 0 pc n outs Hlen), (sec_state_sum 0 pc n outs Hlen).
    unfold expected. cbn [c19_first_fail].
    destruct (0 <? c19_nfail outs 0) eqn:E.
    + apply Nat.ltb_lt in E. rewrite (sec_state_resume_fail 0 pc n _ outs E Hlen).
      destruct fuel as [|fuel]; [lia|].
      rewrite <- (map_map (fun os => (if c19_is_throw (nth 0 os C19_Ok) then C19_UserExc pc else C19_GuardError pc (c19_nfail outs 0), Datatypes.S n))
                          (fun p => (C19_Done (fst p), snd p))).
      rewrite all_done_exec, map_map. f_equal. apply map_ext. intros os. cbn [fst snd].
      replace (pc + 2 * 0) with pc by lia. replace (n + 0 + 1) with (Datatypes.S n) by lia. reflexivity.
    + apply Nat.ltb_ge in E. assert (E0 : c19_nfail outs 0 = 0) by lia. rewrite E0.
      rewrite (sec_state_resume_ok 0 pc n outs E0 Hlen).
      destruct fuel as [|fuel]; [lia|].
      assert (Hst : map (fun os : list c19_outcome => (c19_run (tl_script (tl os)) (Datatypes.S pc) false, Datatypes.S n)) outs
                    = map (fun p => (C19_Done (fst p), snd p)) (map (fun _ : list c19_outcome => (C19_Normal, Datatypes.S n)) outs)).
      { rewrite map_map. apply len_S_nonempty in Hlen. clear -Hlen.
        induction Hlen as [|os outs (o & rest & -> & Hr) _ IH]; [reflexivity|]. cbn [map]. rewrite IH. f_equal.
        cbn [tl fst snd]. destruct rest; [reflexivity|discriminate]. }
      rewrite Hst, all_done_exec, map_map. f_equal. apply map_ext. intros _. cbn [fst snd]. f_equal. lia.
  - (* S+2 sections *)
    destruct fuel as [|fuel]; [lia|]. cbn [c19_exec].
    rewrite (sec_state_not_done _ pc n outs Hne Hlen), (sec_state_all_coll _ pc n outs Hlen), (sec_state_sum _ pc n outs Hlen).
    unfold expected. rewrite first_fail_unfold.
    destruct (0 <? c19_nfail outs 0) eqn:E.
    + apply Nat.ltb_lt in E. rewrite (sec_state_resume_fail _ pc n _ outs E Hlen).
      destruct fuel as [|fuel]; [lia|].
      rewrite <- (map_map (fun os => (if c19_is_throw (nth 0 os C19_Ok) then C19_UserExc pc else C19_GuardError pc (c19_nfail outs 0), Datatypes.S n))
                          (fun p => (C19_Done (fst p), snd p))).
      rewrite all_done_exec, map_map. f_equal. apply map_ext. intros os. cbn [fst snd].
      replace (pc + 2 * 0) with pc by lia. replace (n + 0 + 1) with (Datatypes.S n) by lia. reflexivity.
    + apply Nat.ltb_ge in E. assert (E0 : c19_nfail outs 0 = 0) by lia. rewrite E0.
      rewrite (sec_state_resume_ok _ pc n outs E0 Hlen).
      (* all processes continue with their remaining S+1 sections *)
      assert (Hlen' : Forall (fun os => length os = Datatypes.S S) (map (@tl _) outs)).
      { clear -Hlen. induction Hlen as [|os outs H _ IH]; constructor; [|exact IH]. destruct os; simpl in *; lia. }
      assert (Hst : map (fun os : list c19_outcome => (c19_run (tl_script (tl os)) (Datatypes.S pc) false, Datatypes.S n)) outs
                    = sec_state (Datatypes.S (Datatypes.S pc)) (Datatypes.S n) (map (@tl _) outs)).
      { unfold sec_state. rewrite map_map. apply map_ext_in. intros os Hin.
        rewrite Forall_forall in Hlen. specialize (Hlen os Hin). rewrite run_tl_script.
        destruct os as [|o [|o' rest]]; simpl in Hlen; try lia. reflexivity. }
      rewrite Hst.
      assert (Hne' : map (@tl _) outs <> []) by (destruct outs; [congruence|discriminate]).
      rewrite (IH (map (@tl _) outs) _ _ fuel Hne' Hlen' ltac:(lia)).
      f_equal. unfold expected. rewrite first_fail_shift.
      destruct (c19_first_fail (map (@tl _) outs) 0 (Datatypes.S S)) as [k|]; unfold option_map; cbv beta iota.
      * rewrite map_map. apply map_ext. intros os. rewrite nth_tl, nfail_tl.
        replace (Datatypes.S (Datatypes.S pc) + 2 * k) with (pc + 2 * Datatypes.S k) by lia.
        replace (Datatypes.S n + k + 1) with (n + Datatypes.S k + 1) by lia. reflexivity.
      * rewrite map_map. apply map_ext. intros _. f_equal. lia.
Qed.

Lemma body_length : forall os, length os <= length (c19_body os).
Proof.
  induction os as [|o os IH]; [reflexivity|]. rewrite body_cons. cbn [length].
  destruct os as [|o' os]; [simpl; lia|]. unfold tl_script. cbn [length] in *. lia.
Qed.

Lemma maxlen_ge : forall s scripts, In s scripts -> length s <= c19_maxlen scripts.
Proof.
  intros s scripts. unfold c19_maxlen. induction scripts as [|x scripts IH]; intros H; [destruct H|].
  cbn [fold_right]. destruct H as [->|H]; [lia|]. specialize (IH H). lia.
Qed.

Lemma P_agreement : forall (act0 : bool) (S : nat) (outs : list (list c19_outcome)),
  1 <= S -> Forall (fun os => length os = S) outs ->
  c19_sections_run act0 outs =
  C19_Finished (map (fun r => (Some (fst (c19_spec_exit act0 S outs r)), snd (c19_spec_exit act0 S outs r))) (seq 0 (length outs))).
Proof.
  intros act0 S outs HS Hlen. destruct S as [|S]; [lia|]. clear HS.
  unfold c19_sections_run, c19_guard_scope. rewrite map_map.
  destruct outs as [|os0 outs'].
  - reflexivity.
  - set (outs := os0 :: outs') in *.
    assert (Hst : map (fun x : list c19_outcome => (c19_run (c19_script act0 x) 0 act0, 0)) outs
                  = sec_state (if act0 then 0 else 1) 0 outs).
    { unfold sec_state. apply map_ext. intros os. rewrite run_script. reflexivity. }
    rewrite Hst. rewrite (exec_sections S outs _ 0).
    + f_equal. unfold expected, c19_spec_exit, c19_pc_of, c19_outcome_at.
      destruct (c19_first_fail outs 0 (Datatypes.S S)) as [k|].
      * rewrite <- (map_nth_seq _ _ (fun os => (Some (if c19_is_throw (nth k os C19_Ok) then C19_UserExc ((if act0 then 0 else 1) + 2 * k)
                                                  else C19_GuardError ((if act0 then 0 else 1) + 2 * k) (c19_nfail outs k)), 0 + k + 1)) [] outs).
        apply map_ext. intros r. cbn [fst snd].
        destruct (c19_is_throw (nth k (nth r outs []) C19_Ok)); reflexivity.
      * rewrite <- (map_nth_seq _ _ (fun _ => (Some C19_Normal, 0 + Datatypes.S S)) [] outs). apply map_ext. intros r. reflexivity.
    + discriminate.
    + exact Hlen.
    + assert (H0 : length os0 = Datatypes.S S) by (inversion Hlen; assumption).
      assert (H1 : length (c19_script act0 os0) <= c19_maxlen (map (c19_script act0) outs)) by (apply maxlen_ge; left; reflexivity).
      assert (H2 : length os0 <= length (c19_script act0 os0)).
      { unfold c19_script. rewrite app_length. pose proof (body_length os0). lia. }
      lia.
Qed.

(* ------------------------------------------------------------------------------------------ *)
(** * termination for ARBITRARY scripts: the lock-step execution never runs out of the fuel the driver gives it *)

Definition mu (s : c19_stop) : nat :=
  match s with
  | C19_Done _ => 0
  | C19_AtColl _ (C19_KDtor _) => 1
  | C19_AtColl _ (C19_KFin _ _ rest _) => 2 + length rest
  end.

Lemma mu_run : forall ops pc a, mu (c19_run ops pc a) <= 1 + length ops.
Proof.
  induction ops as [|o ops IH]; intros pc a.
  - destruct a; simpl; lia.
  - destruct o; cbn [c19_run]; try (destruct a; cbn [mu length]; lia).
    destruct a; [cbn [mu length]; lia|]. specialize (IH (S pc) true). cbn [length]. lia.
Qed.

Lemma mu_resume : forall sum c k, mu (c19_resume sum (C19_AtColl c k)) < mu (C19_AtColl c k).
Proof.
  intros sum c [wa react rest pc|e]; cbn [c19_resume mu].
  - destruct (c19_finalize_throws wa sum); [cbn [mu]; lia|]. pose proof (mu_run rest (S pc) react). lia.
  - lia.
Qed.

Lemma exec_fuel_enough : forall fuel st, 1 <= fuel -> Forall (fun s => mu (fst s) < fuel) st -> c19_exec fuel st <> C19_OutOfFuel.
Proof.
  induction fuel as [|fuel IH]; intros st Hf H; [lia|].
  cbn [c19_exec]. destruct (forallb c19_is_done st) eqn:Ed; [discriminate|].
  destruct (forallb c19_is_coll st) eqn:Ec; [|discriminate].
  rewrite forallb_forall in Ec.
  assert (Hall : Forall (fun s : c19_stop * nat => exists c k, fst s = C19_AtColl c k) st).
  { rewrite Forall_forall. intros s Hin. specialize (Ec s Hin). unfold c19_is_coll in Ec.
    destruct (fst s) as [c k|e]; [exists c, k; reflexivity|discriminate]. }
  assert (Hf' : 1 <= fuel).
  { destruct st as [|s st]; [discriminate|]. inversion Hall as [|? ? (c & k & E) _]; subst. inversion H as [|? ? Hm _]; subst.
    rewrite E in Hm. destruct k; cbn [mu] in Hm; lia. }
  apply IH; [exact Hf'|].
  rewrite Forall_forall in *. intros s' Hin. rewrite in_map_iff in Hin. destruct Hin as (s & <- & Hin).
  cbn [fst]. destruct (Hall s Hin) as (c & k & E). specialize (H s Hin). rewrite E in *.
  pose proof (mu_resume (c19_sum (map c19_contrib st)) c k). lia.
Qed.

Lemma P_guard_terminates : forall act0 scripts, c19_guard_scope act0 scripts <> C19_OutOfFuel.
Proof.
  intros act0 scripts. unfold c19_guard_scope. apply exec_fuel_enough; [lia|].
  rewrite Forall_forall. intros s Hin. rewrite in_map_iff in Hin. destruct Hin as (ops & <- & Hin). cbn [fst].
  pose proof (mu_run ops 0 act0). pose proof (maxlen_ge ops scripts Hin). lia.
Qed.

(* ------------------------------------------------------------------------------------------ *)
(** * re-arming: after reactivate() the guard is armed whatever its state was *)

Lemma P_rearm : forall rest pc,
  c19_run (C19_React :: rest) pc false = c19_run rest (S pc) true /\
  (exists c, c19_run (C19_React :: rest) pc true = C19_AtColl c (C19_KFin true true rest pc)) /\
  (forall c, c19_resume 0 (C19_AtColl c (C19_KFin true true rest pc)) = c19_run rest (S pc) true) /\
  (forall c sum, 0 < sum -> c19_resume sum (C19_AtColl c (C19_KFin true true rest pc)) = C19_Done (C19_GuardError pc sum)).
Proof.
  intros rest pc. repeat split.
  - eexists. reflexivity.
  - intros c sum Hs. cbn [c19_resume]. unfold c19_finalize_throws, c19_param_throw_threshold.
    apply Nat.ltb_lt in Hs. rewrite Hs. reflexivity.
Qed.

(* a guard that is not armed never throws: finalize(false) of the destructor and finalize on an inactive guard *)
Lemma P_inactive_silent : forall sum c react rest pc e,
  c19_resume sum (C19_AtColl c (C19_KDtor e)) = C19_Done e /\
  c19_resume sum (C19_AtColl c (C19_KFin false react rest pc)) = c19_run rest (S pc) react.
Proof.
  intros. split; [reflexivity|]. cbn [c19_resume]. unfold c19_finalize_throws. rewrite andb_false_r. reflexivity.
Qed.

Lemma P_example_sections :
  c19_sections_run true [[C19_Ok; C19_Ok]; [C19_Ok; C19_ReportsFailure]; [C19_Ok; C19_Throws]]
  = C19_Finished [(Some (C19_GuardError 2 2), 2); (Some (C19_GuardError 2 2), 2); (Some (C19_UserExc 2), 2)].
Proof. vm_compute. reflexivity. Qed.

(* an unstructured use that DOES deadlock (why the theorem is about section sequences): process 0 throws while its
   guard is not armed, process 1 goes on to the next checkpoint *)
Lemma P_example_deadlock :
  c19_guard_scope true [[C19_FinOk; C19_Throw]; [C19_FinOk; C19_React; C19_FinOk]]
  = C19_Deadlock [(Some (C19_UserExc 1), 1); (None, 2)].
Proof. vm_compute. reflexivity. Qed.

(* ------------------------------------------------------------------------------------------ *)
(** * default arguments (values re-read from the source) *)

Lemma P_finalize_default : forall rest pc a, c19_run (C19_FinDefault :: rest) pc a = c19_run (C19_FinOk :: rest) pc a.
Proof. reflexivity. Qed.

Lemma P_ctor_default : c19_ctor_active None = true /\ forall a, c19_ctor_active (Some a) = a.
Proof. split; reflexivity. Qed.

Lemma P_dtor_reports_failure : forall pc,
  c19_run [] pc true = C19_AtColl 1 (C19_KDtor C19_Normal) /\
  c19_run [] pc false = C19_Done C19_Normal /\
  (forall rest, c19_run (C19_Throw :: rest) pc true = C19_AtColl 1 (C19_KDtor (C19_UserExc pc))) /\
  (forall rest, c19_run (C19_Throw :: rest) pc false = C19_Done (C19_UserExc pc)).
Proof. intros pc. repeat split. Qed.

(* ------------------------------------------------------------------------------------------ *)
(** * the prescription, read declaratively *)

Lemma first_fail_None_intro : forall n outs k0, (forall k, k0 <= k < k0 + n -> c19_nfail outs k = 0) -> c19_first_fail outs k0 n = None.
Proof.
  induction n as [|n IH]; intros outs k0 H; [reflexivity|].
  rewrite first_fail_unfold. rewrite (H k0) by lia. cbn [Nat.ltb Nat.leb]. apply IH. intros k Hk. apply H. lia.
Qed.

Lemma first_fail_Some_intro : forall n outs k0 k, k0 <= k < k0 + n -> 0 < c19_nfail outs k ->
  (forall j, k0 <= j < k -> c19_nfail outs j = 0) -> c19_first_fail outs k0 n = Some k.
Proof.
  induction n as [|n IH]; intros outs k0 k Hk Hf Hz; [lia|].
  rewrite first_fail_unfold. destruct (Nat.eq_dec k k0) as [->|Hne].
  - apply Nat.ltb_lt in Hf. rewrite Hf. reflexivity.
  - rewrite (Hz k0) by lia. cbn [Nat.ltb Nat.leb]. apply IH; [lia|exact Hf|]. intros j Hj. apply Hz. lia.
Qed.

Lemma nfail_pos_iff : forall outs k, 0 < c19_nfail outs k <-> exists r, r < length outs /\ c19_outcome_at outs r k <> C19_Ok.
Proof.
  intros outs k. split.
  - intros H. destruct (Nat.eq_dec (c19_nfail outs k) 0) as [E|E]; [lia|].
    (* not all Ok *)
    unfold c19_nfail, c19_outcome_at in *. clear H. induction outs as [|os outs IH]; [simpl in E; congruence|].
    cbn [filter] in E. destruct (c19_is_ok (nth k os C19_Ok)) eqn:Eo; cbn [negb] in E.
    + destruct (IH E) as (r & Hr & Hn). exists (S r). split; [simpl; lia|exact Hn].
    + exists 0. split; [simpl; lia|]. cbn [nth]. intros Hc. rewrite Hc in Eo. discriminate.
  - intros (r & Hr & Hn). destruct (Nat.eq_dec (c19_nfail outs k) 0) as [E|E]; [|lia].
    exfalso. apply Hn. apply (proj1 (P_nfail_zero_iff outs k) E r Hr).
Qed.

Lemma nth_map_seq : forall (A : Type) (f : nat -> A) (d : A) n r, r < n -> nth r (map f (seq 0 n)) d = f r.
Proof.
  intros A f d n r Hr. rewrite (nth_indep _ d (f 0)) by (rewrite map_length, seq_length; exact Hr).
  rewrite (map_nth f (seq 0 n) 0 r). rewrite seq_nth by exact Hr. reflexivity.
Qed.

Lemma P_agreement_declarative : forall (act0 : bool) (S : nat) (outs : list (list c19_outcome)) d,
  1 <= S -> Forall (fun os => length os = S) outs ->
  exists res, c19_sections_run act0 outs = C19_Finished res /\ length res = length outs /\
    ((forall r k, r < length outs -> k < S -> c19_outcome_at outs r k = C19_Ok) ->
       forall r, r < length outs -> nth r res d = (Some C19_Normal, S)) /\
    (forall k, k < S -> (exists r, r < length outs /\ c19_outcome_at outs r k <> C19_Ok) ->
       (forall j r, j < k -> r < length outs -> c19_outcome_at outs r j = C19_Ok) ->
       forall r, r < length outs ->
       nth r res d = (Some (if c19_is_throw (c19_outcome_at outs r k) then C19_UserExc (c19_pc_of act0 k)
                            else C19_GuardError (c19_pc_of act0 k) (c19_nfail outs k)), k + 1)).
Proof.
  intros act0 S outs d HS Hlen. eexists. split; [apply (P_agreement act0 S outs HS Hlen)|].
  split; [rewrite map_length, seq_length; reflexivity|]. split.
  - intros Hok r Hr. rewrite nth_map_seq by exact Hr. unfold c19_spec_exit.
    rewrite (first_fail_None_intro S outs 0); [reflexivity|].
    intros k Hk. apply (proj2 (P_nfail_zero_iff outs k)). intros r' Hr'. apply Hok; [exact Hr'|lia].
  - intros k Hk Hex Hbefore r Hr. rewrite nth_map_seq by exact Hr. unfold c19_spec_exit.
    rewrite (first_fail_Some_intro S outs 0 k); [reflexivity|lia|apply (proj2 (nfail_pos_iff outs k) Hex)|].
    intros j Hj. apply (proj2 (P_nfail_zero_iff outs j)). intros r' Hr'. apply Hbefore; [lia|exact Hr'].
Qed.

(* all processes of the communicator take part in the same number of collectives (whatever their outcome): the next scope's
   collectives are matched with each other *)
Lemma P_collectives_aligned : forall act0 S outs r r',
  snd (c19_spec_exit act0 S outs r) = snd (c19_spec_exit act0 S outs r').
Proof. intros. unfold c19_spec_exit. destruct (c19_first_fail outs 0 S); reflexivity. Qed.


(* sequential scopes *)
Lemma P_sequential : forall (scopes : list (bool * list (list c19_outcome))) (Ss : list nat),
  Forall2 (fun sc S => 1 <= S /\ Forall (fun os => length os = S) (snd sc)) scopes Ss ->
  c19_scopes_run scopes = map (fun p => c19_expected (fst (fst p)) (snd p) (snd (fst p))) (combine scopes Ss).
Proof.
  intros scopes Ss H. induction H as [|sc S scopes Ss (HS & Hl) _ IH]; [reflexivity|].
  cbn [c19_scopes_run map combine fst snd]. f_equal; [|exact IH]. apply P_agreement; assumption.
Qed.

(* ------------------------------------------------------------------------------------------ *)
(** * nested guards *)


Lemma outer_outcome_expected : forall S g,
  map (fun o => [c19_outer_outcome o]) (c19_obs_of (c19_expected true S g)) =
  map (fun _ => [if c19_group_failed S g then C19_Throws else C19_Ok]) g.
Proof.
  intros S g. unfold c19_expected, c19_obs_of. rewrite map_map.
  rewrite <- (map_nth_seq _ _ (fun _ : list c19_outcome => [if c19_group_failed S g then C19_Throws else C19_Ok]) [] g).
  apply map_ext. intros r. unfold c19_outer_outcome, c19_spec_exit, c19_group_failed. cbn [fst].
  destruct (c19_first_fail g 0 S) as [k|]; cbn [fst]; [|reflexivity].
  destruct (c19_is_throw (c19_outcome_at g r k)); reflexivity.
Qed.

Lemma P_nested : forall (S : nat) (groups : list (list (list c19_outcome))),
  1 <= S -> Forall (Forall (fun os => length os = S)) groups ->
  c19_nested_run groups =
  (map (c19_expected true S) groups, c19_expected true 1 (c19_outer_outs S groups)).
Proof.
  intros S groups HS Hg. unfold c19_nested_run.
  assert (Hin : map (c19_sections_run true) groups = map (c19_expected true S) groups).
  { induction Hg as [|g groups Hl _ IH]; [reflexivity|]. cbn [map]. rewrite IH. f_equal. apply P_agreement; assumption. }
  rewrite Hin. f_equal.
  assert (Hfin : forallb c19_is_finished (map (c19_expected true S) groups) = true).
  { clear. induction groups as [|g groups IH]; [reflexivity|]. cbn [map forallb]. rewrite IH. reflexivity. }
  rewrite Hfin.
  assert (Houts : map (fun o => [c19_outer_outcome o]) (concat (map c19_obs_of (map (c19_expected true S) groups))) = c19_outer_outs S groups).
  { unfold c19_outer_outs. clear. induction groups as [|g groups IH]; [reflexivity|].
    cbn [map concat]. rewrite map_app, IH, outer_outcome_expected. reflexivity. }
  rewrite Houts. apply P_agreement; [lia|].
  unfold c19_outer_outs. rewrite Forall_forall. intros os Hin'. apply in_concat in Hin'. destruct Hin' as (l & Hl & Hos).
  rewrite in_map_iff in Hl. destruct Hl as (g & <- & _). rewrite in_map_iff in Hos. destruct Hos as (x & <- & _). reflexivity.
Qed.

(* reading: the outer checkpoint agrees on "some process anywhere failed": if some group failed NO process leaves the outer
   scope normally, otherwise all do *)
Lemma outer_nfail_zero_iff : forall S groups,
  c19_nfail (c19_outer_outs S groups) 0 = 0 <-> forallb (fun g => negb (c19_group_failed S g) || match g with [] => true | _ => false end) groups = true.
Proof.
  intros S groups. unfold c19_outer_outs, c19_nfail. induction groups as [|g groups IH]; [split; reflexivity|].
  cbn [map concat forallb]. rewrite filter_app, app_length.
  destruct (c19_group_failed S g) eqn:E; cbn [negb orb].
  - destruct g as [|os g]; cbn [map filter length].
    + rewrite andb_true_l. exact IH.
    + cbn [nth c19_is_ok negb length]. split; [intros H; simpl in H; lia|intros H; discriminate].
  - rewrite andb_true_l.
    assert (Hz : length (filter (fun os : list c19_outcome => negb (c19_is_ok (nth 0 os C19_Ok))) (map (fun _ : list c19_outcome => [C19_Ok]) g)) = 0).
    { clear. induction g as [|os g IHg]; [reflexivity|]. cbn [map filter nth c19_is_ok negb]. exact IHg. }
    rewrite Hz. exact IH.
Qed.

Lemma P_example_nested :
  c19_nested_run [ [[C19_Ok]; [C19_ReportsFailure]] ; [[C19_Ok]; [C19_Ok]; [C19_Ok]] ] =
  ( [ C19_Finished [(Some (C19_GuardError 0 1), 1); (Some (C19_GuardError 0 1), 1)];
      C19_Finished [(Some C19_Normal, 1); (Some C19_Normal, 1); (Some C19_Normal, 1)] ],
    C19_Finished [(Some (C19_UserExc 0), 1); (Some (C19_UserExc 0), 1);
                  (Some (C19_GuardError 0 2), 1); (Some (C19_GuardError 0 2), 1); (Some (C19_GuardError 0 2), 1)] ).
Proof. vm_compute. reflexivity. Qed.

Lemma P_example_sequential :
  c19_scopes_run [(true, [[C19_Ok; C19_Throws]; [C19_Ok; C19_Ok]]); (false, [[C19_ReportsFailure]; [C19_Ok]])] =
  [ C19_Finished [(Some (C19_UserExc 2), 2); (Some (C19_GuardError 2 1), 2)];
    C19_Finished [(Some (C19_GuardError 1 1), 1); (Some (C19_GuardError 1 1), 1)] ].
Proof. vm_compute. reflexivity. Qed.

(* ------------------------------------------------------------------------------------------ *)
(** * split communicators: c19_groups is the partition of the world ranks by colour *)

Lemma in_group_of : forall colors c r, In r (c19_group_of colors c) <-> r < length colors /\ nth r colors 0 = c.
Proof.
  intros colors c r. unfold c19_group_of. rewrite filter_In, in_seq, Nat.eqb_eq. split; intros (A & B); (split; [lia|exact B]).
Qed.

Lemma P_groups_partition : forall colors r, r < length colors ->
  In (c19_group_of colors (nth r colors 0)) (c19_groups colors) /\
  (forall g, In g (c19_groups colors) -> In r g -> g = c19_group_of colors (nth r colors 0)) /\
  In r (c19_group_of colors (nth r colors 0)).
Proof.
  intros colors r Hr. unfold c19_groups. repeat split.
  - apply in_map. apply nodup_In. apply nth_In. exact Hr.
  - intros g Hg Hin. rewrite in_map_iff in Hg. destruct Hg as (c & <- & _). apply in_group_of in Hin. destruct Hin as (_ & ->). reflexivity.
  - apply in_group_of. split; [exact Hr|reflexivity].
Qed.

Lemma P_groups_shape : forall colors g, In g (c19_groups colors) ->
  g <> [] /\ NoDup g /\ (forall r, In r g -> r < length colors) /\ (forall r r', In r g -> In r' g -> nth r colors 0 = nth r' colors 0).
Proof.
  intros colors g Hg. unfold c19_groups in Hg. rewrite in_map_iff in Hg. destruct Hg as (c & <- & Hc). rewrite nodup_In in Hc.
  repeat split.
  - destruct (In_nth colors c 0 Hc) as (r & Hr & E). intros Hnil.
    assert (Hin : In r (c19_group_of colors c)) by (apply in_group_of; split; assumption). rewrite Hnil in Hin. destruct Hin.
  - unfold c19_group_of. apply NoDup_filter. apply seq_NoDup.
  - intros r Hin. apply in_group_of in Hin. tauto.
  - intros r r' H1 H2. apply in_group_of in H1. apply in_group_of in H2. destruct H1 as (_ & ->). destruct H2 as (_ & ->). reflexivity.
Qed.

Lemma P_groups_disjoint_count : forall colors, NoDup (c19_groups colors).
Proof.
  intros colors. unfold c19_groups.
  assert (H : forall l, NoDup l -> (forall c, In c l -> In c colors) -> NoDup (map (c19_group_of colors) l)).
  { induction l as [|c l IH]; intros Hnd Hsub; [constructor|]. inversion Hnd as [|? ? Hnotin Hnd']; subst. cbn [map]. constructor.
    - intros Hin. rewrite in_map_iff in Hin. destruct Hin as (c' & E & Hc').
      destruct (In_nth colors c 0 (Hsub c (or_introl eq_refl))) as (r & Hr & Er).
      assert (Hin : In r (c19_group_of colors c)) by (apply in_group_of; split; assumption).
      rewrite <- E in Hin. apply in_group_of in Hin. destruct Hin as (_ & E'). rewrite Er in E'. subst c'. exact (Hnotin Hc').
    - apply IH; [exact Hnd'|]. intros c0 H0. apply Hsub. right. exact H0. }
  apply H; [apply NoDup_nodup|]. intros c Hc. rewrite nodup_In in Hc. exact Hc.
Qed.
