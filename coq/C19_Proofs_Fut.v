(* C19 — proofs, part 2: futures.  The trace of the MPIFuture model under ANY history of member calls and
   completion events, and of the PseudoFuture model under any call sequence, is accepted by the specification. *)
From Coq Require Import List Bool Arith NArith Lia.
From DuneV Require Import Params_gen C19_Model C19_Spec.
Import ListNotations.

Definition c19_no_move (h : list c19_fev) : Prop := Forall (fun e => e <> C19_EvOp C19_Move) h.
Definition c19_get_ok (cfg : c19_cfg) (k : c19_bkind) : bool :=
  match k with C19_BVoid => c19_void_get_clears cfg | _ => true end.
Definition c19_move_ok (cfg : c19_cfg) (k : c19_bkind) : bool :=
  match k with C19_BValue => true | _ => c19_move_clears cfg end.

Section FutProofs.
  Variable D : Type.
  Variable deqb : D -> D -> bool.
  Hypothesis deqb_refl : forall d, deqb d d = true.
  Variable cfg : c19_cfg.
  Variable k : c19_bkind.
  Variable v : D.
  Hypothesis Hget : c19_get_ok cfg k = true.

  (* model state  ~  abstract state (taken, enabled, known) of the acceptor *)
  Definition inv (f : c19_fut D) (taken enabled known : bool) : Prop :=
    c19_fvalid f = negb taken /\
    (taken = false ->
       match c19_rq f with
       | C19_ReqActive false => known = false
       | _ => enabled = true /\ c19_buf f = Some v
       end).

  Lemma buf_after_get_none : forall b : option D, c19_buf_after_get cfg k b = None.
  Proof. intros b. unfold c19_buf_after_get. unfold c19_get_ok in Hget. destruct k; try reflexivity. rewrite Hget. reflexivity. Qed.

  Lemma accept_trace : forall h f taken enabled known,
    inv f taken enabled known -> (c19_move_ok cfg k = true \/ c19_no_move h) ->
    c19_spec_accept deqb v taken enabled known (c19_ftrace cfg k v h f) = true.
  Proof.
    induction h as [|e h IH]; intros f taken enabled known (Hv & Hst) Hmv; [reflexivity|].
    assert (Hmv' : c19_move_ok cfg k = true \/ c19_no_move h).
    { destruct Hmv as [Hm|Hm]; [left; exact Hm|right; inversion Hm; assumption]. }
    destruct f as [buf rq]. unfold c19_fvalid in Hv. cbn [c19_buf c19_rq] in *.
    destruct e as [o|].
    - (* a member call *)
      destruct o; cbn [c19_ftrace c19_fstep].
      + (* valid *)
        cbn [app c19_spec_accept]. unfold c19_fvalid. cbn [c19_buf].
        rewrite Hv, eqb_reflx. cbn [andb]. apply IH; [|exact Hmv']. split; [exact Hv|exact Hst].
      + (* ready *)
        unfold c19_mpi_test. cbn [c19_rq c19_buf].
        destruct taken.
        * (* invalid future: unconstrained, stays invalid *)
          destruct rq as [|[|]]; cbn [app c19_spec_accept andb]; apply IH; try exact Hmv'; (split; [exact Hv|discriminate]).
        * specialize (Hst eq_refl).
          destruct rq as [|[|]]; cbn [app c19_spec_accept].
          -- destruct Hst as (-> & Hb). cbn [andb]. apply IH; [|exact Hmv']. split; [exact Hv|]. intros _. split; [reflexivity|exact Hb].
          -- destruct Hst as (-> & Hb). cbn [andb]. apply IH; [|exact Hmv']. split; [exact Hv|]. intros _. cbn [c19_rq c19_buf]. split; [reflexivity|exact Hb].
          -- rewrite Hst. cbn [negb andb]. apply IH; [|exact Hmv']. split; [exact Hv|]. intros _. reflexivity.
      + (* wait *)
        unfold c19_fvalid, c19_pending, c19_mpi_wait, c19_complete. cbn [c19_buf c19_rq].
        destruct taken.
        * destruct buf; [discriminate|]. cbn [app c19_spec_accept andb]. apply IH; [|exact Hmv']. split; [reflexivity|discriminate].
        * specialize (Hst eq_refl). destruct buf as [d|]; [|discriminate].
          destruct rq as [|[|]]; cbn [app c19_spec_accept option_map c19_buf].
          -- destruct Hst as (-> & Hb). cbn [andb]. apply IH; [|exact Hmv']. split; [reflexivity|]. intros _. split; [reflexivity|exact Hb].
          -- destruct Hst as (-> & Hb). cbn [andb]. apply IH; [|exact Hmv']. split; [reflexivity|]. intros _. split; [reflexivity|exact Hb].
          -- cbn [andb]. apply IH; [|exact Hmv']. split; [reflexivity|]. intros _. split; reflexivity.
      + (* get *)
        unfold c19_fvalid, c19_pending, c19_mpi_wait, c19_complete. cbn [c19_buf c19_rq].
        destruct taken.
        * destruct buf; [discriminate|]. cbn [app c19_spec_accept andb]. apply IH; [|exact Hmv']. split; [reflexivity|discriminate].
        * specialize (Hst eq_refl). destruct buf as [d|]; [|discriminate].
          destruct rq as [|[|]]; cbn [app c19_spec_accept option_map c19_buf]; rewrite buf_after_get_none.
          -- destruct Hst as (-> & Hb). inversion Hb; subst. rewrite deqb_refl. cbn [andb]. apply IH; [|exact Hmv']. split; [reflexivity|discriminate].
          -- destruct Hst as (-> & Hb). inversion Hb; subst. rewrite deqb_refl. cbn [andb]. apply IH; [|exact Hmv']. split; [reflexivity|discriminate].
          -- rewrite deqb_refl. cbn [andb]. apply IH; [|exact Hmv']. split; [reflexivity|discriminate].
      + (* move: the moved-from object must be invalid; the script goes on with the new object = same state *)
        cbn [app c19_spec_accept c19_buf].
        assert (Hold : (match c19_buf_after_move cfg k buf with Some _ => true | None => false end) = false).
        { destruct Hmv as [Hm|Hm].
          - unfold c19_buf_after_move. unfold c19_move_ok in Hm. destruct k; try reflexivity; rewrite Hm; reflexivity.
          - inversion Hm as [|? ? Hne _]; subst. exfalso. apply Hne. reflexivity. }
        rewrite Hold. cbn [negb andb]. apply IH; [|exact Hmv']. split; [exact Hv|exact Hst].
      + (* move assignment into a default-constructed future: swap, the source is invalid afterwards *)
        cbn [app c19_spec_accept negb andb]. apply IH; [|exact Hmv']. split; [exact Hv|exact Hst].
      + (* get_send_data: behaves like wait *)
        unfold c19_fvalid, c19_pending, c19_mpi_wait, c19_complete. cbn [c19_buf c19_rq].
        destruct taken.
        * destruct buf; [discriminate|]. cbn [app c19_spec_accept andb]. apply IH; [|exact Hmv']. split; [reflexivity|discriminate].
        * specialize (Hst eq_refl). destruct buf as [d|]; [|discriminate].
          destruct rq as [|[|]]; cbn [app c19_spec_accept option_map c19_buf].
          -- destruct Hst as (-> & Hb). cbn [andb]. apply IH; [|exact Hmv']. split; [reflexivity|]. intros _. split; [reflexivity|exact Hb].
          -- destruct Hst as (-> & Hb). cbn [andb]. apply IH; [|exact Hmv']. split; [reflexivity|]. intros _. split; [reflexivity|exact Hb].
          -- cbn [andb]. apply IH; [|exact Hmv']. split; [reflexivity|]. intros _. split; reflexivity.
    - (* completion in the network *)
      cbn [c19_ftrace]. unfold c19_pending, c19_complete. cbn [c19_rq c19_buf].
      destruct rq as [|[|]]; cbn [app c19_spec_accept].
      + apply IH; [|exact Hmv']. split; [exact Hv|exact Hst].
      + apply IH; [|exact Hmv']. split; [exact Hv|exact Hst].
      + apply IH; [|exact Hmv']. split.
        * unfold c19_fvalid. cbn [c19_buf]. destruct buf; exact Hv.
        * intros Ht. cbn [c19_rq c19_buf]. split; [reflexivity|]. subst taken. destruct buf; [reflexivity|discriminate].
  Qed.

  Lemma inv_started : forall init, inv (c19_fut_started init) false false false.
  Proof. intros init. split; [reflexivity|]. intros _. reflexivity. Qed.
  Lemma inv_default : inv c19_fut_default true false false.
  Proof. split; [reflexivity|discriminate]. Qed.

  (* exactly once, as a consequence of acceptance *)
  Lemma accept_once : forall tr taken enabled known,
    c19_spec_accept deqb v taken enabled known tr = true ->
    c19_count_data tr <= (if taken then 0 else 1) /\ c19_all_data_is deqb v tr = true.
  Proof.
    induction tr as [|it tr IH]; intros taken enabled known H; [destruct taken; simpl; split; (lia || reflexivity)|].
    destruct it as [o r|].
    - destruct o; cbn [c19_spec_accept] in H.
      + apply andb_true_iff in H. destruct H as (Hr & H). destruct r; try discriminate. cbn [c19_count_data c19_all_data_is]. exact (IH _ _ _ H).
      + destruct taken.
        * apply andb_true_iff in H. destruct H as (Hr & H). destruct r; try discriminate; cbn [c19_count_data c19_all_data_is]; exact (IH _ _ _ H).
        * destruct r as [[|]| |d| |]; try discriminate; apply andb_true_iff in H; destruct H as (_ & H);
            cbn [c19_count_data c19_all_data_is]; exact (IH _ _ _ H).
      + destruct taken; apply andb_true_iff in H; destruct H as (Hr & H); destruct r; try discriminate;
          cbn [c19_count_data c19_all_data_is]; exact (IH _ _ _ H).
      + destruct taken; apply andb_true_iff in H; destruct H as (Hr & H); destruct r; try discriminate.
        * cbn [c19_count_data c19_all_data_is]. exact (IH _ _ _ H).
        * apply andb_true_iff in Hr. destruct Hr as (_ & Hd). cbn [c19_count_data c19_all_data_is]. rewrite Hd.
          destruct (IH _ _ _ H) as (Hc & Ha). cbn [andb]. split; [lia|exact Ha].
      + apply andb_true_iff in H. destruct H as (Hr & H). destruct r; try discriminate. cbn [c19_count_data c19_all_data_is]. exact (IH _ _ _ H).
      + apply andb_true_iff in H. destruct H as (Hr & H). destruct r; try discriminate. cbn [c19_count_data c19_all_data_is]. exact (IH _ _ _ H).
      + destruct taken; apply andb_true_iff in H; destruct H as (Hr & H); destruct r; try discriminate;
          cbn [c19_count_data c19_all_data_is]; exact (IH _ _ _ H).
    - cbn [c19_spec_accept] in H. cbn [c19_count_data c19_all_data_is]. exact (IH _ _ _ H).
  Qed.

  (* PseudoFuture *)
  Lemma accept_ptrace : forall ops f known,
    c19_pdata f = v -> Forall (fun o => In o [C19_Valid; C19_Ready; C19_Wait; C19_Get]) ops ->
    c19_spec_accept deqb v (negb (c19_pvalid f)) true known (c19_ptrace ops f) = true.
  Proof.
    induction ops as [|o ops IH]; intros [pv pd] known Hd Hm; [reflexivity|].
    cbn [c19_pdata] in Hd. subst pd. inversion Hm as [|? ? Hne Hm']; subst.
    destruct o; cbn [c19_ptrace c19_pstep c19_pvalid c19_pdata];
      try (exfalso; cbn in Hne; repeat (destruct Hne as [Hne|Hne]; [discriminate|]); exact Hne).
    - cbn [c19_spec_accept]. rewrite negb_involutive, eqb_reflx. cbn [andb]. apply (IH (C19_mkpfut pv v)); [reflexivity|exact Hm'].
    - destruct pv; cbn [negb c19_spec_accept andb].
      + apply (IH (C19_mkpfut true v)); [reflexivity|exact Hm'].
      + apply (IH (C19_mkpfut false v)); [reflexivity|exact Hm'].
    - destruct pv; cbn [negb c19_spec_accept andb].
      + apply (IH (C19_mkpfut true v)); [reflexivity|exact Hm'].
      + apply (IH (C19_mkpfut false v)); [reflexivity|exact Hm'].
    - destruct pv; cbn [negb c19_spec_accept c19_ptrace].
      + rewrite deqb_refl. cbn [andb]. apply (IH (C19_mkpfut false v)); [reflexivity|exact Hm'].
      + cbn [andb]. apply (IH (C19_mkpfut false v)); [reflexivity|exact Hm'].
  Qed.
  (* ---- type-erased wrapper ---- *)
  Lemma etrace_some_eq : forall h f, Forall (fun e => e <> C19_EvOp C19_SendData) h ->
    c19_etrace cfg k v h (Some f) = c19_ftrace cfg C19_BValue v h f.
  Proof.
    induction h as [|e h IH]; intros f Hs; [reflexivity|].
    inversion Hs as [|? ? Hne Hs']; subst.
    destruct e as [o|].
    - destruct o; cbn [c19_etrace c19_estep c19_ftrace].
      + cbn [c19_fstep]. rewrite IH by exact Hs'. reflexivity.
      + cbn [c19_fstep]. destruct (c19_mpi_test f) as [b f']. rewrite IH by exact Hs'. reflexivity.
      + cbn [c19_fstep]. destruct (c19_fvalid f); rewrite IH by exact Hs'; reflexivity.
      + cbn [c19_fstep]. destruct (c19_fvalid f); [|rewrite IH by exact Hs'; reflexivity].
        rewrite buf_after_get_none. cbn [c19_buf_after_get]. rewrite IH by exact Hs'. reflexivity.
      + cbn [c19_fstep c19_buf_after_move]. rewrite IH by exact Hs'. reflexivity.
      + cbn [c19_fstep]. rewrite IH by exact Hs'. reflexivity.
      + exfalso. apply Hne. reflexivity.
    - cbn [c19_etrace c19_ftrace]. rewrite IH by exact Hs'. reflexivity.
  Qed.

  Lemma accept_etrace_none : forall h enabled known,
    c19_spec_accept deqb v true enabled known (c19_etrace cfg k v h None) = true.
  Proof.
    induction h as [|e h IH]; intros enabled known; [reflexivity|].
    destruct e as [o|]; [|cbn [c19_etrace]; apply IH].
    destruct o; cbn [c19_etrace c19_estep app c19_spec_accept negb Bool.eqb andb]; apply IH.
  Qed.

  (* ---- ready once completed; never pending again ---- *)
  Definition ready_true (it : c19_titem D) : Prop :=
    match it with C19_TOp C19_Ready r => r = C19_RBool true | _ => True end.

  Lemma ready_after_completion : forall h f, c19_pending f = false -> Forall ready_true (c19_ftrace cfg k v h f).
  Proof.
    induction h as [|e h IH]; intros [buf rq] Hp; [constructor|].
    unfold c19_pending in Hp. cbn [c19_rq] in Hp.
    destruct e as [o|].
    - destruct o; cbn [c19_ftrace c19_fstep].
      + constructor; [exact I|]. apply IH. exact Hp.
      + unfold c19_mpi_test. cbn [c19_rq c19_buf]. destruct rq as [|[|]]; try discriminate;
          (constructor; [reflexivity|]; apply IH; reflexivity).
      + unfold c19_fvalid, c19_pending, c19_mpi_wait, c19_complete. cbn [c19_buf c19_rq].
        destruct buf; destruct rq as [|[|]]; try discriminate; cbn [app c19_buf];
          (constructor; [exact I|]; apply IH; reflexivity).
      + unfold c19_fvalid, c19_pending, c19_mpi_wait, c19_complete. cbn [c19_buf c19_rq].
        destruct buf; destruct rq as [|[|]]; try discriminate; cbn [app c19_buf];
          (constructor; [exact I|]; apply IH; reflexivity).
      + constructor; [exact I|]. apply IH. exact Hp.
      + constructor; [exact I|]. apply IH. exact Hp.
      + unfold c19_fvalid, c19_pending, c19_mpi_wait, c19_complete. cbn [c19_buf c19_rq].
        destruct buf; destruct rq as [|[|]]; try discriminate; cbn [app c19_buf];
          (constructor; [exact I|]; apply IH; reflexivity).
    - cbn [c19_ftrace]. unfold c19_pending, c19_complete. cbn [c19_rq].
      destruct rq as [|[|]]; try discriminate; cbn [app]; apply IH; reflexivity.
  Qed.

  Lemma complete_not_pending : forall f, c19_pending (c19_complete v f) = false.
  Proof. intros [buf rq]. unfold c19_pending, c19_complete. cbn [c19_rq]. destruct rq as [|[|]]; reflexivity. Qed.
End FutProofs.

(* ------------------------------------------------------------------------------------------ *)
(** * statements used by Properties_C19.v *)

Lemma P_future : forall (D : Type) (deqb : D -> D -> bool), (forall d, deqb d d = true) ->
  forall (k : c19_bkind) (v init : D) (h : list c19_fev), c19_no_move h ->
  c19_spec_accept deqb v false false false (c19_ftrace c19_cfg_fixed k v h (c19_fut_started init)) = true /\
  c19_spec_accept deqb v true false false (c19_ftrace c19_cfg_fixed k v h c19_fut_default) = true.
Proof.
  intros D deqb Hr k v init h Hm. split.
  - apply accept_trace; [exact Hr|destruct k; reflexivity|apply inv_started|right; exact Hm].
  - apply accept_trace; [exact Hr|destruct k; reflexivity|apply inv_default|right; exact Hm].
Qed.

Lemma P_future_once : forall (D : Type) (deqb : D -> D -> bool), (forall d, deqb d d = true) ->
  forall (k : c19_bkind) (v init : D) (h : list c19_fev), c19_no_move h ->
  let tr := c19_ftrace c19_cfg_fixed k v h (c19_fut_started init) in
  c19_count_data tr <= 1 /\ c19_all_data_is deqb v tr = true /\
  c19_count_data (c19_ftrace c19_cfg_fixed k v h c19_fut_default) = 0.
Proof.
  intros D deqb Hr k v init h Hm tr. destruct (P_future D deqb Hr k v init h Hm) as (H1 & H2).
  destruct (accept_once D deqb v _ _ _ _ H1) as (A & B). destruct (accept_once D deqb v _ _ _ _ H2) as (C & _).
  repeat split; [exact A|exact B|]. simpl in C. lia.
Qed.

(* the code as it is: every buffer kind except void *)
Lemma P_future_unfixed_nonvoid : forall (D : Type) (deqb : D -> D -> bool), (forall d, deqb d d = true) ->
  forall (k : c19_bkind) (v init : D) (h : list c19_fev), k <> C19_BVoid -> c19_no_move h ->
  c19_spec_accept deqb v false false false (c19_ftrace c19_cfg_current k v h (c19_fut_started init)) = true.
Proof.
  intros D deqb Hr k v init h Hk Hm.
  apply accept_trace; [exact Hr|destruct k; try reflexivity; congruence|apply inv_started|right; exact Hm].
Qed.

(* ... and void refuted: get; valid  gives  g[] v1  (F-C19-1) *)
Lemma P_future_void_refuted : exists h : list c19_fev, c19_no_move h /\
  c19_spec_accept (fun _ _ : unit => true) tt false false false
    (c19_ftrace c19_cfg_current C19_BVoid tt h (c19_fut_started tt)) = false.
Proof.
  exists [C19_EvOp C19_Get; C19_EvOp C19_Valid]. split.
  - repeat constructor; discriminate.
  - vm_compute. reflexivity.
Qed.

(* moves: a future owning its value (Buffer<T>) is invalid after being moved from ... *)
Lemma P_future_move_value : forall (D : Type) (deqb : D -> D -> bool), (forall d, deqb d d = true) ->
  forall (cfg : c19_cfg) (v init : D) (h : list c19_fev),
  c19_spec_accept deqb v false false false (c19_ftrace cfg C19_BValue v h (c19_fut_started init)) = true.
Proof.
  intros D deqb Hr cfg v init h. apply accept_trace; [exact Hr|reflexivity|apply inv_started|left; reflexivity].
Qed.

(* ... a future holding a reference or nothing (Buffer<T&>, Buffer<void>) stays valid (F-C19-2) *)
Lemma P_future_move_refuted : forall k, k <> C19_BValue ->
  c19_spec_accept Nat.eqb 7 false false false (c19_ftrace c19_cfg_fixed k 7 [C19_EvOp C19_Move] (c19_fut_started 0)) = false.
Proof. intros [| |] H; try congruence; vm_compute; reflexivity. Qed.

Lemma P_pseudofuture : forall (D : Type) (deqb : D -> D -> bool), (forall d, deqb d d = true) ->
  forall (v : D) (valid0 : bool) (ops : list c19_fop), Forall (fun o => In o [C19_Valid; C19_Ready; C19_Wait; C19_Get]) ops ->
  let tr := c19_ptrace ops (C19_mkpfut valid0 v) in
  c19_spec_accept deqb v (negb valid0) true false tr = true /\
  c19_count_data tr <= (if valid0 then 1 else 0) /\ c19_all_data_is deqb v tr = true.
Proof.
  intros D deqb Hr v valid0 ops Hm tr.
  assert (H : c19_spec_accept deqb v (negb valid0) true false tr = true)
    by (apply (accept_ptrace D deqb Hr v ops (C19_mkpfut valid0 v) false eq_refl Hm)).
  split; [exact H|]. destruct (accept_once D deqb v _ _ _ _ H) as (A & B). split; [|exact B].
  destruct valid0; exact A.
Qed.

Lemma P_pseudofuture_move_refuted :
  c19_spec_accept Nat.eqb 7 false true false (c19_ptrace [C19_Move] (C19_mkpfut true 7)) = false.
Proof. vm_compute. reflexivity. Qed.

(* MPIFuture<T>(true): a valid future without request behaves like a completed one *)
Lemma P_future_prevalid : forall (D : Type) (deqb : D -> D -> bool), (forall d, deqb d d = true) ->
  forall (k : c19_bkind) (v : D) (h : list c19_fev), c19_no_move h ->
  c19_spec_accept deqb v false true false (c19_ftrace c19_cfg_fixed k v h (c19_fut_prevalid v)) = true.
Proof.
  intros D deqb Hr k v h Hm. apply accept_trace; [exact Hr|destruct k; reflexivity| |right; exact Hm].
  split; [reflexivity|]. intros _. split; reflexivity.
Qed.

(* move assignment (swap with a default-constructed future) leaves the source invalid for EVERY buffer kind, any cfg *)
Lemma P_future_move_assign : forall (D : Type) (cfg : c19_cfg) (k : c19_bkind) (v : D) (f : c19_fut D),
  fst (c19_fstep cfg k v C19_MoveAssign f) = [C19_TOp C19_MoveAssign (C19_RBool false)] /\
  snd (c19_fstep cfg k v C19_MoveAssign f) = f.
Proof. intros. split; reflexivity. Qed.

(* type-erased Dune::Future<T> around an MPIFuture of ANY buffer kind: accepted for ALL histories, moves included *)
Definition c19_no_senddata (h : list c19_fev) : Prop := Forall (fun e => e <> C19_EvOp C19_SendData) h.

Lemma P_erased_future : forall (D : Type) (deqb : D -> D -> bool), (forall d, deqb d d = true) ->
  forall (k : c19_bkind) (v init : D) (h : list c19_fev), c19_no_senddata h ->
  c19_spec_accept deqb v false false false (c19_etrace c19_cfg_fixed k v h (Some (c19_fut_started init))) = true /\
  c19_spec_accept deqb v true false false (c19_etrace c19_cfg_fixed k v h None) = true.
Proof.
  intros D deqb Hr k v init h Hs. split.
  - rewrite (etrace_some_eq D c19_cfg_fixed k v) by (destruct k; reflexivity || exact Hs).
    apply accept_trace; [exact Hr|reflexivity|apply inv_started|left; reflexivity].
  - apply accept_etrace_none.
Qed.

(* "becomes ready once the operation has completed": after the completion event every ready() returns true, whatever
   happens in between (calls, moves, further events) and whatever the buffer kind / code variant *)
Lemma P_ready_after_completion : forall (D : Type) (cfg : c19_cfg) (k : c19_bkind) (v : D) (h : list c19_fev) (f : c19_fut D),
  Forall (fun it => match it with C19_TOp C19_Ready r => r = C19_RBool true | _ => True end)
         (c19_ftrace cfg k v h (c19_complete v f)).
Proof. intros. apply ready_after_completion. apply complete_not_pending. Qed.

(* "reports misuse ... instead of blocking or returning stale data": on an invalid future wait/get/get_send_data return
   InvalidFutureException at once (no wait for the network, state unchanged, no data); get on a valid future waits,
   returns the delivered data and invalidates *)
Lemma P_invalid_rejects : forall (D : Type) (cfg : c19_cfg) (k : c19_bkind) (v : D) (f : c19_fut D), c19_fvalid f = false ->
  c19_fstep cfg k v C19_Wait f = ([C19_TOp C19_Wait C19_RInvalid], f) /\
  c19_fstep cfg k v C19_Get f = ([C19_TOp C19_Get C19_RInvalid], f) /\
  c19_fstep cfg k v C19_SendData f = ([C19_TOp C19_SendData C19_RInvalid], f) /\
  c19_fstep cfg k v C19_Valid f = ([C19_TOp C19_Valid (C19_RBool false)], f).
Proof. intros D cfg k v f H. cbn [c19_fstep]. rewrite H. repeat split. Qed.

Lemma P_get_invalidates : forall (D : Type) (cfg : c19_cfg) (k : c19_bkind) (v init : D) (netdone : bool),
  c19_get_ok cfg k = true ->
  let f := C19_mkfut (Some (if netdone then v else init)) (C19_ReqActive netdone) in
  exists t, c19_fstep cfg k v C19_Get f = (t ++ [C19_TOp C19_Get (C19_RData v)], C19_mkfut None C19_ReqNull).
Proof.
  intros D cfg k v init netdone Hg f. unfold f. cbn [c19_fstep c19_fvalid c19_buf].
  unfold c19_pending, c19_mpi_wait, c19_complete. cbn [c19_rq c19_buf].
  rewrite (buf_after_get_none D cfg k Hg).
  destruct netdone; cbn [option_map c19_buf]; eexists; reflexivity.
Qed.

Lemma P_fut_ctor : forall (D : Type) (v0 : D),
  c19_fut_ctor None v0 = c19_fut_default /\ c19_fut_ctor (Some false) v0 = c19_fut_default /\
  c19_fut_ctor (Some true) v0 = c19_fut_prevalid v0.
Proof. intros. repeat split. Qed.

Lemma P_start_rejected : forall fam op n,
  c19_start_rejected fam op n = true <->
  (fam = C19_FamSeq /\ (op = C19_Isend \/ op = C19_Irecv)) \/ (fam = C19_FamMPI /\ op = C19_Irecv /\ n = 0).
Proof.
  intros fam op n. split.
  - destruct fam, op; cbn; intros H; try discriminate; try (left; split; [reflexivity|tauto]).
    right. apply Nat.eqb_eq in H. tauto.
  - intros [(-> & [-> | ->]) | (-> & -> & ->)]; reflexivity.
Qed.

Lemma P_example_erased :
  c19_etrace c19_cfg_fixed C19_BRef 5 [C19_EvOp C19_Move; C19_EvOp C19_Ready; C19_EvComplete; C19_EvOp C19_MoveAssign; C19_EvOp C19_Get; C19_EvOp C19_Get]
             (Some (c19_fut_started 0))
  = [C19_TOp C19_Move (C19_RBool false); C19_TOp C19_Ready (C19_RBool false); C19_TEnable; C19_TOp C19_MoveAssign (C19_RBool false);
     C19_TOp C19_Get (C19_RData 5); C19_TOp C19_Get C19_RInvalid].
Proof. vm_compute. reflexivity. Qed.

(* a move (construction or assignment) hands the WHOLE state - buffer and request - to the target: the target behaves as the
   source would have (this is what the driver's M / A / S steps rely on: "ready() on the target" is a Ready step on the same state) *)
Lemma P_future_move_state : forall (D : Type) (cfg : c19_cfg) (k : c19_bkind) (v : D) (f : c19_fut D),
  snd (c19_fstep cfg k v C19_Move f) = f /\ snd (c19_fstep cfg k v C19_MoveAssign f) = f /\
  forall o, c19_fstep cfg k v o (snd (c19_fstep cfg k v C19_Move f)) = c19_fstep cfg k v o f.
Proof. intros. repeat split. Qed.

(* non-vacuity: a history in which every kind of event occurs, with its trace *)
Lemma P_example_future :
  c19_ftrace c19_cfg_fixed C19_BValue 42 [C19_EvOp C19_Valid; C19_EvOp C19_Ready; C19_EvComplete; C19_EvOp C19_Ready;
                                            C19_EvOp C19_Get; C19_EvOp C19_Valid; C19_EvOp C19_Get; C19_EvOp C19_Wait] (c19_fut_started 0)
  = [C19_TOp C19_Valid (C19_RBool true); C19_TOp C19_Ready (C19_RBool false); C19_TEnable; C19_TOp C19_Ready (C19_RBool true);
     C19_TOp C19_Get (C19_RData 42); C19_TOp C19_Valid (C19_RBool false); C19_TOp C19_Get C19_RInvalid; C19_TOp C19_Wait C19_RInvalid].
Proof. vm_compute. reflexivity. Qed.
