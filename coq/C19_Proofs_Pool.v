(* C19 — proofs for Part 3 of the model: the multiset of requests posted in MPI equals the multiset of requests the live
   future objects stand for, after every history of special-member calls, member calls and message arrivals. *)
From Coq Require Import List Bool Arith NArith Lia.
From DuneV Require Import Params_gen C19_Model.
Import ListNotations.

Definition cnt (l : list nat) (h : nat) : nat := count_occ Nat.eq_dec l h.

(* the invariant *)
Definition c19_xinv (st : c19_xstate) : Prop :=
  (forall h, cnt (c19_owned (c19_xslots st)) h = cnt (c19_handles (c19_xpool st)) h) /\
  (forall h, cnt (c19_handles (c19_xpool st)) h <= 1) /\
  (forall h, c19_xnext st <= h -> cnt (c19_handles (c19_xpool st)) h = 0).

Lemma cnt_app : forall a b h, cnt (a ++ b) h = cnt a h + cnt b h.
Proof. intros; unfold cnt; apply count_occ_app. Qed.

Lemma cnt_single : forall x h, cnt [x] h = if x =? h then 1 else 0.
Proof. intros; unfold cnt; simpl. destruct (Nat.eq_dec x h); destruct (Nat.eqb_spec x h); try lia; reflexivity. Qed.

Lemma owned_set : forall l s x h, s < length l ->
  cnt (c19_owned (c19_set s x l)) h + cnt (c19_slot_req (nth s l C19_SNone)) h = cnt (c19_owned l) h + cnt (c19_slot_req x) h.
Proof.
  induction l as [|y l IH]; intros s x h Hs; simpl in Hs; [lia|].
  destruct s as [|s]; simpl.
  - unfold c19_owned; simpl. rewrite !cnt_app. lia.
  - unfold c19_owned in *; simpl. rewrite !cnt_app. specialize (IH s x h). lia.
Qed.

Lemma owned_ge : forall l s f h, s < length l -> nth s l C19_SNone = C19_SObj f -> c19_xrq f = Some h -> cnt (c19_owned l) h >= 1.
Proof.
  intros l s f h Hs Hn Hr. generalize (owned_set l s C19_SNone h Hs). rewrite Hn. simpl. rewrite Hr, cnt_single, Nat.eqb_refl. lia.
Qed.

Lemma set_length : forall l s x, length (c19_set s x l) = length l.
Proof. induction l; intros [|s] x; simpl; auto. Qed.

Lemma nth_set_same : forall l s x, s < length l -> nth s (c19_set s x l) C19_SNone = x.
Proof. induction l; intros [|s] x H; simpl in *; try lia; auto. apply IHl; lia. Qed.

Lemma nth_set_other : forall l s t x, s <> t -> nth s (c19_set t x l) C19_SNone = nth s l C19_SNone.
Proof. induction l; intros [|s] [|t] x H; simpl; auto; try lia. Qed.

Lemma handles_remove : forall p h x,
  cnt (c19_handles (c19_xremove h p)) x = if x =? h then 0 else cnt (c19_handles p) x.
Proof.
  induction p as [|r p IH]; intros h x; simpl.
  - destruct (x =? h); reflexivity.
  - destruct (Nat.eqb_spec (c19_xh r) h) as [E|E]; simpl.
    + rewrite IH. unfold cnt at 2; simpl. destruct (Nat.eq_dec (c19_xh r) x); destruct (Nat.eqb_spec x h); try lia; reflexivity.
    + unfold cnt in *; simpl. specialize (IH h x). destruct (Nat.eq_dec (c19_xh r) x); destruct (Nat.eqb_spec x h); try lia.
Qed.

Lemma handles_app : forall p r x, cnt (c19_handles (p ++ [r])) x = cnt (c19_handles p) x + (if c19_xh r =? x then 1 else 0).
Proof. intros. unfold c19_handles. rewrite map_app, cnt_app. change (map c19_xh [r]) with [c19_xh r]. rewrite cnt_single. reflexivity. Qed.

Lemma handles_deliver : forall p b q, c19_xdeliver p = Some (b, q) -> c19_handles q = c19_handles p.
Proof.
  induction p as [|r p IH]; intros b q H; simpl in H; [discriminate|].
  destruct (c19_xs r), (c19_xsnd r); try (destruct (c19_xdeliver p) as [[b' q']|] eqn:E; [|discriminate]; inversion H; subst; simpl; f_equal; eapply IH; eauto).
  inversion H; subst; reflexivity.
Qed.

Lemma find_in : forall h p r, c19_xfind h p = Some r -> cnt (c19_handles p) h >= 1.
Proof.
  induction p as [|y p IH]; intros r H; simpl in H; [discriminate|].
  unfold cnt; simpl. destruct (Nat.eqb_spec (c19_xh y) h).
  - destruct (Nat.eq_dec (c19_xh y) h); lia.
  - specialize (IH r H). unfold cnt in IH. destruct (Nat.eq_dec (c19_xh y) h); lia.
Qed.

Lemma status_owned : forall f p, (c19_xstatus f p = C19_XCDone \/ c19_xstatus f p = C19_XCPending) ->
  exists h, c19_xrq f = Some h /\ cnt (c19_handles p) h >= 1.
Proof.
  intros f p H. unfold c19_xstatus in H. destruct (c19_xrq f) as [h|]; [|destruct H; discriminate].
  exists h; split; auto. destruct (c19_xfind h p) eqn:E; [eapply find_in; eauto|destruct H; discriminate].
Qed.

Lemma inv_init : forall n, c19_xinv (c19_xinit n).
Proof.
  intros n. unfold c19_xinv, c19_xinit; simpl. repeat split; auto.
  intros h. induction n; simpl; auto.
Qed.

Ltac fin := unfold cnt in *; simpl in *;
  repeat match goal with
         | |- context [Nat.eq_dec ?a ?b] => destruct (Nat.eq_dec a b)
         | H : context [Nat.eq_dec ?a ?b] |- _ => destruct (Nat.eq_dec a b)
         | |- context [?a =? ?b] => destruct (Nat.eqb_spec a b)
         | H : context [?a =? ?b] |- _ => destruct (Nat.eqb_spec a b)
         end; subst; try lia.

(* releasing the request of the object in slot s (destruction / completion observed) *)
Lemma inv_release : forall st s f x', s < length (c19_xslots st) -> nth s (c19_xslots st) C19_SNone = C19_SObj f ->
  c19_slot_req x' = [] -> c19_xinv st ->
  c19_xinv (C19_mkxstate (c19_xdtor f (c19_xpool st)) (c19_set s x' (c19_xslots st)) (c19_xnext st) (c19_xstore st) (c19_xunexp st)).
Proof.
  intros st s f x' Hs Hn Hx (I1 & I2 & I3). unfold c19_xinv; simpl.
  assert (E : forall h, cnt (c19_owned (c19_set s x' (c19_xslots st))) h + cnt (c19_slot_req (C19_SObj f)) h = cnt (c19_owned (c19_xslots st)) h).
  { intros h. generalize (owned_set (c19_xslots st) s x' h Hs). rewrite Hn, Hx. unfold cnt at 4; simpl. lia. }
  unfold c19_xdtor. simpl in E. destruct (c19_xrq f) as [h0|].
  - repeat split; intros h; rewrite handles_remove; specialize (E h); specialize (I1 h); specialize (I2 h); specialize (I3 h);
      rewrite cnt_single in E; destruct (Nat.eqb_spec h h0); destruct (Nat.eqb_spec h0 h); subst; try lia.
  - repeat split; intros h; specialize (E h); specialize (I1 h); specialize (I2 h); specialize (I3 h); unfold cnt in E at 2; simpl in E; try lia.
Qed.

Lemma inv_step : forall e k o st, c19_xinv st -> c19_xinv (snd (c19_xstep true e k o st)).
Proof.
  intros e k o st I. generalize I; intros (I1 & I2 & I3).
  destruct o as [sd v s|s t|s t|s|s|s|s|s|v]; unfold c19_xstep.
  - (* post *)
    destruct (Nat.ltb_spec s (length (c19_xslots st))) as [Hs|Hs]; [|exact I].
    assert (Hfresh : cnt (c19_handles (c19_xpool st)) (c19_xnext st) = 0) by (apply I3; lia).
    assert (Q : forall rs sd0 val ux f, nth s (c19_xslots st) C19_SNone = C19_SObj f ->
                c19_xinv (C19_mkxstate (c19_xdtor f (c19_xpool st ++ [C19_mkxreq (c19_xnext st) rs sd0]))
                                       (c19_set s (C19_SObj (C19_mkxfut (Some (c19_xnext st)) (Some (c19_xnext st)))) (c19_xslots st))
                                       (S (c19_xnext st)) ((c19_xnext st, val) :: c19_xstore st) ux)).
    { intros rs sd0 val ux f Hn. unfold c19_xinv; simpl c19_xpool; simpl c19_xslots; simpl c19_xnext.
      assert (E := fun h => owned_set (c19_xslots st) s (C19_SObj (C19_mkxfut (Some (c19_xnext st)) (Some (c19_xnext st)))) h Hs). rewrite Hn in E.
      unfold c19_xdtor. destruct (c19_xrq f) as [h1|] eqn:Hr.
      - assert (h1 <> c19_xnext st).
        { intro; subst h1. generalize (owned_ge _ _ _ _ Hs Hn Hr). specialize (I1 (c19_xnext st)). lia. }
        repeat split; intros h; rewrite handles_remove, handles_app; specialize (E h); specialize (I1 h); specialize (I2 h); specialize (I3 h);
          simpl in E; rewrite Hr in E; fin.
      - repeat split; intros h; rewrite handles_app; specialize (E h); specialize (I1 h); specialize (I2 h); specialize (I3 h);
          simpl in E; rewrite Hr in E; fin. }
    assert (Q2 : forall rs sd0 val ux, c19_slot_req (nth s (c19_xslots st) C19_SNone) = [] ->
                c19_xinv (C19_mkxstate (c19_xpool st ++ [C19_mkxreq (c19_xnext st) rs sd0])
                                       (c19_set s (C19_SObj (C19_mkxfut (Some (c19_xnext st)) (Some (c19_xnext st)))) (c19_xslots st))
                                       (S (c19_xnext st)) ((c19_xnext st, val) :: c19_xstore st) ux)).
    { intros rs sd0 val ux Hn. unfold c19_xinv; simpl c19_xpool; simpl c19_xslots; simpl c19_xnext.
      assert (E := fun h => owned_set (c19_xslots st) s (C19_SObj (C19_mkxfut (Some (c19_xnext st)) (Some (c19_xnext st)))) h Hs). rewrite Hn in E.
      repeat split; intros h; rewrite handles_app; specialize (E h); specialize (I1 h); specialize (I2 h); specialize (I3 h); fin. }
    destruct sd; [|destruct (c19_xunexp st)]; simpl;
      (destruct (nth s (c19_xslots st) C19_SNone) as [| |f] eqn:Hn; [apply Q2; reflexivity|apply Q2; reflexivity|]);
      (destruct e; simpl; apply Q; reflexivity).
  - (* move construction *)
    destruct (Nat.ltb_spec s (length (c19_xslots st))) as [Hs|Hs]; simpl; [|exact I].
    destruct (Nat.ltb_spec t (length (c19_xslots st))) as [Ht|Ht]; simpl; [|exact I].
    destruct (nth t (c19_xslots st) C19_SNone) eqn:Hnt; try exact I.
    destruct (nth s (c19_xslots st) C19_SNone) as [| |fs] eqn:Hns; try exact I.
    + unfold c19_xinv; simpl. repeat split; auto. intros h. generalize (owned_set (c19_xslots st) t C19_SEmpty h Ht). rewrite Hnt. simpl. specialize (I1 h). lia.
    + assert (s <> t) by (intro; subst; rewrite Hnt in Hns; discriminate).
      assert (Hs' : s < length (c19_set t (C19_SObj fs) (c19_xslots st))) by (rewrite set_length; auto).
      destruct e; simpl; unfold c19_xinv; simpl; repeat split; auto; intros h.
      * generalize (owned_set _ s C19_SEmpty h Hs'). rewrite nth_set_other by auto. rewrite Hns.
        generalize (owned_set (c19_xslots st) t (C19_SObj fs) h Ht). rewrite Hnt. simpl. specialize (I1 h). lia.
      * assert (Hs'' : s < length (c19_set t (C19_SObj (C19_mkxfut (c19_xrq fs) (c19_xdt fs))) (c19_xslots st))) by (rewrite set_length; auto).
        generalize (owned_set _ s (C19_SObj (C19_mkxfut None (c19_buf_after_move c19_cfg_fixed k (c19_xdt fs)))) h Hs''). rewrite nth_set_other by auto. rewrite Hns.
        generalize (owned_set (c19_xslots st) t (C19_SObj (C19_mkxfut (c19_xrq fs) (c19_xdt fs))) h Ht). rewrite Hnt. simpl. specialize (I1 h). lia.
  - (* move assignment *)
    destruct (Nat.ltb_spec s (length (c19_xslots st))) as [Hs|Hs]; simpl; [|exact I].
    destruct (Nat.ltb_spec t (length (c19_xslots st))) as [Ht|Ht]; simpl; [|exact I].
    destruct (Nat.eqb_spec s t) as [Est|Est]; [exact I|].
    assert (G : forall xs ft, nth s (c19_xslots st) C19_SNone = xs -> nth t (c19_xslots st) C19_SNone = C19_SObj ft ->
                c19_xinv (C19_mkxstate (c19_xdtor ft (c19_xpool st)) (c19_set s C19_SEmpty (c19_set t xs (c19_xslots st))) (c19_xnext st) (c19_xstore st) (c19_xunexp st))).
    { intros xs ft Hns Hnt.
      assert (R := inv_release st t ft C19_SNone Ht Hnt eq_refl I). destruct R as (R1 & R2 & R3). simpl in *.
      unfold c19_xinv; simpl. repeat split; auto. intros h. rewrite <- R1.
      assert (Hs' : s < length (c19_set t xs (c19_xslots st))) by (rewrite set_length; auto).
      generalize (owned_set _ s C19_SEmpty h Hs'). rewrite nth_set_other by auto. rewrite Hns.
      generalize (owned_set (c19_xslots st) t xs h Ht). rewrite Hnt.
      generalize (owned_set (c19_xslots st) t C19_SNone h Ht). rewrite Hnt. simpl. lia. }
    destruct (nth s (c19_xslots st) C19_SNone) as [| |fs] eqn:Hns; [exact I| |].
    + destruct (nth t (c19_xslots st) C19_SNone) as [| |ft] eqn:Hnt; [exact I| |].
      * simpl. unfold c19_xinv; simpl. repeat split; auto. intros h.
        assert (Hs' : s < length (c19_set t C19_SEmpty (c19_xslots st))) by (rewrite set_length; auto).
        generalize (owned_set _ s C19_SEmpty h Hs'). rewrite nth_set_other by auto. rewrite Hns.
        generalize (owned_set (c19_xslots st) t C19_SEmpty h Ht). rewrite Hnt. simpl. specialize (I1 h). lia.
      * simpl. apply (G C19_SEmpty ft); auto.
    + destruct (nth t (c19_xslots st) C19_SNone) as [| |ft] eqn:Hnt; [exact I| |].
      * simpl. unfold c19_xinv; simpl. repeat split; auto. intros h.
        assert (Hs' : s < length (c19_set t (C19_SObj fs) (c19_xslots st))) by (rewrite set_length; auto).
        generalize (owned_set _ s C19_SEmpty h Hs'). rewrite nth_set_other by auto. rewrite Hns.
        generalize (owned_set (c19_xslots st) t (C19_SObj fs) h Ht). rewrite Hnt. simpl. specialize (I1 h). lia.
      * destruct e; simpl; [apply (G (C19_SObj fs) ft); auto|].
        unfold c19_xinv; simpl. repeat split; auto. intros h.
        assert (Hs' : s < length (c19_set t (C19_SObj fs) (c19_xslots st))) by (rewrite set_length; auto).
        generalize (owned_set _ s (C19_SObj ft) h Hs'). rewrite nth_set_other by auto. rewrite Hns.
        generalize (owned_set (c19_xslots st) t (C19_SObj fs) h Ht). rewrite Hnt. simpl. specialize (I1 h). lia.
  - (* destroy *)
    destruct (Nat.ltb_spec s (length (c19_xslots st))) as [Hs|Hs]; [|exact I].
    destruct (nth s (c19_xslots st) C19_SNone) as [| |f] eqn:Hn; [exact I| |].
    + simpl. unfold c19_xinv; simpl. repeat split; auto. intros h.
      generalize (owned_set (c19_xslots st) s C19_SNone h Hs). rewrite Hn. simpl. specialize (I1 h). lia.
    + simpl. apply inv_release; auto.
  - (* valid *)
    destruct (Nat.ltb_spec s (length (c19_xslots st))); [|exact I]. destruct (nth s (c19_xslots st) C19_SNone); exact I.
  - (* ready *)
    destruct (Nat.ltb_spec s (length (c19_xslots st))) as [Hs|Hs]; [|exact I].
    destruct (nth s (c19_xslots st) C19_SNone) as [| |f] eqn:Hn; try exact I.
    destruct (c19_xstatus f (c19_xpool st)); try exact I. simpl. apply inv_release; auto.
  - (* wait *)
    destruct (Nat.ltb_spec s (length (c19_xslots st))) as [Hs|Hs]; [|exact I].
    destruct (nth s (c19_xslots st) C19_SNone) as [| |f] eqn:Hn; try exact I.
    destruct (c19_xdt f); [|exact I].
    destruct (c19_xstatus f (c19_xpool st)); try exact I. simpl. apply inv_release; auto.
  - (* get *)
    destruct (Nat.ltb_spec s (length (c19_xslots st))) as [Hs|Hs]; [|exact I].
    destruct (nth s (c19_xslots st) C19_SNone) as [| |f] eqn:Hn; try exact I.
    destruct (c19_xdt f); [|exact I].
    destruct (c19_xstatus f (c19_xpool st)) eqn:Hst; try exact I; simpl.
    + (* null request *)
      unfold c19_xinv; simpl. repeat split; auto. intros h.
      generalize (owned_set (c19_xslots st) s (C19_SObj (C19_mkxfut None None)) h Hs). rewrite Hn. simpl.
      unfold c19_xstatus in Hst. destruct (c19_xrq f) eqn:Hr; [destruct (c19_xfind n0 (c19_xpool st)); [destruct (c19_xs c)|]; discriminate|].
      specialize (I1 h). intro. fin.
    + apply inv_release; auto.
  - (* message arrival *)
    destruct (c19_xdeliver (c19_xpool st)) as [[b q]|] eqn:E; simpl; [|exact I].
    unfold c19_xinv; simpl. rewrite (handles_deliver _ _ _ E). auto.
Qed.

Lemma P_requests_owned : forall e k ops st, c19_xinv st -> c19_xinv (c19_xrun true e k ops st).
Proof. intros e k ops; induction ops as [|o r IH]; intros st I; simpl; auto. apply IH, inv_step, I. Qed.

Lemma P_requests_owned_init : forall e k n ops, c19_xinv (c19_xrun true e k ops (c19_xinit n)).
Proof. intros; apply P_requests_owned, inv_init. Qed.

Lemma xrun_app : forall sw e k a b st, c19_xrun sw e k (a ++ b) st = c19_xrun sw e k b (c19_xrun sw e k a st).
Proof. induction a; intros; simpl; auto. Qed.

(* destruction of every object *)
Lemma destroy_slots : forall sw e k s st,
  let st' := snd (c19_xstep sw e k (C19_XDestroy s) st) in
  nth s (c19_xslots st') C19_SNone = C19_SNone /\ (forall i, i <> s -> nth i (c19_xslots st') C19_SNone = nth i (c19_xslots st) C19_SNone).
Proof.
  intros sw e k s st. unfold c19_xstep.
  destruct (Nat.ltb_spec s (length (c19_xslots st))) as [Hs|Hs]; simpl.
  - destruct (nth s (c19_xslots st) C19_SNone) eqn:Hn; simpl; auto; split; try (apply nth_set_same; auto); intros; apply nth_set_other; auto.
  - split; auto. apply nth_overflow; auto.
Qed.

Lemma destroy_range : forall sw e k c start st i,
  (start <= i < start + c \/ nth i (c19_xslots st) C19_SNone = C19_SNone) ->
  nth i (c19_xslots (c19_xrun sw e k (map C19_XDestroy (seq start c)) st)) C19_SNone = C19_SNone.
Proof.
  induction c as [|c IH]; intros start st i H; simpl.
  - destruct H; [lia|auto].
  - apply IH. destruct (destroy_slots sw e k start st) as [A B].
    destruct (Nat.eq_dec i start); [subst; right; exact A|].
    destruct H; [left; lia|right; rewrite B; auto].
Qed.

Lemma owned_all_none : forall l, (forall i, nth i l C19_SNone = C19_SNone) -> c19_owned l = [].
Proof.
  induction l as [|x l IH]; intros H; auto. unfold c19_owned; simpl.
  generalize (H 0); simpl; intro; subst. simpl. apply IH. intros i. apply (H (S i)).
Qed.

Lemma xstep_length : forall sw e k o st, length (c19_xslots (snd (c19_xstep sw e k o st))) = length (c19_xslots st).
Proof.
  intros sw e k o st. unfold c19_xstep.
  destruct o as [sd v s|s t|s t|s|s|s|s|s|v];
  repeat match goal with
         | |- context [if ?b then _ else _] => destruct b; simpl; auto
         | |- context [match nth ?s ?l ?d with _ => _ end] => destruct (nth s l d); simpl; auto
         | |- context [match c19_xdt ?f with _ => _ end] => destruct (c19_xdt f); simpl; auto
         | |- context [match c19_xstatus ?f ?p with _ => _ end] => destruct (c19_xstatus f p); simpl; auto
         | |- context [match c19_xdeliver ?p with _ => _ end] => destruct (c19_xdeliver p) as [[? ?]|]; simpl; auto
         | |- context [match c19_xunexp ?p with _ => _ end] => destruct (c19_xunexp p); simpl; auto
         | |- context [let (_, _) := ?x in _] => destruct x; simpl; auto
         end; rewrite ?set_length; auto.
Qed.

Lemma xrun_length : forall sw e k ops st, length (c19_xslots (c19_xrun sw e k ops st)) = length (c19_xslots st).
Proof. induction ops; intros; simpl; auto. rewrite IHops, xstep_length; auto. Qed.

Lemma P_no_request_left_posted : forall e k n ops,
  c19_xpool (c19_xrun true e k (ops ++ map C19_XDestroy (seq 0 n)) (c19_xinit n)) = [].
Proof.
  intros e k n ops. rewrite xrun_app.
  set (st1 := c19_xrun true e k ops (c19_xinit n)).
  assert (I : c19_xinv (c19_xrun true e k (map C19_XDestroy (seq 0 n)) st1)) by (apply P_requests_owned, P_requests_owned_init).
  assert (L : length (c19_xslots st1) = n) by (unfold st1; rewrite xrun_length; simpl; apply repeat_length).
  assert (O : c19_owned (c19_xslots (c19_xrun true e k (map C19_XDestroy (seq 0 n)) st1)) = []).
  { apply owned_all_none. intros i. apply destroy_range. destruct (Nat.lt_ge_cases i n); [left; lia|right; apply nth_overflow; lia]. }
  destruct I as (I1 & _). rewrite O in I1.
  destruct (c19_xpool (c19_xrun true e k (map C19_XDestroy (seq 0 n)) st1)) as [|r p]; auto.
  specialize (I1 (c19_xh r)). unfold cnt in I1; simpl in I1. destruct (Nat.eq_dec (c19_xh r) (c19_xh r)); [discriminate|congruence].
Qed.

(* a request a live future stands for is known to MPI (never dangling), and no two futures stand for the same request *)
Lemma P_owned_unique : forall e k n ops h,
  cnt (c19_owned (c19_xslots (c19_xrun true e k ops (c19_xinit n)))) h <= 1.
Proof. intros. destruct (P_requests_owned_init e k n ops) as (I1 & I2 & _). rewrite I1. apply I2. Qed.

(* the seeded scenario: receive into a, re-post into b on the SAME variable while the first receive is pending, then 42 arrives *)
Definition ex_repost := [C19_XPost false 0 0; C19_XPost false 0 0; C19_XSend 42; C19_XGet 0; C19_XDestroy 0].
Lemma P_example_repost : forall e,
  c19_xtrace true e C19_BRef ex_repost (c19_xinit 1) =
  [(C19_XRUnit, (1, 1)); (C19_XRUnit, (1, 1)); (C19_XRUnit, (1, 1)); (C19_XRData 42, (0, 0)); (C19_XRUnit, (0, 0))].
Proof. intros []; vm_compute; reflexivity. Qed.

(* the "take over" variant of operator= leaves the first receive posted: it swallows the message and the future blocks *)
Lemma P_takeover_refuted :
  c19_xtrace false false C19_BRef ex_repost (c19_xinit 1) =
  [(C19_XRUnit, (1, 1)); (C19_XRUnit, (2, 1)); (C19_XRUnit, (2, 1)); (C19_XRBlocks, (2, 1)); (C19_XRUnit, (1, 0))] /\
  ~ c19_xinv (c19_xrun false false C19_BRef ex_repost (c19_xinit 1)).
Proof.
  split; [vm_compute; reflexivity|]. intros (I1 & _). specialize (I1 0). vm_compute in I1. discriminate.
Qed.
