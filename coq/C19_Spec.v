(* C19 — the abstract statement and the executable oracles.

   Guard: in a sequence of guarded sections on one communicator, let k be the first section in which
   some process fails (throws or reports failure).  Then every process leaves the scope in section k:
   the throwing ones with their own exception, all the others with MPIGuardError raised at the
   checkpoint of section k; nobody is blocked; if no section fails nobody throws.

   Future: valid until the result is taken; ready only after completion and from then on; wait/get on
   an invalid future raise InvalidFutureException; get yields exactly the delivered data, once. *)
From Coq Require Import List Bool Arith NArith.
From DuneV Require Import C19_Model.
Import ListNotations.

(* ------------------------------------------------------------------------------------------ *)
(** * Guard *)

Definition c19_is_ok (o : c19_outcome) : bool := match o with C19_Ok => true | _ => false end.
Definition c19_is_throw (o : c19_outcome) : bool := match o with C19_Throws => true | _ => false end.

(* outcome of process r in section k (outs is rank-major) *)
Definition c19_outcome_at (outs : list (list c19_outcome)) (r k : nat) : c19_outcome :=
  nth k (nth r outs []) C19_Ok.
(* number of processes failing in section k *)
Definition c19_nfail (outs : list (list c19_outcome)) (k : nat) : nat :=
  length (filter (fun os => negb (c19_is_ok (nth k os C19_Ok))) outs).
(* index of the operation that is the checkpoint of section k in the script *)
Definition c19_pc_of (active0 : bool) (k : nat) : nat := (if active0 then 0 else 1) + 2 * k.

(* first failing section among 0..S-1, searched upwards from k *)
Fixpoint c19_first_fail (outs : list (list c19_outcome)) (k n : nat) : option nat :=
  match n with
  | O => None
  | S n' => if 0 <? c19_nfail outs k then Some k else c19_first_fail outs (S k) n'
  end.

(* what the property prescribes for process r: (how it leaves, number of checkpoints it took part in) *)
Definition c19_spec_exit (active0 : bool) (S : nat) (outs : list (list c19_outcome)) (r : nat) : c19_exit * nat :=
  match c19_first_fail outs 0 S with
  | None => (C19_Normal, S)
  | Some k => (if c19_is_throw (c19_outcome_at outs r k) then C19_UserExc (c19_pc_of active0 k)
               else C19_GuardError (c19_pc_of active0 k) (c19_nfail outs k), k + 1)
  end.

(* the prescribed result of a whole scope *)
Definition c19_expected (act0 : bool) (S : nat) (outs : list (list c19_outcome)) : c19_gres :=
  C19_Finished (map (fun r => (Some (fst (c19_spec_exit act0 S outs r)), snd (c19_spec_exit act0 S outs r))) (seq 0 (length outs))).

(* nested guards: a group has failed iff some section of its inner scope fails *)
Definition c19_group_failed (S : nat) (g : list (list c19_outcome)) : bool :=
  match c19_first_fail g 0 S with Some _ => true | None => false end.

(* outcome of each process in the OUTER scope: unwinding (Throws) iff its group's inner scope failed *)
Definition c19_outer_outs (S : nat) (groups : list (list (list c19_outcome))) : list (list c19_outcome) :=
  concat (map (fun g => map (fun _ => [if c19_group_failed S g then C19_Throws else C19_Ok]) g) groups).

(* ------------------------------------------------------------------------------------------ *)
(** * Future: acceptor of traces (applied to the model's traces in the theorems, to the impl's in the check) *)

Section FutureSpec.
  Variable D : Type.
  Variable deqb : D -> D -> bool.

  (* state of the abstract future: taken (invalid), enabled (the operation can have completed),
     known (completion has been observed by wait or by ready = true) *)
  Fixpoint c19_spec_accept (v : D) (taken enabled known : bool) (tr : list (c19_titem D)) : bool :=
    match tr with
    | [] => true
    | C19_TEnable :: tr' => c19_spec_accept v taken true known tr'
    | C19_TOp C19_Valid r :: tr' =>
        match r with C19_RBool b => Bool.eqb b (negb taken) | _ => false end && c19_spec_accept v taken enabled known tr'
    | C19_TOp C19_Ready r :: tr' =>
        if taken then   (* which of true / false / InvalidFutureException is not fixed by the property; no data may come out *)
          match r with C19_RData _ | C19_RUnit | C19_RSent => false | _ => true end && c19_spec_accept v taken enabled known tr'
        else match r with
             | C19_RBool true => enabled && c19_spec_accept v taken enabled true tr'
             | C19_RBool false => negb known && c19_spec_accept v taken enabled known tr'
             | _ => false
             end
    | C19_TOp C19_Wait r :: tr' =>
        if taken then match r with C19_RInvalid => true | _ => false end && c19_spec_accept v taken enabled known tr'
        else match r with C19_RUnit => enabled | _ => false end && c19_spec_accept v taken enabled true tr'
    | C19_TOp C19_Get r :: tr' =>
        if taken then match r with C19_RInvalid => true | _ => false end && c19_spec_accept v taken enabled known tr'
        else match r with C19_RData d => enabled && deqb d v | _ => false end && c19_spec_accept v true enabled true tr'
    | C19_TOp C19_SendData r :: tr' =>
        if taken then match r with C19_RInvalid => true | _ => false end && c19_spec_accept v taken enabled known tr'
        else match r with C19_RSent => enabled | _ => false end && c19_spec_accept v taken enabled true tr'
    | C19_TOp C19_MoveAssign r :: tr' =>
        match r with C19_RBool b => negb b | _ => false end && c19_spec_accept v taken enabled known tr'
    | C19_TOp C19_Move r :: tr' =>
        (* the moved-from object is invalid *)
        match r with C19_RBool b => negb b | _ => false end && c19_spec_accept v taken enabled known tr'
    end.

  (* number of results handed out, and whether each is the delivered data *)
  Fixpoint c19_count_data (tr : list (c19_titem D)) : nat :=
    match tr with
    | C19_TOp _ (C19_RData _) :: tr' => S (c19_count_data tr')
    | _ :: tr' => c19_count_data tr'
    | [] => 0
    end.
  Fixpoint c19_all_data_is (v : D) (tr : list (c19_titem D)) : bool :=
    match tr with
    | C19_TOp _ (C19_RData d) :: tr' => deqb d v && c19_all_data_is v tr'
    | _ :: tr' => c19_all_data_is v tr'
    | [] => true
    end.
End FutureSpec.
Arguments c19_spec_accept {D}. Arguments c19_count_data {D}. Arguments c19_all_data_is {D}.

(* ------------------------------------------------------------------------------------------ *)
(** * The data a completed non-blocking operation delivers (collective semantics, cf. C07) *)


Fixpoint c19_vadd (a b : list N) : list N :=
  match a, b with x :: a', y :: b' => N.add x y :: c19_vadd a' b' | _, _ => [] end.

(* P processes; ins r = send data of process r; outs r = initial content of its receive buffer;
   point-to-point is a ring: r sends to (r+1) mod P and receives from (r+P-1) mod P *)
Definition c19_spec_data (op : c19_nbop) (P root r : nat) (ins outs : list (list N)) : list N :=
  match op with
  | C19_Isend => nth r ins []
  | C19_Irecv => nth ((r + P - 1) mod P) ins []
  | C19_Ibcast => nth root ins []
  | C19_Igather => if r =? root then concat ins else nth r outs []
  | C19_Iscatter => let src := nth root ins [] in let n := length src / P in firstn n (skipn (r * n) src)
  | C19_Iallgather => concat ins
  | C19_Iallreduce => match ins with [] => [] | x :: rest => fold_left c19_vadd rest x end
  | C19_Ibarrier => []
  end.
