(* Extraction of the C20 model for the correspondence check.  ExtrOcamlBasic + ExtrOcamlString only:
   bool/option/unit/list/prod map to OCaml's, ascii -> char, string -> char list; Z, positive, nat, Q stay
   Coq inductives / records. *)
From Coq Require Import Extraction ExtrOcamlBasic ExtrOcamlString.
From Coq Require Import List ZArith QArith Qreduction String.
From DuneV Require Import C20_Model C20_Spec.
Extraction Language OCaml.
Extraction "c20_model.ml"
  c20_init c20_cfg_current c20_cfg_fixed c20_step_reg c20_run c20_dump Qred
  c20_spec_construct c20_spec_index c20_wfb
  c20_tv_construct c20_tv_getitem c20_tv_setitem c20_tv_copy c20_tv_assign c20_tv_type c20_qadd c20_mutating c20_target c20_dyn_index c20_construct_buffer c20_iter_loop c20_xstep c20_xrun c20_npv_gate c20_buffer_request c20_xreadonly.
