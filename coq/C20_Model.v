(* C20 — executable model of the Python view of dense vectors
   (dune/python/common/{fvector,densevector,vector}.hh, python/dune/common/__init__.py).
   Definitions only (no proofs).

   What is modelled (the glue, not pybind11/NumPy themselves):
     * storage: one flat heap of cells (list Q); a Python-visible object is a kind
       (FieldVector handle / NumPy array view) plus the list of heap cells it addresses, so that
       sharing through the buffer protocol (np.array(v, copy=False), v[a:b:c]) is expressible;
     * constructors of registerFieldVector: zero vector, then the first min(n, len) entries copied;
     * __getitem__/__setitem__ of registerDenseVector (std::size_t argument, bounds check) and the
       Python wrapper _fieldVectorGetItem (fallback to NumPy indexing on TypeError);
     * NumPy/CPython index and slice normalisation (PySlice_AdjustIndices) as used by the fallback;
     * the copy-returning operators, in-place operators, scalar special cases (n = 1 vs n > 1, int vs
       float argument: the pybind11 overload sets of densevector.hh, in registration order),
       comparison, norms, dot product, str/repr (std::to_string = "%f"), len, iteration, copy.
   Entries are exact rationals; the generator only produces dyadic values, which IEEE double
   represents exactly, so Q arithmetic and double arithmetic coincide on the generated data.

   Two switches describe the code before/after the proposed fixes (c20_cfg):
     cfg_setitem_wrapped : __setitem__ has the same NumPy fallback as __getitem__   (fixes/C20-1)
     cfg_copy_self       : FieldVector.copy() without arguments copies self         (fixes/C20-2)
     cfg_npv_stride      : NumPyVector addresses entry i at data()[i*stride]          (fixes/C20-3)
   c20_cfg_current = all false is /repo before the three fix commits (9a703a8, 5aaab64, c31dbb5),
   c20_cfg_fixed = all true is /repo with them.

   Also modelled: Dune::Python::NumPyVector (numpyvector.hh) as a strided view (pointer, stride, size: the
   buffer_info of the wrapped array) over the same heap, and the TupleVector wrapper (tuplevector.hh +
   dune.common.TupleVector) as a list of tagged values. *)
From Coq Require Import List ZArith QArith Qabs Qreduction Bool String Ascii DecimalString.
From DuneV Require Import Params_gen.
Import ListNotations.

(* ---------------------------------------------------------------- heap *)
Definition c20_heap := list Q.
Definition c20_read (H : c20_heap) (a : nat) : Q := nth a H 0%Q.
Fixpoint c20_write (H : c20_heap) (a : nat) (x : Q) : c20_heap :=
  match H, a with
  | [], _ => []
  | _ :: t, O => x :: t
  | h :: t, S a' => h :: c20_write t a' x
  end.
Definition c20_read_all (H : c20_heap) (cells : list nat) : list Q := map (c20_read H) cells.
Fixpoint c20_write_all (H : c20_heap) (cells : list nat) (vals : list Q) : c20_heap :=
  match cells, vals with
  | c :: cs, v :: vs => c20_write_all (c20_write H c v) cs vs
  | _, _ => H
  end.
(* new storage: appended, addresses length H .. length H + length vals - 1 *)
Definition c20_alloc (H : c20_heap) (vals : list Q) : c20_heap * list nat :=
  ((H ++ vals)%list, seq (List.length H) (List.length vals)).

(* ---------------------------------------------------------------- results *)
Inductive c20_exc := C20_IndexError | C20_TypeError | C20_ValueError | C20_RuntimeError.
Inductive c20_res (A : Type) := C20_Ok (a : A) | C20_Exc (e : c20_exc).
Arguments C20_Ok {A} a.
Arguments C20_Exc {A} e.

(* literals re-read from the binding sources by tools/params.d/C20.py (coq/Params_gen.v): exception classes as codes,
   strings as character codes *)
Definition c20_exc_of_code (c : nat) : c20_exc :=
  match c with O => C20_IndexError | S O => C20_TypeError | S (S O) => C20_ValueError | _ => C20_RuntimeError end.
Definition c20_string_of_codes (l : list nat) : string := string_of_list_ascii (map ascii_of_nat l).

Inductive c20_kind := C20_Vec | C20_Arr.
Record c20_obj := { c20_k : c20_kind; c20_cells : list nat }.
Record c20_state := { c20_H : c20_heap; c20_regs : list c20_obj }.
Definition c20_init : c20_state := {| c20_H := []; c20_regs := [] |}.

Record c20_cfg := { cfg_setitem_wrapped : bool; cfg_copy_self : bool; cfg_npv_stride : bool }.
Definition c20_cfg_current := {| cfg_setitem_wrapped := false; cfg_copy_self := false; cfg_npv_stride := false |}.
Definition c20_cfg_fixed := {| cfg_setitem_wrapped := true; cfg_copy_self := true; cfg_npv_stride := true |}.

Inductive c20_obs :=
  | C20_ObsObj (k : c20_kind) (vals : list Q)      (* an object result (it becomes the next register) *)
  | C20_ObsAlias (r : nat)                          (* the result IS register r (same Python object) *)
  | C20_ObsScalar (q : Q)
  | C20_ObsBool (b : bool)
  | C20_ObsInt (z : Z)
  | C20_ObsList (l : list Q)
  | C20_ObsStr (s : string)
  | C20_ObsNone
  | C20_ObsExc (e : c20_exc)
  | C20_ObsUnmodelled.                              (* outside the model: the generator never emits it *)

(* ---------------------------------------------------------------- construction (fvector.hh) *)
(* FV *self = new FV( K(0) ); sz = min(size, x.size()); for( i = 0; i < sz; ++i ) self[i] = x[i]; *)
Fixpoint c20_construct_loop (self x : list Q) (i cnt : nat) : list Q :=
  match cnt with
  | O => self
  | S c => c20_construct_loop (c20_write self i (nth i x 0%Q)) x (S i) c
  end.
Definition c20_construct (n : nat) (x : list Q) : list Q :=
  c20_construct_loop (repeat 0%Q n) x 0 (Nat.min n (List.length x)).

(* ---------------------------------------------------------------- indices *)
Local Open Scope Z_scope.
(* registerDenseVector: [] ( const T &self, std::size_t i ): a negative Python int does not convert to
   std::size_t (pybind11 raises TypeError); if( i < self.size() ) ... else throw index_error *)
Definition c20_cpp_index (n : nat) (i : Z) : c20_res nat :=
  if i <? 0 then C20_Exc C20_TypeError
  else if i <? Z.of_nat n then C20_Ok (Z.to_nat i) else C20_Exc C20_IndexError.
(* NumPy integer indexing: if (i < 0) i += n; if (i < 0 || i >= n) IndexError *)
Definition c20_np_index (n : nat) (i : Z) : c20_res nat :=
  let j := if i <? 0 then i + Z.of_nat n else i in
  if (j <? 0) || (Z.of_nat n <=? j) then C20_Exc C20_IndexError else C20_Ok (Z.to_nat j).
(* _fieldVectorGetItem: try self._getitem(index) except TypeError: np.array(self, copy=False)[index] *)
Definition c20_wrapped_index (n : nat) (i : Z) : c20_res nat :=
  match c20_cpp_index n i with
  | C20_Exc C20_TypeError => c20_np_index n i
  | r => r
  end.
(* DynamicVector (no buffer to fall back to): _dynamicVectorIndex of python/dune/common/__init__.py (709c18d), then the C++ overload:
     if isinstance(index, int) and index < 0: index += len(self); if index < 0: raise IndexError *)
Definition c20_dyn_index (n : nat) (i : Z) : c20_res nat :=
  if i <? 0 then
    (let j := i + Z.of_nat n in
     if j <? 0 then C20_Exc C20_IndexError else c20_cpp_index n j)
  else c20_cpp_index n i.
Definition c20_getitem_index (k : c20_kind) (n : nat) (i : Z) : c20_res nat :=
  match k with C20_Vec => c20_wrapped_index n i | C20_Arr => c20_np_index n i end.
Definition c20_setitem_index (cfg : c20_cfg) (k : c20_kind) (n : nat) (i : Z) : c20_res nat :=
  match k with
  | C20_Vec => if cfg_setitem_wrapped cfg then c20_wrapped_index n i else c20_cpp_index n i
  | C20_Arr => c20_np_index n i
  end.

(* CPython PySlice_AdjustIndices (used by NumPy basic slicing) *)
Definition c20_adjust (n step x : Z) : Z :=
  if x <? 0 then (let y := x + n in if y <? 0 then (if step <? 0 then -1 else 0) else y)
  else if n <=? x then (if step <? 0 then n - 1 else n) else x.
Definition c20_slice_indices (n : nat) (start stop step : option Z) : c20_res (list nat) :=
  let nz := Z.of_nat n in
  let st := match step with None => 1 | Some s => s end in
  if st =? 0 then C20_Exc C20_ValueError else
  let a := match start with None => if st <? 0 then nz - 1 else 0 | Some x => c20_adjust nz st x end in
  let b := match stop with None => if st <? 0 then -1 else nz | Some x => c20_adjust nz st x end in
  let len := if st <? 0 then (if b <? a then (a - b - 1) / (- st) + 1 else 0)
             else (if a <? b then (b - a - 1) / st + 1 else 0) in
  C20_Ok (map (fun k => Z.to_nat (a + Z.of_nat k * st)) (seq 0 (Z.to_nat len))).

(* ---------------------------------------------------------------- NumPyVector (numpyvector.hh) *)
(* pybind11::buffer_info of a one-dimensional array, in units of entries: ptr, strides[0]/sizeof(T), shape[0].
   An array object of the model is the list of its cells; NumPy arrays obtained from contiguous storage by
   slicing are arithmetic progressions of cells (c20_strided in C20_Spec.v), which is what buffer_info describes. *)
Record c20_binfo := { c20_bi_ptr : Z; c20_bi_stride : Z; c20_bi_size : nat }.
Definition c20_buffer_info (cells : list nat) : c20_binfo :=
  {| c20_bi_ptr := Z.of_nat (nth 0 cells O);
     c20_bi_stride := if Nat.leb 2 (List.length cells) then Z.of_nat (nth 1 cells O) - Z.of_nat (nth 0 cells O) else 1;
     c20_bi_size := List.length cells |}.
(* operator[] / vec_access:  data()[ index * stride_ ]   (before fix c31dbb5: data()[ index ]) *)
Definition c20_npv_addr (cfg : c20_cfg) (bi : c20_binfo) (i : nat) : Z :=
  if cfg_npv_stride cfg then c20_bi_ptr bi + Z.of_nat i * c20_bi_stride bi else c20_bi_ptr bi + Z.of_nat i.
(* the cells entry 0 .. size-1 of a NumPyVector wrapped around the array live in; None = some access would be
   outside the heap (undefined behaviour in C++: not modelled) *)
Definition c20_npv_cells (cfg : c20_cfg) (H : c20_heap) (cells : list nat) : option (list nat) :=
  let bi := c20_buffer_info cells in
  let addrs := map (c20_npv_addr cfg bi) (seq 0 (c20_bi_size bi)) in
  if forallb (fun a => (0 <=? a) && (a <? Z.of_nat (List.length H))) addrs then Some (map Z.to_nat addrs) else None.
(* init( pybind11::buffer x ) of registerFieldVector, literally:
     if( info.format != format_descriptor< K >::format() ) throw value_error; if( info.ndim != 1 ) throw value_error;
     stride = info.strides[0] / sizeof( K ); sz = min( size, info.shape[0] );
     self = FV( K(0) ); for( i = 0; i < sz; ++i ) self[ i ] = ptr[ i*stride ];                                         *)
Fixpoint c20_cbuf_loop (self : list Q) (H : c20_heap) (bi : c20_binfo) (i cnt : nat) : list Q :=
  match cnt with
  | O => self
  | S c => c20_cbuf_loop (c20_write self i (c20_read H (Z.to_nat (c20_bi_ptr bi + Z.of_nat i * c20_bi_stride bi)))) H bi (S i) c
  end.
Definition c20_construct_buffer (n : nat) (H : c20_heap) (format_ok : bool) (ndim : nat) (bi : c20_binfo) : c20_res (list Q) :=
  if negb format_ok then C20_Exc (c20_exc_of_code c20_param_buffer_format_exc)
  else if negb (Nat.eqb ndim c20_param_buffer_ndim) then C20_Exc (c20_exc_of_code c20_param_buffer_ndim_exc)
  else C20_Ok (c20_cbuf_loop (repeat 0%Q n) H bi 0 (Nat.min n (c20_bi_size bi))).
(* list(v): no __iter__ is bound, so Python iterates with the sequence protocol: __getitem__(0), (1), ... until IndexError.
   None = out of fuel / another exception (excluded by C20_iteration for fuel > n) *)
Fixpoint c20_iter_loop (fuel : nat) (k : c20_kind) (H : c20_heap) (cells : list nat) (i : nat) : option (list Q) :=
  match fuel with
  | O => None
  | S f =>
      match c20_getitem_index k (List.length cells) (Z.of_nat i) with
      | C20_Ok j => match c20_iter_loop f k H cells (S i) with
                    | Some r => Some (c20_read H (nth j cells O) :: r)
                    | None => None
                    end
      | C20_Exc C20_IndexError => Some []
      | C20_Exc _ => None
      end
  end.
Local Close Scope Z_scope.

(* ---------------------------------------------------------------- TupleVector (tuplevector.hh, dune.common.TupleVector) *)
Inductive c20_tval := C20_TFloat (q : Q) | C20_TInt (z : Z) | C20_TVec (l : list Q).
Inductive c20_ttype := C20_TyDouble | C20_TyInt | C20_TyFV (n : nat).
(* _cppTypesFromTuple: float -> double, int -> int, FieldVector of size n -> Dune::FieldVector<double,n> *)
Definition c20_tv_type (v : c20_tval) : c20_ttype :=
  match v with C20_TFloat _ => C20_TyDouble | C20_TInt _ => C20_TyInt | C20_TVec l => C20_TyFV (List.length l) end.
(* x[i].cast< tuple_element_t<i,TV> >(): a Python int converts to double; everything else must already have the type *)
Definition c20_tv_cast (t : c20_ttype) (v : c20_tval) : option c20_tval :=
  match t, v with
  | C20_TyDouble, C20_TFloat _ => Some v
  | C20_TyDouble, C20_TInt z => Some (C20_TFloat (inject_Z z))
  | C20_TyInt, C20_TInt _ => Some v
  | C20_TyFV n, C20_TVec l => if Nat.eqb (List.length l) n then Some v else None
  | _, _ => None
  end.
Fixpoint c20_tv_cast_all (ts : list c20_ttype) (x : list c20_tval) : option (list c20_tval) :=
  match ts, x with
  | [], [] => Some []
  | t :: ts', v :: x' =>
      match c20_tv_cast t v, c20_tv_cast_all ts' x' with Some v', Some r => Some (v' :: r) | _, _ => None end
  | _, _ => None                                       (* assert( tuple_size_v<TV> == x.size() ) *)
  end.
(* TupleVector(args...): the wrapper type is generated from the types of the arguments, then py::init casts each *)
Definition c20_tv_construct (x : list c20_tval) : option (list c20_tval) := c20_tv_cast_all (map c20_tv_type x) x.
(* __getitem__( size_t index ): if (index >= self.size()) throw index_error *)
Definition c20_tv_getitem (tv : list c20_tval) (i : Z) : c20_res c20_tval :=
  match c20_cpp_index (List.length tv) i with
  | C20_Ok j => C20_Ok (nth j tv (C20_TInt 0))
  | C20_Exc e => C20_Exc e
  end.
Fixpoint c20_tv_replace (tv : list c20_tval) (j : nat) (v : c20_tval) : list c20_tval :=
  match tv, j with
  | [], _ => []
  | _ :: t, O => v :: t
  | h :: t, S j' => h :: c20_tv_replace t j' v
  end.
(* __setitem__: self[i] = value.cast< tuple_element_t<i,TV> >(); a failing cast is re-thrown (cast_error: RuntimeError) *)
Definition c20_tv_setitem (tv : list c20_tval) (i : Z) (v : c20_tval) : c20_res (list c20_tval) :=
  match c20_cpp_index (List.length tv) i with
  | C20_Ok j =>
      match c20_tv_cast (c20_tv_type (nth j tv (C20_TInt 0))) v with
      | Some v' => C20_Ok (c20_tv_replace tv j v')
      | None => C20_Exc C20_RuntimeError
      end
  | C20_Exc e => C20_Exc e
  end.
(* copy(): new TV(self) -- by value *)
Definition c20_tv_copy (tv : list c20_tval) : list c20_tval := tv.
(* assign( x ): self = x  (same wrapper type, hence same element types) *)
Definition c20_tv_assign (self x : list c20_tval) : list c20_tval := x.

(* ---------------------------------------------------------------- entry arithmetic (exact) *)
Definition c20_qadd (a b : Q) : Q := Qred (a + b).
Definition c20_qsub (a b : Q) : Q := Qred (a - b).
Definition c20_qmul (a b : Q) : Q := Qred (a * b).
Definition c20_qdiv (a b : Q) : Q := Qred (a / b).
Definition c20_qabs (a : Q) : Q := Qred (Qabs a).
Definition c20_qmax (a b : Q) : Q := if Qle_bool a b then b else a.
Definition c20_qeqb (a b : Q) : bool := Qeq_bool a b.

Fixpoint c20_map2 (f : Q -> Q -> Q) (a b : list Q) : list Q :=
  match a, b with
  | x :: a', y :: b' => f x y :: c20_map2 f a' b'
  | _, _ => []
  end.
(* DenseVector::operator+= / -= (entry loop), *= / /= scalar, += / -= scalar (every entry) *)
Definition c20_vadd := c20_map2 c20_qadd.
Definition c20_vsub := c20_map2 c20_qsub.
Definition c20_vscale (q : Q) (a : list Q) := map (fun x => c20_qmul x q) a.
Definition c20_vdiv (q : Q) (a : list Q) := map (fun x => c20_qdiv x q) a.
Definition c20_vadds (q : Q) (a : list Q) := map (fun x => c20_qadd x q) a.
Definition c20_vsubs (q : Q) (a : list Q) := map (fun x => c20_qsub x q) a.
Definition c20_vneg (a : list Q) := c20_vscale (inject_Z c20_param_neg_factor) a.          (* *copy *= ValueType( -1 ) *)
(* DenseVector::operator*( other ): result = 0; for i: result += x[i]*y[i] *)
Fixpoint c20_dot_loop (acc : Q) (a b : list Q) : Q :=
  match a, b with
  | x :: a', y :: b' => c20_dot_loop (c20_qadd acc (c20_qmul x y)) a' b'
  | _, _ => acc
  end.
Definition c20_dot := c20_dot_loop 0%Q.
Definition c20_one_norm (a : list Q) : Q := fold_left (fun acc x => c20_qadd acc (c20_qabs x)) a 0%Q.
Definition c20_two_norm2 (a : list Q) : Q := fold_left (fun acc x => c20_qadd acc (c20_qmul x x)) a 0%Q.
Definition c20_inf_norm (a : list Q) : Q := fold_left (fun acc x => c20_qmax acc (c20_qabs x)) a 0%Q.
(* DenseVector::operator==: for i < size: if x[i] != y[i] return false; return true *)
Fixpoint c20_veq (a b : list Q) : bool :=
  match a, b with
  | x :: a', y :: b' => c20_qeqb x y && c20_veq a' b'
  | _, _ => true
  end.

(* ---------------------------------------------------------------- str / repr: std::to_string(double) = "%f" *)
Local Open Scope Z_scope.
Definition c20_round6 (q : Q) : Z :=     (* |q| * 10^6 rounded to nearest, ties to even (glibc printf) *)
  let n := Z.abs (Qnum q) * 1000000 in
  let d := Zpos (Qden q) in
  let r := n / d in
  let m := n mod d in
  if d <? 2 * m then r + 1 else if 2 * m =? d then (if Z.odd r then r + 1 else r) else r.
Local Close Scope Z_scope.
Local Open Scope string_scope.
Definition c20_zstr (z : Z) : string := NilZero.string_of_uint (N.to_uint (Z.to_N z)).
Fixpoint c20_zeros (k : nat) : string := match k with O => "" | S m => "0" ++ c20_zeros m end.
Definition c20_pad (w : nat) (s : string) : string := c20_zeros (w - String.length s) ++ s.
Definition c20_fmt (q : Q) : string :=
  let r := c20_round6 q in
  (if (Qnum q <? 0)%Z then "-" else "") ++ c20_zstr (r / 1000000)%Z ++ "." ++ c20_pad 6 (c20_zstr (r mod 1000000)%Z).
Fixpoint c20_join (sep : string) (l : list string) : string :=
  match l with
  | [] => ""
  | [x] => x
  | x :: r => x ++ sep ++ c20_join sep r
  end.
(* to_string( FieldVector ) = "(" + join( ", ", ... ) + ")" *)
Definition c20_str (a : list Q) : string :=
  c20_string_of_codes c20_param_str_open ++ c20_join (c20_string_of_codes c20_param_str_sep) (map c20_fmt a)
  ++ c20_string_of_codes c20_param_str_close.
Definition c20_repr (a : list Q) : string :=
  c20_string_of_codes c20_param_repr_prefix ++ c20_zstr (Z.of_nat (List.length a)) ++ c20_string_of_codes c20_param_repr_suffix ++ c20_str a.
Local Close Scope string_scope.

(* ---------------------------------------------------------------- op scripts *)
Inductive c20_op :=
  | C20_New (n : nat) (vals : list Q)        (* FieldVector_n from list / tuple / args / buffer / nothing *)
  | C20_View (r : nat)                        (* np.array(v, copy=False) *)
  | C20_Slice (r : nat) (start stop step : option Z)    (* v[a:b:c]  (through the fallback: a NumPy view) *)
  | C20_CopyCtor (r : nat)                    (* type(v)(v)  resp. np.array(a) *)
  | C20_CopyMeth (r : nat)                    (* v.copy()    resp. a.copy() *)
  | C20_Get (r : nat) (i : Z)
  | C20_Set (r : nat) (i : Z) (x : Q)
  | C20_Len (r : nat)
  | C20_Iter (r : nat)                        (* list(v): legacy sequence protocol, __getitem__(0,1,..) until IndexError *)
  | C20_Str (r : nat)
  | C20_Repr (r : nat)
  | C20_Add (r s : nat) | C20_Sub (r s : nat) | C20_Dot (r s : nat) | C20_Eq (r s : nat) | C20_Ne (r s : nat)
  | C20_AddL (r : nat) (l : list Q) | C20_RAddL (r : nat) (l : list Q)
  | C20_SubL (r : nat) (l : list Q) | C20_RSubL (r : nat) (l : list Q)
  | C20_DotL (r : nat) (l : list Q) | C20_EqL (r : nat) (l : list Q)
  | C20_MulS (r : nat) (q : Q) | C20_RMulS (r : nat) (q : Q) | C20_DivS (r : nat) (q : Q)     (* float scalar *)
  | C20_MulI (r : nat) (k : Z) | C20_RMulI (r : nat) (k : Z)                                   (* int scalar *)
  | C20_AddI (r : nat) (k : Z) | C20_SubI (r : nat) (k : Z) | C20_RAddI (r : nat) (k : Z) | C20_RSubI (r : nat) (k : Z)
  | C20_AddF (r : nat) (q : Q) | C20_SubF (r : nat) (q : Q) | C20_RAddF (r : nat) (q : Q) | C20_RSubF (r : nat) (q : Q)
  | C20_Neg (r : nat) | C20_Pos (r : nat)
  | C20_IAdd (r s : nat) | C20_ISub (r s : nat) | C20_IAddL (r : nat) (l : list Q)
  | C20_IMulS (r : nat) (q : Q) | C20_IDivS (r : nat) (q : Q) | C20_IAddS (r : nat) (q : Q) | C20_ISubS (r : nat) (q : Q)
  | C20_Assign (r s : nat)
  | C20_Norm1 (r : nat) | C20_Norm22 (r : nat) | C20_NormInf (r : nat)
  (* API-coverage round: remaining bound entry points *)
  | C20_NewBadBuffer (format_ok : bool) (ndim : nat)   (* buffer of another dtype / not one-dimensional: value_error *)
  | C20_NewFromBuf (n : nat) (r : nat)         (* FieldVector_n( R[r] ): any register through the buffer constructor *)
  | C20_CopyArgs (r : nat) (vals : list Q)     (* v.copy(a, b, ...): a vector of v's type from the arguments *)
  | C20_Float (r : nat)                        (* float(v): bound for size 1 only *)
  | C20_SetSlice (r : nat) (start stop step : option Z) (vals : list Q)   (* v[a:b:c] = vals (through the NumPy fallback) *)
  | C20_NeL (r : nat) (l : list Q) | C20_ISubL (r : nat) (l : list Q) | C20_AssignL (r : nat) (l : list Q)
  (* cross-cutting audit: a NumPy view as RECEIVER / left operand (NumPy semantics over the exported buffer), slice assignment
     from another object (possibly overlapping storage), dropping the owner's Python reference *)
  | C20_SetSliceFrom (r : nat) (start stop step : option Z) (s : nat)    (* x[a:b:c] = y *)
  | C20_ArrIAdd (r s : nat) | C20_ArrISub (r s : nat)                    (* a += y, a -= y  (a a NumPy view) *)
  | C20_ArrIMulS (r : nat) (q : Q) | C20_ArrIAddS (r : nat) (q : Q)      (* a *= q, a += q *)
  | C20_ArrAdd (r s : nat)                                               (* a + y: a new array *)
  | C20_Drop (r : nat)                                                   (* del v; gc.collect(): views keep the storage alive *)
  (* `npv` scripts: NumPy arrays accessed from C++ through a NumPyVector wrapped around register r *)
  | C20_NewArr (vals : list Q)                 (* np.array([...]) *)
  | C20_NLen (r : nat) | C20_NGet (r : nat) (i : nat) | C20_NSet (r : nat) (i : nat) (x : Q)
  | C20_NIMulS (r : nat) (q : Q) | C20_NIDivS (r : nat) (q : Q) | C20_NIAddS (r : nat) (q : Q) | C20_NISubS (r : nat) (q : Q)
  | C20_NNorm1 (r : nat) | C20_NNorm22 (r : nat) | C20_NNormInf (r : nat)
  | C20_NBadDim.                               (* NumPyVector around an array that is not one-dimensional: InvalidStateException *)

Definition c20_vals (st : c20_state) (o : c20_obj) : list Q := c20_read_all (c20_H st) (c20_cells o).
Definition c20_size (o : c20_obj) : nat := List.length (c20_cells o).

(* a fresh object holding vals becomes the next register *)
Definition c20_push_new (st : c20_state) (k : c20_kind) (vals : list Q) : c20_state * c20_obs :=
  let (H', cells) := c20_alloc (c20_H st) vals in
  ({| c20_H := H'; c20_regs := (c20_regs st ++ [{| c20_k := k; c20_cells := cells |}])%list |}, C20_ObsObj k vals).
(* an object sharing existing cells becomes the next register *)
Definition c20_push_shared (st : c20_state) (k : c20_kind) (cells : list nat) : c20_state * c20_obs :=
  ({| c20_H := c20_H st; c20_regs := (c20_regs st ++ [{| c20_k := k; c20_cells := cells |}])%list |},
   C20_ObsObj k (c20_read_all (c20_H st) cells)).
Definition c20_set_heap (st : c20_state) (H : c20_heap) : c20_state := {| c20_H := H; c20_regs := c20_regs st |}.

(* on a FieldVector register *)
Definition c20_on_vec (st : c20_state) (r : nat) (f : c20_obj -> c20_state * c20_obs) : c20_state * c20_obs :=
  match nth_error (c20_regs st) r with
  | Some o => match c20_k o with C20_Vec => f o | C20_Arr => (st, C20_ObsUnmodelled) end
  | None => (st, C20_ObsUnmodelled)
  end.
Definition c20_on_any (st : c20_state) (r : nat) (f : c20_obj -> c20_state * c20_obs) : c20_state * c20_obs :=
  match nth_error (c20_regs st) r with
  | Some o => f o
  | None => (st, C20_ObsUnmodelled)
  end.
(* operand s converted to the C++ type of o (same type: itself; other FieldVector size / NumPy array: through
   the buffer constructor; list: list constructor): zero vector + first min(n, len) entries *)
Definition c20_operand (st : c20_state) (o : c20_obj) (s : nat) : option (list Q) :=
  match nth_error (c20_regs st) s with
  | Some p => Some (c20_construct (c20_size o) (c20_vals st p))
  | None => None
  end.
Definition c20_with_operand (st : c20_state) (o : c20_obj) (s : nat) (f : list Q -> c20_state * c20_obs) :=
  match c20_operand st o s with Some y => f y | None => (st, C20_ObsUnmodelled) end.
(* in-place update of the cells of o; the result is the same Python object *)
Definition c20_inplace (st : c20_state) (o : c20_obj) (vals : list Q) : c20_state * c20_obs :=
  (c20_set_heap st (c20_write_all (c20_H st) (c20_cells o) vals), C20_ObsNone).

(* on the cells a NumPyVector wrapped around register r addresses *)
Definition c20_on_npv (cfg : c20_cfg) (st : c20_state) (r : nat) (f : list nat -> c20_state * c20_obs) : c20_state * c20_obs :=
  match nth_error (c20_regs st) r with
  | Some o => match c20_npv_cells cfg (c20_H st) (c20_cells o) with
              | Some cs => f cs
              | None => (st, C20_ObsUnmodelled)
              end
  | None => (st, C20_ObsUnmodelled)
  end.
Definition c20_npv_inplace (st : c20_state) (cs : list nat) (vals : list Q) : c20_state * c20_obs :=
  (c20_set_heap st (c20_write_all (c20_H st) cs vals), C20_ObsNone).

(* NumPy slice assignment a[idx] = vals: one value is broadcast, otherwise the lengths must agree (ValueError) *)
Definition c20_setslice (st : c20_state) (o : c20_obj) (start stop step : option Z) (vals : list Q) : c20_state * c20_obs :=
  match c20_slice_indices (c20_size o) start stop step with
  | C20_Ok idx =>
      let cs := map (fun j => nth j (c20_cells o) O) idx in
      if Nat.eqb (List.length vals) 1 then c20_npv_inplace st cs (repeat (nth O vals 0%Q) (List.length cs))
      else if Nat.eqb (List.length vals) (List.length cs) then c20_npv_inplace st cs vals
      else (st, C20_ObsExc C20_ValueError)
  | C20_Exc e => (st, C20_ObsExc e)
  end.

(* NumPy broadcasting of a one-dimensional operand against an array of n entries: equal length, or one entry repeated *)
Definition c20_np_operand (n : nat) (vals : list Q) : c20_res (list Q) :=
  if Nat.eqb (List.length vals) n then C20_Ok vals
  else if Nat.eqb (List.length vals) 1 then C20_Ok (repeat (nth O vals 0%Q) n)
  else C20_Exc C20_ValueError.
(* on a NumPy array register with a second register as operand (read before anything is written) *)
Definition c20_on_arr2 (st : c20_state) (r s : nat) (f : c20_obj -> list Q -> c20_state * c20_obs) : c20_state * c20_obs :=
  match nth_error (c20_regs st) r, nth_error (c20_regs st) s with
  | Some o, Some p =>
      match c20_k o with
      | C20_Arr => match c20_np_operand (c20_size o) (c20_vals st p) with
                   | C20_Ok y => f o y
                   | C20_Exc e => (st, C20_ObsExc e)
                   end
      | C20_Vec => (st, C20_ObsUnmodelled)
      end
  | _, _ => (st, C20_ObsUnmodelled)
  end.
Definition c20_on_arr (st : c20_state) (r : nat) (f : c20_obj -> c20_state * c20_obs) : c20_state * c20_obs :=
  match nth_error (c20_regs st) r with
  | Some o => match c20_k o with C20_Arr => f o | C20_Vec => (st, C20_ObsUnmodelled) end
  | None => (st, C20_ObsUnmodelled)
  end.

(* a + y out of place: NumPy broadcasts BOTH ways (a one-entry receiver is repeated to the operand's length) *)
Definition c20_arradd (st : c20_state) (r s : nat) : c20_state * c20_obs :=
      match nth_error (c20_regs st) r, nth_error (c20_regs st) s with
      | Some o, Some p =>
          match c20_k o with
          | C20_Arr =>
              match c20_np_operand (c20_size o) (c20_vals st p) with
              | C20_Ok y => c20_push_new st C20_Arr (c20_vadd (c20_vals st o) y)
              | C20_Exc e =>
                  if Nat.eqb (c20_size o) 1
                  then c20_push_new st C20_Arr (c20_vadd (repeat (nth O (c20_vals st o) 0%Q) (c20_size p)) (c20_vals st p))
                  else (st, C20_ObsExc e)
              end
          | C20_Vec => (st, C20_ObsUnmodelled)
          end
      | _, _ => (st, C20_ObsUnmodelled)
      end.

Definition c20_step (cfg : c20_cfg) (st : c20_state) (op : c20_op) : c20_state * c20_obs :=
  match op with
  | C20_New n vals => c20_push_new st C20_Vec (c20_construct n vals)
  | C20_View r => c20_on_vec st r (fun o => c20_push_shared st C20_Arr (c20_cells o))
  | C20_Slice r a b c => c20_on_any st r (fun o =>
      match c20_slice_indices (c20_size o) a b c with
      | C20_Ok idx => c20_push_shared st C20_Arr (map (fun j => nth j (c20_cells o) O) idx)
      | C20_Exc e => (st, C20_ObsExc e)
      end)
  | C20_CopyCtor r => c20_on_any st r (fun o => c20_push_new st (c20_k o) (c20_vals st o))
  | C20_CopyMeth r => c20_on_any st r (fun o =>
      match c20_k o with
      | C20_Vec => c20_push_new st C20_Vec
                     (if cfg_copy_self cfg then c20_vals st o else c20_construct (c20_size o) [])
      | C20_Arr => c20_push_new st C20_Arr (c20_vals st o)
      end)
  | C20_Get r i => c20_on_any st r (fun o =>
      match c20_getitem_index (c20_k o) (c20_size o) i with
      | C20_Ok j => (st, C20_ObsScalar (c20_read (c20_H st) (nth j (c20_cells o) O)))
      | C20_Exc e => (st, C20_ObsExc e)
      end)
  | C20_Set r i x => c20_on_any st r (fun o =>
      match c20_setitem_index cfg (c20_k o) (c20_size o) i with
      | C20_Ok j => (c20_set_heap st (c20_write (c20_H st) (nth j (c20_cells o) O) x), C20_ObsNone)
      | C20_Exc e => (st, C20_ObsExc e)
      end)
  | C20_Len r => c20_on_any st r (fun o => (st, C20_ObsInt (Z.of_nat (c20_size o))))
  | C20_Iter r => c20_on_any st r (fun o =>
      match c20_iter_loop (S (c20_size o)) (c20_k o) (c20_H st) (c20_cells o) O with
      | Some l => (st, C20_ObsList l)
      | None => (st, C20_ObsUnmodelled)
      end)
  | C20_Str r => c20_on_vec st r (fun o => (st, C20_ObsStr (c20_str (c20_vals st o))))
  | C20_Repr r => c20_on_vec st r (fun o => (st, C20_ObsStr (c20_repr (c20_vals st o))))
  | C20_Add r s => c20_on_vec st r (fun o => c20_with_operand st o s (fun y => c20_push_new st C20_Vec (c20_vadd (c20_vals st o) y)))
  | C20_Sub r s => c20_on_vec st r (fun o => c20_with_operand st o s (fun y => c20_push_new st C20_Vec (c20_vsub (c20_vals st o) y)))
  | C20_Dot r s => c20_on_vec st r (fun o => c20_with_operand st o s (fun y => (st, C20_ObsScalar (c20_dot (c20_vals st o) y))))
  | C20_Eq r s => c20_on_vec st r (fun o => c20_with_operand st o s (fun y => (st, C20_ObsBool (c20_veq (c20_vals st o) y))))
  | C20_Ne r s => c20_on_vec st r (fun o => c20_with_operand st o s (fun y => (st, C20_ObsBool (negb (c20_veq (c20_vals st o) y)))))
  | C20_AddL r l => c20_on_vec st r (fun o => c20_push_new st C20_Vec (c20_vadd (c20_vals st o) (c20_construct (c20_size o) l)))
  | C20_RAddL r l => c20_on_vec st r (fun o => c20_push_new st C20_Vec (c20_vadd (c20_construct (c20_size o) l) (c20_vals st o)))
  | C20_SubL r l => c20_on_vec st r (fun o => c20_push_new st C20_Vec (c20_vsub (c20_vals st o) (c20_construct (c20_size o) l)))
  | C20_RSubL r l => c20_on_vec st r (fun o => c20_push_new st C20_Vec (c20_vsub (c20_construct (c20_size o) l) (c20_vals st o)))
  | C20_DotL r l => c20_on_vec st r (fun o => (st, C20_ObsScalar (c20_dot (c20_vals st o) (c20_construct (c20_size o) l))))
  | C20_EqL r l => c20_on_vec st r (fun o => (st, C20_ObsBool (c20_veq (c20_vals st o) (c20_construct (c20_size o) l))))
  | C20_MulS r q | C20_RMulS r q => c20_on_vec st r (fun o => c20_push_new st C20_Vec (c20_vscale q (c20_vals st o)))
  | C20_DivS r q => c20_on_vec st r (fun o =>
      if c20_qeqb q 0 then (st, C20_ObsUnmodelled) else c20_push_new st C20_Vec (c20_vdiv q (c20_vals st o)))
  (* int scalar: the (T,T) overload of __mul__ is tried with implicit conversion before (T,double);
     int converts to FieldVector<K,1> only: for n = 1 the result is the dot product, a scalar *)
  | C20_MulI r k | C20_RMulI r k => c20_on_vec st r (fun o =>
      if Nat.eqb (c20_size o) 1 then (st, C20_ObsScalar (c20_dot (c20_vals st o) [inject_Z k]))
      else c20_push_new st C20_Vec (c20_vscale (inject_Z k) (c20_vals st o)))
  (* registerScalarCopyingDenseVectorMethods: n = 1 copies and adds; n > 1 accepts only the int 0 *)
  | C20_AddI r k => c20_on_vec st r (fun o =>
      if Nat.eqb (c20_size o) 1 then c20_push_new st C20_Vec (c20_vadds (inject_Z k) (c20_vals st o))
      else if Z.eqb k c20_param_scalar_neutral then (st, C20_ObsAlias r) else (st, C20_ObsExc (c20_exc_of_code c20_param_scalar_exc)))
  | C20_SubI r k => c20_on_vec st r (fun o =>
      if Nat.eqb (c20_size o) 1 then c20_push_new st C20_Vec (c20_vsubs (inject_Z k) (c20_vals st o))
      else if Z.eqb k c20_param_scalar_neutral then (st, C20_ObsAlias r) else (st, C20_ObsExc (c20_exc_of_code c20_param_scalar_exc)))
  | C20_RAddI r k => c20_on_vec st r (fun o =>
      if Nat.eqb (c20_size o) 1 then c20_push_new st C20_Vec (map (fun x => c20_qadd (inject_Z k) x) (c20_vals st o))
      else if Z.eqb k c20_param_scalar_neutral then (st, C20_ObsAlias r) else (st, C20_ObsExc (c20_exc_of_code c20_param_scalar_exc)))
  | C20_RSubI r k => c20_on_vec st r (fun o =>
      if Nat.eqb (c20_size o) 1 then c20_push_new st C20_Vec (map (fun x => c20_qsub (inject_Z k) x) (c20_vals st o))
      else if Z.eqb k c20_param_scalar_neutral then c20_push_new st C20_Vec (c20_vneg (c20_vals st o)) else (st, C20_ObsExc (c20_exc_of_code c20_param_scalar_exc)))
  (* float scalar: only the n = 1 overloads take ValueType; for n > 1 no overload matches *)
  | C20_AddF r q => c20_on_vec st r (fun o =>
      if Nat.eqb (c20_size o) 1 then c20_push_new st C20_Vec (c20_vadds q (c20_vals st o)) else (st, C20_ObsExc C20_TypeError))
  | C20_SubF r q => c20_on_vec st r (fun o =>
      if Nat.eqb (c20_size o) 1 then c20_push_new st C20_Vec (c20_vsubs q (c20_vals st o)) else (st, C20_ObsExc C20_TypeError))
  | C20_RAddF r q => c20_on_vec st r (fun o =>
      if Nat.eqb (c20_size o) 1 then c20_push_new st C20_Vec (map (fun x => c20_qadd q x) (c20_vals st o)) else (st, C20_ObsExc C20_TypeError))
  | C20_RSubF r q => c20_on_vec st r (fun o =>
      if Nat.eqb (c20_size o) 1 then c20_push_new st C20_Vec (map (fun x => c20_qsub q x) (c20_vals st o)) else (st, C20_ObsExc C20_TypeError))
  | C20_Neg r => c20_on_vec st r (fun o => c20_push_new st C20_Vec (c20_vneg (c20_vals st o)))
  | C20_Pos r => c20_on_vec st r (fun o => (st, C20_ObsAlias r))
  | C20_IAdd r s => c20_on_vec st r (fun o => c20_with_operand st o s (fun y => c20_inplace st o (c20_vadd (c20_vals st o) y)))
  | C20_ISub r s => c20_on_vec st r (fun o => c20_with_operand st o s (fun y => c20_inplace st o (c20_vsub (c20_vals st o) y)))
  | C20_IAddL r l => c20_on_vec st r (fun o => c20_inplace st o (c20_vadd (c20_vals st o) (c20_construct (c20_size o) l)))
  | C20_IMulS r q => c20_on_vec st r (fun o => c20_inplace st o (c20_vscale q (c20_vals st o)))
  | C20_IDivS r q => c20_on_vec st r (fun o =>
      if c20_qeqb q 0 then (st, C20_ObsUnmodelled) else c20_inplace st o (c20_vdiv q (c20_vals st o)))
  | C20_IAddS r q => c20_on_vec st r (fun o => c20_inplace st o (c20_vadds q (c20_vals st o)))
  | C20_ISubS r q => c20_on_vec st r (fun o => c20_inplace st o (c20_vsubs q (c20_vals st o)))
  | C20_Assign r s => c20_on_vec st r (fun o => c20_with_operand st o s (fun y => c20_inplace st o y))
  | C20_Norm1 r => c20_on_vec st r (fun o => (st, C20_ObsScalar (c20_one_norm (c20_vals st o))))
  | C20_Norm22 r => c20_on_vec st r (fun o => (st, C20_ObsScalar (c20_two_norm2 (c20_vals st o))))
  | C20_NormInf r => c20_on_vec st r (fun o => (st, C20_ObsScalar (c20_inf_norm (c20_vals st o))))
  | C20_NewBadBuffer fok nd =>
      match c20_construct_buffer 1 (c20_H st) fok nd (c20_buffer_info []) with
      | C20_Exc e => (st, C20_ObsExc e)
      | C20_Ok _ => (st, C20_ObsUnmodelled)
      end
  | C20_NewFromBuf n r => c20_on_any st r (fun o =>
      match c20_construct_buffer n (c20_H st) true 1 (c20_buffer_info (c20_cells o)) with
      | C20_Ok vals => c20_push_new st C20_Vec vals
      | C20_Exc e => (st, C20_ObsExc e)
      end)
  | C20_CopyArgs r vals => c20_on_vec st r (fun o => c20_push_new st C20_Vec (c20_construct (c20_size o) vals))
  | C20_Float r => c20_on_vec st r (fun o =>
      if Nat.eqb (c20_size o) 1 then (st, C20_ObsScalar (nth O (c20_vals st o) 0%Q)) else (st, C20_ObsUnmodelled))
  | C20_SetSlice r a b c vals => c20_on_any st r (fun o => c20_setslice st o a b c vals)
  | C20_NeL r l => c20_on_vec st r (fun o => (st, C20_ObsBool (negb (c20_veq (c20_vals st o) (c20_construct (c20_size o) l)))))
  | C20_ISubL r l => c20_on_vec st r (fun o => c20_inplace st o (c20_vsub (c20_vals st o) (c20_construct (c20_size o) l)))
  | C20_AssignL r l => c20_on_vec st r (fun o => c20_inplace st o (c20_construct (c20_size o) l))
  | C20_SetSliceFrom r a b c s => c20_on_any st r (fun o =>
      match nth_error (c20_regs st) s with
      | Some p => c20_setslice st o a b c (c20_vals st p)
      | None => (st, C20_ObsUnmodelled)
      end)
  | C20_ArrIAdd r s => c20_on_arr2 st r s (fun o y => c20_inplace st o (c20_vadd (c20_vals st o) y))
  | C20_ArrISub r s => c20_on_arr2 st r s (fun o y => c20_inplace st o (c20_vsub (c20_vals st o) y))
  | C20_ArrIMulS r q => c20_on_arr st r (fun o => c20_inplace st o (c20_vscale q (c20_vals st o)))
  | C20_ArrIAddS r q => c20_on_arr st r (fun o => c20_inplace st o (c20_vadds q (c20_vals st o)))
  | C20_ArrAdd r s => c20_arradd st r s
  | C20_Drop r => (st, C20_ObsNone)
  | C20_NewArr vals => c20_push_new st C20_Arr vals
  | C20_NLen r => c20_on_npv cfg st r (fun cs => (st, C20_ObsInt (Z.of_nat (List.length cs))))
  | C20_NGet r i => c20_on_npv cfg st r (fun cs =>
      if Nat.ltb i (List.length cs) then (st, C20_ObsScalar (c20_read (c20_H st) (nth i cs O))) else (st, C20_ObsUnmodelled))
  | C20_NSet r i x => c20_on_npv cfg st r (fun cs =>
      if Nat.ltb i (List.length cs) then (c20_set_heap st (c20_write (c20_H st) (nth i cs O) x), C20_ObsNone)
      else (st, C20_ObsUnmodelled))
  | C20_NIMulS r q => c20_on_npv cfg st r (fun cs => c20_npv_inplace st cs (c20_vscale q (c20_read_all (c20_H st) cs)))
  | C20_NIDivS r q => c20_on_npv cfg st r (fun cs =>
      if c20_qeqb q 0 then (st, C20_ObsUnmodelled) else c20_npv_inplace st cs (c20_vdiv q (c20_read_all (c20_H st) cs)))
  | C20_NIAddS r q => c20_on_npv cfg st r (fun cs => c20_npv_inplace st cs (c20_vadds q (c20_read_all (c20_H st) cs)))
  | C20_NISubS r q => c20_on_npv cfg st r (fun cs => c20_npv_inplace st cs (c20_vsubs q (c20_read_all (c20_H st) cs)))
  | C20_NNorm1 r => c20_on_npv cfg st r (fun cs => (st, C20_ObsScalar (c20_one_norm (c20_read_all (c20_H st) cs))))
  | C20_NNorm22 r => c20_on_npv cfg st r (fun cs => (st, C20_ObsScalar (c20_two_norm2 (c20_read_all (c20_H st) cs))))
  | C20_NNormInf r => c20_on_npv cfg st r (fun cs => (st, C20_ObsScalar (c20_inf_norm (c20_read_all (c20_H st) cs))))
  | C20_NBadDim => (st, C20_ObsExc C20_RuntimeError)
  end.

(* a result that is an existing register is pushed again (the script refers to results by position) *)
Definition c20_step_reg (cfg : c20_cfg) (st : c20_state) (op : c20_op) : c20_state * c20_obs :=
  let (st', ob) := c20_step cfg st op in
  match ob with
  | C20_ObsAlias r =>
      match nth_error (c20_regs st') r with
      | Some o => ({| c20_H := c20_H st'; c20_regs := (c20_regs st' ++ [o])%list |}, ob)
      | None => (st', ob)
      end
  | _ => (st', ob)
  end.

Fixpoint c20_run (cfg : c20_cfg) (st : c20_state) (ops : list c20_op) : c20_state * list c20_obs :=
  match ops with
  | [] => (st, [])
  | op :: rest =>
      let (st', ob) := c20_step_reg cfg st op in
      let (st'', obs) := c20_run cfg st' rest in
      (st'', ob :: obs)
  end.

(* the contents of every register, in order: what the impl driver dumps too *)
Definition c20_dump (st : c20_state) : list (c20_kind * list Q) :=
  map (fun o => (c20_k o, c20_vals st o)) (c20_regs st).

(* ---------------------------------------------------------------- kind / flags of the exporting buffer (seeding round 6)
   What an exporter promises through the buffer protocol, as far as the bindings look at it: whether its memory may be
   written (Py_buffer.readonly), whether its format string is the one of the element type, its number of dimensions.
   (Strides, offset and length are in the cells of the register the exporter is a view of, see c20_buffer_info.) *)
Record c20_export := { c20_ex_readonly : bool; c20_ex_format_ok : bool; c20_ex_ndim : nat }.
(* pybind11::buffer::request( bool writable ) = PyObject_GetBuffer( obj, PyBUF_STRIDES | PyBUF_FORMAT [ | PyBUF_WRITABLE ] ):
   an exporter of read-only memory MUST refuse a request carrying PyBUF_WRITABLE (NumPy: ValueError "buffer source array is
   read-only", raised as error_already_set); every other request is granted *)
Definition c20_buffer_request (ex : c20_export) (writable : bool) : c20_res unit :=
  if writable && c20_ex_readonly ex then C20_Exc C20_ValueError else C20_Ok tt.
(* NumPyVector( pybind11::buffer buf ), numpyvector.hh, literally:
     array_( buf )                                    (the same memory for a buffer of element type T)
     pybind11::buffer_info info = buf.request();      (no write access asked for)
     if (info.ndim != 1) DUNE_THROW( InvalidStateException, ... );
     size_ = info.shape[0];
     pybind11::buffer_info arrayInfo = array_.request(true);      <- c20_param_npv_request_writable, re-read from the source
     dataPtr_ = arrayInfo.ptr; stride_ = arrayInfo.strides[0] / sizeof( value_type );
   NumPyVector hands out non-const references (operator[], vec_access, DenseVector's *=, += ...), so the write access
   has to be obtained here: a read-only exporter is refused before any entry is touched. *)
Definition c20_npv_gate (ex : c20_export) : c20_res unit :=
  match c20_buffer_request ex false with
  | C20_Exc e => C20_Exc e
  | C20_Ok _ =>
      if negb (Nat.eqb (c20_ex_ndim ex) 1) then C20_Exc C20_RuntimeError
      else c20_buffer_request ex c20_param_npv_request_writable
  end.
(* what a generated C++ function does with the NumPyVector once it is constructed: the accesses of the `npv` scripts *)
Inductive c20_nacc := C20_ALen | C20_AGet (i : nat) | C20_ASet (i : nat) (x : Q) | C20_AIMulS (q : Q) | C20_AIAddS (q : Q) | C20_ANorm22.
Definition c20_nacc_op (r : nat) (a : c20_nacc) : c20_op :=
  match a with
  | C20_ALen => C20_NLen r | C20_AGet i => C20_NGet r i | C20_ASet i x => C20_NSet r i x
  | C20_AIMulS q => C20_NIMulS r q | C20_AIAddS q => C20_NIAddS r q | C20_ANorm22 => C20_NNorm22 r
  end.
(* op scripts extended by the exporter dimension: an ordinary op, or an access through a NumPyVector wrapped around an
   EXPORTER ex of the memory of register r (a fresh view object with the given flags), or FieldVector_n( exporter of R[r] ):
     init( pybind11::buffer x ) of registerFieldVector:  info = x.request();   (no write access: the entries are COPIED)
     then the format / dimension checks and the stride loop of c20_construct_buffer *)
Inductive c20_xop :=
  | C20_X (op : c20_op)
  | C20_NOnExport (ex : c20_export) (r : nat) (a : c20_nacc)
  | C20_NewFromExport (ex : c20_export) (n r : nat).
Definition c20_xstep (cfg : c20_cfg) (st : c20_state) (x : c20_xop) : c20_state * c20_obs :=
  match x with
  | C20_X op => c20_step_reg cfg st op
  | C20_NOnExport ex r a =>
      match c20_npv_gate ex with
      | C20_Exc e => (st, C20_ObsExc e)
      | C20_Ok _ => c20_step_reg cfg st (c20_nacc_op r a)
      end
  | C20_NewFromExport ex n r =>
      match c20_buffer_request ex false with
      | C20_Exc e => (st, C20_ObsExc e)
      | C20_Ok _ =>
          c20_on_any st r (fun o =>
            match c20_construct_buffer n (c20_H st) (c20_ex_format_ok ex) (c20_ex_ndim ex) (c20_buffer_info (c20_cells o)) with
            | C20_Ok vals => c20_push_new st C20_Vec vals
            | C20_Exc e => (st, C20_ObsExc e)
            end)
      end
  end.
Fixpoint c20_xrun (cfg : c20_cfg) (st : c20_state) (xs : list c20_xop) : c20_state * list c20_obs :=
  match xs with
  | [] => (st, [])
  | x :: rest =>
      let (st', ob) := c20_xstep cfg st x in
      let (st'', obs) := c20_xrun cfg st' rest in
      (st'', ob :: obs)
  end.
(* an access through a read-only export *)
Definition c20_xreadonly (x : c20_xop) : bool :=
  match x with C20_NOnExport ex _ _ => c20_ex_readonly ex | _ => false end.
