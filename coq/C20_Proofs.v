(* C20 — lemmas and proofs about the glue model (C20_Model.v) against the abstract statements (C20_Spec.v). *)
From Coq Require Import List ZArith QArith Bool Lia Arith.
From DuneV Require Import Params_gen C20_Model C20_Spec.
Import ListNotations.
Local Open Scope nat_scope.

(* ------------------------------------------------------------------ heap *)
Lemma c20_write_length : forall H a x, length (c20_write H a x) = length H.
Proof. induction H as [|h t IH]; intros [|a] x; simpl; auto. Qed.

Lemma c20_read_write_eq : forall H a x, a < length H -> c20_read (c20_write H a x) a = x.
Proof.
  unfold c20_read. induction H as [|h t IH]; intros [|a] x Hl; simpl in *; try lia; auto.
  apply IH; lia.
Qed.

Lemma c20_read_write_neq : forall H a b x, a <> b -> c20_read (c20_write H a x) b = c20_read H b.
Proof.
  unfold c20_read. induction H as [|h t IH]; intros [|a] [|b] x Hn; simpl; auto; try congruence.
Qed.

Lemma c20_write_app_r : forall l1 l2 x, c20_write (l1 ++ l2) (length l1) x = l1 ++ c20_write l2 0 x.
Proof. induction l1 as [|h t IH]; intros l2 x; simpl; auto. now rewrite IH. Qed.

(* ------------------------------------------------------------------ construction *)
Lemma firstn_S_nth : forall (x : list Q) i, i < length x -> firstn (S i) x = firstn i x ++ [nth i x 0%Q].
Proof.
  induction x as [|h t IH]; intros [|i] Hl; simpl in *; try lia; auto.
  f_equal. apply IH. lia.
Qed.

Lemma c20_construct_loop_inv : forall cnt n x i,
  i + cnt <= n -> i + cnt <= length x ->
  c20_construct_loop (firstn i x ++ repeat 0%Q (n - i)) x i cnt = firstn (i + cnt) x ++ repeat 0%Q (n - (i + cnt)).
Proof.
  induction cnt as [|c IH]; intros n x i Hn Hx; simpl.
  - now rewrite Nat.add_0_r.
  - assert (Hi : length (firstn i x) = i) by (apply firstn_length_le; lia).
    rewrite <- Hi at 3. rewrite c20_write_app_r.
    destruct (n - i) as [|k] eqn:Ek; [lia|]. simpl.
    replace (firstn i x ++ nth i x 0%Q :: repeat 0%Q k) with (firstn (S i) x ++ repeat 0%Q (n - S i)).
    + rewrite IH by lia. now replace (S i + c) with (i + S c) by lia.
    + rewrite firstn_S_nth by lia. rewrite <- app_assoc. simpl. do 3 f_equal. lia.
Qed.

(* "the first n of them, zero-filled when fewer are given", for every n and every source length *)
Lemma P_construct : forall n x, c20_construct n x = c20_spec_construct n x.
Proof.
  intros n x. unfold c20_construct, c20_spec_construct.
  pose proof (c20_construct_loop_inv (Nat.min n (length x)) n x 0) as E.
  specialize (E (Nat.le_min_l n (length x)) (Nat.le_min_r n (length x))).
  simpl in E. rewrite Nat.sub_0_r in E. rewrite E. clear E.
  destruct (Nat.le_ge_cases n (length x)) as [Hle|Hge].
  - rewrite Nat.min_l by lia. rewrite Nat.sub_diag. now replace (n - length x) with 0 by lia.
  - rewrite Nat.min_r by lia. now rewrite !firstn_all2 by lia.
Qed.

Lemma P_construct_entries : forall n x,
  length (c20_construct n x) = n /\
  forall i, i < n -> nth i (c20_construct n x) 0%Q = if i <? length x then nth i x 0%Q else 0%Q.
Proof.
  intros n x. rewrite P_construct. unfold c20_spec_construct. split.
  - rewrite app_length, repeat_length, firstn_length. lia.
  - intros i Hi. destruct (i <? length x) eqn:E.
    + apply Nat.ltb_lt in E. rewrite app_nth1 by (rewrite firstn_length; lia).
      rewrite <- (firstn_skipn n x) at 2. rewrite app_nth1 by (rewrite firstn_length; lia). reflexivity.
    + apply Nat.ltb_ge in E. rewrite app_nth2 by (rewrite firstn_length; lia).
      apply nth_repeat.
Qed.

(* ------------------------------------------------------------------ indices *)
Local Open Scope Z_scope.
Definition c20_index_res (n : nat) (i : Z) : c20_res nat :=
  match c20_spec_index n i with Some j => C20_Ok j | None => C20_Exc C20_IndexError end.

Lemma P_spec_index_range : forall n i j, c20_spec_index n i = Some j -> (j < n)%nat.
Proof.
  unfold c20_spec_index; intros n i j.
  destruct ((0 <=? i) && (i <? Z.of_nat n)) eqn:E1.
  - apply andb_true_iff in E1 as [A B]. apply Z.leb_le in A. apply Z.ltb_lt in B. intros [= <-]. lia.
  - destruct ((- Z.of_nat n <=? i) && (i <? 0)) eqn:E2; [|discriminate].
    apply andb_true_iff in E2 as [A B]. apply Z.leb_le in A. apply Z.ltb_lt in B. intros [= <-]. lia.
Qed.

Lemma P_spec_index_defined : forall n i,
  (c20_spec_index n i <> None <-> - Z.of_nat n <= i < Z.of_nat n) /\
  (0 <= i < Z.of_nat n -> c20_spec_index n i = Some (Z.to_nat i)) /\
  (- Z.of_nat n <= i < 0 -> c20_spec_index n i = Some (Z.to_nat (Z.of_nat n + i))).
Proof.
  intros n i. unfold c20_spec_index.
  destruct (Z.leb_spec 0 i); destruct (Z.ltb_spec i (Z.of_nat n)); destruct (Z.leb_spec (- Z.of_nat n) i);
    destruct (Z.ltb_spec i 0); simpl; (split; [split; [intros Hx; first [lia | exfalso; apply Hx; reflexivity] | intros Hx; first [discriminate | lia]] | split; intros ?; first [reflexivity | lia]]).
Qed.

Lemma P_np_index : forall n i, c20_np_index n i = c20_index_res n i.
Proof.
  intros n i. unfold c20_np_index, c20_index_res, c20_spec_index.
  destruct (i <? 0) eqn:D.
  - apply Z.ltb_lt in D. replace (0 <=? i) with false by (symmetry; apply Z.leb_gt; lia). simpl.
    replace (i <? 0) with true by (symmetry; apply Z.ltb_lt; lia). rewrite andb_true_r.
    replace (Z.of_nat n <=? i + Z.of_nat n) with false by (symmetry; apply Z.leb_gt; lia). rewrite orb_false_r.
    destruct (i + Z.of_nat n <? 0) eqn:E.
    + apply Z.ltb_lt in E. replace (- Z.of_nat n <=? i) with false by (symmetry; apply Z.leb_gt; lia). reflexivity.
    + apply Z.ltb_ge in E. replace (- Z.of_nat n <=? i) with true by (symmetry; apply Z.leb_le; lia).
      now rewrite Z.add_comm.
  - apply Z.ltb_ge in D. replace (0 <=? i) with true by (symmetry; apply Z.leb_le; lia).
    replace (i <? 0) with false by (symmetry; apply Z.ltb_ge; lia). simpl. rewrite andb_false_r.
    destruct (Z.of_nat n <=? i) eqn:E.
    + apply Z.leb_le in E. replace (i <? Z.of_nat n) with false by (symmetry; apply Z.ltb_ge; lia). reflexivity.
    + apply Z.leb_gt in E. replace (i <? Z.of_nat n) with true by (symmetry; apply Z.ltb_lt; lia). reflexivity.
Qed.

Lemma P_wrapped_index : forall n i, c20_wrapped_index n i = c20_index_res n i.
Proof.
  intros n i. unfold c20_wrapped_index, c20_cpp_index.
  destruct (i <? 0) eqn:D; [apply P_np_index|].
  apply Z.ltb_ge in D. unfold c20_index_res, c20_spec_index.
  replace (0 <=? i) with true by (symmetry; apply Z.leb_le; lia). simpl.
  destruct (i <? Z.of_nat n) eqn:E; simpl; [reflexivity|].
  replace (i <? 0) with false by (symmetry; apply Z.ltb_ge; lia). now rewrite andb_false_r.
Qed.

(* __getitem__ (both kinds of object) and the repaired __setitem__ denote the Python position *)
Lemma P_index : forall k n i,
  c20_getitem_index k n i = c20_index_res n i /\
  c20_setitem_index c20_cfg_fixed k n i = c20_index_res n i /\
  c20_setitem_index c20_cfg_current C20_Arr n i = c20_index_res n i /\
  (0 <= i -> c20_setitem_index c20_cfg_current C20_Vec n i = c20_index_res n i).
Proof.
  intros k n i. destruct k; simpl; repeat split; auto using P_np_index, P_wrapped_index.
  - intros Hi. rewrite <- P_wrapped_index. unfold c20_wrapped_index, c20_cpp_index.
    replace (i <? 0) with false by (symmetry; apply Z.ltb_ge; lia). now destruct (i <? Z.of_nat n).
  - intros Hi. rewrite <- P_wrapped_index. unfold c20_wrapped_index, c20_cpp_index.
    replace (i <? 0) with false by (symmetry; apply Z.ltb_ge; lia). now destruct (i <? Z.of_nat n).
Qed.

(* the code as it stands: every negative index is a TypeError for FieldVector.__setitem__ (F-C20-1) *)
Lemma P_setitem_negative_current : forall n i, i < 0 ->
  c20_setitem_index c20_cfg_current C20_Vec n i = C20_Exc C20_TypeError.
Proof. intros n i Hi. simpl. unfold c20_cpp_index. now replace (i <? 0) with true by (symmetry; apply Z.ltb_lt; lia). Qed.

Lemma P_setitem_refuted : exists n i j,
  c20_spec_index n i = Some j /\ c20_setitem_index c20_cfg_current C20_Vec n i <> c20_index_res n i.
Proof. exists 3%nat, (-1), 2%nat. split; [reflexivity|]. vm_compute. discriminate. Qed.
Local Close Scope Z_scope.

(* ------------------------------------------------------------------ heap: groups of cells *)
Lemma c20_write_all_length : forall cells vals H, length (c20_write_all H cells vals) = length H.
Proof.
  induction cells as [|c cs IH]; intros [|v vs] H; simpl; auto.
  rewrite IH. apply c20_write_length.
Qed.

Lemma c20_write_all_frame : forall cells vals H a, ~ In a cells -> c20_read (c20_write_all H cells vals) a = c20_read H a.
Proof.
  induction cells as [|c cs IH]; intros [|v vs] H a Hn; simpl; auto.
  rewrite IH by (intro; apply Hn; now right).
  apply c20_read_write_neq. intro; apply Hn; now left.
Qed.

Lemma c20_write_all_read : forall cells vals H,
  NoDup cells -> Forall (fun a => a < length H) cells -> length vals = length cells ->
  c20_read_all (c20_write_all H cells vals) cells = vals.
Proof.
  induction cells as [|c cs IH]; intros [|v vs] H Hnd Hr Hl; simpl in *; try discriminate; auto.
  inversion Hnd; subst. inversion Hr; subst. f_equal.
  - rewrite c20_write_all_frame by assumption. now apply c20_read_write_eq.
  - apply IH; auto. rewrite c20_write_length. assumption.
Qed.

Lemma c20_read_all_app : forall H ext cells,
  Forall (fun a => a < length H) cells -> c20_read_all (H ++ ext) cells = c20_read_all H cells.
Proof.
  intros H ext cells Hr. unfold c20_read_all. apply map_ext_in. intros a Ha.
  rewrite Forall_forall in Hr. unfold c20_read. apply app_nth1. now apply Hr.
Qed.

Lemma c20_read_all_fresh : forall vals H, c20_read_all (H ++ vals) (seq (length H) (length vals)) = vals.
Proof.
  induction vals as [|v vs IH]; intros H; simpl; auto. f_equal.
  - unfold c20_read. rewrite app_nth2 by lia. now rewrite Nat.sub_diag.
  - replace (H ++ v :: vs) with ((H ++ [v]) ++ vs) by (now rewrite <- app_assoc).
    replace (S (length H)) with (length (H ++ [v])) by (rewrite app_length; simpl; lia).
    apply IH.
Qed.

Lemma c20_read_all_length : forall H cells, length (c20_read_all H cells) = length cells.
Proof. intros. apply map_length. Qed.

Lemma NoDup_map_inj_on : forall (A B : Type) (f : A -> B) l,
  (forall x y, In x l -> In y l -> f x = f y -> x = y) -> NoDup l -> NoDup (map f l).
Proof.
  intros A B f l Hinj Hnd. induction Hnd as [|a l Ha Hnd IH]; simpl; constructor.
  - intro Hin. apply in_map_iff in Hin as [y [Hy Hyl]]. apply Ha.
    replace a with y; auto. apply Hinj; simpl; auto.
  - apply IH. intros; apply Hinj; simpl; auto.
Qed.

(* ------------------------------------------------------------------ well-formed states *)
Lemma c20_obj_ok_ext : forall H H' o, c20_obj_ok H o -> length H <= length H' -> c20_obj_ok H' o.
Proof.
  intros H H' o [Hnd Hr] Hl. split; auto. eapply Forall_impl; [|exact Hr]. simpl; intros; lia.
Qed.

Lemma c20_wf_push_new : forall st k vals, c20_wf st -> c20_wf (fst (c20_push_new st k vals)).
Proof.
  intros st k vals Hwf. unfold c20_push_new, c20_alloc, c20_wf in *. simpl.
  apply Forall_app. split.
  - eapply Forall_impl; [|exact Hwf]. intros o Ho. eapply c20_obj_ok_ext; eauto. rewrite app_length; lia.
  - constructor; [|constructor]. split; simpl.
    + apply seq_NoDup.
    + apply Forall_forall. intros a Ha. apply in_seq in Ha. rewrite app_length. lia.
Qed.

Lemma c20_wf_push_shared : forall st k cells, c20_wf st ->
  NoDup cells -> Forall (fun a => a < length (c20_H st)) cells -> c20_wf (fst (c20_push_shared st k cells)).
Proof.
  intros st k cells Hwf Hnd Hr. unfold c20_push_shared, c20_wf in *. simpl.
  apply Forall_app. split; auto. constructor; [|constructor]. split; auto.
Qed.

Lemma c20_wf_set_heap : forall st H', c20_wf st -> length H' = length (c20_H st) -> c20_wf (c20_set_heap st H').
Proof.
  intros st H' Hwf Hl. unfold c20_set_heap, c20_wf in *. simpl.
  eapply Forall_impl; [|exact Hwf]. intros o Ho. eapply c20_obj_ok_ext; eauto. lia.
Qed.

Lemma c20_wf_inplace : forall st o vals, c20_wf st -> c20_wf (fst (c20_inplace st o vals)).
Proof. intros. unfold c20_inplace. simpl. apply c20_wf_set_heap; auto. apply c20_write_all_length. Qed.

Lemma c20_wf_on_any : forall st r f, c20_wf st ->
  (forall o, In o (c20_regs st) -> c20_obj_ok (c20_H st) o -> c20_wf (fst (f o))) -> c20_wf (fst (c20_on_any st r f)).
Proof.
  intros st r f Hwf Hf. unfold c20_on_any. destruct (nth_error (c20_regs st) r) eqn:E; simpl; auto.
  apply nth_error_In in E. apply Hf; auto. unfold c20_wf in Hwf. rewrite Forall_forall in Hwf. auto.
Qed.

Lemma c20_wf_on_vec : forall st r f, c20_wf st ->
  (forall o, In o (c20_regs st) -> c20_obj_ok (c20_H st) o -> c20_wf (fst (f o))) -> c20_wf (fst (c20_on_vec st r f)).
Proof.
  intros st r f Hwf Hf. unfold c20_on_vec. destruct (nth_error (c20_regs st) r) eqn:E; simpl; auto.
  destruct (c20_k c); simpl; auto.
  apply nth_error_In in E. apply Hf; auto. unfold c20_wf in Hwf. rewrite Forall_forall in Hwf. auto.
Qed.

Lemma c20_wf_with_operand : forall st o s f, c20_wf st -> (forall y, c20_wf (fst (f y))) -> c20_wf (fst (c20_with_operand st o s f)).
Proof. intros. unfold c20_with_operand. destruct (c20_operand st o s); simpl; auto. Qed.

(* ------------------------------------------------------------------ slices *)
Local Open Scope Z_scope.
Lemma c20_adjust_range : forall n st x, 0 <= n ->
  (0 < st -> 0 <= c20_adjust n st x <= n) /\ (st < 0 -> -1 <= c20_adjust n st x <= n - 1).
Proof.
  intros n st x Hn. unfold c20_adjust.
  destruct (Z.ltb_spec x 0); [destruct (Z.ltb_spec (x + n) 0)|destruct (Z.leb_spec n x)];
    destruct (Z.ltb_spec st 0); split; intros; lia.
Qed.

Lemma c20_slice_formula : forall (a st len : Z) (n : nat),
  st <> 0 ->
  (forall k, 0 <= k < len -> 0 <= a + k * st < Z.of_nat n) ->
  let idx := map (fun k : nat => Z.to_nat (a + Z.of_nat k * st)) (seq 0 (Z.to_nat len)) in
  NoDup idx /\ Forall (fun j => (j < n)%nat) idx.
Proof.
  intros a st len n Hst Hr idx. subst idx. split.
  - apply NoDup_map_inj_on; [|apply seq_NoDup].
    intros x y Hx Hy E. apply in_seq in Hx. apply in_seq in Hy.
    assert (0 <= a + Z.of_nat x * st < Z.of_nat n) by (apply Hr; lia).
    assert (0 <= a + Z.of_nat y * st < Z.of_nat n) by (apply Hr; lia).
    apply Z2Nat.inj in E; try lia.
    assert (Z.of_nat x * st = Z.of_nat y * st) by lia.
    apply Z.mul_cancel_r in H1; auto. lia.
  - apply Forall_forall. intros j Hj. apply in_map_iff in Hj as [k [<- Hk]]. apply in_seq in Hk.
    assert (0 <= a + Z.of_nat k * st < Z.of_nat n) by (apply Hr; lia). lia.
Qed.

(* every slice of an n-vector addresses distinct positions inside [0, n): no access outside the object *)
Lemma P_slice_range : forall n a b c idx,
  c20_slice_indices n a b c = C20_Ok idx -> NoDup idx /\ Forall (fun j => (j < n)%nat) idx.
Proof.
  intros n a b c idx. unfold c20_slice_indices.
  set (nz := Z.of_nat n). set (st := match c with None => 1 | Some s => s end).
  destruct (Z.eqb_spec st 0) as [|Hst]; [discriminate|].
  set (A := match a with None => if st <? 0 then nz - 1 else 0 | Some x => c20_adjust nz st x end).
  set (B := match b with None => if st <? 0 then -1 else nz | Some x => c20_adjust nz st x end).
  assert (Hn : 0 <= nz) by (subst nz; lia).
  assert (HA : (0 < st -> 0 <= A <= nz) /\ (st < 0 -> -1 <= A <= nz - 1)).
  { subst A. destruct a; [apply c20_adjust_range; auto|]. destruct (Z.ltb_spec st 0); split; intros; lia. }
  assert (HB : (0 < st -> 0 <= B <= nz) /\ (st < 0 -> -1 <= B <= nz - 1)).
  { subst B. destruct b; [apply c20_adjust_range; auto|]. destruct (Z.ltb_spec st 0); split; intros; lia. }
  intros [= <-]. apply c20_slice_formula; auto. fold nz.
  destruct HA as [HA1 HA2]. destruct HB as [HB1 HB2].
  destruct (Z.ltb_spec st 0) as [Hneg|Hpos].
  - specialize (HA2 Hneg). specialize (HB2 Hneg).
    destruct (Z.ltb_spec B A) as [Hlt|Hge]; [|intros; lia].
    intros k Hk.
    assert (Hq : (- st) * ((A - B - 1) / (- st)) <= A - B - 1) by (apply Z.mul_div_le; lia).
    assert (k <= (A - B - 1) / (- st)) by lia.
    assert (k * (- st) <= ((A - B - 1) / (- st)) * (- st)) by (apply Z.mul_le_mono_nonneg_r; lia).
    lia.
  - assert (Hp : 0 < st) by lia. specialize (HA1 Hp). specialize (HB1 Hp).
    destruct (Z.ltb_spec A B) as [Hlt|Hge]; [|intros; lia].
    intros k Hk.
    assert (Hq : st * ((B - A - 1) / st) <= B - A - 1) by (apply Z.mul_div_le; lia).
    assert (k <= (B - A - 1) / st) by lia.
    assert (k * st <= ((B - A - 1) / st) * st) by (apply Z.mul_le_mono_nonneg_r; lia).
    lia.
Qed.
Local Close Scope Z_scope.

(* v[a:b] with 0 <= a <= b <= n is positions a .. b-1 *)
Lemma c20_seq_affine : forall a m s,
  map (fun k : nat => Z.to_nat (Z.of_nat a + Z.of_nat k * 1)) (seq s m) = seq (a + s) m.
Proof.
  intros a m. induction m as [|m IH]; intros s; simpl; auto. f_equal; [lia|].
  rewrite IH. f_equal. lia.
Qed.

Lemma P_slice_simple : forall n a b, a <= b <= n ->
  c20_slice_indices n (Some (Z.of_nat a)) (Some (Z.of_nat b)) None = C20_Ok (seq a (b - a)).
Proof.
  intros n a b Hab. unfold c20_slice_indices.
  change (1 =? 0)%Z with false. change (1 <? 0)%Z with false. cbv iota.
  assert (Ha : c20_adjust (Z.of_nat n) 1 (Z.of_nat a) = Z.of_nat a).
  { unfold c20_adjust. destruct (Z.ltb_spec (Z.of_nat a) 0); [lia|].
    destruct (Z.leb_spec (Z.of_nat n) (Z.of_nat a)); [|reflexivity]. change (1 <? 0)%Z with false. cbv iota. lia. }
  assert (Hb : c20_adjust (Z.of_nat n) 1 (Z.of_nat b) = Z.of_nat b).
  { unfold c20_adjust. destruct (Z.ltb_spec (Z.of_nat b) 0); [lia|].
    destruct (Z.leb_spec (Z.of_nat n) (Z.of_nat b)); [|reflexivity]. change (1 <? 0)%Z with false. cbv iota. lia. }
  rewrite Ha, Hb. f_equal.
  destruct (Z.ltb_spec (Z.of_nat a) (Z.of_nat b)).
  - rewrite Z.div_1_r. replace (Z.to_nat (Z.of_nat b - Z.of_nat a - 1 + 1)) with (b - a) by lia.
    rewrite c20_seq_affine. f_equal. lia.
  - replace (b - a) with 0 by lia. reflexivity.
Qed.

(* ------------------------------------------------------------------ every step keeps every object inside the heap *)
Lemma c20_slice_cells_ok : forall H o idx,
  c20_obj_ok H o -> NoDup idx -> Forall (fun j => j < c20_size o) idx ->
  NoDup (map (fun j => nth j (c20_cells o) 0) idx) /\
  Forall (fun a => a < length H) (map (fun j => nth j (c20_cells o) 0) idx).
Proof.
  intros H o idx [Hnd Hr] Hi Hj. rewrite Forall_forall in Hj, Hr. split.
  - apply NoDup_map_inj_on; auto. intros x y Hx Hy E.
    rewrite (NoDup_nth (c20_cells o) 0) in Hnd. apply Hnd; auto; apply Hj; auto.
  - apply Forall_forall. intros a Ha. apply in_map_iff in Ha as [j [<- Hjn]].
    apply Hr. apply nth_In. apply Hj; auto.
Qed.

Lemma c20_wf_on_npv : forall cfg st r f, c20_wf st ->
  (forall cs, c20_wf (fst (f cs))) -> c20_wf (fst (c20_on_npv cfg st r f)).
Proof.
  intros cfg st r f Hwf Hf. unfold c20_on_npv. destruct (nth_error (c20_regs st) r); simpl; auto.
  destruct (c20_npv_cells cfg (c20_H st) (c20_cells c)); simpl; auto.
Qed.

Lemma c20_wf_npv_inplace : forall st cs vals, c20_wf st -> c20_wf (fst (c20_npv_inplace st cs vals)).
Proof. intros. unfold c20_npv_inplace. simpl. apply c20_wf_set_heap; auto. apply c20_write_all_length. Qed.

Lemma c20_wf_on_arr2 : forall st r s f, c20_wf st ->
  (forall o y, In o (c20_regs st) -> c20_obj_ok (c20_H st) o -> c20_wf (fst (f o y))) -> c20_wf (fst (c20_on_arr2 st r s f)).
Proof.
  intros st r s f Hwf Hf. unfold c20_on_arr2. destruct (nth_error (c20_regs st) r) eqn:E; simpl; auto.
  destruct (nth_error (c20_regs st) s); simpl; auto. destruct (c20_k c); simpl; auto.
  destruct (c20_np_operand (c20_size c) (c20_vals st c0)); simpl; auto.
  apply nth_error_In in E. apply Hf; auto. unfold c20_wf in Hwf. rewrite Forall_forall in Hwf. auto.
Qed.

Lemma c20_wf_on_arr : forall st r f, c20_wf st ->
  (forall o, In o (c20_regs st) -> c20_obj_ok (c20_H st) o -> c20_wf (fst (f o))) -> c20_wf (fst (c20_on_arr st r f)).
Proof.
  intros st r f Hwf Hf. unfold c20_on_arr. destruct (nth_error (c20_regs st) r) eqn:E; simpl; auto.
  destruct (c20_k c); simpl; auto.
  apply nth_error_In in E. apply Hf; auto. unfold c20_wf in Hwf. rewrite Forall_forall in Hwf. auto.
Qed.

Lemma c20_wf_arradd : forall st r s, c20_wf st -> c20_wf (fst (c20_arradd st r s)).
Proof.
  intros st r s Hwf. unfold c20_arradd.
  destruct (nth_error (c20_regs st) r); simpl; auto. destruct (nth_error (c20_regs st) s); simpl; auto.
  destruct (c20_k c); simpl; auto. destruct (c20_np_operand (c20_size c) (c20_vals st c0)); [now apply c20_wf_push_new|].
  destruct (Nat.eqb (c20_size c) 1); [now apply c20_wf_push_new|assumption].
Qed.

Lemma c20_wf_setslice : forall st o a b c vals, c20_wf st -> c20_wf (fst (c20_setslice st o a b c vals)).
Proof.
  intros. unfold c20_setslice. destruct (c20_slice_indices (c20_size o) a b c); simpl; auto.
  repeat match goal with |- context [if ?x then _ else _] => destruct x end;
    try (apply c20_wf_npv_inplace; assumption); simpl; assumption.
Qed.

(* iteration by the sequence protocol: __getitem__(0), (1), ... stops with IndexError exactly at n and yields the entries in order *)
Lemma c20_skipn_nth_cons : forall (l : list Q) i, i < length l -> skipn i l = nth i l 0%Q :: skipn (S i) l.
Proof. induction l as [|a l IH]; intros [|i] Hi; simpl in *; try lia; auto. apply IH. lia. Qed.

Lemma P_iter_loop : forall fuel k H cells i, i <= length cells -> length cells - i < fuel ->
  c20_iter_loop fuel k H cells i = Some (skipn i (c20_read_all H cells)).
Proof.
  induction fuel as [|f IH]; intros k H cells i Hi Hf; [lia|]. simpl.
  destruct (P_index k (length cells) (Z.of_nat i)) as [-> _]. unfold c20_index_res.
  destruct (Nat.eq_dec i (length cells)) as [->|Hne].
  - destruct (P_spec_index_defined (length cells) (Z.of_nat (length cells))) as [Hd _].
    destruct (c20_spec_index (length cells) (Z.of_nat (length cells))) eqn:E.
    + exfalso. assert (Some n <> None) by discriminate. apply Hd in H0. lia.
    + rewrite skipn_all2; [reflexivity|]. unfold c20_read_all. rewrite map_length. lia.
  - destruct (P_spec_index_defined (length cells) (Z.of_nat i)) as [_ [H1 _]]. rewrite H1 by lia. rewrite Nat2Z.id.
    rewrite IH by lia.
    rewrite (c20_skipn_nth_cons (c20_read_all H cells) i) by (unfold c20_read_all; rewrite map_length; lia).
    do 2 f_equal. unfold c20_read_all.
    rewrite (nth_indep _ 0%Q (c20_read H 0)) by (rewrite map_length; lia). now rewrite map_nth.
Qed.

Lemma P_iter : forall k H cells, c20_iter_loop (S (length cells)) k H cells 0 = Some (c20_read_all H cells).
Proof. intros. rewrite P_iter_loop by lia. reflexivity. Qed.

Arguments c20_iter_loop : simpl never.
Arguments c20_construct_buffer : simpl never.

Lemma P_step_wf : forall cfg st op, c20_wf st -> c20_wf (fst (c20_step cfg st op)).
Proof.
  intros cfg st op Hwf.
  destruct op; simpl;
    try (apply c20_wf_push_new; assumption);
    try match goal with
      | |- context [c20_on_arr2] => apply c20_wf_on_arr2; [assumption | intros o y Ho Hok]
      | |- context [c20_on_arr] => apply c20_wf_on_arr; [assumption | intros o Ho Hok]
      | |- context [c20_on_npv] => apply c20_wf_on_npv; [assumption | intros cs]
      | |- context [c20_on_vec] => apply c20_wf_on_vec; [assumption | intros o Ho Hok]
      | |- context [c20_on_any] => apply c20_wf_on_any; [assumption | intros o Ho Hok]
      end;
    try (apply c20_wf_with_operand; [assumption | intros y]);
    try match goal with |- context [nth_error (c20_regs st) ?s] => destruct (nth_error (c20_regs st) s); simpl; auto end;
    try (apply c20_wf_arradd; assumption);
    try (apply c20_wf_setslice; assumption);
    try match goal with
      | |- context [c20_slice_indices ?n ?a ?b ?c] =>
          let E := fresh "E" in
          destruct (c20_slice_indices n a b c) eqn:E; simpl; auto;
          apply P_slice_range in E as [E1 E2];
          destruct (c20_slice_cells_ok _ _ _ Hok E1 E2); apply c20_wf_push_shared; auto
      | |- context [c20_construct_buffer ?a ?b ?c ?d ?e] =>
          destruct (c20_construct_buffer a b c d e); simpl; auto; apply c20_wf_push_new; assumption
      | |- context [c20_iter_loop ?a ?b ?c ?d ?e] => destruct (c20_iter_loop a b c d e); simpl; auto
      | |- context [c20_getitem_index ?k ?n ?i] => destruct (c20_getitem_index k n i); simpl; auto
      | |- context [c20_setitem_index ?c ?k ?n ?i] =>
          destruct (c20_setitem_index c k n i); simpl; auto;
          apply c20_wf_set_heap; auto; apply c20_write_length
      | |- context [c20_push_shared] => destruct Hok; apply c20_wf_push_shared; auto
      end;
    repeat match goal with |- context [if ?c then _ else _] => destruct c end;
    try (apply c20_wf_push_new; assumption);
    try (apply c20_wf_inplace; assumption);
    try (apply c20_wf_npv_inplace; assumption);
    try (simpl; apply c20_wf_set_heap; [assumption | apply c20_write_length]);
    try (simpl; assumption).
Qed.

Lemma P_step_reg_wf : forall cfg st op, c20_wf st -> c20_wf (fst (c20_step_reg cfg st op)).
Proof.
  intros cfg st op Hwf. unfold c20_step_reg.
  pose proof (P_step_wf cfg st op Hwf) as H1. destruct (c20_step cfg st op) as [st' ob]. simpl in H1.
  destruct ob; simpl; auto.
  destruct (nth_error (c20_regs st') r) eqn:E; simpl; auto.
  unfold c20_wf in *. simpl. apply Forall_app. split; auto. constructor; [|constructor].
  rewrite Forall_forall in H1. apply H1. eapply nth_error_In; eauto.
Qed.

(* for EVERY script: all objects address distinct cells inside the heap, at every point of the run *)
Lemma P_run_wf : forall cfg ops st, c20_wf st -> c20_wf (fst (c20_run cfg st ops)).
Proof.
  intros cfg ops. induction ops as [|op rest IH]; intros st Hwf; simpl; auto.
  pose proof (P_step_reg_wf cfg st op Hwf) as H1. destruct (c20_step_reg cfg st op) as [st' ob].
  specialize (IH st' H1). destruct (c20_run cfg st' rest). simpl in *. assumption.
Qed.

Lemma P_init_wf : c20_wf c20_init.
Proof. constructor. Qed.

(* ------------------------------------------------------------------ reading and writing through objects *)
Lemma c20_nth_read_all : forall H cells j, j < length cells ->
  nth j (c20_read_all H cells) 0%Q = c20_read H (nth j cells 0).
Proof.
  intros H cells j Hj. unfold c20_read_all.
  rewrite (nth_indep _ 0%Q (c20_read H 0)) by (now rewrite map_length). apply map_nth.
Qed.

Lemma c20_index_res_range : forall n i j, c20_index_res n i = C20_Ok j -> j < n.
Proof.
  unfold c20_index_res. intros n i j. destruct (c20_spec_index n i) eqn:E; [|discriminate].
  intros [= <-]. eapply P_spec_index_range; eauto.
Qed.

Lemma c20_setitem_index_range : forall cfg k n i j, c20_setitem_index cfg k n i = C20_Ok j -> j < n.
Proof.
  intros cfg k n i j. destruct k; simpl.
  - destruct (cfg_setitem_wrapped cfg).
    + rewrite P_wrapped_index. apply c20_index_res_range.
    + unfold c20_cpp_index. destruct (Z.ltb_spec i 0); [discriminate|].
      destruct (Z.ltb_spec i (Z.of_nat n)); [|discriminate]. intros [= <-]. lia.
  - rewrite P_np_index. apply c20_index_res_range.
Qed.

(* __getitem__: the entry at the Python position, IndexError outside [-n, n); nothing changes *)
Lemma P_get_step : forall cfg st r o i, nth_error (c20_regs st) r = Some o ->
  c20_step cfg st (C20_Get r i) =
    (st, match c20_spec_index (c20_size o) i with
         | Some j => C20_ObsScalar (nth j (c20_vals st o) 0%Q)
         | None => C20_ObsExc C20_IndexError
         end).
Proof.
  intros cfg st r o i E. simpl. unfold c20_on_any. rewrite E.
  destruct (P_index (c20_k o) (c20_size o) i) as [-> _]. unfold c20_index_res.
  destruct (c20_spec_index (c20_size o) i) eqn:Ei; auto.
  apply P_spec_index_range in Ei. unfold c20_vals. now rewrite c20_nth_read_all.
Qed.

(* the repaired __setitem__: exactly the addressed cell changes, IndexError outside [-n, n) changes nothing *)
Lemma P_set_step : forall st r o i x, c20_wf st -> nth_error (c20_regs st) r = Some o ->
  match c20_spec_index (c20_size o) i with
  | Some j =>
      snd (c20_step c20_cfg_fixed st (C20_Set r i x)) = C20_ObsNone /\
      c20_regs (fst (c20_step c20_cfg_fixed st (C20_Set r i x))) = c20_regs st /\
      length (c20_H (fst (c20_step c20_cfg_fixed st (C20_Set r i x)))) = length (c20_H st) /\
      forall a, c20_read (c20_H (fst (c20_step c20_cfg_fixed st (C20_Set r i x)))) a =
                if Nat.eqb a (nth j (c20_cells o) 0) then x else c20_read (c20_H st) a
  | None => c20_step c20_cfg_fixed st (C20_Set r i x) = (st, C20_ObsExc C20_IndexError)
  end.
Proof.
  intros st r o i x Hwf E. simpl. unfold c20_on_any. rewrite E.
  destruct (P_index (c20_k o) (c20_size o) i) as [_ [-> _]]. unfold c20_index_res.
  destruct (c20_spec_index (c20_size o) i) eqn:Ei; auto. simpl.
  repeat split; auto using c20_write_length.
  intros a. apply P_spec_index_range in Ei.
  assert (Hc : nth n (c20_cells o) 0 < length (c20_H st)).
  { unfold c20_wf in Hwf. rewrite Forall_forall in Hwf. destruct (Hwf o (nth_error_In _ _ E)) as [_ Hr].
    rewrite Forall_forall in Hr. apply Hr. now apply nth_In. }
  destruct (Nat.eqb_spec a (nth n (c20_cells o) 0)) as [->|Hne].
  - now apply c20_read_write_eq.
  - apply c20_read_write_neq. congruence.
Qed.

(* a write through one object, seen through any other object: cell by cell *)
Lemma P_write_seen : forall H o p j k x, c20_obj_ok H o -> j < c20_size o -> k < c20_size p ->
  nth k (c20_read_all (c20_write H (nth j (c20_cells o) 0) x) (c20_cells p)) 0%Q =
  if Nat.eqb (nth k (c20_cells p) 0) (nth j (c20_cells o) 0) then x else nth k (c20_read_all H (c20_cells p)) 0%Q.
Proof.
  intros H o p j k x [_ Hr] Hj Hk. rewrite !c20_nth_read_all by assumption.
  rewrite Forall_forall in Hr.
  destruct (Nat.eqb_spec (nth k (c20_cells p) 0) (nth j (c20_cells o) 0)) as [->|Hne].
  - apply c20_read_write_eq. apply Hr. now apply nth_In.
  - apply c20_read_write_neq. congruence.
Qed.

(* ------------------------------------------------------------------ sequences of writes *)
Lemma c20_run_cons_fst : forall cfg st op rest,
  fst (c20_run cfg st (op :: rest)) = fst (c20_run cfg (fst (c20_step_reg cfg st op)) rest).
Proof.
  intros. simpl. destruct (c20_step_reg cfg st op) as [st' ob]. simpl. now destruct (c20_run cfg st' rest).
Qed.

Lemma c20_set_effect : forall cfg st r i x,
  let st' := fst (c20_step_reg cfg st (C20_Set r i x)) in
  c20_regs st' = c20_regs st /\ length (c20_H st') = length (c20_H st) /\
  forall a, (forall o, nth_error (c20_regs st) r = Some o -> ~ In a (c20_cells o)) ->
            c20_read (c20_H st') a = c20_read (c20_H st) a.
Proof.
  intros cfg st r i x. unfold c20_step_reg. simpl. unfold c20_on_any.
  destruct (nth_error (c20_regs st) r) as [o|] eqn:E; simpl; auto.
  destruct (c20_setitem_index cfg (c20_k o) (c20_size o) i) eqn:Ei; simpl; auto.
  repeat split; auto using c20_write_length.
  intros b Hb. apply c20_read_write_neq. intro; subst b.
  apply (Hb o eq_refl). apply nth_In. eapply c20_setitem_index_range; eauto.
Qed.

Lemma c20_writes_cons : forall cfg st w ws,
  c20_writes cfg st (w :: ws) =
  c20_writes cfg (fst (c20_step_reg cfg st (C20_Set (fst (fst w)) (snd (fst w)) (snd w)))) ws.
Proof. intros. unfold c20_writes. simpl map. apply c20_run_cons_fst. Qed.

Lemma c20_writes_regs : forall cfg ws st,
  c20_regs (c20_writes cfg st ws) = c20_regs st /\ length (c20_H (c20_writes cfg st ws)) = length (c20_H st).
Proof.
  intros cfg ws. induction ws as [|[[r i] x] ws IH]; intros st.
  - unfold c20_writes. simpl. auto.
  - rewrite c20_writes_cons. simpl fst; simpl snd.
    destruct (c20_set_effect cfg st r i x) as [H1 [H2 _]].
    destruct (IH (fst (c20_step_reg cfg st (C20_Set r i x)))) as [H3 H4]. split; congruence.
Qed.

(* writes through objects disjoint from p never change what p shows: for every sequence of writes *)
Lemma P_writes_frame : forall cfg ws st p,
  (forall w o, In w ws -> nth_error (c20_regs st) (fst (fst w)) = Some o -> c20_disjoint p o) ->
  c20_vals (c20_writes cfg st ws) p = c20_vals st p.
Proof.
  intros cfg ws. induction ws as [|[[r i] x] ws IH]; intros st p Hd.
  - reflexivity.
  - rewrite c20_writes_cons. simpl fst; simpl snd.
    destruct (c20_set_effect cfg st r i x) as [H1 [H2 H3]].
    rewrite IH.
    + unfold c20_vals, c20_read_all. apply map_ext_in. intros a Ha. apply H3.
      intros o Eo Hin. apply (Hd (r, i, x) o (or_introl eq_refl) Eo a Ha Hin).
    + intros w o Hw Eo. rewrite H1 in Eo. apply (Hd w o (or_intror Hw) Eo).
Qed.

(* ------------------------------------------------------------------ views share, copies are independent *)
Lemma c20_nth_error_app_last : forall (A : Type) (l : list A) x, nth_error (l ++ [x]) (length l) = Some x.
Proof. intros. rewrite nth_error_app2 by lia. now rewrite Nat.sub_diag. Qed.

Lemma c20_nth_error_app_old : forall (A : Type) (l : list A) x r y, nth_error l r = Some y -> nth_error (l ++ [x]) r = Some y.
Proof. intros. rewrite nth_error_app1; auto. apply nth_error_Some. congruence. Qed.

(* np.array(v, copy=False): after ANY sequence of writes (through any object) the view and the vector show the
   same entries, because they address the same cells *)
Lemma P_view_shares : forall cfg st r o ws, nth_error (c20_regs st) r = Some o -> c20_k o = C20_Vec ->
  let st1 := fst (c20_step_reg cfg st (C20_View r)) in
  let st2 := c20_writes cfg st1 ws in
  exists v, nth_error (c20_regs st2) (length (c20_regs st)) = Some v /\ nth_error (c20_regs st2) r = Some o /\
            c20_k v = C20_Arr /\ c20_cells v = c20_cells o /\ c20_vals st2 v = c20_vals st2 o.
Proof.
  intros cfg st r o ws E Hk st1 st2.
  assert (Hst1 : c20_regs st1 = c20_regs st ++ [{| c20_k := C20_Arr; c20_cells := c20_cells o |}]).
  { subst st1. unfold c20_step_reg. simpl. unfold c20_on_vec. rewrite E, Hk. reflexivity. }
  destruct (c20_writes_regs cfg ws st1) as [Hr _]. fold st2 in Hr.
  exists {| c20_k := C20_Arr; c20_cells := c20_cells o |}.
  rewrite Hr, Hst1. repeat split; auto using c20_nth_error_app_last, c20_nth_error_app_old.
Qed.

Lemma c20_push_new_effect : forall st k vals, c20_wf st ->
  let st' := fst (c20_push_new st k vals) in
  let onew := {| c20_k := k; c20_cells := seq (length (c20_H st)) (length vals) |} in
  c20_regs st' = c20_regs st ++ [onew] /\ c20_vals st' onew = vals /\
  forall p, In p (c20_regs st) -> c20_vals st' p = c20_vals st p /\ c20_disjoint p onew /\ c20_disjoint onew p.
Proof.
  intros st k vals Hwf st' onew. subst st' onew. unfold c20_push_new, c20_alloc. simpl.
  split; [reflexivity|]. split; [apply c20_read_all_fresh|].
  intros p Hp. unfold c20_wf in Hwf. rewrite Forall_forall in Hwf. destruct (Hwf p Hp) as [_ Hr].
  split; [unfold c20_vals; simpl; now apply c20_read_all_app|].
  rewrite Forall_forall in Hr.
  split; intros a Ha Hb; simpl in *.
  - apply in_seq in Hb. apply Hr in Ha. lia.
  - apply in_seq in Ha. apply Hr in Hb. lia.
Qed.

(* type(v)(v) / np.array(a): the copy holds the same entries in fresh cells; whatever is then written through the
   older objects never shows in the copy, and whatever is written through the copy never shows in them *)
Lemma P_copy_independent : forall cfg st r o, c20_wf st -> nth_error (c20_regs st) r = Some o ->
  let st1 := fst (c20_step_reg cfg st (C20_CopyCtor r)) in
  let c := length (c20_regs st) in
  exists oc, nth_error (c20_regs st1) c = Some oc /\ c20_k oc = c20_k o /\ c20_vals st1 oc = c20_vals st o /\
    (forall ws, (forall w, In w ws -> fst (fst w) < c) -> c20_vals (c20_writes cfg st1 ws) oc = c20_vals st o) /\
    (forall ws p, (forall w, In w ws -> fst (fst w) = c) -> In p (c20_regs st) ->
                  c20_vals (c20_writes cfg st1 ws) p = c20_vals st p).
Proof.
  intros cfg st r o Hwf E st1 c.
  destruct (c20_push_new_effect st (c20_k o) (c20_vals st o) Hwf) as [H1 [H2 H3]].
  assert (Hst1 : st1 = fst (c20_push_new st (c20_k o) (c20_vals st o))).
  { subst st1. unfold c20_step_reg. simpl. unfold c20_on_any. rewrite E. reflexivity. }
  set (oc := {| c20_k := c20_k o; c20_cells := seq (length (c20_H st)) (length (c20_vals st o)) |}) in *.
  exists oc. rewrite Hst1. rewrite H1.
  split; [apply c20_nth_error_app_last|]. split; [reflexivity|]. split; [exact H2|]. split.
  - intros ws Hws. rewrite P_writes_frame; auto.
    intros w q Hw Eq. rewrite H1 in Eq. specialize (Hws w Hw).
    rewrite nth_error_app1 in Eq by (subst c; lia).
    apply nth_error_In in Eq. apply H3 in Eq. tauto.
  - intros ws p Hws Hp. rewrite P_writes_frame; [apply H3; auto|].
    intros w q Hw Eq. rewrite H1 in Eq. rewrite (Hws w Hw) in Eq. subst c.
    rewrite c20_nth_error_app_last in Eq. injection Eq as <-. apply H3; auto.
Qed.

(* ------------------------------------------------------------------ operators act on the entry lists *)
Lemma c20_operand_spec : forall st o s p, nth_error (c20_regs st) s = Some p ->
  c20_operand st o s = Some (c20_spec_construct (c20_size o) (c20_vals st p)).
Proof. intros. unfold c20_operand. rewrite H. now rewrite P_construct. Qed.

Section Ops.
  Variables (cfg : c20_cfg) (st : c20_state) (r s : nat) (o p : c20_obj).
  Hypothesis Er : nth_error (c20_regs st) r = Some o.
  Hypothesis Ko : c20_k o = C20_Vec.
  Hypothesis Es : nth_error (c20_regs st) s = Some p.
  Let x := c20_vals st o.
  Let y := c20_spec_construct (c20_size o) (c20_vals st p).      (* operand converted to the vector's type *)
  Let conv (l : list Q) := c20_spec_construct (c20_size o) l.

  Ltac op_tac := simpl; unfold c20_on_vec, c20_with_operand; rewrite ?Er, ?Ko; try rewrite (c20_operand_spec _ _ _ _ Es);
                 rewrite ?P_construct; reflexivity.

  (* copy-returning operators: a NEW vector whose entries are the C++ result on the entry lists *)
  Lemma P_ops_copying :
    c20_step cfg st (C20_Add r s) = c20_push_new st C20_Vec (c20_vadd x y) /\
    c20_step cfg st (C20_Sub r s) = c20_push_new st C20_Vec (c20_vsub x y) /\
    (forall l, c20_step cfg st (C20_AddL r l) = c20_push_new st C20_Vec (c20_vadd x (conv l))) /\
    (forall l, c20_step cfg st (C20_RAddL r l) = c20_push_new st C20_Vec (c20_vadd (conv l) x)) /\
    (forall l, c20_step cfg st (C20_SubL r l) = c20_push_new st C20_Vec (c20_vsub x (conv l))) /\
    (forall l, c20_step cfg st (C20_RSubL r l) = c20_push_new st C20_Vec (c20_vsub (conv l) x)) /\
    (forall q, c20_step cfg st (C20_MulS r q) = c20_push_new st C20_Vec (c20_vscale q x)) /\
    (forall q, c20_step cfg st (C20_RMulS r q) = c20_push_new st C20_Vec (c20_vscale q x)) /\
    (forall q, c20_qeqb q 0 = false -> c20_step cfg st (C20_DivS r q) = c20_push_new st C20_Vec (c20_vdiv q x)) /\
    c20_step cfg st (C20_Neg r) = c20_push_new st C20_Vec (c20_vneg x) /\
    c20_step cfg st (C20_Pos r) = (st, C20_ObsAlias r).
  Proof.
    repeat split; intros; try op_tac.
    simpl. unfold c20_on_vec. rewrite Er, Ko, H. reflexivity.
  Qed.

  (* in-place operators: the SAME cells receive the C++ result computed from the entries before the call *)
  Lemma P_ops_inplace :
    c20_step cfg st (C20_IAdd r s) = c20_inplace st o (c20_vadd x y) /\
    c20_step cfg st (C20_ISub r s) = c20_inplace st o (c20_vsub x y) /\
    c20_step cfg st (C20_Assign r s) = c20_inplace st o y /\
    (forall l, c20_step cfg st (C20_IAddL r l) = c20_inplace st o (c20_vadd x (conv l))) /\
    (forall q, c20_step cfg st (C20_IMulS r q) = c20_inplace st o (c20_vscale q x)) /\
    (forall q, c20_qeqb q 0 = false -> c20_step cfg st (C20_IDivS r q) = c20_inplace st o (c20_vdiv q x)) /\
    (forall q, c20_step cfg st (C20_IAddS r q) = c20_inplace st o (c20_vadds q x)) /\
    (forall q, c20_step cfg st (C20_ISubS r q) = c20_inplace st o (c20_vsubs q x)).
  Proof.
    repeat split; intros; try op_tac.
    simpl. unfold c20_on_vec. rewrite Er, Ko, H. reflexivity.
  Qed.

  (* scalar-valued operations depend on the entry lists only *)
  Lemma P_ops_scalar :
    c20_step cfg st (C20_Dot r s) = (st, C20_ObsScalar (c20_dot x y)) /\
    c20_step cfg st (C20_Eq r s) = (st, C20_ObsBool (c20_veq x y)) /\
    c20_step cfg st (C20_Ne r s) = (st, C20_ObsBool (negb (c20_veq x y))) /\
    (forall l, c20_step cfg st (C20_DotL r l) = (st, C20_ObsScalar (c20_dot x (conv l)))) /\
    (forall l, c20_step cfg st (C20_EqL r l) = (st, C20_ObsBool (c20_veq x (conv l)))) /\
    c20_step cfg st (C20_Norm1 r) = (st, C20_ObsScalar (c20_one_norm x)) /\
    c20_step cfg st (C20_Norm22 r) = (st, C20_ObsScalar (c20_two_norm2 x)) /\
    c20_step cfg st (C20_NormInf r) = (st, C20_ObsScalar (c20_inf_norm x)) /\
    c20_step cfg st (C20_Len r) = (st, C20_ObsInt (Z.of_nat (length x))) /\
    c20_step cfg st (C20_Iter r) = (st, C20_ObsList x) /\
    c20_step cfg st (C20_Str r) = (st, C20_ObsStr (c20_str x)) /\
    c20_step cfg st (C20_Repr r) = (st, C20_ObsStr (c20_repr x)).
  Proof.
    repeat split; intros; try op_tac.
    simpl. unfold c20_on_any. rewrite Er. subst x. unfold c20_vals, c20_size. now rewrite c20_read_all_length.
    simpl. unfold c20_on_any. rewrite Er. unfold c20_size. rewrite P_iter. reflexivity.
  Qed.
End Ops.

(* what an in-place operation does to the heap: the target shows the new entries, every view of the target follows,
   objects disjoint from the target are unchanged *)
Lemma P_inplace_effect : forall st o vals, c20_obj_ok (c20_H st) o -> length vals = c20_size o ->
  let st' := fst (c20_inplace st o vals) in
  c20_regs st' = c20_regs st /\ c20_vals st' o = vals /\
  (forall p, c20_cells p = c20_cells o -> c20_vals st' p = vals) /\
  (forall p, c20_disjoint p o -> c20_vals st' p = c20_vals st p).
Proof.
  intros st o vals [Hnd Hr] Hl st'. subst st'. unfold c20_inplace. simpl.
  split; [reflexivity|]. unfold c20_vals. simpl.
  assert (E : c20_read_all (c20_write_all (c20_H st) (c20_cells o) vals) (c20_cells o) = vals)
    by (apply c20_write_all_read; auto).
  split; [exact E|]. split.
  - intros p Hp. now rewrite Hp.
  - intros p Hd. unfold c20_read_all. apply map_ext_in. intros a Ha. apply c20_write_all_frame. now apply Hd.
Qed.

Lemma c20_map2_length : forall f a b, length (c20_map2 f a b) = Nat.min (length a) (length b).
Proof. induction a as [|x a IH]; intros [|y b]; simpl; auto. Qed.

Lemma c20_spec_construct_length : forall n x, length (c20_spec_construct n x) = n.
Proof. intros. unfold c20_spec_construct. rewrite app_length, repeat_length, firstn_length. lia. Qed.

(* ------------------------------------------------------------------ "%f": six decimals, nearest, ties to even *)
Lemma P_round6 : forall q,
  let n := (Z.abs (Qnum q) * 1000000)%Z in
  let d := Zpos (Qden q) in
  let r := c20_round6 q in
  (2 * Z.abs (n - r * d) <= d)%Z /\ (0 <= r)%Z /\
  ((2 * Z.abs (n - r * d) = d)%Z -> Z.even r = true).
Proof.
  intros q n d r. subst r. unfold c20_round6. fold n. fold d.
  assert (Hd : (0 < d)%Z) by (subst d; lia).
  assert (Hn : (0 <= n)%Z) by (subst n; lia).
  pose proof (Z.div_mod n d ltac:(lia)) as E.
  pose proof (Z.mod_pos_bound n d Hd) as Hm.
  pose proof (Z.div_pos n d Hn Hd) as Hq.
  set (r0 := (n / d)%Z) in *. set (m := (n mod d)%Z) in *.
  destruct (Z.ltb_spec d (2 * m)).
  - repeat split; try lia.
  - destruct (Z.eqb_spec (2 * m) d).
    + destruct (Z.odd r0) eqn:Eo.
      * repeat split; try lia. intros _. rewrite Z.even_add. rewrite <- Z.negb_odd. rewrite Eo. reflexivity.
      * repeat split; try lia. intros _. rewrite <- Z.negb_odd. now rewrite Eo.
    + repeat split; try lia.
Qed.

(* ------------------------------------------------------------------ NumPyVector: a strided view over the heap *)
Lemma c20_map_nth_seq : forall (A : Type) (l : list A) d, map (fun i => nth i l d) (seq 0 (length l)) = l.
Proof.
  intros A l d. induction l as [|a l IH]; simpl; auto. f_equal.
  rewrite <- seq_shift, map_map. exact IH.
Qed.

Lemma P_npv_cells_fixed : forall cfg H cells, cfg_npv_stride cfg = true ->
  c20_strided cells -> Forall (fun a => a < length H) cells -> c20_npv_cells cfg H cells = Some cells.
Proof.
  intros cfg H cells Hc Hs Hr. unfold c20_npv_cells. unfold c20_strided in Hs.
  set (bi := c20_buffer_info cells) in *.
  assert (E : map (c20_npv_addr cfg bi) (seq 0 (c20_bi_size bi)) = map (fun i => Z.of_nat (nth i cells 0)) (seq 0 (length cells))).
  { subst bi. simpl c20_bi_size. apply map_ext_in. intros i Hi. apply in_seq in Hi.
    unfold c20_npv_addr. rewrite Hc. symmetry. apply Hs. lia. }
  rewrite E. rewrite Forall_forall in Hr.
  replace (forallb _ _) with true.
  - f_equal. rewrite map_map. rewrite <- (c20_map_nth_seq _ cells 0) at 2. apply map_ext. intros; apply Nat2Z.id.
  - symmetry. apply forallb_forall. intros a Ha. apply in_map_iff in Ha as [i [<- Hi]]. apply in_seq in Hi.
    assert (nth i cells 0 < length H) by (apply Hr; apply nth_In; lia).
    apply andb_true_iff. split; [apply Z.leb_le | apply Z.ltb_lt]; lia.
Qed.

(* every arithmetic progression of cells is a strided view (any step, also negative) *)
Lemma P_strided_arith : forall (p s : Z) (n : nat), (forall k : nat, k < n -> (0 <= p + Z.of_nat k * s)%Z) ->
  c20_strided (map (fun k => Z.to_nat (p + Z.of_nat k * s)) (seq 0 n)).
Proof.
  intros p s n Hpos. unfold c20_strided.
  set (cells := map (fun k => Z.to_nat (p + Z.of_nat k * s)) (seq 0 n)).
  assert (Hl : length cells = n) by (subst cells; now rewrite map_length, seq_length).
  assert (Hn : forall i, i < n -> Z.of_nat (nth i cells 0) = (p + Z.of_nat i * s)%Z).
  { intros i Hi. subst cells.
    rewrite (nth_indep _ 0 (Z.to_nat (p + Z.of_nat 0 * s))) by (rewrite map_length, seq_length; lia).
    rewrite (map_nth (fun k => Z.to_nat (p + Z.of_nat k * s))). rewrite seq_nth by lia. simpl plus.
    apply Z2Nat.id. apply Hpos. lia. }
  intros i Hi. rewrite Hl in Hi. rewrite (Hn i Hi). unfold c20_buffer_info, c20_bi_ptr, c20_bi_stride. rewrite Hl.
  rewrite (Hn 0) by lia.
  destruct (Nat.leb_spec 2 n).
  - rewrite (Hn 1) by lia. change (Z.of_nat 0) with 0%Z. change (Z.of_nat 1) with 1%Z. ring.
  - assert (i = 0) by lia. subst i. change (Z.of_nat 0) with 0%Z. ring.
Qed.

(* C20_numpy_view: with the stride honoured, for EVERY strided array object (any stride, positive or negative) and any
   heap: entry i of the C++ NumPyVector is entry i of the array -- reads, writes and in-place arithmetic through the C++
   object are exactly the Python-side read, write and in-place update of the same cells (so each side sees the other's writes) *)
Lemma P_numpy_view : forall cfg st r o, cfg_npv_stride cfg = true ->
  nth_error (c20_regs st) r = Some o -> c20_k o = C20_Arr -> c20_obj_ok (c20_H st) o -> c20_strided (c20_cells o) ->
  c20_step cfg st (C20_NLen r) = c20_step cfg st (C20_Len r) /\
  (forall i, i < c20_size o -> c20_step cfg st (C20_NGet r i) = c20_step cfg st (C20_Get r (Z.of_nat i))) /\
  (forall i x, i < c20_size o -> c20_step cfg st (C20_NSet r i x) = c20_step cfg st (C20_Set r (Z.of_nat i) x)) /\
  (forall i, i < c20_size o -> c20_step cfg st (C20_NGet r i) = (st, C20_ObsScalar (nth i (c20_vals st o) 0%Q))) /\
  (forall q, c20_step cfg st (C20_NIMulS r q) = c20_inplace st o (c20_vscale q (c20_vals st o))) /\
  (forall q, c20_step cfg st (C20_NIAddS r q) = c20_inplace st o (c20_vadds q (c20_vals st o))) /\
  (forall q, c20_step cfg st (C20_NISubS r q) = c20_inplace st o (c20_vsubs q (c20_vals st o))) /\
  (forall q, c20_qeqb q 0 = false -> c20_step cfg st (C20_NIDivS r q) = c20_inplace st o (c20_vdiv q (c20_vals st o))) /\
  c20_step cfg st (C20_NNorm1 r) = (st, C20_ObsScalar (c20_one_norm (c20_vals st o))) /\
  c20_step cfg st (C20_NNorm22 r) = (st, C20_ObsScalar (c20_two_norm2 (c20_vals st o))) /\
  c20_step cfg st (C20_NNormInf r) = (st, C20_ObsScalar (c20_inf_norm (c20_vals st o))).
Proof.
  intros cfg st r o Hc E Hk [Hnd Hr] Hs.
  pose proof (P_npv_cells_fixed cfg (c20_H st) (c20_cells o) Hc Hs Hr) as Hcells.
  assert (Hidx : forall i, i < c20_size o -> c20_np_index (c20_size o) (Z.of_nat i) = C20_Ok i).
  { intros i Hi. rewrite P_np_index. unfold c20_index_res.
    destruct (P_spec_index_defined (c20_size o) (Z.of_nat i)) as [_ [H1 _]]. rewrite H1 by lia. now rewrite Nat2Z.id. }
  repeat split; intros; simpl; unfold c20_on_npv, c20_on_any; rewrite E, ?Hcells; simpl; rewrite ?Hk; simpl;
    try reflexivity.
  - fold (c20_size o). replace (i <? c20_size o) with true by (symmetry; now apply Nat.ltb_lt). now rewrite Hidx.
  - fold (c20_size o). replace (i <? c20_size o) with true by (symmetry; now apply Nat.ltb_lt). now rewrite Hidx.
  - fold (c20_size o). replace (i <? c20_size o) with true by (symmetry; now apply Nat.ltb_lt).
    unfold c20_vals. now rewrite c20_nth_read_all.
  - rewrite H. reflexivity.
Qed.

(* the code before c31dbb5 (stride ignored): the statement is false; witness x = arange(6), view x[::2], entry 1 *)
Lemma P_numpy_view_refuted : exists st r o i,
  nth_error (c20_regs st) r = Some o /\ c20_k o = C20_Arr /\ c20_wf st /\ i < c20_size o /\
  c20_step c20_cfg_current st (C20_NGet r i) <> c20_step c20_cfg_current st (C20_Get r (Z.of_nat i)).
Proof.
  exists {| c20_H := [0; 1; 2; 3; 4; 5]%Q; c20_regs := [{| c20_k := C20_Arr; c20_cells := [0; 2; 4] |}] |}, 0,
         {| c20_k := C20_Arr; c20_cells := [0; 2; 4] |}, 1.
  split; [reflexivity|]. split; [reflexivity|]. split; [|split].
  - constructor; [|constructor]. split; simpl.
    + repeat constructor; simpl; intuition discriminate.
    + repeat constructor.
  - vm_compute. lia.
  - vm_compute. intro Hx. discriminate Hx.
Qed.

(* ------------------------------------------------------------------ TupleVector: types and values preserved *)
Lemma c20_tv_cast_same : forall v, c20_tv_cast (c20_tv_type v) v = Some v.
Proof. intros [q|z|l]; simpl; auto. now rewrite Nat.eqb_refl. Qed.

Lemma P_tv_construct : forall x, c20_tv_construct x = Some x.
Proof.
  unfold c20_tv_construct. induction x as [|v x IH]; simpl; auto. now rewrite c20_tv_cast_same, IH.
Qed.

Lemma c20_tv_replace_length : forall tv j v, length (c20_tv_replace tv j v) = length tv.
Proof. induction tv as [|h t IH]; intros [|j] v; simpl; auto. Qed.

Lemma c20_tv_replace_nth : forall tv j k v d, j < length tv ->
  nth k (c20_tv_replace tv j v) d = if Nat.eqb k j then v else nth k tv d.
Proof.
  induction tv as [|h t IH]; intros [|j] [|k] v d Hj; simpl in *; try lia; auto.
  apply IH. lia.
Qed.

Lemma c20_tv_cast_type : forall t v v', c20_tv_cast t v = Some v' -> c20_tv_type v' = t.
Proof.
  intros [| |n] [q|z|l] v'; simpl; try discriminate; try (intros [= <-]; reflexivity).
  destruct (Nat.eqb_spec (length l) n); [|discriminate]. intros [= <-]. simpl. congruence.
Qed.

Lemma P_tuple : forall x : list c20_tval,
  c20_tv_construct x = Some x /\
  (forall i, (0 <= i < Z.of_nat (length x))%Z -> c20_tv_getitem x i = C20_Ok (nth (Z.to_nat i) x (C20_TInt 0))) /\
  (forall i, (Z.of_nat (length x) <= i)%Z -> c20_tv_getitem x i = C20_Exc C20_IndexError) /\
  (forall i v, (0 <= i < Z.of_nat (length x))%Z -> c20_tv_type v = c20_tv_type (nth (Z.to_nat i) x (C20_TInt 0)) ->
     exists x', c20_tv_setitem x i v = C20_Ok x' /\ length x' = length x /\ map c20_tv_type x' = map c20_tv_type x /\
       (forall k, k < length x -> nth k x' (C20_TInt 0) = if Nat.eqb k (Z.to_nat i) then v else nth k x (C20_TInt 0)) /\
       c20_tv_copy x = x).
Proof.
  intros x. split; [apply P_tv_construct|]. split; [|split].
  - intros i Hi. unfold c20_tv_getitem, c20_cpp_index.
    destruct (Z.ltb_spec i 0); [lia|]. destruct (Z.ltb_spec i (Z.of_nat (length x))); [reflexivity|lia].
  - intros i Hi. unfold c20_tv_getitem, c20_cpp_index.
    destruct (Z.ltb_spec i 0); [lia|]. destruct (Z.ltb_spec i (Z.of_nat (length x))); [lia|reflexivity].
  - intros i v Hi Ht. unfold c20_tv_setitem, c20_cpp_index.
    destruct (Z.ltb_spec i 0); [lia|]. destruct (Z.ltb_spec i (Z.of_nat (length x))); [|lia].
    rewrite <- Ht, c20_tv_cast_same.
    assert (Hj : Z.to_nat i < length x) by lia.
    eexists. split; [reflexivity|]. split; [apply c20_tv_replace_length|]. split; [|split; [|reflexivity]].
    + apply nth_ext with (d := C20_TyInt) (d' := C20_TyInt); [now rewrite !map_length, c20_tv_replace_length|].
      intros k Hk. rewrite map_length, c20_tv_replace_length in Hk.
      change C20_TyInt with (c20_tv_type (C20_TInt 0)). rewrite !map_nth.
      rewrite c20_tv_replace_nth by assumption. destruct (Nat.eqb_spec k (Z.to_nat i)); [subst k; exact Ht|reflexivity].
    + intros k Hk. now apply c20_tv_replace_nth.
Qed.

(* every basic slice is an arithmetic progression of positions inside [0, n) *)
Lemma c20_slice_form : forall n a b c idx, c20_slice_indices n a b c = C20_Ok idx ->
  exists (A st : Z) (len : nat), idx = map (fun k : nat => Z.to_nat (A + Z.of_nat k * st)) (seq 0 len) /\
    forall k : nat, k < len -> (0 <= A + Z.of_nat k * st < Z.of_nat n)%Z.
Proof.
  intros n a b c idx. unfold c20_slice_indices.
  set (nz := Z.of_nat n). set (st := match c with None => 1%Z | Some s => s end).
  destruct (Z.eqb_spec st 0) as [|Hst]; [discriminate|].
  set (A := match a with None => if (st <? 0)%Z then (nz - 1)%Z else 0%Z | Some x => c20_adjust nz st x end).
  set (B := match b with None => if (st <? 0)%Z then (-1)%Z else nz | Some x => c20_adjust nz st x end).
  assert (Hn : (0 <= nz)%Z) by (subst nz; lia).
  assert (HA : ((0 < st -> 0 <= A <= nz) /\ (st < 0 -> -1 <= A <= nz - 1))%Z).
  { subst A. destruct a; [apply c20_adjust_range; auto|]. destruct (Z.ltb_spec st 0); split; intros; lia. }
  assert (HB : ((0 < st -> 0 <= B <= nz) /\ (st < 0 -> -1 <= B <= nz - 1))%Z).
  { subst B. destruct b; [apply c20_adjust_range; auto|]. destruct (Z.ltb_spec st 0); split; intros; lia. }
  intros [= <-]. eexists A, st, _. split; [reflexivity|]. fold nz.
  destruct HA as [HA1 HA2]. destruct HB as [HB1 HB2].
  destruct (Z.ltb_spec st 0) as [Hneg|Hpos].
  - specialize (HA2 Hneg). specialize (HB2 Hneg).
    destruct (Z.ltb_spec B A) as [Hlt|Hge]; [|intros; simpl in *; lia].
    intros k Hk.
    assert (Hq : (- st * ((A - B - 1) / - st) <= A - B - 1)%Z) by (apply Z.mul_div_le; lia).
    assert (Z.of_nat k <= (A - B - 1) / - st)%Z by lia.
    assert (Z.of_nat k * - st <= (A - B - 1) / - st * - st)%Z by (apply Z.mul_le_mono_nonneg_r; lia).
    lia.
  - assert (Hp : (0 < st)%Z) by lia. specialize (HA1 Hp). specialize (HB1 Hp).
    destruct (Z.ltb_spec A B) as [Hlt|Hge]; [|intros; simpl in *; lia].
    intros k Hk.
    assert (Hq : (st * ((B - A - 1) / st) <= B - A - 1)%Z) by (apply Z.mul_div_le; lia).
    assert (Z.of_nat k <= (B - A - 1) / st)%Z by lia.
    assert (Z.of_nat k * st <= (B - A - 1) / st * st)%Z by (apply Z.mul_le_mono_nonneg_r; lia).
    lia.
Qed.

(* x[a:b:c] of contiguous storage (np.array(list), a FieldVector's buffer) is a strided array: the hypothesis of
   C20_numpy_view holds for every view the scripts can build in one slicing step, for every start/stop/step *)
Lemma P_slice_strided : forall base n a b c idx, c20_slice_indices n a b c = C20_Ok idx ->
  c20_strided (map (fun j => nth j (seq base n) 0) idx).
Proof.
  intros base n a b c idx E. apply c20_slice_form in E as [A [st [len [-> Hr]]]].
  rewrite map_map.
  replace (map (fun k : nat => nth (Z.to_nat (A + Z.of_nat k * st)) (seq base n) 0) (seq 0 len))
    with (map (fun k : nat => Z.to_nat ((Z.of_nat base + A) + Z.of_nat k * st)) (seq 0 len)).
  - apply P_strided_arith. intros k Hk. specialize (Hr k Hk). lia.
  - apply map_ext_in. intros k Hk. apply in_seq in Hk. specialize (Hr k ltac:(lia)).
    rewrite seq_nth by lia. lia.
Qed.

(* ------------------------------------------------------------------ API-coverage round *)
(* v[a:b:c] = vals: exactly the cells of the slice receive the values (one value is broadcast), as an in-place update of
   the view v[a:b:c]; a length mismatch is a ValueError and changes nothing *)
Lemma P_setslice : forall cfg st r o a b c idx vals,
  nth_error (c20_regs st) r = Some o -> c20_slice_indices (c20_size o) a b c = C20_Ok idx ->
  let view := {| c20_k := C20_Arr; c20_cells := map (fun j => nth j (c20_cells o) 0) idx |} in
  (length vals = length idx -> length vals <> 1 -> c20_step cfg st (C20_SetSlice r a b c vals) = c20_inplace st view vals) /\
  (forall x, c20_step cfg st (C20_SetSlice r a b c [x]) = c20_inplace st view (repeat x (length idx))) /\
  (length vals <> length idx -> length vals <> 1 -> c20_step cfg st (C20_SetSlice r a b c vals) = (st, C20_ObsExc C20_ValueError)).
Proof.
  intros cfg st r o a b c idx vals E Ei view. simpl. unfold c20_on_any, c20_setslice. rewrite E, Ei. rewrite map_length.
  split; [|split].
  - intros H1 H2. destruct (Nat.eqb_spec (length vals) 1); [contradiction|].
    destruct (Nat.eqb_spec (length vals) (length idx)); [reflexivity|contradiction].
  - intros x. reflexivity.
  - intros H1 H2. destruct (Nat.eqb_spec (length vals) 1); [contradiction|].
    destruct (Nat.eqb_spec (length vals) (length idx)); [contradiction|reflexivity].
Qed.

Lemma P_setslice_view_ok : forall st o a b c idx, c20_obj_ok (c20_H st) o ->
  c20_slice_indices (c20_size o) a b c = C20_Ok idx ->
  c20_obj_ok (c20_H st) {| c20_k := C20_Arr; c20_cells := map (fun j => nth j (c20_cells o) 0) idx |}.
Proof.
  intros st o a b c idx Hok Ei. apply P_slice_range in Ei as [E1 E2].
  destruct (c20_slice_cells_ok _ _ _ Hok E1 E2). split; assumption.
Qed.

Lemma P_api_misc : forall cfg st r o, nth_error (c20_regs st) r = Some o -> c20_k o = C20_Vec ->
  (forall vals, c20_step cfg st (C20_CopyArgs r vals) = c20_push_new st C20_Vec (c20_spec_construct (c20_size o) vals)) /\
  (c20_size o = 1 -> c20_step cfg st (C20_Float r) = (st, C20_ObsScalar (nth 0 (c20_vals st o) 0%Q))) /\
  (forall l, c20_step cfg st (C20_NeL r l) = (st, C20_ObsBool (negb (c20_veq (c20_vals st o) (c20_spec_construct (c20_size o) l))))) /\
  (forall l, c20_step cfg st (C20_ISubL r l) = c20_inplace st o (c20_vsub (c20_vals st o) (c20_spec_construct (c20_size o) l))) /\
  (forall l, c20_step cfg st (C20_AssignL r l) = c20_inplace st o (c20_spec_construct (c20_size o) l)) /\
  (forall fok nd, fok = false \/ nd <> 1 -> c20_step cfg st (C20_NewBadBuffer fok nd) = (st, C20_ObsExc C20_ValueError)).
Proof.
  intros cfg st r o E Hk. repeat split; intros; simpl; unfold c20_on_vec; rewrite ?E, ?Hk, ?P_construct; try reflexivity.
  - rewrite H. reflexivity.
  - unfold c20_construct_buffer. destruct fok; simpl; [|reflexivity].
    destruct H as [H|H]; [discriminate|].
    change c20_param_buffer_ndim with 1. destruct (Nat.eqb_spec nd 1); [contradiction|reflexivity].
Qed.

(* ================================================================== proof-deepening round *)
(* ------------------------------------------------------------------ the buffer constructor (stride loop) *)
Lemma c20_cbuf_loop_eq : forall cnt self H bi x i,
  (forall j, i <= j < i + cnt -> c20_read H (Z.to_nat (c20_bi_ptr bi + Z.of_nat j * c20_bi_stride bi)) = nth j x 0%Q) ->
  c20_cbuf_loop self H bi i cnt = c20_construct_loop self x i cnt.
Proof.
  induction cnt as [|c IH]; intros self H bi x i Hj; simpl; auto.
  rewrite Hj by lia. apply IH. intros j Hjr. apply Hj. lia.
Qed.

(* FieldVector_n( buffer ): for EVERY strided buffer inside the heap (any stride, also negative), any n and any length:
   the first n logical entries of the buffer, zero filled; other formats / dimensions are rejected with ValueError *)
Lemma P_construct_buffer : forall n H cells, c20_strided cells -> Forall (fun a => a < length H) cells ->
  c20_construct_buffer n H true 1 (c20_buffer_info cells) = C20_Ok (c20_spec_construct n (c20_read_all H cells)) /\
  (forall nd bi, nd <> 1 -> c20_construct_buffer n H true nd bi = C20_Exc C20_ValueError) /\
  (forall nd bi, c20_construct_buffer n H false nd bi = C20_Exc C20_ValueError).
Proof.
  intros n H cells Hs Hr. split; [|split].
  - unfold c20_construct_buffer. simpl negb. change c20_param_buffer_ndim with 1. simpl Nat.eqb. cbv iota. f_equal.
    rewrite <- P_construct. unfold c20_construct. rewrite c20_read_all_length.
    replace (c20_bi_size (c20_buffer_info cells)) with (length cells) by reflexivity.
    apply c20_cbuf_loop_eq. intros j Hj.
    assert (Hjl : j < length cells) by (pose proof (Nat.le_min_r n (length cells)); lia).
    unfold c20_strided in Hs. rewrite <- (Hs j Hjl). rewrite Nat2Z.id. symmetry. apply c20_nth_read_all. exact Hjl.
  - intros nd bi Hnd. unfold c20_construct_buffer. simpl negb. change c20_param_buffer_ndim with 1.
    destruct (Nat.eqb_spec nd 1); [contradiction|reflexivity].
  - intros. reflexivity.
Qed.

(* ------------------------------------------------------------------ every object of every run is a strided array *)
Lemma P_strided_seq : forall base n, c20_strided (seq base n).
Proof.
  intros base n.
  replace (seq base n) with (map (fun k => Z.to_nat (Z.of_nat base + Z.of_nat k * 1)) (seq 0 n)).
  - apply P_strided_arith. intros; lia.
  - clear. revert base. induction n as [|n IH]; intros base; simpl; auto. f_equal; [lia|].
    rewrite <- seq_shift, map_map. rewrite <- (IH (S base)). apply map_ext. intros; lia.
Qed.

(* a slice of a strided array is a strided array (start/stop/step arbitrary, the parent's stride arbitrary) *)
Lemma P_slice_strided_gen : forall cells a b c idx, c20_strided cells ->
  c20_slice_indices (length cells) a b c = C20_Ok idx -> c20_strided (map (fun j => nth j cells 0) idx).
Proof.
  intros cells a b c idx Hs E. apply c20_slice_form in E as [A [st [len [-> Hr]]]].
  unfold c20_strided in Hs. set (bi := c20_buffer_info cells) in *.
  rewrite map_map.
  replace (map (fun k : nat => nth (Z.to_nat (A + Z.of_nat k * st)) cells 0) (seq 0 len))
    with (map (fun k : nat => Z.to_nat ((c20_bi_ptr bi + A * c20_bi_stride bi) + Z.of_nat k * (st * c20_bi_stride bi))%Z) (seq 0 len)).
  - apply P_strided_arith. intros k Hk. specialize (Hr k Hk).
    assert (Hj : Z.to_nat (A + Z.of_nat k * st) < length cells) by lia.
    specialize (Hs _ Hj). rewrite Z2Nat.id in Hs by lia.
    replace (c20_bi_ptr bi + A * c20_bi_stride bi + Z.of_nat k * (st * c20_bi_stride bi))%Z
      with (c20_bi_ptr bi + (A + Z.of_nat k * st) * c20_bi_stride bi)%Z by ring.
    rewrite <- Hs. lia.
  - apply map_ext_in. intros k Hk. apply in_seq in Hk. specialize (Hr k ltac:(lia)).
    assert (Hj : Z.to_nat (A + Z.of_nat k * st) < length cells) by lia.
    specialize (Hs _ Hj). rewrite Z2Nat.id in Hs by lia.
    replace (c20_bi_ptr bi + A * c20_bi_stride bi + Z.of_nat k * (st * c20_bi_stride bi))%Z
      with (c20_bi_ptr bi + (A + Z.of_nat k * st) * c20_bi_stride bi)%Z by ring.
    rewrite <- Hs. apply Nat2Z.id.
Qed.

Definition c20_all_strided (st : c20_state) : Prop := Forall (fun o => c20_strided (c20_cells o)) (c20_regs st).
Definition c20_inv (st : c20_state) : Prop := c20_wf st /\ c20_all_strided st.

Lemma c20_regs_step_cases : forall cfg st op,
  let st' := fst (c20_step cfg st op) in
  c20_regs st' = c20_regs st \/
  (exists k (vals : list Q), c20_regs st' = c20_regs st ++ [{| c20_k := k; c20_cells := seq (length (c20_H st)) (length vals) |}]) \/
  (exists k o, In o (c20_regs st) /\ c20_regs st' = c20_regs st ++ [{| c20_k := k; c20_cells := c20_cells o |}]) \/
  (exists k o a b c idx, In o (c20_regs st) /\ c20_slice_indices (c20_size o) a b c = C20_Ok idx /\
       c20_regs st' = c20_regs st ++ [{| c20_k := k; c20_cells := map (fun j => nth j (c20_cells o) 0) idx |}]).
Proof.
  intros cfg st op.
  assert (Hnew : forall k vals, let st' := fst (c20_push_new st k vals) in
     c20_regs st' = c20_regs st \/
     (exists k (vals : list Q), c20_regs st' = c20_regs st ++ [{| c20_k := k; c20_cells := seq (length (c20_H st)) (length vals) |}]) \/
     (exists k o, In o (c20_regs st) /\ c20_regs st' = c20_regs st ++ [{| c20_k := k; c20_cells := c20_cells o |}]) \/
     (exists k o a b c idx, In o (c20_regs st) /\ c20_slice_indices (c20_size o) a b c = C20_Ok idx /\
       c20_regs st' = c20_regs st ++ [{| c20_k := k; c20_cells := map (fun j => nth j (c20_cells o) 0) idx |}]))
    by (intros k vals; right; left; exists k, vals; reflexivity).
  destruct op; simpl; try (apply Hnew);
    unfold c20_on_vec, c20_on_any, c20_on_npv, c20_on_arr2, c20_on_arr, c20_arradd, c20_with_operand, c20_setslice, c20_npv_inplace, c20_inplace;
    repeat match goal with
      | |- context [nth_error (c20_regs st) ?r] => let E := fresh "E" in destruct (nth_error (c20_regs st) r) eqn:E; simpl; auto
      | |- context [match c20_k ?o with _ => _ end] => destruct (c20_k o); simpl; auto
      | |- context [c20_operand ?a ?b ?c] => destruct (c20_operand a b c); simpl; auto
      | |- context [c20_np_operand ?a ?b] => destruct (c20_np_operand a b); simpl; auto
      | |- context [c20_npv_cells ?a ?b ?c] => destruct (c20_npv_cells a b c); simpl; auto
      | |- context [c20_construct_buffer ?a ?b ?c ?d ?e] => destruct (c20_construct_buffer a b c d e); simpl; auto
      | |- context [c20_iter_loop ?a ?b ?c ?d ?e] => destruct (c20_iter_loop a b c d e); simpl; auto
      | |- context [c20_getitem_index ?k ?n ?i] => destruct (c20_getitem_index k n i); simpl; auto
      | |- context [c20_setitem_index ?c ?k ?n ?i] => destruct (c20_setitem_index c k n i); simpl; auto
      | |- context [if ?c then _ else _] => destruct c; simpl; auto
      end;
    try (apply Hnew).
  all: try match goal with |- context [c20_slice_indices ?n ?x ?y ?z] =>
         let Ei := fresh "Ei" in destruct (c20_slice_indices n x y z) eqn:Ei; simpl; auto end.
  all: repeat match goal with |- context [if ?c then _ else _] => destruct c; simpl; auto end.
  all: try (left; reflexivity).
  all: try (right; right; left; eexists _, _; split; [eapply nth_error_In; eauto | reflexivity]).
  all: try (right; right; right; eexists _, _, _, _, _, _; split; [eapply nth_error_In; eauto | split; [eassumption | reflexivity]]).
Qed.

Lemma P_step_inv : forall cfg st op, c20_inv st -> c20_inv (fst (c20_step_reg cfg st op)).
Proof.
  intros cfg st op [Hwf Hs]. split; [now apply P_step_reg_wf|].
  unfold c20_step_reg.
  assert (Hstep : c20_all_strided (fst (c20_step cfg st op))).
  { unfold c20_all_strided in *. rewrite Forall_forall in Hs.
    destruct (c20_regs_step_cases cfg st op) as [E|[[k [vals E]]|[[k [o [Ho E]]]|[k [o [a [b [c [idx [Ho [Ei E]]]]]]]]]]]; rewrite E.
    - now apply Forall_forall.
    - apply Forall_app. split; [now apply Forall_forall|]. constructor; [|constructor]. simpl. apply P_strided_seq.
    - apply Forall_app. split; [now apply Forall_forall|]. constructor; [|constructor]. simpl. now apply Hs.
    - apply Forall_app. split; [now apply Forall_forall|]. constructor; [|constructor]. simpl.
      eapply P_slice_strided_gen; [now apply Hs | exact Ei]. }
  destruct (c20_step cfg st op) as [st' ob]. simpl in *. destruct ob; simpl; auto.
  destruct (nth_error (c20_regs st') r) eqn:E; simpl; auto.
  unfold c20_all_strided in *. simpl. apply Forall_app. split; auto. constructor; [|constructor].
  rewrite Forall_forall in Hstep. apply Hstep. eapply nth_error_In; eauto.
Qed.

Lemma P_run_inv : forall cfg ops st, c20_inv st -> c20_inv (fst (c20_run cfg st ops)).
Proof.
  intros cfg ops. induction ops as [|op rest IH]; intros st Hi; simpl; auto.
  pose proof (P_step_inv cfg st op Hi) as H1. destruct (c20_step_reg cfg st op) as [st' ob].
  specialize (IH st' H1). destruct (c20_run cfg st' rest). simpl in *. assumption.
Qed.

Lemma P_init_inv : c20_inv c20_init.
Proof. split; constructor. Qed.

(* in every state a script can reach: hypotheses-free versions of C20_numpy_view and of the buffer constructor *)
Lemma P_reach_obj : forall cfg ops r o, let st := fst (c20_run cfg c20_init ops) in
  nth_error (c20_regs st) r = Some o -> c20_obj_ok (c20_H st) o /\ c20_strided (c20_cells o).
Proof.
  intros cfg ops r o st E. destruct (P_run_inv cfg ops c20_init P_init_inv) as [Hwf Hs]. fold st in Hwf, Hs.
  apply nth_error_In in E. unfold c20_wf, c20_all_strided in *. rewrite Forall_forall in Hwf, Hs. split; auto.
Qed.

Lemma P_construct_buffer_run : forall cfg ops n r o, let st := fst (c20_run cfg c20_init ops) in
  nth_error (c20_regs st) r = Some o ->
  c20_step cfg st (C20_NewFromBuf n r) = c20_push_new st C20_Vec (c20_spec_construct n (c20_vals st o)).
Proof.
  intros cfg ops n r o st E. destruct (P_reach_obj cfg ops r o E) as [[_ Hr] Hs]. fold st in Hr. clearbody st.
  pose proof (proj1 (P_construct_buffer n (c20_H st) (c20_cells o) Hs Hr)) as Hcb.
  unfold c20_construct_buffer in Hcb. simpl in Hcb. injection Hcb as Hcb.
  simpl. unfold c20_on_any. rewrite E. unfold c20_vals. rewrite <- Hcb. reflexivity.
Qed.

(* ------------------------------------------------------------------ out-of-place operations never write *)
Lemma c20_heap_step_cases : forall cfg st op, c20_mutating op = false ->
  c20_H (fst (c20_step cfg st op)) = c20_H st \/ exists vals, c20_H (fst (c20_step cfg st op)) = c20_H st ++ vals.
Proof.
  intros cfg st op Hm.
  destruct op; try discriminate Hm; simpl;
    unfold c20_on_vec, c20_on_any, c20_on_npv, c20_on_arr2, c20_on_arr, c20_arradd, c20_with_operand, c20_push_new, c20_push_shared, c20_alloc;
    repeat match goal with
      | |- context [nth_error (c20_regs st) ?r] => destruct (nth_error (c20_regs st) r); simpl; auto
      | |- context [match c20_k ?o with _ => _ end] => destruct (c20_k o); simpl; auto
      | |- context [c20_operand ?a ?b ?c] => destruct (c20_operand a b c); simpl; auto
      | |- context [c20_np_operand ?a ?b] => destruct (c20_np_operand a b); simpl; auto
      | |- context [c20_npv_cells ?a ?b ?c] => destruct (c20_npv_cells a b c); simpl; auto
      | |- context [c20_construct_buffer ?a ?b ?c ?d ?e] => destruct (c20_construct_buffer a b c d e); simpl; auto
      | |- context [c20_iter_loop ?a ?b ?c ?d ?e] => destruct (c20_iter_loop a b c d e); simpl; auto
      | |- context [c20_getitem_index ?k ?n ?i] => destruct (c20_getitem_index k n i); simpl; auto
      | |- context [c20_slice_indices ?n ?x ?y ?z] => destruct (c20_slice_indices n x y z); simpl; auto
      | |- context [if ?c then _ else _] => destruct c; simpl; auto
      end;
    try (left; reflexivity);
    try (right; eexists; reflexivity).
Qed.

(* every operation that is not an in-place one leaves the entries of EVERY existing object unchanged (and only adds registers) *)
Lemma P_pure_frame : forall cfg st op p, c20_wf st -> c20_mutating op = false -> In p (c20_regs st) ->
  c20_vals (fst (c20_step_reg cfg st op)) p = c20_vals st p.
Proof.
  intros cfg st op p Hwf Hm Hp.
  assert (E : c20_vals (fst (c20_step cfg st op)) p = c20_vals st p).
  { unfold c20_vals. destruct (c20_heap_step_cases cfg st op Hm) as [->|[vals ->]]; [reflexivity|].
    apply c20_read_all_app. unfold c20_wf in Hwf. rewrite Forall_forall in Hwf. now destruct (Hwf p Hp). }
  unfold c20_step_reg. destruct (c20_step cfg st op) as [st' ob]. simpl in E.
  destruct ob; simpl; auto. destruct (nth_error (c20_regs st') r); simpl; auto.
Qed.

(* ------------------------------------------------------------------ in-place operations write only through their target *)
Lemma c20_slice_cells_in : forall o a b c idx x, c20_slice_indices (c20_size o) a b c = C20_Ok idx ->
  In x (map (fun j => nth j (c20_cells o) 0) idx) -> In x (c20_cells o).
Proof.
  intros o a b c idx x Ei Hin. apply P_slice_range in Ei as [_ Hr]. rewrite Forall_forall in Hr.
  apply in_map_iff in Hin as [j [<- Hj]]. apply nth_In. now apply Hr.
Qed.

Lemma P_mutating_frame : forall cfg st op r o, c20_inv st -> cfg_npv_stride cfg = true ->
  c20_target op = Some r -> nth_error (c20_regs st) r = Some o ->
  let st' := fst (c20_step_reg cfg st op) in
  c20_regs st' = c20_regs st /\ length (c20_H st') = length (c20_H st) /\
  forall a, ~ In a (c20_cells o) -> c20_read (c20_H st') a = c20_read (c20_H st) a.
Proof.
  intros cfg st op r o [Hwf Hs] Hc Ht E.
  assert (Hok : c20_obj_ok (c20_H st) o /\ c20_strided (c20_cells o)).
  { apply nth_error_In in E. unfold c20_wf, c20_all_strided in *. rewrite Forall_forall in Hwf, Hs. auto. }
  destruct Hok as [[Hnd Hr] Hso].
  pose proof (P_npv_cells_fixed cfg (c20_H st) (c20_cells o) Hc Hso Hr) as Hnpv.
  unfold c20_step_reg.
  destruct op; try discriminate Ht; injection Ht as ->; simpl;
    unfold c20_on_vec, c20_on_any, c20_on_npv, c20_on_arr2, c20_on_arr, c20_arradd, c20_with_operand, c20_setslice, c20_npv_inplace, c20_inplace;
    rewrite E, ?Hnpv;
    repeat match goal with
      | |- context [nth_error (c20_regs st) ?s] => destruct (nth_error (c20_regs st) s); simpl
      | |- context [match c20_k ?o with _ => _ end] => destruct (c20_k o); simpl
      | |- context [c20_np_operand ?a ?b] => destruct (c20_np_operand a b); simpl
      | |- context [c20_operand ?a ?b ?c] => destruct (c20_operand a b c); simpl
      | |- context [c20_setitem_index ?c ?k ?n ?i] => let Ei := fresh "Ei" in destruct (c20_setitem_index c k n i) eqn:Ei; simpl
      | |- context [c20_slice_indices ?n ?x ?y ?z] => let Ei := fresh "Ei" in destruct (c20_slice_indices n x y z) eqn:Ei; simpl
      | |- context [if ?c then _ else _] => destruct c eqn:?; simpl
      end;
    (split; [reflexivity|]); (split; [try reflexivity; try apply c20_write_length; try apply c20_write_all_length|]);
    intros ax Hx; try reflexivity;
    try (apply c20_write_all_frame; try assumption; intro Hin; apply Hx; eapply c20_slice_cells_in; eauto);
    try (apply c20_read_write_neq; intro; subst ax; apply Hx; apply nth_In; solve [eapply c20_setitem_index_range; eauto]).
  all: try (apply c20_read_write_neq; intro; subst ax; apply Hx; apply nth_In; solve [apply Nat.ltb_lt; assumption | assumption]).
Qed.

(* ------------------------------------------------------------------ scalar special cases (registerScalarCopyingDenseVectorMethods, __mul__ overload order) *)
Lemma P_scalar_cases : forall cfg st r o, nth_error (c20_regs st) r = Some o -> c20_k o = C20_Vec ->
  (c20_size o = 1 -> forall k q,
     c20_step cfg st (C20_AddI r k) = c20_push_new st C20_Vec (c20_vadds (inject_Z k) (c20_vals st o)) /\
     c20_step cfg st (C20_SubI r k) = c20_push_new st C20_Vec (c20_vsubs (inject_Z k) (c20_vals st o)) /\
     c20_step cfg st (C20_RAddI r k) = c20_push_new st C20_Vec (map (fun x => c20_qadd (inject_Z k) x) (c20_vals st o)) /\
     c20_step cfg st (C20_RSubI r k) = c20_push_new st C20_Vec (map (fun x => c20_qsub (inject_Z k) x) (c20_vals st o)) /\
     c20_step cfg st (C20_AddF r q) = c20_push_new st C20_Vec (c20_vadds q (c20_vals st o)) /\
     c20_step cfg st (C20_SubF r q) = c20_push_new st C20_Vec (c20_vsubs q (c20_vals st o)) /\
     c20_step cfg st (C20_RAddF r q) = c20_push_new st C20_Vec (map (fun x => c20_qadd q x) (c20_vals st o)) /\
     c20_step cfg st (C20_RSubF r q) = c20_push_new st C20_Vec (map (fun x => c20_qsub q x) (c20_vals st o)) /\
     c20_step cfg st (C20_MulI r k) = (st, C20_ObsScalar (c20_dot (c20_vals st o) [inject_Z k])) /\
     c20_step cfg st (C20_RMulI r k) = (st, C20_ObsScalar (c20_dot (c20_vals st o) [inject_Z k]))) /\
  (c20_size o <> 1 -> forall k q,
     c20_step cfg st (C20_AddI r 0) = (st, C20_ObsAlias r) /\ c20_step cfg st (C20_SubI r 0) = (st, C20_ObsAlias r) /\
     c20_step cfg st (C20_RAddI r 0) = (st, C20_ObsAlias r) /\
     c20_step cfg st (C20_RSubI r 0) = c20_push_new st C20_Vec (c20_vneg (c20_vals st o)) /\
     (k <> 0%Z -> c20_step cfg st (C20_AddI r k) = (st, C20_ObsExc C20_ValueError) /\ c20_step cfg st (C20_SubI r k) = (st, C20_ObsExc C20_ValueError) /\
                  c20_step cfg st (C20_RAddI r k) = (st, C20_ObsExc C20_ValueError) /\ c20_step cfg st (C20_RSubI r k) = (st, C20_ObsExc C20_ValueError)) /\
     c20_step cfg st (C20_AddF r q) = (st, C20_ObsExc C20_TypeError) /\ c20_step cfg st (C20_RSubF r q) = (st, C20_ObsExc C20_TypeError) /\
     c20_step cfg st (C20_MulI r k) = c20_push_new st C20_Vec (c20_vscale (inject_Z k) (c20_vals st o)) /\
     c20_step cfg st (C20_RMulI r k) = c20_push_new st C20_Vec (c20_vscale (inject_Z k) (c20_vals st o))).
Proof.
  intros cfg st r o E Hk. split.
  - intros H1 k q. simpl. unfold c20_on_vec. rewrite E, Hk, H1. simpl. repeat split; reflexivity.
  - intros H1 k q. simpl. unfold c20_on_vec. rewrite E, Hk.
    destruct (Nat.eqb_spec (c20_size o) 1) as [|_]; [contradiction|].
    change c20_param_scalar_neutral with 0%Z. change (c20_exc_of_code c20_param_scalar_exc) with C20_ValueError. simpl.
    split; [reflexivity|]. split; [reflexivity|]. split; [reflexivity|]. split; [reflexivity|].
    split; [|repeat split; reflexivity].
    intros Hk0. destruct (Z.eqb_spec k 0); [contradiction|]. repeat split; reflexivity.
Qed.

(* v.copy() = type(v)(v) once fix 5aaab64 is in (cfg_copy_self); before it returned the zero vector *)
Lemma P_copy_method : forall cfg st r, cfg_copy_self cfg = true ->
  c20_step cfg st (C20_CopyMeth r) = c20_step cfg st (C20_CopyCtor r).
Proof.
  intros cfg st r Hc. simpl. unfold c20_on_any. destruct (nth_error (c20_regs st) r) as [o|]; auto.
  rewrite Hc. destruct o as [[|] cells]; reflexivity.
Qed.

Lemma P_copy_method_refuted : exists st r,
  c20_wf st /\ c20_step c20_cfg_current st (C20_CopyMeth r) <> c20_step c20_cfg_current st (C20_CopyCtor r).
Proof.
  exists {| c20_H := [9#1]%Q; c20_regs := [{| c20_k := C20_Vec; c20_cells := [0] |}] |}, 0. split.
  - constructor; [|constructor]. split; simpl; repeat constructor. simpl; tauto.
  - vm_compute. intro Hx. discriminate Hx.
Qed.

(* ------------------------------------------------------------------ slices: v[::-1] is the reversal; a slice shares *)
Lemma c20_rev_seq_nth : forall n k, k < n -> nth k (rev (seq 0 n)) 0 = n - 1 - k.
Proof.
  intros n k Hk. rewrite rev_nth by (rewrite seq_length; lia). rewrite seq_length. rewrite seq_nth by lia. lia.
Qed.

Lemma P_slice_reverse : forall n, c20_slice_indices n None None (Some (-1)%Z) = C20_Ok (rev (seq 0 n)).
Proof.
  intros n. unfold c20_slice_indices. change (-1 =? 0)%Z with false. change (-1 <? 0)%Z with true. cbv iota. f_equal.
  change (- -1)%Z with 1%Z. rewrite Z.div_1_r.
  assert (El : Z.to_nat (if (-1 <? Z.of_nat n - 1)%Z then Z.of_nat n - 1 - -1 - 1 + 1 else 0)%Z = n)
    by (destruct (Z.ltb_spec (-1) (Z.of_nat n - 1)); lia).
  rewrite El. apply nth_ext with (d := 0) (d' := 0).
  - now rewrite map_length, seq_length, rev_length, seq_length.
  - intros k Hk. rewrite map_length, seq_length in Hk.
    rewrite (nth_indep _ 0 (Z.to_nat (Z.of_nat n - 1 + Z.of_nat 0 * -1))) by (rewrite map_length, seq_length; lia).
    rewrite (map_nth (fun k0 : nat => Z.to_nat (Z.of_nat n - 1 + Z.of_nat k0 * -1))). rewrite seq_nth by lia.
    rewrite c20_rev_seq_nth by lia. lia.
Qed.

Lemma P_slice_shares : forall cfg st r o a b c idx, nth_error (c20_regs st) r = Some o ->
  c20_slice_indices (c20_size o) a b c = C20_Ok idx ->
  let v := {| c20_k := C20_Arr; c20_cells := map (fun j => nth j (c20_cells o) 0) idx |} in
  c20_step cfg st (C20_Slice r a b c) =
    ({| c20_H := c20_H st; c20_regs := c20_regs st ++ [v] |}, C20_ObsObj C20_Arr (map (fun j => nth j (c20_vals st o) 0%Q) idx)) /\
  c20_view_of v o.
Proof.
  intros cfg st r o a b c idx E Ei v. split.
  - simpl. unfold c20_on_any. rewrite E, Ei. unfold c20_push_shared. f_equal. f_equal.
    unfold c20_read_all, c20_vals. rewrite map_map. apply map_ext_in. intros j Hj.
    apply P_slice_range in Ei as [_ Hr]. rewrite Forall_forall in Hr. symmetry. apply c20_nth_read_all. now apply Hr.
  - intros x Hx. eapply c20_slice_cells_in; eauto.
Qed.

(* ------------------------------------------------------------------ TupleVector: rejections and assignment *)
Lemma P_tuple_reject : forall (x : list c20_tval),
  (forall i, (i < 0)%Z -> c20_tv_getitem x i = C20_Exc C20_TypeError /\ forall v, c20_tv_setitem x i v = C20_Exc C20_TypeError) /\
  (forall i v, (Z.of_nat (length x) <= i)%Z -> c20_tv_setitem x i v = C20_Exc C20_IndexError) /\
  (forall i v, (0 <= i < Z.of_nat (length x))%Z -> c20_tv_cast (c20_tv_type (nth (Z.to_nat i) x (C20_TInt 0))) v = None ->
     c20_tv_setitem x i v = C20_Exc C20_RuntimeError) /\
  (forall y, c20_tv_assign x y = y) /\
  (forall i z, c20_tv_cast C20_TyDouble (C20_TInt z) = Some (C20_TFloat (inject_Z z)) /\ c20_tv_cast C20_TyInt (C20_TFloat i) = None).
Proof.
  intros x. repeat split; intros; unfold c20_tv_getitem, c20_tv_setitem, c20_cpp_index.
  - destruct (Z.ltb_spec i 0); [reflexivity|lia].
  - destruct (Z.ltb_spec i 0); [reflexivity|lia].
  - destruct (Z.ltb_spec i 0); [lia|]. destruct (Z.ltb_spec i (Z.of_nat (length x))); [lia|reflexivity].
  - destruct (Z.ltb_spec i 0); [lia|]. destruct (Z.ltb_spec i (Z.of_nat (length x))); [|lia]. now rewrite H0.
Qed.

(* the literals re-read from the sources are the ones the theorems are about *)
Lemma P_params : c20_exc_of_code c20_param_getitem_exc = C20_IndexError /\ c20_exc_of_code c20_param_setitem_exc = C20_IndexError /\
  c20_exc_of_code c20_param_buffer_format_exc = C20_ValueError /\ c20_exc_of_code c20_param_buffer_ndim_exc = C20_ValueError /\
  c20_param_buffer_ndim = 1 /\ c20_exc_of_code c20_param_scalar_exc = C20_ValueError /\ c20_param_scalar_neutral = 0%Z /\
  c20_param_neg_factor = (-1)%Z.
Proof. repeat split; reflexivity. Qed.

(* ------------------------------------------------------------------ DynamicVector wrapper, comparison, entry-wise arithmetic, norms *)
Lemma P_dyn_index : forall n i, c20_dyn_index n i = c20_index_res n i.
Proof.
  intros n i. rewrite <- P_np_index. unfold c20_dyn_index, c20_np_index, c20_cpp_index.
  destruct (Z.ltb_spec i 0).
  - destruct (Z.ltb_spec (i + Z.of_nat n) 0); simpl; [reflexivity|].
    destruct (Z.ltb_spec (i + Z.of_nat n) (Z.of_nat n)); destruct (Z.leb_spec (Z.of_nat n) (i + Z.of_nat n)); try lia; reflexivity.
  - destruct (Z.ltb_spec i 0); [lia|]. simpl.
    destruct (Z.ltb_spec i (Z.of_nat n)); destruct (Z.leb_spec (Z.of_nat n) i); try lia; reflexivity.
Qed.

Lemma P_dyn_index_refuted : exists n i j, c20_spec_index n i = Some j /\ c20_cpp_index n i <> c20_index_res n i.
Proof. exists 3, (-1)%Z, 2. split; [reflexivity|]. vm_compute. discriminate. Qed.

(* == / != : the entry loop of DenseVector::operator== decides entry-wise equality *)
Lemma P_compare : forall a b, length a = length b ->
  (c20_veq a b = true <-> Forall2 Qeq a b).
Proof.
  induction a as [|x a IH]; intros [|y b] Hl; simpl in *; try discriminate.
  - split; [constructor|reflexivity].
  - injection Hl as Hl. unfold c20_qeqb. rewrite andb_true_iff, Qeq_bool_iff, (IH b Hl). split.
    + intros [H1 H2]. now constructor.
    + intros H. inversion H; subst. auto.
Qed.

(* entry arithmetic is exact rational arithmetic; the vector operators are entry-wise *)
Lemma P_arith_exact : forall a b : Q, (c20_qadd a b == a + b /\ c20_qsub a b == a - b /\ c20_qmul a b == a * b /\ c20_qdiv a b == a / b /\
  c20_qabs a == Qabs.Qabs a)%Q.
Proof. intros. unfold c20_qadd, c20_qsub, c20_qmul, c20_qdiv, c20_qabs. repeat split; apply Qreduction.Qred_correct. Qed.

Lemma P_map2_nth : forall f a b i, i < length a -> i < length b ->
  nth i (c20_map2 f a b) 0%Q = f (nth i a 0%Q) (nth i b 0%Q).
Proof.
  intros f. induction a as [|x a IH]; intros [|y b] [|i] Ha Hb; simpl in *; try lia; auto.
  apply IH; lia.
Qed.

Lemma P_entrywise : forall a b i, i < length a -> i < length b ->
  nth i (c20_vadd a b) 0%Q = c20_qadd (nth i a 0%Q) (nth i b 0%Q) /\
  nth i (c20_vsub a b) 0%Q = c20_qsub (nth i a 0%Q) (nth i b 0%Q) /\
  length (c20_vadd a b) = Nat.min (length a) (length b) /\
  (forall q, nth i (c20_vscale q a) 0%Q = c20_qmul (nth i a 0%Q) q /\ length (c20_vscale q a) = length a).
Proof.
  intros a b i Ha Hb. unfold c20_vadd, c20_vsub, c20_vscale. repeat split; try (apply P_map2_nth; assumption).
  - apply c20_map2_length.
  - rewrite (nth_indep _ 0%Q ((fun x => c20_qmul x q) 0%Q)) by (rewrite map_length; lia).
    apply (map_nth (fun x => c20_qmul x q)).
  - apply map_length.
Qed.

(* two_norm2 is the scalar product of the vector with itself (same accumulation loop) *)
Lemma c20_two_norm2_dot_gen : forall a acc, fold_left (fun acc x => c20_qadd acc (c20_qmul x x)) a acc = c20_dot_loop acc a a.
Proof. induction a as [|x a IH]; intros acc; simpl; auto. Qed.
Lemma P_two_norm2_dot : forall a, c20_two_norm2 a = c20_dot a a.
Proof. intros. apply c20_two_norm2_dot_gen. Qed.

(* infinity_norm bounds every entry and one_norm / two_norm2 are non-negative *)
Lemma c20_qmax_ge : forall a b : Q, (a <= c20_qmax a b)%Q /\ (b <= c20_qmax a b)%Q.
Proof.
  intros a b. unfold c20_qmax. destruct (Qle_bool a b) eqn:E.
  - apply Qle_bool_iff in E. split; [exact E|apply Qle_refl].
  - split; [apply Qle_refl|]. destruct (Qlt_le_dec b a) as [H|H]; [now apply Qlt_le_weak|].
    apply Qle_bool_iff in H. congruence.
Qed.
Lemma c20_inf_norm_gen : forall (a : list Q) (acc : Q), (acc <= fold_left (fun acc x => c20_qmax acc (c20_qabs x)) a acc)%Q /\
  forall x, In x a -> (c20_qabs x <= fold_left (fun acc x => c20_qmax acc (c20_qabs x)) a acc)%Q.
Proof.
  induction a as [|y a IH]; intros acc; simpl.
  - split; [apply Qle_refl|tauto].
  - destruct (IH (c20_qmax acc (c20_qabs y))) as [H1 H2]. destruct (c20_qmax_ge acc (c20_qabs y)) as [G1 G2]. split.
    + eapply Qle_trans; eauto.
    + intros x [->|Hx]; [eapply Qle_trans; eauto|auto].
Qed.
Lemma P_inf_norm_bound : forall (a : list Q) x, In x a -> (Qabs.Qabs x <= c20_inf_norm a)%Q.
Proof.
  intros a x Hx. destruct (c20_inf_norm_gen a 0%Q) as [_ H]. specialize (H x Hx).
  destruct (P_arith_exact x 0) as [_ [_ [_ [_ E]]]]. rewrite <- E. exact H.
Qed.

(* ------------------------------------------------------------------ cross-cutting audit: views as receivers, aliasing operands *)
(* a NumPy view as receiver / left operand: NumPy broadcasting of the operand (equal length or one entry), the operand is read
   before anything is written (it may be the receiver itself or overlap it), the receiver's cells are overwritten in place *)
Lemma P_arr_ops : forall cfg st r s o p, nth_error (c20_regs st) r = Some o -> c20_k o = C20_Arr -> nth_error (c20_regs st) s = Some p ->
  (forall y, c20_np_operand (c20_size o) (c20_vals st p) = C20_Ok y ->
     c20_step cfg st (C20_ArrIAdd r s) = c20_inplace st o (c20_vadd (c20_vals st o) y) /\
     c20_step cfg st (C20_ArrISub r s) = c20_inplace st o (c20_vsub (c20_vals st o) y) /\
     c20_step cfg st (C20_ArrAdd r s) = c20_push_new st C20_Arr (c20_vadd (c20_vals st o) y)) /\
  (forall e, c20_np_operand (c20_size o) (c20_vals st p) = C20_Exc e ->
     c20_step cfg st (C20_ArrIAdd r s) = (st, C20_ObsExc e) /\
     (c20_size o <> 1%nat -> c20_step cfg st (C20_ArrAdd r s) = (st, C20_ObsExc e)) /\
     (c20_size o = 1%nat -> c20_step cfg st (C20_ArrAdd r s) =
        c20_push_new st C20_Arr (c20_vadd (repeat (nth 0 (c20_vals st o) 0%Q) (c20_size p)) (c20_vals st p)))) /\
  (forall q, c20_step cfg st (C20_ArrIMulS r q) = c20_inplace st o (c20_vscale q (c20_vals st o)) /\
             c20_step cfg st (C20_ArrIAddS r q) = c20_inplace st o (c20_vadds q (c20_vals st o))) /\
  (forall a b c, c20_step cfg st (C20_SetSliceFrom r a b c s) = c20_step cfg st (C20_SetSlice r a b c (c20_vals st p))) /\
  c20_step cfg st (C20_Drop r) = (st, C20_ObsNone).
Proof.
  intros cfg st r s o p Er Hk Es. repeat split; intros; simpl; unfold c20_on_arr2, c20_on_arr, c20_arradd, c20_on_any; rewrite ?Er, ?Es, ?Hk, ?H; try reflexivity.
  - destruct (Nat.eqb_spec (c20_size o) 1); [contradiction|reflexivity].
  - rewrite H0. reflexivity.
Qed.

Lemma P_np_operand : forall n vals,
  (length vals = n -> c20_np_operand n vals = C20_Ok vals) /\
  (length vals = 1 -> n <> 1 -> c20_np_operand n vals = C20_Ok (repeat (nth 0 vals 0%Q) n)) /\
  (length vals <> n -> length vals <> 1 -> c20_np_operand n vals = C20_Exc C20_ValueError) /\
  (forall y, c20_np_operand n vals = C20_Ok y -> length y = n).
Proof.
  intros n vals. unfold c20_np_operand. repeat split.
  - intros H. now rewrite H, Nat.eqb_refl.
  - intros H1 Hn. rewrite H1. destruct (Nat.eqb_spec 1 n); [congruence|reflexivity].
  - intros H1 H2. destruct (Nat.eqb_spec (length vals) n); [contradiction|]. destruct (Nat.eqb_spec (length vals) 1); [contradiction|reflexivity].
  - intros y. destruct (Nat.eqb_spec (length vals) n); [intros [= <-]; assumption|].
    destruct (Nat.eqb_spec (length vals) 1); [intros [= <-]; apply repeat_length|discriminate].
Qed.

(* self-aliasing: the operand is the receiver itself (v += v, v -= v, v.assign(v), v * v, v == v): the entries are read first *)
Lemma P_self_alias : forall cfg st r o, nth_error (c20_regs st) r = Some o -> c20_k o = C20_Vec ->
  c20_step cfg st (C20_IAdd r r) = c20_inplace st o (c20_vadd (c20_vals st o) (c20_vals st o)) /\
  c20_step cfg st (C20_ISub r r) = c20_inplace st o (c20_vsub (c20_vals st o) (c20_vals st o)) /\
  c20_step cfg st (C20_Assign r r) = c20_inplace st o (c20_vals st o) /\
  c20_step cfg st (C20_Dot r r) = (st, C20_ObsScalar (c20_two_norm2 (c20_vals st o))) /\
  c20_step cfg st (C20_Eq r r) = (st, C20_ObsBool (c20_veq (c20_vals st o) (c20_vals st o))).
Proof.
  intros cfg st r o E Hk.
  assert (Hc : c20_spec_construct (c20_size o) (c20_vals st o) = c20_vals st o).
  { unfold c20_spec_construct, c20_vals, c20_size. rewrite c20_read_all_length, Nat.sub_diag, firstn_all2 by (rewrite c20_read_all_length; lia).
    simpl. apply app_nil_r. }
  destruct (P_ops_inplace cfg st r r o o E Hk E) as [H1 [H2 [H3 _]]].
  destruct (P_ops_scalar cfg st r r o o E Hk E) as [H4 [H5 _]].
  rewrite Hc in *. rewrite P_two_norm2_dot. auto.
Qed.
