(* C20 — the dimension "kind / flags of the exporting buffer" (seeding round 6): lemmas about c20_buffer_request, c20_npv_gate,
   c20_xstep, c20_xrun of C20_Model.v.  The refusal of a read-only exporter rests on the literal
   c20_param_npv_request_writable = true re-read from numpyvector.hh (`array_.request(true)`): with `array_.request()` in the
   checked tree P_npv_gate_readonly (and every theorem built on it) stops to type-check. *)
From Coq Require Import List ZArith QArith Bool Lia Arith.
From DuneV Require Import Params_gen C20_Model C20_Spec C20_Proofs.
Import ListNotations.
Local Open Scope nat_scope.

Lemma P_request_plain : forall ex, c20_buffer_request ex false = C20_Ok tt.
Proof. reflexivity. Qed.

Lemma P_request_writable : forall ex,
  c20_buffer_request ex true = if c20_ex_readonly ex then C20_Exc C20_ValueError else C20_Ok tt.
Proof. reflexivity. Qed.

(* the constructor of NumPyVector: decision table over ALL exporters *)
Lemma P_npv_gate : forall ex,
  c20_npv_gate ex =
    if negb (Nat.eqb (c20_ex_ndim ex) 1) then C20_Exc C20_RuntimeError
    else if c20_ex_readonly ex then C20_Exc C20_ValueError else C20_Ok tt.
Proof.
  intros [ro fok nd]. unfold c20_npv_gate. rewrite P_request_plain. simpl c20_ex_ndim.
  destruct (negb (Nat.eqb nd 1)); [reflexivity|].
  change c20_param_npv_request_writable with true. rewrite P_request_writable. reflexivity.
Qed.

Lemma P_npv_gate_readonly : forall ex, c20_ex_readonly ex = true -> exists e, c20_npv_gate ex = C20_Exc e.
Proof.
  intros ex Hro. rewrite P_npv_gate, Hro. destruct (negb (Nat.eqb (c20_ex_ndim ex) 1)); eexists; reflexivity.
Qed.

(* nothing is written (nor read) through a read-only export: the state is the one before, the observation a refusal *)
Lemma P_readonly_refused : forall cfg st ex r a, c20_ex_readonly ex = true ->
  fst (c20_xstep cfg st (C20_NOnExport ex r a)) = st /\
  (c20_ex_ndim ex = 1 -> c20_xstep cfg st (C20_NOnExport ex r a) = (st, C20_ObsExc C20_ValueError)) /\
  (c20_ex_ndim ex <> 1 -> c20_xstep cfg st (C20_NOnExport ex r a) = (st, C20_ObsExc C20_RuntimeError)).
Proof.
  intros cfg st ex r a Hro. simpl. rewrite P_npv_gate, Hro.
  destruct (Nat.eqb (c20_ex_ndim ex) 1) eqn:E; simpl.
  - apply Nat.eqb_eq in E. repeat split; auto. intros; congruence.
  - apply Nat.eqb_neq in E. repeat split; auto. intros; congruence.
Qed.

(* a writable one-dimensional export is accepted and the access is the one of the `npv` ops (for which C20_numpy_view says:
   the same cells as NumPy indexing of the array) *)
Lemma P_writable_shared : forall cfg st ex r a, c20_ex_readonly ex = false -> c20_ex_ndim ex = 1 ->
  c20_xstep cfg st (C20_NOnExport ex r a) = c20_step_reg cfg st (c20_nacc_op r a).
Proof. intros cfg st ex r a Hro Hnd. simpl. rewrite P_npv_gate, Hro, Hnd. reflexivity. Qed.

Lemma P_export_ndim : forall cfg st ex r a, c20_ex_ndim ex <> 1 ->
  c20_xstep cfg st (C20_NOnExport ex r a) = (st, C20_ObsExc C20_RuntimeError).
Proof.
  intros cfg st ex r a Hnd. simpl. rewrite P_npv_gate. apply Nat.eqb_neq in Hnd. rewrite Hnd. reflexivity.
Qed.

(* FieldVector_n( exporter ): the entries are copied, so a read-only exporter is as good as a writable one; wrong format /
   dimension are refused without touching the state *)
Lemma P_new_from_export : forall cfg st ex n r,
  c20_xstep cfg st (C20_NewFromExport ex n r) =
    c20_xstep cfg st (C20_NewFromExport {| c20_ex_readonly := false; c20_ex_format_ok := c20_ex_format_ok ex; c20_ex_ndim := c20_ex_ndim ex |} n r) /\
  (c20_ex_format_ok ex = true -> c20_ex_ndim ex = 1 ->
     c20_xstep cfg st (C20_NewFromExport ex n r) = c20_step_reg cfg st (C20_NewFromBuf n r)) /\
  (c20_ex_format_ok ex = false \/ c20_ex_ndim ex <> 1 ->
     nth_error (c20_regs st) r <> None -> c20_xstep cfg st (C20_NewFromExport ex n r) = (st, C20_ObsExc C20_ValueError)).
Proof.
  intros cfg st [ro fok nd] n r. split; [reflexivity|]. split.
  - simpl. intros -> ->. unfold c20_step_reg. simpl.
    unfold c20_on_any. destruct (nth_error (c20_regs st) r); [|reflexivity].
    destruct (c20_construct_buffer n (c20_H st) true 1 (c20_buffer_info (c20_cells c))); reflexivity.
  - simpl. intros Hbad Hr. unfold c20_on_any. destruct (nth_error (c20_regs st) r) as [o|]; [|congruence].
    destruct (P_construct_buffer n (c20_H st) []) as [_ [H2 H3]].
    { intros i Hi. simpl in Hi. lia. } { constructor. }
    destruct fok.
    + destruct Hbad as [Hb|Hb]; [discriminate|]. rewrite (H2 nd _ Hb). reflexivity.
    + rewrite H3. reflexivity.
Qed.

(* well-formedness (objects address distinct cells inside the heap) is an invariant of every extended script *)
Lemma P_xstep_wf : forall cfg st x, c20_wf st -> c20_wf (fst (c20_xstep cfg st x)).
Proof.
  intros cfg st [op | ex r a | ex n r] Hwf.
  - apply P_step_reg_wf; assumption.
  - simpl. destruct (c20_npv_gate ex); simpl; [apply P_step_reg_wf|]; assumption.
  - simpl. apply c20_wf_on_any; [assumption|]. intros o Ho Hok.
    destruct (c20_construct_buffer n (c20_H st) (c20_ex_format_ok ex) (c20_ex_ndim ex) (c20_buffer_info (c20_cells o)));
      [apply c20_wf_push_new|simpl]; assumption.
Qed.

Lemma P_xrun_wf : forall cfg xs st, c20_wf st -> c20_wf (fst (c20_xrun cfg st xs)).
Proof.
  intros cfg xs. induction xs as [|x rest IH]; intros st Hwf; simpl; auto.
  pose proof (P_xstep_wf cfg st x Hwf) as H1. destruct (c20_xstep cfg st x) as [st' ob].
  specialize (IH st' H1). destruct (c20_xrun cfg st' rest). simpl in *. assumption.
Qed.

(* scripts without exporter ops are the ordinary scripts *)
Lemma P_xrun_plain : forall cfg ops st, c20_xrun cfg st (map C20_X ops) = c20_run cfg st ops.
Proof.
  intros cfg ops. induction ops as [|op rest IH]; intros st; simpl; auto.
  destruct (c20_step_reg cfg st op) as [st' ob]. rewrite IH. reflexivity.
Qed.

(* for EVERY history: erasing all accesses through read-only exports from a script does not change the final state
   (heap and registers): no entry of any object is ever changed through a read-only export *)
Lemma P_xrun_readonly_erase : forall cfg xs st,
  fst (c20_xrun cfg st xs) = fst (c20_xrun cfg st (filter (fun x => negb (c20_xreadonly x)) xs)).
Proof.
  intros cfg xs. induction xs as [|x rest IH]; intros st; simpl; auto.
  destruct (c20_xreadonly x) eqn:Ero; simpl.
  - destruct x as [op | ex r a | ex n r]; try discriminate Ero. simpl in Ero.
    destruct (P_readonly_refused cfg st ex r a Ero) as [H1 _].
    destruct (c20_xstep cfg st (C20_NOnExport ex r a)) as [st' ob]. simpl in H1. subst st'.
    specialize (IH st). destruct (c20_xrun cfg st rest). simpl in *. assumption.
  - destruct (c20_xstep cfg st x) as [st' ob]. specialize (IH st').
    destruct (c20_xrun cfg st' rest); destruct (c20_xrun cfg st' (filter (fun x => negb (c20_xreadonly x)) rest)).
    simpl in *. assumption.
Qed.

(* and every such access is observed as an exception *)
Lemma P_xrun_readonly_obs : forall cfg xs st,
  Forall (fun p => c20_xreadonly (fst p) = true -> exists e, snd p = C20_ObsExc e) (combine xs (snd (c20_xrun cfg st xs))).
Proof.
  intros cfg xs. induction xs as [|x rest IH]; intros st; simpl; [constructor|].
  destruct (c20_xstep cfg st x) as [st' ob] eqn:Ex. specialize (IH st').
  destruct (c20_xrun cfg st' rest) as [st'' obs]. simpl in *. constructor; [|assumption].
  simpl. intros Hro. destruct x as [op | ex r a | ex n r]; try discriminate Hro. simpl in Hro.
  simpl in Ex. destruct (P_npv_gate_readonly ex Hro) as [e He]. rewrite He in Ex. injection Ex as _ <-. eexists; reflexivity.
Qed.
