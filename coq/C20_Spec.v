(* C20 — the abstract statements the property makes about the Python view of a dense vector.
   Short on purpose: a vector IS its list of entries; construction keeps the first n given numbers and
   zero-fills; an index i denotes position i (0 <= i < n) or n+i (-n <= i < 0) and nothing else;
   operations act on the entry lists; two Python objects either address the same cells (views) or
   disjoint cells (copies).  The executable parts are also used by the OCaml driver. *)
From Coq Require Import List ZArith QArith Bool.
From DuneV Require Import C20_Model.
Import ListNotations.
Local Open Scope nat_scope.

(* "holds exactly the given numbers (the first n of them, zero-filled when fewer are given)" *)
Definition c20_spec_construct (n : nat) (x : list Q) : list Q :=
  firstn n x ++ repeat 0%Q (n - length x).

(* "indexing with Python semantics for negative indices ... an index outside [-n, n) raises IndexError" *)
Definition c20_spec_index (n : nat) (i : Z) : option nat :=
  if ((0 <=? i) && (i <? Z.of_nat n))%Z then Some (Z.to_nat i)
  else if ((- Z.of_nat n <=? i) && (i <? 0))%Z then Some (Z.to_nat (Z.of_nat n + i))
  else None.

(* memory: every object addresses distinct cells inside the heap *)
Definition c20_obj_ok (H : c20_heap) (o : c20_obj) : Prop :=
  NoDup (c20_cells o) /\ Forall (fun a => a < length H) (c20_cells o).
Definition c20_wf (st : c20_state) : Prop := Forall (c20_obj_ok (c20_H st)) (c20_regs st).

Fixpoint c20_nodupb (l : list nat) : bool :=
  match l with [] => true | a :: r => negb (existsb (Nat.eqb a) r) && c20_nodupb r end.
Definition c20_wfb (st : c20_state) : bool :=
  forallb (fun o => c20_nodupb (c20_cells o) && forallb (fun a => Nat.ltb a (length (c20_H st))) (c20_cells o))
          (c20_regs st).

(* two objects are independent when they address no common cell; o is a view into p when every cell of
   o is a cell of p *)
Definition c20_disjoint (o p : c20_obj) : Prop := forall a, In a (c20_cells o) -> ~ In a (c20_cells p).
Definition c20_view_of (o p : c20_obj) : Prop := incl (c20_cells o) (c20_cells p).

(* one Python-level write: (register, index, value) *)
Definition c20_writes (cfg : c20_cfg) (st : c20_state) (ws : list (nat * Z * Q)) : c20_state :=
  fst (c20_run cfg st (map (fun w => C20_Set (fst (fst w)) (snd (fst w)) (snd w)) ws)).

(* a NumPy array is a strided view: its cells are the arithmetic progression its buffer_info describes
   (true of every array obtained from contiguous storage by basic slicing, for positive and negative steps) *)
Definition c20_strided (cells : list nat) : Prop :=
  let bi := c20_buffer_info cells in
  forall i, i < length cells -> Z.of_nat (nth i cells 0) = (c20_bi_ptr bi + Z.of_nat i * c20_bi_stride bi)%Z.

(* the bound operations that may write to existing storage (everything else is "out of place") *)
Definition c20_mutating (op : c20_op) : bool :=
  match op with
  | C20_Set _ _ _ | C20_SetSlice _ _ _ _ _ | C20_IAdd _ _ | C20_ISub _ _ | C20_IAddL _ _ | C20_ISubL _ _
  | C20_IMulS _ _ | C20_IDivS _ _ | C20_IAddS _ _ | C20_ISubS _ _ | C20_Assign _ _ | C20_AssignL _ _
  | C20_NSet _ _ _ | C20_NIMulS _ _ | C20_NIDivS _ _ | C20_NIAddS _ _ | C20_NISubS _ _
  | C20_SetSliceFrom _ _ _ _ _ | C20_ArrIAdd _ _ | C20_ArrISub _ _ | C20_ArrIMulS _ _ | C20_ArrIAddS _ _ => true
  | _ => false
  end.

(* the register an in-place operation writes through *)
Definition c20_target (op : c20_op) : option nat :=
  match op with
  | C20_Set r _ _ | C20_SetSlice r _ _ _ _ | C20_IAdd r _ | C20_ISub r _ | C20_IAddL r _ | C20_ISubL r _
  | C20_IMulS r _ | C20_IDivS r _ | C20_IAddS r _ | C20_ISubS r _ | C20_Assign r _ | C20_AssignL r _
  | C20_NSet r _ _ | C20_NIMulS r _ | C20_NIDivS r _ | C20_NIAddS r _ | C20_NISubS r _
  | C20_SetSliceFrom r _ _ _ _ | C20_ArrIAdd r _ | C20_ArrISub r _ | C20_ArrIMulS r _ | C20_ArrIAddS r _ => Some r
  | _ => None
  end.
