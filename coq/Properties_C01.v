(* C01 — property theorems.  ONLY statements, each closed by `exact <lemma>` and followed by Print Assumptions.
   Model: C01_Model.v (the accumulation loops of densematrix.hh / densevector.hh / fmatrix.hh / diagonalmatrix.hh /
   transpose.hh in the code's loop order, in-place updates of the destination), Spec: C01_Spec.v (the algebraic
   definitions as structural sums).  Quantification: EVERY carrier R whose operations (record K) satisfy the
   commutative-ring laws, EVERY shape r x c (r >= 1), EVERY entry, vector and scalar.  No law about conj is needed.
   c01s_wf r c A := A has r rows of length c. *)
From Coq Require Import List ZArith Bool Ring.
From DuneV Require Import Params_gen C01_Model C01_Model2 C01_Spec C01_Proofs C01_Proofs_Ops C01_Proofs_Mul C01_Proofs_Views C01_Proofs_Via C01_Proofs_Conv C01_Proofs_Neg C01_Proofs_Extra C01_Proofs_Div C01_Proofs_Zp C01_Proofs_Src C01_Proofs_More C01_Proofs_Cells C01_Proofs_Asg.
Import ListNotations.

Section C01.
Context {R : Type} (K : c01_ops R).
Hypothesis Rth : ring_theory (c01_O K) (c01_I K) (c01_add K) (c01_mul K) (c01_sub K) (c01_opp K) (@eq R).

(* the eleven kernels of DenseMatrix (FieldMatrix, DynamicMatrix, ScalarMatrixView):
   y = A x, y = A^T x, y += A x, y += A^T x, y += A^H x, y -= ..., y += alpha ...  *)
Theorem C01_kernels_dense : forall r c (A : list (list R)) (alpha : R), c01s_wf r c A -> 0 < r ->
  (forall x y, length x = c -> length y = r ->
     c01_mv K A x y = c01s_assign K C01_N c A x /\
     c01_umv K A x y = c01s_plus K C01_N c A x y /\
     c01_mmv K A x y = c01s_minus K C01_N c A x y /\
     c01_usmv K alpha A x y = c01s_plus_scaled K alpha C01_N c A x y) /\
  (forall x y, length x = r -> length y = c ->
     c01_mtv K A x y = c01s_assign K C01_T c A x /\
     c01_umtv K A x y = c01s_plus K C01_T c A x y /\
     c01_umhv K A x y = c01s_plus K C01_H c A x y /\
     c01_mmtv K A x y = c01s_minus K C01_T c A x y /\
     c01_mmhv K A x y = c01s_minus K C01_H c A x y /\
     c01_usmtv K alpha A x y = c01s_plus_scaled K alpha C01_T c A x y /\
     c01_usmhv K alpha A x y = c01s_plus_scaled K alpha C01_H c A x y).
Proof. exact (P_kernels_dense K Rth). Qed.

(* DiagonalMatrix re-implements every kernel on its diagonal vector: each equals the definition applied to diag(d)
   (conj 0 = 0 is what makes the off-diagonal zeros of diag(d)^H zeros) *)
Theorem C01_kernels_diag : c01_conj K (c01_O K) = c01_O K ->
  forall (d x y : list R) (alpha : R), length x = length d -> length y = length d ->
  let n := length d in let D := c01s_diag K d in
  c01_dg_mv K d x y = c01s_assign K C01_N n D x /\ c01_dg_mtv K d x y = c01s_assign K C01_T n D x /\
  c01_dg_umv K d x y = c01s_plus K C01_N n D x y /\ c01_dg_umtv K d x y = c01s_plus K C01_T n D x y /\
  c01_dg_umhv K d x y = c01s_plus K C01_H n D x y /\
  c01_dg_mmv K d x y = c01s_minus K C01_N n D x y /\ c01_dg_mmtv K d x y = c01s_minus K C01_T n D x y /\
  c01_dg_mmhv K d x y = c01s_minus K C01_H n D x y /\
  c01_dg_usmv K alpha d x y = c01s_plus_scaled K alpha C01_N n D x y /\
  c01_dg_usmtv K alpha d x y = c01s_plus_scaled K alpha C01_T n D x y /\
  c01_dg_usmhv K alpha d x y = c01s_plus_scaled K alpha C01_H n D x y.
Proof. exact (P_kernels_diag K Rth). Qed.

(* two representations holding the same entries are interchangeable: diagonal storage vs. dense storage of diag(d) *)
Theorem C01_diag_dense_interchangeable : c01_conj K (c01_O K) = c01_O K ->
  forall (d x y : list R) (alpha : R), d <> [] -> length x = length d -> length y = length d ->
  let D := c01s_diag K d in
  c01_dg_mv K d x y = c01_mv K D x y /\ c01_dg_mtv K d x y = c01_mtv K D x y /\
  c01_dg_umv K d x y = c01_umv K D x y /\ c01_dg_umtv K d x y = c01_umtv K D x y /\ c01_dg_umhv K d x y = c01_umhv K D x y /\
  c01_dg_mmv K d x y = c01_mmv K D x y /\ c01_dg_mmtv K d x y = c01_mmtv K D x y /\ c01_dg_mmhv K d x y = c01_mmhv K D x y /\
  c01_dg_usmv K alpha d x y = c01_usmv K alpha D x y /\ c01_dg_usmtv K alpha d x y = c01_usmtv K alpha D x y /\
  c01_dg_usmhv K alpha d x y = c01_usmhv K alpha D x y.
Proof. exact (P_diag_dense_interchangeable K Rth). Qed.

(* DenseVector: += -= + - (scalar) *= axpy, FieldVector v*k k*v, operator* (x^T y), dot (x^H y), ==, /= *)
Theorem C01_vector_space : forall (x y : list R) (a : R), length y = length x ->
  c01_vadd K x y = c01s_vadd K x y /\ c01_vsub K x y = c01s_vsub K x y /\
  c01_vplus K x y = c01s_vadd K x y /\ c01_vminus K x y = c01s_vsub K x y /\
  c01_vadds K x a = map (fun v => c01_add K v a) x /\ c01_vsubs K x a = map (fun v => c01_sub K v a) x /\
  c01_vscale K x a = c01s_vscale K a x /\ c01_fv_muls K x a = c01s_vscale K a x /\ c01_fv_smul K a x = c01s_vscale K a x /\
  c01_vaxpy K x a y = c01s_vadd K x (c01s_vscale K a y) /\
  c01_vdotT K x y = c01s_dot K x y /\ c01_vdot K x y = c01s_hdot K x y /\
  c01_veq K x y = c01s_veqb K x y /\
  c01_vdiv K x a = c01s_vdiv K x a.
Proof. exact (P_vector_space K Rth). Qed.

(* == decides equality of the stored entries; a defined quotient is a quotient *)
Theorem C01_comparison_decides : (forall a b, c01_eqb K a b = true <-> a = b) ->
  forall x y : list R, length y = length x -> (c01s_veqb K x y = true <-> x = y).
Proof. exact (P_veqb_decides K). Qed.
Theorem C01_division_is_quotient : (forall a k q, c01_div K a k = Some q -> c01_mul K q k = a) ->
  forall (x : list R) k q, c01s_vdiv K x k = Some q -> c01s_vscale K k q = x.
Proof. exact (P_vdiv_quotient K Rth). Qed.

(* unary minus: correct whenever the freshly constructed result object has the size of the operand (FieldVector;
   DynamicVector after fix C01-1) ... *)
Theorem C01_negation : forall res0 x : list R, length res0 = length x -> c01_vneg_from K res0 x = Some (c01s_vopp K x).
Proof. exact (P_vneg K). Qed.
(* ... and refuted for the empty default-constructed result of a DynamicVector: the first store is out of bounds
   (finding F-C01-1; witness replayed on the implementation by the correspondence check) *)
Theorem C01_negation_dynamic_default_refuted : forall (a : R) (x : list R), c01_vneg_from K [] (a :: x) = None.
Proof. exact (P_vneg_empty_result K). Qed.

(* matrix-matrix products: FieldMatrix*FieldMatrix (triple loop), leftmultiply / rightmultiply (through the copy C),
   left/rightmultiplyany, FieldMatrix*Other through Other::mtv on the rows (Other dense, or a transposed wrapper whose mtv
   is the wrapped mv), A*transpose(Bt) through Bt.mv on the rows, transposed(), wrapper asDense() *)
Theorem C01_products : forall r c p (A B Bt M Mr Ml Mc : list (list R)),
  c01s_wf r c A -> c01s_wf c p B -> c01s_wf p c Bt -> c01s_wf r r M -> c01s_wf c c Mr -> c01s_wf p r Ml -> c01s_wf c p Mc ->
  0 < r -> 0 < c -> 0 < p ->
  c01_fm_mul K r c p A B = c01s_mat_mul K p A B /\
  c01_leftmultiply K A M = c01s_mat_mul K c M A /\
  c01_rightmultiply K A Mr = c01s_mat_mul K c A Mr /\
  c01_leftmultiplyany K p A Ml = c01s_mat_mul K c Ml A /\
  c01_rightmultiplyany K p A Mc = c01s_mat_mul K p A Mc /\
  c01_mul_via_mtv K (c01_mtv K B) r p A = c01s_mat_mul K p A B /\
  c01_mul_via_mtv K (c01_tw_mtv (c01_mv K Bt)) r p A = c01s_mat_mul K p A (c01s_transpose K c Bt) /\
  c01_mul_by_transposed K (c01_mv K Bt) r p A = c01s_mat_mul K p A (c01s_transpose K c Bt) /\
  c01_transposed K A = c01s_transpose K c A /\
  c01_tw_asdense K A = c01s_transpose K c A.
Proof. exact (P_products K Rth). Qed.

Theorem C01_products_diag : c01_conj K (c01_O K) = c01_O K -> forall r (A : list (list R)) (d : list R),
  c01s_wf r (length d) A ->
  c01_mul_via_mtv K (c01_dg_mtv K d) r (length d) A = c01s_mat_mul K (length d) A (c01s_diag K d) /\
  c01_mul_by_transposed K (c01_dg_mv K d) r (length d) A = c01s_mat_mul K (length d) A (c01s_transpose K (length d) (c01s_diag K d)).
Proof. exact (P_products_diag K Rth). Qed.

(* the transposed wrapper (mv := wrapped mtv, mtv := wrapped mv) acts as the matrix A^T *)
Theorem C01_transposed_wrapper : forall r c (A : list (list R)) x y x' y', c01s_wf r c A -> 0 < r -> 0 < c ->
  length x = r -> length y = c -> length x' = c -> length y' = r ->
  c01_tw_mv (c01_mtv K A) x y = c01s_assign K C01_N r (c01s_transpose K c A) x /\
  c01_tw_mtv (c01_mv K A) x' y' = c01s_assign K C01_T r (c01s_transpose K c A) x'.
Proof. exact (P_wrapper K Rth). Qed.

(* DenseMatrix += -= *= axpy (row by row through DenseVector) and the FieldMatrix friend operators + - *k k* *)
Theorem C01_matrix_space : forall r c (A B : list (list R)) (k : R), c01s_wf r c A -> c01s_wf r c B ->
  c01_madd K A B = c01s_madd K A B /\ c01_msub K A B = c01s_msub K A B /\
  c01_mscale K A k = c01s_mscale K k A /\ c01_maxpy K A k B = c01s_madd K A (c01s_mscale K k B) /\
  c01_fm_plus K r c A B = c01s_madd K A B /\ c01_fm_minus K r c A B = c01s_msub K A B /\
  c01_fm_muls K r c A k = map (map (fun v => c01_mul K v k)) A /\ c01_fm_smul K r c k A = c01s_mscale K k A.
Proof. exact (P_matrix_space K Rth). Qed.

(* the FieldMatrix<K,1,1> specialisation agrees with the generic code at 1x1 *)
Theorem C01_views : forall p (A B : list (list R)) (Brow Bcol : list (list R)) (k : R),
  c01s_wf 1 1 A -> c01s_wf 1 1 B -> c01s_wf 1 p Brow -> c01s_wf p 1 Bcol ->
  c01_fm11_mul_row K p A Brow = c01_fm_mul K 1 1 p A Brow /\
  c01_fm11_rightmultiplyany K p A Brow = c01_rightmultiplyany K p A Brow /\
  c01_fm11_leftmultiplyany K p A Bcol = c01_leftmultiplyany K p A Bcol /\
  c01_fm11_rightmultiply K A B = c01_rightmultiply K A B /\
  c01_fm11_binop K (c01_add K) A B = c01_fm_plus K 1 1 A B /\
  c01_fm11_binop K (c01_sub K) A B = c01_fm_minus K 1 1 A B /\
  c01_fm11_scalar_r K (c01_mul K) A k = c01_fm_muls K 1 1 A k /\
  c01_fm11_scalar_l K (c01_mul K) k A = c01_fm_smul K 1 1 k A /\
  c01_fm11_transposed A = c01_transposed K A.
Proof. exact (P_views K Rth). Qed.

(* Other * FieldMatrix through Other::mv on the column views of the right factor (Other dense or diagonal) *)
Theorem C01_products_via_columns : forall r n p (A B : list (list R)), c01s_wf r n A -> c01s_wf n p B -> 0 < r ->
  c01_mul_via_mv K (c01_mv K A) r n p B = c01s_mat_mul K p A B /\
  (c01_conj K (c01_O K) = c01_O K -> forall d : list R, length d = n ->
     c01_mul_via_mv K (c01_dg_mv K d) n n p B = c01s_mat_mul K p (c01s_diag K d) B).
Proof. exact (P_products_via_columns K Rth). Qed.

(* conversions between representations (DenseMatrixAssigner) keep the entries; Diagonal*Diagonal is the product of the
   dense matrices they stand for *)
Theorem C01_conversions : forall r c (B : list (list R)) (a b : list R), c01s_wf r c B -> 0 < r -> length b = length a ->
  c01_assign_dense K B = B /\ c01_dg_to_dense K a = c01s_diag K a /\ c01_dg_transposed a = a /\
  c01s_diag K (c01_dg_mul K a b) = c01s_mat_mul K (length a) (c01s_diag K a) (c01s_diag K b).
Proof. exact (P_conversions K Rth). Qed.

(* DenseMatrix unary minus and ==: as for vectors (FieldMatrix: zero-initialised result of the right shape; DynamicMatrix:
   copy of the operand after fix C01-1, empty before it) *)
Theorem C01_matrix_negation : forall r c (A res0 : list (list R)), c01s_wf r c A -> c01s_wf r c res0 -> 0 < r ->
  c01_mneg_from K res0 A = Some (c01s_mopp K A).
Proof. exact (P_mneg K). Qed.
Theorem C01_matrix_negation_dynamic_default_refuted : forall (a : R) (row : list R) (A : list (list R)),
  c01_mneg_from K [] ((a :: row) :: A) = None.
Proof. exact (P_mneg_empty_result K). Qed.
Theorem C01_matrix_comparison : forall r c (A B : list (list R)), c01s_wf r c A -> c01s_wf r c B -> c01_meq K A B = c01s_meqb K A B.
Proof. exact (P_meq K). Qed.

(* assignment from a scalar / from another vector (operator=, converting constructors, DenseMatrixAssigner<.,scalar>);
   FMatrixHelp::multTransposedMatrix computes A^T A whatever the result held before *)
Theorem C01_assignment : forall r c (A T0 : list (list R)) (x y : list R) (k : R), c01s_wf r c A -> c01s_wf c c T0 -> 0 < r -> length y = length x ->
  c01_fill x k = map (fun _ => k) x /\ c01_vassign K x y = y /\ c01_mfill A k = map (map (fun _ => k)) A /\
  c01_mult_transposed K r c A T0 = c01s_mat_mul K c (c01s_transpose K c A) A.
Proof. exact (P_assignment K Rth). Qed.

(* ROUND 6 — assignment / conversion INTO AN EXISTING OBJECT, for EVERY previous state of the target.  T0: a static target
   (FieldMatrix) holding arbitrary entries; Tany: a DynamicMatrix target holding ANY list of rows (any shape, ragged, empty);
   Td: a square static target of a diagonal source; x: a vector target holding arbitrary entries.  After the assignment the
   target holds exactly the entries of the source (dense source B via the generic DenseMatrixAssigner, via the cross-field
   FieldMatrix::operator=, via defaulted copy/move; DiagonalMatrix source d via its assigner WITH the leading zero-fill; a scalar;
   vectors via DenseVector::operator=, std::copy, fill, copy, the size-1 specialisation) *)
Theorem C01_assignment_into : forall r c (T0 Tany B Td : list (list R)) (d x y : list R) (k : R),
  c01s_wf r c B -> c01s_wf r c T0 -> 0 < r -> c01s_wf (length d) (length d) Td -> length x = length y ->
  c01_assign_dense_into K T0 B = B /\ c01_fm_assign_rows K T0 B = B /\ c01_copy_assign T0 B = B /\ c01_dm_assign_dense K Tany B = B /\
  c01_assign_diag_into K true Td d = c01s_diag K d /\ c01_dm_assign_diag K true Tany d = c01s_diag K d /\
  c01_mfill T0 k = map (map (fun _ => k)) B /\ c01_vassign K x y = y /\ c01_copy_into K y x = y /\ c01_fill x k = map (fun _ => k) y /\
  c01_copy_assign x y = y /\ (length y = 1 -> c01_fv1_assign K x y = y).
Proof. exact (P_assignment_into K). Qed.
(* scalar views as targets: the target's cell gets the source's value (or the scalar), every other cell is unchanged *)
Theorem C01_assignment_into_views : forall (st : list R) a m j k, a < length st ->
  c01_at K (c01_cell_assign K st a m) j = (if Nat.eqb a j then c01_at K st m else c01_at K st j) /\
  c01_at K (c01_cell_fill st a k) j = (if Nat.eqb a j then k else c01_at K st j).
Proof. exact (P_cell_assign K). Qed.
(* TIE TO THE SOURCE TEXT: the zero-fill token of DenseMatrixAssigner<Dense, DiagonalMatrix>::apply, re-read from diagonalmatrix.hh on
   every run (tools/params.d/C01.py), is the one C01_assignment_into is stated for *)
Theorem C01_assignment_source_zerofill : c01_param_diag_assign_zerofill = true.
Proof. exact (eq_refl true). Qed.

(* the norms that are exact on integers: one_norm / one_norm_real / two_norm2 are sums, infinity_norm(_real) maxima, of the
   componentwise absolute value nrm; frobenius_norm2 and the matrix infinity norms are the sum / max over the rows *)
Theorem C01_norms : forall (nrm : R -> Z) (x : list R) (A : list (list R)),
  c01_norm_sum K nrm x = fold_right Z.add 0%Z (map nrm x) /\ c01_norm_max K nrm x = fold_right Z.max 0%Z (map nrm x) /\
  c01_mnorm_sum K nrm A = fold_right Z.add 0%Z (map (fun row => fold_right Z.add 0%Z (map nrm row)) A) /\
  c01_mnorm_inf K nrm A = fold_right Z.max 0%Z (map (fun row => fold_right Z.add 0%Z (map nrm row)) A).
Proof. exact (P_norms K). Qed.

(* division by a scalar, all four operators (DenseVector /=, FieldVector v/k, DenseMatrix /=, FieldMatrix A/k): over a carrier
   with division (c01_div_laws: a defined quotient is a quotient; multiples of b <> 0 are exactly divisible by b) entrywise
   division by alpha <> 0 is the inverse of entrywise multiplication by alpha *)
Theorem C01_scalar_division : c01_div_laws K ->
  forall r c (x : list R) (A : list (list R)) (alpha : R), c01s_wf r c A -> alpha <> c01_O K ->
  c01_vdiv K (c01_vscale K x alpha) alpha = Some x /\
  c01_fv_divs K (c01_fv_muls K x alpha) alpha = Some x /\
  c01_mdiv K (c01_mscale K A alpha) alpha = Some A /\
  c01_fm_divs K r c (c01_fm_muls K r c A alpha) alpha = Some A /\
  (forall q, c01_vdiv K x alpha = Some q -> c01s_vscale K alpha q = x) /\
  (forall q, c01_fv_divs K x alpha = Some q -> c01s_vscale K alpha q = x) /\
  (forall Q, c01_mdiv K A alpha = Some Q -> c01s_mscale K alpha Q = A) /\
  (forall Q, c01_fm_divs K r c A alpha = Some Q -> c01s_mscale K alpha Q = A).
Proof. exact (P_scalar_division K Rth). Qed.
(* the division loops are the structural componentwise quotient (all or nothing); over a field every quotient is defined *)
Theorem C01_division_loops : forall r c (x : list R) (A : list (list R)) (k : R), c01s_wf r c A ->
  c01_vdiv K x k = c01s_vdiv K x k /\ c01_fv_divs K x k = c01s_vdiv K x k /\
  c01_mdiv K A k = c01s_mdiv K A k /\ c01_fm_divs K r c A k = c01s_mdiv K A k /\
  (c01_div_total K -> k <> c01_O K -> exists q, c01_vdiv K x k = Some q).
Proof.
  exact (fun r c x A k W => conj (P_vdiv K x k) (conj (P_fv_divs K x k) (conj (P_mdiv K A k) (conj (P_fm_divs K r c A k W)
           (fun T N => P_scalar_division_total K T x k N))))).
Qed.

(* TIE TO THE SOURCE TEXT: the descriptors c01_param_dense_* / c01_param_diag_* are re-read from densematrix.hh / diagonalmatrix.hh
   on every run (tools/params.d/C01.py: loop bounds rows()/cols(), index roles, conjugateComplex or not, alpha or not, += / -= / reset).
   The kernel built from the descriptor IS the literal model kernel (and hence, by C01_kernels_dense / C01_kernels_diag, the algebraic
   definition); an edit of one of these tokens in the source makes this theorem fail to check. *)
Theorem C01_source_selects_model : forall (alpha : R) (A : list (list R)) (d x y : list R),
  (c01_kernel_gen K (c01_kdesc_of c01_param_dense_mv) alpha A x y = c01_mv K A x y /\
   c01_kernel_gen K (c01_kdesc_of c01_param_dense_mtv) alpha A x y = c01_mtv K A x y /\
   c01_kernel_gen K (c01_kdesc_of c01_param_dense_umv) alpha A x y = c01_umv K A x y /\
   c01_kernel_gen K (c01_kdesc_of c01_param_dense_umtv) alpha A x y = c01_umtv K A x y /\
   c01_kernel_gen K (c01_kdesc_of c01_param_dense_umhv) alpha A x y = c01_umhv K A x y /\
   c01_kernel_gen K (c01_kdesc_of c01_param_dense_mmv) alpha A x y = c01_mmv K A x y /\
   c01_kernel_gen K (c01_kdesc_of c01_param_dense_mmtv) alpha A x y = c01_mmtv K A x y /\
   c01_kernel_gen K (c01_kdesc_of c01_param_dense_mmhv) alpha A x y = c01_mmhv K A x y /\
   c01_kernel_gen K (c01_kdesc_of c01_param_dense_usmv) alpha A x y = c01_usmv K alpha A x y /\
   c01_kernel_gen K (c01_kdesc_of c01_param_dense_usmtv) alpha A x y = c01_usmtv K alpha A x y /\
   c01_kernel_gen K (c01_kdesc_of c01_param_dense_usmhv) alpha A x y = c01_usmhv K alpha A x y) /\
  (c01_dg_kernel_gen K c01_param_diag_mv alpha d x y = c01_dg_mv K d x y /\
   c01_dg_kernel_gen K c01_param_diag_mtv alpha d x y = c01_dg_mtv K d x y /\
   c01_dg_kernel_gen K c01_param_diag_umv alpha d x y = c01_dg_umv K d x y /\
   c01_dg_kernel_gen K c01_param_diag_umtv alpha d x y = c01_dg_umtv K d x y /\
   c01_dg_kernel_gen K c01_param_diag_umhv alpha d x y = c01_dg_umhv K d x y /\
   c01_dg_kernel_gen K c01_param_diag_mmv alpha d x y = c01_dg_mmv K d x y /\
   c01_dg_kernel_gen K c01_param_diag_mmtv alpha d x y = c01_dg_mmtv K d x y /\
   c01_dg_kernel_gen K c01_param_diag_mmhv alpha d x y = c01_dg_mmhv K d x y /\
   c01_dg_kernel_gen K c01_param_diag_usmv alpha d x y = c01_dg_usmv K alpha d x y /\
   c01_dg_kernel_gen K c01_param_diag_usmtv alpha d x y = c01_dg_usmtv K alpha d x y /\
   c01_dg_kernel_gen K c01_param_diag_usmhv alpha d x y = c01_dg_usmhv K alpha d x y).
Proof. exact (fun alpha A d x y => conj (P_src_dense K alpha A x y) (P_src_diag K alpha d x y)). Qed.

(* FRAME, explicitly: as a transformer of the three C++ objects (A and x read through their references in every iteration) every
   kernel expressible by a descriptor writes only y ... *)
Theorem C01_kernel_frame : forall (d : c01_kdesc) (alpha : R) (A : list (list R)) (x y : list R),
  c01_kernel_objs K d alpha (C01_Objs A x y) = C01_Objs A x (c01_kernel_gen K d alpha A x y).
Proof. exact (P_kernel_frame K). Qed.
(* ... so the eleven kernels the source defines leave A and x as they were and put the algebraic definition into y (any previous y) *)
Theorem C01_kernels_on_objects : forall r c (A : list (list R)) (alpha : R), c01s_wf r c A -> 0 < r ->
  (forall x y, length x = c -> length y = r ->
     c01_kernel_objs K (c01_kdesc_of c01_param_dense_mv) alpha (C01_Objs A x y) = C01_Objs A x (c01s_assign K C01_N c A x) /\
     c01_kernel_objs K (c01_kdesc_of c01_param_dense_umv) alpha (C01_Objs A x y) = C01_Objs A x (c01s_plus K C01_N c A x y) /\
     c01_kernel_objs K (c01_kdesc_of c01_param_dense_mmv) alpha (C01_Objs A x y) = C01_Objs A x (c01s_minus K C01_N c A x y) /\
     c01_kernel_objs K (c01_kdesc_of c01_param_dense_usmv) alpha (C01_Objs A x y) = C01_Objs A x (c01s_plus_scaled K alpha C01_N c A x y)) /\
  (forall x y, length x = r -> length y = c ->
     c01_kernel_objs K (c01_kdesc_of c01_param_dense_mtv) alpha (C01_Objs A x y) = C01_Objs A x (c01s_assign K C01_T c A x) /\
     c01_kernel_objs K (c01_kdesc_of c01_param_dense_umtv) alpha (C01_Objs A x y) = C01_Objs A x (c01s_plus K C01_T c A x y) /\
     c01_kernel_objs K (c01_kdesc_of c01_param_dense_umhv) alpha (C01_Objs A x y) = C01_Objs A x (c01s_plus K C01_H c A x y) /\
     c01_kernel_objs K (c01_kdesc_of c01_param_dense_mmtv) alpha (C01_Objs A x y) = C01_Objs A x (c01s_minus K C01_T c A x y) /\
     c01_kernel_objs K (c01_kdesc_of c01_param_dense_mmhv) alpha (C01_Objs A x y) = C01_Objs A x (c01s_minus K C01_H c A x y) /\
     c01_kernel_objs K (c01_kdesc_of c01_param_dense_usmtv) alpha (C01_Objs A x y) = C01_Objs A x (c01s_plus_scaled K alpha C01_T c A x y) /\
     c01_kernel_objs K (c01_kdesc_of c01_param_dense_usmhv) alpha (C01_Objs A x y) = C01_Objs A x (c01s_plus_scaled K alpha C01_H c A x y)).
Proof. exact (P_kernels_on_objects K Rth). Qed.

(* in-place products with the matrix itself as the factor (after fix C01-5: through a copy of the factor) give the square *)
Theorem C01_multiply_self : forall r (A : list (list R)), c01s_wf r r A -> 0 < r ->
  c01_rightmultiply_self K A = c01s_mat_mul K r A A /\ c01_leftmultiply_self K A = c01s_mat_mul K r A A.
Proof. exact (P_multiply_self K Rth). Qed.

(* the transposed wrapper over a diagonal matrix; the wrapper class of this tree has mv and mtv only (no umv/usmv... to forward);
   both overwrite y, so the statement holds for ANY previous y, in particular a non-zero one *)
Theorem C01_transposed_wrapper_diag : c01_conj K (c01_O K) = c01_O K -> forall d x y : list R, length x = length d -> length y = length d ->
  c01_tw_mv (c01_dg_mtv K d) x y = c01s_assign K C01_N (length d) (c01s_transpose K (length d) (c01s_diag K d)) x /\
  c01_tw_mtv (c01_dg_mv K d) x y = c01s_assign K C01_T (length d) (c01s_transpose K (length d) (c01s_diag K d)) x.
Proof. exact (P_wrapper_diag K Rth). Qed.

(* size-1 vectors / 1x1 matrices used like the scalar they hold (free operators of FieldVector<K,1>, scalar overloads of
   FieldMatrix<K,1,1>, conversion operators) agree with the generic loops at size 1; scalar views: closed forms of the kernels *)
Theorem C01_size1 : forall (a k b s al : R),
  c01_vadds K [a] k = c01_fv1_op K (c01_add K) [a] k /\ c01_vsubs K [a] k = c01_fv1_op K (c01_sub K) [a] k /\
  c01_vscale K [a] k = c01_fv1_op K (c01_mul K) [a] k /\ c01_fv_muls K [a] k = c01_fv1_op K (c01_mul K) [a] k /\
  c01_fv_smul K k [a] = c01_fv1_op_l K (c01_mul K) k [a] /\
  c01_vdiv K [a] k = match c01_div K a k with Some q => Some [q] | None => None end /\
  c01_fv_divs K [a] k = match c01_div K a k with Some q => Some [q] | None => None end /\
  c01_fv1_op K (c01_add K) [a] k = [c01_add K a k] /\ c01_fv1_op_l K (c01_sub K) k [a] = [c01_sub K k a] /\
  c01_fv1_conv K [a] = a /\ c01_fm11_conv K [[a]] = a /\
  c01_fm11_scalar_r K (c01_add K) [[a]] k = [[c01_add K a k]] /\ c01_fm11_scalar_l K (c01_sub K) k [[a]] = [[c01_sub K k a]] /\
  c01_mv K [[s]] [a] [b] = [c01_add K (c01_O K) (c01_mul K s a)] /\
  c01_umv K [[s]] [a] [b] = [c01_add K b (c01_mul K s a)] /\ c01_umtv K [[s]] [a] [b] = [c01_add K b (c01_mul K s a)] /\
  c01_umhv K [[s]] [a] [b] = [c01_add K b (c01_mul K (c01_conj K s) a)] /\
  c01_mmv K [[s]] [a] [b] = [c01_sub K b (c01_mul K s a)] /\ c01_mmhv K [[s]] [a] [b] = [c01_sub K b (c01_mul K (c01_conj K s) a)] /\
  c01_usmv K al [[s]] [a] [b] = [c01_add K b (c01_mul K (c01_mul K al s) a)] /\
  c01_usmhv K al [[s]] [a] [b] = [c01_add K b (c01_mul K (c01_mul K al (c01_conj K s)) a)].
Proof. exact (P_size1 K). Qed.

(* arithmetic between field types (PromotionTraits): the kernels commute with any homomorphism h of the operation records, so
   promoting the operands (int -> double -> complex) and then applying a kernel is applying it first and promoting the result *)
Theorem C01_kernels_promote : forall (R2 : Type) (K2 : c01_ops R2) (h : R -> R2),
  h (c01_O K) = c01_O K2 -> (forall a b, h (c01_add K a b) = c01_add K2 (h a) (h b)) -> (forall a b, h (c01_mul K a b) = c01_mul K2 (h a) (h b)) ->
  (forall a b, h (c01_sub K a b) = c01_sub K2 (h a) (h b)) -> (forall a, h (c01_conj K a) = c01_conj K2 (h a)) ->
  forall (A : list (list R)) (x y : list R) (alpha : R),
  let A' := map (map h) A in let x' := map h x in let y' := map h y in
  map h (c01_mv K A x y) = c01_mv K2 A' x' y' /\ map h (c01_mtv K A x y) = c01_mtv K2 A' x' y' /\
  map h (c01_umv K A x y) = c01_umv K2 A' x' y' /\ map h (c01_umtv K A x y) = c01_umtv K2 A' x' y' /\
  map h (c01_umhv K A x y) = c01_umhv K2 A' x' y' /\
  map h (c01_mmv K A x y) = c01_mmv K2 A' x' y' /\ map h (c01_mmtv K A x y) = c01_mmtv K2 A' x' y' /\
  map h (c01_mmhv K A x y) = c01_mmhv K2 A' x' y' /\
  map h (c01_usmv K alpha A x y) = c01_usmv K2 (h alpha) A' x' y' /\
  map h (c01_usmtv K alpha A x y) = c01_usmtv K2 (h alpha) A' x' y' /\
  map h (c01_usmhv K alpha A x y) = c01_usmhv K2 (h alpha) A' x' y'.
Proof. exact (fun R2 K2 h => P_kernels_hom K K2 h). Qed.

(* in-place vector operations x op= y (+=, -=, axpy, ...) as transformers of BOTH objects: y comes back unchanged, x componentwise;
   and with both arguments the same object (x += x, x -= x, x.axpy(a,x)) every component still combines with its own old value *)
Theorem C01_vector_inplace_frame : forall (f : R -> R -> R) (x y : list R), length y = length x ->
  c01_vec_inplace_objs K f (C01_VObjs x y) = C01_VObjs (c01s_map2 f x y) y /\
  c01_vec_inplace_self K f x = map (fun a => f a a) x.
Proof.
  exact (fun f x y H => conj (eq_trans (P_vec_inplace_frame K f x y) (f_equal (fun v => C01_VObjs v y) (P_vec_inplace_pointwise K f x y H)))
                             (P_vec_inplace_self K f x)).
Qed.

(* element access (operator[], operator[][], diagonal(i), row proxies): a store changes exactly the addressed entry; resize;
   the pattern of a DiagonalMatrix (exists(i,j)) covers every entry that can be non-zero *)
Theorem C01_access : forall r c (x : list R) (A : list (list R)) i j i' j' v, c01s_wf r c A -> i < length x -> i' < r -> j' < c ->
  c01_at K (c01_upd x i v) j = (if Nat.eqb i j then v else c01_at K x j) /\ length (c01_upd x i v) = length x /\
  c01_get K (c01_set2 A i' j' v) i j = (if Nat.eqb i' i && Nat.eqb j' j then v else c01_get K A i j) /\ c01s_wf r c (c01_set2 A i' j' v).
Proof. exact (P_access K). Qed.
Theorem C01_resize : forall (x : list R) n k r c (v : R),
  (length (c01_resize x n k) = n /\ forall i, i < n -> c01_at K (c01_resize x n k) i = if i <? length x then c01_at K x i else k) /\
  (c01s_wf r c (c01_mresize r c v) /\ forall i j, i < r -> j < c -> c01_get K (c01_mresize r c v) i j = v).
Proof. exact (fun x n k r c v => conj (P_resize K x n k) (P_mresize K r c v)). Qed.
Theorem C01_diagonal_pattern : forall (d : list R) i j, i < length d -> j < length d ->
  c01_get K (c01s_diag K d) i j = if c01_dg_exists i j then c01_at K d i else c01_O K.
Proof. exact (P_dg_pattern K). Qed.

(* vector-space operations, dot products and the matrix product between field types: promote-then-operate = operate-then-promote *)
Theorem C01_operations_promote : forall (R2 : Type) (K2 : c01_ops R2) (h : R -> R2),
  h (c01_O K) = c01_O K2 -> (forall a b, h (c01_add K a b) = c01_add K2 (h a) (h b)) -> (forall a b, h (c01_mul K a b) = c01_mul K2 (h a) (h b)) ->
  (forall a b, h (c01_sub K a b) = c01_sub K2 (h a) (h b)) -> (forall a, h (c01_conj K a) = c01_conj K2 (h a)) ->
  forall (x y : list R) (k : R) r n p (A B : list (list R)),
  (map h (c01_vadd K x y) = c01_vadd K2 (map h x) (map h y) /\ map h (c01_vsub K x y) = c01_vsub K2 (map h x) (map h y) /\
   map h (c01_vscale K x k) = c01_vscale K2 (map h x) (h k) /\ map h (c01_vaxpy K x k y) = c01_vaxpy K2 (map h x) (h k) (map h y) /\
   map h (c01_vadds K x k) = c01_vadds K2 (map h x) (h k) /\
   h (c01_vdotT K x y) = c01_vdotT K2 (map h x) (map h y) /\ h (c01_vdot K x y) = c01_vdot K2 (map h x) (map h y)) /\
  map (map h) (c01_fm_mul K r n p A B) = c01_fm_mul K2 r n p (map (map h) A) (map (map h) B).
Proof.
  exact (fun R2 K2 h H0 Ha Hm Hs Hc x y k r n p A B =>
           conj (P_vector_hom K K2 h H0 Ha Hm Hs Hc x y k) (P_product_hom K K2 h H0 Ha Hm r n p A B)).
Qed.

(* SCALAR VIEWS AS REFERENCE CELLS (a view is the address of a scalar in a store; a copy of a view is an alias; AutonomousValue<View>
   holds the value).  The in-place products as written with the AutonomousValue copy are alias-free for views on distinct scalars:
   the receiver's cell gets the product and no other cell changes ... *)
Theorem C01_view_products_alias_free : forall (st : list R) a m, a < length st -> a <> m ->
  c01_cell_leftmultiply_literal K false st a m = c01_upd st a (c01_mul K (c01_at K st m) (c01_at K st a)) /\
  c01_cell_rightmultiply_literal K false st a m = c01_upd st a (c01_mul K (c01_at K st a) (c01_at K st m)).
Proof. exact (P_cells_autonomous K Rth). Qed.
(* ... whereas a copy declared with the view type (an alias of the receiver's cell) loses the product: the receiver becomes 0 (this is the
   edit `AutonomousValue<MAT> C` -> `const MAT C`); and so do, for the loops as of de29db7, two views of ONE scalar (F-C01-7) *)
Theorem C01_view_products_alias_refuted : forall (st : list R) a m, a < length st ->
  c01_cell_leftmultiply_literal K true st a m = c01_upd st a (c01_O K) /\ c01_cell_rightmultiply_literal K true st a m = c01_upd st a (c01_O K) /\
  c01_cell_leftmultiply_literal K false st a a = c01_upd st a (c01_O K) /\ c01_cell_rightmultiply_literal K false st a a = c01_upd st a (c01_O K).
Proof. exact (fun st a m H => conj (proj1 (P_cells_alias_copy K Rth st a m H)) (conj (proj2 (P_cells_alias_copy K Rth st a m H)) (P_cells_same_scalar_literal K Rth st a H))). Qed.
(* after fix C01-6 (accumulate into the autonomous copy, assign back) the product is right for ANY two cells, equal or not; every cell
   operation changes the receiver's cell only; + - and unary - (after fix C01-7) do not touch the store at all *)
Theorem C01_view_cells : forall (f : R -> R -> R) (st : list R) a m j, a < length st -> j <> a ->
  (c01_cell_leftmultiply K st a m = c01_upd st a (c01_mul K (c01_at K st m) (c01_at K st a)) /\
   c01_cell_rightmultiply K st a m = c01_upd st a (c01_mul K (c01_at K st a) (c01_at K st m))) /\
  (c01_at K (c01_cell_leftmultiply K st a m) j = c01_at K st j /\ c01_at K (c01_cell_rightmultiply K st a m) j = c01_at K st j /\
   c01_at K (c01_cell_inplace K f st a m) j = c01_at K st j /\
   snd (c01_cell_neg K st a) = st /\ snd (c01_cell_binop K f st a m) = st) /\
  (fst (c01_cell_neg_literal K st a) = c01_opp K (c01_at K st a) /\
   snd (c01_cell_neg_literal K st a) = c01_upd st a (c01_opp K (c01_at K st a)) /\ fst (c01_cell_neg K st a) = c01_opp K (c01_at K st a)).
Proof. exact (fun f st a m j Ha Hj => conj (P_cells_fixed K Rth st a m) (conj (P_cells_frame K f st a m j Ha Hj) (P_cells_neg_literal K st a Ha))). Qed.

(* a scalar argument that is an entry of the receiver (x *= x[i0], x.axpy(x[i0], y), A *= A[i][j], usmv(y[i0], x, y) ...; after fix C01-8 the
   scalar is copied before the loop): every component is combined with the OLD value of that entry *)
Theorem C01_scalar_from_receiver : forall (g : nat -> R -> R -> R) (x : list R) i0,
  length (c01_vec_elem K g x i0) = length x /\
  forall i, i < length x -> c01_at K (c01_vec_elem K g x i0) i = g i (c01_at K x i) (c01_at K x i0).
Proof. exact (P_vec_elem K). Qed.
End C01.
Print Assumptions C01_kernels_dense.
Print Assumptions C01_kernels_diag.
Print Assumptions C01_diag_dense_interchangeable.
Print Assumptions C01_vector_space.
Print Assumptions C01_comparison_decides.
Print Assumptions C01_division_is_quotient.
Print Assumptions C01_negation.
Print Assumptions C01_negation_dynamic_default_refuted.
Print Assumptions C01_products.
Print Assumptions C01_products_diag.
Print Assumptions C01_transposed_wrapper.
Print Assumptions C01_matrix_space.
Print Assumptions C01_views.
Print Assumptions C01_products_via_columns.
Print Assumptions C01_conversions.
Print Assumptions C01_matrix_negation.
Print Assumptions C01_matrix_negation_dynamic_default_refuted.
Print Assumptions C01_matrix_comparison.
Print Assumptions C01_assignment.
Print Assumptions C01_norms.
Print Assumptions C01_scalar_division.
Print Assumptions C01_division_loops.
Print Assumptions C01_source_selects_model.
Print Assumptions C01_kernel_frame.
Print Assumptions C01_kernels_on_objects.
Print Assumptions C01_multiply_self.
Print Assumptions C01_transposed_wrapper_diag.
Print Assumptions C01_size1.
Print Assumptions C01_kernels_promote.
Print Assumptions C01_vector_inplace_frame.
Print Assumptions C01_access.
Print Assumptions C01_resize.
Print Assumptions C01_diagonal_pattern.
Print Assumptions C01_operations_promote.
Print Assumptions C01_view_products_alias_free.
Print Assumptions C01_view_products_alias_refuted.
Print Assumptions C01_view_cells.
Print Assumptions C01_scalar_from_receiver.
Print Assumptions C01_assignment_into.
Print Assumptions C01_assignment_into_views.
Print Assumptions C01_assignment_source_zerofill.

(* the hypotheses are satisfiable: the carriers used by the correspondence check satisfy the laws *)
Theorem C01_instance_Z : ring_theory (c01_O c01_Z_ops) (c01_I c01_Z_ops) (c01_add c01_Z_ops) (c01_mul c01_Z_ops) (c01_sub c01_Z_ops) (c01_opp c01_Z_ops) (@eq Z).
Proof. exact P_Z_ring. Qed.
Print Assumptions C01_instance_Z.
Theorem C01_instance_Gaussian :
  ring_theory (c01_O c01_G_ops) (c01_I c01_G_ops) (c01_add c01_G_ops) (c01_mul c01_G_ops) (c01_sub c01_G_ops) (c01_opp c01_G_ops) (@eq (Z * Z)) /\
  c01_conj c01_G_ops (c01_O c01_G_ops) = c01_O c01_G_ops.
Proof. exact (conj P_G_ring P_G_conj_zero). Qed.
Print Assumptions C01_instance_Gaussian.
Theorem C01_instance_Z_div : forall a k q, c01_div c01_Z_ops a k = Some q -> c01_mul c01_Z_ops q k = a.
Proof. exact P_Z_div. Qed.
Print Assumptions C01_instance_Z_div.

Local Open Scope Z_scope.
(* non-vacuity: over the Gaussian integers the Hermitian kernel differs from the transposed one *)
Example C01_umhv_conjugates :
  c01_umhv c01_G_ops [[(1,1);(2,0);(0,3)];[(0,0);(1,-1);(5,0)]] [(1,2);(0,1)] [(0,0);(0,0);(0,0)] = [(3,1);(1,5);(6,2)] /\
  c01_umtv c01_G_ops [[(1,1);(2,0);(0,3)];[(0,0);(1,-1);(5,0)]] [(1,2);(0,1)] [(0,0);(0,0);(0,0)] <> [(3,1);(1,5);(6,2)].
Proof. split; [ vm_compute; reflexivity | vm_compute; discriminate ]. Qed.
Print Assumptions C01_umhv_conjugates.

(* Z mod p on its canonical representatives {x | x mod p = x}: the carrier's operations ARE the model's operations
   (c01_P_ops p, which the extracted model runs on raw integers), they form a commutative ring with decidable equality ... *)
Theorem C01_instance_Zp : forall p (Hp : 0 < p),
  let Kc := c01_Pc_ops p Hp in let M := c01_P_ops p in
  ring_theory (c01_O Kc) (c01_I Kc) (c01_add Kc) (c01_mul Kc) (c01_sub Kc) (c01_opp Kc) (@eq (c01_Zp p)) /\
  (forall a b, c01_eqb Kc a b = true <-> a = b) /\
  (forall a b : c01_Zp p,
     c01_Zp_val (c01_O Kc) = c01_O M /\ c01_Zp_val (c01_I Kc) = c01_I M /\
     c01_Zp_val (c01_add Kc a b) = c01_add M (c01_Zp_val a) (c01_Zp_val b) /\
     c01_Zp_val (c01_mul Kc a b) = c01_mul M (c01_Zp_val a) (c01_Zp_val b) /\
     c01_Zp_val (c01_sub Kc a b) = c01_sub M (c01_Zp_val a) (c01_Zp_val b) /\
     c01_Zp_val (c01_opp Kc a) = c01_opp M (c01_Zp_val a) /\
     c01_Zp_val (c01_conj Kc a) = c01_conj M (c01_Zp_val a) /\
     c01_eqb Kc a b = c01_eqb M (c01_Zp_val a) (c01_Zp_val b)).
Proof. exact (fun p Hp => conj (P_Zp_ring p Hp) (conj (P_Zp_eqb p Hp) (P_Zp_ops_agree p Hp))). Qed.
Print Assumptions C01_instance_Zp.
(* ... for the two primes of the harness a field satisfying the division laws (enumeration of the representatives) ... *)
Theorem C01_instance_Zp_field :
  (c01_div_laws (c01_Pc_ops 7 c01_pos7) /\ c01_div_total (c01_Pc_ops 7 c01_pos7)) /\
  (c01_div_laws (c01_Pc_ops 13 c01_pos13) /\ c01_div_total (c01_Pc_ops 13 c01_pos13)) /\
  c01_div_laws c01_Z_ops.
Proof. exact (conj P_Zp7_field (conj P_Zp13_field P_Z_div_laws)). Qed.
Print Assumptions C01_instance_Zp_field.
(* ... and the kernels on raw canonical integers (the GF(p) stream of the correspondence check) are the images of the kernels
   over the canonical carrier, to which C01_kernels_dense applies *)
Theorem C01_instance_Zp_kernels : forall p (Hp : 0 < p) (A : list (list (c01_Zp p))) (x y : list (c01_Zp p)) (alpha : c01_Zp p),
  let Kc := c01_Pc_ops p Hp in let M := c01_P_ops p in let v := @c01_Zp_val p in
  let A' := map (map v) A in let x' := map v x in let y' := map v y in
  map v (c01_mv Kc A x y) = c01_mv M A' x' y' /\ map v (c01_mtv Kc A x y) = c01_mtv M A' x' y' /\
  map v (c01_umv Kc A x y) = c01_umv M A' x' y' /\ map v (c01_umtv Kc A x y) = c01_umtv M A' x' y' /\
  map v (c01_umhv Kc A x y) = c01_umhv M A' x' y' /\
  map v (c01_mmv Kc A x y) = c01_mmv M A' x' y' /\ map v (c01_mmtv Kc A x y) = c01_mmtv M A' x' y' /\
  map v (c01_mmhv Kc A x y) = c01_mmhv M A' x' y' /\
  map v (c01_usmv Kc alpha A x y) = c01_usmv M (v alpha) A' x' y' /\
  map v (c01_usmtv Kc alpha A x y) = c01_usmtv M (v alpha) A' x' y' /\
  map v (c01_usmhv Kc alpha A x y) = c01_usmhv M (v alpha) A' x' y'.
Proof. exact P_Zp_kernels_transfer. Qed.
Print Assumptions C01_instance_Zp_kernels.

(* the loops as written, called with the matrix itself as the factor, do not compute the square (finding F-C01-6, fixed by C01-5) *)
Theorem C01_multiply_self_literal_refuted :
  exists A : list (list Z), c01s_wf 2 2 A /\
    c01_rightmultiply_self_literal c01_Z_ops A <> c01s_mat_mul c01_Z_ops 2 A A /\
    c01_leftmultiply_self_literal c01_Z_ops A <> c01s_mat_mul c01_Z_ops 2 A A /\
    c01_rightmultiply_self_literal c01_Z_ops A = [[6; 8]; [90; 120]] /\ c01_leftmultiply_self_literal c01_Z_ops A = [[6; 60]; [12; 120]].
Proof. exact P_multiply_self_literal_refuted. Qed.
Print Assumptions C01_multiply_self_literal_refuted.

(* non-vacuity: concrete non-trivial instances of the main statements *)
Example C01_example_objects :
  c01_kernel_objs c01_G_ops (c01_kdesc_of c01_param_dense_usmhv) (2, 1) (C01_Objs [[(1,1);(2,0);(0,3)];[(0,0);(1,-1);(5,0)]] [(1,2);(0,1)] [(1,0);(0,1);(7,7)])
  = C01_Objs [[(1,1);(2,0);(0,3)];[(0,0);(1,-1);(5,0)]] [(1,2);(0,1)] [(6,5);(-3,12);(17,17)].
Proof. vm_compute. reflexivity. Qed.
Example C01_example_division_GF7 :
  c01_vdiv (c01_P_ops 7) (c01_vscale (c01_P_ops 7) [3; 0; 6] 5) 5 = Some [3; 0; 6] /\ c01_vdiv (c01_P_ops 7) [1; 2; 3] 0 = None.
Proof. split; vm_compute; reflexivity. Qed.
Example C01_example_products :
  c01_rightmultiply c01_Z_ops [[1;2;3];[4;5;6]] [[1;0;2];[0;1;0];[3;0;1]] = [[10;2;5];[22;5;14]] /\
  c01_mul_by_transposed c01_Z_ops (c01_mv c01_Z_ops [[1;2;3];[4;5;6]]) 1 2 [[1;0;2]] = [[7;16]] /\
  c01_rightmultiply_self c01_Z_ops [[1;2];[3;4]] = [[7;10];[15;22]].
Proof. repeat split; vm_compute; reflexivity. Qed.

(* the view operator+ / operator- (DenseVector::operator+ instantiated for a ScalarVectorView: the copy `z` is another view of the
   same scalar) return the right value but ALTER the operand: "no operation alters an operand it takes as input only" is refuted for
   this one operation (finding F-C01-4; the check replays it on the implementation) *)
Theorem C01_view_operand_altered_refuted :
  (forall (R : Type) (f : R -> R -> R) (x y : R), fst (c01_view_binop f x y) = f x y /\ (f x y <> x -> snd (c01_view_binop f x y) <> x)) /\
  exists x y : Z, snd (c01_view_binop Z.add x y) <> x.
Proof. exact (conj P_view_binop P_view_binop_refuted). Qed.
Print Assumptions C01_view_operand_altered_refuted.

Example C01_example_view_cells :
  c01_cell_leftmultiply_literal c01_Z_ops true [3; 5] 0 1 = [0; 5] /\ c01_cell_leftmultiply_literal c01_Z_ops false [3; 5] 0 1 = [15; 5] /\
  c01_cell_leftmultiply_literal c01_Z_ops false [3] 0 0 = [0] /\ c01_cell_leftmultiply c01_Z_ops [3] 0 0 = [9] /\
  snd (c01_cell_neg_literal c01_Z_ops [3] 0) = [-3].
Proof. exact P_cells_refuted. Qed.

(* the loops as written before fix C01-8 re-read the scalar through the reference (finding F-C01-8): x *= x[0] on (2,3,4) *)
Theorem C01_scalar_from_receiver_literal_refuted :
  c01_vec_elem_literal c01_Z_ops (fun _ a k => a * k) [2; 3; 4] 0 = [4; 12; 16] /\
  c01_vec_elem c01_Z_ops (fun _ a k => a * k) [2; 3; 4] 0 = [4; 6; 8].
Proof. exact P_vec_elem_literal_refuted. Qed.
Print Assumptions C01_scalar_from_receiver_literal_refuted.

(* ROUND 6: without the leading zero-fill the DiagonalMatrix assigner is right only for targets whose off-diagonal part is already
   zero (fresh objects): FieldMatrix<int,2,2>{{1,2},{3,4}} = DiagonalMatrix{5,6} would keep the 2 and the 3 *)
Theorem C01_assignment_diag_without_zerofill_refuted :
  exists (T0 : list (list Z)) d, c01s_wf (length d) (length d) T0 /\
    c01_assign_diag_into c01_Z_ops false T0 d <> c01s_diag c01_Z_ops d /\
    c01_assign_diag_into c01_Z_ops false (c01_mzero c01_Z_ops 2 2) d = c01s_diag c01_Z_ops d.
Proof. exact P_assign_diag_without_zerofill_refuted. Qed.
Print Assumptions C01_assignment_diag_without_zerofill_refuted.
(* non-vacuity of C01_assignment_into: dirty targets, a DynamicMatrix target of another (ragged) shape *)
Example C01_example_assignment_into :
  c01_assign_diag_into c01_Z_ops true [[1;2];[3;4]] [5;6] = [[5;0];[0;6]] /\
  c01_dm_assign_diag c01_Z_ops true [[1;2;3]; [4]; []; [7;8]] [5;6] = [[5;0];[0;6]] /\
  c01_dm_assign_dense c01_Z_ops [[9;9;9;9]] [[1;2];[3;4];[5;6]] = [[1;2];[3;4];[5;6]] /\
  c01_assign_dense_into c01_Z_ops [[9;8];[7;6]] [[1;2];[3;4]] = [[1;2];[3;4]] /\
  c01_fm_assign_rows c01_Z_ops [[9;8];[7;6]] [[1;2];[3;4]] = [[1;2];[3;4]] /\ c01_mfill [[9;8];[7;6]] 5 = [[5;5];[5;5]] /\
  c01_vassign c01_Z_ops [9;8;7] [1;2;3] = [1;2;3] /\ c01_cell_assign c01_Z_ops [3; 5] 0 1 = [5; 5].
Proof. repeat split; vm_compute; reflexivity. Qed.
