(* C02 — property theorems.  ONLY statements, each closed by `exact <lemma>` and followed by Print Assumptions.
   Model: C02_Model.v (transcription of dune/common/densematrix.hh luDecomposition / solve / invert / determinant,
   fmatrix.hh FMatrixHelp, diagonalmatrix.hh), instantiated with the operations of an ARBITRARY field F (mathcomp
   fieldType) and an ARBITRARY `absreal` function absr : F -> nat with  absr x = 0 <-> x = 0  (so every pivot-choice
   rule of this shape is covered: representative of GF(p), |.| in exact real arithmetic, ...).
   Spec: C02_Spec.v: list matrices read as 'M[F]_n (c02_mx), vectors as 'cV[F]_n (c02_cv); *m, \det, unitmx of mathcomp.
   Division by zero is an explicit result (C02_DivByZero), never a number. *)
From Coq Require Import ZArith.
From mathcomp Require Import all_ssreflect all_algebra.
From DuneV Require Import Params_gen C02_Model C02_Spec C02_Proofs C02_Proofs_Invert C02_Proofs_Closed C02_Proofs_Diag C02_Proofs_NoPivot C02_Proofs_Audit C02_Proofs_Deep C02_Proofs_Prin C02_Proofs_Limit C02_Proofs_Alias C02_Proofs_Scale.
Import GRing.Theory.
Local Open Scope ring_scope.

Section Statements.
Variable F : fieldType.
Variable absr : F -> nat.
Hypothesis absr0 : forall x, (absr x == 0%N) = (x == 0).
Notation ops := (c02_fops absr).
Notation mx := (c02_mx absr).
Notation cv := (c02_cv absr).

(* EVERY size n >= 1 (closed forms n <= 3 and LU path n >= 4), every pivot pattern, pivoting on or off:
   whatever solve returns as a solution IS a solution of A x = b *)
Theorem C02_solve_sound : forall n A b piv x, (0 < n)%N -> c02_wfm n A -> c02_wfv n b ->
  c02_solve ops A b piv = C02_Ok x -> c02_wfv n x /\ mx n A *m cv n x = cv n b.
Proof. exact (solve_sound absr0). Qed.

(* every n >= 1: nonsingular + pivoting => a solution is returned (no FMatrixError, no division by zero);
   with C02_solve_sound: solve A b true = Ok x and A x = b *)
Theorem C02_solve_pivot : forall n A b, (0 < n)%N -> c02_wfm n A -> c02_wfv n b -> mx n A \in unitmx ->
  exists x, c02_solve ops A b true = C02_Ok x.
Proof. exact (solve_complete absr0). Qed.

(* every n >= 1, pivoting on or off: whatever invert leaves is a two-sided inverse *)
Theorem C02_invert_sound : forall n A piv B, (0 < n)%N -> c02_wfm n A ->
  c02_invert ops A piv = C02_Ok B -> mx n A *m mx n B = 1%:M /\ mx n B *m mx n A = 1%:M.
Proof. exact (invert_sound absr0). Qed.

(* every n >= 1: nonsingular + pivoting => invert succeeds with A*B = B*A = 1
   (n >= 4: ElimPivot, P*A = L*U read off the stored factors, both triangular solves, column un-permutation) *)
Theorem C02_invert : forall n A, (0 < n)%N -> c02_wfm n A -> mx n A \in unitmx ->
  exists B, [/\ c02_invert ops A true = C02_Ok B, mx n A *m mx n B = 1%:M & mx n B *m mx n A = 1%:M].
Proof. exact (invert_complete absr0). Qed.

(* every n >= 1: determinant with pivoting is \det for EVERY matrix (singular ones: 0) *)
Theorem C02_det : forall n A, (0 < n)%N -> c02_wfm n A -> c02_determinant ops A true = C02_Ok (\det (mx n A)).
Proof. exact (det_pivot absr0). Qed.

(* closed forms n <= 3 ignore the pivoting flag *)
Theorem C02_det_closed : forall n A piv, (0 < n <= 3)%N -> c02_wfm n A ->
  c02_determinant ops A piv = C02_Ok (\det (mx n A)).
Proof. exact (@det_closed F absr). Qed.

(* singular, n >= 4 => FMatrixError from solve and invert, with and without pivoting (determinant 0: C02_det) *)
Theorem C02_singular_solve : forall n A b piv, (3 < n)%N -> c02_wfm n A -> c02_wfv n b -> mx n A \notin unitmx ->
  c02_solve ops A b piv = C02_FMatrixError.
Proof. exact (P_solve_lu_singular absr0). Qed.
Theorem C02_singular_invert : forall n A piv, (3 < n)%N -> c02_wfm n A -> mx n A \notin unitmx ->
  c02_invert ops A piv = C02_FMatrixError.
Proof. exact (P_invert_lu_singular absr0). Qed.

(* ---- doPivoting = false: "whenever the unpivoted elimination is defined".
   lead k M (C02_Proofs_NoPivot.lead) is M with everything outside its leading k x k block replaced by the identity, so
   \det (lead k M) is the leading principal minor of order k;  minors_nz m M := forall k, 0 < k < m -> \det (lead k M) != 0.
   determinant needs the minors of order < n (a zero LAST pivot is a singular matrix and yields 0 = \det A),
   solve / invert need all of them (order n is \det A itself).
   The converse holds too (C02_solve_nopivot_iff, C02_invert_nopivot_iff: for n >= 4 the unpivoted calls succeed IF AND ONLY IF the
   minors are non-zero), and \det (lead k M) is the determinant of the k x k submatrix of the first k rows and columns
   (C02_lead_is_principal_minor). *)
Theorem C02_det_nopivot : forall n A, (0 < n)%N -> c02_wfm n A -> minors_nz n (mx n A) ->
  c02_determinant ops A false = C02_Ok (\det (mx n A)).
Proof. exact (P_det_nopivot absr0). Qed.
Theorem C02_solve_nopivot : forall n A b, (0 < n)%N -> c02_wfm n A -> c02_wfv n b -> minors_nz n.+1 (mx n A) ->
  exists x, c02_solve ops A b false = C02_Ok x /\ mx n A *m cv n x = cv n b.
Proof. exact (P_solve_nopivot absr0). Qed.
Theorem C02_invert_nopivot : forall n A, (0 < n)%N -> c02_wfm n A -> minors_nz n.+1 (mx n A) ->
  exists B, [/\ c02_invert ops A false = C02_Ok B, mx n A *m mx n B = 1%:M & mx n B *m mx n A = 1%:M].
Proof. exact (P_invert_nopivot absr0). Qed.

(* ---- FMatrixHelp::invertMatrix (tr = false) / invertMatrix_retTransposed (tr = true), n = 1,2,3:
   returns \det A and the inverse (resp. the transposed inverse); succeeds on every nonsingular matrix *)
Theorem C02_help_invert : forall n A tr d B, (0 < n <= 3)%N -> c02_wfm n A ->
  c02_help_invert ops A tr = C02_Ok (d, B) ->
  let Binv := if tr then (mx n B)^T else mx n B in
  [/\ d = \det (mx n A), mx n A *m Binv = 1%:M & Binv *m mx n A = 1%:M].
Proof. exact (@help_invert_sound F absr). Qed.
Theorem C02_help_invert_complete : forall n A tr, (0 < n <= 3)%N -> c02_wfm n A -> mx n A \in unitmx ->
  exists d B, c02_help_invert ops A tr = C02_Ok (d, B).
Proof. exact (@help_invert_complete F absr). Qed.

(* ---- DiagonalMatrix<K,n> with diagonal d (a list of length n >= 1): dmx n d = diag_mx d, which is also the dense
   list matrix c02_diag_dense d the DiagonalMatrix stands for.  Its solve / invert / determinant are those of diag_mx d. *)
Theorem C02_diag_dense : forall d, mx (size d) (c02_diag_dense ops d) = dmx absr (size d) d.
Proof. exact (@diag_dense_mx F absr). Qed.
Theorem C02_diag_solve : forall d b x, size b = size d -> c02_diag_solve ops d b = Some x ->
  size x = size d /\ dmx absr (size d) d *m cv (size d) x = cv (size d) b.
Proof. exact (@diag_solve_sound F absr). Qed.
Theorem C02_diag_invert : forall d e, c02_diag_invert ops d = Some e ->
  size e = size d /\ dmx absr (size d) d *m dmx absr (size d) e = 1%:M /\ dmx absr (size d) e *m dmx absr (size d) d = 1%:M.
Proof. exact (@diag_invert_sound F absr). Qed.
Theorem C02_diag_complete : forall d b, size b = size d -> dmx absr (size d) d \in unitmx ->
  (exists x, c02_diag_solve ops d b = Some x) /\ (exists e, c02_diag_invert ops d = Some e).
Proof. exact (@diag_total F absr). Qed.
Theorem C02_diag_det : forall d, (0 < size d)%N -> c02_diag_det ops d = \det (dmx absr (size d) d).
Proof. exact (@diag_det F absr). Qed.

(* ---- multi-step histories on one object (op seq of the correspondence check): A.invert(); A.invert() restores A,
   and the determinant of the inverse is the inverse of the determinant; any pivot modes *)
Theorem C02_invert_twice : forall n A p q B C, (0 < n)%N -> c02_wfm n A ->
  c02_invert ops A p = C02_Ok B -> c02_invert ops B q = C02_Ok C ->
  mx n C = mx n A /\ \det (mx n B) * \det (mx n A) = 1.
Proof. exact (invert_twice absr0). Qed.

(* ---- the build with DUNE_FMatrix_WITH_CHECKING (c02_solve_chk / c02_invert_chk, the code as it is: solve tests the
   determinant for n = 1, 2, 3, invert for n = 1, 2 only; this optional mode for n <= 3 is OUTSIDE property C02 and is not
   judged by the check): a singular matrix is reported by solve for every n >= 1 and by invert for every n except 3,
   and nothing changes for nonsingular matrices *)
Theorem C02_checked_singular : forall n A b piv, (0 < n)%N -> c02_wfm n A -> c02_wfv n b -> mx n A \notin unitmx ->
  c02_solve_chk ops A b piv = C02_FMatrixError /\ (n != 3%N -> c02_invert_chk ops A piv = C02_FMatrixError).
Proof. exact (checked_singular absr0). Qed.
Theorem C02_checked_regular : forall n A b piv, (0 < n)%N -> c02_wfm n A -> mx n A \in unitmx ->
  c02_solve_chk ops A b piv = c02_solve ops A b piv /\ c02_invert_chk ops A piv = c02_invert ops A piv.
Proof. exact (checked_regular absr0). Qed.

(* ---- deepening round *)
(* singular, n >= 4: determinant returns zero with AND without pivoting *)
Theorem C02_singular_det : forall n A piv, (3 < n)%N -> c02_wfm n A -> mx n A \notin unitmx ->
  c02_determinant ops A piv = C02_Ok 0.
Proof. exact (P_det_singular absr0). Qed.

(* n >= 4: no call ever divides by zero, for every matrix and both pivoting modes (the result is Ok or FMatrixError) *)
Theorem C02_lu_never_divides_by_zero : forall n A b piv, (3 < n)%N -> c02_wfm n A -> c02_wfv n b ->
  [/\ c02_solve ops A b piv <> C02_DivByZero, c02_invert ops A piv <> C02_DivByZero
    & c02_determinant ops A piv <> C02_DivByZero].
Proof. exact (P_lu_no_divbyzero absr0). Qed.

(* n <= 3 (closed forms, no DUNE_FMatrix_WITH_CHECKING): the only failure is the division by the zero determinant,
   and it happens IF AND ONLY IF A is singular — which is why the property claims FMatrixError only for n >= 4 *)
Theorem C02_closed_divbyzero_iff : forall n A b piv, (0 < n <= 3)%N -> c02_wfm n A -> c02_wfv n b ->
  [/\ (c02_solve ops A b piv = C02_DivByZero) <-> (\det (mx n A) = 0),
      (c02_invert ops A piv = C02_DivByZero) <-> (\det (mx n A) = 0),
      c02_solve ops A b piv <> C02_FMatrixError & c02_invert ops A piv <> C02_FMatrixError].
Proof. exact (@closed_divbyzero_iff F absr). Qed.

(* "whenever the unpivoted elimination is defined", both directions, n >= 4 *)
Theorem C02_solve_nopivot_iff : forall n A b, (3 < n)%N -> c02_wfm n A -> c02_wfv n b ->
  (exists x, c02_solve ops A b false = C02_Ok x) <-> minors_nz n.+1 (mx n A).
Proof. exact (P_solve_nopivot_iff absr0). Qed.
Theorem C02_invert_nopivot_iff : forall n A, (3 < n)%N -> c02_wfm n A ->
  (exists B, c02_invert ops A false = C02_Ok B) <-> minors_nz n.+1 (mx n A).
Proof. exact (P_invert_nopivot_iff absr0). Qed.
Theorem C02_lead_is_principal_minor : forall n k (Hk : (k <= n)%N) (M : 'M[F]_n),
  \det (lead k M) = \det (\matrix_(i < k, j < k) M (widen_ord Hk i) (widen_ord Hk j)).
Proof. exact (@lead_prin F). Qed.

(* what luDecomposition with ElimPivot leaves (compared with the C++ objects by the deep stream): the packed matrix holds
   a unit lower triangular L (Lv: entries below the diagonal) and an upper triangular U (Uv) with non-zero diagonal, and
   L * U = P * A for the row permutation P = P_{n-1} ... P_0 recorded in the pivot vector (PP); both pivoting modes *)
Theorem C02_lu_factorisation : forall n A piv LU pivot, c02_wfm n A ->
  c02_lu ops (c02_ElimPivot F) n piv A (iota 0 n) = C02_LU_Ok (LU, pivot) ->
  [/\ Lv absr n n LU *m Uv absr n n LU = PP F n pivot n *m mx n A,
      forall k, (k < n)%N -> c02_get ops LU k k != 0
    & forall k, (k < n)%N -> (nth 0%N pivot k < n)%N].
Proof. exact (lu_factorisation absr0). Qed.

(* rows != cols (DynamicMatrix, FieldMatrix<K,r,c>): every call reports FMatrixError *)
Theorem C02_nonsquare : forall A b piv, c02_rows A != c02_cols A ->
  [/\ c02_solve ops A b piv = C02_FMatrixError, c02_invert ops A piv = C02_FMatrixError
    & c02_determinant ops A piv = C02_FMatrixError].
Proof. exact (@nonsquare F absr). Qed.

(* the calls with the DEFAULT argument (solve(x,b), invert(), determinant()): the defaults are re-read from the declarations in
   densematrix.hh into Params_gen.v on every run; with the values found there the calls pivot, hence for nonsingular A: *)
Theorem C02_default_arguments : forall n A b, (0 < n)%N -> c02_wfm n A -> c02_wfv n b -> mx n A \in unitmx ->
  [/\ exists x, c02_solve_dflt ops A b = C02_Ok x /\ mx n A *m cv n x = cv n b,
      exists B, [/\ c02_invert_dflt ops A = C02_Ok B, mx n A *m mx n B = 1%:M & mx n B *m mx n A = 1%:M]
    & c02_determinant_dflt ops A = C02_Ok (\det (mx n A))].
Proof. exact (defaults absr0). Qed.

(* "solve and determinant never modify A or b": the objects after a call (c02_call_*: const members working on a copy);
   invert() replaces the matrix by its two-sided inverse, and after ANY exception leaves it as it was *)
Theorem C02_objects_after : forall n (o : c02_objs F) piv, (0 < n)%N -> c02_wfm n (ob_A o) ->
  [/\ (c02_call_solve ops o piv).2 = o, (c02_call_determinant ops o piv).2 = o
    & match c02_call_invert ops o piv with
      | (C02_Ok _, o') => ob_b o' = ob_b o /\ mx n (ob_A o) *m mx n (ob_A o') = 1%:M /\ mx n (ob_A o') *m mx n (ob_A o) = 1%:M
      | (_, o') => o' = o
      end].
Proof. exact (objects_after absr0). Qed.

(* ---- aliasing: A.solve(x, x), the right-hand side IS the result vector; c02_solve_aliased is THE CODE AS IT IS.
   For every size except 2 and 3 the call is the plain solve (so C02_solve_sound / C02_solve_pivot apply to it);
   for n = 2 and n = 3 it is REFUTED below (C02_solve_aliased_refuted, known finding F-C02-3, fixes/C02-2.patch — the
   patched code is c02_solve itself). *)
Theorem C02_solve_aliased_same : forall (A : seq (seq F)) b piv, c02_rows A != 2%N -> c02_rows A != 3%N ->
  c02_solve_aliased ops A b piv = c02_solve ops A b piv.
Proof. exact (@solve_aliased_same F absr). Qed.

(* ---- round 6, the MAGNITUDE dimension: scaling laws.  A' = diag(r) * A * diag(s) (c02_scale2: the transformation applied by the
   magnitude stream of the correspondence check, there with powers of two) with non-zero r, s; dg n r = diag_mx r; every size n >= 1
   (closed forms and LU path), every field, every absreal with the zero law, pivoting on AND off.  The OUTCOME CLASS is invariant
   (in particular for n >= 4: FMatrixError for A' iff FMatrixError for A; a regular matrix is never reported singular because
   its entries are small) and the results are the exactly rescaled ones:
     solve:  x = diag(s) x'   where A x = b, A' x' = diag(r) b;      invert:  A^-1 = diag(s) A'^-1 diag(r);
     determinant:  det A' = prod r * det A * prod s. *)
Theorem C02_scaling_regular : forall n r s A, nzs n r -> nzs n s ->
  (mx n (c02_scale2 ops n r s A) \in unitmx) = (mx n A \in unitmx).
Proof. exact (@scale_unit F absr). Qed.
Theorem C02_scaling_solve : forall n A b b' r s piv, (0 < n)%N -> c02_wfm n A -> c02_wfv n b -> c02_wfv n b' ->
  nzs n r -> nzs n s -> cv n b' = dg n r *m cv n b ->
  match c02_solve ops A b piv, c02_solve ops (c02_scale2 ops n r s A) b' piv with
  | C02_Ok x, C02_Ok x' => cv n x = dg n s *m cv n x'
  | C02_FMatrixError, C02_FMatrixError => True
  | C02_DivByZero, C02_DivByZero => True
  | _, _ => False
  end.
Proof. exact (scaling_solve absr0). Qed.
Theorem C02_scaling_invert : forall n A r s piv, (0 < n)%N -> c02_wfm n A -> nzs n r -> nzs n s ->
  match c02_invert ops A piv, c02_invert ops (c02_scale2 ops n r s A) piv with
  | C02_Ok B, C02_Ok B' => mx n B = dg n s *m mx n B' *m dg n r
  | C02_FMatrixError, C02_FMatrixError => True
  | C02_DivByZero, C02_DivByZero => True
  | _, _ => False
  end.
Proof. exact (scaling_invert absr0). Qed.
(* determinant, whenever the elimination that is asked for is defined (pivoting, or closed form, or non-zero leading minors) *)
Theorem C02_scaling_det : forall n A r s (piv : bool), (0 < n)%N -> c02_wfm n A -> nzs n r -> nzs n s ->
  [\/ piv, (n <= 3)%N | minors_nz n (mx n A)] ->
  c02_determinant ops A piv = C02_Ok (\det (mx n A)) /\
  c02_determinant ops (c02_scale2 ops n r s A) piv
    = C02_Ok ((\prod_(i < n) nth 0 r i) * \det (mx n A) * (\prod_(i < n) nth 0 s i)).
Proof. exact (scaling_det absr0). Qed.
(* the scalar multiple c*A (c02_scale), same right-hand side:  singular(c*A) <-> singular(A),  solve(c*A, b) = c^-1 solve(A, b),
   invert(c*A) = c^-1 invert(A),  det(c*A) = c^n det(A) *)
Theorem C02_scaling_scalar : forall n A b c (piv : bool), (0 < n)%N -> c02_wfm n A -> c02_wfv n b -> c != 0 ->
  [/\ (mx n (c02_scale ops n c A) \in unitmx) = (mx n A \in unitmx),
      match c02_solve ops A b piv, c02_solve ops (c02_scale ops n c A) b piv with
      | C02_Ok x, C02_Ok x' => cv n x' = c^-1 *: cv n x
      | C02_FMatrixError, C02_FMatrixError => True
      | C02_DivByZero, C02_DivByZero => True
      | _, _ => False
      end,
      match c02_invert ops A piv, c02_invert ops (c02_scale ops n c A) piv with
      | C02_Ok B, C02_Ok B' => mx n B' = c^-1 *: mx n B
      | C02_FMatrixError, C02_FMatrixError => True
      | C02_DivByZero, C02_DivByZero => True
      | _, _ => False
      end
    & [\/ piv, (n <= 3)%N | minors_nz n (mx n A)] ->
      c02_determinant ops (c02_scale ops n c A) piv = C02_Ok (c ^+ n * \det (mx n A))].
Proof. exact (scaling_scalar absr0). Qed.

End Statements.

Print Assumptions C02_solve_sound.
Print Assumptions C02_solve_pivot.
Print Assumptions C02_invert_sound.
Print Assumptions C02_invert.
Print Assumptions C02_det.
Print Assumptions C02_det_closed.
Print Assumptions C02_singular_solve.
Print Assumptions C02_singular_invert.
Print Assumptions C02_det_nopivot.
Print Assumptions C02_solve_nopivot.
Print Assumptions C02_invert_nopivot.
Print Assumptions C02_help_invert.
Print Assumptions C02_help_invert_complete.
Print Assumptions C02_diag_dense.
Print Assumptions C02_diag_solve.
Print Assumptions C02_diag_invert.
Print Assumptions C02_diag_complete.
Print Assumptions C02_diag_det.
Print Assumptions C02_singular_det.
Print Assumptions C02_lu_never_divides_by_zero.
Print Assumptions C02_closed_divbyzero_iff.
Print Assumptions C02_solve_nopivot_iff.
Print Assumptions C02_invert_nopivot_iff.
Print Assumptions C02_lead_is_principal_minor.
Print Assumptions C02_lu_factorisation.
Print Assumptions C02_nonsquare.
Print Assumptions C02_default_arguments.
Print Assumptions C02_objects_after.
Print Assumptions C02_solve_aliased_same.
Print Assumptions C02_invert_twice.
Print Assumptions C02_checked_singular.
Print Assumptions C02_checked_regular.
Print Assumptions C02_scaling_regular.
Print Assumptions C02_scaling_solve.
Print Assumptions C02_scaling_invert.
Print Assumptions C02_scaling_det.
Print Assumptions C02_scaling_scalar.

(* the threshold of the optional checking mode: with the default limit of precision.hh (Params_gen.v) the test
   representative < limit is the zero test on natural-number representatives (how c02_fops reads [oabslim]) *)
Theorem C02_limit_reading : forall r : nat, c02_zp_abslim (BinInt.Z.of_nat r) = Nat.eqb r 0.
Proof. exact limit_reading. Qed.
Print Assumptions C02_limit_reading.

(* round 6: the per-step singularity test of luDecomposition, RE-READ from densematrix.hh on every run (comparison token and
   threshold: Params_gen.c02_param_lu_sing_cmp / _thr), at the rational instance c02_q of the model (the instance in which
   magnitudes exist, run against double / long double / float / complex<double> by the magnitude stream): the pivot test is
   `= 0` and nothing else.  Any threshold (e.g. FMatrixPrecision<>::absolute_limit()) makes this theorem fail. *)
Theorem C02_lu_pivot_test_is_zero_test : forall x : QArith_base.Q, oabsz c02_q x = QArith_base.Qeq_bool x (QArith_base.Qmake (Z.of_nat 0) (Pos.of_nat 1)).
Proof. exact q_pivot_test_zero. Qed.
Print Assumptions C02_lu_pivot_test_is_zero_test.

(* ---- non-vacuity: the hypotheses are satisfiable by non-trivial values.  'F_7 with absr = representative. *)
Definition c02_ex_abs7 (x : 'F_7) : nat := x.
Lemma c02_ex_abs7_0 : forall x : 'F_7, (c02_ex_abs7 x == 0%N) = (x == 0).
Proof. by []. Qed.
Definition c02_ex_m (l : seq (seq nat)) : seq (seq 'F_7) := map (map (fun k => k%:R)) l.
Definition c02_ex_v (l : seq nat) : seq 'F_7 := map (fun k => k%:R) l.
Definition c02_ex_A := c02_ex_m [:: [:: 0; 1; 2; 3]; [:: 1; 0; 3; 4]; [:: 2; 2; 0; 1]; [:: 5; 1; 1; 0]]%N.
Definition c02_ex_S := c02_ex_m [:: [:: 1; 1; 1; 1]; [:: 1; 1; 1; 1]; [:: 2; 2; 0; 1]; [:: 5; 1; 1; 0]]%N.
(* observations as natural numbers (representatives), so that vm_compute decides the equalities *)
Definition c02_ex_obsv (r : c02_res (seq 'F_7)) : c02_res (seq nat) :=
  match r with C02_Ok x => C02_Ok (map (@nat_of_ord _) x) | C02_FMatrixError => C02_FMatrixError | C02_DivByZero => C02_DivByZero end.
Definition c02_ex_obs1 (r : c02_res 'F_7) : c02_res nat :=
  match r with C02_Ok x => C02_Ok (nat_of_ord x) | C02_FMatrixError => C02_FMatrixError | C02_DivByZero => C02_DivByZero end.

(* a 4x4 system over 'F_7 whose elimination needs two row swaps (pivot vector 3 1 3 3), solved by the model *)
Example C02_ex_solve_F7 :
  c02_wfm 4 c02_ex_A /\ c02_wfv 4 (c02_ex_v [:: 1; 2; 3; 4]%N) /\
  c02_ex_obsv (c02_solve (c02_fops c02_ex_abs7) c02_ex_A (c02_ex_v [:: 1; 2; 3; 4]%N) true) = C02_Ok [:: 1; 0; 6; 1]%N.
Proof. by vm_compute. Qed.
(* a singular 4x4: FMatrixError from solve, 0 from determinant *)
Example C02_ex_singular_F7 :
  c02_ex_obsv (c02_solve (c02_fops c02_ex_abs7) c02_ex_S (c02_ex_v [:: 1; 1; 1; 1]%N) true) = C02_FMatrixError /\
  c02_ex_obs1 (c02_determinant (c02_fops c02_ex_abs7) c02_ex_S true) = C02_Ok 0%N.
Proof. by vm_compute. Qed.
(* the unpivoted elimination of c02_ex_A is undefined (zero first pivot): FMatrixError although A is regular (det 6) *)
Example C02_ex_nopivot_undefined_F7 :
  c02_ex_obsv (c02_solve (c02_fops c02_ex_abs7) c02_ex_A (c02_ex_v [:: 1; 2; 3; 4]%N) false) = C02_FMatrixError /\
  c02_ex_obs1 (c02_determinant (c02_fops c02_ex_abs7) c02_ex_A true) = C02_Ok 6%N.
Proof. by vm_compute. Qed.
(* invert of the same 4x4 (two row swaps, hence a non-trivial column un-permutation) *)
Definition c02_ex_obsm (r : c02_res (seq (seq 'F_7))) : c02_res (seq (seq nat)) :=
  match r with C02_Ok x => C02_Ok (map (map (@nat_of_ord _)) x) | C02_FMatrixError => C02_FMatrixError | C02_DivByZero => C02_DivByZero end.
Example C02_ex_invert_F7 :
  c02_ex_obsm (c02_invert (c02_fops c02_ex_abs7) c02_ex_A true)
  = C02_Ok [:: [:: 3; 0; 5; 1]; [:: 1; 5; 5; 4]; [:: 5; 2; 5; 6]; [:: 6; 4; 2; 4]]%N.
Proof. by vm_compute. Qed.
(* a matrix whose leading principal minors are all 1: the unpivoted elimination is defined *)
Definition c02_ex_T := c02_ex_m [:: [:: 1; 1; 0; 0]; [:: 1; 2; 1; 0]; [:: 0; 1; 2; 1]; [:: 0; 0; 1; 2]]%N.
Example C02_ex_nopivot_defined_F7 :
  c02_ex_obs1 (c02_determinant (c02_fops c02_ex_abs7) c02_ex_T false) = C02_Ok 1%N /\
  c02_ex_obsv (c02_solve (c02_fops c02_ex_abs7) c02_ex_T (c02_ex_v [:: 1; 2; 3; 4]%N) false) = C02_Ok [:: 0; 1; 0; 2]%N.
Proof. by vm_compute. Qed.
(* singular 4x4 without pivoting: determinant 0; a 2x3 matrix: FMatrixError; default-argument calls pivot *)
Example C02_ex_deepening_F7 :
  [/\ c02_ex_obs1 (c02_determinant (c02_fops c02_ex_abs7) c02_ex_S false) = C02_Ok 0%N,
      c02_ex_obs1 (c02_determinant (c02_fops c02_ex_abs7) (c02_ex_m [:: [:: 1; 2; 3]; [:: 4; 5; 6]]%N) true) = C02_FMatrixError
    & c02_ex_obsv (c02_solve_dflt (c02_fops c02_ex_abs7) c02_ex_A (c02_ex_v [:: 1; 2; 3; 4]%N)) = C02_Ok [:: 1; 0; 6; 1]%N].
Proof. by vm_compute. Qed.
(* REFUTED for n = 2, 3: with x aliasing b the code as it is does not return the solution.  Over 'F_7:
   A = [[1,2],[3,5]], b = (1,1): the solution is (4,2) (c02_solve, proved correct), the aliased call gives (4,4);
   A = [[1,2,0],[3,5,1],[0,1,1]], b = (1,2,3): (4,2,1) versus (4,3,4).  Replayed on the C++ code by cases
   `7 F solvealias 2 1 1 2 3 5 1 1` and `7 F solvealias 3 1 1 2 0 3 5 1 0 1 1 1 2 3` (corpus). *)
Theorem C02_solve_aliased_refuted :
  exists A b, c02_wfm 2 A /\ c02_ex_obsv (c02_solve (c02_fops c02_ex_abs7) A b true) = C02_Ok [:: 4; 2]%N
              /\ c02_ex_obsv (c02_solve_aliased (c02_fops c02_ex_abs7) A b true) = C02_Ok [:: 4; 4]%N.
Proof. by exists (c02_ex_m [:: [:: 1; 2]; [:: 3; 5]]%N), (c02_ex_v [:: 1; 1]%N); vm_compute. Qed.
Example C02_ex_solve_aliased3_F7 :
  c02_ex_obsv (c02_solve (c02_fops c02_ex_abs7) (c02_ex_m [:: [:: 1; 2; 0]; [:: 3; 5; 1]; [:: 0; 1; 1]]%N) (c02_ex_v [:: 1; 2; 3]%N) true) = C02_Ok [:: 4; 2; 1]%N /\
  c02_ex_obsv (c02_solve_aliased (c02_fops c02_ex_abs7) (c02_ex_m [:: [:: 1; 2; 0]; [:: 3; 5; 1]; [:: 0; 1; 1]]%N) (c02_ex_v [:: 1; 2; 3]%N) true) = C02_Ok [:: 4; 3; 4]%N.
Proof. by vm_compute. Qed.
(* the instance run by the correspondence check (integers mod 7) computes the same on this input *)
Example C02_ex_solve_zp7 :
  match c02_solve (c02_zp (Z.of_nat 7)) (map (map Z.of_nat) [:: [:: 0; 1; 2; 3]; [:: 1; 0; 3; 4]; [:: 2; 2; 0; 1]; [:: 5; 1; 1; 0]]%N)
                  (map Z.of_nat [:: 1; 2; 3; 4]%N) true with
  | C02_Ok x => map Z.to_nat x = [:: 1; 0; 6; 1]%N
  | _ => False
  end.
Proof. by vm_compute. Qed.

(* round 6: a perfectly conditioned 4x4 with tiny entries (2^-300 * A, A with two row swaps, det A = -22) at the rational instance: solve / invert succeed, the determinant is 2^-1200 * det A, and the results
   are those of A rescaled; the scaled unit-upper-triangular example diag-scaled by (2^-300, 1, 1, 2^300) has determinant 1. *)
Definition c02_ex_qm (l : seq (seq nat)) : seq (seq QArith_base.Q) := map (map (fun k => QArith_base.inject_Z (Z.of_nat k))) l.
Definition c02_ex_QA := c02_ex_qm [:: [:: 0; 1; 2; 3]; [:: 1; 0; 3; 4]; [:: 2; 2; 0; 1]; [:: 5; 1; 1; 0]]%N.
Definition c02_ex_tiny : QArith_base.Q := QArith_base.Qmake (Z.of_nat 1) (Pos.pow (Pos.of_nat 2) (Pos.of_nat 300)).
Definition c02_ex_huge : QArith_base.Q := QArith_base.inject_Z (Z.pow (Z.of_nat 2) (Z.of_nat 300)).
Definition c02_ex_qb := map (fun k => QArith_base.inject_Z (Z.of_nat k)) [:: 1; 2; 3; 4]%N.
Example C02_ex_tiny_entries_Q :
  match c02_solve c02_q c02_ex_QA c02_ex_qb true, c02_solve c02_q (c02_scale c02_q 4 c02_ex_tiny c02_ex_QA) c02_ex_qb true with
  | C02_Ok x, C02_Ok x' => x' = map (fun v => QArith_base.Qmult c02_ex_huge v) x /\ size x = 4%N
  | _, _ => False
  end /\
  c02_determinant c02_q (c02_scale c02_q 4 c02_ex_tiny c02_ex_QA) true
    = C02_Ok (QArith_base.Qmake (Z.opp (Z.of_nat 11)) (Pos.pow (Pos.of_nat 2) (Pos.of_nat 1199))) /\
  c02_determinant c02_q (c02_scale2 c02_q 4 (nseq 4 (QArith_base.inject_Z (Z.of_nat 1))) [:: c02_ex_tiny; QArith_base.inject_Z (Z.of_nat 1); QArith_base.inject_Z (Z.of_nat 1); c02_ex_huge]
                          (c02_ex_qm [:: [:: 1; 2; 3; 1]; [:: 0; 1; 1; 2]; [:: 0; 0; 1; 3]; [:: 0; 0; 0; 1]]%N)) true
    = C02_Ok (QArith_base.inject_Z (Z.of_nat 1)) /\
  oabsz c02_q c02_ex_tiny = false.
Proof. by vm_compute. Qed.
