(* C03 property theorems: ONLY statements closed by `exact`, each followed by Print Assumptions,
   plus non-vacuity Examples.  Model: C03_Model.v (chk = checks under #ifndef NDEBUG compiled in;
   legacy = false: the code after fix C03-1, legacy = true: the `probe==-1` test before it).
   Spec: C03_Spec.v (key-sorted list as finite map, set' = sort(new ++ not-deleted old), linear finds). *)
From Coq Require Import List ZArith NArith Bool Permutation Sorted.
From DuneV Require Import C03_Params C03_Model C03_Spec C03_Proofs C03_Proofs_Audit2.
Import ListNotations.
Local Open Scope Z_scope.

(* ---- the model refines the spec machine: ALL histories (wrong-state calls included), checking enabled.
   `c03_defined`: the spec never reports undefined behaviour of the C++ (operator[] of an absent index,
   markAsDeleted(end()), reverse table overrun); 2^30 bounds the size of the set (the binary search uses int). *)
Theorem C03_refines_spec : forall ops : list c03_op,
  Z.of_nat (c03_adds ops) <= 2 ^ 30 -> c03_defined ops = true ->
  snd (c03_run true false c03_init ops) = snd (c03_spec_run c03s_init ops).
Proof. exact c03_refines_spec_lemma. Qed.
Print Assumptions C03_refines_spec.

Example C03_refines_spec_nonvacuous :
  let ops := [C03Begin; C03Add 7 0 0 true; C03Add 3 1 1 false; C03Add 7 2 1 true; C03End; C03Iterate; C03Exists 7;
              C03Begin; C03MarkDeleted 1; C03Add 5 3 0 true; C03Add 9 9 0 true; C03End; C03Add 1 1 1 true; C03Iterate; C03At 7; C03At 4;
              C03Get 3; C03Renumber; C03Reverse 1; C03SeqNo] in
  c03_defined ops = true /\
  snd (c03_spec_run c03s_init ops) =
    [C03Ok; C03Ok; C03Ok; C03Ok; C03Ok;
     C03List [C03Pair 3 1 1 false false; C03Pair 7 0 0 true false; C03Pair 7 2 1 true false]; C03Bool true;
     C03Ok; C03Ok; C03Ok; C03Ok; C03Ok; C03InvalidState;
     C03List [C03Pair 3 1 1 false false; C03Pair 5 3 0 true false; C03Pair 7 2 1 true false; C03Pair 9 9 0 true false];
     C03PairOut (C03Pair 7 2 1 true false); C03RangeError; C03PairOut (C03Pair 3 1 1 false false); C03Ok;
     C03PairOut (C03Pair 5 1 0 true false); C03Num 2].
Proof. vm_compute. split; reflexivity. Qed.

(* ---- the set of the spec machine is ordered by (global, attribute) after every history (ordering claim, also for
   equal globals with different attributes); with pairwise distinct globals: strictly ascending global index *)
Theorem C03_order_dups : forall ops : list c03_op,
  Sorted c03_key_le (c03s_set (fst (c03_spec_run c03s_init ops))).
Proof. exact c03_spec_sorted_lemma. Qed.
Print Assumptions C03_order_dups.

Theorem C03_order_strict : forall l : list c03_pair,
  Sorted c03_key_le l -> NoDup (map c03_g l) -> StronglySorted c03_g_lt l.
Proof. exact c03_strict_lemma. Qed.
Print Assumptions C03_order_strict.

(* ---- a completed resize: content = added ++ (old minus marked), up to order; ground state; counter + 1 *)
Theorem C03_endresize_content : forall (set new : list c03_pair) (sq : Z),
  let ss' := fst (c03_spec_step (C03SState true set new sq) C03End) in
  Permutation (c03s_set ss') (new ++ filter c03s_valid set) /\ c03s_resize ss' = false /\ c03s_new ss' = [] /\ c03s_seq ss' = sq + 1.
Proof. exact c03_endresize_content_lemma. Qed.
Print Assumptions C03_endresize_content.

(* the literal three-way merge of the model computes exactly that, given the invariant *)
Theorem C03_merge_is_sort : forall (local fresh : list c03_pair) (deleted : bool),
  Sorted c03_key_le local -> (deleted = false -> forallb c03s_valid local = true) ->
  c03_merge local (c03_sort fresh) deleted = Some (c03_sort (fresh ++ filter c03s_valid local)).
Proof. exact c03_merge_spec. Qed.
Print Assumptions C03_merge_is_sort.

Example C03_merge_nonvacuous :
  c03_merge [C03Pair 1 0 0 true false; C03Pair 4 1 0 true true; C03Pair 6 2 1 true false]
            (c03_sort [C03Pair 6 5 0 false false; C03Pair 0 6 0 false false]) true
  = Some [C03Pair 0 6 0 false false; C03Pair 1 0 0 true false; C03Pair 6 5 0 false false; C03Pair 6 2 1 true false].
Proof. vm_compute. reflexivity. Qed.

(* ---- lookups (code after fix C03-1): every size, including 0 and 1 *)
Theorem C03_lookup : forall l : list c03_pair,
  Sorted c03_key_le l -> c03_size_ok l -> NoDup (map c03_g l) ->
  forall g,
    (c03_exists false l g = C03Bool true <-> In g (map c03_g l)) /\
    (~ In g (map c03_g l) -> c03_exists false l g = C03Bool false /\ c03_at false l g = C03RangeError) /\
    (forall p, In p l -> c03_g p = g -> c03_at false l g = C03PairOut p /\ c03_get l g = C03PairOut p).
Proof. exact c03_lookup_lemma. Qed.
Print Assumptions C03_lookup.

Example C03_lookup_nonvacuous_size1 :
  let l := [C03Pair 7 0 0 true false] in
  Sorted c03_key_le l /\ c03_size_ok l /\ NoDup (map c03_g l) /\ c03_exists false l 7 = C03Bool true.
Proof. repeat split; try (repeat constructor; fail). - unfold c03_size_ok. simpl. discriminate. - repeat constructor. simpl. tauto. Qed.

(* F-C03-1: the same statement is FALSE for the code as it stood (legacy `probe==-1` test) ... *)
Theorem C03_lookup_legacy_refuted :
  exists (l : list c03_pair) (g : Z),
    In g (map c03_g l) /\ c03_exists true l g = C03Bool false /\ c03_at true l g = C03RangeError.
Proof. exact c03_lookup_legacy_refuted_lemma. Qed.
Print Assumptions C03_lookup_legacy_refuted.

(* ... and true exactly away from size 1 *)
Theorem C03_lookup_legacy_ne1 : forall (l : list c03_pair) (g : Z),
  c03_gsorted l -> c03_size_ok l -> length l <> 1%nat ->
  c03_exists true l g = C03Bool (existsb (c03s_has g) l) /\
  c03_at true l g = match find (c03s_has g) l with Some p => C03PairOut p | None => C03RangeError end.
Proof. exact c03_exists_legacy_ne1. Qed.
Print Assumptions C03_lookup_legacy_ne1.

(* ---- seqNo: + 1 for every endResize that completes, for every history, with or without checking *)
Theorem C03_seqno : forall (chk legacy : bool) (ops : list c03_op) (st : c03_state),
  c03_seq (fst (c03_run chk legacy st ops)) = c03_seq st + Z.of_nat (c03_completed ops (snd (c03_run chk legacy st ops))).
Proof. exact c03_seqno_lemma. Qed.
Print Assumptions C03_seqno.

(* ---- with checking, an operation called in the wrong state is rejected and nothing changes; and only those are *)
Theorem C03_state_errors : forall (legacy : bool) (st : c03_state) (op : c03_op),
  c03_wrong_state st op = true -> c03_step true legacy st op = (st, C03InvalidState).
Proof. exact c03_state_errors_lemma. Qed.
Print Assumptions C03_state_errors.
Theorem C03_state_errors_only : forall (legacy : bool) (st : c03_state) (op : c03_op),
  c03_wrong_state st op = false -> snd (c03_step true legacy st op) <> C03InvalidState.
Proof. exact c03_state_ok_lemma. Qed.
Print Assumptions C03_state_errors_only.

(* ---- without checking (NDEBUG), histories that never call in the wrong state behave identically *)
Theorem C03_ndebug_wellformed : forall (ops : list c03_op) (st : c03_state),
  c03_wellformed st ops = true -> c03_run false false st ops = c03_run true false st ops.
Proof. exact c03_ndebug_lemma. Qed.
Print Assumptions C03_ndebug_wellformed.

(* ---- renumberLocal: local numbers 0..n-1 in iteration (= ascending key) order, everything else unchanged *)
Theorem C03_renumber : forall (st : c03_state) (legacy : bool),
  c03_resize st = false ->
  let st' := fst (c03_step true legacy st C03Renumber) in
  length (c03_local st') = length (c03_local st) /\
  forall k p, nth_error (c03_local st') k = Some p ->
    c03_loc p = N.of_nat k /\
    exists q, nth_error (c03_local st) k = Some q /\ c03_same_key q p /\ c03_pub q = c03_pub p /\ c03_del q = c03_del p.
Proof. exact c03_renumber_lemma. Qed.
Print Assumptions C03_renumber.

(* ---- GlobalLookupIndexSet: the reverse table inverts the map when local numbers are distinct *)
Theorem C03_reverse : forall (l : list c03_pair) (p : c03_pair),
  NoDup (map c03_loc l) -> In p l -> c03_reverse l (c03_loc p) = C03PairOut p.
Proof. exact c03_reverse_lemma. Qed.
Print Assumptions C03_reverse.

Example C03_reverse_nonvacuous :
  c03_reverse [C03Pair 3 2 0 true false; C03Pair 5 0 1 true false] 2 = C03PairOut (C03Pair 3 2 0 true false)
  /\ c03_reverse [C03Pair 3 2 0 true false; C03Pair 5 0 1 true false] 1 = C03Null.
Proof. vm_compute. split; reflexivity. Qed.

(* ---- audit round: write access through at(), set comparison, IndexPair comparison operators *)
(* at(g).setLocal(v) / at(g).local() = v overwrites the local number of exactly the first pair with that global, or throws *)
Theorem C03_setlocal : forall (l : list c03_pair) (g : Z) (v : N),
  c03_gsorted l -> c03_size_ok l ->
  c03_setlocal false l g v =
  match find (c03s_has g) l with Some _ => (c03s_set_first g v l, C03Ok) | None => (l, C03RangeError) end.
Proof. exact c03_setlocal_correct. Qed.
Print Assumptions C03_setlocal.

(* operator==(set, set1) (any two chunk sizes) holds exactly when both iterate the same (global, local, attribute, public) sequence *)
Theorem C03_set_eq : forall l l1 : list c03_pair,
  c03_set_eq l l1 = true <-> map c03s_strip l = map c03s_strip l1.
Proof. exact c03_set_eq_strip_lemma. Qed.
Print Assumptions C03_set_eq.

Example C03_audit_ops_nonvacuous :
  let ops := [C03Begin; C03Add 7 0 0 true; C03Add 3 1 1 false; C03End; C03SetLocal 7 5; C03SetLocal 4 9; C03Iterate;
              C03SetEq 0; C03SetEq 1; C03SetEq 4; C03SetEq 5; C03SetEq 6; C03Cmp 0 1 7] in
  c03_defined ops = true /\
  snd (c03_run true false c03_init ops) =
    [C03Ok; C03Ok; C03Ok; C03Ok; C03Ok; C03RangeError;
     C03List [C03Pair 3 1 1 false false; C03Pair 7 5 0 true false];
     C03Bits [true; false]; C03Bits [false; true]; C03Bits [false; true]; C03Bits [false; true]; C03Bits [true; false];
     C03Bits [false; true; true; false; true; false; false; true; true; false; true; false]].
Proof. vm_compute. split; reflexivity. Qed.

(* ==== proof-deepening round ==== *)

(* ---- the source as read by tools/params.d/C03.py carries fix C03-1 (no `probe==-1` "no entries" test), and the refinement
   theorem holds for the model instantiated with the literals re-read from the source (start values of low/probe, seqNo_(0),
   renumbering from 0 enter through c03_init / c03_search / c03_step): an edit of these literals breaks these two proofs *)
Theorem C03_source_has_fix : c03_param_legacy_probe_test = false.
Proof. exact (eq_refl false). Qed.
Print Assumptions C03_source_has_fix.
Theorem C03_refines_spec_source : forall ops : list c03_op,
  Z.of_nat (c03_adds ops) <= 2 ^ 30 -> c03_defined ops = true ->
  snd (c03_run true c03_param_legacy_probe_test c03_init ops) = snd (c03_spec_run c03s_init ops).
Proof. exact c03_refines_spec_lemma. Qed.
Print Assumptions C03_refines_spec_source.

(* ---- THE STATE INVARIANT, for ALL histories (rejected and undefined operations included, no size bound, both spellings of
   the "no entries" test), checking enabled: the stored pairs are always ordered by (global, attribute); pending new pairs
   are VALID; in GROUND state every stored pair is VALID and nothing is pending; the size is bounded by the number of adds *)
Theorem C03_invariant : forall (legacy : bool) (ops : list c03_op),
  let st := fst (c03_run true legacy c03_init ops) in
  Sorted c03_key_le (c03_local st) /\ c03_all_valid (c03_fresh st) /\ (c03_resize st = false -> c03_all_valid (c03_local st) /\ c03_fresh st = []) /\ (length (c03_local st) + length (c03_fresh st) <= c03_adds ops)%nat.
Proof. exact c03_invariant_lemma. Qed.
Print Assumptions C03_invariant.

Example C03_invariant_nonvacuous :
  let st := fst (c03_run true false c03_init [C03Begin; C03Add 7 0 0 true; C03Add 3 1 1 false; C03End; C03Add 1 1 1 true;
                                              C03Begin; C03MarkDeleted 0; C03MarkDeleted 9; C03Begin; C03End; C03Renumber]) in
  c03_resize st = false /\ c03_local st = [C03Pair 7 0 0 true false] /\ c03_seq st = 2.
Proof. vm_compute. repeat split; reflexivity. Qed.

(* ---- iteration order after ANY history: strictly ascending global index whenever the stored globals are pairwise distinct
   (no sortedness hypothesis; with equal globals the order by (global, attribute) is the first clause of C03_invariant) *)
Theorem C03_iteration_strict : forall (legacy : bool) (ops : list c03_op),
  let l := c03_local (fst (c03_run true legacy c03_init ops)) in
  NoDup (map c03_g l) -> StronglySorted c03_g_lt l.
Proof. exact c03_iteration_strict_lemma. Qed.
Print Assumptions C03_iteration_strict.

(* ---- lookups after ANY history (no sortedness hypothesis: the code establishes it), every size incl. 0 and 1,
   checked access (at), unchecked access (operator[]), existence test, const and non-const overloads *)
Theorem C03_lookup_after_history : forall ops : list c03_op,
  Z.of_nat (c03_adds ops) <= 2 ^ 30 ->
  let l := c03_local (fst (c03_run true false c03_init ops)) in
  forall g,
    c03_exists false l g = C03Bool (existsb (c03s_has g) l) /\ c03_at false l g = match find (c03s_has g) l with Some p => C03PairOut p | None => C03RangeError end /\ c03_at_c false l g = c03_at false l g /\ (forall p, find (c03s_has g) l = Some p -> c03_get l g = C03PairOut p /\ c03_get_c l g = C03PairOut p).
Proof. exact c03_lookup_history_lemma. Qed.
Print Assumptions C03_lookup_after_history.

(* the two spellings of the comparison in the five copies of the binary search (`global <= x.global()` in the const
   overloads, `x.global() >= global` in the others) compute the same thing, unconditionally *)
Theorem C03_const_paths_agree : forall (legacy : bool) (l : list c03_pair) (g : Z),
  c03_at_c legacy l g = c03_at legacy l g /\ c03_get_c l g = c03_get l g.
Proof. exact c03_const_paths_lemma. Qed.
Print Assumptions C03_const_paths_agree.

(* ---- "contains exactly the pairs added and not deleted", on the MODEL, for one whole resize phase with the adds and the
   marks in any interleaving: beginResize; body; endResize from a ground state gives a ground state whose content is a
   permutation of  added ++ (old without the marked positions), ordered, all VALID, counter + 1.
   (C03_invariant supplies the hypotheses in every reachable ground state, so phases compose over a history.) *)
Theorem C03_resize_phase : forall (legacy : bool) (st : c03_state) (body : list c03_op),
  c03_resize st = false -> c03_fresh st = [] -> Sorted c03_key_le (c03_local st) -> c03_all_valid (c03_local st) ->
  forallb (c03_is_phase_op (length (c03_local st))) body = true ->
  let st' := fst (c03_run true legacy st ([C03Begin] ++ body ++ [C03End])) in
  c03_resize st' = false /\ c03_fresh st' = [] /\ c03_seq st' = c03_seq st + 1 /\ Sorted c03_key_le (c03_local st') /\ c03_all_valid (c03_local st') /\ Permutation (c03_local st') (c03_phase_adds body ++ c03_remove_from 0 (c03_phase_dels body) (c03_local st)).
Proof. exact c03_resize_phase_lemma. Qed.
Print Assumptions C03_resize_phase.

Example C03_resize_phase_nonvacuous :
  let st := C03State false [C03Pair 1 0 0 true false; C03Pair 4 1 0 true false; C03Pair 6 2 1 true false] [] 5 true in
  let body := [C03Add 9 7 0 false; C03MarkDeleted 1; C03Add 0 8 1 true; C03MarkDeleted 1] in
  forallb (c03_is_phase_op 3) body = true /\ c03_phase_adds body ++ c03_remove_from 0 (c03_phase_dels body) (c03_local st)
    = [C03Pair 9 7 0 false false; C03Pair 0 8 1 true false; C03Pair 1 0 0 true false; C03Pair 6 2 1 true false] /\ c03_local (fst (c03_run true false st ([C03Begin] ++ body ++ [C03End])))
    = [C03Pair 0 8 1 true false; C03Pair 1 0 0 true false; C03Pair 6 2 1 true false; C03Pair 9 7 0 false false].
Proof. vm_compute. repeat split; reflexivity. Qed.

(* ---- GlobalLookupIndexSet, further clauses: the constructor with an explicit size; absent local numbers give a null
   pointer; size() exceeds every local number; after renumberLocal() the reverse lookup inverts the map with NO hypothesis *)
Theorem C03_reverse_sized : forall (l : list c03_pair) (sz : N) (p : c03_pair),
  NoDup (map c03_loc l) -> In p l -> (forall q, In q l -> (c03_loc q < sz)%N) ->
  c03_reverse_sized l sz (c03_loc p) = C03PairOut p.
Proof. exact c03_reverse_sized_lemma. Qed.
Print Assumptions C03_reverse_sized.
Theorem C03_reverse_null : forall (l : list c03_pair) (i : N),
  (i <= c03_max_loc l)%N -> (forall q, In q l -> c03_loc q <> i) -> c03_reverse l i = C03Null.
Proof. exact c03_reverse_null_lemma. Qed.
Print Assumptions C03_reverse_null.
Theorem C03_lookup_size : forall l : list c03_pair,
  (forall p, In p l -> (c03_loc p < N.succ (c03_max_loc l))%N) /\ (l = [] -> c03_lookup_size l = C03Num 1).
Proof. exact c03_lookup_size_lemma. Qed.
Print Assumptions C03_lookup_size.
Theorem C03_reverse_after_renumber : forall (l : list c03_pair) (p : c03_pair),
  In p (c03_renumber_from 0 l) -> c03_reverse (c03_renumber_from 0 l) (c03_loc p) = C03PairOut p.
Proof. exact c03_reverse_after_renumber_lemma. Qed.
Print Assumptions C03_reverse_after_renumber.

Example C03_reverse_after_renumber_nonvacuous :
  let l := c03_renumber_from 0 [C03Pair 3 9 0 true false; C03Pair 5 9 1 true false] in
  c03_reverse l 1 = C03PairOut (C03Pair 5 1 1 true false) /\ c03_lookup_size l = C03Num 2.
Proof. vm_compute. split; reflexivity. Qed.

(* ---- what the state checks are for: WITHOUT checking there is a history that leaves a DELETED pair in the ground state
   (markAsDeleted, then a second beginResize clears deletedEntries_, endResize skips the merge); WITH checking the second
   beginResize of the same history is rejected and the ground state is clean *)
Theorem C03_ndebug_unprotected :
  exists ops : list c03_op,
    let st := fst (c03_run false false c03_init ops) in
    c03_resize st = false /\ existsb c03_del (c03_local st) = true /\ let st' := fst (c03_run true false c03_init ops) in
    In C03InvalidState (snd (c03_run true false c03_init ops)) /\ existsb c03_del (c03_local st') = false.
Proof. exact c03_ndebug_unprotected_lemma. Qed.
Print Assumptions C03_ndebug_unprotected.

(* ==== dimension audit round ==== *)
Example C03_dimension_ops_nonvacuous :
  let st := fst (c03_run true false c03_init [C03Begin; C03Add 7 3 0 false; C03Add 3 1 0 false; C03End]) in
  c03_readd_op (c03_local st) 1 = C03Add 7 3 0 false /\
  snd (c03_run true false st [C03Begin; c03_readd_op (c03_local st) 1; C03End; C03Iterate; C03SetEq 0; C03SetEq 1; C03SetEq 7; C03SetEq 8]) =
    [C03Ok; C03Ok; C03Ok; C03List [C03Pair 3 1 0 false false; C03Pair 7 3 0 false false; C03Pair 7 3 0 false false];
     C03Bits [true; false]; C03Bits [false; true]; C03Bits [true; false]; C03Bits [true; false]].
Proof. vm_compute. split; reflexivity. Qed.

(* ==== second cross-cutting audit, kind A: assignment onto a target that already holds other pairs, another sequence number,
   an UNFINISHED resize phase (pending adds, deletion marks) or emptied lists: the target becomes exactly the source, and every
   later history on it gives what it gives on the source -- for ALL targets, sources and histories ==== *)
Theorem C03_assign_exact : forall target source : c03_state, c03_assign target source = source.
Proof. exact c03_assign_exact_lemma. Qed.
Print Assumptions C03_assign_exact.

Theorem C03_assign_history : forall (chk legacy : bool) (target source : c03_state) (ops : list c03_op),
  c03_run chk legacy (c03_assign target source) ops = c03_run chk legacy source ops.
Proof. exact c03_assign_history_lemma. Qed.
Print Assumptions C03_assign_history.

Theorem C03_assign_forgets_target : forall (chk legacy : bool) (hist_t hist_s ops : list c03_op),
  let t := fst (c03_run chk legacy c03_init hist_t) in
  let s := fst (c03_run chk legacy c03_init hist_s) in
  snd (c03_run chk legacy (c03_assign t s) ops) = snd (c03_run chk legacy s ops).
Proof. exact c03_assign_forgets_target_lemma. Qed.
Print Assumptions C03_assign_forgets_target.

(* the targets the harness builds are not trivial: configuration 2 is in RESIZE state with 9 stored pairs (one marked), two
   pending adds and sequence number 2; configuration 3 is an emptied set with sequence number 3; and a history continued on
   the assigned target (source mid-phase with a pending add) shows none of it *)
Example C03_assign_nonvacuous :
  (c03_resize (c03_dirty 2), length (c03_local (c03_dirty 2)), length (c03_fresh (c03_dirty 2)), c03_seq (c03_dirty 2),
   c03_deleted (c03_dirty 2), existsb c03_del (c03_local (c03_dirty 2))) = (true, 9%nat, 2%nat, 2, true, true) /\
  (c03_resize (c03_dirty 3), c03_local (c03_dirty 3), c03_seq (c03_dirty 3)) = (false, [], 3) /\
  let s := fst (c03_run true false c03_init [C03Begin; C03Add 7 3 0 false; C03End; C03Begin; C03Add 3 1 1 true]) in
  snd (c03_run true false (c03_assign (c03_dirty 2) s) [C03End; C03Iterate; C03SeqNo; C03Mode]) =
    [C03Ok; C03List [C03Pair 3 1 1 true false; C03Pair 7 3 0 false false]; C03Num 2; C03ModeOut false].
Proof. vm_compute. repeat split; reflexivity. Qed.
