(* C04 — property theorems.  ONLY statements, each closed by `exact <lemma>` and followed by Print Assumptions.
   Model: C04_Model.v (transcription of dune/common/parallel/remoteindices.hh: packEntries, unpackIndices,
   unpackCreateRemote, the ring and the neighbour mode of buildRemote, rebuild, isSynced).
   Spec: C04_Spec.v (the set comprehension of doc/comm/communication.tex as restated by the property).
   Quantification: EVERY number of processes (length of the decomposition), every pair of decompositions sorted by
   global index, every attribute/public assignment, ignorePublic, includeSelf, ring mode or any admissible
   neighbour hints with ANY order of arrival, every history of resizes and rebuilds. *)
From Coq Require Import List Arith Bool ZArith Permutation Lia.
From DuneV Require Import C04_Model C04_Spec C04_Proofs C04_Proofs_Build C04_Proofs_Sync C04_Proofs_Ring C04_Proofs_Obj C04_Proofs_Exec C04_Proofs_Mixed C04_Proofs_Comm.
Import ListNotations.

(* the merge-join loop (index / oldGlobal / restart at oldLocalIndex) never runs out of fuel and returns the join
   comprehension: remote-major, local-minor; sets holding a global index under several attributes included *)
Theorem C04_unpack_is_join : forall local remote fromSelf, c04_sorted local -> c04_sorted remote ->
  c04_unpack1 local remote fromSelf = C04_Ok (c04_join fromSelf local remote).
Proof. exact P_unpack_is_join. Qed.
Print Assumptions C04_unpack_is_join.

(* "lists are ordered by global index" *)
Theorem C04_join_sorted : forall fs loc R, c04_sorted loc -> c04_sorted R -> c04_sorted (map snd (c04_join fs loc R)).
Proof. exact P_join_sorted. Qed.
Print Assumptions C04_join_sorted.

(* membership = the set comprehension: (b, l) is an entry iff l is a local pair and some received pair has the same
   global index and attribute b (and, for entries from the rank itself, another attribute) *)
Theorem C04_join_is_intersection : forall fs loc R a l, In (a, l) (c04_join fs loc R) <->
  exists r, In r R /\ In l loc /\ c04_g l = c04_g r /\ a = c04_attr r /\ c04_keep fs r l = true.
Proof. exact c04_join_In. Qed.
Print Assumptions C04_join_is_intersection.

(* "exactly one entry per global index" when each set holds a global index once *)
Theorem C04_join_one_per_global : forall fs loc R, c04_distinct loc -> c04_distinct R ->
  c04_distinct (map snd (c04_join fs loc R)).
Proof. exact P_join_distinct. Qed.
Print Assumptions C04_join_one_per_global.

(* the ring: the P-1 rounds visit every other rank exactly once ... *)
Theorem C04_ring_complete_sources : forall P rank, rank < P ->
  NoDup (map (c04_ring_source P rank) (seq 1 (P - 1))) /\
  forall q, In q (map (c04_ring_source P rank) (seq 1 (P - 1))) <-> (q < P /\ q <> rank).
Proof. exact P_ring_sources_perm. Qed.
Print Assumptions C04_ring_complete_sources.

(* ... and what a rank finds in p_in in round k (after forwarding through the two alternating buffers of all ranks
   in between) is the buffer packed by rank (rank+P-k) mod P *)
Theorem C04_ring_complete : forall P rank msgs, length msgs = P -> rank < P ->
  c04_ring_arrivals P rank msgs =
  map (fun q => (q, nth q msgs c04_empty_msg)) (map (c04_ring_source P rank) (seq 1 (P - 1))).
Proof. exact P_ring_arrivals. Qed.
Print Assumptions C04_ring_complete.

(* MAIN: for every P = length d >= 1, every decomposition (one or two index sets), ignorePublic, includeSelf, ring mode
   or neighbour mode with admissible hints probed in ANY order, the map held by rank p is the spec: for q <> p the
   send list is own-source x q's-target, the receive list own-target x q's-source (C04_spec_entry_other), ranks
   sharing nothing are absent, the self entry is as documented; no fuel exhaustion. *)
Theorem C04_spec : forall (two ign incself : bool) d mode p,
  c04_decomp_sorted d -> p < length d -> c04_mode_ok ign two incself d mode p ->
  nth p (c04_build two ign incself d mode) C04_OutOfFuel = C04_Ok (c04_spec_rank ign two incself d p).
Proof. exact P_spec. Qed.
Print Assumptions C04_spec.

(* the same for one rank and an explicit list qs of arrivals (the form used for the probe order) *)
Theorem C04_spec_any_arrival_order : forall (ign two incself : bool) d p qs,
  c04_decomp_sorted d -> p < length d -> c04_hints_ok ign two incself d p qs ->
  c04_build_rank (length d) p two ign incself (fst (nth p d ([], []))) (snd (nth p d ([], [])))
                 (map (fun q => (q, nth q (c04_msgs ign two d) c04_empty_msg)) qs)
  = C04_Ok (c04_spec_rank ign two incself d p).
Proof. exact P_build_rank_spec. Qed.
Print Assumptions C04_spec_any_arrival_order.

(* every permutation of an admissible arrival order is admissible *)
Theorem C04_arrival_orders_closed_under_permutation : forall ign two incself d p nb nb',
  c04_hints_ok ign two incself d p nb -> Permutation nb nb' -> c04_hints_ok ign two incself d p nb'.
Proof. exact P_hints_perm. Qed.
Print Assumptions C04_arrival_orders_closed_under_permutation.

(* the result depends neither on the order of arrival nor on ring vs. neighbour mode *)
Theorem C04_order_independent : forall (two ign incself : bool) d mode1 mode2 p,
  c04_decomp_sorted d -> p < length d ->
  c04_mode_ok ign two incself d mode1 p -> c04_mode_ok ign two incself d mode2 p ->
  nth p (c04_build two ign incself d mode1) C04_OutOfFuel = nth p (c04_build two ign incself d mode2) C04_OutOfFuel.
Proof. exact P_order_independent. Qed.
Print Assumptions C04_order_independent.

(* the spec unfolded for another rank q: present iff one list is non-empty, lists = the two joins *)
Theorem C04_spec_entry_other : forall ign two incself d p q x, p < length d -> q <> p ->
  (In (q, x) (c04_spec_rank ign two incself d p) <->
   (q < length d /\ c04_lists_empty x = false /\
    x = (c04_join false (c04_published ign (fst (nth p d ([], [])))) (c04_published ign (c04_tgt two (nth q d ([], [])))),
         c04_join false (c04_published ign (c04_tgt two (nth p d ([], [])))) (c04_published ign (fst (nth q d ([], []))))))).
Proof. exact P_spec_entry_other. Qed.
Print Assumptions C04_spec_entry_other.

(* one index set with pairwise distinct globals: no entry for the rank itself, with or without includeSelf *)
Theorem C04_self_absent_one_set : forall ign incself d p, p < length d ->
  c04_distinct (fst (nth p d ([], []))) ->
  forall x, ~ In (p, x) (c04_spec_rank ign false incself d p).
Proof. exact P_self_absent_one_set. Qed.
Print Assumptions C04_self_absent_one_set.

(* isSynced() is false exactly when a resize of one of the index sets completed since the last build (or there was
   no build yet); when it is true the object holds the build of the current sets.  All histories of resizes of either
   set and of rebuild<true/false> calls; index-set sequence numbers start at any s0, d0 >= 0. *)
Theorem C04_synced : forall (content result : Type) (buildf : content -> bool -> result) two c s0 d0 ops,
  (0 <= s0)%Z -> (0 <= d0)%Z ->
  let w := c04_run_ops content result buildf (c04_init content result two c s0 d0) ops in
  c04_is_synced content result w = negb (c04_stale true ops) /\
  (c04_stale true ops = false ->
     c04_w_map _ _ w = Some (buildf (c04_w_content _ _ w) (c04_w_publicIgnored _ _ w))).
Proof. exact P_synced. Qed.
Print Assumptions C04_synced.

(* rebuild<ign>() after any history leaves the build of the CURRENT sets in the requested publicity mode, in sync *)
Theorem C04_rebuild_current : forall (content result : Type) (buildf : content -> bool -> result) two c s0 d0 ops ign,
  (0 <= s0)%Z -> (0 <= d0)%Z ->
  let w0 := c04_run_ops content result buildf (c04_init content result two c s0 d0) ops in
  let w := c04_run_ops content result buildf (c04_init content result two c s0 d0) (ops ++ [C04_Rebuild _ ign]) in
  c04_w_map _ _ w = Some (buildf (c04_w_content _ _ w0) ign) /\ c04_is_synced content result w = true.
Proof. exact P_rebuild_current. Qed.
Print Assumptions C04_rebuild_current.

(* THE RING CANNOT DEADLOCK (operational).  Every rank executes its literal program c04_ring_ops (P-1 rounds; even ranks
   MPI_Ssend then MPI_Recv, odd ranks MPI_Recv then MPI_Ssend; the two buffers alternating).  A step = one rendezvous: some
   rank blocked in Ssend(to q) meets rank q blocked in Recv(from it); the sender's p_out is copied into the receiver's p_in and
   the receiver calls unpackCreateRemote with remoteProc = (rank+procs-proc)%procs.  For every P >= 2 (odd P included), every
   configuration reachable in n steps by ANY interleaving:
     - is final (all programs finished) or has a successor (progress: no deadlock),
     - has exactly 2*P*(P-1) - 2*n calls left (so every execution has exactly P*(P-1) steps and ends in a final configuration),
     - if final, every rank has unpacked exactly the sequence of (remoteProc, buffer) that C04_ring_complete describes. *)
Theorem C04_ring_no_deadlock : forall P msgs n cfg, 2 <= P -> length msgs = P -> c04_ring_reach P msgs n cfg ->
  (c04_ring_final P cfg \/ exists cfg', c04_ring_step P cfg cfg') /\
  c04_ring_remaining P cfg + 2 * n = 2 * P * (P - 1) /\
  (c04_ring_final P cfg -> forall p, p < P -> c04_rk_arr (cfg p) = c04_ring_arrivals P p msgs).
Proof. exact P_ring_no_deadlock. Qed.
Print Assumptions C04_ring_no_deadlock.

(* THE NEIGHBOUR MODE TERMINATES.  Every rank posts MPI_Issend to each hinted neighbour, then does |hints| times
   (MPI_Probe(MPI_ANY_SOURCE); MPI_Recv from the probed rank), then MPI_Waitall.  A step = one Issend posted, or one rank
   (all its sends posted, probes left) receiving from ANY rank that has a posted unmatched send to it.  With consistent hints
   (valid ranks, no duplicates, not the rank itself, symmetric), every reachable configuration is final (Waitall returns
   everywhere) or has a successor, every step decreases the measure 2*unposted + unmatched + probes left, and in a final
   configuration every rank has received from exactly its hinted neighbours, once each, in whatever order. *)
Theorem C04_neighbour_mode_terminates : forall P hints cfg, c04_hints_consistent P hints -> c04_nb_reach P hints cfg ->
  (c04_nb_final P cfg \/ exists cfg', c04_nb_step P cfg cfg') /\
  (forall cfg', c04_nb_step P cfg cfg' -> c04_nb_measure P cfg' < c04_nb_measure P cfg) /\
  (c04_nb_final P cfg -> forall q, q < P -> Permutation (c04_nb_arr (cfg q)) (nth q hints [])).
Proof. exact P_neighbour_mode_terminates. Qed.
Print Assumptions C04_neighbour_mode_terminates.

(* what happens with ASYMMETRIC hints (excluded by the property's "consistent"): rank 0 names rank 1 but rank 1 names nobody;
   rank 0 posts its send and probes for a message nobody sends: a reachable non-final configuration without successor *)
Theorem C04_neighbour_mode_asymmetric_hints_deadlock :
  exists cfg, c04_nb_reach 2 [[1]; []] cfg /\ ~ c04_nb_final 2 cfg /\ forall cfg', ~ c04_nb_step 2 cfg cfg'.
Proof. exact P_neighbour_asymmetric_deadlock. Qed.
Print Assumptions C04_neighbour_mode_asymmetric_hints_deadlock.

(* auxiliary (used to find the proof, kept as a fact about the schedule): a time stamp 3*round + phase for every rendezvous
   under which the calls of every rank are strictly increasing (phases: even->odd sends, then for odd P the send P-1 -> 0,
   then the sends of the odd ranks) *)
Theorem C04_ring_stamp_order : forall P rank, 2 <= P -> rank < P ->
  c04_increasing (map (fun x => c04_stamp P (c04_rdv_of rank x)) (c04_ring_ops P rank)).
Proof. exact P_ring_order. Qed.
Print Assumptions C04_ring_stamp_order.

Theorem C04_ring_matching : forall P p k q, 2 <= P -> p < P ->
  In (k, C04_Ssend q) (c04_ring_ops P p) ->
  q < P /\ In (k, C04_Recv p) (c04_ring_ops P q) /\
  c04_rdv_of p (k, C04_Ssend q) = c04_rdv_of q (k, C04_Recv p).
Proof. exact P_ring_matching. Qed.
Print Assumptions C04_ring_matching.

(* two index sets + includeSelf = true is not defined by the documentation; the code (and the model) drop the
   equal-attribute pairs from the self entry; what is kept lies inside the rank's own source/target intersection *)
Theorem C04_self_two_incself_sound : forall loc R e, In e (c04_join true loc R) -> In e (c04_join false loc R).
Proof. exact P_self_filtered_sound. Qed.
Print Assumptions C04_self_two_incself_sound.

(* OBJECT HISTORIES.  One RemoteIndices object (literal state: source_/target_, neighbourIds, includeSelf, publicIgnored,
   firstBuild, sourceSeqNo_/destSeqNo_, the map) driven through EVERY sequence of setIndexSets with or without hints,
   setNeighbours, setIncludeSelf, free, rebuild<true/false> and resizes of any of the index-set pairs, from the constructor
   with index sets (any hints, any includeSelf): the map, the neighbour hints and the set contents are those of the
   flag-based history spec c04_hspec_step ("a rebuild takes place iff nothing was built for the targeted sets since
   construction / setIndexSets / free(), or the publicity mode differs, or a targeted set was resized since; it then builds
   the CURRENT content with the CURRENT includeSelf and hints; setIndexSets without hints means: no hints"), and between
   a build and the next setIndexSets / free(), isSynced() is false exactly when a targeted set was resized. *)
Theorem C04_obj_history : forall (result : Type) (buildf : c04_decomp -> bool -> bool -> list (list nat) -> result)
    two P slots s hints inc ops, s < length slots -> Forall (c04_hop_wf (length slots)) ops ->
  let y := c04_hrun result buildf (c04_sys_ctor result two P slots s hints inc) ops in
  let h := c04_hspec_run result buildf (c04_hspec_ctor result two P slots s hints inc) ops in
  c04_ob_map _ (c04_sy_obj _ y) = c04_hs_map _ h /\
  c04_ob_hints _ (c04_sy_obj _ y) = c04_hs_hints _ h /\
  map c04_sl_content (c04_sy_slots _ y) = c04_hs_contents _ h /\
  (forall ig, c04_hs_built _ h = Some ig -> c04_obj_synced _ y = negb (c04_hs_stale _ h)).
Proof. exact P_obj_history. Qed.
Print Assumptions C04_obj_history.

(* the same from the default constructor (RemoteIndices() followed by setIndexSets ...) *)
Theorem C04_obj_history_default : forall (result : Type) (buildf : c04_decomp -> bool -> bool -> list (list nat) -> result)
    two P slots ops, Forall (c04_hop_wf (length slots)) ops ->
  let y := c04_hrun result buildf (c04_sys_default result two P slots) ops in
  let h := c04_hspec_run result buildf (c04_hspec_default result two P slots) ops in
  c04_ob_map _ (c04_sy_obj _ y) = c04_hs_map _ h /\
  c04_ob_hints _ (c04_sy_obj _ y) = c04_hs_hints _ h /\
  (forall ig, c04_hs_built _ h = Some ig -> c04_obj_synced _ y = negb (c04_hs_stale _ h)).
Proof. exact P_obj_history_default. Qed.
Print Assumptions C04_obj_history_default.

(* what the history spec says about rebuild<ign>: afterwards "built in mode ign, not stale"; and whenever nothing was built
   for the targeted sets (construction, setIndexSets, free), or a targeted set was resized, or the mode differs, the map is
   the build of the CURRENT content with the current includeSelf and the current hints (minus the rank itself) *)
Theorem C04_obj_rebuild_current : forall (result : Type) (buildf : c04_decomp -> bool -> bool -> list (list nat) -> result)
    (h : c04_hspec result) ign s, c04_hs_slot _ h = Some s ->
  let h' := c04_hspec_step result buildf h (C04_HRebuild ign) in
  c04_hs_built _ h' = Some ign /\ c04_hs_stale _ h' = false /\
  ((c04_hs_built _ h = None \/ c04_hs_stale _ h = true \/ c04_hs_built _ h = Some (negb ign)) ->
     exists hints', c04_hs_map _ h' = Some (buildf (nth s (c04_hs_contents _ h) []) ign (c04_hs_incself _ h) hints') /\
                    c04_hs_hints _ h' = hints' /\
                    (hints' = c04_hs_hints _ h \/ hints' = c04_erase_self (c04_hs_hints _ h))).
Proof. exact P_hspec_rebuild. Qed.
Print Assumptions C04_obj_rebuild_current.

(* the concrete collective build used in the histories: hints of all ranks empty (ring) or all non-empty and admissible:
   every rank holds the spec *)
Theorem C04_obj_build_is_spec : forall (two ign incself : bool) d hints p,
  c04_decomp_sorted d -> p < length d ->
  (forallb c04_is_nil hints = true \/
   (forallb (fun h => negb (c04_is_nil h)) hints = true /\ c04_hints_ok ign two incself d p (nth p hints []))) ->
  nth p (c04_obj_buildf two d ign incself hints) C04_OutOfFuel = C04_Ok (c04_spec_rank ign two incself d p).
Proof. exact P_obj_buildf_spec. Qed.
Print Assumptions C04_obj_build_is_spec.


(* MIXED CONFIGURATIONS: every process decides locally (source_ != target_) whether it publishes one index set or two; a
   process may pass ONE ParallelIndexSet object for both roles while another passes two.  The message says which (first byte),
   and unpackCreateRemote has branches for the two mixed cases.  As AFTER fix fixes/C04-1 (finding F-C04-1; the model follows
   the repaired code): the two-list unpackIndices is the pair of joins when every set holds a global index once ... *)
Theorem C04_unpack2_is_join : forall remote src dst send recv,
  c04_sorted remote -> c04_distinct remote -> c04_sorted src -> c04_distinct src -> c04_sorted dst -> c04_distinct dst ->
  c04_unpack2 remote src dst send recv = (send ++ c04_join false src remote, recv ++ c04_join false dst remote).
Proof. exact P_unpack2_is_join. Qed.
Print Assumptions C04_unpack2_is_join.

(* ... and for every assignment twos of one/two objects to the processes, every P, ring or admissible hints in any arrival
   order, the map of rank p is the same set comprehension, the target set of a one-object process being its source set *)
Theorem C04_spec_mixed : forall (twos : list bool) (ign incself : bool) d mode p,
  c04_decomp_sorted d -> c04_decomp_distinct d -> length twos = length d -> p < length d ->
  match mode with None => True | Some orders => c04_hints_ok_mixed ign twos incself d p (nth p orders []) end ->
  nth p (c04_build_mixed twos ign incself d mode) C04_OutOfFuel = C04_Ok (c04_spec_rank_mixed ign twos incself d p).
Proof. exact P_spec_mixed. Qed.
Print Assumptions C04_spec_mixed.

Theorem C04_spec_mixed_agrees_when_uniform : forall (two ign incself : bool) d p, p < length d ->
  c04_spec_rank_mixed ign (map (fun _ => two) d) incself d p = c04_spec_rank ign two incself d p.
Proof. exact P_spec_rank_mixed_const. Qed.
Print Assumptions C04_spec_mixed_agrees_when_uniform.

(* ---- non-vacuity ------------------------------------------------------------------------------------------ *)
Definition ex_s0 := [C04_mkpair 0 10 0 true; C04_mkpair 1 11 0 true; C04_mkpair 2 12 1 true].
Definition ex_s1 := [C04_mkpair 1 20 1 true; C04_mkpair 2 21 0 true; C04_mkpair 3 22 0 false].
Definition ex_s2 := [C04_mkpair 2 30 2 true; C04_mkpair 3 31 1 true].
Definition ex_d : c04_decomp := [(ex_s0, ex_s1); (ex_s1, ex_s2); (ex_s2, ex_s0)].

(* hypotheses of C04_spec hold for a 3-rank, two-set decomposition; the result is not empty *)
Example C04_example_hyps : c04_decomp_sorted ex_d /\ 1 < length ex_d /\
  c04_spec_rank false true false ex_d 1 <> [] /\ c04_distinct ex_s1.
Proof.
  split; [|split; [|split]].
  - intros st [<-|[<-|[<-|[]]]]; split; apply c04_sortedb_ok; vm_compute; reflexivity.
  - vm_compute. auto.
  - vm_compute. discriminate.
  - simpl. repeat split; intros b H; repeat (destruct H as [H|H]; [subst b; simpl; discriminate|]); destruct H.
Qed.

(* neighbour hints {0,2} for rank 1 in the probe order 2,0 are admissible *)
Example C04_example_hints : c04_hints_ok false true false ex_d 1 [2; 0].
Proof.
  split; [|split].
  - repeat constructor; simpl; intuition discriminate.
  - intros q [<-|[<-|[]]]; simpl; split; auto; discriminate.
  - intros q Hq Hne _. simpl in Hq. destruct q as [|[|[|q]]].
    + simpl; auto.
    + contradiction.
    + simpl; auto.
    + exfalso. lia.
Qed.

(* model = spec on the example in ring mode and in neighbour mode with two different probe orders *)
Example C04_example_build :
  c04_build true false false ex_d None = map (fun p => C04_Ok (c04_spec_rank false true false ex_d p)) [0; 1; 2] /\
  c04_build true false false ex_d (Some [[1; 2]; [2; 0]; [0; 1]]) = c04_build true false false ex_d (Some [[2; 1]; [0; 2]; [1; 0]]).
Proof. vm_compute. split; reflexivity. Qed.

(* the restart branch of the merge loop is exercised: a global index held under two attributes on both sides *)
Example C04_example_restart :
  c04_unpack1 [C04_mkpair 5 0 0 true; C04_mkpair 5 1 1 true; C04_mkpair 7 2 0 true]
              [C04_mkpair 5 9 1 true; C04_mkpair 5 8 2 true; C04_mkpair 6 7 0 true; C04_mkpair 7 6 2 true] true
  = C04_Ok [(1, C04_mkpair 5 0 0 true); (2, C04_mkpair 5 0 0 true); (2, C04_mkpair 5 1 1 true); (2, C04_mkpair 7 2 0 true)].
Proof. vm_compute. reflexivity. Qed.

(* a history: build, resize the target set, (stale), rebuild with the other publicity mode *)
Example C04_example_sync :
  let buildf := fun (d : c04_decomp) (ign : bool) => c04_build true ign false d None in
  let w0 := c04_init c04_decomp _ true ex_d 1 1 in
  let ops := [C04_Rebuild _ false; C04_ResizeDst _ ex_d] in
  c04_is_synced _ _ (c04_run_ops _ _ buildf w0 [C04_Rebuild _ false]) = true /\
  c04_is_synced _ _ (c04_run_ops _ _ buildf w0 ops) = false /\ c04_stale true ops = true /\
  c04_is_synced _ _ (c04_run_ops _ _ buildf w0 (ops ++ [C04_Rebuild _ true])) = true.
Proof. vm_compute. repeat split; reflexivity. Qed.

(* the ring program of rank 2 of 3 (odd P, even rank P-1) and its stamps *)
Example C04_example_ring_order :
  c04_ring_ops 3 2 = [(1, C04_Ssend 0); (1, C04_Recv 1); (2, C04_Ssend 0); (2, C04_Recv 1)] /\
  map (fun x => c04_stamp 3 (c04_rdv_of 2 x)) (c04_ring_ops 3 2) = [4; 5; 7; 8] /\
  map (fun x => c04_stamp 3 (c04_rdv_of 0 x)) (c04_ring_ops 3 0) = [3; 4; 6; 7].
Proof. vm_compute. repeat split; reflexivity. Qed.

(* an object history: built with hints 0:{1} 1:{0,2} 2:{1} on slot 0 (only ranks 0,1 share), then re-targeted WITHOUT hints to
   slot 1 where rank 2 shares with rank 0: the rebuild runs in ring mode and rank 0 sees rank 2 *)
Example C04_example_history :
  let dA : c04_decomp := [([C04_mkpair 1 0 0 true], []); ([C04_mkpair 1 1 0 true], []); ([C04_mkpair 9 2 0 true], [])] in
  let dB : c04_decomp := [([C04_mkpair 1 0 0 true; C04_mkpair 2 3 0 true], []); ([C04_mkpair 1 1 0 true], []); ([C04_mkpair 2 2 0 true], [])] in
  let slots := [C04_mkslot dA 1 1; C04_mkslot dB 1 1] in
  let y := c04_hrun _ (c04_obj_buildf false) (c04_sys_ctor _ false 3 slots 0 [[1]; [0; 2]; [1]] false)
                    [C04_HRebuild false; C04_HSetIndexSets 1 None; C04_HRebuild false] in
  c04_ob_hints _ (c04_sy_obj _ y) = [[]; []; []] /\
  option_map (fun l => nth 0 l C04_Mixed) (c04_ob_map _ (c04_sy_obj _ y)) = Some (C04_Ok (c04_spec_rank false false false dB 0)) /\
  length (c04_spec_rank false false false dB 0) = 2.
Proof. vm_compute. repeat split; reflexivity. Qed.

(* executions of the ring by vm_compute: P = 3 (odd: ranks 2 and 0 are both even) in stamp order, and P = 4 under two
   different interleavings; all programs finish, and every rank ends with the arrivals of C04_ring_complete *)
Definition ex_msgs3 := c04_msgs false true ex_d.
Example C04_example_ring_exec3 :
  match c04_ring_run 3 (c04_ring_init 3 ex_msgs3) [0; 2; 1; 0; 2; 1] with
  | Some cfg => map (fun p => c04_rk_prog (cfg p)) [0; 1; 2] = [[]; []; []] /\
                map (fun p => c04_rk_arr (cfg p)) [0; 1; 2] = map (fun p => c04_ring_arrivals 3 p ex_msgs3) [0; 1; 2]
  | None => False
  end /\
  (* rank 0 cannot start with its receive partner: the first rendezvous of rank 2 (to rank 0) is not enabled initially *)
  c04_ring_enabled (c04_ring_init 3 ex_msgs3) 2 = None /\ c04_ring_enabled (c04_ring_init 3 ex_msgs3) 0 = Some (1, 1, 1).
Proof. vm_compute. repeat split; reflexivity. Qed.

Definition ex_msgs4 := c04_msgs false false [(ex_s0, []); (ex_s1, []); (ex_s2, []); (ex_s0, [])].
Example C04_example_ring_exec4 :
  let fin := fun o => match o with
    | Some cfg => map (fun p => c04_rk_prog (cfg p)) [0; 1; 2; 3] = [[]; []; []; []] /\
                  map (fun p => c04_rk_arr (cfg p)) [0; 1; 2; 3] = map (fun p => c04_ring_arrivals 4 p ex_msgs4) [0; 1; 2; 3]
    | None => False end in
  fin (c04_ring_run 4 (c04_ring_init 4 ex_msgs4) [0; 2; 1; 3; 0; 2; 1; 3; 0; 2; 1; 3]) /\
  fin (c04_ring_run 4 (c04_ring_init 4 ex_msgs4) [2; 0; 3; 1; 2; 0; 1; 3; 0; 2; 3; 1]).
Proof. vm_compute. repeat split; reflexivity. Qed.

(* neighbour mode, P = 3, complete hint graph: two different probe orders both end with Waitall returning everywhere *)
Example C04_example_neighbour_exec3 :
  let hints := [[1; 2]; [0; 2]; [1; 0]] in
  let fin := fun o => match o with
    | Some cfg => map (fun p => (c04_nb_topost (cfg p), c04_nb_posted (cfg p), c04_nb_nrecv (cfg p))) [0; 1; 2] = [([], [], 0); ([], [], 0); ([], [], 0)]
    | None => False end in
  fin (c04_nb_run (c04_nb_init hints) [inl 0; inl 0; inl 1; inl 1; inl 2; inl 2; inr (0, 2); inr (0, 1); inr (1, 0); inr (1, 2); inr (2, 1); inr (2, 0)]) /\
  fin (c04_nb_run (c04_nb_init hints) [inl 1; inl 0; inl 2; inl 1; inr (1, 0); inl 0; inl 2; inr (2, 1); inr (0, 1); inr (1, 2); inr (0, 2); inr (2, 0)]) /\
  (forall p, p < 3 -> NoDup (nth p hints [])) .
Proof.
  vm_compute. repeat split; try reflexivity.
  intros p Hp. destruct p as [|[|[|p]]]; [| | |lia]; repeat constructor; simpl; intuition discriminate.
Qed.

(* F-C04-1, the witness: rank 0 passes ONE object {1,2,3}, rank 1 passes TWO: source {3}, target {1,3}.
   The repaired loop gives rank 1 the receive list [target pair of 1; target pair of 3]; the UNFIXED loop
   (localDest[sourceIndex]) pushes the target pair of 1 twice; and with target {3} only it indexes outside the array. *)
Example C04_unpack2_legacy_refuted :
  let remote := [C04_mkpair 1 10 0 true; C04_mkpair 2 11 0 true; C04_mkpair 3 12 0 true] in
  let src := [C04_mkpair 3 20 1 true] in
  let dst := [C04_mkpair 1 21 2 true; C04_mkpair 3 22 2 true] in
  c04_unpack2 remote src dst [] [] = (c04_join false src remote, c04_join false dst remote) /\
  snd (c04_unpack2 remote src dst [] []) = [(0, C04_mkpair 1 21 2 true); (0, C04_mkpair 3 22 2 true)] /\
  c04_unpack2_legacy src dst remote src dst [] [] = Some ([(0, C04_mkpair 3 20 1 true)], [(0, C04_mkpair 1 21 2 true); (0, C04_mkpair 1 21 2 true)]) /\
  c04_unpack2_legacy [C04_mkpair 1 20 1 true; C04_mkpair 3 23 1 true] [C04_mkpair 3 22 2 true] remote
                     [C04_mkpair 1 20 1 true; C04_mkpair 3 23 1 true] [C04_mkpair 3 22 2 true] [] [] = None.
Proof. vm_compute. repeat split; reflexivity. Qed.

(* the whole mixed build on that decomposition equals the spec, and rank 0 (one object) sends along its indices 1 and 3 *)
Example C04_example_mixed_build :
  let d : c04_decomp := [([C04_mkpair 1 10 0 true; C04_mkpair 2 11 0 true; C04_mkpair 3 12 0 true], []);
                         ([C04_mkpair 3 20 1 true], [C04_mkpair 1 21 2 true; C04_mkpair 3 22 2 true])] in
  c04_build_mixed [false; true] false false d None = map (fun p => C04_Ok (c04_spec_rank_mixed false [false; true] false d p)) [0; 1] /\
  c04_spec_rank_mixed false [false; true] false d 0 =
    [(1, ([(2, C04_mkpair 1 10 0 true); (2, C04_mkpair 3 12 0 true)], [(1, C04_mkpair 3 12 0 true)]))].
Proof. vm_compute. split; reflexivity. Qed.

(* ==== DIMENSION AUDIT 2 ========================================================================================= *)
(* THE COMMUNICATOR OF A RE-USED OBJECT.  comm_ is written by the constructor and by setIndexSets and read by buildRemote.  For
   every history over setIndexSets(.., comm k, ..) / setNeighbours / setIncludeSelf / free / rebuild / resizes, starting from the
   constructor with communicator k0: the communicator the object builds on is the one given LAST (nothing of an earlier one
   survives), and map, neighbourIds and isSynced follow the history spec whose every build uses the communicator in force. *)
Theorem C04_obj_history_comm : forall (result : Type) (buildfc : nat -> c04_decomp -> bool -> bool -> list (list nat) -> result)
    two P slots s k0 hints inc ops, s < length slots ->
  Forall (c04_hopc_wf (length slots)) ops ->
  let yc := c04_hrunc result buildfc (c04_sysc_ctor result two P slots s k0 hints inc) ops in
  let hk := c04_hspec_runc result buildfc (c04_hspec_ctor result two P slots s hints inc, k0) ops in
  c04_sc_comm _ yc = c04_last_comm k0 ops /\ snd hk = c04_last_comm k0 ops /\
  c04_ob_map _ (c04_sy_obj _ (c04_sc_sys _ yc)) = c04_hs_map _ (fst hk) /\
  c04_ob_hints _ (c04_sy_obj _ (c04_sc_sys _ yc)) = c04_hs_hints _ (fst hk) /\
  (forall ig, c04_hs_built _ (fst hk) = Some ig -> c04_obj_synced _ (c04_sc_sys _ yc) = negb (c04_hs_stale _ (fst hk))).
Proof. exact P_obj_history_comm. Qed.
Print Assumptions C04_obj_history_comm.

(* PRE-EXISTING STATE OF THE TARGET.  Whatever the object went through before (ops1: other index sets, other communicators, hints,
   includeSelf, builds in either publicity mode, free(), resizes), after  setIndexSets(S_s, T_s, comm k [, hints]); setIncludeSelf(b)
   it behaves in EVERY further history ops2 exactly like a newly constructed RemoteIndices(S_s, T_s, comm k, hints, b) over the
   same index-set objects: same communicator, same map, same neighbourIds, same firstBuild, same isSynced once built. *)
Theorem C04_retarget_as_fresh : forall (result : Type) (buildfc : nat -> c04_decomp -> bool -> bool -> list (list nat) -> result)
    two P slots s0 k0 hints0 inc0 ops1 s k hi b ops2,
  s0 < length slots -> s < length slots ->
  Forall (c04_hopc_wf (length slots)) ops1 -> Forall (c04_hopc_wf (length slots)) ops2 ->
  let yc := c04_hrunc result buildfc (c04_sysc_ctor result two P slots s0 k0 hints0 inc0) ops1 in
  let y := c04_sc_sys _ yc in
  let hints := match hi with Some l => l | None => repeat [] (c04_sy_P _ y) end in
  let y1 := c04_hrunc result buildfc yc ([C04_CSetIndexSets s k hi; C04_COp (C04_HSetIncludeSelf b)] ++ ops2) in
  let y2 := c04_hrunc result buildfc (c04_sysc_ctor result (c04_sy_two _ y) (c04_sy_P _ y) (c04_sy_slots _ y) s k hints b) ops2 in
  c04_sc_comm _ y1 = c04_sc_comm _ y2 /\
  c04_ob_map _ (c04_sy_obj _ (c04_sc_sys _ y1)) = c04_ob_map _ (c04_sy_obj _ (c04_sc_sys _ y2)) /\
  c04_ob_hints _ (c04_sy_obj _ (c04_sc_sys _ y1)) = c04_ob_hints _ (c04_sy_obj _ (c04_sc_sys _ y2)) /\
  c04_ob_first _ (c04_sy_obj _ (c04_sc_sys _ y1)) = c04_ob_first _ (c04_sy_obj _ (c04_sc_sys _ y2)) /\
  (c04_ob_first _ (c04_sy_obj _ (c04_sc_sys _ y1)) = false ->
   c04_obj_synced _ (c04_sc_sys _ y1) = c04_obj_synced _ (c04_sc_sys _ y2)).
Proof. exact P_retarget_as_fresh. Qed.
Print Assumptions C04_retarget_as_fresh.

(* the concrete build on communicator k (0 given, 1 duplicate, 2 reversed, 3 rotated): the set comprehension over the
   decomposition as numbered by that communicator, for the process with rank p IN that communicator *)
Theorem C04_obj_build_comm_is_spec : forall (two ign incself : bool) k d hints p,
  let dv := c04_comm_view k ([], []) d in
  c04_decomp_sorted dv -> p < length dv ->
  (forallb c04_is_nil hints = true \/
   (forallb (fun h => negb (c04_is_nil h)) hints = true /\ c04_hints_ok ign two incself dv p (nth p hints []))) ->
  nth p (c04_obj_buildf_comm two k d ign incself hints) C04_OutOfFuel = C04_Ok (c04_spec_rank ign two incself dv p).
Proof. exact P_obj_buildf_comm_spec. Qed.
Print Assumptions C04_obj_build_comm_is_spec.

(* ASYMMETRIC CONFIGURATION: includeSelf differing from process to process.  The map of rank p is the one of the uniform build
   with p's own value (to which C04_spec applies): no process's includeSelf influences another process's lists. *)
Theorem C04_build_incs : forall two ign incs d mode p, p < length d ->
  nth p (c04_build_incs two ign incs d mode) C04_OutOfFuel = nth p (c04_build two ign (nth p incs false) d mode) C04_OutOfFuel.
Proof. exact P_build_incs. Qed.
Print Assumptions C04_build_incs.

(* non-vacuity: an object built on communicator 0 over slot 0 with hints, then re-targeted to slot 1 on the REVERSED communicator
   (k = 2) without hints: it builds on communicator 2, where the process with rank 0 is old process 2 (which shares index 2 with
   old process 0 = new rank 2); and it equals the freshly constructed object on that communicator *)
Example C04_example_history_comm :
  let dA : c04_decomp := [([C04_mkpair 1 0 0 true], []); ([C04_mkpair 1 1 0 true], []); ([C04_mkpair 9 2 0 true], [])] in
  let dB : c04_decomp := [([C04_mkpair 1 0 0 true; C04_mkpair 2 3 0 true], []); ([C04_mkpair 1 1 0 true], []); ([C04_mkpair 2 2 0 true], [])] in
  let slots := [C04_mkslot dA 1 1; C04_mkslot dB 1 1] in
  let bf := c04_obj_buildf_comm false in
  let pre := [C04_COp (C04_HRebuild false)] in
  let cfg := [C04_CSetIndexSets 1 2 None; C04_COp (C04_HSetIncludeSelf false)] in
  let y1 := c04_hrunc _ bf (c04_sysc_ctor _ false 3 slots 0 0 [[1]; [0; 2]; [1]] false) (pre ++ cfg ++ [C04_COp (C04_HRebuild false)]) in
  let y2 := c04_hrunc _ bf (c04_sysc_ctor _ false 3 slots 1 2 [[]; []; []] false) [C04_COp (C04_HRebuild false)] in
  c04_sc_comm _ y1 = 2 /\ c04_last_comm 0 (pre ++ cfg) = 2 /\
  c04_ob_map _ (c04_sy_obj _ (c04_sc_sys _ y1)) = c04_ob_map _ (c04_sy_obj _ (c04_sc_sys _ y2)) /\
  option_map (fun l => nth 0 l C04_Mixed) (c04_ob_map _ (c04_sy_obj _ (c04_sc_sys _ y1)))
    = Some (C04_Ok [(2, ([(0, C04_mkpair 2 2 0 true)], [(0, C04_mkpair 2 2 0 true)]))]) /\
  c04_comm_view 2 0 [10; 11; 12] = [12; 11; 10] /\ c04_comm_view 3 0 [10; 11; 12] = [12; 10; 11].
Proof. vm_compute. repeat split; reflexivity. Qed.

(* non-vacuity: two index sets, rank 0 with includeSelf and rank 1 without: both hold their self entry (two sets), rank 0's
   with the equal-attribute pair dropped *)
Example C04_example_incs :
  let d : c04_decomp := [([C04_mkpair 1 0 0 true; C04_mkpair 2 1 1 true], [C04_mkpair 1 5 0 true; C04_mkpair 2 6 0 true]);
                         ([C04_mkpair 1 0 0 true], [C04_mkpair 1 7 0 true])] in
  map (fun r => match r with C04_Ok m => map (fun e => (fst e, length (fst (snd e)))) m | _ => [] end)
      (c04_build_incs true false [true; false] d None) = [[(0, 1); (1, 1)]; [(0, 1); (1, 1)]].
Proof. vm_compute. reflexivity. Qed.
