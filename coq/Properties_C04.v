(* C04 — property theorems.  ONLY statements, each closed by `exact <lemma>` and followed by Print Assumptions.
   Model: C04_Model.v (transcription of dune/common/parallel/remoteindices.hh: packEntries, unpackIndices,
   unpackCreateRemote, the ring and the neighbour mode of buildRemote, rebuild, isSynced).
   Spec: C04_Spec.v (the set comprehension of doc/comm/communication.tex as restated by the property).
   Quantification: EVERY number of processes (length of the decomposition), every pair of decompositions sorted by
   global index, every attribute/public assignment, ignorePublic, includeSelf, ring mode or any admissible
   neighbour hints with ANY order of arrival, every history of resizes and rebuilds. *)
From Coq Require Import List Arith Bool ZArith Permutation Lia.
From DuneV Require Import C04_Model C04_Spec C04_Proofs C04_Proofs_Build C04_Proofs_Sync C04_Proofs_Ring C04_Proofs_Obj.
Import ListNotations.

(* the merge-join loop (index / oldGlobal / restart at oldLocalIndex) never runs out of fuel and returns the join
   comprehension: remote-major, local-minor; sets holding a global index under several attributes included *)
Theorem C04_unpack_is_join : forall local remote fromSelf, c04_sorted local -> c04_sorted remote ->
  c04_unpack1 local remote fromSelf = C04_Ok (c04_join fromSelf local remote).
Proof. exact P_unpack_is_join. Qed.
Print Assumptions C04_unpack_is_join.

(* "lists are ordered by global index" *)
Theorem C04_join_sorted : forall fs loc R, c04_sorted loc -> c04_sorted R -> c04_sorted (map snd (c04_join fs loc R)).
Proof. exact P_join_sorted. Qed.
Print Assumptions C04_join_sorted.

(* membership = the set comprehension: (b, l) is an entry iff l is a local pair and some received pair has the same
   global index and attribute b (and, for entries from the rank itself, another attribute) *)
Theorem C04_join_is_intersection : forall fs loc R a l, In (a, l) (c04_join fs loc R) <->
  exists r, In r R /\ In l loc /\ c04_g l = c04_g r /\ a = c04_attr r /\ c04_keep fs r l = true.
Proof. exact c04_join_In. Qed.
Print Assumptions C04_join_is_intersection.

(* "exactly one entry per global index" when each set holds a global index once *)
Theorem C04_join_one_per_global : forall fs loc R, c04_distinct loc -> c04_distinct R ->
  c04_distinct (map snd (c04_join fs loc R)).
Proof. exact P_join_distinct. Qed.
Print Assumptions C04_join_one_per_global.

(* the ring: the P-1 rounds visit every other rank exactly once ... *)
Theorem C04_ring_complete_sources : forall P rank, rank < P ->
  NoDup (map (c04_ring_source P rank) (seq 1 (P - 1))) /\
  forall q, In q (map (c04_ring_source P rank) (seq 1 (P - 1))) <-> (q < P /\ q <> rank).
Proof. exact P_ring_sources_perm. Qed.
Print Assumptions C04_ring_complete_sources.

(* ... and what a rank finds in p_in in round k (after forwarding through the two alternating buffers of all ranks
   in between) is the buffer packed by rank (rank+P-k) mod P *)
Theorem C04_ring_complete : forall P rank msgs, length msgs = P -> rank < P ->
  c04_ring_arrivals P rank msgs =
  map (fun q => (q, nth q msgs c04_empty_msg)) (map (c04_ring_source P rank) (seq 1 (P - 1))).
Proof. exact P_ring_arrivals. Qed.
Print Assumptions C04_ring_complete.

(* MAIN: for every P = length d >= 1, every decomposition (one or two index sets), ignorePublic, includeSelf, ring mode
   or neighbour mode with admissible hints probed in ANY order, the map held by rank p is the spec: for q <> p the
   send list is own-source x q's-target, the receive list own-target x q's-source (C04_spec_entry_other), ranks
   sharing nothing are absent, the self entry is as documented; no fuel exhaustion. *)
Theorem C04_spec : forall (two ign incself : bool) d mode p,
  c04_decomp_sorted d -> p < length d -> c04_mode_ok ign two incself d mode p ->
  nth p (c04_build two ign incself d mode) C04_OutOfFuel = C04_Ok (c04_spec_rank ign two incself d p).
Proof. exact P_spec. Qed.
Print Assumptions C04_spec.

(* the same for one rank and an explicit list qs of arrivals (the form used for the probe order) *)
Theorem C04_spec_any_arrival_order : forall (ign two incself : bool) d p qs,
  c04_decomp_sorted d -> p < length d -> c04_hints_ok ign two incself d p qs ->
  c04_build_rank (length d) p two ign incself (fst (nth p d ([], []))) (snd (nth p d ([], [])))
                 (map (fun q => (q, nth q (c04_msgs ign two d) c04_empty_msg)) qs)
  = C04_Ok (c04_spec_rank ign two incself d p).
Proof. exact P_build_rank_spec. Qed.
Print Assumptions C04_spec_any_arrival_order.

(* every permutation of an admissible arrival order is admissible *)
Theorem C04_arrival_orders_closed_under_permutation : forall ign two incself d p nb nb',
  c04_hints_ok ign two incself d p nb -> Permutation nb nb' -> c04_hints_ok ign two incself d p nb'.
Proof. exact P_hints_perm. Qed.
Print Assumptions C04_arrival_orders_closed_under_permutation.

(* the result depends neither on the order of arrival nor on ring vs. neighbour mode *)
Theorem C04_order_independent : forall (two ign incself : bool) d mode1 mode2 p,
  c04_decomp_sorted d -> p < length d ->
  c04_mode_ok ign two incself d mode1 p -> c04_mode_ok ign two incself d mode2 p ->
  nth p (c04_build two ign incself d mode1) C04_OutOfFuel = nth p (c04_build two ign incself d mode2) C04_OutOfFuel.
Proof. exact P_order_independent. Qed.
Print Assumptions C04_order_independent.

(* the spec unfolded for another rank q: present iff one list is non-empty, lists = the two joins *)
Theorem C04_spec_entry_other : forall ign two incself d p q x, p < length d -> q <> p ->
  (In (q, x) (c04_spec_rank ign two incself d p) <->
   (q < length d /\ c04_lists_empty x = false /\
    x = (c04_join false (c04_published ign (fst (nth p d ([], [])))) (c04_published ign (c04_tgt two (nth q d ([], [])))),
         c04_join false (c04_published ign (c04_tgt two (nth p d ([], [])))) (c04_published ign (fst (nth q d ([], []))))))).
Proof. exact P_spec_entry_other. Qed.
Print Assumptions C04_spec_entry_other.

(* one index set with pairwise distinct globals: no entry for the rank itself, with or without includeSelf *)
Theorem C04_self_absent_one_set : forall ign incself d p, p < length d ->
  c04_distinct (fst (nth p d ([], []))) ->
  forall x, ~ In (p, x) (c04_spec_rank ign false incself d p).
Proof. exact P_self_absent_one_set. Qed.
Print Assumptions C04_self_absent_one_set.

(* isSynced() is false exactly when a resize of one of the index sets completed since the last build (or there was
   no build yet); when it is true the object holds the build of the current sets.  All histories of resizes of either
   set and of rebuild<true/false> calls; index-set sequence numbers start at any s0, d0 >= 0. *)
Theorem C04_synced : forall (content result : Type) (buildf : content -> bool -> result) two c s0 d0 ops,
  (0 <= s0)%Z -> (0 <= d0)%Z ->
  let w := c04_run_ops content result buildf (c04_init content result two c s0 d0) ops in
  c04_is_synced content result w = negb (c04_stale true ops) /\
  (c04_stale true ops = false ->
     c04_w_map _ _ w = Some (buildf (c04_w_content _ _ w) (c04_w_publicIgnored _ _ w))).
Proof. exact P_synced. Qed.
Print Assumptions C04_synced.

(* rebuild<ign>() after any history leaves the build of the CURRENT sets in the requested publicity mode, in sync *)
Theorem C04_rebuild_current : forall (content result : Type) (buildf : content -> bool -> result) two c s0 d0 ops ign,
  (0 <= s0)%Z -> (0 <= d0)%Z ->
  let w0 := c04_run_ops content result buildf (c04_init content result two c s0 d0) ops in
  let w := c04_run_ops content result buildf (c04_init content result two c s0 d0) (ops ++ [C04_Rebuild _ ign]) in
  c04_w_map _ _ w = Some (buildf (c04_w_content _ _ w0) ign) /\ c04_is_synced content result w = true.
Proof. exact P_rebuild_current. Qed.
Print Assumptions C04_rebuild_current.

(* The ring cannot deadlock: ORDERING FORM.  Every rendezvous (round, sender) gets a time stamp such that the calls of
   every rank -- even ranks Ssend then Recv, odd ranks Recv then Ssend, P-1 rounds -- have strictly increasing stamps,
   for every P >= 2 (odd P: the two even neighbours P-1 and 0 are ordered by the middle phase); and every Ssend meets
   its Recv in the same round under the same identity.  Hence the rendezvous can be executed in stamp order: no rank
   waits for a rank that waits for it.
   FULL STATEMENT NOT PROVED (hence _partial): an operational semantics of blocking Ssend/Recv in which every maximal
   execution of the P programs terminates with all programs empty; missing: the generic lemma "stamps increasing along
   every program + matching => the stamp-ordered execution is enabled step by step, and enabled steps persist". *)
Theorem C04_ring_no_deadlock_partial : forall P rank, 2 <= P -> rank < P ->
  c04_increasing (map (fun x => c04_stamp P (c04_rdv_of rank x)) (c04_ring_ops P rank)).
Proof. exact P_ring_order. Qed.
Print Assumptions C04_ring_no_deadlock_partial.

Theorem C04_ring_matching : forall P p k q, 2 <= P -> p < P ->
  In (k, C04_Ssend q) (c04_ring_ops P p) ->
  q < P /\ In (k, C04_Recv p) (c04_ring_ops P q) /\
  c04_rdv_of p (k, C04_Ssend q) = c04_rdv_of q (k, C04_Recv p).
Proof. exact P_ring_matching. Qed.
Print Assumptions C04_ring_matching.

(* two index sets + includeSelf = true is not defined by the documentation; the code (and the model) drop the
   equal-attribute pairs from the self entry; what is kept lies inside the rank's own source/target intersection *)
Theorem C04_self_two_incself_sound : forall loc R e, In e (c04_join true loc R) -> In e (c04_join false loc R).
Proof. exact P_self_filtered_sound. Qed.
Print Assumptions C04_self_two_incself_sound.

(* OBJECT HISTORIES.  One RemoteIndices object (literal state: source_/target_, neighbourIds, includeSelf, publicIgnored,
   firstBuild, sourceSeqNo_/destSeqNo_, the map) driven through EVERY sequence of setIndexSets with or without hints,
   setNeighbours, setIncludeSelf, free, rebuild<true/false> and resizes of any of the index-set pairs, from the constructor
   with index sets (any hints, any includeSelf): the map, the neighbour hints and the set contents are those of the
   flag-based history spec c04_hspec_step ("a rebuild takes place iff nothing was built for the targeted sets since
   construction / setIndexSets / free(), or the publicity mode differs, or a targeted set was resized since; it then builds
   the CURRENT content with the CURRENT includeSelf and hints; setIndexSets without hints means: no hints"), and between
   a build and the next setIndexSets / free(), isSynced() is false exactly when a targeted set was resized. *)
Theorem C04_obj_history : forall (result : Type) (buildf : c04_decomp -> bool -> bool -> list (list nat) -> result)
    two P slots s hints inc ops, s < length slots -> Forall (c04_hop_wf (length slots)) ops ->
  let y := c04_hrun result buildf (c04_sys_ctor result two P slots s hints inc) ops in
  let h := c04_hspec_run result buildf (c04_hspec_ctor result two P slots s hints inc) ops in
  c04_ob_map _ (c04_sy_obj _ y) = c04_hs_map _ h /\
  c04_ob_hints _ (c04_sy_obj _ y) = c04_hs_hints _ h /\
  map c04_sl_content (c04_sy_slots _ y) = c04_hs_contents _ h /\
  (forall ig, c04_hs_built _ h = Some ig -> c04_obj_synced _ y = negb (c04_hs_stale _ h)).
Proof. exact P_obj_history. Qed.
Print Assumptions C04_obj_history.

(* the same from the default constructor (RemoteIndices() followed by setIndexSets ...) *)
Theorem C04_obj_history_default : forall (result : Type) (buildf : c04_decomp -> bool -> bool -> list (list nat) -> result)
    two P slots ops, Forall (c04_hop_wf (length slots)) ops ->
  let y := c04_hrun result buildf (c04_sys_default result two P slots) ops in
  let h := c04_hspec_run result buildf (c04_hspec_default result two P slots) ops in
  c04_ob_map _ (c04_sy_obj _ y) = c04_hs_map _ h /\
  c04_ob_hints _ (c04_sy_obj _ y) = c04_hs_hints _ h /\
  (forall ig, c04_hs_built _ h = Some ig -> c04_obj_synced _ y = negb (c04_hs_stale _ h)).
Proof. exact P_obj_history_default. Qed.
Print Assumptions C04_obj_history_default.

(* what the history spec says about rebuild<ign>: afterwards "built in mode ign, not stale"; and whenever nothing was built
   for the targeted sets (construction, setIndexSets, free), or a targeted set was resized, or the mode differs, the map is
   the build of the CURRENT content with the current includeSelf and the current hints (minus the rank itself) *)
Theorem C04_obj_rebuild_current : forall (result : Type) (buildf : c04_decomp -> bool -> bool -> list (list nat) -> result)
    (h : c04_hspec result) ign s, c04_hs_slot _ h = Some s ->
  let h' := c04_hspec_step result buildf h (C04_HRebuild ign) in
  c04_hs_built _ h' = Some ign /\ c04_hs_stale _ h' = false /\
  ((c04_hs_built _ h = None \/ c04_hs_stale _ h = true \/ c04_hs_built _ h = Some (negb ign)) ->
     exists hints', c04_hs_map _ h' = Some (buildf (nth s (c04_hs_contents _ h) []) ign (c04_hs_incself _ h) hints') /\
                    c04_hs_hints _ h' = hints' /\
                    (hints' = c04_hs_hints _ h \/ hints' = c04_erase_self (c04_hs_hints _ h))).
Proof. exact P_hspec_rebuild. Qed.
Print Assumptions C04_obj_rebuild_current.

(* the concrete collective build used in the histories: hints of all ranks empty (ring) or all non-empty and admissible:
   every rank holds the spec *)
Theorem C04_obj_build_is_spec : forall (two ign incself : bool) d hints p,
  c04_decomp_sorted d -> p < length d ->
  (forallb c04_is_nil hints = true \/
   (forallb (fun h => negb (c04_is_nil h)) hints = true /\ c04_hints_ok ign two incself d p (nth p hints []))) ->
  nth p (c04_obj_buildf two d ign incself hints) C04_OutOfFuel = C04_Ok (c04_spec_rank ign two incself d p).
Proof. exact P_obj_buildf_spec. Qed.
Print Assumptions C04_obj_build_is_spec.

(* ---- non-vacuity ------------------------------------------------------------------------------------------ *)
Definition ex_s0 := [C04_mkpair 0 10 0 true; C04_mkpair 1 11 0 true; C04_mkpair 2 12 1 true].
Definition ex_s1 := [C04_mkpair 1 20 1 true; C04_mkpair 2 21 0 true; C04_mkpair 3 22 0 false].
Definition ex_s2 := [C04_mkpair 2 30 2 true; C04_mkpair 3 31 1 true].
Definition ex_d : c04_decomp := [(ex_s0, ex_s1); (ex_s1, ex_s2); (ex_s2, ex_s0)].

(* hypotheses of C04_spec hold for a 3-rank, two-set decomposition; the result is not empty *)
Example C04_example_hyps : c04_decomp_sorted ex_d /\ 1 < length ex_d /\
  c04_spec_rank false true false ex_d 1 <> [] /\ c04_distinct ex_s1.
Proof.
  split; [|split; [|split]].
  - intros st [<-|[<-|[<-|[]]]]; split; apply c04_sortedb_ok; vm_compute; reflexivity.
  - vm_compute. auto.
  - vm_compute. discriminate.
  - simpl. repeat split; intros b H; repeat (destruct H as [H|H]; [subst b; simpl; discriminate|]); destruct H.
Qed.

(* neighbour hints {0,2} for rank 1 in the probe order 2,0 are admissible *)
Example C04_example_hints : c04_hints_ok false true false ex_d 1 [2; 0].
Proof.
  split; [|split].
  - repeat constructor; simpl; intuition discriminate.
  - intros q [<-|[<-|[]]]; simpl; split; auto; discriminate.
  - intros q Hq Hne _. simpl in Hq. destruct q as [|[|[|q]]].
    + simpl; auto.
    + contradiction.
    + simpl; auto.
    + exfalso. lia.
Qed.

(* model = spec on the example in ring mode and in neighbour mode with two different probe orders *)
Example C04_example_build :
  c04_build true false false ex_d None = map (fun p => C04_Ok (c04_spec_rank false true false ex_d p)) [0; 1; 2] /\
  c04_build true false false ex_d (Some [[1; 2]; [2; 0]; [0; 1]]) = c04_build true false false ex_d (Some [[2; 1]; [0; 2]; [1; 0]]).
Proof. vm_compute. split; reflexivity. Qed.

(* the restart branch of the merge loop is exercised: a global index held under two attributes on both sides *)
Example C04_example_restart :
  c04_unpack1 [C04_mkpair 5 0 0 true; C04_mkpair 5 1 1 true; C04_mkpair 7 2 0 true]
              [C04_mkpair 5 9 1 true; C04_mkpair 5 8 2 true; C04_mkpair 6 7 0 true; C04_mkpair 7 6 2 true] true
  = C04_Ok [(1, C04_mkpair 5 0 0 true); (2, C04_mkpair 5 0 0 true); (2, C04_mkpair 5 1 1 true); (2, C04_mkpair 7 2 0 true)].
Proof. vm_compute. reflexivity. Qed.

(* a history: build, resize the target set, (stale), rebuild with the other publicity mode *)
Example C04_example_sync :
  let buildf := fun (d : c04_decomp) (ign : bool) => c04_build true ign false d None in
  let w0 := c04_init c04_decomp _ true ex_d 1 1 in
  let ops := [C04_Rebuild _ false; C04_ResizeDst _ ex_d] in
  c04_is_synced _ _ (c04_run_ops _ _ buildf w0 [C04_Rebuild _ false]) = true /\
  c04_is_synced _ _ (c04_run_ops _ _ buildf w0 ops) = false /\ c04_stale true ops = true /\
  c04_is_synced _ _ (c04_run_ops _ _ buildf w0 (ops ++ [C04_Rebuild _ true])) = true.
Proof. vm_compute. repeat split; reflexivity. Qed.

(* the ring program of rank 2 of 3 (odd P, even rank P-1) and its stamps *)
Example C04_example_ring_order :
  c04_ring_ops 3 2 = [(1, C04_Ssend 0); (1, C04_Recv 1); (2, C04_Ssend 0); (2, C04_Recv 1)] /\
  map (fun x => c04_stamp 3 (c04_rdv_of 2 x)) (c04_ring_ops 3 2) = [4; 5; 7; 8] /\
  map (fun x => c04_stamp 3 (c04_rdv_of 0 x)) (c04_ring_ops 3 0) = [3; 4; 6; 7].
Proof. vm_compute. repeat split; reflexivity. Qed.

(* an object history: built with hints 0:{1} 1:{0,2} 2:{1} on slot 0 (only ranks 0,1 share), then re-targeted WITHOUT hints to
   slot 1 where rank 2 shares with rank 0: the rebuild runs in ring mode and rank 0 sees rank 2 *)
Example C04_example_history :
  let dA : c04_decomp := [([C04_mkpair 1 0 0 true], []); ([C04_mkpair 1 1 0 true], []); ([C04_mkpair 9 2 0 true], [])] in
  let dB : c04_decomp := [([C04_mkpair 1 0 0 true; C04_mkpair 2 3 0 true], []); ([C04_mkpair 1 1 0 true], []); ([C04_mkpair 2 2 0 true], [])] in
  let slots := [C04_mkslot dA 1 1; C04_mkslot dB 1 1] in
  let y := c04_hrun _ (c04_obj_buildf false) (c04_sys_ctor _ false 3 slots 0 [[1]; [0; 2]; [1]] false)
                    [C04_HRebuild false; C04_HSetIndexSets 1 None; C04_HRebuild false] in
  c04_ob_hints _ (c04_sy_obj _ y) = [[]; []; []] /\
  option_map (fun l => nth 0 l C04_Mixed) (c04_ob_map _ (c04_sy_obj _ y)) = Some (C04_Ok (c04_spec_rank false false false dB 0)) /\
  length (c04_spec_rank false false false dB 0) = 2.
Proof. vm_compute. repeat split; reflexivity. Qed.
