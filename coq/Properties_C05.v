(* C05 — property theorems.  ONLY statements, each closed by `exact <lemma>` and followed by Print Assumptions.
   Model: C05_Model.v (interface.hh, communicator.hh, enumset.hh, selection.hh); Spec: C05_Spec.v.
   Quantification: EVERY remote index map / interface map / container layout / payload values / policy (copy, add) /
   direction (fwd = true forward, false backward) / completion order of MPI_Waitany. *)
From Coq Require Import List Arith Bool PeanoNat NArith Permutation Sorted.
From DuneV Require Import Params_gen C05_Model C05_Spec C05_Proofs C05_Proofs_Comm C05_Proofs_Deliv C05_Proofs_Glue C05_Proofs_Remote C05_Proofs_Phase C05_Proofs_Dt C05_Proofs_Dec C05_Proofs_Obj C05_Proofs_Seq C05_Proofs_Oracle C05_Proofs_Main C05_Proofs_CommObj.
Import ListNotations.

(* Interface::build on ANY remote index map: no assert of InterfaceInformation::add fires; per neighbour exactly the local
   indices of the entries whose own attribute is in the source (resp. target) set and whose remote attribute is in the target
   (resp. source) set (c05_keep = the definition of i^s, i^t), in list order; neighbours with two empty lists are stripped. *)
Theorem C05_interface_spec : forall src dst rm,
  c05_interface_build src dst rm = Some (c05_iface_def src dst rm).
Proof. exact P_interface_spec. Qed.
Print Assumptions C05_interface_spec.

(* the kept entries are a sub-sequence of the remote index list: the interface is in the (global-index) order of that list *)
Theorem C05_interface_order : forall send src dst l, c05_subseq (c05_keep send src dst l) l.
Proof. exact P_keep_order. Qed.
Print Assumptions C05_interface_order.

(* pairing: if p's send list for q and q's receive list for p enumerate the same ascending shared globals with mirrored
   attributes (the conclusion of C04_spec), then p's send interface for q and q's receive interface for p have the same
   length and their k-th entries refer to the same global index *)
Theorem C05_pairing : forall src dst sl rl, Forall2 c05_mirror sl rl ->
  Forall2 c05_mirror (c05_keep true src dst sl) (c05_keep false src dst rl) /\
  length (c05_keep true src dst sl) = length (c05_keep false src dst rl) /\
  map c05_re_g (c05_keep true src dst sl) = map c05_re_g (c05_keep false src dst rl).
Proof. exact PM_pairing. Qed.
Print Assumptions C05_pairing.

(* the bridge from C05_pairing to the hypothesis `paired` of the all-ranks theorems below *)
Theorem C05_pairing_gives_paired : forall (gd sd : c05_data) (sz : nat -> nat) ks kr,
  Forall2 c05_mirror ks kr ->
  (forall r, In r ks -> c05_getsize gd (c05_re_l r) = sz (c05_re_g r)) ->
  (forall r, In r kr -> c05_getsize sd (c05_re_l r) = sz (c05_re_g r)) ->
  Forall2 (fun l l' => c05_getsize gd l = c05_getsize sd l') (map c05_re_l ks) (map c05_re_l kr).
Proof. exact P_pairing_gives_paired. Qed.
Print Assumptions C05_pairing_gives_paired.

(* the hypothesis of C05_pairing is what the ascending enumeration of the published shared globals gives (C04_spec's
   conclusion; c05_join is the stand-in used by the check, compared with the tree's RemoteIndices in the deep stream): for ANY two
   index sets with one entry per global index, inserted in any order, the send list of p for q and the receive list of q for p
   mirror each other and are ascending in the global index *)
Theorem C05_pairing_hypothesis_holds : forall ign S T, NoDup (map c05_ie_g S) -> NoDup (map c05_ie_g T) ->
  Forall2 c05_mirror (c05_join (c05_published ign (c05_sort S)) (c05_published ign (c05_sort T)))
                     (c05_join (c05_published ign (c05_sort T)) (c05_published ign (c05_sort S))) /\
  StronglySorted lt (map c05_re_g (c05_join (c05_published ign (c05_sort S)) (c05_published ign (c05_sort T)))).
Proof. exact P_pairing_instance. Qed.
Print Assumptions C05_pairing_hypothesis_holds.

(* the documentation's sets: on the remote index lists of a decomposition (c05_join of the published entries) the send side of
   Interface::build for neighbour q is i^s = local indices of the own source entries (attribute in As) whose global is a published
   target entry of q with attribute in At, and the receive side is i^t = local indices of the own target entries (attribute in At)
   whose global is a published source entry of q with attribute in As; both in the order of the own (sorted) index set *)
Theorem C05_interface_doc : forall ign src dst S T,
  map c05_re_l (c05_keep true src dst (c05_join (c05_published ign S) (c05_published ign T))) =
    map (fun ee => c05_ie_l (fst ee)) (c05_spec_pairs ign (c05_contains src) (c05_contains dst) S T) /\
  map c05_re_l (c05_keep false src dst (c05_join (c05_published ign T) (c05_published ign S))) =
    map (fun ee => c05_ie_l (snd ee)) (c05_spec_pairs_t ign (c05_contains src) (c05_contains dst) S T).
Proof. exact PM_interface_doc. Qed.
Print Assumptions C05_interface_doc.

(* std::map order: the remote index map of every rank of every decomposition, and the interface map built from it, are strictly
   ascending in the process number (so the "unique keys" / "ascending keys" hypotheses of the theorems below hold for them) *)
Theorem C05_keys_ascending : forall two ign dec p src dst m,
  StronglySorted lt (map fst (c05_remote_of two ign dec p)) /\
  (c05_interface_build src dst (c05_remote_of two ign dec p) = Some m -> StronglySorted lt (map fst m) /\ NoDup (map fst m)).
Proof. exact PM_keys_ascending. Qed.
Print Assumptions C05_keys_ascending.

(* offsets: the gather buffer is the concatenation of the neighbours' blocks in rank order, has the length build computed,
   and each (start,size) delimits exactly its neighbour's block — also with empty neighbours in between.  Both directions. *)
Theorem C05_offsets : forall fwd szs szd ifs d,
  (forall e l, In e ifs -> In l (c05_sendside fwd (snd e)) -> (if fwd then szs else szd) l = c05_getsize d l) ->
  let cm := c05_comm_build szs szd ifs in
  length (c05_gather fwd ifs d) = (if fwd then c05_cm_b0 cm else c05_cm_b1 cm) /\
  (forall q mi, In (q, mi) (c05_cm_info cm) ->
     exists pre e post, ifs = pre ++ (q, e) :: post /\
       c05_gather fwd ifs d = c05_gather fwd pre d ++ c05_block d (c05_sendside fwd e) ++ c05_gather fwd post d /\
       c05_mi_start (c05_sendinfo fwd mi) = length (c05_gather fwd pre d) /\
       c05_mi_size (c05_sendinfo fwd mi) = length (c05_block d (c05_sendside fwd e)) /\
       c05_slice (c05_mi_start (c05_sendinfo fwd mi)) (c05_mi_size (c05_sendinfo fwd mi)) (c05_gather fwd ifs d)
         = c05_block d (c05_sendside fwd e)).
Proof. exact P_offsets. Qed.
Print Assumptions C05_offsets.

(* every neighbour that sends or receives at least one value has a messageInformation_ entry with these offsets *)
Theorem C05_offsets_complete : forall szs szd ifs b0 b1 pre q s r post,
  ifs = pre ++ (q, (s, r)) :: post -> 0 < c05_msgsize szs s + c05_msgsize szd r ->
  In (q, ({| c05_mi_start := b0 + c05_total szs fst pre; c05_mi_size := c05_msgsize szs s |},
          {| c05_mi_start := b1 + c05_total szd snd pre; c05_mi_size := c05_msgsize szd r |}))
     (c05_minfos_def szs szd ifs b0 b1).
Proof. exact minfos_def_complete. Qed.
Print Assumptions C05_offsets_complete.

(* delivery (main), per receiving rank, forward and backward, copy and add, SizeOne and variable-size blocks:
   if every posted receive is matched by a message of the posted size (c05_matched: what C05_pairing + equal layouts give),
   then for EVERY completion order the receive loop returns; its scatter log is a permutation of the expected calls
   (every value of every matched message exactly once at its position, nothing else); the container is the initial one
   with exactly these calls applied; its layout is unchanged. *)
Theorem C05_delivery : forall add fwd cm msgs order d,
  NoDup (map fst (c05_recvs fwd cm)) ->
  c05_matched fwd cm msgs (c05_shape d) ->
  Permutation order (map fst (c05_recvs fwd cm)) ->
  exists d' log',
    c05_recv_loop add fwd cm msgs (c05_recvs fwd cm) order d [] = C05_Ok d' log' /\
    Permutation log' (c05_expected_calls fwd cm msgs (c05_shape d)) /\
    d' = c05_apply_calls add d log' /\ c05_shape d' = c05_shape d.
Proof. exact P_delivery_rank. Qed.
Print Assumptions C05_delivery.

(* the resulting values, independent of the completion order: accumulate = old value + sum over all senders; copy = the
   value of the unique sender, unchanged if there is none, and one of the senders' values if there are several *)
Theorem C05_delivery_values : forall add d cs expected l j,
  c05_valid d l j -> Permutation cs expected ->
  match c05_spec_value add (c05_get d l j) (c05_calls_at expected l j) with
  | Some v => c05_get (c05_apply_calls add d cs) l j = v
  | None => In (c05_get (c05_apply_calls add d cs) l j) (c05_calls_at expected l j)
  end.
Proof. exact P_values. Qed.
Print Assumptions C05_delivery_values.

(* the same for the transition system in which MPI_Waitany may report ANY outstanding matched receive: every terminal
   state reachable by any sequence of choices has delivered exactly the expected calls *)
Theorem C05_delivery_all_schedules : forall add fwd cm msgs d0 st,
  NoDup (map fst (c05_recvs fwd cm)) -> c05_matched fwd cm msgs (c05_shape d0) ->
  c05_steps add fwd cm msgs {| c05_rs_pending := c05_recvs fwd cm; c05_rs_data := d0; c05_rs_log := [] |} st ->
  c05_rs_pending st = [] ->
  Permutation (c05_rs_log st) (c05_expected_calls fwd cm msgs (c05_shape d0)) /\
  c05_rs_data st = c05_apply_calls add d0 (c05_rs_log st) /\ c05_shape (c05_rs_data st) = c05_shape d0.
Proof. exact P_delivery_steps. Qed.
Print Assumptions C05_delivery_all_schedules.

(* termination: in every reachable state every step strictly decreases the number of outstanding receives, and a step is
   enabled as long as one is outstanding (no deadlock): every schedule ends after exactly |receives| completions *)
Theorem C05_terminates : forall add fwd cm msgs d0,
  NoDup (map fst (c05_recvs fwd cm)) -> c05_matched fwd cm msgs (c05_shape d0) ->
  forall st, c05_steps add fwd cm msgs {| c05_rs_pending := c05_recvs fwd cm; c05_rs_data := d0; c05_rs_log := [] |} st ->
    (forall st', c05_step add fwd cm msgs st st' -> length (c05_rs_pending st') < length (c05_rs_pending st)) /\
    (c05_rs_pending st <> [] -> exists st', c05_step add fwd cm msgs st st').
Proof. exact P_terminates. Qed.
Print Assumptions C05_terminates.

(* ------------------------------------------------------------------ all ranks together (forward and backward)
   Hypotheses: std::map keys are unique; build() saw containers with the layout of the ones communicated now; and the k-th send
   entry of p for q and the k-th receive entry of q for p carry blocks of the same size (C05_pairing: they refer to the same
   global index, and the block size is a function of the global index; for SizeOne payloads it is trivially 1 = 1). *)

(* the message p posts for q is exactly the gathered block of p's list for q, and there is one iff that block is non-empty *)
Theorem C05_message : forall fwd ifs gdata sdata szs szd,
  (forall p, NoDup (map fst (ifs p))) ->
  (forall p e l, In e (ifs p) -> In l (c05_sendside fwd (snd e)) -> (if fwd then szs p else szd p) l = c05_getsize (gdata p) l) ->
  (forall p e l, In e (ifs p) -> In l (c05_recvside fwd (snd e)) -> (if fwd then szd p else szs p) l = c05_getsize (sdata p) l) ->
  (forall p q, Forall2 (fun l l' => c05_getsize (gdata p) l = c05_getsize (sdata q) l') (c05_g_sendlist fwd ifs p q) (c05_g_recvlist fwd ifs q p)) ->
  forall p q, c05_g_msg fwd ifs gdata szs szd p q =
    if c05_msgsize (c05_getsize (gdata p)) (c05_g_sendlist fwd ifs p q) =? 0 then None
    else Some (c05_block (gdata p) (c05_g_sendlist fwd ifs p q)).
Proof. exact msg_spec. Qed.
Print Assumptions C05_message.

(* every receive a rank posts is matched by a message of exactly the posted size (the hypothesis of C05_delivery and
   C05_terminates holds on every rank), and every Issend is matched by a posted receive (no sender waits forever) *)
Theorem C05_all_matched : forall fwd ifs gdata sdata szs szd,
  (forall p, NoDup (map fst (ifs p))) ->
  (forall p e l, In e (ifs p) -> In l (c05_sendside fwd (snd e)) -> (if fwd then szs p else szd p) l = c05_getsize (gdata p) l) ->
  (forall p e l, In e (ifs p) -> In l (c05_recvside fwd (snd e)) -> (if fwd then szd p else szs p) l = c05_getsize (sdata p) l) ->
  (forall p q, Forall2 (fun l l' => c05_getsize (gdata p) l = c05_getsize (sdata q) l') (c05_g_sendlist fwd ifs p q) (c05_g_recvlist fwd ifs q p)) ->
  (forall q, c05_matched fwd (c05_g_cm ifs szs szd q) (fun p => c05_g_msg fwd ifs gdata szs szd p q) (c05_shape (sdata q))) /\
  (forall p q m, c05_g_msg fwd ifs gdata szs szd p q = Some m -> In p (map fst (c05_recvs fwd (c05_g_cm ifs szs szd q)))) /\
  (forall q, NoDup (map fst (c05_recvs fwd (c05_g_cm ifs szs szd q)))).
Proof. exact PM_all_matched. Qed.
Print Assumptions C05_all_matched.

(* end to end: for every rank q, policy and completion order, sendRecv returns and has scattered, for every sender p and every k,
   each component of the block at p's k-th send entry for q to the same component of q's k-th receive entry for p — exactly once,
   and nothing else; the container is the old one with these calls applied (values: C05_delivery_values) *)
Theorem C05_delivery_end_to_end : forall fwd ifs gdata sdata szs szd,
  (forall p, NoDup (map fst (ifs p))) ->
  (forall p e l, In e (ifs p) -> In l (c05_sendside fwd (snd e)) -> (if fwd then szs p else szd p) l = c05_getsize (gdata p) l) ->
  (forall p e l, In e (ifs p) -> In l (c05_recvside fwd (snd e)) -> (if fwd then szd p else szs p) l = c05_getsize (sdata p) l) ->
  (forall p q, Forall2 (fun l l' => c05_getsize (gdata p) l = c05_getsize (sdata q) l') (c05_g_sendlist fwd ifs p q) (c05_g_recvlist fwd ifs q p)) ->
  forall add q order,
  Permutation order (map fst (c05_recvs fwd (c05_g_cm ifs szs szd q))) ->
  exists d' log',
    c05_recv_loop add fwd (c05_g_cm ifs szs szd q) (fun p => c05_g_msg fwd ifs gdata szs szd p q)
                  (c05_recvs fwd (c05_g_cm ifs szs szd q)) order (sdata q) [] = C05_Ok d' log' /\
    Permutation log' (c05_g_pair_calls fwd ifs gdata szs szd q) /\
    d' = c05_apply_calls add (sdata q) log' /\ c05_shape d' = c05_shape (sdata q).
Proof. exact P_end_to_end. Qed.
Print Assumptions C05_delivery_end_to_end.

(* the same for the executable all-ranks function c05_phase that the extracted driver runs (P ranks, every choice of completion
   orders): every rank returns C05_Ok — never C05_Stuck / C05_SizeMismatch / C05_BadOrder — with exactly the matched-pair calls *)
Theorem C05_phase_ok : forall fwd P ifs gd sd szs szd,
  (forall p, NoDup (map fst (ifs p))) ->
  (forall p q, In q (map fst (ifs p)) -> q < P) ->
  (forall p, P <= p -> ifs p = []) ->
  (forall p e l, In e (ifs p) -> In l (c05_sendside fwd (snd e)) -> (if fwd then szs p else szd p) l = c05_getsize (gd p) l) ->
  (forall p e l, In e (ifs p) -> In l (c05_recvside fwd (snd e)) -> (if fwd then szd p else szs p) l = c05_getsize (sd p) l) ->
  (forall p q, Forall2 (fun l l' => c05_getsize (gd p) l = c05_getsize (sd q) l') (c05_g_sendlist fwd ifs p q) (c05_g_recvlist fwd ifs q p)) ->
  forall add orders q, q < P ->
  Permutation (nth q orders []) (map fst (c05_recvs fwd (c05_g_cm ifs szs szd q))) ->
  exists d' log',
    nth q (c05_phase add fwd (map (c05_g_cm ifs szs szd) (seq 0 P)) (map gd (seq 0 P)) (map sd (seq 0 P)) orders) C05_Stuck = C05_Ok d' log' /\
    Permutation log' (c05_g_pair_calls fwd ifs gd szs szd q) /\
    d' = c05_apply_calls add (sd q) log' /\ c05_shape d' = c05_shape (sd q).
Proof. exact P_phase. Qed.
Print Assumptions C05_phase_ok.

(* ------------------------------------------------------------------ DatatypeCommunicator (MPI derived datatypes, no buffers)
   A datatype = list of (block start = local index, block length) built from an interface list and the container's layout
   (c05_dt_of); a send gathers through the typemap, a receive scatters through the typemap (c05_dt_pack / c05_dt_unpack).
   c05_dt_run executes ANY schedule of the transfers, each reading its sender's container as it is at that moment. *)

(* delivery under every interleaving: if, with one container per rank, no cell is both sent from and received into (the MPI rule
   for concurrently active requests; with separate send containers nothing is required), every rank ends with its initial
   container into which the transfers addressed to it were stored in schedule order, each carrying the INITIAL cells of its sender *)
Theorem C05_datatype_delivery : forall same (sT rT : nat -> nat -> c05_dtype) (G R0 : nat -> c05_data),
  (same = true -> c05_dt_nonoverlap sT rT) ->
  forall sched r,
  c05_dt_run same sT rT G sched R0 r =
  c05_dt_recv (rT r) (fun p => c05_dt_pack (if same then R0 p else G p) (sT p r)) (c05_dt_senders sched r) (R0 r).
Proof. exact P_dt_run. Qed.
Print Assumptions C05_datatype_delivery.

(* what a receive stores: with the datatypes of an interface, for every matched pair (k-th send entry of p for q, k-th receive
   entry of q for p) each component of the source block goes to the same component of the target entry (forward and backward);
   the container is the old one with these stores applied, and a cell no store addresses keeps its value *)
Theorem C05_datatype_pairs : forall fwd (m : nat -> c05_imap) (gd sd : nat -> c05_data),
  (forall p q, Forall2 (fun l l' => c05_getsize (gd p) l = c05_getsize (sd q) l') (c05_g_sendlist fwd m p q) (c05_g_recvlist fwd m q p)) ->
  forall p q,
  combine (c05_typemap (c05_dt_of (sd q) (c05_g_recvlist fwd m q p))) (c05_dt_pack (gd p) (c05_dt_of (gd p) (c05_g_sendlist fwd m p q))) =
  flat_map (fun ll => c05_block_calls (snd ll) (nth (fst ll) (gd p) [])) (combine (c05_g_sendlist fwd m p q) (c05_g_recvlist fwd m q p)).
Proof. exact P_dt_calls_pairs. Qed.
Print Assumptions C05_datatype_pairs.

Theorem C05_datatype_receive_is_stores : forall rT msgs order d,
  c05_dt_recv rT msgs order d = c05_apply_calls false d (flat_map (fun p => combine (c05_typemap (rT p)) (msgs p)) order).
Proof. exact dt_recv_apply. Qed.
Print Assumptions C05_datatype_receive_is_stores.

Theorem C05_untouched : forall add d cs l j, ~ In (l, j) (map fst cs) -> c05_get (c05_apply_calls add d cs) l j = c05_get d l j.
Proof. exact P_untouched. Qed.
Print Assumptions C05_untouched.

(* equality with the BufferedCommunicator under the copying policy, per rank and for ANY order of the datatype receives: the
   container equals the one the buffered receive loop produces when its (non-empty) receives complete in the same relative order.
   (createDataTypes does not strip empty neighbours; looking a neighbour up in the stripped map gives the same lists.) *)
Theorem C05_datatype_equals_buffered_copy : forall fwd ifs gd sd szs szd,
  (forall p, NoDup (map fst (ifs p))) ->
  (forall p e l, In e (ifs p) -> In l (c05_sendside fwd (snd e)) -> (if fwd then szs p else szd p) l = c05_getsize (gd p) l) ->
  (forall p e l, In e (ifs p) -> In l (c05_recvside fwd (snd e)) -> (if fwd then szd p else szs p) l = c05_getsize (sd p) l) ->
  (forall p q, Forall2 (fun l l' => c05_getsize (gd p) l = c05_getsize (sd q) l') (c05_g_sendlist fwd ifs p q) (c05_g_recvlist fwd ifs q p)) ->
  forall q order,
  let has_recv := fun p => existsb (Nat.eqb p) (map fst (c05_recvs fwd (c05_g_cm ifs szs szd q))) in
  Permutation (filter has_recv order) (map fst (c05_recvs fwd (c05_g_cm ifs szs szd q))) ->
  exists log,
    c05_recv_loop false fwd (c05_g_cm ifs szs szd q) (fun p => c05_g_msg fwd ifs gd szs szd p q)
                  (c05_recvs fwd (c05_g_cm ifs szs szd q)) (filter has_recv order) (sd q) [] =
    C05_Ok (c05_dt_recv (fun p => c05_dt_of (sd q) (c05_g_recvlist fwd ifs q p))
                        (fun p => c05_dt_pack (gd p) (c05_dt_of (gd p) (c05_g_sendlist fwd ifs p q))) order (sd q)) log.
Proof. exact P_dt_equals_buffered. Qed.
Print Assumptions C05_datatype_equals_buffered_copy.

Theorem C05_strip_keeps_lists : forall q (mm : c05_imap), NoDup (map fst mm) -> c05_find_if q (c05_strip mm) = c05_find_if q mm.
Proof. exact strip_find_if. Qed.
Print Assumptions C05_strip_keeps_lists.

(* ------------------------------------------------------------------ the two enumerations of the matched pairs
   i^t enumerated over the REMOTE SOURCE set (what c05_spec_recv and the oracle use) equals the enumeration over the OWN TARGET
   set (what Interface::build traverses, C05_interface_doc) for index sets sorted by pairwise distinct globals *)
Theorem C05_spec_enumerations_agree : forall ign As At S T,
  StronglySorted (fun a b => c05_ie_g a < c05_ie_g b) S -> StronglySorted (fun a b => c05_ie_g a < c05_ie_g b) T ->
  c05_spec_pairs ign As At S T = c05_spec_pairs_t ign As At S T.
Proof. exact P_pairs_agree. Qed.
Print Assumptions C05_spec_enumerations_agree.

(* hence the receive side of the model IS c05_spec_recv's list, for every decomposition with one entry per global index *)
Theorem C05_interface_recv_is_spec : forall ign src dst S T, NoDup (map c05_ie_g S) -> NoDup (map c05_ie_g T) ->
  map c05_re_l (c05_keep false src dst (c05_join (c05_published ign (c05_sort T)) (c05_published ign (c05_sort S)))) =
  map (fun ee => c05_ie_l (snd ee)) (c05_spec_pairs ign (c05_contains src) (c05_contains dst) (c05_sort S) (c05_sort T)).
Proof. exact PM_interface_recv_is_spec. Qed.
Print Assumptions C05_interface_recv_is_spec.

(* ------------------------------------------------------------------ buffer offset arithmetic as an invariant of build()
   in each of the two buffers the (start,size) intervals of messageInformation_ are ascending in process order, do not overlap,
   lie inside the buffer, and their sizes add up to exactly the allocated size (bufferSize_[k] in values) *)
Theorem C05_buffer_layout : forall szs szd ifs,
  let cm := c05_comm_build szs szd ifs in
  c05_layout_ok (map c05_iv_send (c05_cm_info cm)) 0 (c05_cm_b0 cm) /\
  c05_layout_ok (map c05_iv_recv (c05_cm_info cm)) 0 (c05_cm_b1 cm).
Proof. exact P_layout. Qed.
Print Assumptions C05_buffer_layout.

(* ------------------------------------------------------------------ FROM A DECOMPOSITION, no further hypotheses about interfaces
   For EVERY decomposition (one entry per global index in each set, entries inserted in any order, any attributes and public flags),
   every publicity mode, one or two index sets, every pair of flag sets, containers whose block size is a function of the global
   index (SizeOne: the constant 1), both directions, both policies, every rank and every completion order on every rank:
   sendRecv returns C05_Ok and has scattered exactly the matched-pair calls; the layout is unchanged.  All hypotheses of
   C05_phase_ok (unique ascending keys, ranks below P, pairing, layouts) are PROVED for c05_dec_ifs, not assumed.
   (Interface::build returns exactly c05_dec_ifs: C05_interface_spec.) *)
Theorem C05_decomposition_delivery : forall two ign src dst (dec : c05_decomp) (Sc Tc : nat -> c05_data) (sz : nat -> nat),
  (forall p, NoDup (map c05_ie_g (fst (nth p dec ([], [])))) /\ NoDup (map c05_ie_g (snd (nth p dec ([], []))))) ->
  (forall p e, In e (fst (nth p dec ([], []))) -> c05_getsize (Sc p) (c05_ie_l e) = sz (c05_ie_g e)) ->
  (forall p e, In e (snd (nth p dec ([], []))) -> c05_getsize (Tc p) (c05_ie_l e) = sz (c05_ie_g e)) ->
  forall (fwd add : bool) (orders : list (list nat)) (q : nat), q < length dec ->
  let ifs := c05_dec_ifs two ign src dst dec in
  let szs := fun (p l : nat) => c05_getsize (Sc p) l in let szd := fun (p l : nat) => c05_getsize (Tc p) l in
  let gd := fun p : nat => if fwd then Sc p else Tc p in let sd := fun p : nat => if fwd then Tc p else Sc p in
  Permutation (nth q orders []) (map fst (c05_recvs fwd (c05_g_cm ifs szs szd q))) ->
  exists d' log',
    nth q (c05_phase add fwd (map (c05_g_cm ifs szs szd) (seq 0 (length dec))) (map gd (seq 0 (length dec))) (map sd (seq 0 (length dec))) orders) C05_Stuck
      = C05_Ok d' log' /\
    Permutation log' (c05_g_pair_calls fwd ifs gd szs szd q) /\
    d' = c05_apply_calls add (sd q) log' /\ c05_shape d' = c05_shape (sd q).
Proof. exact PM_decomposition_delivery. Qed.
Print Assumptions C05_decomposition_delivery.

(* aliasing (one container per rank, as in forward(data) or forward(data, data) with the same object twice): the instance
   source container = target container; every scattered value is one the container held BEFORE the communication *)
Theorem C05_one_container_delivery : forall two ign src dst (dec : c05_decomp) (Dc : nat -> c05_data) (sz : nat -> nat),
  (forall p, NoDup (map c05_ie_g (fst (nth p dec ([], [])))) /\ NoDup (map c05_ie_g (snd (nth p dec ([], []))))) ->
  (forall p e, In e (fst (nth p dec ([], []))) -> c05_getsize (Dc p) (c05_ie_l e) = sz (c05_ie_g e)) ->
  (forall p e, In e (snd (nth p dec ([], []))) -> c05_getsize (Dc p) (c05_ie_l e) = sz (c05_ie_g e)) ->
  forall (fwd add : bool) (orders : list (list nat)) (q : nat), q < length dec ->
  let ifs := c05_dec_ifs two ign src dst dec in
  let szs := fun (p l : nat) => c05_getsize (Dc p) l in
  Permutation (nth q orders []) (map fst (c05_recvs fwd (c05_g_cm ifs szs szs q))) ->
  exists d' log',
    nth q (c05_phase add fwd (map (c05_g_cm ifs szs szs) (seq 0 (length dec))) (map Dc (seq 0 (length dec))) (map Dc (seq 0 (length dec))) orders) C05_Stuck
      = C05_Ok d' log' /\
    Permutation log' (c05_g_pair_calls fwd ifs Dc szs szs q) /\
    d' = c05_apply_calls add (Dc q) log' /\ c05_shape d' = c05_shape (Dc q).
Proof. exact PM_one_container_delivery. Qed.
Print Assumptions C05_one_container_delivery.

(* ------------------------------------------------------------------ the ORACLE of the check is the model's delivery
   checks/C05.py judges the impl with the extracted c05_spec_interface / c05_spec_scatter_fwd / c05_spec_scatter_bwd, which are
   set comprehensions over the RAW decomposition (the documentation's i^s, i^t and "every matched pair").  These theorems close
   the loop: for every decomposition they are exactly (interfaces) resp. up to order (calls) what Interface::build returns and
   what C05_decomposition_delivery says every communication scatters. *)
Theorem C05_oracle_interface : forall two ign src dst (dec : c05_decomp),
  (forall p, NoDup (map c05_ie_g (fst (nth p dec ([], [])))) /\ NoDup (map c05_ie_g (snd (nth p dec ([], []))))) ->
  forall p, p < length dec ->
  c05_spec_interface two ign (c05_contains src) (c05_contains dst) dec p = c05_dec_ifs two ign src dst dec p.
Proof. exact P_oracle_interface. Qed.
Print Assumptions C05_oracle_interface.

Theorem C05_oracle_forward : forall two ign src dst (dec : c05_decomp),
  (forall p, NoDup (map c05_ie_g (fst (nth p dec ([], [])))) /\ NoDup (map c05_ie_g (snd (nth p dec ([], []))))) ->
  forall (Sc Tc : nat -> c05_data) (sz : nat -> nat),
  (forall p e, In e (fst (nth p dec ([], []))) -> c05_getsize (Sc p) (c05_ie_l e) = sz (c05_ie_g e)) ->
  (forall p e, In e (snd (nth p dec ([], []))) -> c05_getsize (Tc p) (c05_ie_l e) = sz (c05_ie_g e)) ->
  forall q, q < length dec ->
  Permutation (c05_g_pair_calls true (c05_dec_ifs two ign src dst dec) Sc (fun p l => c05_getsize (Sc p) l) (fun p l => c05_getsize (Tc p) l) q)
              (c05_spec_scatter_fwd two ign (c05_contains src) (c05_contains dst) dec (map Sc (seq 0 (length dec))) q).
Proof. exact P_oracle_forward. Qed.
Print Assumptions C05_oracle_forward.

Theorem C05_oracle_backward : forall two ign src dst (dec : c05_decomp),
  (forall p, NoDup (map c05_ie_g (fst (nth p dec ([], [])))) /\ NoDup (map c05_ie_g (snd (nth p dec ([], []))))) ->
  forall (Sc Tc : nat -> c05_data) (sz : nat -> nat),
  (forall p e, In e (fst (nth p dec ([], []))) -> c05_getsize (Sc p) (c05_ie_l e) = sz (c05_ie_g e)) ->
  (forall p e, In e (snd (nth p dec ([], []))) -> c05_getsize (Tc p) (c05_ie_l e) = sz (c05_ie_g e)) ->
  forall p, p < length dec ->
  Permutation (c05_g_pair_calls false (c05_dec_ifs two ign src dst dec) Tc (fun p l => c05_getsize (Sc p) l) (fun p l => c05_getsize (Tc p) l) p)
              (c05_spec_scatter_bwd two ign (c05_contains src) (c05_contains dst) dec (map Tc (seq 0 (length dec))) p).
Proof. exact P_oracle_backward. Qed.
Print Assumptions C05_oracle_backward.

(* ------------------------------------------------------------------ repeated use
   any sequence of forward/backward communications (any policies, any completion orders) on communicators built once: every
   single communication returns on every rank with the matched-pair calls of the containers as they are then; layouts never
   change.  (One container per rank is the instance Sc = Tc of the single-phase theorems; here two container families.) *)
Theorem C05_repeated_use : forall ifs (Sc0 Tc0 : nat -> c05_data) szs szd,
  (forall p, NoDup (map fst (ifs p))) ->
  (forall p e l, In e (ifs p) -> In l (fst (snd e)) -> szs p l = c05_getsize (Sc0 p) l) ->
  (forall p e l, In e (ifs p) -> In l (snd (snd e)) -> szd p l = c05_getsize (Tc0 p) l) ->
  (forall p q, Forall2 (fun l l' => c05_getsize (Sc0 p) l = c05_getsize (Tc0 q) l') (c05_g_sendlist true ifs p q) (c05_g_recvlist true ifs q p)) ->
  forall h ph rest, Forall (c05_ph_orders_ok ifs szs szd) (h ++ ph :: rest) ->
  let st := c05_seq_run ifs szs szd h (Sc0, Tc0) in
  (forall p, c05_shape (fst st p) = c05_shape (Sc0 p) /\ c05_shape (snd st p) = c05_shape (Tc0 p)) /\
  forall q, exists d' log',
    c05_seq_result ifs szs szd st ph q = C05_Ok d' log' /\
    Permutation log' (c05_g_pair_calls (c05_ph_fwd ph) ifs (if c05_ph_fwd ph then fst st else snd st) szs szd q) /\
    c05_shape d' = c05_shape ((if c05_ph_fwd ph then snd st else fst st) q).
Proof. exact P_repeated_use. Qed.
Print Assumptions C05_repeated_use.

(* ------------------------------------------------------------------ the objects: histories of build / free / strip / communicate *)
(* BufferedCommunicator: after ANY history a build() leaves exactly the communicator of the new interface (rebuild, also after
   free()), and any number of forward()/backward() calls leave the object unchanged *)
Theorem C05_communicator_history : forall h szs szd ifs n,
  c05_bobj_run (h ++ C05_BBuild szs szd ifs :: repeat C05_BCommunicate n) = c05_comm_build szs szd ifs.
Proof. exact P_bobj_history. Qed.
Print Assumptions C05_communicator_history.

(* Interface: after free() a build() succeeds and yields the interface of the definition whatever happened before (a later
   strip() changes nothing); a build() on a non-empty interface trips assert(interfaces_.empty()) *)
Theorem C05_interface_history : forall h src dst rm, c05_iobj_run h <> None ->
  c05_iobj_run (h ++ [C05_IFree; C05_IBuild src dst rm]) = Some (c05_iface_def src dst rm) /\
  c05_iobj_run (h ++ [C05_IFree; C05_IBuild src dst rm; C05_IStrip]) = Some (c05_iface_def src dst rm).
Proof. exact P_iobj_build_after_free. Qed.
Print Assumptions C05_interface_history.

Theorem C05_interface_build_twice_asserts : forall h src dst rm src' dst' rm', c05_iface_def src dst rm <> [] ->
  c05_iobj_run (h ++ [C05_IFree; C05_IBuild src dst rm; C05_IBuild src' dst' rm']) = None \/ c05_iobj_run h = None.
Proof. exact P_iobj_build_twice. Qed.
Print Assumptions C05_interface_build_twice_asserts.

(* ------------------------------------------------------------------ DatatypeCommunicator: the persistent requests, literally
   forward(): receive into receiveData with the receive types, send from sendData with the send types; backward(): receive into
   sendData, send from receiveData — every request with the datatype built from THAT container (the clause a swap of the
   createRequests arguments breaks); request slots as in the source *)
Theorem C05_datatype_requests : forall types,
  c05_dt_forward_requests types =
    (map (fun e => {| c05_rq_proc := fst e; c05_rq_cont := C05_ReceiveData; c05_rq_type := c05_dt_recvtype true (snd e) |}) types,
     map (fun e => {| c05_rq_proc := fst e; c05_rq_cont := C05_SendData; c05_rq_type := c05_dt_sendtype true (snd e) |}) types) /\
  c05_dt_backward_requests types =
    (map (fun e => {| c05_rq_proc := fst e; c05_rq_cont := C05_SendData; c05_rq_type := c05_dt_recvtype false (snd e) |}) types,
     map (fun e => {| c05_rq_proc := fst e; c05_rq_cont := C05_ReceiveData; c05_rq_type := c05_dt_sendtype false (snd e) |}) types).
Proof. exact P_dt_requests. Qed.
Print Assumptions C05_datatype_requests.

Theorem C05_datatype_requests_consistent : forall src dst rm sd rd types,
  c05_dt_build src dst rm sd rd = Some types ->
  forall r, In r (fst (c05_dt_forward_requests types) ++ snd (c05_dt_forward_requests types) ++
                  fst (c05_dt_backward_requests types) ++ snd (c05_dt_backward_requests types)) ->
  exists info, c05_rq_type r = c05_dt_of (match c05_rq_cont r with C05_SendData => sd | C05_ReceiveData => rd end) info.
Proof. exact P_dt_requests_consistent. Qed.
Print Assumptions C05_datatype_requests_consistent.

(* ------------------------------------------------------------------ constants and code shapes re-read from the source
   (coq/Params_gen.v is regenerated by tools/params.d/C05.py on every run): every transcribed code shape is still present,
   the two communicator classes use different message tags (so a receive of one never matches a send of the other), and
   forward()/backward() use the request slots createRequests<true>/<false> filled *)
Theorem C05_source_matches_model :
  forallb (fun b => b) c05_param_all_shapes = true /\
  c05_param_buffered_tag <> c05_param_datatype_tag /\
  c05_param_dt_slot_used_by_forward = c05_dt_slot true /\
  c05_param_dt_slot_used_by_backward = c05_dt_slot false /\
  c05_dt_slot true <> c05_dt_slot false.
Proof. exact P_source_matches_model. Qed.
Print Assumptions C05_source_matches_model.

Theorem C05_tags_disjoint : forall src sender,
  c05_recv_matches src c05_param_buffered_tag sender c05_param_datatype_tag = false /\
  c05_recv_matches src c05_param_datatype_tag sender c05_param_buffered_tag = false /\
  c05_recv_matches src c05_param_buffered_tag sender c05_param_buffered_tag = (src =? sender).
Proof. exact P_tags_disjoint. Qed.
Print Assumptions C05_tags_disjoint.

(* ------------------------------------------------------------------ repeated build() of one communicator object (F-C05-1)
   c05_comm_build_over old = build() as it is in the tree (std::map::insert into the messageInformation_ of a previous build);
   the delivery statement is REFUTED for it: after building for {0: send [0;1], receive [0;1]} and then for {0: send [1],
   receive [0]}, rank 1 still posts the receive of the first build and the one-value message does not fit (in the C++: the
   buffer-size assertion of sendRecv fails / stale sizes with NDEBUG) — while the communicator built from scratch delivers. *)
Theorem C05_rebuild_refuted :
  exists old szs szd ifs msgs d,
    let cm := c05_comm_build_over old szs szd ifs in
    let cm' := c05_comm_build szs szd ifs in
    c05_recv_loop false true cm msgs (c05_recvs true cm) [0] d [] = C05_SizeMismatch /\
    exists d' log', c05_recv_loop false true cm' msgs (c05_recvs true cm') [0] d [] = C05_Ok d' log'.
Proof. exact PM_rebuild_refuted. Qed.
Print Assumptions C05_rebuild_refuted.

(* with fixes/C05-1 (free() first, i.e. an empty messageInformation_) build() is c05_comm_build, for which all theorems above hold *)
Theorem C05_build_after_free : forall szs szd ifs, NoDup (map fst ifs) ->
  StronglySorted (fun a b => fst a < fst b) ifs ->
  c05_comm_build_over [] szs szd ifs = c05_comm_build szs szd ifs.
Proof. exact P_build_over_empty. Qed.
Print Assumptions C05_build_after_free.

(* ------------------------------------------------------------------ members outside the communication path
   Interface::operator== (after fixes/C05-2) decides equality of the interface maps; the tree's version (F-C05-2: each list is
   compared with itself) is refuted; Selection holds exactly the local indices of the entries whose attribute is in the set;
   the flag-set combinators are the boolean algebra their names say. *)
Theorem C05_interface_equality : forall m o, c05_iface_eqb m o = true <-> m = o.
Proof. exact P_iface_eqb. Qed.
Print Assumptions C05_interface_equality.

Theorem C05_interface_equality_tree_refuted :
  c05_iface_eqb_tree [(1, ([1], [2]))] [(1, ([2], [1]))] = true /\ [(1, ([1], [2]))] <> [(1, ([2], [1]))].
Proof. exact P_iface_eqb_tree_refuted. Qed.
Print Assumptions C05_interface_equality_tree_refuted.

Theorem C05_selection_spec : forall s is l,
  In l (c05_selection s is) <-> exists e, In e is /\ c05_ie_l e = l /\ c05_contains s (c05_ie_a e) = true.
Proof. exact P_selection_spec. Qed.
Print Assumptions C05_selection_spec.

Theorem C05_flagset_algebra : forall s t x i a b,
  c05_contains C05_Empty x = false /\ c05_contains C05_All x = true /\
  (c05_contains (C05_Item i) x = true <-> x = i) /\
  (c05_contains (C05_Range a b) x = true <-> a <= x <= b) /\
  c05_contains (C05_Negate s) x = negb (c05_contains s x) /\
  c05_contains (C05_Combine s t) x = c05_contains s x || c05_contains t x.
Proof. exact P_flagset_algebra. Qed.
Print Assumptions C05_flagset_algebra.

(* ------------------------------------------------------------------ non-vacuity *)
Definition ex_rm : c05_rmap :=
  [(1, ([ {| c05_re_attr := 1; c05_re_g := 1; c05_re_l := 1; c05_re_a := 0 |}; {| c05_re_attr := 0; c05_re_g := 2; c05_re_l := 2; c05_re_a := 1 |} ],
        [ {| c05_re_attr := 1; c05_re_g := 1; c05_re_l := 1; c05_re_a := 0 |}; {| c05_re_attr := 0; c05_re_g := 2; c05_re_l := 2; c05_re_a := 1 |} ]));
   (2, ([ {| c05_re_attr := 2; c05_re_g := 0; c05_re_l := 0; c05_re_a := 2 |} ], []))].
Example C05_ex_interface : c05_interface_build (C05_Item 0) (C05_Item 1) ex_rm = Some [(1, ([1], [2]))].
Proof. vm_compute. reflexivity. Qed.

Example C05_ex_pairing_hyp :
  Forall2 c05_mirror [ {| c05_re_attr := 1; c05_re_g := 1; c05_re_l := 1; c05_re_a := 0 |}; {| c05_re_attr := 0; c05_re_g := 2; c05_re_l := 2; c05_re_a := 1 |} ]
                     [ {| c05_re_attr := 0; c05_re_g := 1; c05_re_l := 0; c05_re_a := 1 |}; {| c05_re_attr := 1; c05_re_g := 2; c05_re_l := 1; c05_re_a := 0 |} ].
Proof. repeat constructor. Qed.

(* rank 1 of a two-rank exchange: interface {0: send [1], receive [0;2]}, variable layout [2;1;1], message of 3 values from rank 0 *)
Example C05_ex_matched : NoDup (map fst (c05_recvs true ex_cm)) /\ c05_matched true ex_cm ex_msgs (c05_shape ex_d) /\
  c05_recvs true ex_cm = [(0, 3)].
Proof. exact PM_ex_matched. Qed.
Example C05_ex_delivery :
  c05_recv_loop true true ex_cm ex_msgs (c05_recvs true ex_cm) [0] ex_d [] = C05_Ok [[17; 19]; [20]; [39]]%N [(0, 0, 7%N); (0, 1, 8%N); (2, 0, 9%N)].
Proof. vm_compute. reflexivity. Qed.
Example C05_ex_offsets : c05_cm_info (c05_comm_build (fun _ => 1) (fun _ => 1) [(0, ([], [])); (1, ([4; 5], [6])); (3, ([], [7])); (4, ([8], []))])
  = [(1, ({| c05_mi_start := 0; c05_mi_size := 2 |}, {| c05_mi_start := 0; c05_mi_size := 1 |}));
     (3, ({| c05_mi_start := 2; c05_mi_size := 0 |}, {| c05_mi_start := 1; c05_mi_size := 1 |}));
     (4, ({| c05_mi_start := 2; c05_mi_size := 1 |}, {| c05_mi_start := 2; c05_mi_size := 0 |}))].
Proof. vm_compute. reflexivity. Qed.

(* two ranks exchanging in both directions: the global hypotheses hold and rank 1 receives what rank 0 gathered *)
Example C05_ex_global_hyps :
  (forall p, NoDup (map fst (ex_ifs p))) /\
  (forall p q, Forall2 (fun l l' => c05_getsize (ex_g p) l = c05_getsize (ex_g q) l') (c05_g_sendlist true ex_ifs p q) (c05_g_recvlist true ex_ifs q p)) /\
  c05_g_pair_calls true ex_ifs ex_g ex_sz ex_sz 1 = [(0, 0, 1%N); (0, 1, 2%N); (2, 0, 3%N)].
Proof. exact PM_ex_global_hyps. Qed.

(* a two-rank decomposition given in unsorted insertion order: the hypotheses of C05_decomposition_delivery hold and the
   extracted all-ranks function delivers (forward, accumulate, descending completion order) *)
Example C05_ex_decomposition :
  (forall p, NoDup (map c05_ie_g (fst (nth p ex_dec ([], [])))) /\ NoDup (map c05_ie_g (snd (nth p ex_dec ([], []))))) /\
  let ifs := c05_dec_ifs false true (C05_Item 0) (C05_Item 1) ex_dec in
  ifs 0 = [(1, ([1], [2]))] /\ ifs 1 = [(0, ([1], [0]))] /\
  let szs := fun (p l : nat) => c05_getsize (ex_Sc p) l in
  c05_phase true true (map (c05_g_cm ifs szs szs) (seq 0 2)) (map ex_Sc (seq 0 2)) (map ex_Sc (seq 0 2)) [[1]; [0]] =
  [C05_Ok [[1]; [2]; [23]]%N [(2, 0, 20%N)]; C05_Ok [[12]; [20]; [30]]%N [(0, 0, 2%N)]].
Proof. exact PM_ex_decomposition. Qed.
Example C05_ex_history :
  c05_cm_info (c05_bobj_run [C05_BBuild (fun _ => 1) (fun _ => 1) [(0, ([0; 1], [0; 1]))]; C05_BCommunicate; C05_BFree;
                             C05_BBuild (fun _ => 1) (fun _ => 1) [(0, ([1], [0]))]; C05_BCommunicate; C05_BCommunicate])
  = [(0, ({| c05_mi_start := 0; c05_mi_size := 1 |}, {| c05_mi_start := 0; c05_mi_size := 1 |}))].
Proof. vm_compute. reflexivity. Qed.

(* ------------------------------------------------------------------ round 6: OBJECT HISTORY x COMMUNICATOR
   A communicator is the list of its processes in rank order; the neighbour numbers of an interface are ranks of the
   communicator of the RemoteIndices it was built from, and a message reaches the process that has that rank in the
   communicator the communicating object hands to MPI.  Interface::communicator() after ANY history (constructor
   argument, earlier builds from remote indices on other communicators, free(), strip()) is the communicator of the
   remote indices of the last build(); interfaces() is what the communicator-free object of C05_interface_history has. *)
Theorem C05_interface_communicator_history : forall comm0 h,
  c05_ic_comm (c05_icobj_run comm0 h) = c05_spec_last_comm comm0 h /\
  c05_ic_ifs (c05_icobj_run comm0 h) = c05_iobj_run (map c05_icop_forget h).
Proof. exact P_icobj_history. Qed.
Print Assumptions C05_interface_communicator_history.

Theorem C05_interface_communicator_after_build : forall comm0 h src dst rm rc,
  c05_ic_ifs (c05_icobj_run comm0 h) <> None ->
  let o := c05_icobj_run comm0 (h ++ [C05_ICFree; C05_ICBuild src dst rm rc]) in
  c05_ic_comm o = rc /\ c05_ic_ifs o = Some (c05_iface_def src dst rm) /\
  c05_ic_comm (c05_icobj_step o C05_ICStrip) = rc /\ c05_ic_comm (c05_icobj_step o C05_ICFree) = rc.
Proof. exact P_icobj_build_after_free. Qed.
Print Assumptions C05_interface_communicator_after_build.

(* BufferedCommunicator: after ANY history, build(interface) carries the communicator of THAT interface and the message
   layout of its map; forward()/backward() change neither *)
Theorem C05_communicator_communicator_history : forall h szs szd i n,
  let o := c05_bcobj_run (h ++ C05_BCBuild szs szd i :: repeat C05_BCCommunicate n) in
  c05_bc_comm o = c05_ic_comm i /\ c05_bc_cm o = c05_comm_build szs szd (c05_ic_map i).
Proof. exact P_bcobj_history. Qed.
Print Assumptions C05_communicator_communicator_history.

(* DatatypeCommunicator: the requests of the last build() are on the communicator of ITS remote indices *)
Theorem C05_datatype_communicator_history : forall h src dst rm rc sd rd n,
  let o := c05_dcobj_run (h ++ C05_DCBuild src dst rm rc sd rd :: repeat C05_DCCommunicate n) in
  c05_dc_comm o = rc /\ c05_dc_types o = c05_dt_build src dst rm sd rd.
Proof. exact P_dcobj_history. Qed.
Print Assumptions C05_datatype_communicator_history.

(* handing MPI the communicator the interfaces are numbered by: the process-level phase is the rank-level phase *)
Theorem C05_same_communicator_routing : forall g add fwd cms gdata sdata orders, NoDup g ->
  length cms = length g -> length gdata = length g -> length sdata = length g -> length orders = length g ->
  c05_phase_on g g add fwd cms gdata sdata orders = c05_phase add fwd cms gdata sdata orders.
Proof. exact P_phase_on_same. Qed.
Print Assumptions C05_same_communicator_routing.

Theorem C05_datatype_same_communicator_routing : forall g fwd types gdata sdata orders, NoDup g ->
  length types = length g -> length gdata = length g -> length sdata = length g -> length orders = length g ->
  c05_dt_phase_on g g fwd types gdata sdata orders = c05_dt_phase fwd types gdata sdata orders.
Proof. exact P_dt_phase_on_same. Qed.
Print Assumptions C05_datatype_same_communicator_routing.

(* MAIN: per rank an arbitrary earlier life of the Interface object (constructor communicator comm0, history ihist with
   builds on ANY communicators) and of the BufferedCommunicator object (bhist); then free() + build() of the interface from
   remote indices on `built`, build() of the communicator from it, n communications.  The phase the objects run (routing by
   the communicator THEY carry) is the rank-level phase of communicators built from scratch from the interfaces of the
   definition — the object of C05_delivery, C05_terminates, C05_decomposition_delivery. *)
Theorem C05_object_history_delivery : forall built src dst n (rs : list c05_rank_hist) add fwd gdata sdata orders,
  NoDup built -> length rs = length built -> length gdata = length built -> length sdata = length built ->
  length orders = length built ->
  (forall r, In r rs -> c05_ic_ifs (c05_icobj_run (c05_rh_comm0 r) (c05_rh_ihist r)) <> None) ->
  c05_phase_objs built add fwd (map (c05_rh_communicator built src dst n) rs) gdata sdata orders =
  c05_phase add fwd (map (fun r => c05_comm_build (c05_rh_szs r) (c05_rh_szd r) (c05_iface_def src dst (c05_rh_rm r))) rs)
            gdata sdata orders.
Proof. exact P_object_history_delivery. Qed.
Print Assumptions C05_object_history_delivery.

(* the dimension is not vacuous: the same three communicators run on the communicator with the reversed rank order (what an
   Interface that kept the communicator of an earlier life would hand to MPI) swap the two messages of the middle process *)
Theorem C05_stale_communicator_misroutes :
  c05_phase_on [0; 1; 2] [0; 1; 2] false true ex6_cms ex6_data ex6_data ex6_orders =
    c05_phase false true ex6_cms ex6_data ex6_data ex6_orders /\
  nth 1 (c05_phase false true ex6_cms ex6_data ex6_data ex6_orders) C05_Stuck =
    C05_Ok [[20]; [10]; [30]]%N [(1, 0, 10%N); (2, 0, 30%N)] /\
  nth 1 (c05_phase_on [2; 1; 0] [0; 1; 2] false true ex6_cms ex6_data ex6_data ex6_orders) C05_Stuck =
    C05_Ok [[20]; [30]; [10]]%N [(1, 0, 30%N); (2, 0, 10%N)].
Proof. exact P_stale_communicator_misroutes. Qed.
Print Assumptions C05_stale_communicator_misroutes.

(* non-vacuity of C05_object_history_delivery: three ranks whose Interface objects were constructed with the REVERSED
   communicator and built on it before, and whose BufferedCommunicator objects were built from that earlier interface *)
Definition ex6_rm (p : nat) : c05_rmap :=
  let e g l a ra := {| c05_re_attr := ra; c05_re_g := g; c05_re_l := l; c05_re_a := a |} in
  match p with
  | 0 => [(1, ([e 0 0 0 1], [e 1 1 1 0]))]
  | 1 => [(0, ([e 1 0 0 1], [e 0 1 1 0])); (2, ([e 1 0 0 1], [e 2 2 1 0]))]
  | _ => [(1, ([e 2 0 0 1], [e 1 1 1 0]))]
  end.
Definition ex6_rank (p : nat) : c05_rank_hist :=
  let old := C05_ICBuild C05_All C05_All (ex6_rm (2 - p)) (Some [2; 1; 0]) in
  {| c05_rh_comm0 := Some [2; 1; 0]; c05_rh_ihist := [old; C05_ICStrip];
     c05_rh_bhist := [C05_BCBuild (fun _ => 1) (fun _ => 1) (c05_icobj_run (Some [2; 1; 0]) [old]); C05_BCCommunicate];
     c05_rh_szs := fun _ => 1; c05_rh_szd := fun _ => 1; c05_rh_rm := ex6_rm p |}.
Example C05_ex_object_history :
  NoDup [0; 1; 2] /\
  (forall r, In r (map ex6_rank [0; 1; 2]) -> c05_ic_ifs (c05_icobj_run (c05_rh_comm0 r) (c05_rh_ihist r)) <> None) /\
  map (fun r => c05_ic_comm (c05_icobj_run (c05_rh_comm0 r) (c05_rh_ihist r))) (map ex6_rank [0; 1; 2]) = repeat (Some [2; 1; 0]) 3 /\
  map (fun r => c05_bc_comm (c05_rh_communicator [0; 1; 2] (C05_Item 0) (C05_Item 1) 2 r)) (map ex6_rank [0; 1; 2]) = repeat (Some [0; 1; 2]) 3 /\
  nth 1 (c05_phase_objs [0; 1; 2] false true (map (c05_rh_communicator [0; 1; 2] (C05_Item 0) (C05_Item 1) 2) (map ex6_rank [0; 1; 2]))
                        ex6_data ex6_data ex6_orders) C05_Stuck = C05_Ok [[20]; [10]; [30]]%N [(1, 0, 10%N); (2, 0, 30%N)].
Proof.
  split; [repeat constructor; simpl; intuition discriminate|].
  split; [intros r [E|[E|[E|[]]]]; subst r; vm_compute; discriminate|].
  vm_compute. repeat split; reflexivity.
Qed.
