(* C06 — property theorems.  ONLY statements, each closed by `exact <lemma>` and followed by Print Assumptions.
   Model: C06_Model.v (transcription of dune/common/parallel/variablesizecommunicator.hh), Spec: C06_Spec.v.
   A link is one ordered pair sender -> receiver; c06_lstep/c06_gstep are the transition systems of one link / of all
   processes; a schedule is the list of completion events MPI reports (any order, any interleaving).
   c06_fixnew = true is the code in the tree (after fix d582b38 = fixes/C06-1.patch), false the code before it. *)
From Coq Require Import List Arith Bool PeanoNat.
From DuneV Require Import C06_Model C06_Model_Params C06_Spec C06_Proofs C06_Proofs_Case C06_Counters C06_Proofs_Params C06_Proofs_Count.
Import ListNotations.

(* ---------------------------------------------------------------- termination, all schedules, both code variants *)

(* every event any process can observe strictly decreases the measure c06_gmu ... *)
Theorem C06_event_decreases : forall c e c', c06_gstep c e = Some c' -> c06_gmu c' < c06_gmu c.
Proof. exact P_event_decreases. Qed.
Print Assumptions C06_event_decreases.

(* ... so no schedule, however long or adversarial, fires more than c06_gmu events ... *)
Theorem C06_schedules_bounded : forall evs c c', c06_exec c evs = Some c' -> length evs + c06_gmu c' <= c06_gmu c.
Proof. exact P_exec_bounded. Qed.
Print Assumptions C06_schedules_bounded.

(* ... and the runner (with the fuel the driver uses) always stops because nothing is enabled, never for lack of fuel *)
Theorem C06_terminates : forall sched c,
  let r := c06_run (c06_case_fuel c) sched c in snd r = true /\ c06_enabled (fst r) = [].
Proof. exact (fun sched c => P_terminates (c06_case_fuel c) sched c (P_case_fuel c)). Qed.
Print Assumptions C06_terminates.

(* ---------------------------------------------------------------- F-C06-1: termination is not return *)

(* The code as it was before fix d582b38 (c06_fixnew = false): one link 0 -> 1, variable-size handle, three indices of size 0, buffer of 4 items.
   The run stops in a configuration in which no event is enabled, the receiver still has a posted receive and the
   sender has no request: process 1 never returns from forward(). *)
Theorem C06_progress_refuted :
  exists c, fst (c06_run 100 [] (c06_witness_cfg false)) = c /\
            c06_enabled c = [] /\ c06_returned c = false /\
            (exists l, c_links c = [l] /\ l_rreq l = RPosted /\ l_sreq l = SNull).
Proof. exact P_progress_refuted. Qed.
Print Assumptions C06_progress_refuted.

(* the same configuration with the code after fixes/C06-1.patch: every process returns *)
Theorem C06_witness_fixed_code_returns :
  let c := fst (c06_run 100 [] (c06_witness_cfg true)) in c06_enabled c = [] /\ c06_returned c = true.
Proof. exact P_witness_fixed_code_returns. Qed.
Print Assumptions C06_witness_fixed_code_returns.

(* ---------------------------------------------------------------- rounds agree *)

(* variable sizes: the block of j indices the sender packs into one message (zero-size indices included, as many whole
   indices as fit) is exactly the block the receiver unpacks from it knowing only the sizes and the item count;
   it scatters every non-empty entry with its index, count and items and ends on the same index as the sender *)
Theorem C06_rounds_agree : forall buf sl rl pos m l',
  c06_pack_var buf pos sl = (m, l') -> map (@length nat) sl = map snd rl ->
  forall fuel unp b log, length (c06_skip_zero rl) < fuel ->
  exists j, l' = skipn j sl /\
    c06_unpack_var fuel (unp + length m) unp (m ++ b) (c06_skip_zero rl) log =
      Some (Some (c06_skip_zero (skipn j rl), log ++ c06_nonzero (calls_of (map fst (firstn j rl)) (firstn j sl)))).
Proof. exact var_round. Qed.
Print Assumptions C06_rounds_agree.

(* fixed size f: n whole entries packed, the same n entries scattered *)
Theorem C06_rounds_agree_fixed : forall f n sl rl log b, length sl = length rl -> n <= length sl ->
  (forall e, In e sl -> length e = f) ->
  c06_scatter_fixed f n (concat (firstn n sl) ++ b) rl log = (skipn n rl, log ++ calls_of (firstn n rl) (firstn n sl)).
Proof. exact scatter_fixed_spec. Qed.
Print Assumptions C06_rounds_agree_fixed.

(* one round keeps the two trackers in sync (Sync_var: same place in the index list, no pending zero-size index,
   scattered so far ++ still to send = spec), for every buffer size that can hold the largest entry *)
Theorem C06_round_keeps_sync : forall buf all s r, Sync_var buf all s r -> c06_sfin s = false ->
  exists m s', c06_pack buf s = (m, s') /\ m <> [] /\ Sync_var buf all s' (c06_unpack buf m r).
Proof. exact var_H2. Qed.
Print Assumptions C06_round_keeps_sync.

(* ---------------------------------------------------------------- delivery and progress, all schedules *)

(* Fixed-size handles, the whole system (any number of processes and links incl. self links, any index lists with
   repetitions, any buffer >= fixed size): after ANY sequence of events, if no event is enabled then every process
   has returned and the scatter log of every link is exactly the spec.  (The global system is the product of its
   links: C06_independent_pairs for this mode is GInvF_step, used here.) *)
Theorem C06_delivery_fixed : forall buf fixnew ds np evs c',
  Forall (fun d => c06_link_ok_fixed buf (d_f d) (d_entries d) (d_ridx d) = true) ds ->
  c06_exec (fixed_cfg buf fixnew ds np) evs = Some c' -> c06_enabled c' = [] ->
  c06_returned c' = true /\
  Forall2 (fun d l => c06_nonzero (c06_log l) = c06_spec_link (d_entries d) (d_ridx d) /\ l_src l = l_src l) ds (c_links c').
Proof. exact P_delivery_fixed. Qed.
Print Assumptions C06_delivery_fixed.

Theorem C06_independent_pairs_fixed : forall ds c e c', GInvF ds c -> c06_gstep c e = Some c' -> GInvF ds c'.
Proof. exact GInvF_step. Qed.
Print Assumptions C06_independent_pairs_fixed.

(* Variable-size handles, code after fixes/C06-1.patch, the whole system: any number of processes and links (incl.
   self links, empty lists, repeated indices), any sizes >= 0 incl. interfaces whose sizes are all zero, any buffer
   that holds the largest entry (1..many rounds in both the size exchange and the data phase), ANY sequence of
   completion events and per-process phase switches: if no event is enabled then every process has returned and the
   scatter log of every link, zero-length calls dropped, is exactly the spec (index, count and items of the k-th
   gathered entry for the k-th receive index, in order). Together with C06_schedules_bounded: every schedule reaches
   such a configuration after at most c06_gmu events. *)
Theorem C06_delivery : forall buf ds np evs c',
  Forall (fun d => c06_link_ok_var buf (v_entries d) (v_ridx d) = true /\ v_src d < np /\ v_dst d < np) ds ->
  c06_exec (var_cfg buf ds np) evs = Some c' -> c06_enabled c' = [] ->
  c06_returned c' = true /\
  Forall2 (fun d l => c06_nonzero (c06_log l) = c06_spec_link (v_entries d) (v_ridx d)) ds (c_links c').
Proof. exact P_delivery_var. Qed.
Print Assumptions C06_delivery.

(* every way of constructing the communicator only fixes the buffer size (explicit argument, else the macro
   DUNE_PARALLEL_MAX_COMMUNICATION_BUFFER_SIZE, else the default re-read from the source into Params_gen; copies and
   assignments copy it): delivery holds for whichever constructor was used, provided the resulting buffer can hold
   the largest entry *)
Theorem C06_delivery_any_ctor : forall explicit macro ds np evs c', let buf := c06_ctor_buf explicit macro in
  Forall (fun d => c06_link_ok_var buf (v_entries d) (v_ridx d) = true /\ v_src d < np /\ v_dst d < np) ds ->
  c06_exec (var_cfg buf ds np) evs = Some c' -> c06_enabled c' = [] ->
  c06_returned c' = true /\
  Forall2 (fun d l => c06_nonzero (c06_log l) = c06_spec_link (v_entries d) (v_ridx d)) ds (c_links c').
Proof. exact (fun explicit macro => P_delivery_var (c06_ctor_buf explicit macro)). Qed.
Print Assumptions C06_delivery_any_ctor.

Theorem C06_ctor_buf_cases : forall b m, c06_ctor_buf (Some b) m = b /\ c06_ctor_buf None (Some b) = b /\
  c06_ctor_buf None None = NArith.BinNat.N.to_nat DuneV.Params_gen.c06_param_default_buffer.
Proof. exact P_ctor_buf_cases. Qed.
Print Assumptions C06_ctor_buf_cases.

(* the global system is the product of the per-pair systems coupled only by the per-process barrier: every global
   event preserves, for every link, the per-link invariant VInv, and the phase flags of the links agree with the
   phases of their processes *)
Theorem C06_independent_pairs : forall buf ds c e c', GInvV buf ds c -> c06_gstep c e = Some c' -> GInvV buf ds c'.
Proof. exact GInvV_step. Qed.
Print Assumptions C06_independent_pairs.

(* the per-pair system on its own (switch events allowed whenever the respective half has a null request, which
   over-approximates every barrier): invariant, readiness for the barrier, final state *)
Theorem C06_pair_invariant : forall buf entries ridx, c06_link_ok_var buf entries ridx = true ->
  (forall src dst, VInv buf entries ridx (c06_link_init_var buf src dst entries ridx)) /\
  (forall l e l', VInv buf entries ridx l -> c06_lstep buf true l e = Some l' -> VInv buf entries ridx l') /\
  (forall l, VInv buf entries ridx l -> (forall e, phase_event e = true -> c06_lstep buf true l e = None) ->
     (l_sph l = false -> l_sreq l = SNull) /\ (l_rph l = false -> l_rreq l = RNull)) /\
  (forall l, VInv buf entries ridx l -> (forall e, c06_lstep buf true l e = None) ->
     c06_link_quiet l = true /\ c06_nonzero (c06_log l) = c06_spec_link entries ridx).
Proof.
  exact (fun buf entries ridx Ok => conj (VInv_init buf entries ridx Ok)
        (conj (VInv_step buf entries ridx Ok) (conj (VInv_ready buf entries ridx) (VInv_final buf entries ridx)))).
Qed.
Print Assumptions C06_pair_invariant.

(* what the correspondence check runs (c06_init on a generated case, variable-size handle, fixed code) IS such a
   var_cfg, and the oracle string c06_spec_case is c06_spec_link mapped over the same link descriptions *)
Theorem C06_driver_runs_var_cfg : forall backward buf ni w np sizes es c,
  c06_init true backward true buf ni w np sizes es = Some c ->
  exists ds, c = var_cfg buf ds np /\
    c06_spec_case backward ni w np sizes es = Some (map (fun d => (v_src d, v_dst d, c06_spec_link (v_entries d) (v_ridx d))) ds).
Proof. exact (fun backward => P_init_is_var_cfg backward true). Qed.
Print Assumptions C06_driver_runs_var_cfg.

(* the size exchange on its own: the receiver learns exactly the sizes of the sender's entries *)
Theorem C06_size_phase : forall buf fixnew entries ridx src dst evs l',
  c06_link_ok_var buf entries ridx = true ->
  lexec buf fixnew (c06_link_init_var buf src dst entries ridx) evs = Some l' ->
  phase_outcome buf fixnew l' (fun l' => l_r l' = RSz 0 (map (@length nat) entries) ridx /\ c06_sswitch (l_s l') = mkS 0 entries []).
Proof. exact P_size_phase. Qed.
Print Assumptions C06_size_phase.

(* Not pursued: C06_delivery for the code BEFORE fix d582b38 (c06_fixnew = false) under the guard c06_some_positive.
   That code is no longer in the tree; without the guard the statement is false (C06_progress_refuted).  The check
   still measures on every run which of the two model variants the tree follows. *)

(* ---------------------------------------------------------------- the property, sentence by sentence, at the level of a case *)

(* MAIN THEOREM (variable-size handles).  c06_case_ok_var is the property's precondition as an executable predicate
   (symmetric maps, matching list lengths, buffer >= 1 and >= every single index sent); nothing else is assumed:
   the configuration c06_init builds exists, and under EVERY schedule the run stops because no event is enabled (not
   for lack of fuel), every process has returned from forward()/backward(), and the observation -- per ordered pair
   (p,q) the scatter calls of q with >= 1 item: (k-th receive index, count, items) -- is exactly the spec: the items
   p's handle gathered for its k-th send index.  `backward` is universally quantified. *)
Theorem C06_case_delivery : forall backward buf ni w np sizes es,
  c06_case_ok_var backward buf np sizes es = true ->
  exists c0, c06_init true backward true buf ni w np sizes es = Some c0 /\
    forall sched, let r := c06_run (c06_case_fuel c0) sched c0 in
      snd r = true /\ c06_returned (fst r) = true /\ Some (c06_observe (fst r)) = c06_spec_case backward ni w np sizes es.
Proof. exact P_case_delivery_var. Qed.
Print Assumptions C06_case_delivery.

(* the same for fixed-size handles (both code variants: the fix does not touch this path) *)
Theorem C06_case_delivery_fixed : forall backward fixnew buf ni w np sizes es,
  c06_case_ok_fixed backward buf np sizes es = true ->
  exists c0, c06_init false backward fixnew buf ni w np sizes es = Some c0 /\
    forall sched, let r := c06_run (c06_case_fuel c0) sched c0 in
      snd r = true /\ c06_returned (fst r) = true /\ Some (c06_observe (fst r)) = c06_spec_case backward ni w np sizes es.
Proof. exact P_case_delivery_fixed. Qed.
Print Assumptions C06_case_delivery_fixed.

(* C06_progress, positive form for the current code: every configuration reachable by any event sequence in which
   some process has not yet returned enables an event (the refuted statement above is about the code before d582b38) *)
Theorem C06_progress : forall buf ds np evs c,
  Forall (fun d => c06_link_ok_var buf (v_entries d) (v_ridx d) = true /\ v_src d < np /\ v_dst d < np) ds ->
  c06_exec (var_cfg buf ds np) evs = Some c -> c06_returned c = false -> c06_enabled c <> [].
Proof. exact P_progress_var. Qed.
Print Assumptions C06_progress.

Theorem C06_progress_fixed : forall buf fixnew ds np evs c,
  Forall (fun d => c06_link_ok_fixed buf (d_f d) (d_entries d) (d_ridx d) = true) ds ->
  c06_exec (fixed_cfg buf fixnew ds np) evs = Some c -> c06_returned c = false -> c06_enabled c <> [].
Proof. exact P_progress_fixed. Qed.
Print Assumptions C06_progress_fixed.

(* the runner performs nothing but executions of the transition system (so statements about c06_exec apply to it) *)
Theorem C06_run_is_execution : forall fuel sched c, exists evs, c06_exec c evs = Some (fst (c06_run fuel sched c)).
Proof. exact run_exec. Qed.
Print Assumptions C06_run_is_execution.

(* "no item is lost, duplicated, truncated or attributed to another index, the receiver is told the correct count":
   what the spec (and hence every run) hands to scatter is, concatenated, exactly the concatenation of what was
   gathered, in order; the counts are the non-zero gather sizes in order; each count is the number of items handed over *)
Theorem C06_exactly_once_in_order : forall entries ridx, length entries = length ridx ->
  concat (map snd (c06_spec_link entries ridx)) = concat entries /\
  map (fun c : c06_call => snd (fst c)) (c06_spec_link entries ridx) = filter (fun n => negb (n =? 0)) (map (@length nat) entries) /\
  Forall (fun c : c06_call => snd (fst c) = length (snd c) /\ snd (fst c) <> 0) (c06_spec_link entries ridx).
Proof. exact spec_items. Qed.
Print Assumptions C06_exactly_once_in_order.

(* forward and backward are symmetric: a backward communication is the forward communication of the transposed
   interface (first and second list of every map entry exchanged), configuration and spec alike *)
Theorem C06_backward_is_forward_transposed : forall variable fixnew buf ni w np sizes es,
  c06_init variable true fixnew buf ni w np sizes es = c06_init variable false fixnew buf ni w np sizes (map c06_swap es) /\
  c06_spec_case true ni w np sizes es = c06_spec_case false ni w np sizes (map c06_swap es).
Proof. exact P_backward_is_forward_transposed. Qed.
Print Assumptions C06_backward_is_forward_transposed.

(* OUTSIDE the precondition "the buffer can hold the largest single index": such an index is not rejected (no
   exception, no error return): PackEntries packs nothing, no Issend is issued, the send tracker stays unfinished with a
   null request, and the peer waits forever.  General fact + a concrete stuck run (1 index of 3 items, buffer 2). *)
Theorem C06_oversize_not_rejected :
  (forall buf e t nx, buf < length e ->
     c06_pack buf (mkS 0 (e :: t) nx) = ([], mkS 0 (e :: t) nx) /\
     c06_send_setup buf (mkS 0 (e :: t) nx) = (mkS 0 (e :: t) nx, SNull, [])) /\
  (let c := fst (c06_run (c06_case_fuel c06_oversize_cfg) [] c06_oversize_cfg) in
   c06_enabled c = [] /\ c06_returned c = false /\ map c06_log (c_links c) = [[]]).
Proof. exact (conj P_oversize_never_packed P_oversize_stuck). Qed.
Print Assumptions C06_oversize_not_rejected.

(* the communicator object: copy construction and copy assignment carry over buffer size and interface identity and
   own a fresh communicator; self-assignment changes nothing; the buffer size is the one the constructor fixed *)
Theorem C06_special_members : forall explicit macro iface f1 f2 f3 this,
  let a := c06_vsc_ctor explicit macro iface f1 in
  (vsc_buf (c06_vsc_copy a f2) = vsc_buf a /\ vsc_iface (c06_vsc_copy a f2) = iface /\ vsc_comm (c06_vsc_copy a f2) = f2) /\
  (vsc_buf (c06_vsc_assign this a false f3) = vsc_buf a /\ vsc_iface (c06_vsc_assign this a false f3) = iface /\
   vsc_comm (c06_vsc_assign this a false f3) = f3) /\
  c06_vsc_assign a a true f3 = a /\
  vsc_buf a = c06_ctor_buf explicit macro.
Proof. exact P_vsc_members. Qed.
Print Assumptions C06_special_members.

(* construction from an rvalue is a copy (no move members exist); std::swap exchanges buffer size and interface identity,
   both objects end up with fresh communicators *)
Theorem C06_move_and_swap : forall a b f1 f2 f3,
  (vsc_buf (c06_vsc_move a f1) = vsc_buf a /\ vsc_iface (c06_vsc_move a f1) = vsc_iface a /\ vsc_comm (c06_vsc_move a f1) = f1) /\
  (let (a', b') := c06_vsc_swap a b f1 f2 f3 in
   vsc_buf a' = vsc_buf b /\ vsc_iface a' = vsc_iface b /\ vsc_buf b' = vsc_buf a /\ vsc_iface b' = vsc_iface a /\
   vsc_comm a' = f2 /\ vsc_comm b' = f3).
Proof. exact P_vsc_move_swap. Qed.
Print Assumptions C06_move_and_swap.

(* the fixedSize scalar and the size/data messages use different tags (re-read from the source on every run), which is
   what allows the model to keep them on separate channels; send and receive side of each channel agree on the tag *)
Theorem C06_tags_distinct : c06_channels_separate = true.
Proof. exact P_tags_distinct. Qed.
Print Assumptions C06_tags_distinct.

(* ---------------------------------------------------------------- the count handed to scatter in the fixed-size protocol (round 6) *)

(* "the receiver is told the correct item count", fixed-size handles: on a link whose sender announced f (tracker.fixedSize of
   the send tracker, sent on tag 933881), EVERY scatter call the receiver ever makes -- after any event sequence, in every
   reachable state, not only at the end -- is told n = f.  No precondition: any entries, index lists, buffer, and ANY value
   `own` the receive tracker was constructed with (the receiver's own handle.size(), which may differ from f, incl. 0). *)
Theorem C06_fixed_count_is_announced : forall buf fixnew src dst f own entries ridx evs l',
  c06_lexec_any buf fixnew (c06_link_init_fixed buf src dst f own entries ridx) evs = Some l' ->
  Forall (fun c : c06_call => snd (fst c) = f) (c06_log l').
Proof. exact P_fixed_count_link. Qed.
Print Assumptions C06_fixed_count_is_announced.

(* the same for the whole system: every link, every event sequence any set of processes can observe *)
Theorem C06_fixed_count_all_links : forall buf fixnew ds np evs c',
  c06_exec (fixed_cfg buf fixnew ds np) evs = Some c' ->
  Forall2 (fun d l => Forall (fun c : c06_call => snd (fst c) = d_f d) (c06_log l)) ds (c_links c').
Proof. exact P_fixed_count_global. Qed.
Print Assumptions C06_fixed_count_all_links.

(* and for what the correspondence runs: in the configuration c06_init builds for a fixed-size case, link p -> q is described
   by d_f = the size rank p's setupInterfaceTrackers computed for q (c06_fixed_sizes over p's map) and d_own = the size rank q
   computed for p (c06_own_fixed); under every schedule and any fuel every scatter count on the link is d_f *)
Theorem C06_case_fixed_count : forall backward fixnew buf ni w np sizes es c0,
  c06_init false backward fixnew buf ni w np sizes es = Some c0 ->
  exists ds, c06_fdescs backward ni w np sizes es = Some ds /\
    forall fuel sched, Forall2 (fun d l => Forall (fun c : c06_call => snd (fst c) = d_f d) (c06_log l)) ds (c_links (fst (c06_run fuel sched c0))).
Proof. exact P_case_fixed_count. Qed.
Print Assumptions C06_case_fixed_count.

(* the receiver's own size is never looked at: two links that differ only in it produce the same scatter log under every
   event sequence (and are enabled/disabled alike) *)
Theorem C06_receiver_own_size_irrelevant : forall buf fixnew src dst f own1 own2 entries ridx evs,
  option_map c06_log (c06_lexec_any buf fixnew (c06_link_init_fixed buf src dst f own1 entries ridx) evs) =
  option_map c06_log (c06_lexec_any buf fixnew (c06_link_init_fixed buf src dst f own2 entries ridx) evs).
Proof. exact P_own_size_irrelevant. Qed.
Print Assumptions C06_receiver_own_size_irrelevant.

(* ---------------------------------------------------------------- the counters of the progress loops *)

(* size_to_send/size_to_recv and no_to_send/no_to_recv (initialised by std::count_if over the request vectors,
   decremented by what checkAndContinue returns: 1 for a completed request whose tracker is finished, 0 otherwise)
   equal, after every event of every execution of a valid variable-size case, the number of non-null requests of the
   process (c06_counters_step is the loop arithmetic, counters_exact the claim) ... *)
Theorem C06_counters_track : forall buf ds c e c' k, GInvV buf ds c -> c06_gstep c e = Some c' ->
  counters_exact k c -> counters_exact (c06_counters_step c e c' k) c'.
Proof. exact P_counters_step. Qed.
Print Assumptions C06_counters_track.

(* ... hence "while(no_to_send+no_to_recv)" is left exactly when every request of the process is null, which is the
   condition the transition system uses for the per-process switch and for "has returned" ... *)
Theorem C06_counters_zero_iff_requests_null : forall buf ds np evs c' k',
  Forall (fun d => c06_link_ok_var buf (v_entries d) (v_ridx d) = true /\ v_src d < np /\ v_dst d < np) ds ->
  c06_exec_k (var_cfg buf ds np) (c06_counters_init (var_cfg buf ds np)) evs = Some (c', k') ->
  forall p, fst (k' p) + snd (k' p) = 0 <->
            forall l, In l (c_links c') -> (l_src l = p -> l_sreq l = SNull) /\ (l_dst l = p -> l_rreq l = RNull).
Proof. exact P_counters_var. Qed.
Print Assumptions C06_counters_zero_iff_requests_null.

(* ... and at the end of every run, under every schedule, all counters of all processes are zero *)
Theorem C06_counters_end_of_run : forall buf ds np sched,
  Forall (fun d => c06_link_ok_var buf (v_entries d) (v_ridx d) = true /\ v_src d < np /\ v_dst d < np) ds ->
  let c0 := var_cfg buf ds np in
  let k := snd (c06_run_k (c06_case_fuel c0) sched c0 (c06_counters_init c0)) in
  forall p, k p = (0, 0).
Proof. exact P_counters_run. Qed.
Print Assumptions C06_counters_end_of_run.
(* Not modelled: the counters of communicateFixedSize (no_size_to_recv/no_to_send/no_to_recv start at interface_->size()
   minus the empty trackers and the receive branch is gated by validRecvRequests); for fixed-size handles the
   transition system's "all requests null, scalar reported" condition stands for them, tied by the correspondence only. *)

(* ---------------------------------------------------------------- non-vacuity *)
Example C06_ex_rounds : c06_pack_var 4 0 [[7]; []; [8; 9]; [1; 2]] = ([7; 8; 9], [[1; 2]]).
Proof. vm_compute; reflexivity. Qed.

Example C06_ex_fixed_run :
  let c0 := fixed_cfg 3 false [mkFD 0 1 2 2 [[1;2];[3;4];[5;6]] [9;8;7]; mkFD 1 0 2 2 [] []; mkFD 1 1 2 2 [[7;7]] [0]] 2 in
  c06_link_ok_fixed 3 2 [[1;2];[3;4];[5;6]] [9;8;7] = true /\
  let c := fst (c06_run (c06_case_fuel c0) [3;1;4;1;5;9;2;6] c0) in
  c06_returned c = true /\ map c06_log (c_links c) = [[(9,2,[1;2]);(8,2,[3;4]);(7,2,[5;6])]; []; [(0,2,[7;7])]].
Proof. vm_compute. repeat split; reflexivity. Qed.

Example C06_ex_var_run :
  let ds := [mkVD 0 1 [[]; [1;2;3]; []; [4]] [5;6;7;8]; mkVD 1 0 [[]; []] [3;3]; mkVD 1 1 [[9]; [9]; [9;9]] [0;0;1]] in
  let c0 := var_cfg 3 ds 2 in
  Forall (fun d => c06_link_ok_var 3 (v_entries d) (v_ridx d) = true /\ v_src d < 2 /\ v_dst d < 2) ds /\
  let c := fst (c06_run (c06_case_fuel c0) [2;7;1;8;2;8;1;8;2;8;4;5;9;0;4;5] c0) in
  c06_returned c = true /\
  map (fun l => c06_nonzero (c06_log l)) (c_links c) = [[(6,3,[1;2;3]); (8,1,[4])]; []; [(0,1,[9]); (0,1,[9]); (1,2,[9;9])]].
Proof. vm_compute. repeat split; repeat constructor. Qed.

Example C06_ex_var_link : c06_link_ok_var 3 [[]; [1;2;3]; []; [4]] [5;6;7;8] = true /\
  c06_spec_link [[]; [1;2;3]; []; [4]] [5;6;7;8] = [(6,3,[1;2;3]); (8,1,[4])].
Proof. vm_compute. split; reflexivity. Qed.

Example C06_ex_case :
  let es := [mkE 0 0 [1] [0]; mkE 0 1 [0;1;1] []; mkE 1 0 [] [1;0;0]] in
  let sizes := [[2;0];[1;1]] in
  c06_case_ok_var false 2 2 sizes es = true /\ c06_case_ok_var true 2 2 sizes es = true /\
  c06_spec_case false 2 4 2 sizes es = Some [(0,0,[]); (0,1,[(1,2,[0;1])]); (1,0,[])] /\
  (exists c0, c06_init true false true 2 2 4 2 sizes es = Some c0 /\
     Some (c06_observe (fst (c06_run (c06_case_fuel c0) [5;3;1;4;1;5;9;2;6] c0))) = c06_spec_case false 2 4 2 sizes es).
Proof. vm_compute. repeat split. eexists. split; reflexivity. Qed.

Example C06_ex_case_fixed :
  let es := [mkE 0 0 [1] [0]; mkE 0 1 [0;1;1] []; mkE 1 0 [] [1;0;0]] in
  let sizes := [[2;2];[2;2]] in
  c06_case_ok_fixed false 2 2 sizes es = true /\
  c06_spec_case false 2 4 2 sizes es = Some [(0,0,[(0,2,[4;5])]); (0,1,[(1,2,[0;1]); (0,2,[4;5]); (0,2,[4;5])]); (1,0,[])].
Proof. vm_compute. split; reflexivity. Qed.

Example C06_ex_exactly_once : concat (map snd (c06_spec_link [[]; [1;2;3]; []; [4]] [5;6;7;8])) = [1;2;3;4].
Proof. vm_compute; reflexivity. Qed.

Example C06_ex_counters :
  let c0 := var_cfg 3 [mkVD 0 1 [[]; [1;2;3]; []; [4]] [5;6;7;8]; mkVD 1 0 [[]; []] [3;3]] 2 in
  c06_counters_init c0 0 = (1, 1) /\ c06_counters_init c0 1 = (1, 1) /\
  snd (c06_run_k (c06_case_fuel c0) [2;7;1;8;2;8] c0 (c06_counters_init c0)) 1 = (0, 0).
Proof. vm_compute. repeat split. Qed.

(* fixed sizes that differ between the two ends of every link: 0 announces 2 to 1 (whose own size is 3) and to 2 (a pure
   receiver whose handle reports 0), 1 announces 3 to 0 (own size 2); two rounds on 0 -> 1 (buffer 5) *)
Example C06_ex_fixed_sizes_differ :
  let ds := [mkFD 0 1 2 3 [[1;2];[3;4];[5;6]] [9;8;7]; mkFD 0 2 2 0 [[1;2]] [4]; mkFD 1 0 3 2 [[5;6;7]] [0]; mkFD 2 0 1 2 [] []] in
  let c0 := fixed_cfg 5 true ds 3 in
  Forall (fun d => c06_link_ok_fixed 5 (d_f d) (d_entries d) (d_ridx d) = true) ds /\
  let c := fst (c06_run (c06_case_fuel c0) [3;1;4;1;5;9;2;6;5;3;5] c0) in
  c06_returned c = true /\
  map c06_log (c_links c) = [[(9,2,[1;2]);(8,2,[3;4]);(7,2,[5;6])]; [(4,2,[1;2])]; [(0,3,[5;6;7])]; []].
Proof. vm_compute. repeat split; repeat constructor. Qed.

(* the same at the level of a case: rank 0 gathers 2 items per index, rank 1 gathers 3, rank 2 reports 0 and only receives *)
Example C06_ex_case_fixed_sizes_differ :
  let es := [mkE 0 1 [0;1] [1]; mkE 0 2 [1] []; mkE 1 0 [1] [1;0]; mkE 2 0 [] [0]] in
  let sizes := [[2;2];[3;3];[0;0]] in
  c06_case_ok_fixed false 6 3 sizes es = true /\
  c06_own_fixed false sizes es 1 0 = 3 /\ c06_own_fixed false sizes es 2 0 = 1 /\ c06_own_fixed false sizes es 0 1 = 2 /\
  c06_spec_case false 2 4 3 sizes es =
    Some [(0,1,[(1,2,[0;1]); (0,2,[4;5])]); (0,2,[(0,2,[4;5])]); (1,0,[(1,3,[12;13;14])]); (2,0,[])] /\
  (exists c0, c06_init false false true 6 2 4 3 sizes es = Some c0 /\
     Some (c06_observe (fst (c06_run (c06_case_fuel c0) [5;3;1;4;1;5;9;2;6] c0))) = c06_spec_case false 2 4 3 sizes es).
Proof. vm_compute. repeat split. eexists. split; reflexivity. Qed.
