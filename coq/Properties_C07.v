(* C07 — property theorems.  ONLY statements, each closed by `exact <lemma>` and followed by Print Assumptions.
   Model: C07_Model.v (transcription of mpicommunication.hh / communication.hh / mpitraits.hh / mpidata.hh / mpipack.hh),
   Spec: C07_Spec.v.  The MPI library's own collectives are the trusted semantics c07_MPI_*. *)
From Coq Require Import List NArith ZArith Bool Arith Permutation.
From DuneV Require Import Params_gen C07_Model C07_Spec C07_Proofs C07_Proofs_Coll C07_Proofs_Data C07_Proofs_Audit2.
Import ListNotations.

(* rrecv (MPI_Mprobe + MPI_Get_count + resize + MPI_Mrecv): for every element type with a non-empty packed size, every sent
   sequence and every prior content of the receiving container, the result has exactly the sender's length and holds the
   sender's elements (merge = identity for fully communicated types) *)
Theorem C07_rrecv_len : forall (E : Type) (merge : E -> E -> E) (d : E) tsize sent data, 0 < tsize ->
  exists r, c07_rrecv E merge d tsize sent data = Some r /\ length r = length sent /\
            r = c07_map2 merge sent (c07_resize E d data (length sent)).
Proof. exact P_rrecv_len. Qed.
Print Assumptions C07_rrecv_len.

(* The functor trampoline (Generic_MPI_Op::operation = c07_tramp) under ANY reduction schedule an MPI library may choose for an op
   created with commute=true: for every associative and commutative f, every process count P >= 1, every vector length, every binary
   tree t whose leaves are any arrangement of the ranks 0..P-1, the result is the rank-order reduction  x0 f x1 f ... f x(P-1)
   (hence sum/prod/min/max/allreduce<F> return the rank-order fold on every process). *)
Theorem C07_user_op : forall (E : Type) (f : E -> E -> E),
  (forall a b c, f (f a b) c = f a (f b c)) -> (forall a b, f a b = f b a) ->
  forall (xs : list (list E)) (t : c07_tree),
    Permutation (c07_tree_leaves t) (seq 0 (length xs)) ->
    c07_tree_eval f xs t = c07_reduce_ranks f xs.
Proof. exact P_user_op. Qed.
Print Assumptions C07_user_op.

(* ... and component j of that result is the sequential left fold of the ranks' j-th components *)
Theorem C07_user_op_elementwise : forall (E : Type) (f : E -> E -> E),
  (forall a b c, f (f a b) c = f a (f b c)) -> (forall a b, f a b = f b a) ->
  forall (x : list E) (r : list (list E)) (t : c07_tree) j d,
    Permutation (c07_tree_leaves t) (seq 0 (length (x :: r))) ->
    (forall v, In v (x :: r) -> j < length v) ->
    nth j (c07_tree_eval f (x :: r) t) d = fold_left f (map (fun v => nth j v d) r) (nth j x d).
Proof. exact P_user_op_elementwise. Qed.
Print Assumptions C07_user_op_elementwise.

(* non-vacuity: 4 ranks, the tree ((3,1),(0,2)), Z.max / Z.add *)
Example C07_user_op_example :
  let t := C07_Node (C07_Node (C07_Leaf 3) (C07_Leaf 1)) (C07_Node (C07_Leaf 0) (C07_Leaf 2)) in
  let xs := [[1; 20]; [5; -3]; [2; 7]; [4; 4]]%Z in
  c07_tree_eval Z.add xs t = [12; 28]%Z /\ c07_reduce_ranks Z.add xs = [12; 28]%Z /\
  c07_tree_eval Z.max xs t = [5; 20]%Z /\ Permutation (c07_tree_leaves t) (seq 0 (length xs)).
Proof. exact P_user_op_example. Qed.

(* ---- Communication<No_Comm> behaves like the one-process case of the MPI collectives (fully communicated element types:
   the received element is the sent one, idm).  `wrap` lifts the single buffer to the one-rank buffer list. ---- *)
Theorem C07_sequential_fixed_len : forall (E : Type) (f : E -> E -> E) len (inb out : list E), len <= length inb -> len <= length out ->
  wrap E (c07_seq_gather E len inb out) = c07_mpi_gather E (idm E) 0 len [inb] [out] /\
  wrap E (c07_seq_scatter E len inb out) = c07_mpi_scatter E (idm E) 0 len [inb] [out] /\
  wrap E (c07_seq_allgather E len inb out) = c07_mpi_allgather E (idm E) len [inb] [out] /\
  wrap E (c07_seq_allreduce E len inb out) = c07_mpi_allreduce E (idm E) f len [inb] [out].
Proof. exact P_seq_fixed_len. Qed.
Print Assumptions C07_sequential_fixed_len.

(* gatherv / allgatherv / scatterv with ANY displacement: the code after fixes/C07-1.patch (c07_seq_gatherv etc.) *)
Theorem C07_sequential_v : forall (E : Type) sendlen displ (inb out : list E),
  (sendlen <= length inb -> displ + sendlen <= length out ->
     wrap E (c07_seq_gatherv E sendlen displ inb out) = c07_mpi_gatherv E (idm E) 0 [inb] [sendlen] [displ] [out] /\
     wrap E (c07_seq_allgatherv E sendlen displ inb out) = c07_mpi_allgatherv E (idm E) [inb] [sendlen] [displ] [out]) /\
  (displ + sendlen <= length inb -> sendlen <= length out ->
     wrap E (c07_seq_scatterv E sendlen displ inb out) = c07_mpi_scatterv E (idm E) 0 [inb] [sendlen] [displ] [out]).
Proof. exact P_seq_v. Qed.
Print Assumptions C07_sequential_v.

(* scalar and non-blocking forms (iallgather: the code after fixes/C07-2.patch) *)
Theorem C07_sequential_scalar : forall (E : Type) (f : E -> E -> E) (x o : E) (out inb : list E),
  c07_mpi_allreduce E (idm E) f 1 [[x]] [[o]] = Some [[x]] /\
  wrap E (c07_seq_igather E x (o :: out)) = c07_mpi_igather E (idm E) 0 [[x]] [o :: out] /\
  wrap E (c07_seq_iallgather E x (o :: out)) = c07_mpi_iallgather E (idm E) [[x]] [o :: out] /\
  (match c07_seq_iscatter E (x :: inb) with Some y => Some [[y]] | None => None end) = c07_mpi_iscatter E (idm E) 0 [[x]] [[o]] /\
  c07_mpi_bcast E (idm E) 0 (length out) [out] = Some [out] /\
  c07_mpi_allreduce_inplace E (idm E) f (length out) [out] = Some [out].
Proof. exact P_seq_scalar. Qed.
Print Assumptions C07_sequential_scalar.

(* the code as it is in the unfixed tree (F-C07-1, F-C07-2): the statement is FALSE for a non-zero displacement
   (witness in = {1,2,3}, out = 7 x -1, displ = 2; replayed on the C++ code by corpus/C07/cases.txt) ... *)
Theorem C07_sequential_current_code_refuted :
  exists (inb out : list Z) sendlen displ,
    sendlen <= length inb /\ displ + sendlen <= length out /\
    wrap Z (c07_seq_gatherv_cur Z sendlen displ inb out) <> c07_mpi_gatherv Z (idm Z) 0 [inb] [sendlen] [displ] [out] /\
    wrap Z (c07_seq_allgatherv_cur Z sendlen displ inb out) <> c07_mpi_allgatherv Z (idm Z) [inb] [sendlen] [displ] [out] /\
    wrap Z (c07_seq_scatterv_cur Z sendlen displ (inb ++ inb) out) <> c07_mpi_scatterv Z (idm Z) 0 [inb ++ inb] [sendlen] [displ] [out] /\
    wrap Z (c07_seq_iallgather_cur Z 7%Z out) <> c07_mpi_iallgather Z (idm Z) [[7%Z]] [out].
Proof. exact P_seq_cur_refuted. Qed.
Print Assumptions C07_sequential_current_code_refuted.

(* ... and true for displacement 0, where current and fixed code coincide *)
Theorem C07_sequential_current_code_displ0 : forall (E : Type) sendlen (inb out : list E),
  c07_seq_gatherv_cur E sendlen 0 inb out = c07_seq_gatherv E sendlen 0 inb out /\
  c07_seq_scatterv_cur E sendlen 0 inb out = c07_seq_scatterv E sendlen 0 inb out.
Proof. exact seq_cur_displ0. Qed.
Print Assumptions C07_sequential_current_code_displ0.

Example C07_sequential_example :
  c07_seq_gatherv Z 3 2 [1; 2; 3]%Z [-1; -1; -1; -1; -1; -1]%Z = Some [-1; -1; 1; 2; 3; -1]%Z /\
  c07_mpi_gatherv Z (idm Z) 0 [[1; 2; 3]%Z] [3] [2] [[-1; -1; -1; -1; -1; -1]%Z] = Some [[-1; -1; 1; 2; 3; -1]%Z].
Proof. split; vm_compute; reflexivity. Qed.

(* ---- MPIPack: over ANY basic encoders/decoders of the MPI library satisfying "unpack inverts pack whatever follows", for EVERY
   sequence of well-typed static and dynamic items written to a fresh pack: cursor = buffer size (eof) after writing; after seek(0),
   reading the same type sequence returns the same values (hence the same lengths for dynamic items), leaves the buffer unchanged
   and the cursor at the end. ---- *)
Theorem C07_pack_roundtrip : forall (B V T : Type) (zeroB : B) (enc : T -> V -> list B) (dec : T -> list B -> option (V * list B))
    (enc_len : nat -> list B) (dec_len : list B -> option (nat * list B)) (wt : T -> V -> Prop) (lenok : nat -> Prop),
  (forall t v rest, wt t v -> dec t (enc t v ++ rest) = Some (v, rest)) ->
  (forall n rest, lenok n -> dec_len (enc_len n ++ rest) = Some (n, rest)) ->
  forall items, Forall (wt_item V T wt lenok) items ->
    let p := c07_pk_write_all B V T zeroB enc enc_len (c07_pk_empty B) items in
    c07_pk_tell B p = c07_pk_size B p /\ c07_pk_eof B p = true /\
    exists p', c07_pk_read_all B V T dec dec_len (c07_pk_seek B p 0) (map fst items) = Some (map snd items, p') /\
               c07_pk_buf B p' = c07_pk_buf B p /\ c07_pk_tell B p' = c07_pk_tell B p /\ c07_pk_eof B p' = true.
Proof. exact P_pack_roundtrip. Qed.
Print Assumptions C07_pack_roundtrip.

(* a write at any cursor inside the buffer: bytes before the cursor survive, the buffer never shrinks, the cursor advances by the
   item's bytes, which are found at the old cursor *)
Theorem C07_pack_write_keeps_prefix : forall (B V T : Type) (zeroB : B) (enc : T -> V -> list B) (enc_len : nat -> list B)
    (p : c07_pack B) (pt : c07_ptype T) (els : list (list V)), c07_pk_pos B p <= length (c07_pk_buf B p) ->
  let p' := c07_pk_write B V T zeroB enc enc_len p pt els in
  firstn (c07_pk_pos B p) (c07_pk_buf B p') = firstn (c07_pk_pos B p) (c07_pk_buf B p) /\
  length (c07_pk_buf B p) <= length (c07_pk_buf B p') /\
  c07_pk_pos B p' = c07_pk_pos B p + length (c07_item_bytes B V T enc enc_len pt els) /\ c07_pk_pos B p' <= length (c07_pk_buf B p') /\
  firstn (length (c07_item_bytes B V T enc enc_len pt els)) (skipn (c07_pk_pos B p) (c07_pk_buf B p')) = c07_item_bytes B V T enc enc_len pt els.
Proof. exact P_pack_write_keeps_prefix. Qed.
Print Assumptions C07_pack_write_keeps_prefix.

(* an OVERWRITING write (pack() after seek() to any cursor inside the buffer): size = max(old size, cursor+size) -- the buffer is never
   shrunk --, every byte before the cursor and every byte from cursor+size on is unchanged, the item's bytes sit at the old cursor *)
Theorem C07_pack_write_overwrite : forall (B V T : Type) (zeroB : B) (enc : T -> V -> list B) (enc_len : nat -> list B)
    (p : c07_pack B) (pt : c07_ptype T) (els : list (list V)), c07_pk_pos B p <= length (c07_pk_buf B p) ->
  let p' := c07_pk_write B V T zeroB enc enc_len p pt els in
  let n := length (c07_item_bytes B V T enc enc_len pt els) in
  length (c07_pk_buf B p') = Nat.max (length (c07_pk_buf B p)) (c07_pk_pos B p + n) /\
  firstn (c07_pk_pos B p) (c07_pk_buf B p') = firstn (c07_pk_pos B p) (c07_pk_buf B p) /\
  firstn n (skipn (c07_pk_pos B p) (c07_pk_buf B p')) = c07_item_bytes B V T enc enc_len pt els /\
  skipn (c07_pk_pos B p + n) (c07_pk_buf B p') = skipn (c07_pk_pos B p + n) (c07_pk_buf B p) /\
  c07_pk_pos B p' = c07_pk_pos B p + n.
Proof. exact P_pack_write_overwrite. Qed.
Print Assumptions C07_pack_write_overwrite.

(* round trip through an overwrite (placeholder pattern): write items1, a slot, items2; seek back to the slot; pack a new value of the
   same packed size; seek(end): size unchanged, eof; after seek(0) the whole type sequence reads back with the NEW value in the slot and
   all other items intact, ending at eof *)
Theorem C07_pack_overwrite_roundtrip : forall (B V T : Type) (zeroB : B) (enc : T -> V -> list B) (dec : T -> list B -> option (V * list B))
    (enc_len : nat -> list B) (dec_len : list B -> option (nat * list B)) (wt : T -> V -> Prop) (lenok : nat -> Prop),
  (forall t v rest, wt t v -> dec t (enc t v ++ rest) = Some (v, rest)) ->
  (forall n rest, lenok n -> dec_len (enc_len n ++ rest) = Some (n, rest)) ->
  forall items1 items2 pt old new,
    Forall (wt_item V T wt lenok) (items1 ++ (pt, new) :: items2) ->
    length (c07_item_bytes B V T enc enc_len pt old) = length (c07_item_bytes B V T enc enc_len pt new) ->
    let p := c07_pk_write_all B V T zeroB enc enc_len (c07_pk_empty B) (items1 ++ (pt, old) :: items2) in
    let p1 := c07_pk_write B V T zeroB enc enc_len (c07_pk_seek B p (length (all_bytes B V T enc enc_len items1))) pt new in
    let p2 := c07_pk_seek B p1 (c07_pk_size B p1) in
    c07_pk_size B p1 = c07_pk_size B p /\ c07_pk_eof B p2 = true /\
    exists p', c07_pk_read_all B V T dec dec_len (c07_pk_seek B p2 0) (map fst (items1 ++ (pt, new) :: items2))
               = Some (map snd (items1 ++ (pt, new) :: items2), p') /\ c07_pk_eof B p' = true.
Proof. exact P_pack_overwrite_roundtrip. Qed.
Print Assumptions C07_pack_overwrite_roundtrip.

(* non-vacuity: int placeholder 0, a vector of two 2-byte items, seek(0), int 2: the tail survives *)
Example C07_pack_overwrite_example :
  let pi := C07_PT nat false [4] 1 in let pv := C07_PT nat true [2] 1 in
  let p := c07_pk_write_all N N nat 0%N c07_enc_n c07_enc_len_n (c07_pk_empty N) [(pi, [[0%N]]); (pv, [[258%N]; [772%N]])] in
  let p1 := c07_pkn_write (c07_pk_seek N p 0) pi [[2%N]] in
  c07_pk_buf N p1 = [2;0;0;0; 2;0;0;0; 2;1; 4;3]%N /\ c07_pk_tell N p1 = 4 /\ c07_pk_size N p1 = 12.
Proof. repeat split; vm_compute; reflexivity. Qed.

(* the executable instance run against the C++ MPIPack (little-endian patterns of the basic items, 4-byte size prefix) satisfies the
   hypotheses, so the round trip holds for it outright *)
Theorem C07_pack_roundtrip_bytes : forall items, Forall (wt_item N nat wt_n lenok_n) items ->
  let p := c07_pk_write_all N N nat 0%N c07_enc_n c07_enc_len_n (c07_pk_empty N) items in
  c07_pk_tell N p = c07_pk_size N p /\ c07_pk_eof N p = true /\
  exists p', c07_pk_read_all N N nat c07_dec_n c07_dec_len_n (c07_pk_seek N p 0) (map fst items) = Some (map snd items, p') /\
             c07_pk_buf N p' = c07_pk_buf N p /\ c07_pk_tell N p' = c07_pk_tell N p /\ c07_pk_eof N p' = true.
Proof. exact P_pack_roundtrip_bytes. Qed.
Print Assumptions C07_pack_roundtrip_bytes.

Example C07_pack_example :
  let it1 := (C07_PT nat false [4] 1, [[7%N]]) in
  let it2 := (C07_PT nat true [4; 8] 1, [[1%N; 4607182418800017408%N]; [2%N; 4611686018427387904%N]]) in
  Forall (wt_item N nat wt_n lenok_n) [it1; it2] /\
  c07_pk_buf N (c07_pk_write_all N N nat 0%N c07_enc_n c07_enc_len_n (c07_pk_empty N) [it1; it2])
  = [7;0;0;0; 2;0;0;0; 1;0;0;0; 0;0;0;0;0;0;240;63; 2;0;0;0; 0;0;0;0;0;0;0;64]%N.
Proof. exact P_pack_example. Qed.

(* ---- datatype content: for EVERY type map, count, sender and receiver memory, unpack(pack) replaces exactly the bytes of the mapped
   ranges of the count elements (stride = extent) by the sender's and leaves every other byte of the receiver alone ---- *)
Theorem C07_dt_content_mem : forall tm count (src dst : c07_mem) base x,
  c07_unpack_dt tm count (c07_pack_dt tm count src base) dst base x = if covered_n tm count base x then src x else dst x.
Proof. exact P_dt_content_mem. Qed.
Print Assumptions C07_dt_content_mem.

(* ... which, for a type map satisfying the measured well-formedness predicate (ranges inside sizeof, disjoint, extent = sizeof), is the
   spec "bytes of the communicated fields of the first count array elements, nothing else" *)
Theorem C07_dt_content : forall tm sz count (src dst : list N), c07_tm_wfb tm sz = true -> 0 < sz ->
  c07_transfer tm count src dst = c07_spec_transfer (c07_tm_entries tm) sz count src dst.
Proof. exact P_dt_content. Qed.
Print Assumptions C07_dt_content.

(* what the Dune traits map, for every layout: IndexPair = global + attribute byte only (local number, public flag, state untouched),
   ParallelLocalIndex = attribute byte only, pair = both members, FieldVector / bigunsignedint = all n components *)
Theorem C07_dt_traits : forall szg alg dg dl da szpli szip n szk alk dfv nb dbu s1 a1 s2 a2 d1 d2 szp,
  c07_tm_entries (c07_traits_indexpair (c07_dt_basic szg alg) dg dl (c07_traits_plocalindex da szpli) szip) = [(dg, szg); (dl + da, 1)] /\
  c07_tm_extent (c07_traits_indexpair (c07_dt_basic szg alg) dg dl (c07_traits_plocalindex da szpli) szip) = szip /\
  c07_tm_entries (c07_traits_plocalindex da szpli) = [(da, 1)] /\
  c07_tm_extent (c07_traits_plocalindex da szpli) = szpli /\
  c07_tm_entries (c07_traits_pair (c07_dt_basic s1 a1) (c07_dt_basic s2 a2) d1 d2 szp) = [(d1, s1); (d2, s2)] /\
  c07_tm_extent (c07_traits_pair (c07_dt_basic s1 a1) (c07_dt_basic s2 a2) d1 d2 szp) = szp /\
  c07_tm_entries (c07_traits_fieldvector n (c07_dt_basic szk alk) dfv) = map (fun i => (dfv + i * szk, szk)) (seq 0 n) /\
  c07_tm_entries (c07_traits_bigunsignedint nb dbu) = map (fun i => (dbu + i * 2, 2)) (seq 0 nb).
Proof. exact P_traits_entries. Qed.
Print Assumptions C07_dt_traits.

(* non-vacuity: the measured x86-64 layout of IndexPair<int,ParallelLocalIndex<char enum>> is well formed; two elements *)
Example C07_dt_example :
  let tm := c07_traits_indexpair (c07_dt_basic 4 4) 0 8 (c07_traits_plocalindex 8 16) 24 in
  c07_tm_wfb tm 24 = true /\ c07_tm_size tm = 5 /\
  c07_transfer tm 1 (map N.of_nat (seq 1 24)) (repeat 165%N 24)
  = [1;2;3;4;165;165;165;165; 165;165;165;165;165;165;165;165; 17;165;165;165;165;165;165;165]%N.
Proof. repeat split; vm_compute; reflexivity. Qed.

(* ---- extent: arrays of count elements are walked with stride extent (C07_dt_content_mem), so extent must be sizeof(T).
   The typemap record carries the extent produced by the literal constructor sequence (struct, then resized). ---- *)
(* the traits ending in MPI_Type_create_resized(tmp, 0, sizeof(T)): extent = sizeof for EVERY member type map (also members shipped as raw
   bytes, nested pairs) and every layout *)
Theorem C07_dt_traits_extent : forall (t1 t2 tG tPLI : c07_tmap) d1 d2 szp da szpli dg dl szip,
  c07_tm_extent (c07_traits_pair t1 t2 d1 d2 szp) = szp /\
  c07_tm_extent (c07_traits_plocalindex da szpli) = szpli /\
  c07_tm_extent (c07_traits_indexpair tG dg dl tPLI szip) = szip.
Proof. exact P_traits_extent. Qed.
Print Assumptions C07_dt_traits_extent.

(* FieldVector / bigunsignedint (struct without resize): extent = displacement + n * sizeof(K) whenever the strictest basic alignment divides it *)
Theorem C07_dt_traits_extent_fv : forall n szk alk dfv nb dbu,
  (Nat.modulo (dfv + n * szk) (Nat.max 1 alk) = 0 ->
     c07_tm_extent (c07_traits_fieldvector n (c07_dt_basic szk alk) dfv) = dfv + n * szk) /\
  (Nat.modulo (dbu + nb * 2) 2 = 0 -> c07_tm_extent (c07_traits_bigunsignedint nb dbu) = dbu + nb * 2).
Proof. exact P_traits_extent_fv. Qed.
Print Assumptions C07_dt_traits_extent_fv.

(* every type map accepted by the measured predicate (checked for every registered type on every run, together with MPI's own
   MPI_Type_get_extent = (0, sizeof)) has extent = sizeof *)
Theorem C07_dt_wf_extent : forall tm sz, c07_tm_wfb tm sz = true -> c07_tm_extent tm = sz.
Proof. exact P_wfb_extent. Qed.
Print Assumptions C07_dt_wf_extent.

(* the resize step is necessary: pair<long long,int> as a bare struct has extent 12 /= 16, is rejected by the predicate, and misplaces the
   second element of a two-element transfer; with the resize it is accepted *)
Theorem C07_dt_pair_unresized_refuted :
  let t := c07_dt_struct [(1, 0, c07_traits_generic 8); (1, 8, c07_dt_basic 4 4)] in
  c07_tm_extent t = 12 /\ c07_tm_wfb t 16 = false /\
  c07_tm_wfb (c07_traits_pair (c07_traits_generic 8) (c07_dt_basic 4 4) 0 8 16) 16 = true /\
  exists src dst, c07_transfer t 2 src dst <> c07_spec_transfer (c07_tm_entries t) 16 2 src dst.
Proof. exact P_pair_unresized_refuted. Qed.
Print Assumptions C07_dt_pair_unresized_refuted.

(* ==== every collective wrapper of Communication<MPI_Comm> (argument computations of mpicommunication.hh, incl. the igather / iscatter /
   iallgather counts after 954025b) over the trusted MPI semantics c07_MPI_* delivers the ROUTING SPEC: what every rank ends with is
   c07_spec_apply / c07_spec_allreduce of the rank-indexed contributions -- for every process count P >= 1, every root, every length
   (incl. 0 and rank-dependent lengths), every displacement vector within bounds, every merge (partially communicated element types).
   blocks_ok n lens displs: receive blocks inside a buffer of n elements and pairwise disjoint (as MPI requires); sends_ok: every rank
   holds the announced number of elements; scatter_ok: send blocks inside root's buffer (may overlap), receive buffers long enough. ==== *)
Theorem C07_collectives_are_spec : forall (E : Type) (merge : E -> E -> E),
  (* sum / prod / min / max / allreduce<F>(in,out,len), iallreduce(in,out); and the in-place forms *)
  (forall f len ins outs, ins <> [] -> Forall (fun b => len <= length b) ins -> Forall (fun o => len <= length o) outs ->
     c07_mpi_allreduce E merge f len ins outs = Some (c07_spec_allreduce E merge f len ins outs)) /\
  (forall f len inouts, inouts <> [] -> Forall (fun b => len <= length b) inouts ->
     c07_mpi_allreduce_inplace E merge f len inouts = Some (c07_spec_allreduce E merge f len inouts inouts)) /\
  (* broadcast, ibroadcast *)
  (forall root len inouts, root < length inouts -> Forall (fun b => len <= length b) inouts ->
     c07_mpi_bcast E merge root len inouts = Some (c07_spec_apply E merge (c07_rt_bcast root len) inouts inouts)) /\
  (* gather, igather, gatherv *)
  (forall root len ins outs, root < length outs -> Forall (fun b => len <= length b) ins -> length ins * len <= length (nth root outs []) ->
     c07_mpi_gather E merge root len ins outs = Some (c07_spec_apply E merge (c07_rt_gather (length ins) root len) ins outs)) /\
  (forall root l ins outs, root < length outs -> root < length ins -> Forall (fun b => length b = l) ins ->
     length ins * l <= length (nth root outs []) ->
     c07_mpi_igather E merge root ins outs = Some (c07_spec_apply E merge (c07_rt_gather (length ins) root l) ins outs)) /\
  (forall root ins lens displs outs, root < length outs -> sends_ok E ins lens -> blocks_ok (length (nth root outs [])) lens displs ->
     c07_mpi_gatherv E merge root ins lens displs outs = Some (c07_spec_apply E merge (c07_rt_gatherv root lens displs) ins outs)) /\
  (* scatter, iscatter, scatterv *)
  (forall root len ins outs, root < length ins -> Forall (fun o => len <= length o) outs -> length outs * len <= length (nth root ins []) ->
     c07_mpi_scatter E merge root len ins outs = Some (c07_spec_apply E merge (c07_rt_scatter root len) ins outs)) /\
  (forall root l ins outs, root < length ins -> outs <> [] -> Forall (fun o => length o = l) outs ->
     length (nth root ins []) = length outs * l ->
     c07_mpi_iscatter E merge root ins outs = Some (c07_spec_apply E merge (c07_rt_scatter root l) ins outs)) /\
  (forall root ins lens displs outs, root < length ins -> scatter_ok E (length (nth root ins [])) lens displs outs ->
     c07_mpi_scatterv E merge root ins lens displs outs = Some (c07_spec_apply E merge (c07_rt_scatterv root lens displs) ins outs)) /\
  (* allgather, iallgather, allgatherv *)
  (forall len ins outs, Forall (fun b => len <= length b) ins -> Forall (fun o => length ins * len <= length o) outs ->
     c07_mpi_allgather E merge len ins outs = Some (c07_spec_apply E merge (c07_rt_allgather (length ins) len) ins outs)) /\
  (forall l ins outs, ins <> [] -> Forall (fun b => length b = l) ins -> Forall (fun o => length ins * l <= length o) outs ->
     c07_mpi_iallgather E merge ins outs = Some (c07_spec_apply E merge (c07_rt_allgather (length ins) l) ins outs)) /\
  (forall ins lens displs outs, sends_ok E ins lens -> Forall (fun o => blocks_ok (length o) lens displs) outs ->
     c07_mpi_allgatherv E merge ins lens displs outs = Some (c07_spec_apply E merge (c07_rt_allgatherv lens displs) ins outs)).
Proof. exact P_collectives_are_spec. Qed.
Print Assumptions C07_collectives_are_spec.

(* END TO END for the user-functor path: Generic_MPI_Op creates the op with commute = true, so the library may give EVERY rank its own
   reduction tree over its own arrangement of the ranks (trees); with the trampoline c07_tramp as the combining step, for every
   associative AND commutative F, every P >= 1, every length, every choice of trees, every rank ends with the rank-order fold
   x0 F x1 F ... F x(P-1) of the contributions in each component (c07_spec_allreduce) -- the same as c07_mpi_allreduce *)
Theorem C07_allreduce_user_functor_end_to_end : forall (E : Type) (merge f : E -> E -> E) len trees ins outs,
  (forall a b c, f (f a b) c = f a (f b c)) -> (forall a b, f a b = f b a) ->
  length trees = length outs -> Forall (fun t => Permutation (c07_tree_leaves t) (seq 0 (length ins))) trees ->
  ins <> [] -> Forall (fun b => len <= length b) ins -> Forall (fun o => len <= length o) outs ->
  c07_MPI_allreduce_trees E merge f len trees ins outs = Some (c07_spec_allreduce E merge f len ins outs).
Proof. exact MPI_allreduce_trees_spec. Qed.
Print Assumptions C07_allreduce_user_functor_end_to_end.

(* what commute = true needs.  With associativity alone the rank-order fold is guaranteed only along trees whose leaves are in rank
   order (MPI's promise for commute = false) ... *)
Theorem C07_user_op_associative_only_needs_rank_order : forall (E : Type) (f : E -> E -> E), (forall a b c, f (f a b) c = f a (f b c)) ->
  forall (xs : list (list E)) (t : c07_tree), c07_tree_leaves t = seq 0 (length xs) ->
  c07_tree_eval f xs t = c07_reduce_ranks f xs.
Proof. exact P_user_op_ordered. Qed.
Print Assumptions C07_user_op_associative_only_needs_rank_order.

(* ... and for an associative NON-commutative functor a legal commute = true schedule gives a different value: the hypothesis
   "F commutative" of C07_user_op cannot be dropped, i.e. Communication::allreduce<F> equals "the operation applied in rank order"
   only for commutative F (or an MPI library that happens to keep rank order, as OpenMPI did in all runs of the check) *)
Theorem C07_user_op_noncommutative_refuted :
  exists (f : Z -> Z -> Z) (xs : list (list Z)) (t : c07_tree),
    (forall a b c, f (f a b) c = f a (f b c)) /\ Permutation (c07_tree_leaves t) (seq 0 (length xs)) /\
    c07_tree_eval f xs t <> c07_reduce_ranks f xs.
Proof. exact P_user_op_noncommutative_refuted. Qed.
Print Assumptions C07_user_op_noncommutative_refuted.

Example C07_user_op_noncommutative_example :
  let f := fun (a _ : Z) => a in
  c07_tree_eval f [[1%Z]; [2%Z]] (C07_Node (C07_Leaf 1) (C07_Leaf 0)) = [2%Z] /\ c07_reduce_ranks f [[1%Z]; [2%Z]] = [1%Z].
Proof. split; vm_compute; reflexivity. Qed.

(* ==== one matching send / rrecv pair over the network ==== *)
(* std::vector<T> / std::string of fully communicated T: received = sent, including the length, whatever the receiver held before *)
Theorem C07_rrecv_end_to_end : forall (E : Type) (d : E) tsize (sent data : list E), 0 < tsize ->
  c07_rrecv E (idm E) d tsize sent data = Some sent.
Proof. exact P_rrecv_end_to_end. Qed.
Print Assumptions C07_rrecv_end_to_end.

(* MPIPack: the sender writes any well-typed item sequence into a fresh pack and sends it (the whole buffer travels as MPI_PACKED);
   the receiver rrecv's into a fresh MPIPack and reads the same type sequence: same size, cursor 0, equal values and lengths, eof *)
Theorem C07_pack_send_rrecv : forall (B V T : Type) (zeroB : B) (enc : T -> V -> list B) (dec : T -> list B -> option (V * list B))
    (enc_len : nat -> list B) (dec_len : list B -> option (nat * list B)) (wt : T -> V -> Prop) (lenok : nat -> Prop),
  (forall t v rest, wt t v -> dec t (enc t v ++ rest) = Some (v, rest)) ->
  (forall n rest, lenok n -> dec_len (enc_len n ++ rest) = Some (n, rest)) ->
  forall items (p0 : c07_pack B), Forall (wt_item V T wt lenok) items -> c07_pk_pos B p0 = 0 ->
    let p := c07_pk_write_all B V T zeroB enc enc_len (c07_pk_empty B) items in
    exists q q', c07_pack_rrecv B zeroB (c07_pack_wire B p) p0 = Some q /\
                 c07_pk_size B q = c07_pk_size B p /\ c07_pk_tell B q = 0 /\
                 c07_pk_read_all B V T dec dec_len q (map fst items) = Some (map snd items, q') /\ c07_pk_eof B q' = true.
Proof. exact P_pack_send_rrecv. Qed.
Print Assumptions C07_pack_send_rrecv.

(* non-vacuity of the collective theorem's hypotheses: 3 ranks, gatherv with permuted displacements and a gap *)
Example C07_collectives_example :
  blocks_ok 7 [2; 1; 0] [3; 0; 6] /\ sends_ok Z [[5; 6]; [7]; []]%Z [2; 1; 0] /\
  c07_mpi_gatherv Z (idm Z) 1 [[5; 6]; [7]; []]%Z [2; 1; 0] [3; 0; 6] [[]; [-1; -1; -1; -1; -1; -1; -1]; []]%Z
  = Some [[]; [7; -1; -1; 5; 6; -1; -1]; []]%Z.
Proof. exact P_collectives_example. Qed.

(* ==== tables and literals RE-READ FROM THE SOURCE on every run (coq/Params_gen.v via tools/params.d/C07.py): an edit of
   ComposeMPIOp / ComposeMPITraits / MPI_Op_create's commute flag / the size-prefix type / the growth comparison of MPIPack::pack /
   the receive type of igather re-checks these theorems against the new value ==== *)
(* ComposeMPITraits: every C type is mapped to an MPI type of the same size and kind (signed / unsigned / real / complex) *)
Theorem C07_traits_table_sound : c07_traits_table_ok = true.
Proof. exact P_traits_table_ok. Qed.
Print Assumptions C07_traits_table_sound.

(* ComposeMPIOp: for intrinsic element types sum / prod / min / max use the MPI op the source selects, and that op computes what the
   C++ functor (std::plus, std::multiplies, Dune::Min, Dune::Max) computes -- for all operands *)
Theorem C07_builtin_ops_are_functors : forall i a b, i < 4 -> c07_intrinsic_reduce i a b = c07_functor_sem i a b.
Proof. exact P_builtin_ops_are_functors. Qed.
Print Assumptions C07_builtin_ops_are_functors.

(* the user-functor theorem under the commute flag the source passes to MPI_Op_create: commutativity of F is needed exactly when the
   flag is true (it is); with false the library must keep rank order and associativity suffices *)
Theorem C07_user_op_under_source_flag : forall (E : Type) (f : E -> E -> E),
  (forall a b c, f (f a b) c = f a (f b c)) -> (c07_param_op_commute = true -> forall a b, f a b = f b a) ->
  forall (xs : list (list E)) (t : c07_tree), c07_tree_ok c07_param_op_commute (length xs) t ->
  c07_tree_eval f xs t = c07_reduce_ranks f xs.
Proof. exact P_user_op_flag. Qed.
Print Assumptions C07_user_op_under_source_flag.

(* MPIPack: which kinds of objects get the int size prefix -- decided identically by pack (from the NON-const MPIData) and unpack:
   none for single objects and static ranges (FieldVector, std::array), one for resizable ranges (vector, string) and MPIPack;
   had pack() asked the MPIData of const T it holds, no prefix would ever be written *)
Theorem C07_pack_prefix_decision :
  (forall k, c07_pack_writes_prefix k = c07_unpack_reads_prefix k) /\
  c07_pack_writes_prefix C07_KObject = false /\ c07_pack_writes_prefix (C07_KRange false) = false /\
  c07_pack_writes_prefix (C07_KRange true) = true /\ c07_pack_writes_prefix C07_KPack = true /\
  (forall k, c07_pack_writes_prefix_const_view k = false).
Proof. exact P_pack_prefix_decision. Qed.
Print Assumptions C07_pack_prefix_decision.

(* ==== (count, datatype) AGREEMENT of the two sides of the non-blocking collectives that take two differently described objects ==== *)
(* igather (code after 954025b, receive type re-read from the source): on the root the type signature received from each rank IS the
   signature sent, for EVERY pair of descriptions; non-roots receive nothing.  iallgather likewise. *)
Theorem C07_igather_signature_agreement : forall root din dout,
  c07_xa_recv_sig (c07_igather_args root root din dout) = c07_xa_send_sig (c07_igather_args root root din dout) /\
  (forall me, me <> root -> c07_xa_recv_sig (c07_igather_args me root din dout) = []).
Proof. exact P_igather_agreement. Qed.
Print Assumptions C07_igather_signature_agreement.
Theorem C07_iallgather_signature_agreement : forall din dout,
  c07_xa_recv_sig (c07_iallgather_args din dout) = c07_xa_send_sig (c07_iallgather_args din dout).
Proof. exact P_iallgather_agreement. Qed.
Print Assumptions C07_iallgather_signature_agreement.
(* iscatter: sendcount = in.size()/procs of in's type against out.size() of out's type: they agree whenever one block of the send
   buffer and the receiving object describe the same layout (e.g. vector<FieldVector<K,n>> scattered into a FieldVector<K,n>) *)
Theorem C07_iscatter_signature_agreement : forall root procs k din dout, 0 < procs -> c07_md_count din = procs * k ->
  c07_md_same_layout (C07_MD k (c07_md_tm din)) dout = true ->
  c07_xa_send_sig (c07_iscatter_args root root procs din dout) = c07_xa_recv_sig (c07_iscatter_args root root procs din dout).
Proof. exact P_iscatter_agreement. Qed.
Print Assumptions C07_iscatter_signature_agreement.
(* the pre-fix igather is refuted: FieldVector<double,3> (3 x double) into vector<FieldVector<double,3>> received 3 FieldVectors per rank,
   although the two descriptions are the same layout *)
Theorem C07_igather_old_code_refuted :
  let din := c07_md_range 3 (c07_dt_basic 8 8) in
  let dout := c07_md_range 2 (c07_traits_fieldvector 3 (c07_dt_basic 8 8) 0) in
  c07_xa_recv_sig (c07_igather_args_old 0 0 din dout) <> c07_xa_send_sig (c07_igather_args_old 0 0 din dout) /\
  c07_md_same_layout din (c07_md_object (c07_traits_fieldvector 3 (c07_dt_basic 8 8) 0)) = true.
Proof. exact P_igather_old_refuted. Qed.
Print Assumptions C07_igather_old_code_refuted.
(* two descriptions that touch the same bytes in the same order (MPIData's n x K view of a FieldVector and MPITraits<FieldVector>)
   transfer exactly the same bytes, for all memories *)
Theorem C07_two_descriptions_same_transfer : forall d1 d2, c07_md_same_layout d1 d2 = true -> forall (src dst : c07_mem) base x,
  c07_unpack_dt (c07_md_tm d1) (c07_md_count d1) (c07_pack_dt (c07_md_tm d1) (c07_md_count d1) src base) dst base x
  = c07_unpack_dt (c07_md_tm d2) (c07_md_count d2) (c07_pack_dt (c07_md_tm d2) (c07_md_count d2) src base) dst base x.
Proof. exact P_two_descriptions. Qed.
Print Assumptions C07_two_descriptions_same_transfer.

(* every byte of an object is mapped by AT MOST ONE entry of a type map accepted by the measured predicate (every field once) *)
Theorem C07_dt_fields_once : forall tm sz x, c07_tm_wfb tm sz = true ->
  length (filter (fun e => (fst e <=? x) && (x <? fst e + snd e)) (c07_tm_entries tm)) <= 1.
Proof. exact P_fields_once. Qed.
Print Assumptions C07_dt_fields_once.

(* MPIPack::resize / enlarge: new size, cursor untouched, the common prefix survives, enlarge appends *)
Theorem C07_pack_resize : forall (B : Type) (zeroB : B) (p : c07_pack B) n,
  let p' := c07_pk_resize B zeroB p n in
  c07_pk_size B p' = n /\ c07_pk_tell B p' = c07_pk_tell B p /\
  firstn (Nat.min n (c07_pk_size B p)) (c07_pk_buf B p') = firstn (Nat.min n (c07_pk_size B p)) (c07_pk_buf B p) /\
  (forall s, c07_pk_buf B (c07_pk_enlarge B zeroB p s) = c07_pk_buf B p ++ repeat zeroB s).
Proof. exact P_pk_resize. Qed.
Print Assumptions C07_pack_resize.

(* the measured predicate need not be assumed for the resized traits: it follows from the natural layout facts (members in order, inside
   the object), so C07_dt_content applies to every such layout *)
Theorem C07_dt_traits_wf : forall s1 a1 s2 a2 d1 d2 szp szg alg dg dl da szpli szip,
  (d1 + s1 <= d2 -> d2 + s2 <= szp ->
     c07_tm_wfb (c07_traits_pair (c07_dt_basic s1 a1) (c07_dt_basic s2 a2) d1 d2 szp) szp = true) /\
  (da + 1 <= szpli -> c07_tm_wfb (c07_traits_plocalindex da szpli) szpli = true) /\
  (dg + szg <= dl + da -> dl + da + 1 <= szip ->
     c07_tm_wfb (c07_traits_indexpair (c07_dt_basic szg alg) dg dl (c07_traits_plocalindex da szpli) szip) szip = true).
Proof. exact P_traits_wf. Qed.
Print Assumptions C07_dt_traits_wf.

(* Communication<No_Comm> (after d360660) delivers the ROUTING SPEC at P = 1 directly: C07_sequential_* composed with C07_collectives_are_spec *)
Theorem C07_sequential_is_spec : forall (E : Type) len sendlen displ (inb out : list E),
  (len <= length inb -> len <= length out ->
     wrap E (c07_seq_gather E len inb out) = Some (c07_spec_apply E (idm E) (c07_rt_gather 1 0 len) [inb] [out]) /\
     wrap E (c07_seq_scatter E len inb out) = Some (c07_spec_apply E (idm E) (c07_rt_scatter 0 len) [inb] [out]) /\
     wrap E (c07_seq_allgather E len inb out) = Some (c07_spec_apply E (idm E) (c07_rt_allgather 1 len) [inb] [out])) /\
  (sendlen <= length inb -> displ + sendlen <= length out ->
     wrap E (c07_seq_gatherv E sendlen displ inb out) = Some (c07_spec_apply E (idm E) (c07_rt_gatherv 0 [sendlen] [displ]) [inb] [out]) /\
     wrap E (c07_seq_allgatherv E sendlen displ inb out) = Some (c07_spec_apply E (idm E) (c07_rt_allgatherv [sendlen] [displ]) [inb] [out])) /\
  (displ + sendlen <= length inb -> sendlen <= length out ->
     wrap E (c07_seq_scatterv E sendlen displ inb out) = Some (c07_spec_apply E (idm E) (c07_rt_scatterv 0 [sendlen] [displ]) [inb] [out])).
Proof. exact P_sequential_is_spec. Qed.
Print Assumptions C07_sequential_is_spec.

(* OBJECT HISTORY: a receive object that already took one message takes a second one (longer or SHORTER): the result has exactly the
   second message's length -- nothing of the first message survives beyond it -- and for fully communicated types it IS the second message *)
Theorem C07_rrecv_reuse : forall (E : Type) (merge : E -> E -> E) (d : E) tsize (s1 s2 data : list E), 0 < tsize ->
  (exists r1 r2, c07_rrecv E merge d tsize s1 data = Some r1 /\ c07_rrecv E merge d tsize s2 r1 = Some r2 /\ length r2 = length s2) /\
  (c07_rrecv E (idm E) d tsize s1 data = Some s1 /\ c07_rrecv E (idm E) d tsize s2 s1 = Some s2).
Proof. exact P_rrecv_reuse. Qed.
Print Assumptions C07_rrecv_reuse.

(* ==== second dimension audit ==== *)
(* ASYMMETRIC ARGUMENTS: gatherv / scatterv where every rank passes its OWN count / displacement arrays (args: one pair per rank, any
   number of ranks, any content): the result is a function of the ROOT's pair alone -- whatever the other ranks pass -- and equals the
   collective with the root's arrays (to which C07_collectives_are_spec applies) *)
Theorem C07_v_root_args_only : forall (E : Type) (merge : E -> E -> E) root ins outs (args args' : list (list nat * list nat)),
  nth_error args root = nth_error args' root ->
  c07_mpi_gatherv_ranks E merge root ins args outs = c07_mpi_gatherv_ranks E merge root ins args' outs /\
  c07_mpi_scatterv_ranks E merge root ins args outs = c07_mpi_scatterv_ranks E merge root ins args' outs.
Proof. exact P_v_root_args_only. Qed.
Print Assumptions C07_v_root_args_only.

Theorem C07_v_ranks_are_root : forall (E : Type) (merge : E -> E -> E) root ins outs (args : list (list nat * list nat)) lens displs,
  nth_error args root = Some (lens, displs) ->
  c07_mpi_gatherv_ranks E merge root ins args outs = c07_mpi_gatherv E merge root ins lens displs outs /\
  c07_mpi_scatterv_ranks E merge root ins args outs = c07_mpi_scatterv E merge root ins lens displs outs.
Proof. exact P_v_ranks_root. Qed.
Print Assumptions C07_v_ranks_are_root.

(* non-vacuity: 3 ranks, root 1, the other ranks pass garbage arrays *)
Example C07_v_root_args_only_example :
  c07_mpi_gatherv_ranks Z (idm Z) 1 [[5; 6]; [7]; []]%Z [([9; 9; 9], [70; 80; 90]); ([2; 1; 0], [3; 0; 6]); ([], [])]
      [[]; [-1; -1; -1; -1; -1; -1; -1]; []]%Z = Some [[]; [7; -1; -1; 5; 6; -1; -1]; []]%Z.
Proof. vm_compute. reflexivity. Qed.

(* igather: receive objects of ANY size on the non-root ranks (also empty ones): the root's result does not depend on them and they come
   back untouched;  iscatter: send objects of any size on the non-root ranks: the result depends on the root's send object only *)
Theorem C07_igather_root_out_only : forall (E : Type) (merge : E -> E -> E) root (ins outs outs' : list (list E)),
  nth_error outs root = nth_error outs' root -> root < length outs -> root < length outs' ->
  match c07_mpi_igather E merge root ins outs, c07_mpi_igather E merge root ins outs' with
  | Some r, Some r' => nth_error r root = nth_error r' root /\ (forall j, j <> root -> nth_error r j = nth_error outs j)
  | None, None => True
  | _, _ => False
  end.
Proof. exact P_igather_root_out_only. Qed.
Print Assumptions C07_igather_root_out_only.

Theorem C07_iscatter_root_in_only : forall (E : Type) (merge : E -> E -> E) root (ins ins' outs : list (list E)),
  nth_error ins root = nth_error ins' root ->
  c07_mpi_iscatter E merge root ins outs = c07_mpi_iscatter E merge root ins' outs.
Proof. exact P_iscatter_root_in_only. Qed.
Print Assumptions C07_iscatter_root_in_only.

Example C07_igather_root_out_only_example :
  c07_mpi_igather Z (idm Z) 0 [[5]; [7]]%Z [[-1; -1; -1]; []]%Z = Some [[5; 7; -1]; []]%Z /\
  c07_mpi_iscatter Z (idm Z) 1 [[]; [5; 7]]%Z [[-1]; [-2]]%Z = Some [[5]; [7]]%Z.
Proof. vm_compute. split; reflexivity. Qed.

(* PRE-EXISTING STATE OF THE TARGET: rrecv of a pack into a pack that already holds ANY bytes and ANY cursor: the buffer becomes exactly
   the message (no earlier byte survives, size = message size); the cursor is the target's old cursor (rrecv never seeks: a re-used pack
   has to be rewound by the caller -- C07_pack_send_rrecv is the cursor-0 case);  move assignment onto any target gives the source *)
Theorem C07_pack_rrecv_into_used : forall (B : Type) (zeroB : B) (wire : list B) (p0 : c07_pack B),
  c07_pack_rrecv B zeroB wire p0 = Some (C07_PK B wire (c07_pk_pos B p0)).
Proof. exact P_pack_rrecv_into_used. Qed.
Print Assumptions C07_pack_rrecv_into_used.

Theorem C07_pack_move_assign : forall (B : Type) (dst src : c07_pack B), c07_pk_move_assign B dst src = src.
Proof. exact P_pack_move_assign. Qed.
Print Assumptions C07_pack_move_assign.

Example C07_pack_rrecv_into_used_example :
  c07_pack_rrecv N 0%N [1; 2]%N (C07_PK N [9; 9; 9; 9; 9]%N 4) = Some (C07_PK N [1; 2]%N 4).
Proof. vm_compute. reflexivity. Qed.
