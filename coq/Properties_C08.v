(* C08 — property theorems.  ONLY statements, each closed by `exact <lemma>` and followed by Print Assumptions.
   Model: C08_Model.v (closed forms n = 1, 2 over an operation record, instantiated at R here and at Flocq binary64 for
   the bit-exact correspondence; LAPACK hand-over).  Spec: C08_Spec.v (eigen-decomposition over the reals).
   PARTIAL BY DESIGN (DESIGN section 4, C08): the theorems are about exact real arithmetic and about index logic;
   floating-point accuracy, LAPACK and libm are tested with stated tolerances by checks/C08.py, not proved. *)
From Coq Require Import Reals List ZArith Bool.
From DuneV Require Import Params_gen C08_Model C08_Spec C08_Proofs C08_Proofs_Handover C08_Proofs_2x2 C08_Proofs_3x3 C08_Proofs_Eig0 C08_Proofs_Eigvec3 C08_Proofs_3x3_Full C08_Proofs_3x3_Scale C08_Proofs_3x3_All C08_Proofs_Kernels.
Import ListNotations.

(* eigenvalue-only and eigenvalue+vector entry points run the same eigenvalue computation: for EVERY operation
   record, hence also for the binary64 instance *)
Theorem C08_entrypoints_agree : forall (T : Type) (o : c08_ops T) rel perp thrq thrid m,
  (forall ev vs, c08_eigenvaluesvectors2 o rel perp thrq thrid m = C08_Ok (ev, vs) -> c08_eigenvalues2 o thrq m = C08_Ok ev) /\
  (c08_eigenvalues2 o thrq m = C08_MathError <-> c08_eigenvaluesvectors2 o rel perp thrq thrid m = C08_MathError).
Proof. exact P_entrypoints_agree. Qed.
Print Assumptions C08_entrypoints_agree.

Theorem C08_entrypoints_agree_lapack : forall (T : Type) (d : T) syev n A,
  c08_eigenvalues_lapack d syev n A =
  match c08_eigenvaluesvectors_lapack d syev n A with C08_LOk (w, _) => C08_LOk w | C08_InvalidState => C08_InvalidState end.
Proof. exact P_entrypoints_agree_lapack. Qed.
Print Assumptions C08_entrypoints_agree_lapack.

(* ---------------------------------------------------------------------------------------------- 2x2 closed form
   c08_R_ops: the generic model evaluated in exact real arithmetic.  rel/perp select the variant of the source text
   (current code: rel = false, perp = false; with fixes/C08-1 and C08-3: true, true).  Division by zero is an explicit
   error result of the model (C08_DivByZero), so "= C08_Ok r" also says that no division by zero occurs. *)
Local Open Scope R_scope.

(* C08_2x2_exact: thresholds 0: for EVERY real symmetric matrix the routine returns eigenvalues that are ascending, sum to
   the trace and are roots of the characteristic polynomial, and unit, mutually orthogonal vectors with A v = lambda v *)
Theorem C08_2x2_exact : forall rel perp thrq m, c08_sym2 m ->
  exists r, c08_eigenvaluesvectors2 c08_R_ops rel perp thrq 0 m = C08_Ok r /\ c08_decomp2 m r.
Proof. exact P_2x2_exact. Qed.
Print Assumptions C08_2x2_exact.
Example C08_2x2_exact_nonvacuous : c08_sym2 (2, 1, 1, 2) /\ ~ c08_sym2 (1, 2, 0, 3) /\
  exists vs, c08_eigenvaluesvectors2 c08_R_ops false false (/ 10 ^ 14) 0 (2, 1, 1, 2) = C08_Ok ((1, 3), vs).
Proof. exact P_ex_sym2. Qed.

(* the eigenvalue part holds for every threshold (the clamp of slightly negative discriminants never fires for symmetric input) *)
Theorem C08_2x2_eigenvalues : forall thrq m, c08_sym2 m ->
  exists ev, c08_eigenvalues2 c08_R_ops thrq m = C08_Ok ev /\ c08_evals2_ok m ev.
Proof. exact P_2x2_eigenvalues. Qed.
Print Assumptions C08_2x2_eigenvalues.

(* with thresholds: the result is an eigen-decomposition exactly when the identity special case is not taken wrongly *)
Theorem C08_2x2_thresholds : forall rel perp thrq thrid a b d,
  0 <= c08_thr_eff rel thrid (a, b, b, d) ->
  c08_thr_eff rel thrid (a, b, b, d) < c08_dev2 (a, b, b, d) (c08_l0 a b d) \/ c08_dev2 (a, b, b, d) (c08_l0 a b d) = 0 ->
  exists r, c08_eigenvaluesvectors2 c08_R_ops rel perp thrq thrid (a, b, b, d) = C08_Ok r /\
            fst r = (c08_l0 a b d, c08_l1 a b d) /\ c08_decomp2 (a, b, b, d) r.
Proof. exact P_2x2_general. Qed.
Print Assumptions C08_2x2_thresholds.

(* C08_scaling_exact, eigenvalue part: scaling A by s >= 0 scales the eigenvalues (both entry points, every threshold) *)
Theorem C08_2x2_eigenvalues_scale : forall thrq a b d s, 0 <= s ->
  c08_eigenvalues2 c08_R_ops thrq (a, b, b, d) = C08_Ok (c08_l0 a b d, c08_l1 a b d) /\
  c08_eigenvalues2 c08_R_ops thrq (c08_scale2 s (a, b, b, d)) = C08_Ok (s * c08_l0 a b d, s * c08_l1 a b d).
Proof. exact P_2x2_eigenvalues_scale. Qed.
Print Assumptions C08_2x2_eigenvalues_scale.

(* n = 1: eigenvalue m, eigenvector (1) *)
Theorem C08_1x1_exact : forall m : R, let '(w, v) := c08_eig1 c08_R_ops m in w = m /\ m * v = w * v /\ v * v = 1.
Proof. exact P_1x1_exact. Qed.
Print Assumptions C08_1x1_exact.

(* complete characterisation for ANY non-negative threshold (absolute literal or epsilon * ||A||): never fails on symmetric input;
   either an exact eigen-decomposition, or the identity special case was taken and the residuals A e_i - l_i e_i are at most the
   effective threshold componentwise -- with the source's relative threshold: at most epsilon * ||A||_inf *)
Theorem C08_2x2_any_threshold : forall rel perp thrq thrid a b d,
  let t := c08_thr_eff rel thrid (a, b, b, d) in 0 <= t ->
  exists vs, c08_eigenvaluesvectors2 c08_R_ops rel perp thrq thrid (a, b, b, d) = C08_Ok ((c08_l0 a b d, c08_l1 a b d), vs) /\
    c08_evals2_ok (a, b, b, d) (c08_l0 a b d, c08_l1 a b d) /\
    (c08_evecs2_ok (a, b, b, d) (c08_l0 a b d, c08_l1 a b d) vs \/
     (vs = ((1, 0), (0, 1)) /\ Rabs (a - c08_l0 a b d) <= t /\ Rabs b <= t /\ Rabs (d - c08_l1 a b d) <= t)).
Proof. exact P_2x2_any_threshold. Qed.
Print Assumptions C08_2x2_any_threshold.

(* F-C08-1: EVERY positive absolute threshold (the code has 1e-14) is refuted: there is a symmetric matrix for which the
   routine returns something that is not an eigen-decomposition ... *)
Theorem C08_2x2_abs_threshold_refuted : forall perp thrq thrid, 0 < thrid ->
  exists m, c08_sym2 m /\ exists r, c08_eigenvaluesvectors2 c08_R_ops false perp thrq thrid m = C08_Ok r /\ ~ c08_decomp2 m r.
Proof. exact P_2x2_abs_refuted. Qed.
Print Assumptions C08_2x2_abs_threshold_refuted.

(* ... and scale invariance fails: some A is decomposed correctly while A/4 is not (witness thr*[[2,1],[1,2]]) *)
Theorem C08_2x2_scale_refuted : forall perp thrq thrid, 0 < thrid ->
  exists m s, c08_sym2 m /\ 0 < s /\
    (exists r, c08_eigenvaluesvectors2 c08_R_ops false perp thrq thrid m = C08_Ok r /\ c08_decomp2 m r) /\
    (exists r', c08_eigenvaluesvectors2 c08_R_ops false perp thrq thrid (c08_scale2 s m) = C08_Ok r' /\ ~ c08_decomp2 (c08_scale2 s m) r').
Proof. exact P_2x2_scale_refuted. Qed.
Print Assumptions C08_2x2_scale_refuted.

(* C08_scaling_exact for n = 2 with the RELATIVE threshold of fixes/C08-1.patch: if A is decomposed correctly then so is s A
   for every s > 0, with eigenvalues s * lambda *)
Theorem C08_2x2_scale_invariant_rel : forall perp thrq thrid a b d s, 0 < s -> 0 <= thrid ->
  c08_thr_eff true thrid (a, b, b, d) < c08_dev2 (a, b, b, d) (c08_l0 a b d) \/ c08_dev2 (a, b, b, d) (c08_l0 a b d) = 0 ->
  exists r', c08_eigenvaluesvectors2 c08_R_ops true perp thrq thrid (c08_scale2 s (a, b, b, d)) = C08_Ok r' /\
             fst r' = (s * c08_l0 a b d, s * c08_l1 a b d) /\ c08_decomp2 (c08_scale2 s (a, b, b, d)) r'.
Proof. exact P_2x2_rel_scale. Qed.
Print Assumptions C08_2x2_scale_invariant_rel.

(* ---------------------------------------------------------------------------------------------- LAPACK hand-over
   The copy loops write the matrix row by row; a column-major reader with lda = n sees the TRANSPOSE; the result array
   is read back row by row, so output row i is column i of LAPACK's result.  All sizes n. *)
Theorem C08_handover_index : forall (T : Type) (d : T) n (A : nat -> nat -> T) (a : list T) i j, (i < n)%nat -> (j < n)%nat ->
  c08_colmajor d n (c08_flatten n A) i j = A j i /\
  nth j (nth i (c08_rows_list d n a) []) d = c08_colmajor d n a j i /\
  length (c08_flatten n A) = (n * n)%nat.
Proof. exact (fun T d n A a i j Hi Hj => conj (colmajor_flatten d n A i j Hi Hj) (conj (rows_list_nth d n a i j Hi Hj) (flatten_length n A))). Qed.
Print Assumptions C08_handover_index.

(* symmetric routines (eigenValuesVectorsLapack; eigenValuesVectors for n >= 4): if ?syev meets its documented contract on
   the array it is handed, the routine returns ascending eigenvalues and orthonormal ROWS v_i with A v_i = w_i v_i. *)
Theorem C08_handover_sym : forall n A syev w V,
  c08_symmetric n A ->
  c08_syev_contract (c08_syev_args_of true n A) (syev (c08_syev_args_of true n A)) ->
  c08_sym_lapack 0 syev true n A = C08_LOk (w, Some V) ->
  length w = n /\ c08_ascending n w /\
  (forall i, (i < n)%nat -> c08_right_eig n A (nth i w 0) (c08_row_of V i)) /\
  c08_orthonormal n (c08_row_of V).
Proof. exact P_handover_sym. Qed.
Print Assumptions C08_handover_sym.
Example C08_handover_sym_nonvacuous : c08_symmetric 2 c08_ex_A /\
  c08_syev_contract (c08_syev_args_of true 2 c08_ex_A) (c08_ex_syev (c08_syev_args_of true 2 c08_ex_A)) /\
  c08_sym_lapack 0 c08_ex_syev true 2 c08_ex_A = C08_LOk ([1; 2], Some [[0; 1]; [1; 0]]).
Proof. exact P_ex_sym. Qed.

(* LAPACK failure (info <> 0) is reported as InvalidStateException, and only then *)
Theorem C08_handover_sym_info : forall (syev : c08_syev_args -> list R * list R * Z) tag n A,
  (c08_sym_lapack 0 syev tag n A = C08_InvalidState <->
   snd (syev (c08_syev_call tag n A)) <> 0%Z).
Proof. exact P_handover_sym_info. Qed.
Print Assumptions C08_handover_sym_info.

(* non-symmetric routine AS IT IS (DynamicMatrixHelp::eigenValuesNonSym, jobvr = 'v' on the row-major array):
   every vector returned for a real eigenvalue is a non-zero LEFT eigenvector of A (v^T A = lambda v^T) ... *)
Theorem C08_handover_nonsym_left : forall n A geev evs V,
  c08_geev_contract (c08_geev_args_cur n A) (geev (c08_geev_args_cur n A)) ->
  c08_nonsym_dyn 0 geev true n A = C08_LOk (evs, Some V) ->
  length evs = n /\
  forall i, (i < n)%nat -> snd (nth i evs (0, 0)) = 0 ->
    c08_left_eig n A (fst (nth i evs (0, 0))) (c08_row_of V i) /\ c08_nonzero n (c08_row_of V i).
Proof. exact P_handover_nonsym_left. Qed.
Print Assumptions C08_handover_nonsym_left.

(* ... so "A v = lambda v" is REFUTED (F-C08-2): for A = [[1,2],[0,3]], whatever a contract-abiding geev returns,
   the vector delivered for the eigenvalue 3 is not a right eigenvector of A. *)
Theorem C08_handover_nonsym_refuted : forall geev evs V,
  c08_geev_contract (c08_geev_args_cur 2 c08_witness_A) (geev (c08_geev_args_cur 2 c08_witness_A)) ->
  c08_nonsym_dyn 0 geev true 2 c08_witness_A = C08_LOk (evs, Some V) ->
  forall i, (i < 2)%nat -> nth i evs (0, 0) = (3, 0) ->
    ~ c08_right_eig 2 c08_witness_A 3 (c08_row_of V i).
Proof. exact P_handover_nonsym_refuted. Qed.
Print Assumptions C08_handover_nonsym_refuted.
Example C08_handover_nonsym_refuted_nonvacuous :
  c08_geev_contract (c08_geev_args_cur 2 c08_witness_A) (c08_ex_geev (c08_geev_args_cur 2 c08_witness_A)) /\
  c08_nonsym_dyn 0 c08_ex_geev true 2 c08_witness_A = C08_LOk ([(1, 0); (3, 0)], Some [[1; -1]; [0; 1]]).
Proof. exact P_ex_nonsym. Qed.

(* the repaired call (fixes/C08-2.patch: jobvl = 'v', vectors read from vl): non-zero RIGHT eigenvectors of A *)
Theorem C08_handover_nonsym_fixed : forall n A geev evs V,
  c08_geev_contract (c08_geev_args_fix n A) (geev (c08_geev_args_fix n A)) ->
  c08_nonsym_dyn_fixed 0 geev true n A = C08_LOk (evs, Some V) ->
  length evs = n /\
  forall i, (i < n)%nat -> snd (nth i evs (0, 0)) = 0 ->
    c08_right_eig n A (fst (nth i evs (0, 0))) (c08_row_of V i) /\ c08_nonzero n (c08_row_of V i).
Proof. exact P_handover_nonsym_fixed. Qed.
Print Assumptions C08_handover_nonsym_fixed.
Example C08_handover_nonsym_fixed_nonvacuous :
  c08_geev_contract (c08_geev_args_fix 2 c08_witness_A) (c08_ex_geev_fix (c08_geev_args_fix 2 c08_witness_A)) /\
  c08_nonsym_dyn_fixed 0 c08_ex_geev_fix true 2 c08_witness_A = C08_LOk ([(1, 0); (3, 0)], Some [[1; 0]; [1; 1]]).
Proof. exact P_ex_nonsym_fixed. Qed.

(* ---------------------------------------------------------------------------------------------- 3x3 eigenvalues (Smith 1961)
   eigenValues3dImpl over R (acos / cos the real functions), the threshold of the diagonal shortcut `p1 <= epsilon` a parameter. *)

(* the clamp of r = det(B)/2 to [-1,1] is INACTIVE in exact arithmetic for every non-diagonal real symmetric matrix
   (|det B| <= 2 for trace-free symmetric B with tr(B^2) = 6; proved by Cauchy-Schwarz, no spectral theorem assumed) *)
Theorem C08_3x3_clamp_inactive : forall a00 a01 a02 a11 a12 a22,
  0 < a01 * a01 + a02 * a02 + a12 * a12 -> -1 <= c08_smith3_r a00 a01 a02 a11 a12 a22 <= 1.
Proof. exact Hclamp. Qed.
Print Assumptions C08_3x3_clamp_inactive.

(* C08_3x3_exact, eigenvalue part, FULL: threshold 0, EVERY real symmetric 3x3 matrix, both branches: the three values are
   ascending, sum to the trace and are ALL the roots of the characteristic polynomial with multiplicity *)
Theorem C08_3x3_eigenvalues : forall a00 a01 a02 a11 a12 a22,
  let '(e0, e1, e2) := c08_eig3 0 a00 a01 a02 a11 a12 a22 in
  e0 <= e1 /\ e1 <= e2 /\ e0 + e1 + e2 = a00 + a11 + a22 /\
  forall x, c08_charpoly3 a00 a01 a02 a11 a12 a22 x = (x - e0) * (x - e1) * (x - e2).
Proof. exact P_eig3. Qed.
Print Assumptions C08_3x3_eigenvalues.

(* every POSITIVE threshold of the diagonal shortcut is refuted as an exact statement ([[0,t,0],[t,0,0],[0,0,5]], t*t <= eps);
   the error is O(sqrt(eps)) ||A||, which is what the tolerance of the 3x3 TESTS allows *)
Theorem C08_3x3_eps_refuted : forall eps, 0 < eps -> exists a00 a01 a02 a11 a12 a22,
  let '(e0, e1, e2) := c08_eig3 eps a00 a01 a02 a11 a12 a22 in
  c08_charpoly3 a00 a01 a02 a11 a12 a22 e0 <> 0.
Proof. exact P_eig3_eps_refuted. Qed.
Print Assumptions C08_3x3_eps_refuted.

(* ---------------------------------------------------------------------------------------------- 3x3 eigenvector, Impl::eig0
   For ANY real 3x3 matrix A and eigenvalue l with rank(A - l I) = 2 (a simple eigenvalue of a symmetric matrix), the
   running-maximum selection of eig0 picks the row pair with the LARGEST cross product (the documented robustness rule; in
   floating point the other pairs may be pure round-off, cf. mutants/C08/m8), that length is positive, and the normalised
   cross product v satisfies (A - l I) v = 0, v.v = 1.
   (This is the eig0 lemma; the complete statements are C08_3x3_eigvec, C08_3x3_exact and C08_3x3_all below.  The 3x3 path is
   tied to the code by the tolerance TESTS only: structured stream `struct3:*` of checks/C08.py.) *)
Theorem C08_3x3_eig0_largest_pair : forall (A : c08_mat3) (l : R),
  c08_det3m (c08_shift3 A l) = 0 ->
  (let '(r0, r1, r2) := c08_shift3 A l in
   ~ (is_zero3 (c08_cross r0 r1) /\ is_zero3 (c08_cross r0 r2) /\ is_zero3 (c08_cross r1 r2))) ->
  let '(imax, v) := c08_eig0 A l in
  let '(d0, d1, d2) := c08_eig0_d A l in
  c08_mv3 (c08_shift3 A l) v = (0, 0, 0) /\ c08_dot3 v v = 1 /\
  nth imax (d0 :: d1 :: d2 :: nil) 0 = Rmax d0 (Rmax d1 d2) /\ 0 < Rmax d0 (Rmax d1 d2).
Proof. exact P_eig0. Qed.
Print Assumptions C08_3x3_eig0_largest_pair.
Example C08_3x3_eig0_nonvacuous : c08_det3m (c08_shift3 c08_ex_A3 (-5)) = 0 /\
  (let '(r0, r1, r2) := c08_shift3 c08_ex_A3 (-5) in
   ~ (is_zero3 (c08_cross r0 r1) /\ is_zero3 (c08_cross r0 r2) /\ is_zero3 (c08_cross r1 r2))) /\
  fst (c08_eig0 c08_ex_A3 (-5)) = 1%nat.
Proof. exact P_ex_eig0. Qed.

(* ---------------------------------------------------------------------------------------------- 3x3 eigenvectors: eig0 + eig1 + cross product
   C08_3x3_eigvec: A real symmetric, (l0,l1,l2) its eigenvalues (roots, sum = trace), the extreme eigenvalue eig0 is called for
   (l2 if r >= 0, l0 otherwise) simple (rank(A - l I) = 2, different from l1).  Then orthoComp/eig1/cross product run without
   division by zero (the model returns None on a zero divisor) and deliver orthonormal w_i with A w_i = l_i w_i.
   The double-eigenvalue case l1 = (other extreme) IS covered (M = 0 branch of eig1). *)
Theorem C08_3x3_eigvec : forall a00 a01 a02 a11 a12 a22 r l0 l1 l2,
  let A := c08_symm a00 a01 a02 a11 a12 a22 in
  c08_det3m (c08_shift3 A l0) = 0 -> c08_det3m (c08_shift3 A l1) = 0 -> c08_det3m (c08_shift3 A l2) = 0 ->
  l0 + l1 + l2 = a00 + a11 + a22 ->
  (0 <= r -> l1 <> l2 /\ c08_rank2 A l2) -> (r < 0 -> l1 <> l0 /\ c08_rank2 A l0) ->
  exists w0 w1 w2, c08_eigvecs3 A r (l0, l1, l2) = Some (w0, w1, w2) /\
    c08_eigvec_of A l0 w0 /\ c08_eigvec_of A l1 w1 /\ c08_eigvec_of A l2 w2 /\
    c08_dot3 w0 w0 = 1 /\ c08_dot3 w1 w1 = 1 /\ c08_dot3 w2 w2 = 1 /\
    c08_dot3 w0 w1 = 0 /\ c08_dot3 w0 w2 = 0 /\ c08_dot3 w1 w2 = 0.
Proof. exact P_eigvec3. Qed.
Print Assumptions C08_3x3_eigvec.

(* C08_3x3_exact (non-diagonal branch, threshold 0), NO further hypotheses: for every real symmetric 3x3 matrix that is not
   diagonal, Smith's eigenvalues are all the roots in ascending order and the eigenvector construction yields an orthonormal
   eigenbasis: the extreme eigenvalue chosen by the sign of r is always simple (proved), hence rank 2 (proved).
   Not modelled: the eigenvectors of the diagonal shortcut (unit vectors permuted jointly with the sort) and the final sort of
   the (eigenvalue, eigenvector) pairs (identity on ascending eigenvalues). *)
Theorem C08_3x3_exact : forall a00 a01 a02 a11 a12 a22,
  0 < a01 * a01 + a02 * a02 + a12 * a12 ->
  let A := c08_symm a00 a01 a02 a11 a12 a22 in
  let ev := c08_smith3 a00 a01 a02 a11 a12 a22 in
  let r := c08_clamp (c08_smith3_r a00 a01 a02 a11 a12 a22) (-1) 1 in
  let '(l0, l1, l2) := ev in
  l0 <= l1 /\ l1 <= l2 /\ l0 + l1 + l2 = a00 + a11 + a22 /\
  (forall x, c08_charpoly3 a00 a01 a02 a11 a12 a22 x = (x - l0) * (x - l1) * (x - l2)) /\
  exists w0 w1 w2, c08_eigvecs3 A r ev = Some (w0, w1, w2) /\
    c08_eigvec_of A l0 w0 /\ c08_eigvec_of A l1 w1 /\ c08_eigvec_of A l2 w2 /\
    c08_dot3 w0 w0 = 1 /\ c08_dot3 w1 w1 = 1 /\ c08_dot3 w2 w2 = 1 /\
    c08_dot3 w0 w1 = 0 /\ c08_dot3 w0 w2 = 0 /\ c08_dot3 w1 w2 = 0.
Proof. exact P_3x3_exact. Qed.
Print Assumptions C08_3x3_exact.
Example C08_3x3_exact_nonvacuous : 0 < 2 * 2 + 0 * 0 + 0 * 0.
Proof. exact P_ex_p1. Qed.

(* C08_3x3_scale_invariant: the 3d specialisation runs its WHOLE computation [core] (any thresholds; eigenvalues only or with
   eigenvectors) on A / ||A||_inf and multiplies the eigenvalues back: for s > 0 and A <> 0 the result for s A is s times the
   eigenvalues and exactly the same eigenvectors (for A = 0, s A = A) *)
Theorem C08_3x3_scale_invariant : forall (X : Type) (core : R -> R -> R -> R -> R -> R -> (R * R * R) * X)
  s a00 a01 a02 a11 a12 a22, 0 < s -> c08_infnorm3 a00 a01 a02 a11 a12 a22 <> 0 ->
  c08_prescaled core (s * a00) (s * a01) (s * a02) (s * a11) (s * a12) (s * a22) =
  let '((e0, e1, e2), x) := c08_prescaled core a00 a01 a02 a11 a12 a22 in ((s * e0, s * e1, s * e2), x).
Proof. exact P_3x3_scale_invariant. Qed.
Print Assumptions C08_3x3_scale_invariant.

(* ---------------------------------------------------------------------------------------------- the WHOLE 3d specialisation
   c08_eigenvaluesvectors3 eps = pre-scaling by ||A||_inf, eigenValues3dImpl (diagonal shortcut `p1 <= eps`, Smith, sort), the
   eigenvectors of both branches (unit vectors jointly bubble-sorted with the diagonal; eig0/eig1/cross product), joint
   sorting of the (value, vector) pairs, eigenValues *= maxAbsElement.
   C08_3x3_all: threshold 0: for EVERY real symmetric 3x3 matrix (diagonal or not, zero or not, any multiplicities) the result
   exists (no division by zero) and is an orthonormal eigen-decomposition of A itself: ascending, sum = trace, all roots with
   multiplicity, A w_i = l_i w_i, unit, mutually orthogonal. *)
Theorem C08_3x3_all : forall a00 a01 a02 a11 a12 a22,
  let '(ev, ows) := c08_eigenvaluesvectors3 0 a00 a01 a02 a11 a12 a22 in
  exists ws, ows = Some ws /\ c08_decomp3 a00 a01 a02 a11 a12 a22 ev ws.
Proof. exact P_3x3_all. Qed.
Print Assumptions C08_3x3_all.
Example C08_3x3_all_instance :
  let '(ev, ows) := c08_eigenvaluesvectors3 0 1 0 2 (-5) 0 3 in exists ws, ows = Some ws /\ c08_decomp3 1 0 2 (-5) 0 3 ev ws.
Proof. exact (P_3x3_all 1 0 2 (-5) 0 3). Qed.

(* eigenvalue-only and eigenvalue+vector entry points return the same eigenvalues, for EVERY threshold *)
Theorem C08_3x3_entrypoints_agree : forall eps a00 a01 a02 a11 a12 a22,
  fst (c08_eigenvaluesvectors3 eps a00 a01 a02 a11 a12 a22) = c08_eigenvalues3 eps a00 a01 a02 a11 a12 a22.
Proof. exact P_3x3_entrypoints_agree. Qed.
Print Assumptions C08_3x3_entrypoints_agree.

(* jointly sorting the (eigenvalue, eigenvector) pairs: ascending values, one of the six permutations of the PAIRS *)
Theorem C08_3x3_joint_sort : forall (X : Type) (p0 p1 p2 : R * X),
  let '(q0, q1, q2) := c08_bubble3 p0 p1 p2 in
  fst q0 <= fst q1 /\ fst q1 <= fst q2 /\
  ((q0, q1, q2) = (p0, p1, p2) \/ (q0, q1, q2) = (p0, p2, p1) \/ (q0, q1, q2) = (p1, p0, p2) \/
   (q0, q1, q2) = (p1, p2, p0) \/ (q0, q1, q2) = (p2, p0, p1) \/ (q0, q1, q2) = (p2, p1, p0)).
Proof. exact bubble3_spec. Qed.
Print Assumptions C08_3x3_joint_sort.

(* orthoComp: for EVERY unit vector it succeeds and returns a unit u orthogonal to evec0 (v = evec0 x u) ... *)
Theorem C08_orthocomp : forall e, c08_dot3 e e = 1 ->
  exists u, c08_orthocomp e = Some (u, c08_cross e u) /\ c08_dot3 u u = 1 /\ c08_dot3 e u = 0.
Proof. exact orthocomp_ok. Qed.
Print Assumptions C08_orthocomp.
(* ... because u is built from a NON-DEGENERATE pair: comparing |e0| with |e1| keeps the larger one, so the squared length under
   the square root is at least 1/2 ... *)
Theorem C08_orthocomp_nondegenerate : forall e0 e1 e2, c08_dot3 (e0, e1, e2) (e0, e1, e2) = 1 ->
  (Rabs e1 < Rabs e0 -> / 2 <= e0 * e0 + e2 * e2) /\ (~ Rabs e1 < Rabs e0 -> / 2 <= e1 * e1 + e2 * e2).
Proof. exact P_orthocomp_pair. Qed.
Print Assumptions C08_orthocomp_nondegenerate.
(* ... whereas the flipped comparison (a seeded change, caught by the oracle as NaN eigenvectors) divides by zero for (1,0,0) *)
Theorem C08_orthocomp_flipped_refuted : c08_dot3 (1, 0, 0) (1, 0, 0) = 1 /\ c08_orthocomp_flipped (1, 0, 0) = None.
Proof. exact P_orthocomp_flipped_refuted. Qed.
Print Assumptions C08_orthocomp_flipped_refuted.

(* ---------------------------------------------------------------------------------------------- source constants (Params_gen.v)
   The job characters, uplo, workspace formulas, the array the vectors are read from, and the 2x2 variant are re-read from
   dune/common/fmatrixev.hh / dynmatrixev.hh on every run (tools/params.d/C08.py); these theorems are re-checked against them. *)
Theorem C08_syev_call_literal : forall (T : Type) tag n (A : nat -> nat -> T),
  c08_syev_call tag n A = C08Syev tag true n (c08_flatten n A) n (3 * n - 1).
Proof. exact P_syev_call_literal. Qed.
Print Assumptions C08_syev_call_literal.

Theorem C08_handover_workspace : forall (T : Type) tag want n (A : nat -> nat -> T), (1 <= n)%nat ->
  (Nat.max 1 (3 * n - 1) <= c08_sy_lwork (c08_syev_call tag n A))%nat /\
  (Nat.max 1 (3 * n) <= c08_ge_lwork (c08_dyn_call want n A))%nat /\
  (want = true -> (4 * n <= c08_ge_lwork (c08_dyn_call want n A))%nat) /\
  c08_sy_lda (c08_syev_call tag n A) = n /\ c08_ge_lda (c08_dyn_call want n A) = n /\
  c08_ge_ldvl (c08_dyn_call want n A) = n /\ c08_ge_ldvr (c08_dyn_call want n A) = n /\
  length (c08_sy_a (c08_syev_call tag n A)) = (n * n)%nat /\ length (c08_ge_a (c08_dyn_call want n A)) = (n * n)%nat.
Proof. exact P_workspace. Qed.
Print Assumptions C08_handover_workspace.

(* DynamicMatrixHelp::eigenValuesNonSym as the source NOW writes it returns non-zero RIGHT eigenvectors of A (all n) *)
Theorem C08_handover_nonsym_source : forall n A geev evs V,
  c08_geev_contract (c08_geev_args_fix n A) (geev (c08_geev_args_fix n A)) ->
  c08_nonsym_dyn_src 0 geev true n A = C08_LOk (evs, Some V) ->
  length evs = n /\
  forall i, (i < n)%nat -> snd (nth i evs (0, 0)) = 0 ->
    c08_right_eig n A (fst (nth i evs (0, 0))) (c08_row_of V i) /\ c08_nonzero n (c08_row_of V i).
Proof. exact P_handover_nonsym_src. Qed.
Print Assumptions C08_handover_nonsym_source.

Theorem C08_handover_nonsym_info : forall (geev : c08_geev_args -> c08_geev_out (T:=R)) want n A,
  (c08_nonsym_dyn_src 0 geev want n A = C08_InvalidState <-> snd (geev (c08_dyn_call want n A)) <> 0%Z) /\
  (c08_nonsym_fm geev n A = C08_InvalidState <->
   snd (geev (C08Geev c08_param_fm_jobvl_v c08_param_fm_jobvr_v n (c08_flatten n A) n n n (c08_param_fm_lwork_mul * n))) <> 0%Z).
Proof. exact P_handover_nonsym_info. Qed.
Print Assumptions C08_handover_nonsym_info.

Theorem C08_2x2_source_scale_invariant : forall thrq thrid a b d s, 0 < s -> 0 <= thrid ->
  c08_thr_eff c08_param_id_rel thrid (a, b, b, d) < c08_dev2 (a, b, b, d) (c08_l0 a b d) \/ c08_dev2 (a, b, b, d) (c08_l0 a b d) = 0 ->
  exists r', c08_eigenvaluesvectors2 c08_R_ops c08_param_id_rel c08_param_perp thrq thrid (c08_scale2 s (a, b, b, d)) = C08_Ok r' /\
             fst r' = (s * c08_l0 a b d, s * c08_l1 a b d) /\ c08_decomp2 (c08_scale2 s (a, b, b, d)) r'.
Proof. exact P_2x2_source_scale. Qed.
Print Assumptions C08_2x2_source_scale_invariant.

(* ---------------------------------------------------------------------------------------------- executable 3x3 kernels
   The operation-record kernels c08g_eig0 / c08g_orthocomp / c08g_eig1 of C08_Model.v are run at binary64 and diffed bit for bit
   against Impl::eig0 / orthoComp / eig1 on every check run (stream k3).  Instantiated at the reals they ARE the functions the
   C08_3x3_* theorems are about (a guarded division returning "no value" corresponds to None): *)
Theorem C08_3x3_kernels_are_the_model :
  (forall e, c08g_orthocomp c08_R_ops e = c08_res_of_option (c08_orthocomp e)) /\
  (forall A e l1, c08g_eig1 c08_R_ops A e l1 = c08_res_of_option (c08_eig1v A e l1)) /\
  (forall A l, let '(d0, d1, d2) := c08_eig0_d A l in 0 < Rmax d0 (Rmax d1 d2) -> c08g_eig0 c08_R_ops A l = C08_Ok (c08_eig0 A l)).
Proof. exact (conj K_orthocomp (conj K_eig1 K_eig0)). Qed.
Print Assumptions C08_3x3_kernels_are_the_model.
