(* C09 — property theorems.  ONLY statements, each closed by `exact <lemma>` and followed by
   Print Assumptions.  Model: C09_Model.v (LoopSIMD<T,S> = list of S lanes; dense LU of densematrix.hh over an
   UNINTERPRETED carrier T, U, sub mul div absr gt nz zero one mone — no laws, division not totalised),
   Spec: C09_Spec.v (a SIMD value is the family of its lanes).
   Quantification: every lane count W / S, every matrix size n, every carrier and operations, every matrix
   content per lane (hence every combination of pivot rows per lane and every set of singular lanes), pivoting
   on or off.  Equalities are Leibniz equalities of values built from the uninterpreted operations, i.e.
   identity of operation trees: "bit for bit". *)
From Coq Require Import List Arith Bool ZArith.
From Coq Require Import QArith.
From DuneV Require Import Params_gen C09_Model C09_Spec C09_Proofs C09_Proofs_LU C09_Proofs_Swap C09_Proofs_Witness.
Local Close Scope Q_scope.
Import ListNotations.

(* ---------------------------------------------------------------- operator table *)

(* unary, binary (vector-vector, vector-scalar, scalar-vector) operator families produce in lane l what the
   scalar operator produces on the lane-l operands, for every lane count S and every scalar operation f, g *)
Theorem C09_ops_lanewise : forall (X Y Z : Type) (S : nat) (dx : X) (dy : Y) (dz : Z) (f : X -> Y -> Z) (g : X -> Z),
  c09_lanewise2 S dx dy dz (c09_map2 f) f /\
  c09_lanewise1 S dx dz (c09_map g) g /\
  (forall s, c09_lanewise1 S dx dz (fun v => c09_map_vs f v s) (fun a => f a s)) /\
  (forall s, c09_lanewise1 S dy dz (fun w => c09_map_sv f s w) (fun b => f s b)).
Proof. exact P_ops_lanewise. Qed.
Print Assumptions C09_ops_lanewise.

(* compound assignment, ++v / v++: value of the expression and new value of the operand *)
Theorem C09_ops_sideeffects : forall (X Y : Type) (f : X -> Y -> X) (g : X -> X) v w s,
  fst (c09_assign_vv f v w) = c09_map2 f v w /\ snd (c09_assign_vv f v w) = c09_map2 f v w /\
  fst (c09_assign_vs f v s) = c09_map_vs f v s /\ snd (c09_assign_vs f v s) = c09_map_vs f v s /\
  fst (c09_prefix g v) = c09_map g v /\ snd (c09_prefix g v) = c09_map g v /\
  fst (c09_postfix g v) = v /\ snd (c09_postfix g v) = c09_map g v.
Proof. exact P_sideeffects. Qed.
Print Assumptions C09_ops_sideeffects.

(* aliasing: v @= s where s refers to lane k of v itself.  The operator takes s by value: every lane combines with the ORIGINAL lane k *)
Theorem C09_assign_alias_snapshot : forall (X : Type) (f : X -> X -> X) (d : X) (v : list X) (k l : nat), l < length v ->
  length (fst (c09_assign_vs_lane f d v k)) = length v /\
  snd (c09_assign_vs_lane f d v k) = fst (c09_assign_vs_lane f d v k) /\
  c09_lane d l (fst (c09_assign_vs_lane f d v k)) = f (c09_lane d l v) (c09_lane d k v).
Proof. exact P_assign_alias_snapshot. Qed.
Print Assumptions C09_assign_alias_snapshot.

(* a by-REFERENCE scalar parameter (not the code) re-reads lane k in every iteration: it differs exactly in the lanes after k, which
   combine with the already updated lane k *)
Theorem C09_assign_byref_lanes : forall (X : Type) (f : X -> X -> X) (d : X) (v : list X) (k l : nat), k < length v -> l < length v ->
  c09_lane d l (c09_assign_vs_lane_byref f d v k) =
  if l <=? k then f (c09_lane d l v) (c09_lane d k v) else f (c09_lane d l v) (f (c09_lane d k v) (c09_lane d k v)).
Proof. exact P_assign_byref_lanes. Qed.
Print Assumptions C09_assign_byref_lanes.

Theorem C09_assign_byref_refuted :
  exists (f : nat -> nat -> nat) (v : list nat) (k : nat), k < length v /\
    c09_assign_vs_lane_byref f 0 v k <> fst (c09_assign_vs_lane f 0 v k).
Proof. exact P_assign_byref_refuted. Qed.
Print Assumptions C09_assign_byref_refuted.

(* special members and conversions of LoopSIMD (copy / move construction and assignment, self-assignment, converting constructor between
   alignments, swap, assignment of the own lane k) *)
Theorem C09_special_members : forall (X : Type) (d : X) (v w : list X) (k l : nat),
  fst (c09_copy v) = v /\ snd (c09_copy v) = v /\ c09_lanes (fst (c09_copy v)) = c09_lanes v /\
  fst (c09_swap v w) = w /\ snd (c09_swap v w) = v /\
  (l < c09_lanes v -> c09_lane d l (c09_bcast (c09_lanes v) (c09_lane d k v)) = c09_lane d k v).
Proof. exact P_special_members. Qed.
Print Assumptions C09_special_members.

Theorem C09_cond_lanewise : forall (X : Type) (S : nat) (d : X) (m : list bool) (a b : list X),
  length m = S -> length a = S -> length b = S ->
  length (c09_cond m a b) = S /\
  forall l, l < S -> c09_lane d l (c09_cond m a b) = if c09_lane false l m then c09_lane d l a else c09_lane d l b.
Proof. exact P_cond_lanewise. Qed.
Print Assumptions C09_cond_lanewise.

Theorem C09_broadcast_lane : forall (X : Type) (S : nat) (x d : X) l, l < S ->
  length (c09_bcast S x) = S /\ c09_lane d l (c09_bcast S x) = x.
Proof. exact P_bcast_lane. Qed.
Print Assumptions C09_broadcast_lane.

Theorem C09_implcast_identity : forall (X : Type) (d : X) (S : nat) (u : list X), length u = S -> c09_implcast d S u = u.
Proof. exact P_implcast. Qed.
Print Assumptions C09_implcast_identity.

(* anyTrue / allTrue / anyFalse / allFalse (with the accumulators of loop.hh) are the lane quantifiers *)
Theorem C09_mask_reductions : forall m : list bool,
  (c09_anytrue m = true <-> exists l, l < length m /\ c09_lane false l m = true) /\
  (c09_alltrue m = true <-> forall l, l < length m -> c09_lane false l m = true) /\
  c09_anyfalse m = negb (c09_alltrue m) /\
  c09_allfalse m = negb (c09_anytrue m).
Proof. exact P_reductions. Qed.
Print Assumptions C09_mask_reductions.

(* the mixed vector-scalar forms of every operator family (v @ s, s @ v, v @= s) are the vector-vector forms applied to the broadcast
   scalar (interface.hh: "arbitrary combinations of V and S"; LoopSIMD(Scalar<T>) converting constructor / assignment from a scalar) *)
Theorem C09_scalar_forms_are_broadcast : forall (X Y Z : Type) (f : X -> Y -> Z) (g : X -> Y -> X) (v : list X) (w : list Y) (sx : X) (sy : Y),
  c09_map_vs f v sy = c09_map2 f v (c09_bcast (c09_lanes v) sy) /\
  c09_map_sv f sx w = c09_map2 f (c09_bcast (c09_lanes w) sx) w /\
  c09_assign_vs g v sy = c09_assign_vv g v (c09_bcast (c09_lanes v) sy).
Proof. exact P_scalar_forms_are_broadcast. Qed.
Print Assumptions C09_scalar_forms_are_broadcast.

(* cond(bool, a, b), mask(v), maskOr, maskAnd, implCast (defaults.hh), lane by lane, with their lane counts *)
Theorem C09_interface_lanes : forall (X Y : Type) (dx : X) (dy : Y) (nx : X -> bool) (ny : Y -> bool) (v : list X) (w : list Y) (a b : list X) (m : bool) (S l : nat),
  length v = S -> length w = S -> l < S ->
  c09_lane dx l (c09_cond_bool m a b) = (if m then c09_lane dx l a else c09_lane dx l b) /\
  c09_lanes (c09_mask nx v) = S /\ c09_lane false l (c09_mask nx v) = nx (c09_lane dx l v) /\
  c09_lanes (c09_maskor nx ny v w) = S /\ c09_lane false l (c09_maskor nx ny v w) = nx (c09_lane dx l v) || ny (c09_lane dy l w) /\
  c09_lanes (c09_maskand nx ny v w) = S /\ c09_lane false l (c09_maskand nx ny v w) = nx (c09_lane dx l v) && ny (c09_lane dy l w) /\
  c09_lane dx l (c09_implcast dx S v) = c09_lane dx l v.
Proof. exact P_interface_lanes. Qed.
Print Assumptions C09_interface_lanes.

(* horizontal max(v) / min(v) of defaults.hh (m = lane 0; for l>=1: if(m < lane l) m = lane l): the result is one of the lanes, and if `<`
   is a strict weak order on the lanes (no NaN) no lane is greater; min is the same loop with the comparison turned round *)
Theorem C09_horizontal_max_min : forall (X : Type) (lt : X -> X -> bool) (d : X) (v : list X), v <> [] ->
  In (c09_hmax lt d v) v /\
  ((forall a b c, lt a b = false -> lt a c = true -> lt c b = false) -> (forall a, lt a a = false) ->
   forall x, In x v -> lt (c09_hmax lt d v) x = false) /\
  c09_hmin lt d v = c09_hmax (fun a b => lt b a) d v.
Proof. exact P_horizontal_max_min. Qed.
Print Assumptions C09_horizontal_max_min.

(* every operator, reduction and lane() on a nested LoopSIMD<LoopSIMD<T,m>,S> is the flat operation on its S*m lanes in memory order;
   broadcasting a scalar into a nested type fills all S*m lanes *)
Theorem C09_nested_ops : forall (X Y Z : Type) (f : X -> Y -> Z) (d : X) (m : nat) (v : list (list X)) (w : list (list Y)) (k : list (list bool)),
  Forall2 (fun a b => length a = length b) v w -> (forall x, In x v -> length x = m) ->
  concat (c09_nested_map2 f v w) = c09_map2 f (concat v) (concat w) /\
  c09_nested_all_lanes d m v = concat v /\
  c09_nested_anytrue k = c09_anytrue (concat k) /\
  c09_nested_alltrue k = c09_alltrue (concat k) /\
  c09_nested_lanes (length v) m = length (concat v).
Proof. exact P_nested_ops. Qed.
Print Assumptions C09_nested_ops.

Theorem C09_nested_broadcast : forall (X : Type) (S m : nat) (x : X), concat (c09_bcast S (c09_bcast m x)) = c09_bcast (S * m) x.
Proof. exact P_nested_bcast. Qed.
Print Assumptions C09_nested_broadcast.

(* nested SIMD-of-SIMD: lane(l % lanes<V>(), v[l / lanes<V>()]) is element l in memory order, indices in range *)
Theorem C09_nested_lane : forall (X : Type) (d : X) (m : nat) (v : list (list X)) (l : nat),
  (forall x, In x v -> length x = m) -> l < c09_nested_lanes (length v) m ->
  c09_nested_lane d m l v = nth l (concat v) d /\ l / m < length v /\ l mod m < m.
Proof. exact P_nested_lane. Qed.
Print Assumptions C09_nested_lane.

(* the traits the generic dense-matrix code dispatches on (HasNaN, IsNumber), the lane count, Scalar and Rebind are forwarded through
   LoopSIMD<t, S, A> for EVERY lane count S and EVERY alignment parameter A, at every nesting depth; u = any scalar type *)
Theorem C09_traits_forward : forall (t u : c09_ty), (exists i h n, u = C09_TScalar i h n) ->
  c09_ty_hasnan t = c09_ty_hasnan (c09_ty_scalar t) /\
  c09_ty_isnumber t = c09_ty_isnumber (c09_ty_scalar t) /\
  (forall S A, c09_ty_hasnan (C09_TSimd S A t) = c09_ty_hasnan t /\ c09_ty_isnumber (C09_TSimd S A t) = c09_ty_isnumber t /\
               c09_ty_lanes (C09_TSimd S A t) = S * c09_ty_lanes t /\ c09_ty_scalar (C09_TSimd S A t) = c09_ty_scalar t /\
               c09_ty_rebind u (C09_TSimd S A t) = C09_TSimd S A (c09_ty_rebind u t)) /\
  c09_ty_lanes (c09_ty_rebind u t) = c09_ty_lanes t /\
  c09_ty_scalar (c09_ty_rebind u t) = u /\
  c09_ty_hasnan (c09_ty_rebind u t) = c09_ty_hasnan u /\
  c09_ty_isnumber (c09_ty_rebind u t) = c09_ty_isnumber u /\
  c09_ty_rebind (c09_ty_scalar t) t = t /\
  c09_ty_rebind (c09_ty_scalar t) (c09_ty_rebind u t) = t /\
  (exists i h n, c09_ty_scalar t = C09_TScalar i h n).
Proof. exact P_traits_forward. Qed.
Print Assumptions C09_traits_forward.

(* the lane-count-indexed operators the LU model uses are the LoopSIMD operators above on W-lane operands *)
Theorem C09_lu_model_uses_loopsimd_ops : forall (X Y Z : Type) (W : nat) (dx : X) (dy : Y) (f : X -> Y -> Z) (g : X -> Y)
                              (a : list X) (b : list Y) (m : list bool) (c : list X),
  length a = W -> length b = W -> length m = W -> length c = W ->
  c09_vmap2 W dx dy f a b = c09_map2 f a b /\ c09_vmap W dx g a = c09_map g a /\
  c09_vcond W dx m a c = c09_cond m a c /\ c09_vbcast W dx = c09_bcast W dx.
Proof. exact P_vops_are_ops. Qed.
Print Assumptions C09_lu_model_uses_loopsimd_ops.

(* ---------------------------------------------------------------- dense LU *)

(* MAIN: luDecomposition on W-lane numbers versus the scalar luDecomposition on the lane-l matrix.
   throwEarly = false: no exception; the nonsingular bit of every lane is the scalar one, and for a lane that
   stays nonsingular the whole state (packed L/U, eliminated rhs, pivot record, sign) is the scalar one — while
   other lanes choose other pivot rows or are singular.
   throwEarly = true: the call completes iff every lane's scalar call completes, and then EVERY lane state is the
   scalar one; it throws FMatrixError iff some lane's scalar call throws (with the same state in that lane). *)
Theorem C09_lu_lanes : forall (T U : Type) (sub mul div : T -> T -> T) (absr : T -> U) (gt : U -> U -> bool) (nz : U -> bool)
                              (zero one mone : T) (W : nat) (doPivoting : bool) (n : nat) (A : list (list (list T))) (b : list (list T)),
  (forall l, l < W -> exists st' s',
      c09_v_lu T U sub mul div absr gt nz zero one mone W false doPivoting n A b = C09_Ok st' /\
      c09_s_lu T U sub mul div absr gt nz zero one mone false doPivoting n (c09_lane_mat T zero l A) (c09_lane_vec T zero l b) = C09_Ok s' /\
      nth l (c09_vok T st') false = c09_sok T s' /\ (c09_sok T s' = true -> c09_lane_st T zero l st' = s')) /\
  match c09_v_lu T U sub mul div absr gt nz zero one mone W true doPivoting n A b with
  | C09_Ok st' => forall l, l < W ->
      c09_s_lu T U sub mul div absr gt nz zero one mone true doPivoting n (c09_lane_mat T zero l A) (c09_lane_vec T zero l b)
      = C09_Ok (c09_lane_st T zero l st')
  | C09_FMatrixError st' => exists l, l < W /\
      c09_s_lu T U sub mul div absr gt nz zero one mone true doPivoting n (c09_lane_mat T zero l A) (c09_lane_vec T zero l b)
      = C09_FMatrixError (c09_lane_st T zero l st')
  end.
Proof. exact P_lu_lanes. Qed.
Print Assumptions C09_lu_lanes.

(* the model writes the row swap of luDecomposition as a per-lane gather; the literal loops over single lanes of single
   entries (for j: for l: swap(lane(l, A[i][j]), lane(l, A[lane(l, imax)][j]))) compute exactly that, entry by entry *)
Theorem C09_rowswap_loops_are_gather : forall (T : Type) (zero : T) (W n : nat) (A : list (list (list T))) (i : nat) (imax : list nat) r c l,
  i < n -> (forall l, l < W -> nth l imax 0 < n) -> r < n -> c < n -> l < W ->
  c09_get3 T zero (c09_v_swaprows_loops T zero W n A i imax) r c l =
  c09_get3 T zero (c09_v_swaprows T zero W n A i imax) r c l.
Proof. exact P_swaprows_loops. Qed.
Print Assumptions C09_rowswap_loops_are_gather.

(* the same for Elim::swap on the right-hand side (for l: swap(lane(l, rhs[i]), lane(l, rhs[lane(l, j)]))) ... *)
Theorem C09_rhsswap_loop_is_gather : forall (T : Type) (zero : T) (W n : nat) (x : list (list T)) (i : nat) (imax : list nat) r l,
  i < n -> (forall l, l < W -> nth l imax 0 < n) -> r < n -> l < W ->
  c09_get2 T zero (c09_v_swapvec_loops T zero W n x i imax) r l = c09_get2 T zero (c09_v_swapvec T zero W n x i imax) r l.
Proof. exact P_swapvec_loops. Qed.
Print Assumptions C09_rhsswap_loop_is_gather.

(* ... and for one step i of the column un-permutation of invert
   (for l: pi = lane(l, pivot[i]); if(i != pi) for j: swap(lane(l, M[j][pi]), lane(l, M[j][i]))) *)
Theorem C09_unperm_loops_are_gather : forall (T : Type) (zero : T) (W n : nat) (M : list (list (list T))) (i : nat) (pv : list nat) r c l,
  i < n -> (forall l, l < W -> nth l pv 0 < n) -> r < n -> c < n -> l < W ->
  c09_get3 T zero (c09_v_unperm_step_loops T zero W n M i pv) r c l =
  c09_get3 T zero (c09_v_unperm_step T zero W n M i pv) r c l.
Proof. exact P_unperm_step_loops. Qed.
Print Assumptions C09_unperm_loops_are_gather.

(* facts the code establishes itself (not hypotheses): every lane's pivot row at step i is a row i <= p < n ... *)
Theorem C09_pivot_in_range : forall (T U : Type) (absr : T -> U) (gt : U -> U -> bool) (zero : T) (W : nat)
                                    (A : list (list (list T))) (n i : nat) (pm : list U) (l : nat), i < n -> l < W ->
  let p := nth l (snd (c09_v_pivsearch T U absr gt zero W A i (seq (S i) (n - S i)) pm (c09_vbcast W i))) 0 in
  i <= p < n.
Proof. exact P_pivot_in_range. Qed.
Print Assumptions C09_pivot_in_range.

(* ... hence, with at least one lane, the loop body of luDecomposition with its row / rhs swaps written as the literal loops over single
   lanes of single entries IS (Leibniz-equal to) the loop body of the model: no side condition left *)
Theorem C09_pivot_step_literal_loops : forall (T U : Type) (mul : T -> T -> T) (absr : T -> U) (gt : U -> U -> bool) (nz : U -> bool) (zero one mone : T)
                                  (W : nat) (dp : bool) (n i : nat) (st : c09_vst T), i < n -> 0 < W ->
  c09_v_pivot_step_loops T U mul absr gt nz zero one mone W dp n i st = c09_v_pivot_step T U mul absr gt nz zero one mone W dp n i st.
Proof. exact P_pivot_step_loops. Qed.
Print Assumptions C09_pivot_step_literal_loops.

(* ... and every entry of the pivot record that invert's column un-permutation reads is a column number below n, in both modes, also when the
   run ends in FMatrixError *)
Theorem C09_pivot_record_in_range : forall (T U : Type) (sub mul div : T -> T -> T) (absr : T -> U) (gt : U -> U -> bool) (nz : U -> bool)
                                           (zero one mone : T) (W : nat) (throwEarly doPivoting : bool) (n : nat) (A : list (list (list T))) (b : list (list T)),
  match c09_v_lu T U sub mul div absr gt nz zero one mone W throwEarly doPivoting n A b with
  | C09_Ok st' | C09_FMatrixError st' => forall r l, r < n -> l < W -> nth l (nth r (c09_vpiv T st') []) 0 < n
  end.
Proof. exact P_pivot_record_in_range. Qed.
Print Assumptions C09_pivot_record_in_range.

(* the whole column un-permutation of invert with the literal loops (for i = n-1..0: for l: if(i != pi) for j: swap ...), entry by entry *)
Theorem C09_unperm_whole_literal_loops : forall (T : Type) (zero : T) (W n : nat) (piv : list (list nat)) (cols : list nat) (M M' : list (list (list T))),
  (forall i, In i cols -> i < n) -> (forall i l, i < n -> l < W -> nth l (nth i piv []) 0 < n) ->
  (forall r c l, r < n -> c < n -> l < W -> c09_get3 T zero M r c l = c09_get3 T zero M' r c l) ->
  forall r c l, r < n -> c < n -> l < W ->
  c09_get3 T zero (c09_v_unperm_loops T zero W n piv cols M) r c l = c09_get3 T zero (c09_v_unperm T zero W n piv cols M') r c l.
Proof. exact P_unperm_loops. Qed.
Print Assumptions C09_unperm_whole_literal_loops.

(* nonsingularLanes accumulates over ALL steps: a lane once marked singular is singular in the result of determinant's LU run (which never throws) ... *)
Theorem C09_mask_accumulates : forall (T U : Type) (sub mul div : T -> T -> T) (absr : T -> U) (gt : U -> U -> bool) (nz : U -> bool) (zero one mone : T)
                                      (W l : nat) (doPivoting : bool) (n rem i : nat) (st : c09_vst T),
  l < W -> nth l (c09_vok T st) false = false ->
  exists st', c09_v_loop T U sub mul div absr gt nz zero one mone W false doPivoting n rem i st = C09_Ok st' /\ nth l (c09_vok T st') false = false.
Proof. exact P_mask_accumulates. Qed.
Print Assumptions C09_mask_accumulates.

(* ... and the determinant of a lane whose scalar run finds a zero pivot is exactly field_type(0), whatever the other lanes do *)
Theorem C09_det_singular_lane_zero : forall (T U : Type) (sub mul div : T -> T -> T) (absr : T -> U) (gt : U -> U -> bool) (nz : U -> bool) (zero one mone : T)
                                            (W : nat) (doPivoting : bool) (n : nat) (A : list (list (list T))) (l : nat) s', l < W ->
  c09_s_lu T U sub mul div absr gt nz zero one mone false doPivoting n (c09_lane_mat T zero l A) [] = C09_Ok s' -> c09_sok T s' = false ->
  nth l (c09_v_det T U sub mul div absr gt nz zero one mone W doPivoting n A) zero = zero.
Proof. exact P_det_singular_lane_zero. Qed.
Print Assumptions C09_det_singular_lane_zero.

(* solve (n >= 4 branch): per lane the scalar solution, or FMatrixError because some lane is singular *)
Theorem C09_solve_lanes : forall (T U : Type) (sub mul div : T -> T -> T) (absr : T -> U) (gt : U -> U -> bool) (nz : U -> bool)
                                 (zero one mone : T) (W : nat) (doPivoting : bool) (n : nat) (A : list (list (list T))) (b : list (list T)),
  match c09_v_solve T U sub mul div absr gt nz zero one mone W doPivoting n A b with
  | C09_Ok x => forall l, l < W ->
      c09_s_solve T U sub mul div absr gt nz zero one mone doPivoting n (c09_lane_mat T zero l A) (c09_lane_vec T zero l b)
      = C09_Ok (c09_lane_vec T zero l x)
  | C09_FMatrixError _ => exists l e, l < W /\
      c09_s_solve T U sub mul div absr gt nz zero one mone doPivoting n (c09_lane_mat T zero l A) (c09_lane_vec T zero l b)
      = C09_FMatrixError e
  end.
Proof. exact P_solve_lanes. Qed.
Print Assumptions C09_solve_lanes.

(* invert (n >= 4 branch), including the per-lane column un-permutation *)
Theorem C09_invert_lanes : forall (T U : Type) (sub mul div : T -> T -> T) (absr : T -> U) (gt : U -> U -> bool) (nz : U -> bool)
                                  (zero one mone : T) (W : nat) (doPivoting : bool) (n : nat) (A : list (list (list T))),
  match c09_v_invert T U sub mul div absr gt nz zero one mone W doPivoting n A with
  | C09_Ok B => forall l, l < W ->
      c09_s_invert T U sub mul div absr gt nz zero one mone doPivoting n (c09_lane_mat T zero l A) = C09_Ok (c09_lane_mat T zero l B)
  | C09_FMatrixError _ => exists l e, l < W /\
      c09_s_invert T U sub mul div absr gt nz zero one mone doPivoting n (c09_lane_mat T zero l A) = C09_FMatrixError e
  end.
Proof. exact P_invert_lanes. Qed.
Print Assumptions C09_invert_lanes.

(* determinant (n >= 4 branch; product of the diagonal first, then cond(nonsingularLanes, det, 0) — the code since 1209091):
   EVERY lane, singular ones included, is the scalar determinant of that lane's matrix *)
Theorem C09_det_lanes : forall (T U : Type) (sub mul div : T -> T -> T) (absr : T -> U) (gt : U -> U -> bool) (nz : U -> bool)
                               (zero one mone : T) (W : nat) (doPivoting : bool) (n : nat) (A : list (list (list T))) (l : nat),
  l < W ->
  nth l (c09_v_det T U sub mul div absr gt nz zero one mone W doPivoting n A) zero
  = c09_s_det T U sub mul div absr gt nz zero one mone doPivoting n (c09_lane_mat T zero l A).
Proof. exact P_det_lanes. Qed.
Print Assumptions C09_det_lanes.

(* history: for the determinant before 1209091 (select BEFORE the product) the statement of C09_det_lanes was false (F-C09-1) ... *)
Theorem C09_det_lanes_before_fix_refuted :
  exists (T U : Type) sub mul div absr gt nz zero one mone W n A l, l < W /\
    nth l (c09_v_det_before_fix T U sub mul div absr gt nz zero one mone W true n A) zero
    <> c09_s_det_before_fix T U sub mul div absr gt nz zero one mone true n (c09_lane_mat T zero l A).
Proof. exact P_det_lanes_before_fix_refuted. Qed.
Print Assumptions C09_det_lanes_before_fix_refuted.

(* ... and held only for lanes whose scalar run ends nonsingular *)
Theorem C09_det_lanes_before_fix_partial : forall (T U : Type) (sub mul div : T -> T -> T) (absr : T -> U) (gt : U -> U -> bool) (nz : U -> bool)
                               (zero one mone : T) (W : nat) (doPivoting : bool) (n : nat) (A : list (list (list T))) (l : nat) s',
  l < W ->
  c09_s_lu T U sub mul div absr gt nz zero one mone false doPivoting n (c09_lane_mat T zero l A) [] = C09_Ok s' -> c09_sok T s' = true ->
  nth l (c09_v_det_before_fix T U sub mul div absr gt nz zero one mone W doPivoting n A) zero
  = c09_s_det_before_fix T U sub mul div absr gt nz zero one mone doPivoting n (c09_lane_mat T zero l A).
Proof. exact P_det_lanes_before_fix_partial. Qed.
Print Assumptions C09_det_lanes_before_fix_partial.

(* the constants re-read from densematrix.hh on every run (tools/params.d/C09.py -> Params_gen.v) are the ones the model is written for:
   closed forms up to rows() = 3 in determinant / solve / invert (the dispatch of c09_*_full), throwEarly = true / true / false
   (used directly by c09_*_solve / invert / det).  An edit of the source changes Params_gen.v and re-checks every theorem below *)
Theorem C09_params_match_model :
  c09_param_closed_form_max_det = 3 /\ c09_param_closed_form_max_solve = 3 /\ c09_param_closed_form_max_invert = 3 /\
  c09_param_throw_early_solve = true /\ c09_param_throw_early_invert = true /\ c09_param_throw_early_det = false.
Proof. exact P_params_match_model. Qed.
Print Assumptions C09_params_match_model.

(* ---------------------------------------------------------------- the complete member functions (every n) *)

(* DenseMatrix::determinant / solve / invert with their dispatch on rows(): closed forms for 1, 2, 3 (no singularity test there), LU otherwise.
   For EVERY n: lane l of the W-lane call is the scalar call on the lane-l matrix (add, neg: two more uninterpreted operations) *)
Theorem C09_det_full_lanes : forall (T U : Type) (add sub mul div : T -> T -> T) (absr : T -> U) (gt : U -> U -> bool) (nz : U -> bool)
                                    (zero one mone : T) (W : nat) (doPivoting : bool) (n : nat) (A : list (list (list T))) (l : nat),
  l < W ->
  nth l (c09_v_det_full T U add sub mul div absr gt nz zero one mone W doPivoting n A) zero
  = c09_s_det_full T U add sub mul div absr gt nz zero one mone doPivoting n (c09_lane_mat T zero l A).
Proof. exact P_det_full_lanes. Qed.
Print Assumptions C09_det_full_lanes.

Theorem C09_solve_full_lanes : forall (T U : Type) (add sub mul div : T -> T -> T) (absr : T -> U) (gt : U -> U -> bool) (nz : U -> bool)
                                      (zero one mone : T) (W : nat) (doPivoting : bool) (n : nat) (A : list (list (list T))) (b : list (list T)),
  match c09_v_solve_full T U add sub mul div absr gt nz zero one mone W doPivoting n A b with
  | C09_Ok x => forall l, l < W ->
      c09_s_solve_full T U add sub mul div absr gt nz zero one mone doPivoting n (c09_lane_mat T zero l A) (c09_lane_vec T zero l b)
      = C09_Ok (c09_lane_vec T zero l x)
  | C09_FMatrixError _ => exists l e, l < W /\
      c09_s_solve_full T U add sub mul div absr gt nz zero one mone doPivoting n (c09_lane_mat T zero l A) (c09_lane_vec T zero l b)
      = C09_FMatrixError e
  end.
Proof. exact P_solve_full_lanes. Qed.
Print Assumptions C09_solve_full_lanes.

Theorem C09_invert_full_lanes : forall (T U : Type) (add sub mul div : T -> T -> T) (neg : T -> T) (absr : T -> U) (gt : U -> U -> bool) (nz : U -> bool)
                                       (zero one mone : T) (W : nat) (doPivoting : bool) (n : nat) (A : list (list (list T))),
  match c09_v_invert_full T U add sub mul div neg absr gt nz zero one mone W doPivoting n A with
  | C09_Ok B => forall l, l < W ->
      c09_s_invert_full T U add sub mul div neg absr gt nz zero one mone doPivoting n (c09_lane_mat T zero l A) = C09_Ok (c09_lane_mat T zero l B)
  | C09_FMatrixError _ => exists l e, l < W /\
      c09_s_invert_full T U add sub mul div neg absr gt nz zero one mone doPivoting n (c09_lane_mat T zero l A) = C09_FMatrixError e
  end.
Proof. exact P_invert_full_lanes. Qed.
Print Assumptions C09_invert_full_lanes.

(* ---------------------------------------------------------------- products and norms *)

(* DenseMatrix::mv on W-lane numbers: every lane is the scalar product of that lane (add, mul uninterpreted) *)
Theorem C09_mv_lanes : forall (T : Type) (add mul : T -> T -> T) (zero : T) (W : nat) (A : list (list (list T))) (x : list (list T)) (l : nat),
  l < W ->
  c09_lane_vec T zero l (c09_v_mv T add mul zero W A x) = c09_s_mv T add mul zero (c09_lane_mat T zero l A) (c09_lane_vec T zero l x).
Proof. exact P_mv_lanes. Qed.
Print Assumptions C09_mv_lanes.

(* umv, mmv, usmv, mtv and the vector dot product *)
Theorem C09_products_lanes : forall (T : Type) (add sub mul : T -> T -> T) (zero : T) (W : nat)
                                    (A : list (list (list T))) (x y : list (list T)) (alpha : list T) (n l : nat), l < W ->
  c09_lane_vec T zero l (c09_v_umv T add mul zero W A x y) = c09_s_umv T add mul (c09_lane_mat T zero l A) (c09_lane_vec T zero l x) (c09_lane_vec T zero l y) /\
  c09_lane_vec T zero l (c09_v_mmv T sub mul zero W A x y) = c09_s_mmv T sub mul (c09_lane_mat T zero l A) (c09_lane_vec T zero l x) (c09_lane_vec T zero l y) /\
  c09_lane_vec T zero l (c09_v_usmv T add mul zero W alpha A x y)
    = c09_s_usmv T add mul (nth l alpha zero) (c09_lane_mat T zero l A) (c09_lane_vec T zero l x) (c09_lane_vec T zero l y) /\
  c09_lane_vec T zero l (c09_v_mtv T add mul zero W n A x) = c09_s_mtv T add mul zero n (c09_lane_mat T zero l A) (c09_lane_vec T zero l x) /\
  nth l (c09_v_dot T add mul zero W x y) zero = c09_s_dot T add mul zero (c09_lane_vec T zero l x) (c09_lane_vec T zero l y).
Proof. exact P_products_lanes. Qed.
Print Assumptions C09_products_lanes.

(* one_norm, two_norm2, two_norm, frobenius_norm2, frobenius_norm and DenseVector::infinity_norm (both HasNaN variants; abs, abs2, sqrt, max uninterpreted) *)
Theorem C09_norms_lanes : forall (T U : Type) (zero : T) (absr abs2 : T -> U) (uadd umul udiv : U -> U -> U) (ult : U -> U -> bool) (usqrt : U -> U)
                                 (uzero uone : U) (W : nat) (A : list (list (list T))) (x : list (list T)) (hasNaN : bool) (l : nat), l < W ->
  nth l (c09_v_one_norm T U zero absr uadd uzero W x) (c09_nU T U zero absr) = c09_s_one_norm T U absr uadd uzero (c09_lane_vec T zero l x) /\
  nth l (c09_v_two_norm2 T U zero absr abs2 uadd uzero W x) (c09_nU T U zero absr) = c09_s_two_norm2 T U abs2 uadd uzero (c09_lane_vec T zero l x) /\
  nth l (c09_v_two_norm T U zero absr abs2 uadd usqrt uzero W x) (c09_nU T U zero absr) = c09_s_two_norm T U abs2 uadd usqrt uzero (c09_lane_vec T zero l x) /\
  nth l (c09_v_frobenius_norm2 T U zero absr abs2 uadd uzero W A) (c09_nU T U zero absr) = c09_s_frobenius_norm2 T U abs2 uadd uzero (c09_lane_mat T zero l A) /\
  nth l (c09_v_frobenius_norm T U zero absr abs2 uadd usqrt uzero W A) (c09_nU T U zero absr) = c09_s_frobenius_norm T U abs2 uadd usqrt uzero (c09_lane_mat T zero l A) /\
  nth l (c09_v_vec_infnorm T U zero absr uadd umul udiv ult uzero uone W hasNaN x) (c09_nU T U zero absr)
    = c09_s_vec_infnorm T U absr uadd umul udiv ult uzero uone hasNaN (c09_lane_vec T zero l x).
Proof. exact P_norms_lanes. Qed.
Print Assumptions C09_norms_lanes.

(* infinity_norm: loop.hh (since 1037165) forwards HasNaN<LoopSIMD<T,S,A>> to HasNaN<T>, so the W-lane type takes the variant
   hasNaN = HasNaN<T> of its scalar type; both variants are lane-wise *)
Theorem C09_infnorm_lanes : forall (T U : Type) (zero : T) (absr : T -> U) (uadd umul udiv : U -> U -> U) (ult : U -> U -> bool) (uzero uone : U)
                                   (W : nat) (hasNaN : bool) (A : list (list (list T))) (l : nat),
  l < W ->
  nth l (c09_v_infnorm T U zero absr uadd umul udiv ult uzero uone W hasNaN A) (c09_nU T U zero absr)
  = c09_s_infnorm T U absr uadd umul udiv ult uzero uone hasNaN (c09_lane_mat T zero l A).
Proof. exact P_infnorm_lanes. Qed.
Print Assumptions C09_infnorm_lanes.

(* history: before 1037165 (LoopSIMD: always the !HasNaN variant, double: HasNaN variant) lane transparency of infinity_norm was false: F-C09-2 *)
Theorem C09_infnorm_lanes_before_fix_refuted :
  exists (T U : Type) (zero : T) (absr : T -> U) uadd umul udiv ult uzero uone W A l, l < W /\
    nth l (c09_v_infnorm_before_fix T U zero absr uadd umul udiv ult uzero uone W A) (c09_nU T U zero absr)
    <> c09_s_infnorm T U absr uadd umul udiv ult uzero uone true (c09_lane_mat T zero l A).
Proof. exact P_infnorm_before_fix_refuted. Qed.
Print Assumptions C09_infnorm_lanes_before_fix_refuted.

(* ---------------------------------------------------------------- non-vacuity *)
(* carrier: rationals with an absorbing error element for division by zero (C09_Proofs_Witness.v) *)

(* 4x4, two lanes, lane 0 with a zero first column, lane 1 regular: code before 1209091 (error element, 98), current code (0, 98) *)
Example C09_example_det :
  c09w_vdet_old 2 true 4 c09w_A = [None; c09w_q 98%Z] /\
  c09w_vdet 2 true 4 c09w_A = [c09w_q 0%Z; c09w_q 98%Z] /\
  c09w_sdet true 4 (c09_lane_mat c09w_T (c09w_q 0%Z) 0 c09w_A) = c09w_q 0%Z /\
  c09w_sdet_old true 4 (c09_lane_mat c09w_T (c09w_q 0%Z) 0 c09w_A) = c09w_q 0%Z.
Proof. exact P_witness_values. Qed.

(* a solve whose two lanes pick different pivot rows (steps 0 and 1) and both complete; the same right-hand side with
   the singular-lane matrix reports FMatrixError; an invert that completes *)
Example C09_example_solve :
  (exists x, c09w_vsolve 2 true 4 c09w_B c09w_b = C09_Ok x /\
             c09w_ssolve true 4 (c09_lane_mat c09w_T (c09w_q 0%Z) 1 c09w_B) (c09_lane_vec c09w_T (c09w_q 0%Z) 1 c09w_b)
               = C09_Ok (c09_lane_vec c09w_T (c09w_q 0%Z) 1 x)) /\
  map fst (c09w_trace 2 true 4 4 0 (c09_v_init c09w_T (c09w_q 1%Z) 2 4 c09w_B [])) = [[2; 1]; [2; 3]; [2; 2]; [3; 3]] /\
  (exists e, c09w_vsolve 2 true 4 c09w_A c09w_b = C09_FMatrixError e) /\
  (exists B, c09w_vinvert 2 true 4 c09w_B = C09_Ok B).
Proof. exact P_example_solve. Qed.

(* 2x2, one lane, an error element in row 0: the !HasNaN variant returns 5 (row 1), the HasNaN variants the error element *)
Example C09_example_infnorm :
  c09_v_infnorm_before_fix c09w_T c09w_T (c09w_q 0%Z) c09w_abs c09w_add c09w_mul c09w_div c09w_lt (c09w_q 0%Z) (c09w_q 1%Z) 1 c09w_N = [c09w_q 5%Z] /\
  c09_v_infnorm c09w_T c09w_T (c09w_q 0%Z) c09w_abs c09w_add c09w_mul c09w_div c09w_lt (c09w_q 0%Z) (c09w_q 1%Z) 1 true c09w_N = [None] /\
  c09_s_infnorm c09w_T c09w_T c09w_abs c09w_add c09w_mul c09w_div c09w_lt (c09w_q 0%Z) (c09w_q 1%Z) true (c09_lane_mat c09w_T (c09w_q 0%Z) 0 c09w_N) = None.
Proof. exact P_infnorm_witness_values. Qed.

(* Rebind<double, LoopSIMD<LoopSIMD<int,2,16>,2,64>> = LoopSIMD<LoopSIMD<double,2,16>,2,64>: 4 lanes, HasNaN, alignments kept *)
Example C09_example_traits :
  let t := c09_ty_rebind (C09_TScalar 3 true true) (C09_TSimd 2 64 (C09_TSimd 2 16 (C09_TScalar 4 false true))) in
  t = C09_TSimd 2 64 (C09_TSimd 2 16 (C09_TScalar 3 true true)) /\ c09_ty_lanes t = 4 /\ c09_ty_hasnan t = true /\
  c09_ty_hasnan (c09_ty_mask t) = false.
Proof. vm_compute. repeat split. Qed.

(* v -= v[0] on (5,7,9): by value (0,2,4), by reference (0,7,9); aliasing the LAST lane is harmless *)
Example C09_example_assign_alias :
  fst (c09_assign_vs_lane Nat.sub 0 [5; 7; 9] 0) = [0; 2; 4] /\
  c09_assign_vs_lane_byref Nat.sub 0 [5; 7; 9] 0 = [0; 7; 9] /\
  c09_assign_vs_lane_byref Nat.sub 0 [5; 7; 9] 2 = fst (c09_assign_vs_lane Nat.sub 0 [5; 7; 9] 2).
Proof. exact P_assign_alias_values. Qed.

(* closed forms: 3x3 determinants (18, -3) of two lanes, a 2x2 inverse per lane, a 3x3 solve that completes *)
Example C09_example_closed_forms :
  c09_v_det_full c09w_T c09w_T c09w_add c09w_sub c09w_mul c09w_div c09w_abs c09w_gt c09w_nz (c09w_q 0%Z) (c09w_q 1%Z) (c09w_q (-1)%Z) 2 true 3 c09w_M3
    = [c09w_q 18%Z; c09w_q (-3)%Z] /\
  c09_s_det_full c09w_T c09w_T c09w_add c09w_sub c09w_mul c09w_div c09w_abs c09w_gt c09w_nz (c09w_q 0%Z) (c09w_q 1%Z) (c09w_q (-1)%Z) true 3
    (c09_lane_mat c09w_T (c09w_q 0%Z) 1 c09w_M3) = c09w_q (-3)%Z /\
  c09_v_invert_full c09w_T c09w_T c09w_add c09w_sub c09w_mul c09w_div c09w_neg c09w_abs c09w_gt c09w_nz (c09w_q 0%Z) (c09w_q 1%Z) (c09w_q (-1)%Z) 2 true 2 c09w_M2
    = C09_Ok [[[Some (3 # 5); c09w_q 0%Z]; [Some (-1 # 5); c09w_q 1%Z]]; [[Some (-1 # 5); c09w_q 1%Z]; [Some (2 # 5); c09w_q 0%Z]]]%Q /\
  (exists x, c09_v_solve_full c09w_T c09w_T c09w_add c09w_sub c09w_mul c09w_div c09w_abs c09w_gt c09w_nz (c09w_q 0%Z) (c09w_q 1%Z) (c09w_q (-1)%Z) 2 true 3 c09w_M3
               [[c09w_q 1%Z; c09w_q 1%Z]; [c09w_q 0%Z; c09w_q 2%Z]; [c09w_q 1%Z; c09w_q 0%Z]] = C09_Ok x).
Proof. exact P_example_closed_forms. Qed.

(* `<` on nat satisfies the order hypotheses of C09_horizontal_max_min *)
Example C09_example_hmax :
  (forall a b c, Nat.ltb a b = false -> Nat.ltb a c = true -> Nat.ltb c b = false) /\ (forall a, Nat.ltb a a = false) /\
  c09_hmax Nat.ltb 0 [3; 7; 5] = 7 /\ c09_hmin Nat.ltb 0 [3; 7; 2; 5] = 2.
Proof. exact P_example_hmax. Qed.
