(* C10 — property theorems.  ONLY statements, each closed by `exact <lemma>` and followed by
   Print Assumptions.  Model: C10_Model.v (literal transcription of dune/common/bigunsignedint.hh),
   Spec: C10_Spec.v (exact arithmetic modulo 2^w on N).  Quantification: EVERY digit count n
   (hence every width k, multiple of 16 or not, below or above 64 bits), EVERY operand.
   c10_wf n a  :=  a has n digits, each below 2^16  (the representation invariant, itself proved
   to be preserved by every operation: the `c10_wf n (…)` conjuncts). *)
From Coq Require Import List NArith ZArith Bool Ascii.
From DuneV Require Import Params_gen C10_Model C10_Spec C10_Proofs C10_Proofs2 C10_Proofs3 C10_Proofs4.
Import ListNotations.
Local Open Scope N_scope.

(* + - * ++ are arithmetic modulo 2^w.  n2 is the digit count of the bigunsignedint<2k> temporary of
   operator*=; the theorem holds for every n2 >= n, and n <= ndigits(2k) is C10_mul_temp_wide_enough. *)
Theorem C10_ring : forall n2 n a b, c10_wf n a -> c10_wf n b -> (n <= n2)%nat ->
  same_val n (c10_add a b) (c10_spec_binop n OpAdd (c10_val a) (c10_val b)) /\
  same_val n (c10_sub a b) (c10_spec_binop n OpSub (c10_val a) (c10_val b)) /\
  same_val n (c10_mul n2 a b) (c10_spec_binop n OpMul (c10_val a) (c10_val b)) /\
  c10_wf n (c10_incr a) /\ c10_val (c10_incr a) = (c10_val a + 1) mod 2 ^ c10_spec_width n.
Proof. exact P_ring. Qed.
Print Assumptions C10_ring.

Theorem C10_mul_temp_wide_enough : forall k, (c10_ndigits k <= c10_ndigits (2 * k))%nat.
Proof. exact ndigits_double. Qed.
Print Assumptions C10_mul_temp_wide_enough.

(* division and remainder: a zero divisor is reported (both operators); otherwise, with fuel exceeding the
   number of subtractions the code performs, the loops terminate with quotient and remainder.
   (Fuel-relative form; the total form with a fuel bound that depends on the width only is
   C10_divmod_total below, the exact number of iterations is C10_div_fuel_exact.) *)
Theorem C10_divmod : forall n a b fuel, c10_wf n a -> c10_wf n b ->
  (c10_val b = 0 -> c10_div fuel a b = C10_MathError /\ c10_mod fuel a b = C10_MathError) /\
  (c10_val b <> 0 -> (N.to_nat (c10_val a / c10_val b) < fuel)%nat ->
     exists q r, c10_div fuel a b = C10_Ok q /\ c10_mod fuel a b = C10_Ok r /\
       same_val n q (c10_spec_binop n OpDiv (c10_val a) (c10_val b)) /\
       same_val n r (c10_spec_binop n OpMod (c10_val a) (c10_val b))).
Proof. exact P_divmod. Qed.
Print Assumptions C10_divmod.

(* why the zero test in operator%= is needed: without it the subtraction loop exhausts every fuel
   (this was the behaviour of the code before fix fda2e4a) *)
Theorem C10_mod_zero_diverges_without_test : forall n a x fuel, c10_wf n a -> c10_wf n x -> c10_val x = 0 ->
  c10_mod_loop fuel a x = C10_OutOfFuel.
Proof. exact P_mod_zero_old_code_diverges. Qed.
Print Assumptions C10_mod_zero_diverges_without_test.

Theorem C10_bitwise : forall n a b, c10_wf n a -> c10_wf n b ->
  same_val n (c10_and a b) (c10_spec_binop n OpAnd (c10_val a) (c10_val b)) /\
  same_val n (c10_or a b) (c10_spec_binop n OpOr (c10_val a) (c10_val b)) /\
  same_val n (c10_xor a b) (c10_spec_binop n OpXor (c10_val a) (c10_val b)) /\
  c10_wf n (c10_not a) /\ c10_val (c10_not a) = 2 ^ c10_spec_width n - 1 - c10_val a.
Proof. exact P_bitwise. Qed.
Print Assumptions C10_bitwise.

(* shifts by any amount below w  (every amount, also >= w: C10_shift_any below) *)
Theorem C10_shift : forall n a s, c10_wf n a -> s < c10_spec_width n ->
  c10_wf n (c10_shl a s) /\ c10_val (c10_shl a s) = c10_spec_shift n true (c10_val a) s /\
  c10_wf n (c10_shr a s) /\ c10_val (c10_shr a s) = c10_spec_shift n false (c10_val a) s.
Proof. exact P_shift. Qed.
Print Assumptions C10_shift.

(* all six comparisons decide the order of the represented values; equal values have equal digit arrays
   (hence equal hashes: hash_value hashes exactly the digit array) *)
Theorem C10_compare : forall n a b, c10_wf n a -> c10_wf n b ->
  c10_lt a b = c10_spec_cmp CmpLt (c10_val a) (c10_val b) /\ c10_le a b = c10_spec_cmp CmpLe (c10_val a) (c10_val b) /\
  c10_gt a b = c10_spec_cmp CmpGt (c10_val a) (c10_val b) /\ c10_ge a b = c10_spec_cmp CmpGe (c10_val a) (c10_val b) /\
  c10_eq a b = c10_spec_cmp CmpEq (c10_val a) (c10_val b) /\ c10_ne a b = c10_spec_cmp CmpNe (c10_val a) (c10_val b) /\
  (c10_val a = c10_val b -> a = b).
Proof. exact P_compare. Qed.
Print Assumptions C10_compare.

(* construction from a built-in unsigned (uintmax_t: below 2^64) and numeric_limits *)
Theorem C10_construct_limits : forall n x, x < 2 ^ 64 ->
  c10_wf n (c10_assign n x) /\ c10_val (c10_assign n x) = x mod 2 ^ c10_spec_width n /\
  c10_wf n (c10_max n) /\ c10_val (c10_max n) = 2 ^ c10_spec_width n - 1 /\
  c10_wf n (c10_min n) /\ c10_val (c10_min n) = 0 /\ c10_limit_digits n = c10_spec_width n.
Proof. exact P_construct. Qed.
Print Assumptions C10_construct_limits.

(* touint: the low 32 bits for every width, one-digit widths included *)
Theorem C10_touint : forall n a, c10_wf n a -> c10_touint a = c10_val a mod 2 ^ 32.
Proof. exact P_touint. Qed.
Print Assumptions C10_touint.

Theorem C10_value_range : forall n a, c10_wf n a -> c10_val a < 2 ^ c10_spec_width n.
Proof. exact P_value_range. Qed.
Print Assumptions C10_value_range.

(* todouble returns m * 2^e with m < 2^48 (an exactly representable double; the scaling by ldexp is exact),
   below the represented value and within relative error 2^-32 of it, for EVERY magnitude *)
Theorem C10_todouble : forall n a, c10_wf n a ->
  let '(m, e) := c10_todouble a in
  m < 2 ^ 48 /\ m * 2 ^ e <= c10_val a /\ (c10_val a - m * 2 ^ e) * 2 ^ 32 < c10_val a \/ c10_val a = m * 2 ^ e /\ m < 2 ^ 48.
Proof. exact P_todouble. Qed.
Print Assumptions C10_todouble.

(* print: 4n hex characters which, read back, give the represented value *)
Theorem C10_print : forall n a, c10_wf n a -> c10_hexval (c10_print a) = c10_val a /\ length (c10_print a) = (4 * n)%nat.
Proof. exact P_print. Qed.
Print Assumptions C10_print.

(* mixed operations with a built-in unsigned on either side (x + u, u + x, ...): the temporary built
   from u represents u mod 2^w and the operation is again arithmetic modulo 2^w
   (+ - * only; all operators incl. / and % with zero divisor: C10_free_operators below) *)
Theorem C10_mixed : forall n2 n a u, c10_wf n a -> u < 2 ^ 64 -> (n <= n2)%nat ->
  let t := c10_assign n u in
  c10_wf n t /\ c10_val t = u mod 2 ^ c10_spec_width n /\
  same_val n (c10_add a t) (c10_spec_binop n OpAdd (c10_val a) (c10_val t)) /\
  same_val n (c10_add t a) (c10_spec_binop n OpAdd (c10_val t) (c10_val a)) /\
  same_val n (c10_sub a t) (c10_spec_binop n OpSub (c10_val a) (c10_val t)) /\
  same_val n (c10_sub t a) (c10_spec_binop n OpSub (c10_val t) (c10_val a)) /\
  same_val n (c10_mul n2 a t) (c10_spec_binop n OpMul (c10_val a) (c10_val t)) /\
  same_val n (c10_mul n2 t a) (c10_spec_binop n OpMul (c10_val t) (c10_val a)).
Proof. exact P_mixed. Qed.
Print Assumptions C10_mixed.

(* non-vacuity: concrete non-trivial operands satisfy the hypotheses and exercise carries *)
Example C10_nonvacuous :
  c10_wf 2 [65535; 65535] /\ c10_wf 2 [1; 0] /\ c10_add [65535; 65535] [1; 0] = [0; 0] /\
  c10_mul 4 [65535; 65535] [65535; 65535] = [1; 0] /\ c10_shl [65535; 1] 17 = [0; 65534] /\
  c10_mod 10 [7; 0] [0; 0] = C10_MathError /\ c10_div 10 [7; 1] [2; 0] = C10_OutOfFuel.
Proof. exact C10_nonvacuous_proof. Qed.
Print Assumptions C10_nonvacuous.

(* ======================= deepening round ======================= *)

(* TOTAL division/remainder for every width: any fuel of at least 2^w (a bound that depends on the width only,
   never on the operands) makes both loops terminate with the Euclidean quotient and remainder of N;
   OutOfFuel is excluded by the statement. *)
Theorem C10_divmod_total : forall n a b fuel, c10_wf n a -> c10_wf n b -> c10_val b <> 0 ->
  (N.to_nat (2 ^ c10_spec_width n) <= fuel)%nat ->
  exists q r, c10_div fuel a b = C10_Ok q /\ c10_mod fuel a b = C10_Ok r /\ c10_wf n q /\ c10_wf n r /\
    c10_val q = c10_val a / c10_val b /\ c10_val r = c10_val a mod c10_val b /\
    c10_val a = c10_val b * c10_val q + c10_val r /\ c10_val r < c10_val b.
Proof. exact P_divmod_total. Qed.
Print Assumptions C10_divmod_total.

(* the loops perform exactly (val a / val b) subtractions: fuel runs out if and only if it does not exceed the quotient
   (so the fuel hypothesis of C10_divmod is necessary as well as sufficient; this is also the cost of the operators) *)
Theorem C10_div_fuel_exact : forall n a b fuel, c10_wf n a -> c10_wf n b -> c10_val b <> 0 ->
  (c10_div fuel a b = C10_OutOfFuel <-> (fuel <= N.to_nat (c10_val a / c10_val b))%nat) /\
  (c10_mod fuel a b = C10_OutOfFuel <-> (fuel <= N.to_nat (c10_val a / c10_val b))%nat).
Proof. exact P_div_fuel_exact. Qed.
Print Assumptions C10_div_fuel_exact.

(* shifts by ANY non-negative amount.  operator<< is (a * 2^s) mod 2^w for every s (zero from s = w on).
   operator>> is a / 2^s for every s < w + 16 (zero from s = w on); for s >= w + 16 its first loop
   `for (unsigned i=0; i<n-j; i++)` compares against a negative int converted to unsigned and indexes past
   the arrays: the model reports OutOfBounds (undefined behaviour in C++; outside the property, which
   speaks of amounts below w).  Negative amounts are outside the model's domain (s : N). *)
Theorem C10_shift_any : forall n a s, c10_wf n a ->
  c10_wf n (c10_shl a s) /\ c10_val (c10_shl a s) = c10_spec_shift n true (c10_val a) s /\
  (c10_spec_width n <= s -> c10_val (c10_shl a s) = 0) /\
  (s < c10_spec_width n + c10_bits ->
     c10_shr_checked a s = C10_Ok (c10_shr a s) /\ c10_wf n (c10_shr a s) /\
     c10_val (c10_shr a s) = c10_spec_shift n false (c10_val a) s /\
     (c10_spec_width n <= s -> c10_val (c10_shr a s) = 0)) /\
  (c10_spec_width n + c10_bits <= s -> c10_shr_checked a s = C10_OutOfBounds).
Proof. exact P_shift_any. Qed.
Print Assumptions C10_shift_any.

(* todouble, exactly: the value with every base-2^16 digit below position (significant digits - 3) dropped,
   i.e. floor(val / 2^e) * 2^e with e = 16 * max(0, sigdigits - 3), sigdigits = floor(log2 val / 16) + 1:
   truncation toward zero (the round_style announced by numeric_limits) to between 33 and 48 significant bits.
   C10_todouble (relative error < 2^-32) is a consequence. *)
Theorem C10_todouble_exact : forall n a, c10_wf n a -> c10_todouble a = c10_spec_todouble (c10_val a).
Proof. exact P_todouble_exact. Qed.
Print Assumptions C10_todouble_exact.

(* the floating-point side of todouble: every value the double accumulator holds is an integer below 2^53
   (at most three iterations), hence exact; the scaled result is below 2^1024 (finite) for widths up to 1024 bits.
   For k > 1024 values from 2^1024 on are not representable in a double at all: there ldexp returns +inf. *)
Theorem C10_todouble_exact_double : forall n a, c10_wf n a ->
  Forall (fun x => x < 2 ^ c10_param_double_digits) (c10_todouble_trace a) /\
  (length (c10_todouble_trace a) <= N.to_nat (c10_param_double_digits / c10_bits))%nat /\
  ((n <= 64)%nat -> fst (c10_todouble a) * 2 ^ snd (c10_todouble a) < 2 ^ 1024).
Proof. exact P_todouble_exact_double. Qed.
Print Assumptions C10_todouble_exact_double.

(* constructors: default = 0; from a signed built-in: negative <-> Dune::Exception, otherwise y mod 2^w *)
Theorem C10_ctor : forall n y,
  c10_wf n (c10_ctor_default n) /\ c10_val (c10_ctor_default n) = 0 /\
  ((y < 0)%Z -> c10_ctor_signed n y = C10_Exception) /\
  ((0 <= y < 2 ^ 63)%Z -> exists t, c10_ctor_signed n y = C10_Ok t /\ c10_wf n t /\
       c10_val t = Z.to_N y mod 2 ^ c10_spec_width n /\ t = c10_assign n (Z.to_N y)).
Proof. exact P_ctor. Qed.
Print Assumptions C10_ctor.

(* the whole operator table + - * / % & | ^ against the spec table, OutOfFuel excluded by the width-only bound *)
Theorem C10_binop_table : forall n2 n fuel o a b, c10_wf n a -> c10_wf n b -> (n <= n2)%nat ->
  (N.to_nat (2 ^ c10_spec_width n) <= fuel)%nat ->
  res_is n (c10_apply n2 fuel o a b) (c10_spec_binop n o (c10_val a) (c10_val b)).
Proof. exact P_apply. Qed.
Print Assumptions C10_binop_table.

(* free operator templates with the built-in (unsigned) operand on the right and on the LEFT, all of + - * / %
   (zero divisor reported on either side) *)
Theorem C10_free_operators : forall n2 n fuel o a u, c10_wf n a -> u < 2 ^ 64 -> (n <= n2)%nat ->
  (N.to_nat (2 ^ c10_spec_width n) <= fuel)%nat ->
  res_is n (c10_free_right n2 fuel o a u) (c10_spec_binop n o (c10_val a) (u mod 2 ^ c10_spec_width n)) /\
  res_is n (c10_free_left n2 fuel o u a) (c10_spec_binop n o (u mod 2 ^ c10_spec_width n) (c10_val a)).
Proof. exact P_free. Qed.
Print Assumptions C10_free_operators.

(* ... with a SIGNED built-in operand: negative operands are rejected like in direct construction (model of
   the code after proposed fix C10-5), non-negative ones reduce to C10_free_operators; for non-negative
   operands the code as written (`_conv`: implicit conversion to uintmax_t) agrees *)
Theorem C10_free_operators_signed : forall n2 n fuel o a y, c10_wf n a ->
  ((y < 0)%Z -> c10_free_right_signed n2 fuel o a y = C10_Exception /\ c10_free_left_signed n2 fuel o y a = C10_Exception) /\
  ((0 <= y < 2 ^ 63)%Z ->
     c10_free_right_signed n2 fuel o a y = c10_free_right n2 fuel o a (Z.to_N y) /\
     c10_free_left_signed n2 fuel o y a = c10_free_left n2 fuel o (Z.to_N y) a /\
     c10_free_right_conv n2 fuel o a y = c10_free_right n2 fuel o a (Z.to_N y) /\
     c10_free_left_conv n2 fuel o y a = c10_free_left n2 fuel o (Z.to_N y) a /\ Z.to_N y < 2 ^ 64).
Proof. exact P_free_signed. Qed.
Print Assumptions C10_free_operators_signed.

(* REFUTED for the code as written (finding F-C10-5): with a negative built-in operand the free operators neither
   reject it nor compute modulo 2^w once w > 64 (witness: bigunsignedint<80>(5) + (-1) = 2^64 + 4) ... *)
Theorem C10_free_conv_negative_refuted :
  exists n2 n fuel a y r, c10_wf n a /\ (y < 0)%Z /\ c10_free_right_conv n2 fuel OpAdd a y = C10_Ok r /\
    c10_free_left_conv n2 fuel OpAdd y a = C10_Ok r /\
    Z.of_N (c10_val r) <> ((Z.of_N (c10_val a) + y) mod 2 ^ Z.of_N (c10_spec_width n))%Z.
Proof. exact P_free_conv_negative_refuted. Qed.
Print Assumptions C10_free_conv_negative_refuted.

(* ... while for w <= 64 the silent conversion happens to be arithmetic modulo 2^w.
   PARTIAL: stated for + only (the same argument applies to subtraction and multiplication); the full statement would range over all five operators. *)
Theorem C10_free_conv_narrow_partial : forall n2 n fuel a y, c10_wf n a -> (n <= 4)%nat -> (n <= n2)%nat -> (- 2 ^ 63 <= y < 2 ^ 63)%Z ->
  exists r, c10_free_right_conv n2 fuel OpAdd a y = C10_Ok r /\ c10_wf n r /\
    Z.of_N (c10_val r) = ((Z.of_N (c10_val a) + y) mod 2 ^ Z.of_N (c10_spec_width n))%Z.
Proof. exact P_free_conv_narrow. Qed.
Print Assumptions C10_free_conv_narrow_partial.

(* REFUTED for the code as written (finding F-C10-4): `a /= a` and `a %= a` (divisor aliasing the dividend) exhaust
   every fuel for every non-zero a -- the property demands "never looping" *)
Theorem C10_div_alias_diverges_without_copy : forall n a fuel, c10_wf n a -> c10_val a <> 0 ->
  c10_div_alias fuel a = C10_OutOfFuel /\ c10_mod_alias fuel a = C10_OutOfFuel.
Proof. exact P_div_alias_diverges. Qed.
Print Assumptions C10_div_alias_diverges_without_copy.

(* both operands the same value (binary forms x OP x; compound forms x OP= x after fix C10-4, which copies the divisor) *)
Theorem C10_self_operand : forall n2 n fuel a, c10_wf n a -> (n <= n2)%nat -> (N.to_nat (2 ^ c10_spec_width n) <= fuel)%nat ->
  c10_val (c10_add a a) = (2 * c10_val a) mod 2 ^ c10_spec_width n /\ c10_sub a a = c10_zero n /\
  c10_val (c10_mul n2 a a) = (c10_val a * c10_val a) mod 2 ^ c10_spec_width n /\
  c10_and a a = a /\ c10_or a a = a /\ c10_xor a a = c10_zero n /\
  c10_eq a a = true /\ c10_ne a a = false /\ c10_lt a a = false /\ c10_le a a = true /\ c10_gt a a = false /\ c10_ge a a = true /\
  (c10_val a <> 0 -> exists q, c10_div fuel a a = C10_Ok q /\ c10_val q = 1 /\ c10_wf n q /\ c10_mod fuel a a = C10_Ok (c10_zero n)) /\
  (c10_val a = 0 -> c10_div fuel a a = C10_MathError /\ c10_mod fuel a a = C10_MathError).
Proof. exact P_self_operand. Qed.
Print Assumptions C10_self_operand.

(* the commutative-ring laws as equalities of DIGIT ARRAYS (what operator== compares and hash_value hashes),
   two's complement, and ++ as + 1 *)
Theorem C10_ring_laws : forall n2 n a b c, c10_wf n a -> c10_wf n b -> c10_wf n c -> (n <= n2)%nat ->
  c10_add a b = c10_add b a /\ c10_add (c10_add a b) c = c10_add a (c10_add b c) /\
  c10_mul n2 a b = c10_mul n2 b a /\ c10_mul n2 (c10_mul n2 a b) c = c10_mul n2 a (c10_mul n2 b c) /\
  c10_mul n2 a (c10_add b c) = c10_add (c10_mul n2 a b) (c10_mul n2 a c) /\
  c10_add a (c10_zero n) = a /\ c10_mul n2 a (c10_assign n 1) = a /\
  c10_sub (c10_add a b) b = a /\ c10_add (c10_sub a b) b = a /\
  c10_add a (c10_not a) = c10_max n /\ c10_incr (c10_not a) = c10_sub (c10_zero n) a /\
  c10_incr a = c10_add a (c10_assign n 1).
Proof. exact P_ring_laws. Qed.
Print Assumptions C10_ring_laws.

(* every member of std::numeric_limits<bigunsignedint<k>> (constants re-read from the source) is consistent with
   the represented values: unsigned exact bounded modulo integer, radix^digits - 1 = max, min = 0 bound all
   values, ++max = min and min - 1 = max (is_modulo), floating-point-only members false / 0 *)
Theorem C10_limits : forall n, let L := c10_numeric_limits n in
  c10_l_is_specialized L = true /\ c10_l_is_signed L = false /\ c10_l_is_integer L = true /\ c10_l_is_exact L = true /\
  c10_l_radix L = 2 /\ c10_l_digits L = c10_spec_width n /\ c10_l_is_bounded L = true /\ c10_l_is_modulo L = true /\
  c10_l_min_exponent L = 0 /\ c10_l_min_exponent10 L = 0 /\ c10_l_max_exponent L = 0 /\ c10_l_max_exponent10 L = 0 /\
  c10_l_has_infinity L = false /\ c10_l_has_quiet_NaN L = false /\ c10_l_has_signaling_NaN L = false /\
  c10_l_has_denorm_plus1 L = 1 /\ c10_l_has_denorm_loss L = false /\ c10_l_is_iec559 L = false /\
  c10_l_traps L = false /\ c10_l_tinyness_before L = false /\ c10_l_round_style_plus1 L = 1 /\
  c10_wf n (c10_l_max L) /\ c10_val (c10_l_max L) = c10_l_radix L ^ c10_l_digits L - 1 /\
  c10_wf n (c10_l_min L) /\ c10_val (c10_l_min L) = 0 /\
  (forall a, c10_wf n a -> c10_val (c10_l_min L) <= c10_val a <= c10_val (c10_l_max L)) /\
  c10_incr (c10_l_max L) = c10_l_min L /\ c10_sub (c10_l_min L) (c10_assign n 1) = c10_l_max L /\
  Forall (fun z => c10_wf n z /\ c10_val z = 0)
    [c10_l_epsilon L; c10_l_round_error L; c10_l_infinity L; c10_l_quiet_NaN L; c10_l_signaling_NaN L; c10_l_denorm_min L].
Proof. exact P_limits. Qed.
Print Assumptions C10_limits.

(* hash_value (hash_range over the digit array with hash_combiner<8>, modelled bit-exactly): equal values and
   operator==-equal objects hash equal, the hash fits std::size_t, and it is the left fold of hash_combine *)
Theorem C10_hash : forall n a b, c10_wf n a -> c10_wf n b ->
  (c10_val a = c10_val b -> c10_hash a = c10_hash b) /\ (c10_eq a b = true -> c10_hash a = c10_hash b) /\
  c10_hash a < 2 ^ c10_param_size_t_bits /\
  (forall d, c10_hash (a ++ [d]) = c10_hash_combine (c10_hash a) d).
Proof. exact P_hash. Qed.
Print Assumptions C10_hash.

(* operator<< (std::ostream&, x): appends exactly the 4n hex characters of print (which read back as the value)
   and leaves the stream in decimal.  (No operator>> (std::istream&, ...) exists in the source.) *)
Theorem C10_stream : forall n out base a, c10_wf n a ->
  let st := c10_stream_insert (out, base) a in
  fst st = out ++ c10_print a /\ snd st = C10_dec /\
  c10_hexval (skipn (length out) (fst st)) = c10_val a /\ length (fst st) = (length out + 4 * n)%nat.
Proof. exact P_stream. Qed.
Print Assumptions C10_stream.

(* the storage width w = 16 n of bigunsignedint<k>: k rounded up to the next multiple of 16 *)
Theorem C10_width_of_k : forall k, let n := c10_ndigits k in
  k <= c10_spec_width n /\ c10_spec_width n < k + c10_bits /\ c10_spec_width n mod c10_bits = 0 /\ (0 < k -> (1 <= n)%nat).
Proof. exact P_ndigits. Qed.
Print Assumptions C10_width_of_k.

(* non-vacuity of the theorems above: concrete witnesses (fuel bound, exhausted fuel, shifts >= w, dropped digits,
   rejected negative, free operators on the left, aliasing, the hash of a one-digit 5 as the C++ code computes it) *)
Example C10_nonvacuous2 :
  c10_div (N.to_nat (2 ^ c10_spec_width 1)) [65535] [3] = C10_Ok [21845] /\
  c10_div (N.to_nat 21845) [65535] [3] = C10_OutOfFuel /\ c10_div (N.to_nat 21846) [65535] [3] = C10_Ok [21845] /\
  c10_shl [65535; 65535] 32 = [0; 0] /\ c10_shl [65535; 65535] 1000 = [0; 0] /\
  c10_shr_checked [65535; 65535] 47 = C10_Ok [0; 0] /\ c10_shr_checked [65535; 65535] 48 = C10_OutOfBounds /\
  c10_todouble [1; 2; 3; 4; 5] = (c10_val [3; 4; 5], 32) /\ c10_spec_sigdigits (c10_val [1; 2; 3; 4; 5]) = 5 /\
  c10_todouble_trace [1; 2; 3; 4; 5] = [5; 5 * 65536 + 4; (5 * 65536 + 4) * 65536 + 3] /\
  c10_ctor_signed 2 (-1) = C10_Exception /\ c10_ctor_signed 2 65537 = C10_Ok [1; 1] /\
  c10_free_left 4 100 OpSub 1 [2; 0] = C10_Ok [65535; 65535] /\ c10_free_right 4 100 OpDiv [7; 0] 0 = C10_MathError /\
  c10_free_right_signed 4 100 OpAdd [7; 0] (-1) = C10_Exception /\
  c10_free_right_conv 10 0 OpAdd [5; 0; 0; 0; 0] (-1) = C10_Ok [4; 0; 0; 0; 1] /\
  c10_div_alias 1000 [7; 0] = C10_OutOfFuel /\ c10_div (N.to_nat 70000) [7; 0] [7; 0] = C10_Ok [1; 0] /\
  c10_hash [5] = 6099401531929477805 /\ c10_ndigits 17 = 2%nat /\ c10_ndigits 16 = 1%nat.
Proof. exact C10_nonvacuous2_proof. Qed.
Print Assumptions C10_nonvacuous2.

(* ======================= coverage-audit round: object histories ======================= *)

(* ALL HISTORIES: any program over the instruction set c10_instr -- compound and binary operators with arbitrary
   aliasing of the objects (r[d] o= r[d], r[d] = r[d] o r[d], ...), ++, ~, shifts, copies (copy/move assignment and
   construction), swaps, built-in operands on the right (unsigned and signed) and on the left, comparisons between
   objects and with built-ins, and steps that throw (zero divisor, negative built-in) -- run on the digit arrays
   gives, register by register and event by event, what the same program gives on numbers modulo 2^w; the
   representation invariant holds after every program.  Hypotheses: the representation invariant initially, fuel
   at least 2^w (excludes OutOfFuel), built-in operands within their C++ types, >> counts below w+16. *)
Theorem C10_histories : forall n n2 fuel prog rs ev, c10_regs_ok n rs -> Forall (c10_instr_ok n) prog -> (n <= n2)%nat ->
  (N.to_nat (2 ^ c10_spec_width n) <= fuel)%nat ->
  c10_regs_ok n (fst (c10_run n n2 fuel prog (rs, ev))) /\
  c10_spec_run n prog (map c10_val rs, ev) =
    (map c10_val (fst (c10_run n n2 fuel prog (rs, ev))), snd (c10_run n n2 fuel prog (rs, ev))).
Proof. exact P_histories. Qed.
Print Assumptions C10_histories.

(* a step that throws leaves EVERY object unchanged (strong exception guarantee); no step changes the number of objects *)
Theorem C10_histories_frame : forall n n2 fuel i rs ev,
  length (fst (c10_step n n2 fuel i (rs, ev))) = length rs /\
  (forall e, snd (c10_step n n2 fuel i (rs, ev)) = ev ++ [e] -> (forall b, e <> C10_EvBool b) ->
     fst (c10_step n n2 fuel i (rs, ev)) = rs).
Proof. exact P_histories_frame. Qed.
Print Assumptions C10_histories_frame.

(* every index i+m <= 2n-2 that operator*= writes in its bigunsignedint<2k> temporary exists (no out-of-bounds write for
   any k; the truncation in the model's c10_single never drops a written digit) *)
Theorem C10_mul_temp_indices : forall k, (2 * c10_ndigits k - 1 <= c10_ndigits (2 * k))%nat.
Proof. exact P_mul_temp_indices. Qed.
Print Assumptions C10_mul_temp_indices.

Example C10_nonvacuous3 :
  let prog := [C10_ICompound OpDiv 0 0; C10_IBinary OpMul 1 1 1; C10_ISwap 0 2; C10_ICompound OpMod 1 0;
               C10_IBuiltinS OpAdd 1 (-1); C10_IBuiltinLeft OpSub 2 0; C10_ICmp CmpLt 2 2; C10_IShr 1 1 33; C10_ICopy 2 2] in
  c10_run 2 4 (N.to_nat 70000) prog ([[7; 0]; [65535; 3]; [0; 0]], []) =
    ([[0; 0]; [0; 0]; [65535; 65535]], [C10_EvMathError; C10_EvException; C10_EvBool false]) /\
  c10_spec_run 2 prog ([7; 65535 + 3 * 65536; 0], []) = ([0; 0; 4294967295], [C10_EvMathError; C10_EvException; C10_EvBool false]).
Proof. exact C10_nonvacuous3_proof. Qed.
Print Assumptions C10_nonvacuous3.

(* ======================= round 6: print / operator<< under EVERY stream state ======================= *)

(* EVERY formatting state st of the stream (basefield dec/oct/hex, showbase, uppercase, showpos, adjustfield
   left/right/internal/none, any fill character, any pending width, any digit grouping of the locale), every digit
   count n, every value: print (= operator<<; code after proposed fix C10-7) writes the 4n hex digits of the value
   (c10_print of theorem C10_print, letters upper-cased under std::uppercase) in a field of the pending width --
   fill characters in front, behind for adjustfield == left --, consumes the width, leaves the stream in decimal and
   every other flag as it was.  The text with the padding taken off reads back as the value; without padding
   (width <= 4n, in particular width 0) the text itself does. *)
Theorem C10_print_state : forall n a st, c10_wf n a ->
  let body := c10_print_case (c10_s_uppercase st) a in
  fst (c10_print_ios st a) = c10_spec_field st body /\
  snd (c10_print_ios st a) = c10_spec_ios_after st /\
  length body = (4 * n)%nat /\ c10_hexval_ci body = c10_val a /\
  c10_hexval_ci (c10_spec_unfield st (4 * n) (fst (c10_print_ios st a))) = c10_val a /\
  length (fst (c10_print_ios st a)) = Nat.max (N.to_nat (c10_s_width st)) (4 * n) /\
  (c10_s_width st <= 4 * N.of_nat n -> fst (c10_print_ios st a) = body /\ c10_hexval_ci (fst (c10_print_ios st a)) = c10_val a).
Proof. exact P_print_ios. Qed.
Print Assumptions C10_print_state.

(* the code AS WRITTEN in /repo c59aad0 (hex digits inserted one by one, no treatment of the width) is the same function on
   every stream without a pending width -- all combinations of the flags, fill and grouping: C10_print_state applies *)
Theorem C10_print_state_as_written : forall a st, c10_s_width st = 0 -> c10_print_ios_written st a = c10_print_ios st a.
Proof. exact P_print_written_width0. Qed.
Print Assumptions C10_print_state_as_written.

(* REFUTED for the code as written (finding F-C10-7): a pending width is applied to the FIRST hex digit alone, so that with
   adjustfield == left the padding lands inside the number: bigunsignedint<32>(0xf0001234) on a stream with std::left,
   fill '0', width 6 prints f000000001234 (all hex digits) which denotes another number; the fixed print reads back *)
Theorem C10_print_width_refuted : exists n a st, c10_wf n a /\ Forall is_hexchar (fst (c10_print_ios_written st a)) /\
  c10_hexval_ci (fst (c10_print_ios_written st a)) <> c10_val a /\
  c10_hexval_ci (fst (c10_print_ios st a)) = c10_val a.
Proof. exact P_print_written_width_refuted. Qed.
Print Assumptions C10_print_width_refuted.

(* non-vacuity: bigunsignedint<32>(0x12abcd) on a stream in octal with showbase, uppercase, showpos, std::left, fill '*',
   width 11 and a locale grouping digits by three: fixed and as-written print; a general `s << std::hex << v` of the
   stream model with prefix, grouping and padding; the 16-bit digit 0x0001 written with width 4, fill '0' under std::left *)
Example C10_nonvacuous4 :
  c10_wf 2 [43981; 18] /\
  c10_print_ios nv_st [43981; 18] = (["0";"0";"1";"2";"A";"B";"C";"D";"*";"*";"*"]%char, c10_ios_set_width (c10_ios_set_base nv_st C10_dec) 0) /\
  fst (c10_print_ios_written nv_st [43981; 18]) = ["0";"*";"*";"*";"*";"*";"*";"*";"*";"*";"*";"0";"1";"2";"A";"B";"C";"D"]%char /\
  c10_print_ios_written (c10_ios_set_width nv_st 0) [43981; 18] = (["0";"0";"1";"2";"A";"B";"C";"D"]%char, c10_ios_set_width (c10_ios_set_base nv_st C10_dec) 0) /\
  c10_hexval_ci ["0";"0";"1";"2";"A";"B";"C";"D"]%char = c10_val [43981; 18] /\
  fst (c10_put_hex nv_st 43981) = ["0";"X";"A";",";"B";"C";"D";"*";"*";"*";"*"]%char /\
  fst (c10_put_hex (c10_ios_set_width refute_st 4) 1) = ["1";"0";"0";"0"]%char.
Proof. exact C10_nonvacuous4_proof. Qed.
Print Assumptions C10_nonvacuous4.
