(* C10 — property theorems.  ONLY statements, each closed by `exact <lemma>` and followed by
   Print Assumptions.  Model: C10_Model.v (literal transcription of dune/common/bigunsignedint.hh),
   Spec: C10_Spec.v (exact arithmetic modulo 2^w on N).  Quantification: EVERY digit count n
   (hence every width k, multiple of 16 or not, below or above 64 bits), EVERY operand.
   c10_wf n a  :=  a has n digits, each below 2^16  (the representation invariant, itself proved
   to be preserved by every operation: the `c10_wf n (…)` conjuncts). *)
From Coq Require Import List NArith ZArith Bool.
From DuneV Require Import Params_gen C10_Model C10_Spec C10_Proofs.
Import ListNotations.
Local Open Scope N_scope.

(* + - * ++ are arithmetic modulo 2^w.  n2 is the digit count of the bigunsignedint<2k> temporary of
   operator*=; the theorem holds for every n2 >= n, and n <= ndigits(2k) is C10_mul_temp_wide_enough. *)
Theorem C10_ring : forall n2 n a b, c10_wf n a -> c10_wf n b -> (n <= n2)%nat ->
  same_val n (c10_add a b) (c10_spec_binop n OpAdd (c10_val a) (c10_val b)) /\
  same_val n (c10_sub a b) (c10_spec_binop n OpSub (c10_val a) (c10_val b)) /\
  same_val n (c10_mul n2 a b) (c10_spec_binop n OpMul (c10_val a) (c10_val b)) /\
  c10_wf n (c10_incr a) /\ c10_val (c10_incr a) = (c10_val a + 1) mod 2 ^ c10_spec_width n.
Proof. exact P_ring. Qed.
Print Assumptions C10_ring.

Theorem C10_mul_temp_wide_enough : forall k, (c10_ndigits k <= c10_ndigits (2 * k))%nat.
Proof. exact ndigits_double. Qed.
Print Assumptions C10_mul_temp_wide_enough.

(* division and remainder: a zero divisor is reported (both operators); otherwise, with fuel exceeding the
   number of subtractions the code performs, the loops terminate with quotient and remainder *)
Theorem C10_divmod : forall n a b fuel, c10_wf n a -> c10_wf n b ->
  (c10_val b = 0 -> c10_div fuel a b = C10_MathError /\ c10_mod fuel a b = C10_MathError) /\
  (c10_val b <> 0 -> (N.to_nat (c10_val a / c10_val b) < fuel)%nat ->
     exists q r, c10_div fuel a b = C10_Ok q /\ c10_mod fuel a b = C10_Ok r /\
       same_val n q (c10_spec_binop n OpDiv (c10_val a) (c10_val b)) /\
       same_val n r (c10_spec_binop n OpMod (c10_val a) (c10_val b))).
Proof. exact P_divmod. Qed.
Print Assumptions C10_divmod.

(* why the zero test in operator%= is needed: without it the subtraction loop exhausts every fuel
   (this was the behaviour of the code before fix fda2e4a) *)
Theorem C10_mod_zero_diverges_without_test : forall n a x fuel, c10_wf n a -> c10_wf n x -> c10_val x = 0 ->
  c10_mod_loop fuel a x = C10_OutOfFuel.
Proof. exact P_mod_zero_old_code_diverges. Qed.
Print Assumptions C10_mod_zero_diverges_without_test.

Theorem C10_bitwise : forall n a b, c10_wf n a -> c10_wf n b ->
  same_val n (c10_and a b) (c10_spec_binop n OpAnd (c10_val a) (c10_val b)) /\
  same_val n (c10_or a b) (c10_spec_binop n OpOr (c10_val a) (c10_val b)) /\
  same_val n (c10_xor a b) (c10_spec_binop n OpXor (c10_val a) (c10_val b)) /\
  c10_wf n (c10_not a) /\ c10_val (c10_not a) = 2 ^ c10_spec_width n - 1 - c10_val a.
Proof. exact P_bitwise. Qed.
Print Assumptions C10_bitwise.

(* shifts by any amount below w *)
Theorem C10_shift : forall n a s, c10_wf n a -> s < c10_spec_width n ->
  c10_wf n (c10_shl a s) /\ c10_val (c10_shl a s) = c10_spec_shift n true (c10_val a) s /\
  c10_wf n (c10_shr a s) /\ c10_val (c10_shr a s) = c10_spec_shift n false (c10_val a) s.
Proof. exact P_shift. Qed.
Print Assumptions C10_shift.

(* all six comparisons decide the order of the represented values; equal values have equal digit arrays
   (hence equal hashes: hash_value hashes exactly the digit array) *)
Theorem C10_compare : forall n a b, c10_wf n a -> c10_wf n b ->
  c10_lt a b = c10_spec_cmp CmpLt (c10_val a) (c10_val b) /\ c10_le a b = c10_spec_cmp CmpLe (c10_val a) (c10_val b) /\
  c10_gt a b = c10_spec_cmp CmpGt (c10_val a) (c10_val b) /\ c10_ge a b = c10_spec_cmp CmpGe (c10_val a) (c10_val b) /\
  c10_eq a b = c10_spec_cmp CmpEq (c10_val a) (c10_val b) /\ c10_ne a b = c10_spec_cmp CmpNe (c10_val a) (c10_val b) /\
  (c10_val a = c10_val b -> a = b).
Proof. exact P_compare. Qed.
Print Assumptions C10_compare.

(* construction from a built-in unsigned (uintmax_t: below 2^64) and numeric_limits *)
Theorem C10_construct_limits : forall n x, x < 2 ^ 64 ->
  c10_wf n (c10_assign n x) /\ c10_val (c10_assign n x) = x mod 2 ^ c10_spec_width n /\
  c10_wf n (c10_max n) /\ c10_val (c10_max n) = 2 ^ c10_spec_width n - 1 /\
  c10_wf n (c10_min n) /\ c10_val (c10_min n) = 0 /\ c10_limit_digits n = c10_spec_width n.
Proof. exact P_construct. Qed.
Print Assumptions C10_construct_limits.

(* touint: the low 32 bits for every width, one-digit widths included *)
Theorem C10_touint : forall n a, c10_wf n a -> c10_touint a = c10_val a mod 2 ^ 32.
Proof. exact P_touint. Qed.
Print Assumptions C10_touint.

Theorem C10_value_range : forall n a, c10_wf n a -> c10_val a < 2 ^ c10_spec_width n.
Proof. exact P_value_range. Qed.
Print Assumptions C10_value_range.

(* todouble returns m * 2^e with m < 2^48 (an exactly representable double; the scaling by ldexp is exact),
   below the represented value and within relative error 2^-32 of it, for EVERY magnitude *)
Theorem C10_todouble : forall n a, c10_wf n a ->
  let '(m, e) := c10_todouble a in
  m < 2 ^ 48 /\ m * 2 ^ e <= c10_val a /\ (c10_val a - m * 2 ^ e) * 2 ^ 32 < c10_val a \/ c10_val a = m * 2 ^ e /\ m < 2 ^ 48.
Proof. exact P_todouble. Qed.
Print Assumptions C10_todouble.

(* print: 4n hex characters which, read back, give the represented value *)
Theorem C10_print : forall n a, c10_wf n a -> c10_hexval (c10_print a) = c10_val a /\ length (c10_print a) = (4 * n)%nat.
Proof. exact P_print. Qed.
Print Assumptions C10_print.

(* mixed operations with a built-in unsigned on either side (x + u, u + x, ...): the temporary built
   from u represents u mod 2^w and the operation is again arithmetic modulo 2^w *)
Theorem C10_mixed : forall n2 n a u, c10_wf n a -> u < 2 ^ 64 -> (n <= n2)%nat ->
  let t := c10_assign n u in
  c10_wf n t /\ c10_val t = u mod 2 ^ c10_spec_width n /\
  same_val n (c10_add a t) (c10_spec_binop n OpAdd (c10_val a) (c10_val t)) /\
  same_val n (c10_add t a) (c10_spec_binop n OpAdd (c10_val t) (c10_val a)) /\
  same_val n (c10_sub a t) (c10_spec_binop n OpSub (c10_val a) (c10_val t)) /\
  same_val n (c10_sub t a) (c10_spec_binop n OpSub (c10_val t) (c10_val a)) /\
  same_val n (c10_mul n2 a t) (c10_spec_binop n OpMul (c10_val a) (c10_val t)) /\
  same_val n (c10_mul n2 t a) (c10_spec_binop n OpMul (c10_val t) (c10_val a)).
Proof. exact P_mixed. Qed.
Print Assumptions C10_mixed.

(* non-vacuity: concrete non-trivial operands satisfy the hypotheses and exercise carries *)
Example C10_nonvacuous :
  c10_wf 2 [65535; 65535] /\ c10_wf 2 [1; 0] /\ c10_add [65535; 65535] [1; 0] = [0; 0] /\
  c10_mul 4 [65535; 65535] [65535; 65535] = [1; 0] /\ c10_shl [65535; 1] 17 = [0; 65534] /\
  c10_mod 10 [7; 0] [0; 0] = C10_MathError /\ c10_div 10 [7; 1] [2; 0] = C10_OutOfFuel.
Proof. exact C10_nonvacuous_proof. Qed.
Print Assumptions C10_nonvacuous.
