(* C10 property theorems: ONLY statements closed by `exact`, each followed by Print Assumptions. *)
From Coq Require Import List NArith ZArith Bool.
From DuneV Require Import Params_gen C10_Model C10_Spec.
