(* C11 property theorems: ONLY statements closed by `exact`, each followed by Print Assumptions. *)
From Coq Require Import List Arith Bool PeanoNat.
From DuneV Require Import C11_Model C11_Spec C11_Proofs.
Import ListNotations.

(* ---- refutations of the snapshot code (each witness is replayed on the implementation by checks/C11.py, corpus/C11) *)
Theorem C11_arraylist_snapshot_refuted :
  exists (N : nat) (ops : list (c11_al_op nat)),
    (forall o, In o (c11_als_run nat ([], None) ops) -> o <> None) /\
    ~ c11_agrees (c11_alo_run nat 0 N (c11_alo_empty nat, None) ops) (c11_als_run nat ([], None) ops).
Proof. exact c11_arraylist_snapshot_refuted_lemma. Qed.
Print Assumptions C11_arraylist_snapshot_refuted.

Theorem C11_sllist_selfassign_snapshot_refuted :
  exists ops : list (c11_sl_op nat),
    ~ c11_agrees (c11_sl_run nat 0 Nat.eqb false (c11_sl_empty nat 0, c11_sl_empty nat 0) ops) (c11_sls_run nat Nat.eqb ([], []) ops).
Proof. exact c11_sllist_selfassign_snapshot_refuted_lemma. Qed.
Print Assumptions C11_sllist_selfassign_snapshot_refuted.

Theorem C11_lru_insert_snapshot_refuted :
  exists ops : list (c11_lru_op nat),
    ~ c11_agrees (c11_lru_run nat false 1 (c11_lru_empty nat, LruVoid nat) ops) (c11_lrus_run nat 1 ([], LruVoid nat) ops).
Proof. exact c11_lru_insert_snapshot_refuted_lemma. Qed.
Print Assumptions C11_lru_insert_snapshot_refuted.
