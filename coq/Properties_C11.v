(* C11 property theorems: ONLY statements closed by `exact`, each followed by Print Assumptions. *)
From Coq Require Import List Arith Bool PeanoNat ZArith.
From DuneV Require Import C11_Model C11_Spec C11_Proofs C11_Proofs_AL C11_Proofs_SL C11_Proofs_LRU C11_Proofs_RV C11_Proofs_BV.
Import ListNotations.

(* ---- ArrayList<T,N> (purge as in fixes/C11-1.patch): for every element type, chunk size N (N <= 0 acts as 1) and
   every history of push_back / eraseToHere / purge / clear / operator[] assignment / copying the list and continuing on the copy (copy as in
   fixes/C11-9.patch) / holding an iterator that respects
   the documented preconditions (spec run has no None), the chunked model never dereferences a null or missing chunk
   and shows after EVERY operation exactly size(), the element sequence (by iteration = by operator[]) and the value
   under the held iterator that the plain list shows; held iterators survive push_back (the spec keeps its index). *)
Theorem C11_arraylist_refines :
  forall (T : Type) (d : T) (N : nat) (ops : list (c11_al_op T)) (tr : list (c11_al_obs T)),
    c11_als_run T ([], None) ops = map Some tr ->
    c11_al_run T d N true (c11_al_empty T, None) ops = map C11_ok tr.
Proof. exact c11_arraylist_refines_lemma. Qed.
Print Assumptions C11_arraylist_refines.

Example C11_arraylist_refines_nonvacuous :
  (exists tr, c11_als_run nat ([], None) c11_ex_al_ops = map Some tr /\ length tr = length (c11_als_run nat ([], None) c11_ex_al_ops))
  /\ nth 5 (c11_als_run nat ([], None) c11_ex_al_ops) None = Some (5, [1; 2; 3; 4; 5], Some 3).
Proof. split; [exact (c11_somes_tr (c11_als_run nat ([], None) c11_ex_al_ops) (eq_refl true)) | vm_compute; reflexivity]. Qed.

(* ---- SLList<T> at pointer level (heap of nodes, sentinel beforeHead_ at address 0, tail_, size_, fresh-address allocator;
   operator= as in fixes/C11-2.patch): for every element type with any equality test and every history over two lists of
   push_back / push_front / pop_front / clear / ModifyIterator insert and remove at any position and at endModify() /
   iterator insertAfter and deleteNext / assignment, self-assignment, copy construction, the model never touches a null or
   freed node, never runs out of fuel (clear, iteration), and shows after EVERY operation exactly size(), empty(), the element
   sequence of both lists and the results of == and != that two plain lists show. *)
Theorem C11_sllist_refines :
  forall (T : Type) (d : T) (teq : T -> T -> bool) (ops : list (c11_sl_op T)) (tr : list (c11_sl_obs T)),
    c11_sls_run T teq ([], []) ops = map Some tr ->
    c11_sl_run T d teq true (c11_sl_empty T d, c11_sl_empty T d) ops = map C11_ok tr.
Proof. exact c11_sllist_refines_lemma. Qed.
Print Assumptions C11_sllist_refines.

Example C11_sllist_refines_nonvacuous :
  (exists tr, c11_sls_run nat Nat.eqb ([], []) c11_ex_sl_ops = map Some tr /\ length tr = length (c11_sls_run nat Nat.eqb ([], []) c11_ex_sl_ops))
  /\ nth 9 (c11_sls_run nat Nat.eqb ([], []) c11_ex_sl_ops) None = Some ((4, false, [0; 7; 1; 5]), (4, false, [0; 7; 1; 5]), true, false).
Proof. split; [exact (c11_somes_tr (c11_sls_run nat Nat.eqb ([], []) c11_ex_sl_ops) (eq_refl true)) | vm_compute; reflexivity]. Qed.

(* ---- SLList ModifyIterator positions: the same histories observed together with where the ModifyIterator stands after the
   operation (this strengthens C11_sllist_refines, which it implies): after insert(v) at position k the iterator still points to the
   element that was at position k (or equals endModify()), after remove() at position k it points to the element that was at k+1
   (or equals endModify()), endModify().insert(v) stays at the end. *)
Theorem C11_sllist_modify_iterator :
  forall (T : Type) (d : T) (teq : T -> T -> bool) (ops : list (c11_sl_op T)) (tr : list (c11_sl_obs T * option (option T))),
    c11_sls_run2 T teq (([], []), None) ops = map Some tr ->
    c11_sl_run2 T d teq true ((c11_sl_empty T d, c11_sl_empty T d), None) ops = map C11_ok tr.
Proof. exact c11_sllist_modify_iterator_lemma. Qed.
Print Assumptions C11_sllist_modify_iterator.

Example C11_sllist_modify_iterator_nonvacuous :
  (exists tr, c11_sls_run2 nat Nat.eqb (([], []), None) c11_ex_sl_ops = map Some tr /\ length tr = length (c11_sls_run2 nat Nat.eqb (([], []), None) c11_ex_sl_ops))
  /\ map (fun o => match o with Some (_, p) => p | None => None end) (firstn 6 (c11_sls_run2 nat Nat.eqb (([], []), None) c11_ex_sl_ops))
     = [None; None; None; Some (Some 1); Some None; Some None].
Proof. split; [exact (c11_somes_tr (c11_sls_run2 nat Nat.eqb (([], []), None) c11_ex_sl_ops) (eq_refl true)) | vm_compute; reflexivity]. Qed.

(* ---- lru<Key,Tp> (node list with node identities + key index; insert(key,data) as in fixes/C11-3.patch): for every value type
   and every history of insert / touch / pop_front / pop_back / resize / clear / copying the cache and continuing on the copy (copy as in
   fixes/C11-8.patch) that respects the documented preconditions
   (no pop on an empty cache, resize only shrinks), the model never follows a dangling index entry and shows after EVERY
   operation the returned reference (or RangeError for touching an absent key), size(), front(), back() and find(k) for
   all observed keys exactly as the recency-ordered association list with unique keys does; inserting a present key
   replaces its value and makes it most recent. *)
Theorem C11_lru_refines :
  forall (V : Type) (nkeys : nat) (ops : list (c11_lru_op V)) (tr : list (c11_lru_obs V)),
    c11_lrus_run V nkeys ([], LruVoid V) ops = map Some tr ->
    c11_lru_run V true nkeys (c11_lru_empty V, LruVoid V) ops = map C11_ok tr.
Proof. exact c11_lru_refines_lemma. Qed.
Print Assumptions C11_lru_refines.

Example C11_lru_refines_nonvacuous :
  (exists tr, c11_lrus_run nat 3 ([], LruVoid nat) c11_ex_lru_ops = map Some tr /\ length tr = length (c11_lrus_run nat 3 ([], LruVoid nat) c11_ex_lru_ops))
  /\ nth 2 (c11_lrus_run nat 3 ([], LruVoid nat) c11_ex_lru_ops) None = Some (LruVal _ 7, 2, Some (7, 6), [Some (0, 7); Some (1, 6); None]).
Proof. split; [exact (c11_somes_tr (c11_lrus_run nat 3 ([], LruVoid nat) c11_ex_lru_ops) (eq_refl true)) | vm_compute; reflexivity]. Qed.

(* ---- PRE-EXISTING STATE OF THE TARGET (dimension audit 2): lru::operator= as in the header (_data = other._data; rebuildIndex() =
   _index.clear() + re-insert of every node).  For every precondition-respecting history of the source and EVERY state t of the
   target whatsoever (any entries, any - even inconsistent - index, any node counter), the assigned-to cache shows size(), front(),
   back() and find(k) for all observed keys exactly as the source's abstract map does: nothing of the target's earlier entries
   survives.  (C11_lru_refines above additionally covers histories that CONTINUE on such a target: op LruAssignOnto.) *)
Theorem C11_lru_assign_onto_any_target :
  forall (V : Type) (nkeys : nat) (ops : list (c11_lru_op V)) (ws : c11_lrus_world V) (t : c11_lru V),
    c11_spec_exec (c11_lrus_step V) ([], LruVoid V) ops = Some ws ->
    exists w, c11_exec (c11_lru_step V true) (c11_lru_empty V, LruVoid V) ops = C11_ok w /\
      c11_lru_observe V nkeys (c11_lru_assign V t (fst w), LruVoid V) = C11_ok (c11_lrus_observe V nkeys (fst ws, LruVoid V)).
Proof. exact c11_lru_assign_onto_any_target_lemma. Qed.
Print Assumptions C11_lru_assign_onto_any_target.

(* the target really holds other entries (keys 1, 2, 0 with other values, another order, a stale index entry would answer find(2)):
   after the assignment find(2) is end() and touch(2) throws; the history continues on the target *)
Example C11_lru_assign_onto_nonvacuous :
  (exists tr, c11_lrus_run nat 3 ([], LruVoid nat) c11_ex_lru_asg_ops = map Some tr /\ length tr = length (c11_lrus_run nat 3 ([], LruVoid nat) c11_ex_lru_asg_ops))
  /\ nth 2 (c11_lru_run nat true 3 (c11_lru_empty nat, LruVoid nat) c11_ex_lru_asg_ops) C11_ub = C11_ok (LruVoid _, 2, Some (6, 5), [Some (0, 5); Some (1, 6); None])
  /\ nth 3 (c11_lru_run nat true 3 (c11_lru_empty nat, LruVoid nat) c11_ex_lru_asg_ops) C11_ub = C11_ok (LruRangeError _, 2, Some (6, 5), [Some (0, 5); Some (1, 6); None])
  /\ c11_lru_size nat (match c11_lru_fill nat true (c11_lru_empty nat) [(1, 60); (2, 70); (0, 50); (1, 61)] with C11_ok t => t | _ => c11_lru_empty nat end) = 3.
Proof. split; [exact (c11_somes_tr (c11_lrus_run nat 3 ([], LruVoid nat) c11_ex_lru_asg_ops) (eq_refl true)) | vm_compute; repeat split; reflexivity]. Qed.

(* ---- MAGNITUDE OF INTEGER ARGUMENTS (dimension audit 2).  BitSetVector: a shift of a block by ANY count >= its size clears it
   (the driver's counts 2^31, 2^31+1, 2^32, 2^63, SIZE_MAX are run on the model as the shift by the block size, justified here);
   reference::set(n, val) sets the bit iff val is nonzero, for every int.  ReservedVector: at(i) throws for every i >= size(). *)
Theorem C11_bitset_shift_saturates :
  forall (b : list bool) (k : nat), length b <= k ->
    c11_bitset_shl b k = c11_bitset_shl b (length b) /\ c11_bitset_shr b k = c11_bitset_shr b (length b)
    /\ c11_bitset_shl b k = repeat false (length b) /\ c11_bitset_shr b k = repeat false (length b).
Proof. exact c11_bitset_shift_saturates_lemma. Qed.
Print Assumptions C11_bitset_shift_saturates.

Theorem C11_bitset_set_val_nonzero :
  forall val : Z, (c11_bv_val_to_bool val = true <-> val <> 0%Z) /\ (c11_bv_val_to_bool val = false <-> val = 0%Z).
Proof. exact c11_bv_val_to_bool_lemma. Qed.
Print Assumptions C11_bitset_set_val_nonzero.

Theorem C11_reserved_at_beyond :
  forall (T : Type) (s : c11_rv T) (i : nat), rv_size s <= i -> c11_rv_at T s i = C11_ok None.
Proof. exact c11_reserved_at_beyond_lemma. Qed.
Print Assumptions C11_reserved_at_beyond.

Example C11_magnitude_nonvacuous :
  c11_bitset_shl [true; false; true] 1000 = [false; false; false] /\ c11_bitset_shr [true; true; true] 3 = [false; false; false]
  /\ c11_bv_val_to_bool 2 = true /\ c11_bv_val_to_bool (-2147483648) = true /\ c11_bv_val_to_bool 256 = true /\ c11_bv_val_to_bool 0 = false
  /\ c11_rv_at nat (C11_mk_rv nat [7; 8; 9] 2) 2 = C11_ok None /\ c11_rv_at nat (C11_mk_rv nat [7; 8; 9] 2) 1 = C11_ok (Some 8).
Proof. vm_compute. repeat split; reflexivity. Qed.

(* ---- ReservedVector<T,n> (std::array storage + size_): for every element type with any == and <, every capacity n and every
   history over two vectors of push_back / pop_back / resize / clear / operator[] assignment / fill / (count,value) and range
   construction / swap / assignment / at() that respects the documented preconditions (no push_back on a full vector, sizes
   <= n), the model never leaves its storage and after EVERY operation its observation (size, elements by iteration, front, back,
   ==, <, result or std::out_of_range of at()) matches the capacity-bounded vector.  Values exposed by a GROWING resize are
   unspecified in the spec (None; the code leaves stale contents, std::vector would value-initialise): c11_rv_obs_match
   constrains only specified values, and a comparison is constrained only if it inspects specified values only. *)
Theorem C11_reserved_refines :
  forall (T : Type) (d : T) (teq tlt : T -> T -> bool) (n : nat) (ops : list (c11_rv_op T)) (tr : list (c11_rvs_obs T)),
    c11_rvs_run T teq tlt n ([], [], None) ops = map Some tr ->
    exists mtr, c11_rv_run T d teq tlt n (c11_rv_empty T d n, c11_rv_empty T d n, None) ops = map C11_ok mtr /\
                Forall2 (c11_rv_obs_match T) mtr tr.
Proof. exact c11_reserved_refines_lemma. Qed.
Print Assumptions C11_reserved_refines.

Example C11_reserved_refines_nonvacuous :
  (exists tr, c11_rvs_run nat Nat.eqb Nat.ltb 3 ([], [], None) c11_ex_rv_ops = map Some tr /\
              length tr = length (c11_rvs_run nat Nat.eqb Nat.ltb 3 ([], [], None) c11_ex_rv_ops))
  /\ nth 2 (c11_rvs_run nat Nat.eqb Nat.ltb 3 ([], [], None) c11_ex_rv_ops) None
     = Some ((3, [Some 1; Some 2; None], Some (Some 1, None)), (0, [], None), (Some false, Some false, Some true), None).
Proof. split; [exact (c11_somes_tr (c11_rvs_run nat Nat.eqb Nat.ltb 3 ([], [], None) c11_ex_rv_ops) (eq_refl true)) | vm_compute; reflexivity]. Qed.

(* ---- BitSetVector<bs> (one flat vector<bool> + block proxies): for every block size bs >= 1 and every history of resize / clear /
   setAll / unsetAll / per-block set(j,v), flip(j), set(), reset(), flip(), assignment from bool, from a bitset and from another
   (or the same) block, &=, |=, ^= with a bitset or a block, <<= and >>= by any count, the model never leaves the vector and shows
   after EVERY operation exactly the blocks (bit by bit through test()), count(), countmasked(j) for all j < bs and the per-block
   proxy queries count()/any()/none()/all()/== (against the cyclically next block)/~ (modelled with their loops) of the list of
   std::bitset<bs> values: each block behaves as a std::bitset<bs> (list of bs bits; shifts fill with zeros) and blocks are
   independent.  any/none/all/==/~/<</>> /back()/iteration of the const proxy are functions of the observed bits and are
   cross-checked inside the impl driver only. *)
Theorem C11_bitset_refines :
  forall (bs : nat), 0 < bs -> forall (ops : list c11_bv_op) (tr : list c11_bv_obs),
    c11_bvs_run bs [] ops = map Some tr -> c11_bv_run bs [] ops = map C11_ok tr.
Proof. exact c11_bitset_refines_lemma. Qed.
Print Assumptions C11_bitset_refines.

Example C11_bitset_refines_nonvacuous :
  (exists tr, c11_bvs_run 3 [] c11_ex_bv_ops = map Some tr /\ length tr = length (c11_bvs_run 3 [] c11_ex_bv_ops))
  /\ nth 5 (c11_bvs_run 3 [] c11_ex_bv_ops) None = Some ([[true; false; true]; [true; false; false]], 3, [2; 0; 1], [(2, true, false, false, false, [false; true; false]); (1, true, false, false, false, [false; true; true])]).
Proof. split; [exact (c11_somes_tr (c11_bvs_run 3 [] c11_ex_bv_ops) (eq_refl true)) | vm_compute; reflexivity]. Qed.

(* ---- ArrayList iterators (ArrayListIterator / ConstArrayListIterator = list + absolute position_): in EVERY state reached by a
   precondition-respecting history, every random-access path reads the abstract list: begin()[i] and mid[i - m] for mid = begin() +
   size()/2 (operator[] takes a difference_type that is converted to size_t: negative offsets wrap modulo 2^64 and wrap back, guard
   start_+size_ < 2^64), the reverse walk from end() with --, end() - begin() = size(), begin() + size() == end(); appending
   invalidates NO iterator (every position begin()+i still dereferences to element i after push_back); eraseToHere() leaves its
   iterator at the new begin(). *)
Theorem C11_arraylist_random_access :
  forall (T : Type) (d : T) (N : nat) (ops : list (c11_al_op T)) (ws : c11_als_world T),
    c11_spec_exec (c11_als_step T) ([], None) ops = Some ws ->
    exists w, c11_exec (c11_al_step T d N true) (c11_al_empty T, None) ops = C11_ok w /\
      let s := fst w in let l := fst ws in
      al_size s = length l /\
      ((Z.of_nat (c11_al_end T s) < 2 ^ 64)%Z -> c11_al_read_begin T N s = C11_ok l /\ c11_al_read_mid T N s = C11_ok l) /\
      c11_al_read_reverse T N s = C11_ok l /\
      c11_ali_distanceTo (c11_al_begin T s) (c11_al_end T s) = Z.of_nat (length l) /\
      c11_ali_equals (c11_ali_advance (c11_al_begin T s) (al_size s)) (c11_al_end T s) = true /\
      (forall v, exists s', c11_al_push_back T d N s v = C11_ok s' /\ c11_al_begin T s' = c11_al_begin T s /\
                 forall i x, nth_error l i = Some x -> c11_ali_dereference T N s' (c11_ali_advance (c11_al_begin T s) i) = C11_ok x) /\
      (forall k, k < length l -> snd (c11_al_eraseToHere T N s (c11_al_begin T s + k)) = c11_al_begin T (fst (c11_al_eraseToHere T N s (c11_al_begin T s + k)))).
Proof. exact c11_arraylist_random_access_lemma. Qed.
Print Assumptions C11_arraylist_random_access.

Example C11_arraylist_random_access_nonvacuous :
  c11_spec_exec (c11_als_step nat) ([], None) c11_ex_al_ops = Some ([8], None) /\
  c11_al_read_mid nat 2 (fst (match c11_exec (c11_al_step nat 0 2 true) (c11_al_empty nat, None) (firstn 9 c11_ex_al_ops) with C11_ok w => w | _ => (c11_al_empty nat, None) end))
  = C11_ok [3; 4; 5; 6].
Proof. vm_compute. split; reflexivity. Qed.

(* ---- ReservedVector derived comparisons: the same histories, additionally observing A != B, A > B, A <= B, A >= B computed as the
   header writes them (through == and <); they match the negations / swaps of the lexicographic comparisons of the spec whenever
   those inspect specified values only.  Strengthens C11_reserved_refines (its observation is the first component). *)
Theorem C11_reserved_comparisons :
  forall (T : Type) (d : T) (teq tlt : T -> T -> bool) (n : nat) (ops : list (c11_rv_op T))
         (tr : list (c11_rvs_obs T * (option bool * option bool * option bool * option bool))),
    c11_rvs_run2 T teq tlt n ([], [], None) ops = map Some tr ->
    exists mtr, c11_rv_run2 T d teq tlt n (c11_rv_empty T d n, c11_rv_empty T d n, None) ops = map C11_ok mtr /\
                Forall2 (c11_rv_obs_match2 T) mtr tr.
Proof. exact c11_reserved_comparisons_lemma. Qed.
Print Assumptions C11_reserved_comparisons.

Example C11_reserved_comparisons_nonvacuous :
  (exists tr, c11_rvs_run2 nat Nat.eqb Nat.ltb 3 ([], [], None) c11_ex_rv_ops = map Some tr /\
              length tr = length (c11_rvs_run2 nat Nat.eqb Nat.ltb 3 ([], [], None) c11_ex_rv_ops))
  /\ match nth 1 (c11_rvs_run2 nat Nat.eqb Nat.ltb 3 ([], [], None) c11_ex_rv_ops) None with Some (_, q) => q | None => (None, None, None, None) end
     = (Some true, Some true, Some false, Some true).
Proof. split; [exact (c11_somes_tr (c11_rvs_run2 nat Nat.eqb Nat.ltb 3 ([], [], None) c11_ex_rv_ops) (eq_refl true)) | vm_compute; reflexivity]. Qed.

(* ---- ReservedVector capacity boundary: in EVERY reachable state size() <= n = capacity(), the storage has exactly n slots, a
   push_back below capacity succeeds and increases size() by one (up to exactly full), and a push_back on an exactly full vector
   leaves the storage (model: C11_ub; C++: undefined behaviour, assert with CHECK_RESERVEDVECTOR) - the documented precondition is
   necessary, no silent growth or wrap. *)
Theorem C11_reserved_capacity :
  forall (T : Type) (d : T) (n : nat) (ops : list (c11_rv_op T)) (ws : c11_rvs_world T),
    c11_spec_exec (c11_rvs_step T n) ([], [], None) ops = Some ws ->
    exists w, c11_exec (c11_rv_step T d n) (c11_rv_empty T d n, c11_rv_empty T d n, None) ops = C11_ok w /\
      forall (i : bool), let s := (if i then snd (fst w) else fst (fst w)) in let l := (if i then snd (fst ws) else fst (fst ws)) in
        rv_size s = length l /\ rv_size s <= n /\ length (rv_arr s) = n /\
        (forall v, length l < n -> exists s', c11_rv_push_back T s v = C11_ok s' /\ rv_size s' = S (rv_size s)) /\
        (forall v, length l = n -> c11_rv_push_back T s v = C11_ub).
Proof. exact c11_reserved_capacity_lemma. Qed.
Print Assumptions C11_reserved_capacity.

Example C11_reserved_capacity_nonvacuous :
  c11_spec_exec (c11_rvs_step nat 2) ([], [], None) [RvPush _ false 1; RvPush _ false 2] = Some ([Some 1; Some 2], [], None) /\
  c11_exec (c11_rv_step nat 0 2) (c11_rv_empty nat 0 2, c11_rv_empty nat 0 2, None) [RvPush _ false 1; RvPush _ false 2; RvPush _ false 3] = C11_ub.
Proof. vm_compute. split; reflexivity. Qed.

(* ---- deep observables (compared with the implementation's private members by the optional deep stream of checks/C11.py).
   ArrayList: after every operation of every history capacity_ = chunks_.size() * chunkSize_, start_ + size_ <= capacity_, and the
   chunk pointers are null exactly below chunk start_/chunkSize_ (eraseToHere frees exactly the dead leading chunks, purge drops them). *)
Theorem C11_arraylist_private_state :
  forall (T : Type) (d : T) (N : nat) (ops : list (c11_al_op T)) (tr : list (c11_al_obs T)),
    c11_als_run T ([], None) ops = map Some tr ->
    exists dtr, c11_al_run_deep T d N true (c11_al_empty T, None) ops = map C11_ok dtr /\ length dtr = length tr /\
                Forall (c11_al_deep_wf N) dtr.
Proof. exact c11_arraylist_private_state_lemma. Qed.
Print Assumptions C11_arraylist_private_state.

(* SLList: after every operation of every history tail_ is the last node reachable from beforeHead_ (beforeHead_ itself when
   empty) and size_ is the number of reachable nodes, for both lists. *)
Theorem C11_sllist_tail_consistent :
  forall (T : Type) (d : T) (ops : list (c11_sl_op T)) (tr : list ((bool * bool) * (bool * bool))),
    c11_spec_run (c11_sls_step T) (fun _ => ((true, true), (true, true))) ([], []) ops = map Some tr ->
    c11_sl_run_deep T d true (c11_sl_empty T d, c11_sl_empty T d) ops = map C11_ok tr.
Proof. exact (fun T d => c11_sllist_tail_lemma T d (fun _ _ => true)). Qed.
Print Assumptions C11_sllist_tail_consistent.

(* ---- refutations of the snapshot code (each witness is replayed on the implementation by checks/C11.py, corpus/C11) *)
Theorem C11_arraylist_snapshot_refuted :
  exists (N : nat) (ops : list (c11_al_op nat)),
    (forall o, In o (c11_als_run nat ([], None) ops) -> o <> None) /\
    ~ c11_agrees (c11_alo_run nat 0 N (c11_alo_empty nat, None) ops) (c11_als_run nat ([], None) ops).
Proof. exact c11_arraylist_snapshot_refuted_lemma. Qed.
Print Assumptions C11_arraylist_snapshot_refuted.

Theorem C11_sllist_selfassign_snapshot_refuted :
  exists ops : list (c11_sl_op nat),
    ~ c11_agrees (c11_sl_run nat 0 Nat.eqb false (c11_sl_empty nat 0, c11_sl_empty nat 0) ops) (c11_sls_run nat Nat.eqb ([], []) ops).
Proof. exact c11_sllist_selfassign_snapshot_refuted_lemma. Qed.
Print Assumptions C11_sllist_selfassign_snapshot_refuted.

Theorem C11_lru_insert_snapshot_refuted :
  exists ops : list (c11_lru_op nat),
    ~ c11_agrees (c11_lru_run nat false 1 (c11_lru_empty nat, LruVoid nat) ops) (c11_lrus_run nat 1 ([], LruVoid nat) ops).
Proof. exact c11_lru_insert_snapshot_refuted_lemma. Qed.
Print Assumptions C11_lru_insert_snapshot_refuted.
