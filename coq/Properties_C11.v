(* C11 property theorems: ONLY statements closed by `exact`, each followed by Print Assumptions. *)
From Coq Require Import List Arith Bool PeanoNat.
From DuneV Require Import C11_Model C11_Spec C11_Proofs C11_Proofs_AL C11_Proofs_SL C11_Proofs_LRU C11_Proofs_RV C11_Proofs_BV.
Import ListNotations.

(* ---- ArrayList<T,N> (purge as in fixes/C11-1.patch): for every element type, chunk size N (N <= 0 acts as 1) and
   every history of push_back / eraseToHere / purge / clear / operator[] assignment / holding an iterator that respects
   the documented preconditions (spec run has no None), the chunked model never dereferences a null or missing chunk
   and shows after EVERY operation exactly size(), the element sequence (by iteration = by operator[]) and the value
   under the held iterator that the plain list shows; held iterators survive push_back (the spec keeps its index). *)
Theorem C11_arraylist_refines :
  forall (T : Type) (d : T) (N : nat) (ops : list (c11_al_op T)) (tr : list (c11_al_obs T)),
    c11_als_run T ([], None) ops = map Some tr ->
    c11_al_run T d N true (c11_al_empty T, None) ops = map C11_ok tr.
Proof. exact c11_arraylist_refines_lemma. Qed.
Print Assumptions C11_arraylist_refines.

Example C11_arraylist_refines_nonvacuous :
  (exists tr, c11_als_run nat ([], None) c11_ex_al_ops = map Some tr /\ length tr = length (c11_als_run nat ([], None) c11_ex_al_ops))
  /\ nth 5 (c11_als_run nat ([], None) c11_ex_al_ops) None = Some (5, [1; 2; 3; 4; 5], Some 3).
Proof. split; [exact (c11_somes_tr (c11_als_run nat ([], None) c11_ex_al_ops) (eq_refl true)) | vm_compute; reflexivity]. Qed.

(* ---- SLList<T> at pointer level (heap of nodes, sentinel beforeHead_ at address 0, tail_, size_, fresh-address allocator;
   operator= as in fixes/C11-2.patch): for every element type with any equality test and every history over two lists of
   push_back / push_front / pop_front / clear / ModifyIterator insert and remove at any position and at endModify() /
   iterator insertAfter and deleteNext / assignment, self-assignment, copy construction, the model never touches a null or
   freed node, never runs out of fuel (clear, iteration), and shows after EVERY operation exactly size(), empty(), the element
   sequence of both lists and the results of == and != that two plain lists show. *)
Theorem C11_sllist_refines :
  forall (T : Type) (d : T) (teq : T -> T -> bool) (ops : list (c11_sl_op T)) (tr : list (c11_sl_obs T)),
    c11_sls_run T teq ([], []) ops = map Some tr ->
    c11_sl_run T d teq true (c11_sl_empty T d, c11_sl_empty T d) ops = map C11_ok tr.
Proof. exact c11_sllist_refines_lemma. Qed.
Print Assumptions C11_sllist_refines.

Example C11_sllist_refines_nonvacuous :
  (exists tr, c11_sls_run nat Nat.eqb ([], []) c11_ex_sl_ops = map Some tr /\ length tr = length (c11_sls_run nat Nat.eqb ([], []) c11_ex_sl_ops))
  /\ nth 9 (c11_sls_run nat Nat.eqb ([], []) c11_ex_sl_ops) None = Some ((4, false, [0; 7; 1; 5]), (4, false, [0; 7; 1; 5]), true, false).
Proof. split; [exact (c11_somes_tr (c11_sls_run nat Nat.eqb ([], []) c11_ex_sl_ops) (eq_refl true)) | vm_compute; reflexivity]. Qed.

(* ---- lru<Key,Tp> (node list with node identities + key index; insert(key,data) as in fixes/C11-3.patch): for every value type
   and every history of insert / touch / pop_front / pop_back / resize / clear that respects the documented preconditions
   (no pop on an empty cache, resize only shrinks), the model never follows a dangling index entry and shows after EVERY
   operation the returned reference (or RangeError for touching an absent key), size(), front(), back() and find(k) for
   all observed keys exactly as the recency-ordered association list with unique keys does; inserting a present key
   replaces its value and makes it most recent. *)
Theorem C11_lru_refines :
  forall (V : Type) (nkeys : nat) (ops : list (c11_lru_op V)) (tr : list (c11_lru_obs V)),
    c11_lrus_run V nkeys ([], LruVoid V) ops = map Some tr ->
    c11_lru_run V true nkeys (c11_lru_empty V, LruVoid V) ops = map C11_ok tr.
Proof. exact c11_lru_refines_lemma. Qed.
Print Assumptions C11_lru_refines.

Example C11_lru_refines_nonvacuous :
  (exists tr, c11_lrus_run nat 3 ([], LruVoid nat) c11_ex_lru_ops = map Some tr /\ length tr = length (c11_lrus_run nat 3 ([], LruVoid nat) c11_ex_lru_ops))
  /\ nth 2 (c11_lrus_run nat 3 ([], LruVoid nat) c11_ex_lru_ops) None = Some (LruVal _ 7, 2, Some (7, 6), [Some (0, 7); Some (1, 6); None]).
Proof. split; [exact (c11_somes_tr (c11_lrus_run nat 3 ([], LruVoid nat) c11_ex_lru_ops) (eq_refl true)) | vm_compute; reflexivity]. Qed.

(* ---- ReservedVector<T,n> (std::array storage + size_): for every element type with any == and <, every capacity n and every
   history over two vectors of push_back / pop_back / resize / clear / operator[] assignment / fill / (count,value) and range
   construction / swap / assignment / at() that respects the documented preconditions (no push_back on a full vector, sizes
   <= n), the model never leaves its storage and after EVERY operation its observation (size, elements by iteration, front, back,
   ==, <, result or std::out_of_range of at()) matches the capacity-bounded vector.  Values exposed by a GROWING resize are
   unspecified in the spec (None; the code leaves stale contents, std::vector would value-initialise): c11_rv_obs_match
   constrains only specified values, and a comparison is constrained only if it inspects specified values only. *)
Theorem C11_reserved_refines :
  forall (T : Type) (d : T) (teq tlt : T -> T -> bool) (n : nat) (ops : list (c11_rv_op T)) (tr : list (c11_rvs_obs T)),
    c11_rvs_run T teq tlt n ([], [], None) ops = map Some tr ->
    exists mtr, c11_rv_run T d teq tlt n (c11_rv_empty T d n, c11_rv_empty T d n, None) ops = map C11_ok mtr /\
                Forall2 (c11_rv_obs_match T) mtr tr.
Proof. exact c11_reserved_refines_lemma. Qed.
Print Assumptions C11_reserved_refines.

Example C11_reserved_refines_nonvacuous :
  (exists tr, c11_rvs_run nat Nat.eqb Nat.ltb 3 ([], [], None) c11_ex_rv_ops = map Some tr /\
              length tr = length (c11_rvs_run nat Nat.eqb Nat.ltb 3 ([], [], None) c11_ex_rv_ops))
  /\ nth 2 (c11_rvs_run nat Nat.eqb Nat.ltb 3 ([], [], None) c11_ex_rv_ops) None
     = Some ((3, [Some 1; Some 2; None], Some (Some 1, None)), (0, [], None), (Some false, Some false, Some true), None).
Proof. split; [exact (c11_somes_tr (c11_rvs_run nat Nat.eqb Nat.ltb 3 ([], [], None) c11_ex_rv_ops) (eq_refl true)) | vm_compute; reflexivity]. Qed.

(* ---- BitSetVector<bs> (one flat vector<bool> + block proxies): for every block size bs >= 1 and every history of resize / clear /
   setAll / unsetAll / per-block set(j,v), flip(j), set(), reset(), flip(), assignment from bool, from a bitset and from another
   (or the same) block, &=, |=, ^= with a bitset or a block, <<= and >>= by any count, the model never leaves the vector and shows
   after EVERY operation exactly the blocks (bit by bit through test()), count() and countmasked(j) for all j < bs of the list of
   std::bitset<bs> values: each block behaves as a std::bitset<bs> (list of bs bits; shifts fill with zeros) and blocks are
   independent.  any/none/all/==/~/<</>> /back()/iteration of the const proxy are functions of the observed bits and are
   cross-checked inside the impl driver only. *)
Theorem C11_bitset_refines :
  forall (bs : nat), 0 < bs -> forall (ops : list c11_bv_op) (tr : list c11_bv_obs),
    c11_bvs_run bs [] ops = map Some tr -> c11_bv_run bs [] ops = map C11_ok tr.
Proof. exact c11_bitset_refines_lemma. Qed.
Print Assumptions C11_bitset_refines.

Example C11_bitset_refines_nonvacuous :
  (exists tr, c11_bvs_run 3 [] c11_ex_bv_ops = map Some tr /\ length tr = length (c11_bvs_run 3 [] c11_ex_bv_ops))
  /\ nth 5 (c11_bvs_run 3 [] c11_ex_bv_ops) None = Some ([[true; false; true]; [true; false; false]], 3, [2; 0; 1]).
Proof. split; [exact (c11_somes_tr (c11_bvs_run 3 [] c11_ex_bv_ops) (eq_refl true)) | vm_compute; reflexivity]. Qed.

(* ---- deep observables (compared with the implementation's private members by the optional deep stream of checks/C11.py).
   ArrayList: after every operation of every history capacity_ = chunks_.size() * chunkSize_, start_ + size_ <= capacity_, and the
   chunk pointers are null exactly below chunk start_/chunkSize_ (eraseToHere frees exactly the dead leading chunks, purge drops them). *)
Theorem C11_arraylist_private_state :
  forall (T : Type) (d : T) (N : nat) (ops : list (c11_al_op T)) (tr : list (c11_al_obs T)),
    c11_als_run T ([], None) ops = map Some tr ->
    exists dtr, c11_al_run_deep T d N true (c11_al_empty T, None) ops = map C11_ok dtr /\ length dtr = length tr /\
                Forall (c11_al_deep_wf N) dtr.
Proof. exact c11_arraylist_private_state_lemma. Qed.
Print Assumptions C11_arraylist_private_state.

(* SLList: after every operation of every history tail_ is the last node reachable from beforeHead_ (beforeHead_ itself when
   empty) and size_ is the number of reachable nodes, for both lists. *)
Theorem C11_sllist_tail_consistent :
  forall (T : Type) (d : T) (ops : list (c11_sl_op T)) (tr : list ((bool * bool) * (bool * bool))),
    c11_spec_run (c11_sls_step T) (fun _ => ((true, true), (true, true))) ([], []) ops = map Some tr ->
    c11_sl_run_deep T d true (c11_sl_empty T d, c11_sl_empty T d) ops = map C11_ok tr.
Proof. exact (fun T d => c11_sllist_tail_lemma T d (fun _ _ => true)). Qed.
Print Assumptions C11_sllist_tail_consistent.

(* ---- refutations of the snapshot code (each witness is replayed on the implementation by checks/C11.py, corpus/C11) *)
Theorem C11_arraylist_snapshot_refuted :
  exists (N : nat) (ops : list (c11_al_op nat)),
    (forall o, In o (c11_als_run nat ([], None) ops) -> o <> None) /\
    ~ c11_agrees (c11_alo_run nat 0 N (c11_alo_empty nat, None) ops) (c11_als_run nat ([], None) ops).
Proof. exact c11_arraylist_snapshot_refuted_lemma. Qed.
Print Assumptions C11_arraylist_snapshot_refuted.

Theorem C11_sllist_selfassign_snapshot_refuted :
  exists ops : list (c11_sl_op nat),
    ~ c11_agrees (c11_sl_run nat 0 Nat.eqb false (c11_sl_empty nat 0, c11_sl_empty nat 0) ops) (c11_sls_run nat Nat.eqb ([], []) ops).
Proof. exact c11_sllist_selfassign_snapshot_refuted_lemma. Qed.
Print Assumptions C11_sllist_selfassign_snapshot_refuted.

Theorem C11_lru_insert_snapshot_refuted :
  exists ops : list (c11_lru_op nat),
    ~ c11_agrees (c11_lru_run nat false 1 (c11_lru_empty nat, LruVoid nat) ops) (c11_lrus_run nat 1 ([], LruVoid nat) ops).
Proof. exact c11_lru_insert_snapshot_refuted_lemma. Qed.
Print Assumptions C11_lru_insert_snapshot_refuted.
