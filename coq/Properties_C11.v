(* C11 property theorems: ONLY statements closed by `exact`, each followed by Print Assumptions. *)
From Coq Require Import List Arith Bool PeanoNat.
From DuneV Require Import C11_Model C11_Spec C11_Proofs C11_Proofs_AL C11_Proofs_SL C11_Proofs_LRU C11_Proofs_RV C11_Proofs_BV.
Import ListNotations.

(* ---- ArrayList<T,N> (purge as in fixes/C11-1.patch): for every element type, chunk size N (N <= 0 acts as 1) and
   every history of push_back / eraseToHere / purge / clear / operator[] assignment / holding an iterator that respects
   the documented preconditions (spec run has no None), the chunked model never dereferences a null or missing chunk
   and shows after EVERY operation exactly size(), the element sequence (by iteration = by operator[]) and the value
   under the held iterator that the plain list shows; held iterators survive push_back (the spec keeps its index). *)
Theorem C11_arraylist_refines :
  forall (T : Type) (d : T) (N : nat) (ops : list (c11_al_op T)) (tr : list (c11_al_obs T)),
    c11_als_run T ([], None) ops = map Some tr ->
    c11_al_run T d N true (c11_al_empty T, None) ops = map C11_ok tr.
Proof. exact c11_arraylist_refines_lemma. Qed.
Print Assumptions C11_arraylist_refines.

Example C11_arraylist_refines_nonvacuous :
  (exists tr, c11_als_run nat ([], None) c11_ex_al_ops = map Some tr /\ length tr = length (c11_als_run nat ([], None) c11_ex_al_ops))
  /\ nth 5 (c11_als_run nat ([], None) c11_ex_al_ops) None = Some (5, [1; 2; 3; 4; 5], Some 3).
Proof. split; [exact (c11_somes_tr (c11_als_run nat ([], None) c11_ex_al_ops) (eq_refl true)) | vm_compute; reflexivity]. Qed.

(* ---- SLList<T> at pointer level (heap of nodes, sentinel beforeHead_ at address 0, tail_, size_, fresh-address allocator;
   operator= as in fixes/C11-2.patch): for every element type with any equality test and every history over two lists of
   push_back / push_front / pop_front / clear / ModifyIterator insert and remove at any position and at endModify() /
   iterator insertAfter and deleteNext / assignment, self-assignment, copy construction, the model never touches a null or
   freed node, never runs out of fuel (clear, iteration), and shows after EVERY operation exactly size(), empty(), the element
   sequence of both lists and the results of == and != that two plain lists show. *)
Theorem C11_sllist_refines :
  forall (T : Type) (d : T) (teq : T -> T -> bool) (ops : list (c11_sl_op T)) (tr : list (c11_sl_obs T)),
    c11_sls_run T teq ([], []) ops = map Some tr ->
    c11_sl_run T d teq true (c11_sl_empty T d, c11_sl_empty T d) ops = map C11_ok tr.
Proof. exact c11_sllist_refines_lemma. Qed.
Print Assumptions C11_sllist_refines.

Example C11_sllist_refines_nonvacuous :
  (exists tr, c11_sls_run nat Nat.eqb ([], []) c11_ex_sl_ops = map Some tr /\ length tr = length (c11_sls_run nat Nat.eqb ([], []) c11_ex_sl_ops))
  /\ nth 9 (c11_sls_run nat Nat.eqb ([], []) c11_ex_sl_ops) None = Some ((4, false, [0; 7; 1; 5]), (4, false, [0; 7; 1; 5]), true, false).
Proof. split; [exact (c11_somes_tr (c11_sls_run nat Nat.eqb ([], []) c11_ex_sl_ops) (eq_refl true)) | vm_compute; reflexivity]. Qed.

(* ---- lru<Key,Tp> (node list with node identities + key index; insert(key,data) as in fixes/C11-3.patch): for every value type
   and every history of insert / touch / pop_front / pop_back / resize / clear that respects the documented preconditions
   (no pop on an empty cache, resize only shrinks), the model never follows a dangling index entry and shows after EVERY
   operation the returned reference (or RangeError for touching an absent key), size(), front(), back() and find(k) for
   all observed keys exactly as the recency-ordered association list with unique keys does; inserting a present key
   replaces its value and makes it most recent. *)
Theorem C11_lru_refines :
  forall (V : Type) (nkeys : nat) (ops : list (c11_lru_op V)) (tr : list (c11_lru_obs V)),
    c11_lrus_run V nkeys ([], LruVoid V) ops = map Some tr ->
    c11_lru_run V true nkeys (c11_lru_empty V, LruVoid V) ops = map C11_ok tr.
Proof. exact c11_lru_refines_lemma. Qed.
Print Assumptions C11_lru_refines.

Example C11_lru_refines_nonvacuous :
  (exists tr, c11_lrus_run nat 3 ([], LruVoid nat) c11_ex_lru_ops = map Some tr /\ length tr = length (c11_lrus_run nat 3 ([], LruVoid nat) c11_ex_lru_ops))
  /\ nth 2 (c11_lrus_run nat 3 ([], LruVoid nat) c11_ex_lru_ops) None = Some (LruVal _ 7, 2, Some (7, 6), [Some (0, 7); Some (1, 6); None]).
Proof. split; [exact (c11_somes_tr (c11_lrus_run nat 3 ([], LruVoid nat) c11_ex_lru_ops) (eq_refl true)) | vm_compute; reflexivity]. Qed.

(* ---- ReservedVector<T,n> (std::array storage + size_): for every element type with any == and <, every capacity n and every
   history over two vectors of push_back / pop_back / resize / clear / operator[] assignment / fill / (count,value) and range
   construction / swap / assignment / at() that respects the documented preconditions (no push_back on a full vector, sizes
   <= n), the model never leaves its storage and after EVERY operation its observation (size, elements by iteration, front, back,
   ==, <, result or std::out_of_range of at()) matches the capacity-bounded vector.  Values exposed by a GROWING resize are
   unspecified in the spec (None; the code leaves stale contents, std::vector would value-initialise): c11_rv_obs_match
   constrains only specified values, and a comparison is constrained only if it inspects specified values only. *)
Theorem C11_reserved_refines :
  forall (T : Type) (d : T) (teq tlt : T -> T -> bool) (n : nat) (ops : list (c11_rv_op T)) (tr : list (c11_rvs_obs T)),
    c11_rvs_run T teq tlt n ([], [], None) ops = map Some tr ->
    exists mtr, c11_rv_run T d teq tlt n (c11_rv_empty T d n, c11_rv_empty T d n, None) ops = map C11_ok mtr /\
                Forall2 (c11_rv_obs_match T) mtr tr.
Proof. exact c11_reserved_refines_lemma. Qed.
Print Assumptions C11_reserved_refines.

Example C11_reserved_refines_nonvacuous :
  (exists tr, c11_rvs_run nat Nat.eqb Nat.ltb 3 ([], [], None) c11_ex_rv_ops = map Some tr /\
              length tr = length (c11_rvs_run nat Nat.eqb Nat.ltb 3 ([], [], None) c11_ex_rv_ops))
  /\ nth 2 (c11_rvs_run nat Nat.eqb Nat.ltb 3 ([], [], None) c11_ex_rv_ops) None
     = Some ((3, [Some 1; Some 2; None], Some (Some 1, None)), (0, [], None), (Some false, Some false, Some true), None).
Proof. split; [exact (c11_somes_tr (c11_rvs_run nat Nat.eqb Nat.ltb 3 ([], [], None) c11_ex_rv_ops) (eq_refl true)) | vm_compute; reflexivity]. Qed.

(* ---- BitSetVector<bs>: PARTIAL.  Full statement (NOT proved; checked only by the correspondence run, 0 disagreements):
     forall bs >= 1, ops, tr,  c11_bvs_run bs [] ops = map Some tr -> c11_bv_run bs [] ops = map C11_ok tr
   i.e. every history of resize / clear / setAll / unsetAll / per-block set, reset, flip, assignment from bool, bitset or another
   block, &=, |=, ^=, <<=, >>= shows the blocks, count() and countmasked(j) of the list of std::bitset<bs>.
   Missing: the invariants of the per-bit loops (operator=(bitset), getRepr, set()/flip() loops), resize/concat and the counting lemmas.
   Proved: the addressing core every one of those loops is built from - reading / writing bit j of block i through the one
   flat vector<bool> reads / writes bit j of the i-th block and leaves all other blocks (and all block lengths) unchanged. *)
Theorem C11_bitset_addressing_partial :
  forall (bs : nat) (w : list (list bool)) (i j : nat) (b : list bool) (v : bool),
    c11_bv_wf bs w -> nth_error w i = Some b -> j < bs ->
    c11_bv_getBit bs (concat w) i j = C11_ok (nth j b false) /\
    c11_bv_setBit bs (concat w) i j v = C11_ok (concat (c11_set_nth w i (c11_set_nth b j v))) /\
    c11_bv_wf bs (c11_set_nth w i (c11_set_nth b j v)).
Proof. exact c11_bitset_addressing_lemma. Qed.
Print Assumptions C11_bitset_addressing_partial.

Example C11_bitset_addressing_nonvacuous :
  c11_bv_wf 3 [[true; false; true]; [false; false; false]] /\
  c11_bv_setBit 3 (concat [[true; false; true]; [false; false; false]]) 1 2 true = C11_ok [true; false; true; false; false; true].
Proof. split; [exact (c11_bv_wf_dec 3 [[true; false; true]; [false; false; false]] (eq_refl true)) | vm_compute; reflexivity]. Qed.

(* ---- refutations of the snapshot code (each witness is replayed on the implementation by checks/C11.py, corpus/C11) *)
Theorem C11_arraylist_snapshot_refuted :
  exists (N : nat) (ops : list (c11_al_op nat)),
    (forall o, In o (c11_als_run nat ([], None) ops) -> o <> None) /\
    ~ c11_agrees (c11_alo_run nat 0 N (c11_alo_empty nat, None) ops) (c11_als_run nat ([], None) ops).
Proof. exact c11_arraylist_snapshot_refuted_lemma. Qed.
Print Assumptions C11_arraylist_snapshot_refuted.

Theorem C11_sllist_selfassign_snapshot_refuted :
  exists ops : list (c11_sl_op nat),
    ~ c11_agrees (c11_sl_run nat 0 Nat.eqb false (c11_sl_empty nat 0, c11_sl_empty nat 0) ops) (c11_sls_run nat Nat.eqb ([], []) ops).
Proof. exact c11_sllist_selfassign_snapshot_refuted_lemma. Qed.
Print Assumptions C11_sllist_selfassign_snapshot_refuted.

Theorem C11_lru_insert_snapshot_refuted :
  exists ops : list (c11_lru_op nat),
    ~ c11_agrees (c11_lru_run nat false 1 (c11_lru_empty nat, LruVoid nat) ops) (c11_lrus_run nat 1 ([], LruVoid nat) ops).
Proof. exact c11_lru_insert_snapshot_refuted_lemma. Qed.
Print Assumptions C11_lru_insert_snapshot_refuted.
