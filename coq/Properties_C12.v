(* C12 property theorems: ONLY statements closed by `exact`, each followed by Print Assumptions. *)
From Coq Require Import List Ascii ZArith NArith Bool.
From DuneV Require Import C12_Model C12_Spec C12_Proofs.
Import ListNotations.

(* readINITree never loops: for all input bytes, trees and overwrite modes (fuel = #lines + 1) *)
Theorem C12_total : forall doc pt ow, c12_ir_status (c12_parse_ini doc pt ow) <> C12OutOfFuel.
Proof. exact c12_total. Qed.
Print Assumptions C12_total.
