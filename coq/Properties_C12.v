(* C12 property theorems: ONLY statements closed by `exact`, each followed by Print Assumptions. *)
From Coq Require Import List Ascii ZArith NArith Bool Sorted.
From DuneV Require Import Params_gen C12_Model C12_Spec C12_Proofs C12_Proofs_Int C12_Proofs_Tree C12_Proofs_Lex C12_Proofs_Frame C12_Proofs_Opt C12_Proofs_Order C12_Proofs_Api C12_Proofs_Seq C12_Proofs_Report C12_Proofs_Dbl C12_Proofs_Hash C12_Proofs_Argc.
Import ListNotations.
Local Open Scope char_scope.

(* The first argument of c12_parse_ini / c12_parse_ini_lines selects the comment search of readINITree:
   false = the code as found (line cut at its first '#', F-C12-3), true = with fixes/C12-3.patch.
   Every theorem below holds for both. *)

(* readINITree never loops: for all input bytes, trees and overwrite modes (fuel = #lines + 1) *)
Theorem C12_total : forall qhash doc pt ow, c12_ir_status (c12_parse_ini qhash doc pt ow) <> C12OutOfFuel.
Proof. exact c12_total. Qed.
Print Assumptions C12_total.

(* get<int>/get<long>: converts exactly  blank* [+-]? digit+ blank*  denoting a representable value,
   to that value; everything else (garbage, trailing text, overflow) is a RangeError *)
Theorem C12_int_exact : forall lo hi s,
  c12_parse_scalar (c12_extract_int true lo hi) s = c12_spec_int lo hi s.
Proof. exact c12_int_exact. Qed.
Print Assumptions C12_int_exact.
Example C12_int_exact_nonvacuous :
  c12_parse_scalar (c12_ity_extract C12Int) [" "; "-"; "4"; "2"; " "] = Some (-42)%Z /\
  c12_parse_scalar (c12_ity_extract C12Int) ["4"; "2"; "x"] = None /\
  c12_parse_scalar (c12_ity_extract C12Int) ["2";"1";"4";"7";"4";"8";"3";"6";"4";"8"] = None.
Proof. vm_compute. repeat split; reflexivity. Qed.

Theorem C12_bool_exact : forall s, c12_parse_bool s = c12_spec_bool s.
Proof. exact c12_bool_exact. Qed.
Print Assumptions C12_bool_exact.

Theorem C12_vector_exact : forall lo hi s,
  c12_parse_vector (c12_extract_int true lo hi) s = c12_all_some (c12_spec_int lo hi) (c12_spec_tokens_ws s).
Proof. exact c12_vector_exact_tokens. Qed.
Print Assumptions C12_vector_exact.

Theorem C12_bitset_exact : forall n s,
  c12_parse_bitset n s =
  (if Nat.eqb (length (c12_split s)) n then c12_all_some c12_spec_bool (c12_split s) else None).
Proof. exact c12_bitset_exact. Qed.
Print Assumptions C12_bitset_exact.

(* fixed-size ranges with the repaired surplus probe (fixes/C12-1.patch): exactly n items *)
Theorem C12_range_exact : forall lo hi n s vs,
  c12_parse_range true (c12_extract_int true lo hi) n s = Some vs <-> c12_spec_range_rel lo hi n s vs.
Proof. exact c12_range_exact_fixed. Qed.
Print Assumptions C12_range_exact.
Example C12_range_exact_nonvacuous :
  c12_parse_range true (c12_ity_extract C12Int) 3 ["1"; " "; "-"; "2"; " "; " "; "3"; " "] = Some [1; -2; 3]%Z.
Proof. vm_compute. reflexivity. Qed.

(* ... and the code as it stands is refuted: "1 2 3 -" is accepted as {1,2,3}  (F-C12-1) *)
Theorem C12_range_exact_refuted :
  exists s vs, c12_parse_range false (c12_ity_extract C12Int) 3 s = Some vs /\
               ~ c12_spec_range_rel (- 2 ^ 31) (2 ^ 31 - 1) 3 s vs.
Proof. exact c12_range_exact_asis_refuted. Qed.
Print Assumptions C12_range_exact_refuted.

(* C12_range_items (was _partial), full: EXACTLY what the probe as found (before commit 3e08a7e) accepted -- for any
   element extraction: n items and a rest on which one more extraction fails at the end of the text ... *)
Theorem C12_range_asfound_exact : forall A (ex : c12_str -> option A * c12_str * bool) n s vs,
  c12_parse_range false ex n s = Some vs <->
  exists rest, c12_range_items ex n s = Some (vs, rest) /\ fst (fst (ex rest)) = None /\ snd (ex rest) = true.
Proof. exact c12_range_asfound_exact. Qed.
Print Assumptions C12_range_asfound_exact.
(* ... and for integers the shape of that silently dropped rest: blanks followed by nothing, a lone sign, or an
   integer text whose value is not representable *)
Theorem C12_range_items : forall lo hi n s vs,
  c12_parse_range false (c12_extract_int true lo hi) n s = Some vs ->
  exists rest, c12_items_then lo hi n s vs rest /\ c12_dropped_tail lo hi rest.
Proof. exact c12_range_asfound_shape. Qed.
Print Assumptions C12_range_items.

(* ---------------------------------------------------------------- the tree *)

(* get(key, default): the default exactly when the key is absent; a present key is converted (or the
   conversion error raised), never replaced by the default *)
Theorem C12_default : forall (T : Type) (parse : c12_str -> option T) t p d,
  (c12_has_key t p = Some false -> c12_get_or parse t p d = Some d) /\
  (c12_has_key t p = Some true ->
     exists v, c12_lookup t p = Some v /\ c12_get_or parse t p d = parse v) /\
  (c12_has_key t p = None -> c12_get_or parse t p d = None).
Proof. exact c12_default. Qed.
Print Assumptions C12_default.

(* hasKey holds exactly when the const operator[] finds a value *)
Theorem C12_has_key_lookup : forall p t,
  c12_has_key t p = Some true <-> exists v, c12_lookup t p = Some v.
Proof. exact c12_has_key_lookup. Qed.
Print Assumptions C12_has_key_lookup.

(* frame: pt[p] = ... changes no observation (operator[], hasKey, hasSub) at any path unrelated to p *)
Theorem C12_frame : forall p q t f,
  c12_unrel p q = true -> c12_obs (fst (c12_upd t p f)) q = c12_obs t q.
Proof. exact c12_upd_frame. Qed.
Print Assumptions C12_frame.

(* ---------------------------------------------------------------- readINITree *)

(* C12_roundtrip: for every document of the documented dialect -- any layout of blanks, comment lines,
   trailing comments, [group] headers vs dotted keys, plain / quoted / multi-line quoted values -- every
   pre-existing tree and both overwrite modes, the line machine does exactly "store the written
   (full key, value) list in order"; groups and dotted keys denote the same full keys (c12_sdoc_assigns).
   Dialect restrictions (c12_sline_ok): keys non-empty, tight, without = # and not starting with [ ;
   header names without ] ; plain values tight, without #, not starting with a quote; quoted values:
   no # on their first line, and no line break directly after (quote, blanks) inside the value.
   Stated on line lists and on the bytes of the document. *)
Theorem C12_roundtrip : forall qhash ls pt ow,
  forallb c12_sline_ok ls = true ->
  c12_ts (c12_parse_ini_lines qhash (flat_map c12_render_sline ls) pt ow) = c12_store_all (c12_sdoc_assigns ls []) pt [] ow.
Proof. exact c12_roundtrip. Qed.
Print Assumptions C12_roundtrip.
Theorem C12_roundtrip_bytes : forall qhash ls pt ow,
  forallb c12_sline_ok ls = true ->
  forallb (c12_nochar "010") (flat_map c12_render_sline ls) = true ->
  c12_ts (c12_parse_ini qhash (c12_join_lines (flat_map c12_render_sline ls)) pt ow) =
  c12_store_all (c12_sdoc_assigns ls []) pt [] ow.
Proof. exact c12_roundtrip_bytes. Qed.
Print Assumptions C12_roundtrip_bytes.
Example C12_roundtrip_nonvacuous :
  let ls := [C12SComment [" "] ["c"]; C12SHeader [] [" "] ["g"] [] [" "; "#"];
             C12SAssign ["009"] ["a"; "."; "b"] [" "] [] ["1"; " "; "2"] [" "] ["#"; "x"]; C12SBlank [];
             C12SQuoted1 [] ["q"] [] [" "] "'" [" "; "x"; " "] [" "] ["#"];
             C12SQuotedN [] ["m"] [] [] """" ["u"] [["#"; "v"]] ["w"] [" "]] in
  forallb c12_sline_ok ls = true /\
  forallb (c12_nochar "010") (flat_map c12_render_sline ls) = true /\
  c12_sdoc_assigns ls [] = [(["g"; "."; "a"; "."; "b"], ["1"; " "; "2"]); (["g"; "."; "q"], [" "; "x"; " "]);
                            (["g"; "."; "m"], ["u"; "010"; "#"; "v"; "010"; "w"])] /\
  c12_lookup (c12_ir_tree (c12_parse_ini false (c12_join_lines (flat_map c12_render_sline ls)) c12_empty true)) [["g"]; ["m"]]
    = Some ["u"; "010"; "#"; "v"; "010"; "w"].
Proof. vm_compute. repeat split; reflexivity. Qed.

(* C12_values: storing a hierarchy (pairwise unrelated paths) whose keys are fresh succeeds; afterwards every
   key maps to exactly its written value, and every observation unrelated to the written keys -- in
   particular every pre-existing entry -- is as before.  Both overwrite modes.
   (Key ORDER -- getValueKeys/getSubKeys in order of first appearance -- is not part of this theorem:
   checked by the correspondence against c12_spec_value_keys/c12_spec_sub_keys only.) *)
Theorem C12_values : forall kvs t seen ow,
  c12_hierarchy (map (fun kv => c12_path (fst kv)) kvs) = true ->
  c12_keys_free kvs t seen ->
  exists t', c12_store_all kvs t seen ow = (t', C12Ok) /\
             (forall k v, In (k, v) kvs -> c12_lookup t' (c12_path k) = Some v) /\
             (forall q, (forall k v, In (k, v) kvs -> c12_unrel (c12_path k) q = true) -> c12_obs t' q = c12_obs t q).
Proof. exact c12_values. Qed.
Print Assumptions C12_values.
Theorem C12_values_from_empty : forall kvs, c12_keys_free kvs c12_empty [].
Proof. exact c12_keys_free_empty. Qed.
Print Assumptions C12_values_from_empty.

(* C12_duplicate: a key assigned twice in one source is rejected -- whatever the spelling (the full keys are
   equal), the tree, the overwrite mode, and whatever lies before, between and after *)
Theorem C12_duplicate : forall l1 k v1 l2 v2 l3 pt seen ow,
  snd (c12_store_all (l1 ++ (k, v1) :: l2 ++ (k, v2) :: l3) pt seen ow) <> C12Ok.
Proof. exact c12_duplicate. Qed.
Print Assumptions C12_duplicate.
Theorem C12_duplicate_is_parser_error : forall pt seen ow k v,
  existsb (c12_eqs k) seen = true -> snd (c12_store_all [(k, v)] pt seen ow) = C12ParserError.
Proof. exact c12_duplicate_status. Qed.
Print Assumptions C12_duplicate_is_parser_error.

(* C12_overwrite: overwrite = false keeps a present key untouched; otherwise the key maps to the written value *)
Theorem C12_overwrite : forall pt seen k v,
  existsb (c12_eqs k) seen = false ->
  (c12_has_key pt (c12_path k) = Some true -> c12_store pt seen false k v = inl (pt, k :: seen)) /\
  (forall ow, (ow = true \/ c12_has_key pt (c12_path k) = Some false) ->
     c12_has_sub pt (c12_path k) = Some false ->
     forall pt' seen', c12_store pt seen ow k v = inl (pt', seen') ->
     c12_lookup pt' (c12_path k) = Some v).
Proof. exact c12_overwrite. Qed.
Print Assumptions C12_overwrite.

(* ---------------------------------------------------------------- command line *)

(* readOptions maps  -k1 v1 -k2 v2 ...  to the assignments k_i := v_i, and reports a last option without value *)
Theorem C12_options_pairs : forall kvs pt,
  forallb (fun kv : c12_str * c12_str => negb (c12_is_nil (fst kv))) kvs = true ->
  c12_read_options (c12_render_options kvs) pt = c12_set_all kvs pt.
Proof. exact c12_options_pairs. Qed.
Print Assumptions C12_options_pairs.
Theorem C12_options_dangling : forall kvs k pt,
  forallb (fun kv : c12_str * c12_str => negb (c12_is_nil (fst kv))) kvs = true -> k <> [] ->
  c12_read_options (c12_render_options kvs ++ [("-" :: k)%char]) pt =
  (fst (c12_set_all kvs pt), match snd (c12_set_all kvs pt) with C12Ok => C12RangeError | st => st end).
Proof. exact c12_options_dangling. Qed.
Print Assumptions C12_options_dangling.

(* C12_options_positional, full statement: for ALL argument vectors, keyword lists, trees and flags readNamedOptions
   is the documented mapping c12_spec_read_named of C12_Spec.v: -h/--help is the help request; --name=value
   stores value under name ("value missing" without '=', "unknown parameter" if name is no keyword and more are not
   allowed); any other argument goes to the FIRST KEYWORD THAT HAS NOT RECEIVED A VALUE YET ("superfluous" if
   there is none) -- the code's advancing cursor is proved to be exactly that; storing fails with "already
   specified" when overwriting is not allowed and a non-empty value exists; finally each of the first
   `required` keywords must have received a value ("missing"). *)
Theorem C12_options_positional : forall args pt kw required am ow,
  c12_read_named_options args pt kw required am ow = c12_spec_read_named args pt kw required am ow.
Proof. exact c12_read_named_spec. Qed.
Print Assumptions C12_options_positional.
Example C12_options_positional_nonvacuous :
  c12_read_named_options [["-";"-";"b";"=";"2"]; ["x"]; ["y"]] c12_empty [["a"]; ["b"]; ["c"]] 3 false false
  = (fst (c12_set_all [(["b"],["2"]); (["a"],["x"]); (["c"],["y"])] c12_empty), C12Ok) /\
  snd (c12_read_named_options [["x"]; ["y"]] c12_empty [["a"]] 1 false true) = C12ParserError /\
  snd (c12_read_named_options [["-";"-";"z";"=";"1"]] c12_empty [["a"]] 0 false true) = C12ParserError /\
  snd (c12_read_named_options [["-";"-";"a";"=";"1"]; ["-";"-";"a";"=";"2"]] c12_empty [["a"]] 0 true false) = C12ParserError /\
  snd (c12_read_named_options [["-";"h"]] c12_empty [] 0 true true) = C12HelpRequest.
Proof. vm_compute. repeat split; reflexivity. Qed.

(* corollary: only positional arguments, overwrite allowed: keywords in order, "superfluous", "missing" *)
Theorem C12_options_positional_only : forall args kw required am pt,
  forallb c12_plain_arg args = true ->
  c12_read_named_options args pt kw required am true = c12_spec_named_positional args kw required pt.
Proof. exact c12_named_positional. Qed.
Print Assumptions C12_options_positional_only.

(* ---------------------------------------------------------------- F-C12-2 *)
(* "for all documents the line machine never evaluates *(rtrim(value).rbegin()) on an empty string" is refuted *)
Theorem C12_no_undefined_read_refuted :
  forall qhash, exists doc, c12_ir_ub (c12_parse_ini qhash doc c12_empty true) = true.
Proof. exact c12_undefined_read_reachable. Qed.
Print Assumptions C12_no_undefined_read_refuted.

(* ---------------------------------------------------------------- key order *)

(* C12_key_order: a source read into the empty tree (either overwrite mode): at EVERY node getValueKeys and
   getSubKeys are exactly the spec's lists -- the keys written directly below / further below that node, in
   order of first appearance *)
Theorem C12_key_order : forall kvs ow t' pr,
  c12_store_all kvs c12_empty [] ow = (t', C12Ok) ->
  let d := map (fun kv : c12_str * c12_str => (c12_path (fst kv), snd kv)) kvs in
  c12_vkeys t' pr = c12_spec_value_keys d pr /\ c12_skeys t' pr = c12_spec_sub_keys d pr.
Proof. exact c12_key_order. Qed.
Print Assumptions C12_key_order.
(* ... and into any pre-existing tree: the old key lists followed by the newly created keys in order of
   first appearance (c12_push l new = l ++ first occurrences of new that are not in l) *)
Theorem C12_key_order_any_tree : forall kvs t seen ow t' pr,
  c12_store_all kvs t seen ow = (t', C12Ok) ->
  c12_vkeys t' pr = c12_push (c12_vkeys t pr) (flat_map (fun kv => c12_vcand pr (c12_path (fst kv))) kvs) /\
  c12_skeys t' pr = c12_push (c12_skeys t pr) (flat_map (fun kv => c12_scand pr (c12_path (fst kv))) kvs).
Proof. exact c12_store_all_keys. Qed.
Print Assumptions C12_key_order_any_tree.
Example C12_key_order_nonvacuous :
  let kvs := [(["b";".";"x"],["1"]); (["a"],["2"]); (["b";".";"y"],["3"]); (["c";".";"d";".";"e"],[]); (["b";".";"x"],["4"])] in
  exists t', c12_store_all (firstn 4 kvs) c12_empty [] true = (t', C12Ok) /\
             c12_vkeys t' [] = [["a"]] /\ c12_skeys t' [] = [["b"]; ["c"]] /\ c12_vkeys t' [["b"]] = [["x"]; ["y"]].
Proof. eexists. vm_compute. repeat split; reflexivity. Qed.

(* ---------------------------------------------------------------- F-C12-3 *)
(* a '#' inside a quoted value: the code as found cuts the value there and swallows the following line;
   with fixes/C12-3.patch both keys map to their written values *)
Theorem C12_hash_in_quoted_refuted :
  let t := c12_ir_tree (c12_parse_ini false c12_hash_doc c12_empty true) in
  c12_lookup t [["x"]] <> Some ["a"; "#"; "b"] /\ c12_lookup t [["y"]] = None.
Proof. exact c12_hash_in_quoted_asfound. Qed.
Print Assumptions C12_hash_in_quoted_refuted.
Theorem C12_hash_in_quoted_repaired :
  let t := c12_ir_tree (c12_parse_ini true c12_hash_doc c12_empty true) in
  c12_lookup t [["x"]] = Some ["a"; "#"; "b"] /\ c12_lookup t [["y"]] = Some ["1"].
Proof. exact c12_hash_in_quoted_repaired. Qed.
Print Assumptions C12_hash_in_quoted_repaired.

(* ---------------------------------------------------------------- remaining public members (API audit) *)

(* non-const sub(key) that returns has created the subtree: hasSub(key) afterwards *)
Theorem C12_sub_creates : forall p t t', p <> [] -> c12_sub_mut t p = (t', true) -> c12_has_sub t' p = Some true.
Proof. exact c12_sub_mut_creates. Qed.
Print Assumptions C12_sub_creates.

(* const sub(key, fail_if_missing): where hasSub(key) holds it is the node at that path, whatever the flag;
   a missing last segment is the empty tree, or RangeError when the flag is set *)
Theorem C12_sub_const_node : forall p t fail, c12_has_sub t p = Some true -> c12_sub_const t p fail = Some (c12_node t p).
Proof. exact c12_sub_const_node. Qed.
Print Assumptions C12_sub_const_node.
Theorem C12_sub_const_missing : forall t k fail,
  c12_mem k (c12_vals t) = false -> c12_assoc k (c12_subs t) = None ->
  c12_sub_const t [k] fail = if fail then None else Some c12_empty.
Proof. exact c12_sub_const_missing. Qed.
Print Assumptions C12_sub_const_missing.

(* report(): every value entry of a node is listed as  key = "value" *)
Theorem C12_report_lists_values : forall t pfx k v,
  In (k, v) (c12_vals t) -> In (c12_value_line (k, v)) (c12_report_lines t pfx).
Proof. exact c12_report_lists_values. Qed.
Print Assumptions C12_report_lists_values.
Example C12_report_nonvacuous :
  c12_report_lines (fst (c12_set_all [(["b"; "."; "y"], ["2"]); (["a"], ["1"]); (["b"; "."; "x"], [])] c12_empty)) ["P"]
  = [["a"; " "; "="; " "; """"; "1"; """"]; ["["; " "; "P"; "b"; " "; "]"];
     ["x"; " "; "="; " "; """"; """"]; ["y"; " "; "="; " "; """"; "2"; """"]].
Proof. vm_compute. reflexivity. Qed.

(* Parser<double>: the modelled extraction returns the exact decimal of the literal (rounding is strtod's) *)
Example C12_double_nonvacuous :
  c12_parse_scalar c12_extract_double [" "; "-"; "1"; "."; "2"; "5"; "e"; "+"; "2"; " "] = Some (true, 125%Z, 0%Z) /\
  c12_parse_scalar c12_extract_double ["1"; "e"] = None /\
  c12_parse_scalar c12_extract_double ["."] = None /\
  c12_parse_range true c12_extract_double 2 ["."; "5"; " "; "2"; "."] = Some [(false, 5%Z, (-1)%Z); (false, 2%Z, 0%Z)].
Proof. vm_compute. repeat split; reflexivity. Qed.

(* ---------------------------------------------------------------- proof-deepening round *)

(* get<unsigned T>: exactly  blank* [+-]? digit+ blank*  with magnitude <= max; "-m" is 2^w - m (library wrap-around) *)
Theorem C12_uint_exact : forall lo hi s,
  c12_parse_scalar (c12_extract_int false lo hi) s = c12_spec_uint hi s.
Proof. exact c12_uint_exact. Qed.
Print Assumptions C12_uint_exact.
Example C12_uint_exact_nonvacuous :
  c12_parse_scalar (c12_ity_extract C12UInt) ["-"; "1"] = Some 4294967295%Z /\
  c12_parse_scalar (c12_ity_extract C12UInt) ["4";"2";"9";"4";"9";"6";"7";"2";"9";"6"] = None /\
  c12_parse_scalar (c12_ity_extract C12UShort) [" "; "6";"5";"5";"3";"5"; " "] = Some 65535%Z.
Proof. vm_compute. repeat split; reflexivity. Qed.

(* get<std::string> is total *)
Theorem C12_string_total : forall s, c12_parse_string s = c12_ltrim (c12_rtrim s).
Proof. exact c12_string_total. Qed.
Print Assumptions C12_string_total.

(* readOptions for EVERY argument vector: "-k v" pairs found by the left-to-right scan c12_options_scan (the value is
   the next argument whatever it looks like, other arguments are ignored), a final option without value and a
   value/subtree clash are RangeErrors *)
Theorem C12_options_all_argv : forall args pt, c12_read_options args pt = c12_spec_read_options args pt.
Proof. exact c12_read_options_spec. Qed.
Print Assumptions C12_options_all_argv.
Example C12_options_all_argv_nonvacuous :
  c12_options_scan [["x"]; ["-";"a"]; ["-";"b"]; ["-"]; ["y"]; ["-";"c"]] = ([(["a"], ["-";"b"])], true).
Proof. vm_compute. reflexivity. Qed.

(* overwrite flag over whole sources.  overwrite = false: a pre-existing entry q survives ANY source unchanged (all of
   hasKey/hasSub/operator[] at q), provided no key of the source is a proper prefix or extension of q *)
Theorem C12_overwrite_kept : forall kvs t seen t' q,
  c12_store_all kvs t seen false = (t', C12Ok) ->
  c12_has_key t q = Some true ->
  (forall k v, In (k, v) kvs -> c12_path k = q \/ c12_unrel (c12_path k) q = true) ->
  c12_obs t' q = c12_obs t q.
Proof. exact c12_overwrite_false_keeps. Qed.
Print Assumptions C12_overwrite_kept.
(* overwrite = true: a pre-existing entry that the source assigns holds the written value afterwards *)
Theorem C12_overwrite_replaced : forall l1 k v l2 t seen t',
  c12_store_all (l1 ++ (k, v) :: l2) t seen true = (t', C12Ok) ->
  c12_has_key t (c12_path k) = Some true ->
  (forall k' v', In (k', v') (l1 ++ l2) -> c12_unrel (c12_path k') (c12_path k) = true) ->
  c12_lookup t' (c12_path k) = Some v.
Proof. exact c12_overwrite_true_replaces. Qed.
Print Assumptions C12_overwrite_replaced.
(* unrelated assignments never disturb an observation, any number of them, either mode *)
Theorem C12_frame_source : forall kvs t seen ow t' q,
  c12_store_all kvs t seen ow = (t', C12Ok) ->
  (forall k v, In (k, v) kvs -> c12_unrel (c12_path k) q = true) ->
  c12_obs t' q = c12_obs t q.
Proof. exact c12_store_all_frame. Qed.
Print Assumptions C12_frame_source.
Example C12_overwrite_nonvacuous :
  let t := fst (c12_set_all [(["a"], ["0"]); (["g";".";"b"], ["1"])] c12_empty) in
  c12_lookup (fst (c12_store_all [(["c"], ["9"]); (["a"], ["7"])] t [] false)) [["a"]] = Some ["0"] /\
  c12_lookup (fst (c12_store_all [(["c"], ["9"]); (["a"], ["7"])] t [] true)) [["a"]] = Some ["7"].
Proof. vm_compute. split; reflexivity. Qed.

(* [prefix] groups and dotted keys denote the same hierarchy: two dialect documents denoting the same
   (full key, value) list are read to the same tree and status *)
Theorem C12_group_equals_dotted : forall qhash ls1 ls2 pt ow,
  forallb c12_sline_ok ls1 = true -> forallb c12_sline_ok ls2 = true ->
  c12_sdoc_assigns ls1 [] = c12_sdoc_assigns ls2 [] ->
  c12_ts (c12_parse_ini_lines qhash (flat_map c12_render_sline ls1) pt ow) =
  c12_ts (c12_parse_ini_lines qhash (flat_map c12_render_sline ls2) pt ow).
Proof. exact c12_group_equals_dotted. Qed.
Print Assumptions C12_group_equals_dotted.

(* report() read back by readINITree() into an empty tree: accepted, and every entry of the tree is there with
   its value.  Hypotheses (both decidable): every printed line is in the printable fragment (c12_rline_ok: keys
   non-empty, tight, without = # and not starting with [ ; header names without ] ; values without #), and the
   tree is a hierarchy (its reported entries are pairwise unrelated paths: no key twice, no key both value and
   subtree).
   _partial: the second hypothesis is an invariant of every tree built through operator[] / the parsers from a
   hierarchy, but it is not derived here from a structural well-formedness predicate of the tree; and the converse
   (nothing is added, apart from the key order which report() sorts) is not proved. *)
Theorem C12_report_roundtrip_partial : forall qhash t ow,
  forallb c12_rline_ok (c12_report_rlines t []) = true ->
  c12_hierarchy (map (fun kv : c12_str * c12_str => c12_path (fst kv)) (c12_rl_assigns (c12_report_rlines t []) [])) = true ->
  let r := c12_parse_ini_lines qhash (c12_report_lines t []) c12_empty ow in
  c12_ir_status r = C12Ok /\
  forall p v, p <> [] -> forallb c12_seg_ok p = true -> c12_lookup t p = Some v -> c12_lookup (c12_ir_tree r) p = Some v.
Proof. exact c12_report_roundtrip. Qed.
Print Assumptions C12_report_roundtrip_partial.
Example C12_report_roundtrip_nonvacuous :
  let t := fst (c12_set_all [(["b"; "."; "y"], ["2"; " "]); (["a"], ["1"]); (["b"; "."; "x"; "."; "z"], [])] c12_empty) in
  forallb c12_rline_ok (c12_report_rlines t []) = true /\
  c12_hierarchy (map (fun kv : c12_str * c12_str => c12_path (fst kv)) (c12_rl_assigns (c12_report_rlines t []) [])) = true /\
  c12_lookup (c12_ir_tree (c12_parse_ini_lines false (c12_report_lines t []) c12_empty true)) [["b"]; ["x"]; ["z"]] = Some [].
Proof. vm_compute. repeat split; reflexivity. Qed.

(* tie to the source text: the character sets and words of the model are re-read from the C++ files into
   coq/Params_gen.v on every run; this theorem (and every theorem above, re-checked against the regenerated file)
   fails if the source is edited to values the dialect is not written with *)
Theorem C12_source_constants :
  c12_param_comment = N_of_ascii "#" /\
  c12_param_quotes = [N_of_ascii "'"; N_of_ascii """"] /\
  c12_words c12_param_true_words = [["y"; "e"; "s"]; ["t"; "r"; "u"; "e"]] /\
  c12_words c12_param_false_words = [["n"; "o"]; ["f"; "a"; "l"; "s"; "e"]] /\
  c12_is_ws " " = true /\ c12_is_ws "009" = true /\
  forallb (fun c => negb (c12_is_ws c)) ["#"; "="; "["; "]"; "."; "'"; """"; "-"; "+"; "0"; "a"] = true.
Proof. exact c12_source_constants. Qed.
Print Assumptions C12_source_constants.

(* C12_double_exact (was C12_double_sound_partial): get<double> converts EXACTLY the texts  blank* literal blank*
   (c12_double_literal: sign? I [. F] [e|E sign? X], I ++ F and X non-empty), to exactly the decimal the literal
   denotes; everything else is a RangeError.  Rounding that decimal to binary64 (and overflow -> error) is strtod's:
   checked on every run against a correctly rounding conversion, not proved. *)
Theorem C12_double_exact : forall s d,
  c12_parse_scalar c12_extract_double s = Some d <->
  exists b lit b2, s = b ++ lit ++ b2 /\ forallb c12_is_space b = true /\ forallb c12_is_space b2 = true /\
                   c12_double_literal lit d.
Proof. exact c12_double_exact. Qed.
Print Assumptions C12_double_exact.
(* FieldVector<double,n> / array<double,n>: only n literals (optionally blank-preceded) followed by blanks convert.
   _partial: soundness half; which texts with items glued together ("1.5.5") convert is left to the correspondence *)
Theorem C12_range_sound_double_partial : forall n s vs,
  c12_parse_range true c12_extract_double n s = Some vs ->
  exists rest, c12_gitems c12_double_literal n s vs rest /\ forallb c12_is_space rest = true.
Proof. exact c12_range_sound_double. Qed.
Print Assumptions C12_range_sound_double_partial.

(* no key is listed twice by getValueKeys / getSubKeys of any node (source read into the empty tree) *)
Theorem C12_keys_unique : forall kvs ow t' pr,
  c12_store_all kvs c12_empty [] ow = (t', C12Ok) -> NoDup (c12_vkeys t' pr) /\ NoDup (c12_skeys t' pr).
Proof. exact c12_keys_unique. Qed.
Print Assumptions C12_keys_unique.

(* F-C12-3 repaired, for ALL lines: with fixes/C12-3.patch the line  b0 key b1 = b2 q l0 q b3 [# comment]  assigns
   exactly l0 -- whatever l0 contains, '#' included, as long as it does not contain its own quote character *)
Theorem C12_hash_in_quoted : forall fuel rest pt prefix seen ow ub b0 key b1 b2 q l0 b3 comment,
  c12_blankb b0 = true -> c12_blankb b1 = true -> c12_blankb b2 = true -> c12_blankb b3 = true ->
  c12_key_ok key = true -> c12_is_quote q = true -> c12_nochar q l0 = true -> c12_comment_ok comment = true ->
  c12_ts (c12_ini_loop true (S fuel) ((b0 ++ key ++ b1 ++ "=" :: b2 ++ (q :: l0 ++ q :: b3) ++ comment) :: rest) pt prefix seen ow ub) =
  match c12_store pt seen ow (prefix ++ key) l0 with
  | inl (pt', seen') => c12_ts (c12_ini_loop true fuel rest pt' prefix seen' ow ub)
  | inr e => e
  end.
Proof. exact c12_hash_in_quoted_step. Qed.
Print Assumptions C12_hash_in_quoted.

(* report() visits the values (and the subtrees) of a node in ascending byte-wise key order: the std::map order *)
Theorem C12_report_sorted : forall A (l : list (c12_str * A)), Sorted c12_key_le (c12_sort l).
Proof. exact c12_sort_sorted. Qed.
Print Assumptions C12_report_sorted.

(* a SUBTREE as receiver of a parser (`ParameterTree& s = pt.sub(p); readINITree(in, s)`): the node at p afterwards
   is what the parser made of the node sub(p) returned, with the parser's status *)
Theorem C12_subtree_as_receiver : forall S p t (f : c12_tree -> c12_tree * S) err,
  snd (c12_sub_mut t p) = true ->
  c12_node (fst (c12_in_sub t p f err)) p = fst (f (c12_node (fst (c12_sub_mut t p)) p)) /\
  snd (c12_in_sub t p f err) = snd (f (c12_node (fst (c12_sub_mut t p)) p)).
Proof. exact c12_in_sub_node. Qed.
Print Assumptions C12_subtree_as_receiver.

(* ------------------------------------------------------------------ dimension audit 2 *)

(* readOptions(argc, argv, pt) with the count made explicit (c12_read_options_n n argv: n = argc-1 counted arguments,
   argv = the entries up to the first NULL).  Under the C calling convention (argv[argc] == NULL) it is the
   function all other readOptions theorems speak about: for ALL argument vectors and trees *)
Theorem C12_options_argc_terminated : forall args pt,
  c12_read_options_n (length args) args pt = c12_read_options args pt.
Proof. exact c12_read_options_n_terminated. Qed.
Print Assumptions C12_options_argc_terminated.

(* an argv ARRAY LONGER THAN argc (any further entries `extra` behind the count): they are not looked at -- the
   result is that of the counted arguments alone -- unless the last counted argument is an option that lacks its
   value (c12_opts_dangling: the scan of C12_options_all_argv ends in an option) *)
Theorem C12_options_argc_oversized : forall args extra pt,
  c12_opts_dangling args = false ->
  c12_read_options_n (length args) (args ++ extra) pt = c12_read_options args pt.
Proof. exact c12_read_options_n_oversized. Qed.
Print Assumptions C12_options_argc_oversized.

Example C12_options_argc_oversized_nonvacuous :
  c12_opts_dangling [["-"; "a"]; ["1"]; ["x"]] = false /\
  c12_read_options_n 3 ([["-"; "a"]; ["1"]; ["x"]] ++ [["-"; "z"]; ["E"]]) c12_empty = (C12Node [(["a"], ["1"])] [], C12Ok).
Proof. vm_compute. split; reflexivity. Qed.

(* The excluded case is real in the code as it is (missing-value test  argv[i+1] == NULL  instead of  i+1 < argc):
   with one counted argument "-a" and a further entry behind the count, the entry is stored as the value of a
   instead of RangeError "last option on command line does not have an argument".  Whether an argument vector with
   argv[argc] != NULL belongs to the property's domain is left open (see mutants/C12/API_COVERAGE.md). *)
Example C12_options_argc_dangling_reads_behind_count :
  c12_opts_dangling [["-"; "a"]] = true /\
  c12_read_options [["-"; "a"]] c12_empty = (c12_empty, C12RangeError) /\
  c12_read_options_n 1 ([["-"; "a"]] ++ [["E"; "X"]]) c12_empty = (C12Node [(["a"], ["E"; "X"])] [], C12Ok).
Proof. vm_compute. repeat split; reflexivity. Qed.

(* with at least argc entries in the array the count is never overrun *)
Theorem C12_options_argc_total : forall n argv pt, n <= length argv ->
  snd (c12_read_options_n n argv pt) <> C12OutOfFuel.
Proof. exact c12_read_options_n_no_fuel. Qed.
Print Assumptions C12_options_argc_total.

(* ASSIGNMENT ONTO A TREE THAT HOLDS CONTENT (operator= by copy and swap, c12_tree_assign): for ALL previous contents
   of the target and ALL sources -- a subtree of the target and a tree containing the target included, the copy is
   taken first -- the target afterwards IS the source: every hasKey / hasSub / operator[] / report() / key list
   answers as the source does, nothing of the previous content survives; the previous content is what is destroyed *)
Theorem C12_assign_onto_content : forall target src p pfx,
  let t' := fst (c12_tree_assign target src) in
  c12_has_key t' p = c12_has_key src p /\ c12_has_sub t' p = c12_has_sub src p /\
  c12_lookup t' p = c12_lookup src p /\ c12_report_lines t' pfx = c12_report_lines src pfx /\
  c12_vals t' = c12_vals src /\ c12_subs t' = c12_subs src.
Proof. exact c12_tree_assign_observations. Qed.
Print Assumptions C12_assign_onto_content.

Theorem C12_assign_swaps : forall target src,
  fst (c12_tree_assign target src) = src /\ snd (c12_tree_assign target src) = target.
Proof. exact c12_tree_assign_replaces. Qed.
Print Assumptions C12_assign_swaps.

Example C12_assign_onto_content_nonvacuous :
  let target := C12Node [(["j"], ["1"]); (["a"], ["o"])] [(["o"], C12Node [(["k"], ["2"])] [])] in
  let src := C12Node [(["a"], ["n"])] [(["g"], C12Node [(["k"], ["v"])] [])] in
  c12_has_key target [["j"]] = Some true /\ c12_has_key (fst (c12_tree_assign target src)) [["j"]] = Some false /\
  c12_has_sub (fst (c12_tree_assign target src)) [["o"]] = Some false /\
  c12_lookup (fst (c12_tree_assign target src)) [["a"]] = Some ["n"] /\
  c12_lookup (fst (c12_tree_assign target (C12Node [(["k"], ["2"])] []))) [["k"]] = Some ["2"].
Proof. vm_compute. repeat split; reflexivity. Qed.
