(* C13 — property theorems.  ONLY statements, each closed by `exact <lemma>` and followed by Print Assumptions.
   Model: C13_Model.v (list-level transcription of IndicesSyncer::sync of dune/common/parallel/indicessyncer.hh,
   ParallelIndexSet::endResize/merge and repairLocalIndexPointers); c13_fixed = the code after fixes/C13-1.patch and
   fixes/C13-2.patch, c13_asis = the tree as it is.  Spec: C13_Spec.v.
   Quantification: every world (any number of ranks, any index sets and remote lists satisfying the stated
   well-formedness), every rank, every numberer, EVERY processing order `order` of the incoming messages (any list of
   sources, hence fixed order, every arrival order and every message schedule), no bound on sizes. *)
From Coq Require Import List NArith Bool Sorted.
From DuneV Require Import C13_Model C13_Spec C13_Proofs C13_Proofs_Recv C13_Proofs_Sync C13_Proofs_Repair C13_Proofs_Completion C13_Proofs_Sound C13_Proofs_Iset C13_Proofs_Restore C13_Proofs_Witness C13_Proofs_Examples.
Import ListNotations.
Local Open Scope N_scope.

(* proc_ok pr: index set ordered by (global, attribute); neighbour map strictly ordered by rank; every remote list
   ordered by the key of its local pair and duplicate-free; every remote entry refers to a pair of the set.
   In_rmap m q e: e is an entry of the list m holds for neighbour q.  has_key l k: l holds a pair with key k. *)

(* C13_sorted_valid (lists and references) + C13_monotone, for every rank and every processing order:
   after sync the index set is ordered, every remote list is ordered and duplicate-free, every entry refers to an
   existing pair of the re-sorted set, and nothing known before (pairs with their local numbers and flags, remote
   entries with their attributes) is lost or altered. *)
Theorem C13_sorted_valid_monotone : forall numb w r order iset' ri' ptrs,
  proc_ok (c13_proc_of w r) ->
  c13_sync_rank c13_fixed numb w r order = C13Ok iset' ri' ptrs ->
  isorted iset' /\ rmap_wf ri' /\
  (forall q e, In_rmap ri' q e -> has_key iset' (fst e)) /\
  (forall p, In p (c13_iset (c13_proc_of w r)) -> In p iset') /\
  (forall q e, In_rmap (c13_ri (c13_proc_of w r)) q e -> In_rmap ri' q e).
Proof. exact P_rank_sorted_valid_monotone. Qed.
Print Assumptions C13_sorted_valid_monotone.

(* C13_sorted_valid (pointer repair): repairLocalIndexPointers is a total function on the states sync produces: for
   every neighbour list with strictly increasing keys the forward scan terminates without leaving the index set (no
   C13PastEnd, no C13OutOfFuel, the wrap-around is never taken) and every entry ends up pointing to the pair with its key.
   ptr_to iset key k: position k of iset holds a pair with that key. *)
Theorem C13_repair_total : forall numb w r order iset' ri' ptrs,
  proc_ok (c13_proc_of w r) ->
  c13_sync_rank c13_fixed numb w r order = C13Ok iset' ri' ptrs ->
  forall q l, In (q, l) ri' -> strict_keys l ->
  exists ps, In (q, C13Ptrs ps) ptrs /\ Forall2 (fun e k => ptr_to iset' (fst e) k) l ps.
Proof. exact P_rank_repair. Qed.
Print Assumptions C13_repair_total.

(* ... and the keys ARE strictly increasing whenever the attributes recorded in a list are a function of the global
   index (every process holds a global index under one attribute: attl on this rank, attr on the neighbour) *)
Theorem C13_strict_keys_when_one_copy_per_rank : forall (attl attr : N -> N) l,
  rlist_wf l -> (forall e, In e l -> snd (fst e) = attl (fst (fst e)) /\ snd e = attr (fst (fst e))) -> strict_keys l.
Proof. exact wf_agree_strict. Qed.
Print Assumptions C13_strict_keys_when_one_copy_per_rank.

(* without strict keys the repair is NOT total (DESIGN section 5 remark, confirmed and sharpened): two entries for a pair
   with fewer than two pairs behind it dereference end(); with two or more pairs behind it the wrap-around finds the pair *)
Theorem C13_repair_last_pair_twice_refuted :
  c13_repair_list 10 [C13Pair 3 1 0 true; C13Pair 5 1 1 true] [((5, 1), 2); ((5, 1), 3)] 0 = C13PastEnd /\
  c13_repair_list 10 [C13Pair 3 1 0 true; C13Pair 5 1 1 true; C13Pair 6 1 2 true] [((5, 1), 2); ((5, 1), 3)] 0 = C13PastEnd /\
  c13_repair_list 10 [C13Pair 3 1 0 true; C13Pair 5 1 1 true; C13Pair 6 1 2 true; C13Pair 7 1 3 true] [((5, 1), 2); ((5, 1), 3)] 0 = C13Ptrs [1%nat; 1%nat].
Proof. exact W_repair_last_pair_twice. Qed.
Print Assumptions C13_repair_last_pair_twice_refuted.

(* C13_completion (main).  sender_ok pr: one copy per global index in pr's set and in each of its neighbour lists (strictly
   increasing global indices), neighbour map strictly ordered, every entry refers to a pair of the set.  eg e = the global
   index of entry e.  For every p, every neighbour q of p and every entry e = ((g, la), b) of p's list for q ("p believed
   g present on q with attribute b"), after sync on q -- for EVERY processing order in which q handles p's message --
   q holds (g, b); q's list for p records ((g, b), la); and for every other holder r <> q of g that p knew (entry e' in
   p's list for r) q's list for r records ((g, b), attribute of g on r). *)
Theorem C13_completion : forall numb w p q order iset' ri' ptrs l e,
  sender_ok (c13_proc_of w p) -> proc_ok (c13_proc_of w q) ->
  In (q, l) (c13_ri (c13_proc_of w p)) -> In e l -> In p order ->
  c13_sync_rank c13_fixed numb w q order = C13Ok iset' ri' ptrs ->
  has_key iset' (eg e, snd e) /\
  In_rmap ri' p ((eg e, snd e), snd (fst e)) /\
  forall r lr e', In (r, lr) (c13_ri (c13_proc_of w p)) -> r <> q -> In e' lr -> eg e' = eg e ->
    In_rmap ri' r ((eg e, snd e), snd e').
Proof. exact P_completion. Qed.
Print Assumptions C13_completion.

(* the message really is what the literal double loop of packAndSend produces: one publication per local pair whose
   global index the destination is believed to hold, listing every neighbour whose list holds that global index *)
Theorem C13_pack_is_comprehension : forall dest pr, sglob (c13_iset pr) ->
  c13_pack dest (c13_iset pr) (c13_ri pr) = flat_map (pub_of dest (c13_ri pr)) (c13_iset pr).
Proof. exact pack_all. Qed.
Print Assumptions C13_pack_is_comprehension.

(* C13_sorted_valid (index set): the re-sorted index set is again STRICTLY ordered by (global, attribute) -- no pair
   twice, although recvAndUnpack searches only the part of the old set behind `index`: the search is exact because
   every message lists its publications by ascending global index (sglob: the senders' sets hold one copy per global
   index) -- and every new pair is public and carries the number the numberer returned. *)
Theorem C13_index_set_strict : forall numb w r order iset' ri' ptrs,
  istrict (c13_iset (c13_proc_of w r)) -> (forall q, sglob (c13_iset (c13_proc_of w q))) ->
  c13_sync_rank c13_fixed numb w r order = C13Ok iset' ri' ptrs ->
  istrict iset' /\
  forall p, In p iset' -> In p (c13_iset (c13_proc_of w r)) \/ (c13_p p = true /\ c13_l p = numb (c13_g p)).
Proof. exact P_rank_iset_strict. Qed.
Print Assumptions C13_index_set_strict.

(* nothing is invented (holds for BOTH variants of the model): an entry present after sync was present before or is
   what a publication received from a processed source says (published: key (g, my attribute in that publication),
   remote attribute as published, under the publishing process or a third holder it listed) *)
Theorem C13_no_junk : forall v numb w r order iset' ri' ptrs,
  c13_sync_rank v numb w r order = C13Ok iset' ri' ptrs ->
  forall q e, In_rmap ri' q e ->
    In_rmap (c13_ri (c13_proc_of w r)) q e \/
    exists src pb, In src order /\ In pb (c13_message w src r) /\ published r src pb q e.
Proof. exact P_rank_no_junk. Qed.
Print Assumptions C13_no_junk.

(* C13_restore -- FULL STATEMENT (not proved):
     let W be the world rebuild produces for a decomposition with one copy per (rank, global); delete at each rank a set
     of non-owner copies with their remote entries to get W'; if every deleted copy is still listed by another rank then
     for every sigma   c13_sync c13_fixed numb W' sigma = W   up to the local numbers of the re-added pairs.
   PROVED below (C13_restore_partial), for every rank q, every neighbour p that still lists a copy e of q, every order in
   which q handles p's message: the copy is back exactly once (strict order of the set) with the recorded attribute,
   public, numbered by the numberer; its remote entries for p and for every other holder p knows are back; no old pair or
   entry is lost or altered; every entry present afterwards is an old one or a published fact; lists stay well formed.
   MISSING for the full statement: (a) that every published fact is an entry of W (needs the description of W as the
   pairwise intersection of the public copies, i.e. C04's theorem, not available to this slice) and (b) the assembly
   "same members + strictly ordered => equal lists".  The full statement is evaluated by the oracle on every generated
   case (c13_restore_pre / c13_restore_b on the impl's dump; see C13_fixed_restores_third_party for an instance).
   C13_order_independent -- FULL STATEMENT (not proved): for permutations o1 o2 of the old neighbours,
     c13_sync_rank c13_fixed numb w r o1 = c13_sync_rank c13_fixed numb w r o2.
   All theorems of this file hold for EVERY order, so every stated post-condition is order independent; equality of the
   two states needs the same assembly (b).  The driver evaluates it on every generated case (field oi). *)
Theorem C13_restore_partial : forall numb w p q order iset' ri' ptrs l e,
  sender_ok (c13_proc_of w p) -> proc_ok (c13_proc_of w q) ->
  istrict (c13_iset (c13_proc_of w q)) -> (forall s, sglob (c13_iset (c13_proc_of w s))) ->
  In (q, l) (c13_ri (c13_proc_of w p)) -> In e l -> In p order ->
  c13_sync_rank c13_fixed numb w q order = C13Ok iset' ri' ptrs ->
  (exists ip, In ip iset' /\ c13_keyof ip = (eg e, snd e) /\
              (In ip (c13_iset (c13_proc_of w q)) \/ (c13_p ip = true /\ c13_l ip = numb (c13_g ip)))) /\
  istrict iset' /\
  In_rmap ri' p ((eg e, snd e), snd (fst e)) /\
  (forall r lr e', In (r, lr) (c13_ri (c13_proc_of w p)) -> r <> q -> In e' lr -> eg e' = eg e ->
     In_rmap ri' r ((eg e, snd e), snd e')) /\
  (forall x, In x (c13_iset (c13_proc_of w q)) -> In x iset') /\
  (forall s x, In_rmap (c13_ri (c13_proc_of w q)) s x -> In_rmap ri' s x) /\
  (forall s x, In_rmap ri' s x -> In_rmap (c13_ri (c13_proc_of w q)) s x \/
      exists src pb, In src order /\ In pb (c13_message w src q) /\ published q src pb s x) /\
  rmap_wf ri'.
Proof. exact P_restore_partial. Qed.
Print Assumptions C13_restore_partial.

(* C13_synced: the model declares the remote indices in sync after every completed sync (constant in
   c13_obs_of_result); on the implementation isSynced() is part of every dump and checked by the oracle. *)

(* The tree as it is: the full statement is false.  Witness 1 (corpus/C13 line 1): sync on an untouched consistent
   two-rank owner/overlap decomposition duplicates remote entries and the pointer repair dereferences end(). *)
Theorem C13_sorted_valid_asis_refuted :
  exists w numb sigma, forallb c13_proc_ok_b w = true /\ c13_all_ok (c13_sync c13_asis numb w sigma) = false /\
    exists r iset ri q, nth_error (c13_sync c13_asis numb w sigma) r = Some (C13Ok iset ri [(q, C13PastEnd)]).
Proof. exact W_asis_sorted_valid_refuted. Qed.
Print Assumptions C13_sorted_valid_asis_refuted.

(* Witness 2 (corpus/C13 line 3): an index published by two neighbours is added twice. *)
Theorem C13_index_set_asis_refuted :
  exists w numb sigma r iset ri ptrs, forallb c13_proc_ok_b w = true /\
    nth_error (c13_sync c13_asis numb w sigma) r = Some (C13Ok iset ri ptrs) /\ c13_iset_ok iset = false.
Proof. exact W_asis_index_added_twice. Qed.
Print Assumptions C13_index_set_asis_refuted.

(* non-vacuity: the repaired model on the witness worlds; a restore through third-party knowledge, both orders *)
Example C13_fixed_on_witness_1 : c13_all_ok (c13_sync c13_fixed c13_numb0 c13_w1 (c13_fixed_order c13_w1)) = true /\
  map c13_proc_of_obs (c13_obs_list (c13_sync c13_fixed c13_numb0 c13_w1 (c13_fixed_order c13_w1))) = c13_w1.
Proof. exact W_fixed_w1. Qed.
Example C13_fixed_restores_third_party :
  forallb c13_proc_ok_b c13_w4 = true /\
  c13_restore_pre (c13_in_obs c13_w4_orig) (c13_in_obs c13_w4) = true /\
  map c13_proc_of_obs (c13_obs_list (c13_sync c13_fixed c13_numb0 c13_w4 (c13_fixed_order c13_w4))) = c13_w4_orig /\
  map c13_proc_of_obs (c13_obs_list (c13_sync c13_fixed c13_numb0 c13_w4 (fun r => rev (c13_fixed_order c13_w4 r)))) = c13_w4_orig /\
  c13_completion_b (c13_in_obs c13_w4) (c13_obs_list (c13_sync c13_fixed c13_numb0 c13_w4 (c13_fixed_order c13_w4))) = true.
Proof. exact W_fixed_w4_restores. Qed.

(* the hypotheses of C13_sorted_valid_monotone / C13_repair_total / C13_completion hold of a non-trivial world
   (three ranks, third-party knowledge, rank 2 has deleted its copy of global 7 with its remote entries) *)
Example C13_hypotheses_satisfiable :
  sender_ok (c13_proc_of c13_w4 0) /\ proc_ok (c13_proc_of c13_w4 2) /\ proc_ok (c13_proc_of c13_w4 1).
Proof. exact W_hyps_satisfiable. Qed.
