(* C13 — property theorems.  ONLY statements, each closed by `exact <lemma>` and followed by Print Assumptions.
   Model: C13_Model.v (list-level transcription of IndicesSyncer::sync of dune/common/parallel/indicessyncer.hh,
   ParallelIndexSet::endResize/merge and repairLocalIndexPointers); c13_fixed = the code after fixes/C13-1.patch and
   fixes/C13-2.patch, c13_asis = the tree as it is.  Spec: C13_Spec.v.
   Quantification: every world (any number of ranks, any index sets and remote lists satisfying the stated
   well-formedness), every rank, every numberer, EVERY processing order `order` of the incoming messages (any list of
   sources, hence fixed order, every arrival order and every message schedule), no bound on sizes. *)
From Coq Require Import List NArith Bool Sorted.
From DuneV Require Import C13_Model C13_Spec C13_Proofs C13_Proofs_Recv C13_Proofs_Sync C13_Proofs_Repair C13_Proofs_Completion C13_Proofs_Sound C13_Proofs_Iset C13_Proofs_Restore C13_Proofs_Char C13_Proofs_Order C13_Proofs_RestoreFull
  C13_Proofs_Witness C13_Proofs_Examples C13_Proofs_Examples2.
Import ListNotations.
Local Open Scope N_scope.

(* proc_ok pr: index set ordered by (global, attribute); neighbour map strictly ordered by rank; every remote list
   ordered by the key of its local pair and duplicate-free; every remote entry refers to a pair of the set.
   In_rmap m q e: e is an entry of the list m holds for neighbour q.  has_key l k: l holds a pair with key k. *)

(* C13_sorted_valid (lists and references) + C13_monotone, for every rank and every processing order:
   after sync the index set is ordered, every remote list is ordered and duplicate-free, every entry refers to an
   existing pair of the re-sorted set, and nothing known before (pairs with their local numbers and flags, remote
   entries with their attributes) is lost or altered. *)
Theorem C13_sorted_valid_monotone : forall numb w r order iset' ri' ptrs,
  proc_ok (c13_proc_of w r) ->
  c13_sync_rank c13_fixed numb w r order = C13Ok iset' ri' ptrs ->
  isorted iset' /\ rmap_wf ri' /\
  (forall q e, In_rmap ri' q e -> has_key iset' (fst e)) /\
  (forall p, In p (c13_iset (c13_proc_of w r)) -> In p iset') /\
  (forall q e, In_rmap (c13_ri (c13_proc_of w r)) q e -> In_rmap ri' q e).
Proof. exact P_rank_sorted_valid_monotone. Qed.
Print Assumptions C13_sorted_valid_monotone.

(* C13_sorted_valid (pointer repair): repairLocalIndexPointers is a total function on the states sync produces: for
   every neighbour list with strictly increasing keys the forward scan terminates without leaving the index set (no
   C13PastEnd, no C13OutOfFuel, the wrap-around is never taken) and every entry ends up pointing to the pair with its key.
   ptr_to iset key k: position k of iset holds a pair with that key. *)
Theorem C13_repair_total : forall numb w r order iset' ri' ptrs,
  proc_ok (c13_proc_of w r) ->
  c13_sync_rank c13_fixed numb w r order = C13Ok iset' ri' ptrs ->
  forall q l, In (q, l) ri' -> strict_keys l ->
  exists ps, In (q, C13Ptrs ps) ptrs /\ Forall2 (fun e k => ptr_to iset' (fst e) k) l ps.
Proof. exact P_rank_repair. Qed.
Print Assumptions C13_repair_total.

(* ... and the keys ARE strictly increasing whenever the attributes recorded in a list are a function of the global
   index (every process holds a global index under one attribute: attl on this rank, attr on the neighbour) *)
Theorem C13_strict_keys_when_one_copy_per_rank : forall (attl attr : N -> N) l,
  rlist_wf l -> (forall e, In e l -> snd (fst e) = attl (fst (fst e)) /\ snd e = attr (fst (fst e))) -> strict_keys l.
Proof. exact wf_agree_strict. Qed.
Print Assumptions C13_strict_keys_when_one_copy_per_rank.

(* without strict keys the repair is NOT total (DESIGN section 5 remark, confirmed and sharpened): two entries for a pair
   with fewer than two pairs behind it dereference end(); with two or more pairs behind it the wrap-around finds the pair *)
Theorem C13_repair_last_pair_twice_refuted :
  c13_repair_list 10 [C13Pair 3 1 0 true; C13Pair 5 1 1 true] [((5, 1), 2); ((5, 1), 3)] 0 = C13PastEnd /\
  c13_repair_list 10 [C13Pair 3 1 0 true; C13Pair 5 1 1 true; C13Pair 6 1 2 true] [((5, 1), 2); ((5, 1), 3)] 0 = C13PastEnd /\
  c13_repair_list 10 [C13Pair 3 1 0 true; C13Pair 5 1 1 true; C13Pair 6 1 2 true; C13Pair 7 1 3 true] [((5, 1), 2); ((5, 1), 3)] 0 = C13Ptrs [1%nat; 1%nat].
Proof. exact W_repair_last_pair_twice. Qed.
Print Assumptions C13_repair_last_pair_twice_refuted.

(* C13_completion (main).  sender_ok pr: one copy per global index in pr's set and in each of its neighbour lists (strictly
   increasing global indices), neighbour map strictly ordered, every entry refers to a pair of the set.  eg e = the global
   index of entry e.  For every p, every neighbour q of p and every entry e = ((g, la), b) of p's list for q ("p believed
   g present on q with attribute b"), after sync on q -- for EVERY processing order in which q handles p's message --
   q holds (g, b); q's list for p records ((g, b), la); and for every other holder r <> q of g that p knew (entry e' in
   p's list for r) q's list for r records ((g, b), attribute of g on r). *)
Theorem C13_completion : forall numb w p q order iset' ri' ptrs l e,
  sender_ok (c13_proc_of w p) -> proc_ok (c13_proc_of w q) ->
  In (q, l) (c13_ri (c13_proc_of w p)) -> In e l -> In p order ->
  c13_sync_rank c13_fixed numb w q order = C13Ok iset' ri' ptrs ->
  has_key iset' (eg e, snd e) /\
  In_rmap ri' p ((eg e, snd e), snd (fst e)) /\
  forall r lr e', In (r, lr) (c13_ri (c13_proc_of w p)) -> r <> q -> In e' lr -> eg e' = eg e ->
    In_rmap ri' r ((eg e, snd e), snd e').
Proof. exact P_completion. Qed.
Print Assumptions C13_completion.

(* the message really is what the literal double loop of packAndSend produces: one publication per local pair whose
   global index the destination is believed to hold, listing every neighbour whose list holds that global index *)
Theorem C13_pack_is_comprehension : forall dest pr, sglob (c13_iset pr) ->
  c13_pack dest (c13_iset pr) (c13_ri pr) = flat_map (pub_of dest (c13_ri pr)) (c13_iset pr).
Proof. exact pack_all. Qed.
Print Assumptions C13_pack_is_comprehension.

(* C13_sorted_valid (index set): the re-sorted index set is again STRICTLY ordered by (global, attribute) -- no pair
   twice, although recvAndUnpack searches only the part of the old set behind `index`: the search is exact because
   every message lists its publications by ascending global index (sglob: the senders' sets hold one copy per global
   index) -- and every new pair is public and carries the number the numberer returned. *)
Theorem C13_index_set_strict : forall numb w r order iset' ri' ptrs,
  istrict (c13_iset (c13_proc_of w r)) -> (forall q, sglob (c13_iset (c13_proc_of w q))) ->
  c13_sync_rank c13_fixed numb w r order = C13Ok iset' ri' ptrs ->
  istrict iset' /\
  forall p, In p iset' -> In p (c13_iset (c13_proc_of w r)) \/ (c13_p p = true /\ c13_l p = numb (c13_g p)).
Proof. exact P_rank_iset_strict. Qed.
Print Assumptions C13_index_set_strict.

(* nothing is invented (holds for BOTH variants of the model): an entry present after sync was present before or is
   what a publication received from a processed source says (published: key (g, my attribute in that publication),
   remote attribute as published, under the publishing process or a third holder it listed) *)
Theorem C13_no_junk : forall v numb w r order iset' ri' ptrs,
  c13_sync_rank v numb w r order = C13Ok iset' ri' ptrs ->
  forall q e, In_rmap ri' q e ->
    In_rmap (c13_ri (c13_proc_of w r)) q e \/
    exists src pb, In src order /\ In pb (c13_message w src r) /\ published r src pb q e.
Proof. exact P_rank_no_junk. Qed.
Print Assumptions C13_no_junk.

(* C13_order_independent: the state after sync does not depend on the order in which the incoming messages are
   processed (useFixedOrder or any arrival order / message schedule): for any two orders with the same members the whole
   result -- index set, remote lists, repaired pointers -- is EQUAL.
   agree_entries att r m: local / remote attributes of all entries of m are those of the attribute function att (one
   copy per (rank, global)); senders_ok: every processed sender satisfies sender_ok and agrees with att. *)
Theorem C13_order_independent : forall numb w r att,
  proc_ok (c13_proc_of w r) -> istrict (c13_iset (c13_proc_of w r)) ->
  (forall q, sglob (c13_iset (c13_proc_of w q))) ->
  agree_entries att r (c13_ri (c13_proc_of w r)) ->
  forall o1 o2, (forall q, In q o1 <-> In q o2) -> senders_ok w att o1 ->
  c13_sync_rank c13_fixed numb w r o1 = c13_sync_rank c13_fixed numb w r o2.
Proof. exact P_order_independent. Qed.
Print Assumptions C13_order_independent.

(* C13_restore (full).  consistent W: W is what rebuild produces for a decomposition with one copy per (rank, global) --
   every rank's set strictly ordered by global index, neighbour map strictly ordered, a list under q exactly when
   non-empty, and  ((g, la), ra) in W[p].ri[q]  <->  p <> q /\ p holds a public copy (g, la) /\ q holds a public copy
   (g, ra)   (the pairwise intersection of C04_spec / eqs. ri_s_set of the documentation).
   deleted W W' D: every rank p dropped the copies with D p g = true together with ALL their remote entries (lists are
   kept even when empty, as RemoteIndexListModifier leaves them).  D is arbitrary: the theorem does not even need the
   deleted copies to be non-owner copies; what it needs is still_listed: every deleted copy is still listed by some
   other rank.  Then for every rank p, every numberer and EVERY processing order of p's old neighbours, sync returns
   exactly W[p]'s remote lists and W[p]'s index set in which only the re-added pairs are renumbered by the numberer
   (renum) -- i.e. W itself when the numberer returns the old numbers -- and every pointer is repaired. *)
Theorem C13_restore : forall W W' D numb p order,
  consistent W -> deleted W W' D -> still_listed W W' D ->
  (forall s, In s order <-> In s (map fst (c13_ri (c13_proc_of W p)))) ->
  exists ptrs,
    c13_sync_rank c13_fixed numb W' p order =
      C13Ok (map (renum numb (D p)) (c13_iset (c13_proc_of W p))) (c13_ri (c13_proc_of W p)) ptrs /\
    forall q l, In (q, l) (c13_ri (c13_proc_of W p)) ->
      exists ps, In (q, C13Ptrs ps) ptrs /\
        Forall2 (fun e k => ptr_to (map (renum numb (D p)) (c13_iset (c13_proc_of W p))) (fst e) k) l ps.
Proof. exact P_restore. Qed.
Print Assumptions C13_restore.

(* sync is idle on a consistent world (the second of two consecutive syncs changes nothing, asks the numberer for nothing);
   with restricted neighbour hints / forgotten neighbours / hand-grown pairs a further round MAY still spread knowledge *)
Theorem C13_sync_idempotent : forall W numb p order, consistent W ->
  (forall s, In s order <-> In s (map fst (c13_ri (c13_proc_of W p)))) ->
  exists ptrs, c13_sync_rank c13_fixed numb W p order = C13Ok (c13_iset (c13_proc_of W p)) (c13_ri (c13_proc_of W p)) ptrs.
Proof. exact P_sync_idempotent. Qed.
Print Assumptions C13_sync_idempotent.

(* (kept from the first round) the local form of restore for one neighbour p that still lists one copy of q, under
   the weaker per-rank hypotheses; subsumed by C13_restore for consistent worlds *)
Theorem C13_restore_partial : forall numb w p q order iset' ri' ptrs l e,
  sender_ok (c13_proc_of w p) -> proc_ok (c13_proc_of w q) ->
  istrict (c13_iset (c13_proc_of w q)) -> (forall s, sglob (c13_iset (c13_proc_of w s))) ->
  In (q, l) (c13_ri (c13_proc_of w p)) -> In e l -> In p order ->
  c13_sync_rank c13_fixed numb w q order = C13Ok iset' ri' ptrs ->
  (exists ip, In ip iset' /\ c13_keyof ip = (eg e, snd e) /\
              (In ip (c13_iset (c13_proc_of w q)) \/ (c13_p ip = true /\ c13_l ip = numb (c13_g ip)))) /\
  istrict iset' /\
  In_rmap ri' p ((eg e, snd e), snd (fst e)) /\
  (forall r lr e', In (r, lr) (c13_ri (c13_proc_of w p)) -> r <> q -> In e' lr -> eg e' = eg e ->
     In_rmap ri' r ((eg e, snd e), snd e')) /\
  (forall x, In x (c13_iset (c13_proc_of w q)) -> In x iset') /\
  (forall s x, In_rmap (c13_ri (c13_proc_of w q)) s x -> In_rmap ri' s x) /\
  (forall s x, In_rmap ri' s x -> In_rmap (c13_ri (c13_proc_of w q)) s x \/
      exists src pb, In src order /\ In pb (c13_message w src q) /\ published q src pb s x) /\
  rmap_wf ri'.
Proof. exact P_restore_partial. Qed.
Print Assumptions C13_restore_partial.

(* C13_synced: the model declares the remote indices in sync after every completed sync (constant in
   c13_obs_of_result); on the implementation isSynced() is part of every dump and checked by the oracle. *)

(* The tree as it is: the full statement is false.  Witness 1 (corpus/C13 line 1): sync on an untouched consistent
   two-rank owner/overlap decomposition duplicates remote entries and the pointer repair dereferences end(). *)
Theorem C13_sorted_valid_asis_refuted :
  exists w numb sigma, forallb c13_proc_ok_b w = true /\ c13_all_ok (c13_sync c13_asis numb w sigma) = false /\
    exists r iset ri q, nth_error (c13_sync c13_asis numb w sigma) r = Some (C13Ok iset ri [(q, C13PastEnd)]).
Proof. exact W_asis_sorted_valid_refuted. Qed.
Print Assumptions C13_sorted_valid_asis_refuted.

(* Witness 2 (corpus/C13 line 3): an index published by two neighbours is added twice. *)
Theorem C13_index_set_asis_refuted :
  exists w numb sigma r iset ri ptrs, forallb c13_proc_ok_b w = true /\
    nth_error (c13_sync c13_asis numb w sigma) r = Some (C13Ok iset ri ptrs) /\ c13_iset_ok iset = false.
Proof. exact W_asis_index_added_twice. Qed.
Print Assumptions C13_index_set_asis_refuted.

(* non-vacuity: the repaired model on the witness worlds; a restore through third-party knowledge, both orders *)
Example C13_fixed_on_witness_1 : c13_all_ok (c13_sync c13_fixed c13_numb0 c13_w1 (c13_fixed_order c13_w1)) = true /\
  map c13_proc_of_obs (c13_obs_list (c13_sync c13_fixed c13_numb0 c13_w1 (c13_fixed_order c13_w1))) = c13_w1.
Proof. exact W_fixed_w1. Qed.
Example C13_fixed_restores_third_party :
  forallb c13_proc_ok_b c13_w4 = true /\
  c13_restore_pre (c13_in_obs c13_w4_orig) (c13_in_obs c13_w4) = true /\
  map c13_proc_of_obs (c13_obs_list (c13_sync c13_fixed c13_numb0 c13_w4 (c13_fixed_order c13_w4))) = c13_w4_orig /\
  map c13_proc_of_obs (c13_obs_list (c13_sync c13_fixed c13_numb0 c13_w4 (fun r => rev (c13_fixed_order c13_w4 r)))) = c13_w4_orig /\
  c13_completion_b (c13_in_obs c13_w4) (c13_obs_list (c13_sync c13_fixed c13_numb0 c13_w4 (c13_fixed_order c13_w4))) = true.
Proof. exact W_fixed_w4_restores. Qed.

(* the hypotheses of C13_sorted_valid_monotone / C13_repair_total / C13_completion hold of a non-trivial world
   (three ranks, third-party knowledge, rank 2 has deleted its copy of global 7 with its remote entries) *)
Example C13_hypotheses_satisfiable :
  sender_ok (c13_proc_of c13_w4 0) /\ proc_ok (c13_proc_of c13_w4 2) /\ proc_ok (c13_proc_of c13_w4 1).
Proof. exact W_hyps_satisfiable. Qed.

(* the hypotheses of C13_restore (and of C13_order_independent) hold of a concrete world: global 5 owner on rank 0, overlap
   on rank 1; rank 1 deletes its copy with its remote entry; rank 0 still lists it; and the conclusion computed *)
Example C13_restore_hypotheses_satisfiable :
  consistent c13_x2 /\ deleted c13_x2 c13_x2' c13_d2 /\ still_listed c13_x2 c13_x2' c13_d2 /\
  c13_sync_rank c13_fixed (fun g => 100 + g) c13_x2' 1 [0] = C13Ok [C13Pair 5 2 105 true] [(0, [((5, 2), 1)])] [(0, C13Ptrs [0%nat])].
Proof. exact (conj x2_consistent (conj x2_deleted (conj x2_still_listed x2_restored))). Qed.
