(* C13 — property theorems.  ONLY statements, each closed by `exact <lemma>` and followed by Print Assumptions.
   Model: C13_Model.v (list-level transcription of IndicesSyncer::sync of dune/common/parallel/indicessyncer.hh,
   ParallelIndexSet::endResize/merge and repairLocalIndexPointers); c13_fixed = the code after fixes/C13-1.patch and
   fixes/C13-2.patch, c13_asis = the tree as it is.  Spec: C13_Spec.v.
   Quantification: every world (any number of ranks, any index sets and remote lists satisfying the stated
   well-formedness), every rank, every numberer, EVERY processing order `order` of the incoming messages (any list of
   sources, hence fixed order, every arrival order and every message schedule), no bound on sizes. *)
From Coq Require Import List NArith Bool Sorted.
From DuneV Require Import Params_gen C13_Model C13_Spec C13_Proofs C13_Proofs_Recv C13_Proofs_Sync C13_Proofs_Repair C13_Proofs_Completion C13_Proofs_Sound C13_Proofs_Iset C13_Proofs_Restore C13_Proofs_Char C13_Proofs_Order C13_Proofs_RestoreFull
  C13_Proofs_World C13_Proofs_Loops C13_Proofs_Modifier C13_Proofs_Twice C13_Proofs_Witness C13_Proofs_Examples C13_Proofs_Examples2 C13_Proofs_History.
Import ListNotations.
Local Open Scope N_scope.

(* proc_ok pr: index set ordered by (global, attribute); neighbour map strictly ordered by rank; every remote list
   ordered by the key of its local pair and duplicate-free; every remote entry refers to a pair of the set.
   In_rmap m q e: e is an entry of the list m holds for neighbour q.  has_key l k: l holds a pair with key k. *)

(* C13_sorted_valid (lists and references) + C13_monotone, for every rank and every processing order:
   after sync the index set is ordered, every remote list is ordered and duplicate-free, every entry refers to an
   existing pair of the re-sorted set, and nothing known before (pairs with their local numbers and flags, remote
   entries with their attributes) is lost or altered. *)
Theorem C13_sorted_valid_monotone : forall numb w r order iset' ri' ptrs,
  proc_ok (c13_proc_of w r) ->
  c13_sync_rank c13_fixed numb w r order = C13Ok iset' ri' ptrs ->
  isorted iset' /\ rmap_wf ri' /\
  (forall q e, In_rmap ri' q e -> has_key iset' (fst e)) /\
  (forall p, In p (c13_iset (c13_proc_of w r)) -> In p iset') /\
  (forall q e, In_rmap (c13_ri (c13_proc_of w r)) q e -> In_rmap ri' q e).
Proof. exact P_rank_sorted_valid_monotone. Qed.
Print Assumptions C13_sorted_valid_monotone.

(* C13_sorted_valid (pointer repair): repairLocalIndexPointers is a total function on the states sync produces: for
   every neighbour list with strictly increasing keys the forward scan terminates without leaving the index set (no
   C13PastEnd, no C13OutOfFuel, the wrap-around is never taken) and every entry ends up pointing to the pair with its key.
   ptr_to iset key k: position k of iset holds a pair with that key. *)
Theorem C13_repair_total : forall numb w r order iset' ri' ptrs,
  proc_ok (c13_proc_of w r) ->
  c13_sync_rank c13_fixed numb w r order = C13Ok iset' ri' ptrs ->
  forall q l, In (q, l) ri' -> strict_keys l ->
  exists ps, In (q, C13Ptrs ps) ptrs /\ Forall2 (fun e k => ptr_to iset' (fst e) k) l ps.
Proof. exact P_rank_repair. Qed.
Print Assumptions C13_repair_total.

(* ... and the keys ARE strictly increasing whenever the attributes recorded in a list are a function of the global
   index (every process holds a global index under one attribute: attl on this rank, attr on the neighbour) *)
Theorem C13_strict_keys_when_one_copy_per_rank : forall (attl attr : N -> N) l,
  rlist_wf l -> (forall e, In e l -> snd (fst e) = attl (fst (fst e)) /\ snd e = attr (fst (fst e))) -> strict_keys l.
Proof. exact wf_agree_strict. Qed.
Print Assumptions C13_strict_keys_when_one_copy_per_rank.

(* without strict keys the repair is NOT total (DESIGN section 5 remark, confirmed and sharpened): two entries for a pair
   with fewer than two pairs behind it dereference end(); with two or more pairs behind it the wrap-around finds the pair *)
Theorem C13_repair_last_pair_twice_refuted :
  c13_repair_list 10 [C13Pair 3 1 0 true; C13Pair 5 1 1 true] [((5, 1), 2); ((5, 1), 3)] 0 = C13PastEnd /\
  c13_repair_list 10 [C13Pair 3 1 0 true; C13Pair 5 1 1 true; C13Pair 6 1 2 true] [((5, 1), 2); ((5, 1), 3)] 0 = C13PastEnd /\
  c13_repair_list 10 [C13Pair 3 1 0 true; C13Pair 5 1 1 true; C13Pair 6 1 2 true; C13Pair 7 1 3 true] [((5, 1), 2); ((5, 1), 3)] 0 = C13Ptrs [1%nat; 1%nat].
Proof. exact W_repair_last_pair_twice. Qed.
Print Assumptions C13_repair_last_pair_twice_refuted.

(* C13_completion (main).  sender_ok pr: one copy per global index in pr's set and in each of its neighbour lists (strictly
   increasing global indices), neighbour map strictly ordered, every entry refers to a pair of the set.  eg e = the global
   index of entry e.  For every p, every neighbour q of p and every entry e = ((g, la), b) of p's list for q ("p believed
   g present on q with attribute b"), after sync on q -- for EVERY processing order in which q handles p's message --
   q holds (g, b); q's list for p records ((g, b), la); and for every other holder r <> q of g that p knew (entry e' in
   p's list for r) q's list for r records ((g, b), attribute of g on r). *)
Theorem C13_completion : forall numb w p q order iset' ri' ptrs l e,
  sender_ok (c13_proc_of w p) -> proc_ok (c13_proc_of w q) ->
  In (q, l) (c13_ri (c13_proc_of w p)) -> In e l -> In p order ->
  c13_sync_rank c13_fixed numb w q order = C13Ok iset' ri' ptrs ->
  has_key iset' (eg e, snd e) /\
  In_rmap ri' p ((eg e, snd e), snd (fst e)) /\
  forall r lr e', In (r, lr) (c13_ri (c13_proc_of w p)) -> r <> q -> In e' lr -> eg e' = eg e ->
    In_rmap ri' r ((eg e, snd e), snd e').
Proof. exact P_completion. Qed.
Print Assumptions C13_completion.

(* the message really is what the literal double loop of packAndSend produces: one publication per local pair whose
   global index the destination is believed to hold, listing every neighbour whose list holds that global index *)
Theorem C13_pack_is_comprehension : forall dest pr, sglob (c13_iset pr) ->
  c13_pack dest (c13_iset pr) (c13_ri pr) = flat_map (pub_of dest (c13_ri pr)) (c13_iset pr).
Proof. exact pack_all. Qed.
Print Assumptions C13_pack_is_comprehension.

(* C13_sorted_valid (index set): the re-sorted index set is again STRICTLY ordered by (global, attribute) -- no pair
   twice, although recvAndUnpack searches only the part of the old set behind `index`: the search is exact because
   every message lists its publications by ascending global index (sglob: the senders' sets hold one copy per global
   index) -- and every new pair is public and carries the number the numberer returned. *)
Theorem C13_index_set_strict : forall numb w r order iset' ri' ptrs,
  istrict (c13_iset (c13_proc_of w r)) -> (forall q, sglob (c13_iset (c13_proc_of w q))) ->
  c13_sync_rank c13_fixed numb w r order = C13Ok iset' ri' ptrs ->
  istrict iset' /\
  forall p, In p iset' -> In p (c13_iset (c13_proc_of w r)) \/ (c13_p p = true /\ c13_l p = numb (c13_g p)).
Proof. exact P_rank_iset_strict. Qed.
Print Assumptions C13_index_set_strict.

(* nothing is invented (holds for BOTH variants of the model): an entry present after sync was present before or is
   what a publication received from a processed source says (published: key (g, my attribute in that publication),
   remote attribute as published, under the publishing process or a third holder it listed) *)
Theorem C13_no_junk : forall v numb w r order iset' ri' ptrs,
  c13_sync_rank v numb w r order = C13Ok iset' ri' ptrs ->
  forall q e, In_rmap ri' q e ->
    In_rmap (c13_ri (c13_proc_of w r)) q e \/
    exists src pb, In src order /\ In pb (c13_message w src r) /\ published r src pb q e.
Proof. exact P_rank_no_junk. Qed.
Print Assumptions C13_no_junk.

(* C13_order_independent: the state after sync does not depend on the order in which the incoming messages are
   processed (useFixedOrder or any arrival order / message schedule): for any two orders with the same members the whole
   result -- index set, remote lists, repaired pointers -- is EQUAL.
   agree_entries att r m: local / remote attributes of all entries of m are those of the attribute function att (one
   copy per (rank, global)); senders_ok: every processed sender satisfies sender_ok and agrees with att. *)
Theorem C13_order_independent : forall numb w r att,
  proc_ok (c13_proc_of w r) -> istrict (c13_iset (c13_proc_of w r)) ->
  (forall q, sglob (c13_iset (c13_proc_of w q))) ->
  agree_entries att r (c13_ri (c13_proc_of w r)) ->
  forall o1 o2, (forall q, In q o1 <-> In q o2) -> senders_ok w att o1 ->
  c13_sync_rank c13_fixed numb w r o1 = c13_sync_rank c13_fixed numb w r o2.
Proof. exact P_order_independent. Qed.
Print Assumptions C13_order_independent.

(* C13_restore (full).  consistent W: W is what rebuild produces for a decomposition with one copy per (rank, global) --
   every rank's set strictly ordered by global index, neighbour map strictly ordered, a list under q exactly when
   non-empty, and  ((g, la), ra) in W[p].ri[q]  <->  p <> q /\ p holds a public copy (g, la) /\ q holds a public copy
   (g, ra)   (the pairwise intersection of C04_spec / eqs. ri_s_set of the documentation).
   deleted W W' D: every rank p dropped the copies with D p g = true together with ALL their remote entries (lists are
   kept even when empty, as RemoteIndexListModifier leaves them).  D is arbitrary: the theorem does not even need the
   deleted copies to be non-owner copies; what it needs is still_listed: every deleted copy is still listed by some
   other rank.  Then for every rank p, every numberer and EVERY processing order of p's old neighbours, sync returns
   exactly W[p]'s remote lists and W[p]'s index set in which only the re-added pairs are renumbered by the numberer
   (renum) -- i.e. W itself when the numberer returns the old numbers -- and every pointer is repaired. *)
Theorem C13_restore : forall W W' D numb p order,
  consistent W -> deleted W W' D -> still_listed W W' D ->
  (forall s, In s order <-> In s (map fst (c13_ri (c13_proc_of W p)))) ->
  exists ptrs,
    c13_sync_rank c13_fixed numb W' p order =
      C13Ok (map (renum numb (D p)) (c13_iset (c13_proc_of W p))) (c13_ri (c13_proc_of W p)) ptrs /\
    forall q l, In (q, l) (c13_ri (c13_proc_of W p)) ->
      exists ps, In (q, C13Ptrs ps) ptrs /\
        Forall2 (fun e k => ptr_to (map (renum numb (D p)) (c13_iset (c13_proc_of W p))) (fst e) k) l ps.
Proof. exact P_restore. Qed.
Print Assumptions C13_restore.

(* sync is idle on a consistent world (the second of two consecutive syncs changes nothing, asks the numberer for nothing);
   with restricted neighbour hints / forgotten neighbours / hand-grown pairs a further round MAY still spread knowledge *)
Theorem C13_sync_idempotent : forall W numb p order, consistent W ->
  (forall s, In s order <-> In s (map fst (c13_ri (c13_proc_of W p)))) ->
  exists ptrs, c13_sync_rank c13_fixed numb W p order = C13Ok (c13_iset (c13_proc_of W p)) (c13_ri (c13_proc_of W p)) ptrs.
Proof. exact P_sync_idempotent. Qed.
Print Assumptions C13_sync_idempotent.

(* ===================================================================== round "proof deepening"
   C13_synced: isSynced() afterwards -- the sequence numbers, literally: endResize increments the set's seqNo,
   repairLocalIndexPointers and the last statement of sync copy it into sourceSeqNo_/destSeqNo_. *)
Theorem C13_synced : forall s, c13_is_synced (c13_sync_seq s) = true.
Proof. exact P_synced. Qed.
Print Assumptions C13_synced.
(* (the harness observes Y 0 after a deletion through getModifier: the modifier declares the lists in sync BEFORE the resize) *)
Theorem C13_modifier_then_resize_is_not_synced : forall s, c13_is_synced (c13_end_resize_seq (c13_get_modifier_seq s)) = false.
Proof. exact P_modifier_then_resize_not_synced. Qed.
Print Assumptions C13_modifier_then_resize_is_not_synced.

(* the tie to the source (coq/Params_gen.v is regenerated from indicessyncer.hh on every run): the variant of the model the
   CURRENT source is, is the repaired one the theorems are about; send / probe / receive use one tag; both add sites create
   public pairs; DefaultNumberer returns numeric_limits<size_t>::max() *)
Theorem C13_source_is_the_repaired_variant : c13_tree = c13_fixed.
Proof. exact P_tree_is_fixed. Qed.
Print Assumptions C13_source_is_the_repaired_variant.
Theorem C13_source_constants :
  (c13_param_tag_send = c13_param_tag_probe /\ c13_param_tag_send = c13_param_tag_recv) /\
  (c13_param_added_public = true /\ c13_param_added_public_second_site = true) /\
  (forall g, c13_param_default_is_size_max = true /\ c13_default_numberer g = 2 ^ 64 - 1).
Proof. exact (conj P_tags_agree (conj P_added_public P_default_numberer)). Qed.
Print Assumptions C13_source_constants.

(* WHOLE WORLD, any process count, any neighbour graph.  world_ok w: every rank satisfies sender_ok and the neighbour relation
   is symmetric; sigma_ok w sigma: sigma r is ANY arrangement of r's old neighbours (useFixedOrder or any arrival order).
   The collective sync never blocks (no C13Deadlock) and every rank gets: strictly ordered index set, well-formed lists with
   valid references, nothing lost, new pairs public and numbered by the rank's numberer. *)
Theorem C13_world_sync : forall numb w sigma r, world_ok w -> sigma_ok w sigma -> (r < length w)%nat ->
  exists iset' ri' ptrs,
    nth_error (c13_sync c13_fixed numb w sigma) r = Some (C13Ok iset' ri' ptrs) /\
    istrict iset' /\ rmap_wf ri' /\
    (forall q e, In_rmap ri' q e -> has_key iset' (fst e)) /\
    (forall p, In p (c13_iset (c13_proc_of w (N.of_nat r))) -> In p iset') /\
    (forall q e, In_rmap (c13_ri (c13_proc_of w (N.of_nat r))) q e -> In_rmap ri' q e) /\
    (forall p, In p iset' -> In p (c13_iset (c13_proc_of w (N.of_nat r))) \/
                             (c13_p p = true /\ c13_l p = numb (N.of_nat r) (c13_g p))).
Proof. exact P_world_sync. Qed.
Print Assumptions C13_world_sync.

(* C13_completion for the whole world (first sentence of the property): for EVERY process p, neighbour q and entry e of p's
   list for q, after the collective sync q holds the pair, lists p, and lists every other holder p knew (third parties). *)
Theorem C13_world_completion : forall numb w sigma p q l e, world_ok w -> sigma_ok w sigma -> (q < length w)%nat ->
  In (N.of_nat q, l) (c13_ri (c13_proc_of w p)) -> In e l ->
  exists iset' ri' ptrs,
    nth_error (c13_sync c13_fixed numb w sigma) q = Some (C13Ok iset' ri' ptrs) /\
    has_key iset' (eg e, snd e) /\
    In_rmap ri' p ((eg e, snd e), snd (fst e)) /\
    forall r lr e', In (r, lr) (c13_ri (c13_proc_of w p)) -> r <> N.of_nat q -> In e' lr -> eg e' = eg e ->
      In_rmap ri' r ((eg e, snd e), snd e').
Proof. exact P_world_completion. Qed.
Print Assumptions C13_world_completion.

(* C13_order_independent for the whole world: useFixedOrder on some ranks, arbitrary arrival orders on others -- same world *)
Theorem C13_world_order_independent : forall numb w att sigma1 sigma2,
  (forall r, sender_ok (c13_proc_of w r) /\ agree_proc att r (c13_proc_of w r)) ->
  (forall r q, In q (sigma1 r) <-> In q (sigma2 r)) ->
  c13_sync c13_fixed numb w sigma1 = c13_sync c13_fixed numb w sigma2.
Proof. exact P_world_order_independent. Qed.
Print Assumptions C13_world_order_independent.

Theorem C13_world_restore : forall W W' D numb sigma p, consistent W -> deleted W W' D -> still_listed W W' D ->
  (forall r s, In s (sigma r) <-> In s (map fst (c13_ri (c13_proc_of W r)))) -> length W' = length W -> (p < length W)%nat ->
  exists ptrs,
    nth_error (c13_sync c13_fixed numb W' sigma) p =
      Some (C13Ok (map (renum (numb (N.of_nat p)) (D (N.of_nat p))) (c13_iset (c13_proc_of W (N.of_nat p))))
                  (c13_ri (c13_proc_of W (N.of_nat p))) ptrs).
Proof. exact P_world_restore. Qed.
Print Assumptions C13_world_restore.

(* valid references for EVERY list (the strict_keys hypothesis of C13_repair_total is established by the code under the
   one-copy-per-rank agreement: proved, not assumed) *)
Theorem C13_all_pointers_repaired : forall numb w r att order iset' ri' ptrs,
  proc_ok (c13_proc_of w r) -> istrict (c13_iset (c13_proc_of w r)) ->
  (forall q, sglob (c13_iset (c13_proc_of w q))) ->
  agree_entries att r (c13_ri (c13_proc_of w r)) -> senders_ok w att order ->
  c13_sync_rank c13_fixed numb w r order = C13Ok iset' ri' ptrs ->
  forall q l, In (q, l) ri' ->
    exists ps, In (q, C13Ptrs ps) ptrs /\ Forall2 (fun e k => ptr_to iset' (fst e) k) l ps.
Proof. exact P_rank_pointers. Qed.
Print Assumptions C13_all_pointers_repaired.

(* closure: the hypotheses the theorems make about the input (sender_ok, agreement with the attribute function) hold again
   of the state after sync -- they are an invariant of sequences of syncs, established by the code, not only assumed; this
   also covers worlds with partial knowledge (restricted hints, forgotten neighbours, hand-grown pairs) where one sync is not
   yet a fixpoint *)
Theorem C13_invariant_preserved : forall numb w r att order iset' ri' ptrs,
  proc_ok (c13_proc_of w r) -> istrict (c13_iset (c13_proc_of w r)) ->
  (forall q, sglob (c13_iset (c13_proc_of w q))) ->
  agree_proc att r (c13_proc_of w r) -> senders_ok w att order ->
  c13_sync_rank c13_fixed numb w r order = C13Ok iset' ri' ptrs ->
  sender_ok (C13Proc iset' ri') /\ agree_proc att r (C13Proc iset' ri').
Proof. exact P_rank_closure. Qed.
Print Assumptions C13_invariant_preserved.

(* the user-supplied numberer: it is asked exactly when a pair is appended to newIndices_ (c13_add), so its call sequence is
   map c13_g rs_added; C13_index_set_strict says every appended key is new and appended once; within ONE message the calls
   come for ascending global indices, as the documentation of sync(numberer) promises (any variant of the model) *)
Theorem C13_numberer_called_ascending_per_message : forall v rank_ numb source msg idx st, msg_sorted msg ->
  exists blk, rs_added (snd (fold_left (c13_unpack_one v rank_ numb source) msg (idx, st))) = rs_added st ++ blk /\
              StronglySorted gle blk /\ (forall x, In x blk -> exists pb, In pb msg /\ c13_g x = pb_g pb).
Proof. exact receive_calls_ascending. Qed.
Print Assumptions C13_numberer_called_ascending_per_message.
Theorem C13_messages_ascending : forall dest pr, sglob (c13_iset pr) -> msg_sorted (c13_pack dest (c13_iset pr) (c13_ri pr)).
Proof. exact pack_sorted. Qed.
Print Assumptions C13_messages_ascending.

(* calculateMessageSizes (collective iterator) announces exactly the number of publications packAndSend packs: the
   assert(published == infoSend_[destination].publish) of the code, and the count the receiver loops over *)
Theorem C13_publish_count : forall dest pr, sender_ok pr ->
  c13_calc_publish dest (c13_iset pr) (c13_ri pr) = length (c13_pack dest (c13_iset pr) (c13_ri pr)).
Proof. exact P_publish_count. Qed.
Print Assumptions C13_publish_count.

(* insertIntoRemoteIndexList on the iterator tuple (remote list, globalMap_ list, oldMap_ list walked in parallel): the three
   lists stay aligned, the insertion happens at the same position in all three with isOld = false, and the zipped view is the
   list-level insertion all other theorems speak about (both variants) *)
Theorem C13_tuple_insert_refines : forall v key ra rl gl bl, length rl = length gl -> length bl = length gl ->
  let t := c13_tuple_insert v key ra rl gl bl in
  c13_tuple_view t = c13_list_insert v key ra (combine gl rl) /\
  length (fst (fst t)) = length (snd (fst t)) /\ length (snd t) = length (snd (fst t)) /\
  (t = (rl, gl, bl) \/
   exists n, inserted_at n ra rl (fst (fst t)) /\ inserted_at n key gl (snd (fst t)) /\ inserted_at n false bl (snd t)).
Proof. exact P_tuple_insert_refines. Qed.
Print Assumptions C13_tuple_insert_refines.

(* RemoteIndexListModifier<T,A,true>, literal loops: remove = filter, hence the property's deletion (del_proc) is what the
   modifier calls produce; insert keeps the order; its repairLocalIndexPointers (after fix 1d43834) is total and exact *)
Theorem C13_modifier_remove_is_filter : forall gs rl, lglob rl ->
  c13_mod_remove_all gs rl = filter (fun e => negb (existsb (N.eqb (eg e)) gs)) rl.
Proof. exact P_mod_remove_all_filter. Qed.
Print Assumptions C13_modifier_remove_is_filter.
Theorem C13_deletion_is_modifier_removal : forall Dl pr, (forall q l, In (q, l) (c13_ri pr) -> lglob l) ->
  c13_ri (del_proc (fun g => existsb (N.eqb g) Dl) pr) = map (fun x => (fst x, c13_mod_remove_all Dl (snd x))) (c13_ri pr).
Proof. exact P_del_proc_is_modifier. Qed.
Print Assumptions C13_deletion_is_modifier_removal.
Theorem C13_modifier_insert_ordered : forall e rl, lglob rl -> (forall x, In x rl -> eg x <> eg e) ->
  let r := c13_mod_insert e (eg e) rl (map eg rl) in
  lglob (fst r) /\ snd r = map eg (fst r) /\ (forall x, In x (fst r) <-> x = e \/ In x rl).
Proof. exact P_mod_insert_ordered. Qed.
Print Assumptions C13_modifier_insert_ordered.
Theorem C13_modifier_repair_total : forall iset, gsorted iset -> forall gl pos,
  StronglySorted N.le gl -> (forall g, In g gl -> exists p, In p iset /\ c13_g p = g) ->
  (forall g j pj, In g gl -> (j < pos)%nat -> nth_error iset j = Some pj -> c13_g pj < g) ->
  exists ks, c13_mod_repair iset gl pos = Some ks /\
             Forall2 (fun g k => exists p, nth_error iset k = Some p /\ c13_g p = g) gl ks.
Proof. exact P_mod_repair_total. Qed.
Print Assumptions C13_modifier_repair_total.

(* a second sync on the fixed code: the world a restoring sync produces is again consistent (also the renumbered, re-added
   pairs: a deleted copy that is still listed was public), so a second sync -- other numberer, other order -- is idle *)
Theorem C13_restored_world_consistent : forall W W' W2 D numb,
  consistent W -> deleted W W' D -> still_listed W W' D -> is_restored W W2 D numb -> consistent W2.
Proof. exact P_restored_consistent. Qed.
Print Assumptions C13_restored_world_consistent.
(* object history "sync, resize, rebuild": a consistent world is determined by its index sets, so a rebuild on the synced sets
   (which yields a consistent world: C04_spec) returns exactly the remote lists sync left (observed by the harness, hist=1) *)
Theorem C13_consistent_world_determined_by_index_sets : forall W1 W2, consistent W1 -> consistent W2 ->
  (forall p, c13_iset (c13_proc_of W1 p) = c13_iset (c13_proc_of W2 p)) ->
  forall p, c13_ri (c13_proc_of W1 p) = c13_ri (c13_proc_of W2 p).
Proof. exact P_consistent_unique. Qed.
Print Assumptions C13_consistent_world_determined_by_index_sets.

Theorem C13_restore_then_second_sync_idle : forall W W' W2 D numb numb2 p order order2,
  consistent W -> deleted W W' D -> still_listed W W' D -> is_restored W W2 D numb ->
  (forall s, In s order <-> In s (map fst (c13_ri (c13_proc_of W p)))) ->
  (forall s, In s order2 <-> In s (map fst (c13_ri (c13_proc_of W p)))) ->
  (exists ptrs, c13_sync_rank c13_fixed (numb p) W' p order =
                C13Ok (c13_iset (c13_proc_of W2 p)) (c13_ri (c13_proc_of W2 p)) ptrs) /\
  (exists ptrs, c13_sync_rank c13_fixed numb2 W2 p order2 =
                C13Ok (c13_iset (c13_proc_of W2 p)) (c13_ri (c13_proc_of W2 p)) ptrs).
Proof. exact P_restore_then_idle. Qed.
Print Assumptions C13_restore_then_second_sync_idle.

(* ===================================================================== dimension audit 2
   A. PRE-EXISTING STATE OF THE TARGET.  `history W0 W`: W is reached from W0 by ANY number of stages "every rank deletes an
   arbitrary set of copies with their remote entries (each deleted copy still listed by another rank); collective sync" -- so
   the sync of a later stage works on index sets and remote lists that earlier deletions and syncs have shaped (re-added,
   renumbered pairs; lists emptied and re-grown).  For every such history: the world is consistent, carries exactly the remote
   lists and the (global, attribute) keys of W0 (nothing of an earlier stage survives but the local numbers the numberers
   handed out), and ANY further stage -- any deletion, numberers, per-rank processing orders -- again returns the restored
   world on every rank.  (The harness runs two stages, the second with a fresh / the SAME / a copied IndicesSyncer object.) *)
Theorem C13_history_restore : forall W0 W, consistent W0 -> history W0 W ->
  consistent W /\
  (forall p, c13_ri (c13_proc_of W p) = c13_ri (c13_proc_of W0 p) /\
             map c13_keyof (c13_iset (c13_proc_of W p)) = map c13_keyof (c13_iset (c13_proc_of W0 p))) /\
  (forall W' W2 D numb sigma p,
     deleted W W' D -> still_listed W W' D ->
     (forall r s, In s (sigma r) <-> In s (map fst (c13_ri (c13_proc_of W r)))) -> length W' = length W -> (p < length W)%nat ->
     is_restored W W2 D numb ->
     exists ptrs, nth_error (c13_sync c13_fixed numb W' sigma) p =
                  Some (C13Ok (c13_iset (c13_proc_of W2 (N.of_nat p))) (c13_ri (c13_proc_of W2 (N.of_nat p))) ptrs)).
Proof. exact P_history_restore. Qed.
Print Assumptions C13_history_restore.

(* B. ASYMMETRIC CONFIGURATION ACROSS PARTICIPANTS.  All world-level theorems above quantify over a numberer PER RANK
   (numb : rank -> global -> local number) and a processing order PER RANK (sigma); this clause states the independence
   explicitly: what rank r ends with is a function of the world, r's own numberer and r's own order only -- the other ranks
   may run sync(), sync(numberer) or sync(numberer, true) in any mixture. *)
Theorem C13_rank_configuration_local : forall v numb numb' w sigma sigma' r, (r < length w)%nat ->
  numb (N.of_nat r) = numb' (N.of_nat r) -> sigma (N.of_nat r) = sigma' (N.of_nat r) ->
  nth_error (c13_sync v numb w sigma) r = nth_error (c13_sync v numb' w sigma') r.
Proof. exact P_rank_configuration_local. Qed.
Print Assumptions C13_rank_configuration_local.

(* non-vacuity: a history of one stage exists (the two-rank example), a second stage on the restored world computes, and a
   mixed configuration (rank 0: sync(), rank 1: sync(numberer, true)) computes *)
Example C13_history_hypotheses_satisfiable :
  consistent c13_x2 /\ history c13_x2 c13_x2r /\
  c13_sync c13_fixed (fun _ g => 200 + g) c13_x2r' (c13_fixed_order c13_x2r') =
    [ C13Ok [C13Pair 5 1 0 true] [(1, [((5, 1), 2)])] [(1, C13Ptrs [0%nat])];
      C13Ok [C13Pair 5 2 205 true] [(0, [((5, 2), 1)])] [(0, C13Ptrs [0%nat])] ] /\
  c13_sync c13_fixed (fun r => if r =? 0 then c13_default_numberer else (fun g => 100 + g)) c13_x2' (c13_fixed_order c13_x2') =
    [ C13Ok [C13Pair 5 1 0 true] [(1, [((5, 1), 2)])] [(1, C13Ptrs [0%nat])];
      C13Ok [C13Pair 5 2 105 true] [(0, [((5, 2), 1)])] [(0, C13Ptrs [0%nat])] ].
Proof. exact (conj x2_consistent (conj x2_history (conj x2_second_stage x2_mixed))). Qed.

(* The tree as it is: the full statement is false.  Witness 1 (corpus/C13 line 1): sync on an untouched consistent
   two-rank owner/overlap decomposition duplicates remote entries and the pointer repair dereferences end(). *)
Theorem C13_sorted_valid_asis_refuted :
  exists w numb sigma, forallb c13_proc_ok_b w = true /\ c13_all_ok (c13_sync c13_asis numb w sigma) = false /\
    exists r iset ri q, nth_error (c13_sync c13_asis numb w sigma) r = Some (C13Ok iset ri [(q, C13PastEnd)]).
Proof. exact W_asis_sorted_valid_refuted. Qed.
Print Assumptions C13_sorted_valid_asis_refuted.

(* Witness 2 (corpus/C13 line 3): an index published by two neighbours is added twice. *)
Theorem C13_index_set_asis_refuted :
  exists w numb sigma r iset ri ptrs, forallb c13_proc_ok_b w = true /\
    nth_error (c13_sync c13_asis numb w sigma) r = Some (C13Ok iset ri ptrs) /\ c13_iset_ok iset = false.
Proof. exact W_asis_index_added_twice. Qed.
Print Assumptions C13_index_set_asis_refuted.

(* non-vacuity: the repaired model on the witness worlds; a restore through third-party knowledge, both orders *)
Example C13_fixed_on_witness_1 : c13_all_ok (c13_sync c13_fixed c13_numb0 c13_w1 (c13_fixed_order c13_w1)) = true /\
  map c13_proc_of_obs (c13_obs_list (c13_sync c13_fixed c13_numb0 c13_w1 (c13_fixed_order c13_w1))) = c13_w1.
Proof. exact W_fixed_w1. Qed.
Example C13_fixed_restores_third_party :
  forallb c13_proc_ok_b c13_w4 = true /\
  c13_restore_pre (c13_in_obs c13_w4_orig) (c13_in_obs c13_w4) = true /\
  map c13_proc_of_obs (c13_obs_list (c13_sync c13_fixed c13_numb0 c13_w4 (c13_fixed_order c13_w4))) = c13_w4_orig /\
  map c13_proc_of_obs (c13_obs_list (c13_sync c13_fixed c13_numb0 c13_w4 (fun r => rev (c13_fixed_order c13_w4 r)))) = c13_w4_orig /\
  c13_completion_b (c13_in_obs c13_w4) (c13_obs_list (c13_sync c13_fixed c13_numb0 c13_w4 (c13_fixed_order c13_w4))) = true.
Proof. exact W_fixed_w4_restores. Qed.

(* the hypotheses of C13_sorted_valid_monotone / C13_repair_total / C13_completion hold of a non-trivial world
   (three ranks, third-party knowledge, rank 2 has deleted its copy of global 7 with its remote entries) *)
Example C13_hypotheses_satisfiable :
  sender_ok (c13_proc_of c13_w4 0) /\ proc_ok (c13_proc_of c13_w4 2) /\ proc_ok (c13_proc_of c13_w4 1).
Proof. exact W_hyps_satisfiable. Qed.

(* the hypotheses of C13_restore (and of C13_order_independent) hold of a concrete world: global 5 owner on rank 0, overlap
   on rank 1; rank 1 deletes its copy with its remote entry; rank 0 still lists it; and the conclusion computed *)
Example C13_restore_hypotheses_satisfiable :
  consistent c13_x2 /\ deleted c13_x2 c13_x2' c13_d2 /\ still_listed c13_x2 c13_x2' c13_d2 /\
  c13_sync_rank c13_fixed (fun g => 100 + g) c13_x2' 1 [0] = C13Ok [C13Pair 5 2 105 true] [(0, [((5, 2), 1)])] [(0, C13Ptrs [0%nat])].
Proof. exact (conj x2_consistent (conj x2_deleted (conj x2_still_listed x2_restored))). Qed.

Example C13_world_hypotheses_satisfiable :
  world_ok c13_x2' /\ sigma_ok c13_x2' (c13_fixed_order c13_x2') /\ is_restored c13_x2 c13_x2r c13_d2 (fun _ g => 100 + g).
Proof. exact (conj (proj1 x2_world_ok) (conj (proj2 x2_world_ok) x2_is_restored)). Qed.
(* the literal loops on concrete data: tuple insertion, modifier removal + repair *)
Example C13_loops_compute :
  c13_tuple_insert c13_fixed (5, 1) 3 [2; 2] [(3, 1); (7, 1)] [true; true] = ([2; 3; 2], [(3, 1); (5, 1); (7, 1)], [true; false; true]) /\
  c13_mod_remove_all [5; 9] [((3, 1), 2); ((5, 1), 2); ((7, 1), 3); ((9, 1), 2)] = [((3, 1), 2); ((7, 1), 3)] /\
  c13_mod_repair [C13Pair 1 1 0 true; C13Pair 3 1 1 true; C13Pair 7 1 2 true] [3; 7] 0 = Some [1%nat; 2%nat].
Proof. repeat split; vm_compute; reflexivity. Qed.
