(* C14 property theorems: ONLY statements closed by `exact`, each followed by Print Assumptions;
   plus non-vacuity Examples.  Model: C14_Model.v (transcription of dune/common/std/*.hh), spec: C14_Spec.v. *)
From Coq Require Import List ZArith Bool Permutation.
From DuneV Require Import C14_Params C14_Model C14_Spec C14_Proofs C14_Proofs_Access C14_Proofs_Perm C14_Proofs_Deep C14_Proofs_Eq.
Import ListNotations.
Local Open Scope Z_scope.

(* --- layout_right / layout_left: the Horner loops compute the row-/column-major formula (all ranks) *)
Theorem C14_right_formula : forall E idx, length idx = length E ->
  c14_map_right E idx = c14_spec_right E idx.
Proof. exact c14_right_formula. Qed.
Print Assumptions C14_right_formula.

Theorem C14_left_formula : forall E idx, length idx = length E ->
  c14_map_left E idx = c14_spec_left E idx.
Proof. exact c14_left_formula. Qed.
Print Assumptions C14_left_formula.

(* --- every valid tuple maps into [0, required_span_size) : left, right, stride (strides >= 0) *)
Theorem C14_in_range : forall m idx, c14_wf m -> c14_valid idx (c14_ext m) ->
  0 <= c14_map m idx < c14_required_span_size m.
Proof. exact c14_in_range. Qed.
Print Assumptions C14_in_range.

(* --- distinct valid tuples map to distinct offsets: left, right (always), stride under the chain condition *)
Theorem C14_injective : forall m i j, c14_unique m -> c14_valid i (c14_ext m) -> c14_valid j (c14_ext m) ->
  c14_map m i = c14_map m j -> i = j.
Proof. exact c14_injective. Qed.
Print Assumptions C14_injective.

(* --- left and right fill [0, product of extents) without gaps *)
Theorem C14_exhaustive : forall m, c14_lay m <> C14_Stride -> c14_nonneg (c14_ext m) ->
  forall k, 0 <= k < c14_required_span_size m ->
  exists idx, c14_valid idx (c14_ext m) /\ c14_map m idx = k.
Proof. exact c14_exhaustive. Qed.
Print Assumptions C14_exhaustive.

(* --- the explicit inverses (digit decompositions) *)
Theorem C14_unrank_right : forall E, c14_nonneg E -> forall k, 0 <= k < c14_prod E ->
  c14_valid (c14_unrank_right E k) E /\ c14_spec_right E (c14_unrank_right E k) = k.
Proof. exact c14_unrank_right_ok. Qed.
Print Assumptions C14_unrank_right.

Theorem C14_unrank_left : forall E, c14_nonneg E -> forall k, 0 <= k < c14_prod E ->
  c14_valid (c14_unrank_left E k) E /\ c14_spec_left E (c14_unrank_left E k) = k.
Proof. exact c14_unrank_left_ok. Qed.
Print Assumptions C14_unrank_left.

(* --- a unit step in dimension r changes the offset by stride(r) *)
Theorem C14_stride_step : forall m idx r, c14_wf m -> length idx = length (c14_ext m) -> (r < length (c14_ext m))%nat ->
  c14_map m (c14_bump idx r) = c14_map m idx + c14_stride m r.
Proof. exact c14_step. Qed.
Print Assumptions C14_stride_step.

(* --- stride(r) of left/right is the product of the extents to the left/right *)
Theorem C14_stride_right_value : forall E r, (r < length E)%nat ->
  c14_stride_right E r = nth r (c14_spec_strides_right E) 0.
Proof. exact c14_stride_right_nth. Qed.
Print Assumptions C14_stride_right_value.

Theorem C14_stride_left_value : forall E r, (r < length E)%nat ->
  c14_stride_left E r = nth r (c14_spec_strides_left E) 0.
Proof. exact c14_stride_left_nth. Qed.
Print Assumptions C14_stride_left_value.

(* --- an extent 0: span size 0 and no valid tuple *)
Theorem C14_zero_extent : forall m, In 0 (c14_ext m) ->
  c14_required_span_size m = 0 /\ forall idx, ~ c14_valid idx (c14_ext m).
Proof. exact c14_zero_extent. Qed.
Print Assumptions C14_zero_extent.

(* --- machine integers: every value the Horner loops compute lies in [0, span size) *)
Theorem C14_horner_no_overflow_right : forall idx E, c14_valid idx E ->
  Forall (fun x => 0 <= x < c14_product E) (c14_map_right_trace E idx).
Proof. exact c14_right_trace_bound. Qed.
Print Assumptions C14_horner_no_overflow_right.

Theorem C14_horner_no_overflow_left : forall idx E, c14_valid idx E ->
  Forall (fun x => 0 <= x < c14_product E) (c14_map_left_trace E idx).
Proof. exact c14_left_trace_bound. Qed.
Print Assumptions C14_horner_no_overflow_left.

(* --- extents: both constructor forms give the intended extents for every static/dynamic pattern;
       converting between compatible extents types preserves all extents *)
Theorem C14_extents_all : forall p e, c14_spec_compatible p e ->
  c14_extents_list p (c14_extents_ctor p e) = e.
Proof. exact c14_extents_ctor_all. Qed.
Print Assumptions C14_extents_all.

Theorem C14_extents_dyn : forall p d, length d = c14_rank_dynamic p ->
  c14_extents_list p (c14_extents_ctor p d) = c14_spec_fill p d.
Proof. exact c14_extents_ctor_dyn. Qed.
Print Assumptions C14_extents_dyn.

Theorem C14_extents_convert : forall p' p dyn, c14_spec_compatible p' (c14_extents_list p dyn) ->
  c14_extents_list p' (c14_extents_convert p' p dyn) = c14_extents_list p dyn.
Proof. exact c14_extents_convert_ok. Qed.
Print Assumptions C14_extents_convert.

(* --- conversions between layouts (left<->right for rank <= 1, stride->left/right when the asserted stride
       equations hold, any->stride via stride(r)) preserve the offset of every tuple *)
Theorem C14_convert : forall l m m' idx, c14_wf m -> length idx = length (c14_ext m) ->
  c14_relayout l m = Some m' -> c14_map m' idx = c14_map m idx /\ c14_ext m' = c14_ext m.
Proof. exact c14_relayout_ok. Qed.
Print Assumptions C14_convert.

(* --- the nested loops enumerate exactly the valid tuples *)
Theorem C14_tuples : forall E t, In t (c14_tuples E) <-> c14_valid t E.
Proof. exact c14_in_tuples. Qed.
Print Assumptions C14_tuples.

(* --- mdspan: a valid tuple accesses store[base + map idx], inside the storage *)
Theorem C14_access_mdspan : forall (T : Type) (store : list T) base m idx, c14_wf m -> c14_valid idx (c14_ext m) ->
  0 <= base -> base + c14_required_span_size m <= Z.of_nat (length store) ->
  c14_mdspan_get store base m idx = c14_get store (base + c14_map m idx) /\
  base <= base + c14_map m idx < base + c14_required_span_size m /\
  exists v, c14_mdspan_get store base m idx = Some v.
Proof. exact (@c14_mdspan_access). Qed.
Print Assumptions C14_access_mdspan.

(* --- a write through the view changes exactly the designated element *)
Theorem C14_access_write : forall (T : Type) (store : list T) base m idx v, c14_wf m -> c14_unique m ->
  c14_valid idx (c14_ext m) -> 0 <= base -> base + c14_required_span_size m <= Z.of_nat (length store) ->
  exists store', c14_mdspan_set store base m idx v = Some store' /\ length store' = length store /\
    c14_mdspan_get store' base m idx = Some v /\
    (forall j, c14_valid j (c14_ext m) -> j <> idx -> c14_mdspan_get store' base m j = c14_mdspan_get store base m j) /\
    (forall k, k <> base + c14_map m idx -> c14_get store' k = c14_get store k).
Proof. exact (@c14_mdspan_write_read). Qed.
Print Assumptions C14_access_write.

(* --- mdarray constructors size the container by required_span_size; all elements initialised and reachable *)
Theorem C14_mdarray_sized : forall (T : Type) m (v : T), 0 <= c14_required_span_size m ->
  Z.of_nat (length (c14_mdarray_new m v)) = c14_required_span_size m.
Proof. exact (@c14_mdarray_sized). Qed.
Print Assumptions C14_mdarray_sized.

Theorem C14_mdarray_new_get : forall (T : Type) m (v : T) idx, c14_wf m -> c14_valid idx (c14_ext m) ->
  c14_mdarray_get (c14_mdarray_new m v) m idx = Some v.
Proof. exact (@c14_mdarray_new_get). Qed.
Print Assumptions C14_mdarray_new_get.

(* --- mdarray(const mdspan&): new[idx] = old[idx] for all valid idx, container of exactly the index-space size *)
Theorem C14_mdarray_from_mdspan : forall (T : Type) (dflt : T) l store base msrc,
  l <> C14_Stride -> c14_wf msrc -> c14_nonneg (c14_ext msrc) ->
  (forall t, c14_valid t (c14_ext msrc) -> exists v, c14_mdspan_get store base msrc t = Some v) ->
  forall mdst, c14_relayout l msrc = Some mdst ->
  exists cont, c14_mdarray_from_mdspan dflt l store base msrc = Some (cont, mdst) /\
    Z.of_nat (length cont) = c14_required_span_size mdst /\
    forall t, c14_valid t (c14_ext msrc) -> c14_mdarray_get cont mdst t = c14_mdspan_get store base msrc t.
Proof. exact c14_mdarray_from_mdspan_ok. Qed.
Print Assumptions C14_mdarray_from_mdspan.

(* --- the same with the ACCESSOR POLICY as an explicit, arbitrary component of the view (acc : handle -> offset -> cell):
       a valid tuple reads the cell acc(h, map idx); inside the storage when acc sends [0, span size) into it; distinct
       tuples reach distinct cells when acc is injective there; mdarray(mdspan) copies THROUGH the accessor *)
Theorem C14_access_mdspan_acc : forall (T : Type) (store : list T) (acc : c14_accessor) h m idx, c14_wf m -> c14_valid idx (c14_ext m) ->
  (forall k, 0 <= k < c14_required_span_size m -> 0 <= acc h k < Z.of_nat (length store)) ->
  c14_view_get store acc h m idx = c14_get store (acc h (c14_map m idx)) /\
  0 <= c14_map m idx < c14_required_span_size m /\
  exists v, c14_view_get store acc h m idx = Some v.
Proof. exact (@c14_view_access_acc). Qed.
Print Assumptions C14_access_mdspan_acc.

Theorem C14_access_distinct_acc : forall (acc : c14_accessor) h m i j, c14_wf m -> c14_unique m ->
  c14_valid i (c14_ext m) -> c14_valid j (c14_ext m) ->
  (forall k k', 0 <= k < c14_required_span_size m -> 0 <= k' < c14_required_span_size m -> acc h k = acc h k' -> k = k') ->
  c14_view_cell acc h m i = c14_view_cell acc h m j -> i = j.
Proof. exact c14_view_cells_distinct. Qed.
Print Assumptions C14_access_distinct_acc.

Theorem C14_mdarray_from_mdspan_acc : forall (T : Type) (dflt : T) l store (acc : c14_accessor) h msrc,
  l <> C14_Stride -> c14_wf msrc -> c14_nonneg (c14_ext msrc) ->
  (forall t, c14_valid t (c14_ext msrc) -> exists v, c14_view_get store acc h msrc t = Some v) ->
  forall mdst, c14_relayout l msrc = Some mdst ->
  exists cont, c14_mdarray_from_mdspan_acc dflt l store acc h msrc = Some (cont, mdst) /\
    Z.of_nat (length cont) = c14_required_span_size mdst /\
    forall t, c14_valid t (c14_ext msrc) -> c14_mdarray_get cont mdst t = c14_view_get store acc h msrc t.
Proof. exact c14_mdarray_from_mdspan_acc_ok. Qed.
Print Assumptions C14_mdarray_from_mdspan_acc.

Theorem C14_default_accessor_instance : forall (T : Type) (store : list T) base m idx,
  c14_view_get store c14_default_acc base m idx = c14_mdspan_get store base m idx.
Proof. exact (@c14_view_get_default). Qed.
Print Assumptions C14_default_accessor_instance.

(* --- swap exchanges (data handle, mapping) of two views / (container, mapping) of two arrays, assignment copies them:
       afterwards every tuple designates the element the other object designated before *)
Theorem C14_swap_views : forall x y idx,
  c14_view_offset (fst (c14_view_swap x y)) idx = c14_view_offset y idx /\
  c14_view_offset (snd (c14_view_swap x y)) idx = c14_view_offset x idx /\
  snd (fst (c14_view_swap x y)) = snd y /\ snd (snd (c14_view_swap x y)) = snd x.
Proof. exact c14_view_swap_ok. Qed.
Print Assumptions C14_swap_views.

Theorem C14_swap_views_in_range : forall x y idx, c14_wf (snd y) -> c14_valid idx (c14_ext (snd y)) ->
  fst y <= c14_view_offset (fst (c14_view_swap x y)) idx < fst y + c14_required_span_size (snd y).
Proof. exact c14_view_swap_in_range. Qed.
Print Assumptions C14_swap_views_in_range.

Theorem C14_assign_views : forall x y idx,
  c14_view_offset (fst (c14_view_assign x y)) idx = c14_view_offset y idx /\
  c14_view_offset (snd (c14_view_assign x y)) idx = c14_view_offset y idx /\
  snd (fst (c14_view_assign x y)) = snd y.
Proof. exact c14_view_assign_ok. Qed.
Print Assumptions C14_assign_views.

Theorem C14_swap_arrays : forall (T : Type) (x y : c14_array T) idx,
  c14_array_get (fst (c14_array_swap x y)) idx = c14_array_get y idx /\
  c14_array_get (snd (c14_array_swap x y)) idx = c14_array_get x idx.
Proof. exact c14_array_swap_ok. Qed.
Print Assumptions C14_swap_arrays.

Theorem C14_assign_arrays : forall (T : Type) (x y : c14_array T) idx,
  c14_array_get (fst (c14_array_assign x y)) idx = c14_array_get y idx /\
  c14_array_get (snd (c14_array_assign x y)) idx = c14_array_get y idx.
Proof. exact c14_array_assign_ok. Qed.
Print Assumptions C14_assign_arrays.

(* --- span: sub-views refer to the same elements; at() rejects exactly i >= size *)
Theorem C14_span_subspan : forall s o c s', c14_span_subspan s o c = Some s' -> 0 <= o ->
  (forall i, c14_span_index s' i = c14_span_index s (o + i)) /\
  (forall i, 0 <= i < c14_sp_len s' -> 0 <= o + i < c14_sp_len s) /\
  c14_sp_len s' = match c with None => c14_sp_len s - o | Some n => n end.
Proof. exact c14_span_subspan_ok. Qed.
Print Assumptions C14_span_subspan.

Theorem C14_span_first : forall s c s', c14_span_first s c = Some s' ->
  (forall i, c14_span_index s' i = c14_span_index s i) /\ c14_sp_len s' = c /\ c <= c14_sp_len s.
Proof. exact c14_span_first_ok. Qed.
Print Assumptions C14_span_first.

Theorem C14_span_last : forall s c s', c14_span_last s c = Some s' ->
  (forall i, c14_span_index s' i = c14_span_index s (c14_sp_len s - c + i)) /\ c14_sp_len s' = c /\ c <= c14_sp_len s.
Proof. exact c14_span_last_ok. Qed.
Print Assumptions C14_span_last.

Theorem C14_span_at : forall s i,
  (c14_sp_len s <= i -> c14_span_at s i = None) /\
  (i < c14_sp_len s -> c14_span_at s i = Some (c14_span_index s i)).
Proof. exact c14_span_at_ok. Qed.
Print Assumptions C14_span_at.

(* --- a strided mapping is unique as soon as SOME ordering of the dimensions satisfies the chain condition
       (arbitrary stride permutations, padded or not) *)
Theorem C14_injective_perm : forall E St i j ES', length St = length E ->
  c14_valid i E -> c14_valid j E ->
  Permutation (combine E St) ES' -> c14_stride_chain ES' ->
  c14_map_stride St i = c14_map_stride St j -> i = j.
Proof. exact c14_stride_injective_perm. Qed.
Print Assumptions C14_injective_perm.

(* --- is_exhaustive() of a unique strided mapping (strides >= 0, non-empty index space) is true exactly when the
       offsets fill [0, required_span_size); on an empty index space it is false (second statement) *)
Theorem C14_stride_exhaustive_iff : forall E St, E <> [] -> c14_nonneg E -> 0 < c14_prod E ->
  Forall (fun s => 0 <= s) St ->
  (forall i j, c14_valid i E -> c14_valid j E -> c14_map_stride St i = c14_map_stride St j -> i = j) ->
  (c14_is_exhaustive_stride E St = true <->
   forall k, 0 <= k < c14_span_size_stride E St -> exists idx, c14_valid idx E /\ c14_map_stride St idx = k).
Proof. exact c14_stride_exhaustive_iff. Qed.
Print Assumptions C14_stride_exhaustive_iff.

Theorem C14_stride_exhaustive_empty :
  c14_is_exhaustive_stride [0; 3] [3; 1] = false /\ c14_span_size_stride [0; 3] [3; 1] = 0.
Proof. exact c14_stride_exhaustive_empty. Qed.
Print Assumptions C14_stride_exhaustive_empty.

(* ======================= deepening round: facts the code establishes itself, sizes, machine integers, constructors,
   conversions, operator==, span extras ======================= *)
(* --- layout_stride::mapping(const M&) of a left/right/stride mapping is well formed (one non-negative stride per dimension): established by the code, not assumed *)
Theorem C14_canonical_wf : forall m, c14_wf m -> c14_nonneg (c14_ext m) -> c14_wf (c14_to_stride m).
Proof. exact (@c14_to_stride_wf). Qed.
Print Assumptions C14_canonical_wf.

(* --- ... and satisfies the uniqueness (chain) condition, for ANY extents: the hypothesis of C14_injective holds for every converted left/right mapping *)
Theorem C14_canonical_unique : forall m, c14_lay m <> C14_Stride -> c14_unique (c14_to_stride m).
Proof. exact (@c14_to_stride_unique). Qed.
Print Assumptions C14_canonical_unique.

(* --- every mapping of any layout is the dot product of the tuple with its own stride(r) values *)
Theorem C14_map_is_dot : forall m idx, c14_wf m -> length idx = length (c14_ext m) ->
  c14_map m idx = c14_dot idx (c14_strides_of m).
Proof. exact (@c14_map_as_dot). Qed.
Print Assumptions C14_map_is_dot.

(* --- converting to layout_stride keeps required_span_size (also with zero extents and rank 0) *)
Theorem C14_canonical_span : forall m, c14_wf m -> c14_nonneg (c14_ext m) ->
  c14_required_span_size (c14_to_stride m) = c14_required_span_size m.
Proof. exact (@c14_to_stride_span). Qed.
Print Assumptions C14_canonical_span.

(* --- is_exhaustive() of the strided image of a left/right mapping is true on a non-empty index space *)
Theorem C14_canonical_exhaustive : forall m, c14_lay m <> C14_Stride -> c14_nonneg (c14_ext m) ->
  0 < c14_prod (c14_ext m) -> c14_is_exhaustive (c14_to_stride m) = true.
Proof. exact (@c14_to_stride_exhaustive). Qed.
Print Assumptions C14_canonical_exhaustive.

(* --- is_exhaustive() = true (constant answer re-read from the headers for left/right, computed for stride) implies that the offsets fill [0, required_span_size) *)
Theorem C14_is_exhaustive_sound : forall m, c14_wf m -> c14_nonneg (c14_ext m) ->
  (forall i j, c14_valid i (c14_ext m) -> c14_valid j (c14_ext m) -> c14_map m i = c14_map m j -> i = j) ->
  c14_is_exhaustive m = true ->
  forall k, 0 <= k < c14_required_span_size m -> exists idx, c14_valid idx (c14_ext m) /\ c14_map m idx = k.
Proof. exact (@c14_is_exhaustive_sound). Qed.
Print Assumptions C14_is_exhaustive_sound.

(* --- size() (product of the extents) is the number of valid index tuples *)
Theorem C14_size_counts_tuples : forall E, c14_nonneg E -> c14_product E = Z.of_nat (length (c14_tuples E)).
Proof. exact (@c14_size_counts_tuples). Qed.
Print Assumptions C14_size_counts_tuples.

(* --- empty() (size() == 0) holds exactly when there is no valid tuple *)
Theorem C14_empty_iff : forall E, c14_nonneg E -> (c14_product E = 0 <-> forall idx, ~ c14_valid idx E).
Proof. exact (@c14_empty_iff). Qed.
Print Assumptions C14_empty_iff.

(* --- index_type(v) is the identity on representable values *)
Theorem C14_wrap_fits : forall bits sg v, 0 < bits -> c14_fits bits sg v = true -> c14_wrap bits sg v = v.
Proof. exact (@c14_wrap_fits). Qed.
Print Assumptions C14_wrap_fits.

(* --- if the span size fits index_type, every intermediate of the layout_right loop fits *)
Theorem C14_fits_trace_right : forall bits sg idx E, 0 < bits -> c14_valid idx E -> c14_fits bits sg (c14_product E) = true ->
  Forall (fun x => c14_fits bits sg x = true) (c14_map_right_trace E idx).
Proof. exact (@c14_fits_trace_right). Qed.
Print Assumptions C14_fits_trace_right.

(* --- ... and of the layout_left loop *)
Theorem C14_fits_trace_left : forall bits sg idx E, 0 < bits -> c14_valid idx E -> c14_fits bits sg (c14_product E) = true ->
  Forall (fun x => c14_fits bits sg x = true) (c14_map_left_trace E idx).
Proof. exact (@c14_fits_trace_left). Qed.
Print Assumptions C14_fits_trace_left.

(* --- stride(r) of left/right on a non-empty index space lies in [1, span size] (the stride loops do not overflow either) *)
Theorem C14_stride_bounds : forall idx E r, c14_valid idx E ->
  1 <= c14_stride_right E r <= c14_product E /\ 1 <= c14_stride_left E r <= c14_product E.
Proof. exact (@c14_stride_bounds). Qed.
Print Assumptions C14_stride_bounds.

(* --- operator== of extents: true exactly for equal rank and extents *)
Theorem C14_extents_eq_iff : forall a b, c14_extents_eqb a b = true <-> a = b.
Proof. exact (@c14_extents_eqb_iff). Qed.
Print Assumptions C14_extents_eq_iff.

(* --- operator== of mappings (also across layouts, layout_stride == layout_left/right): equal mappings address every tuple identically *)
Theorem C14_mapping_eq_sound : forall a b, c14_wf a -> c14_wf b -> c14_mapping_eqb_cross a b = true ->
  c14_ext a = c14_ext b /\ forall idx, length idx = length (c14_ext a) -> c14_map a idx = c14_map b idx.
Proof. exact (@c14_mapping_eq_sound). Qed.
Print Assumptions C14_mapping_eq_sound.

(* --- mdspan constructors from extents values (all / only the dynamic ones): intended extents, given layout and data handle *)
Theorem C14_mdspan_of_extents : forall l p vals h,
  (c14_spec_compatible p vals -> c14_ext (snd (c14_mdspan_of_extents l p vals h)) = vals) /\
  (length vals = c14_rank_dynamic p -> c14_ext (snd (c14_mdspan_of_extents l p vals h)) = c14_spec_fill p vals) /\
  c14_lay (snd (c14_mdspan_of_extents l p vals h)) = l /\ fst (c14_mdspan_of_extents l p vals h) = h.
Proof. exact (@c14_mdspan_of_extents_ok). Qed.
Print Assumptions C14_mdspan_of_extents.

(* --- mdspan converting constructor: same data handle, every tuple designates the same element *)
Theorem C14_view_convert : forall l x x' idx, c14_wf (snd x) -> length idx = length (c14_ext (snd x)) ->
  c14_view_convert l x = Some x' ->
  c14_view_offset x' idx = c14_view_offset x idx /\ c14_ext (snd x') = c14_ext (snd x).
Proof. exact (@c14_view_convert_ok). Qed.
Print Assumptions C14_view_convert.

(* --- mdarray access stays inside the container whenever it holds required_span_size elements *)
Theorem C14_array_access : forall (T : Type) (x : c14_array T) idx, c14_wf (snd x) -> c14_valid idx (c14_ext (snd x)) ->
    c14_required_span_size (snd x) <= Z.of_nat (length (fst x)) ->
    0 <= c14_map (snd x) idx < Z.of_nat (length (fst x)) /\ exists v, c14_array_get x idx = Some v.
Proof. exact (@c14_array_access). Qed.
Print Assumptions C14_array_access.

(* --- mdarray(extents|mapping, value): every element is the value, container sized by required_span_size *)
Theorem C14_mdarray_fill : forall (T : Type) m (v : T) idx, c14_wf m -> c14_valid idx (c14_ext m) -> 0 <= c14_required_span_size m ->
    c14_array_get (c14_mdarray_fill m v) idx = Some v /\
    Z.of_nat (length (fst (c14_mdarray_fill m v))) = c14_required_span_size m.
Proof. exact (@c14_mdarray_fill_ok). Qed.
Print Assumptions C14_mdarray_fill.

(* --- a write through operator[] of an mdarray changes exactly the designated element *)
Theorem C14_array_set_get : forall (T : Type) (x : c14_array T) idx v, c14_wf (snd x) -> c14_unique (snd x) ->
    c14_valid idx (c14_ext (snd x)) -> c14_required_span_size (snd x) <= Z.of_nat (length (fst x)) ->
    exists x', c14_array_set x idx v = Some x' /\ snd x' = snd x /\ length (fst x') = length (fst x) /\
      c14_array_get x' idx = Some v /\
      forall j, c14_valid j (c14_ext (snd x)) -> j <> idx -> c14_array_get x' j = c14_array_get x j.
Proof. exact (@c14_array_set_get). Qed.
Print Assumptions C14_array_set_get.

(* --- to_mdspan(): reads the array's own elements; a write through the view is a write to the array *)
Theorem C14_to_mdspan_alias : forall (T : Type) (x : c14_array T) idx,
    c14_mdspan_get (fst (c14_to_mdspan x)) (fst (snd (c14_to_mdspan x))) (snd (snd (c14_to_mdspan x))) idx = c14_array_get x idx /\
    snd (snd (c14_to_mdspan x)) = snd x /\
    forall v, c14_mdspan_set (fst (c14_to_mdspan x)) 0 (snd x) idx v
              = match c14_array_set x idx v with Some x' => Some (fst x') | None => None end.
Proof. exact (@c14_to_mdspan_alias). Qed.
Print Assumptions C14_to_mdspan_alias.

(* --- converting constructor between mdarrays: same container, equal elements *)
Theorem C14_mdarray_convert : forall (T : Type) l (x x' : c14_array T) idx, c14_wf (snd x) -> length idx = length (c14_ext (snd x)) ->
    c14_mdarray_convert l x = Some x' ->
    c14_array_get x' idx = c14_array_get x idx /\ c14_ext (snd x') = c14_ext (snd x) /\ fst x' = fst x.
Proof. exact (@c14_mdarray_convert_ok). Qed.
Print Assumptions C14_mdarray_convert.

(* --- mdarray(const mdspan&) with the read hypothesis replaced by the size of the view's storage *)
Theorem C14_mdarray_from_mdspan_sized : forall (T : Type) (dflt : T) l store base msrc,
    l <> C14_Stride -> c14_wf msrc -> c14_nonneg (c14_ext msrc) ->
    0 <= base -> base + c14_required_span_size msrc <= Z.of_nat (length store) ->
    forall mdst, c14_relayout l msrc = Some mdst ->
    exists cont, c14_mdarray_from_mdspan dflt l store base msrc = Some (cont, mdst) /\
      Z.of_nat (length cont) = c14_required_span_size mdst /\
      forall t, c14_valid t (c14_ext msrc) -> c14_mdarray_get cont mdst t = c14_mdspan_get store base msrc t.
Proof. exact (@c14_mdarray_from_mdspan_sized). Qed.
Print Assumptions C14_mdarray_from_mdspan_sized.

(* --- a mapping on converted extents addresses exactly as the mapping on the source extents *)
Theorem C14_convert_extents_mapping : forall l St p' p dyn idx, c14_spec_compatible p' (c14_extents_list p dyn) ->
  c14_map (C14_Mapping l (c14_extents_list p' (c14_extents_convert p' p dyn)) St) idx =
  c14_map (C14_Mapping l (c14_extents_list p dyn) St) idx /\
  c14_required_span_size (C14_Mapping l (c14_extents_list p' (c14_extents_convert p' p dyn)) St) =
  c14_required_span_size (C14_Mapping l (c14_extents_list p dyn) St).
Proof. exact (@c14_convert_extents_mapping). Qed.
Print Assumptions C14_convert_extents_mapping.

(* --- the compile-time extent of subspan<O,C>() (subspan_extent) equals the run-time size of the result *)
Theorem C14_subspan_static_extent : forall s ext o c s' n, c14_span_subspan s o c = Some s' ->
  (forall e, ext = Some e -> e = c14_sp_len s) -> c14_subspan_extent ext o c = Some n -> n = c14_sp_len s'.
Proof. exact (@c14_subspan_static_extent). Qed.
Print Assumptions C14_subspan_static_extent.

(* --- begin()..end() visits exactly the size() elements s[0], s[1], ... *)
Theorem C14_span_iteration : forall s, 0 <= c14_sp_len s ->
  Z.of_nat (length (c14_span_elems s)) = c14_sp_len s /\
  forall n, (Z.of_nat n < c14_sp_len s) -> nth n (c14_span_elems s) 0 = c14_span_index s (Z.of_nat n).
Proof. exact (@c14_span_iteration). Qed.
Print Assumptions C14_span_iteration.

(* --- front()/back() are s[0] and s[size()-1] *)
Theorem C14_span_front_back : forall s, 0 < c14_sp_len s ->
  c14_span_front s = Some (c14_span_index s 0) /\ c14_span_back s = Some (c14_span_index s (c14_sp_len s - 1)).
Proof. exact (@c14_span_front_back). Qed.
Print Assumptions C14_span_front_back.

(* --- the constant answers of is_unique/is_strided/is_always_* and the defaults, re-read from the headers (C14_Params.v), are the ones the theorems justify *)
Theorem C14_flags_justified : (forall l, c14_is_unique l = true) /\ (forall l, c14_is_strided l = true) /\ (forall l, c14_is_always_unique l = true) /\
  (forall l, c14_is_always_strided l = true) /\
  (forall l, c14_is_always_exhaustive l = match l with C14_Stride => false | _ => true end) /\
  c14_param_dynamic_extent_is_sizemax = true /\ c14_param_mdspan_default_layout = 1%nat /\ c14_param_mdarray_default_layout = 1%nat.
Proof. exact (@c14_flags_justified). Qed.
Print Assumptions C14_flags_justified.

(* --- REFINEMENT to machine arithmetic: the layout_right loop computed entirely in a bits-wide signed/unsigned index_type (every + and * wrapped) equals the exact value whenever the span size is representable *)
Theorem C14_machine_right : forall bits sg idx E, 0 < bits -> c14_valid idx E -> c14_fits bits sg (c14_product E) = true ->
  c14_map_right_w bits sg E idx = c14_map_right E idx.
Proof. exact c14_machine_right. Qed.
Print Assumptions C14_machine_right.

(* --- ... the layout_left loop *)
Theorem C14_machine_left : forall bits sg idx E, 0 < bits -> c14_valid idx E -> c14_fits bits sg (c14_product E) = true ->
  c14_map_left_w bits sg E idx = c14_map_left E idx.
Proof. exact c14_machine_left. Qed.
Print Assumptions C14_machine_left.

(* --- ... and the layout_stride fold (strides >= 0): every product and partial sum is bounded by required_span_size *)
Theorem C14_machine_stride : forall bits sg idx E St, 0 < bits -> c14_valid idx E -> Forall (fun s => 0 <= s) St ->
  c14_fits bits sg (c14_span_size_stride E St) = true ->
  c14_map_stride_w bits sg St idx = c14_map_stride St idx.
Proof. exact c14_machine_stride. Qed.
Print Assumptions C14_machine_stride.

(* --- a second swap undoes the first; self-swap and self-assignment leave a view unchanged (one object in both roles) *)
Theorem C14_swap_involutive : forall (x y : c14_view),
  c14_view_swap (fst (c14_view_swap x y)) (snd (c14_view_swap x y)) = (x, y) /\
  c14_view_swap x x = (x, x) /\ c14_view_assign x x = (x, x).
Proof. exact c14_swap_involutive. Qed.
Print Assumptions C14_swap_involutive.

(* --- the same for owning arrays *)
Theorem C14_array_swap_involutive : forall (T : Type) (x y : c14_array T),
  c14_array_swap (fst (c14_array_swap x y)) (snd (c14_array_swap x y)) = (x, y) /\
  c14_array_swap x x = (x, x) /\ c14_array_assign x x = (x, x).
Proof. exact c14_array_swap_involutive. Qed.
Print Assumptions C14_array_swap_involutive.

(* --- index tuples given in another integral type and converted by index_type(...) designate the same element whenever the extents are representable *)
Theorem C14_index_conversion : forall bits sg m idx, 0 < bits -> c14_valid idx (c14_ext m) ->
  Forall (fun e => c14_fits bits sg e = true) (c14_ext m) ->
  c14_map m (map (c14_wrap bits sg) idx) = c14_map m idx.
Proof. exact c14_index_conversion. Qed.
Print Assumptions C14_index_conversion.

(* --- layout_stride::mapping(extents, strides of another integral type): the same mapping whenever the strides are representable *)
Theorem C14_stride_conversion : forall bits sg E St, 0 < bits -> Forall (fun s => c14_fits bits sg s = true) St ->
  C14_Mapping C14_Stride E (map (c14_wrap bits sg) St) = C14_Mapping C14_Stride E St.
Proof. exact c14_stride_conversion. Qed.
Print Assumptions C14_stride_conversion.

(* --- non-vacuity *)
Example C14_ex_valid : c14_valid [1; 2; 3] [2; 3; 4] /\ c14_map_right [2; 3; 4] [1; 2; 3] = 23 /\ c14_map_left [2; 3; 4] [1; 2; 3] = 23.
Proof. exact c14_ex_valid. Qed.
Example C14_ex_unique_padded :
  c14_unique (C14_Mapping C14_Stride [2; 3] [10; 2]) /\ c14_wf (C14_Mapping C14_Stride [2; 3] [10; 2]) /\
  c14_required_span_size (C14_Mapping C14_Stride [2; 3] [10; 2]) = 15.
Proof. exact c14_ex_unique_padded. Qed.
Example C14_ex_extents : c14_spec_compatible [Some 2; None; Some 3] [2; 4; 3] /\
  c14_extents_list [Some 2; None; Some 3] (c14_extents_ctor [Some 2; None; Some 3] [4]) = [2; 4; 3].
Proof. exact c14_ex_extents. Qed.
Example C14_ex_from_mdspan :
  c14_mdarray_from_mdspan 0 C14_Left [10; 11; 12; 13; 14; 15; 16] 1 (C14_Mapping C14_Left [2; 3] [])
  = Some ([11; 12; 13; 14; 15; 16], C14_Mapping C14_Left [2; 3] []).
Proof. exact c14_ex_from_mdspan. Qed.
Example C14_ex_convert_cross :
  c14_spec_compatible [Some 2; None] (c14_extents_list [None; Some 4] [2]) /\
  c14_extents_list [Some 2; None] (c14_extents_convert [Some 2; None] [None; Some 4] [2]) = [2; 4] /\
  c14_extents_list [None; None; Some 4] (c14_extents_convert [None; None; Some 4] [None; Some 3; None] [2; 4]) = [2; 3; 4].
Proof. exact c14_ex_convert_cross. Qed.
Example C14_ex_perm : Permutation (combine [2; 3; 5] [15; 1; 3]) [(2, 15); (5, 3); (3, 1)] /\
  c14_stride_chain [(2, 15); (5, 3); (3, 1)].
Proof. exact c14_ex_perm. Qed.
Example C14_ex_from_mdspan_acc :   (* interleaved buffer, accessor 2*i+1 *)
  c14_mdarray_from_mdspan_acc 0 C14_Right [10; 11; 12; 13; 14; 15; 16; 17; 18; 19; 20; 21; 22] (fun h i => h + 2 * i + 1) 0
    (C14_Mapping C14_Right [2; 3] [])
  = Some ([11; 13; 15; 17; 19; 21], C14_Mapping C14_Right [2; 3] []).
Proof. vm_compute. reflexivity. Qed.
Example C14_ex_deep : c14_is_exhaustive (c14_to_stride (C14_Mapping C14_Left [2; 3; 4] [])) = true /\
  c14_strides_of (c14_to_stride (C14_Mapping C14_Left [2; 3; 4] [])) = [1; 2; 6] /\
  c14_mapping_eqb_cross (c14_to_stride (C14_Mapping C14_Right [2; 3] [])) (C14_Mapping C14_Right [2; 3] []) = true /\
  c14_wrap 16 true 40000 = -25536 /\ c14_wrap 16 true 123 = 123 /\ c14_fits 16 true 32767 = true /\
  c14_subspan_extent (Some 7) 2 None = Some 5 /\ c14_span_elems (C14_Span 3 4) = [3; 4; 5; 6].
Proof. exact c14_ex_deep. Qed.
Example C14_ex_machine : c14_map_right_w 16 true [181; 181] [180; 180] = 32760 /\ c14_fits 16 true (c14_product [181; 181]) = true /\
  c14_map_right_w 16 true [182; 182] [181; 181] <> c14_map_right [182; 182] [181; 181].   (* 33123 wraps: the guard is needed *)
Proof. split; [vm_compute; reflexivity|split; [vm_compute; reflexivity|vm_compute; discriminate]]. Qed.
Example C14_ex_index_conversion : c14_map (C14_Mapping C14_Right [2; 3] []) (map (c14_wrap 16 true) [1; 2]) = 5 /\
  c14_wrap 8 false 300 = 44.   (* an index that does not fit wraps: the hypothesis is needed *)
Proof. split; vm_compute; reflexivity. Qed.

(* --- second cross-cutting audit: operator== between mappings of DIFFERENT extents / index types (asymmetric sides),
   strides beyond the range of the narrower index type.  c14_mapping_eqb_cross_w is the comparison as written in
   layout_stride.hh (right-hand stride narrowed to the left-hand index_type), c14_mapping_eqb_cross the exact one. *)
Theorem C14_mapping_eq_cross_w_exact : forall bits sg a b, 0 < bits ->
  Forall (fun s => c14_fits bits sg s = true) (c14_strides_of b) ->
  c14_mapping_eqb_cross_w bits sg a b = c14_mapping_eqb_cross a b.
Proof. exact c14_mapping_eq_cross_w_exact. Qed.
Print Assumptions C14_mapping_eq_cross_w_exact.
Theorem C14_mapping_eq_cross_sym : forall a b, c14_mapping_eqb_cross a b = c14_mapping_eqb_cross b a.
Proof. exact c14_mapping_eq_cross_sym. Qed.
Print Assumptions C14_mapping_eq_cross_sym.
(* The full statement "a == b -> a and b address alike" (C14_mapping_eq_sound) is FALSE of the header's comparison once the
   representability hypothesis is dropped: finding F-C14-9 (witness replayed on the implementation by op seq). *)
Theorem C14_mapping_eq_cross_w_refuted : exists a b idx, c14_wf a /\ c14_wf b /\ c14_valid idx (c14_ext a) /\
  c14_mapping_eqb_cross_w 16 true a b = true /\ c14_mapping_eqb_cross_w 64 true b a = false /\ c14_map a idx <> c14_map b idx.
Proof. exact c14_mapping_eq_cross_w_refuted. Qed.
Print Assumptions C14_mapping_eq_cross_w_refuted.
Example C14_ex_eq_cross_w : c14_mapping_eqb_cross_w 16 true (C14_Mapping C14_Stride [2; 3] [3; 1]) (C14_Mapping C14_Stride [2; 3] [3; 1]) = true /\
  c14_mapping_eqb_cross_w 16 true (C14_Mapping C14_Stride [2; 3] [3; 1]) (C14_Mapping C14_Stride [2; 3] [3; 2]) = false /\
  c14_mapping_eqb_cross_w 32 false (C14_Mapping C14_Stride [2] [3]) (C14_Mapping C14_Stride [2] [4294967299]) = true /\
  c14_mapping_eqb_cross (C14_Mapping C14_Stride [2] [3]) (C14_Mapping C14_Stride [2] [4294967299]) = false /\
  Forall (fun s => c14_fits 16 true s = true) (c14_strides_of (C14_Mapping C14_Stride [2; 3] [3; 1])).
Proof. repeat split; try (vm_compute; reflexivity). repeat constructor. Qed.
