(* C14 property theorems: ONLY statements closed by `exact`, each followed by Print Assumptions. *)
From Coq Require Import List ZArith Bool.
From DuneV Require Import C14_Model C14_Spec C14_Proofs.
Import ListNotations.
Local Open Scope Z_scope.

Example C14_example_right : c14_map_right [2;3;4] [1;2;3] = 23.
Proof. exact c14_example_right. Qed.
Print Assumptions C14_example_right.
