(* C15 property theorems: ONLY statements closed by `exact`, each followed by Print Assumptions.
   (sT, aT) = (sizeof T, alignof T); geometry, pool histories, system-allocator guards, debug allocator. *)
From Coq Require Import List NArith Bool Arith.
From DuneV Require Import Params_gen C15_Model C15_Spec C15_Proofs C15_Proofs_Sys C15_Proofs_Heap C15_Proofs_Multi C15_Proofs_Dbg C15_Proofs_Align.
Import ListNotations.
Local Open Scope N_scope.

(* --- C15_geometry: the static_asserts of Pool<T,s> hold for EVERY parameter choice whose `int` constants are
       representable (any sizeof T >= 1, any alignof T >= 1, any s — including chunks that hold a single object). *)
Theorem C15_geometry : forall sT aT s g, 1 <= sT -> 1 <= aT -> c15_geometry sT aT s = Some g ->
  0 < g_alignment g /\ (aT | g_alignment g) /\ (c15_alignofRef | g_alignment g) /\
  sT <= g_unionSize g /\ c15_sizeofRef <= g_unionSize g /\ g_unionSize g <= g_alignedSize g /\
  sT <= g_chunkSize g /\ c15_sizeofRef <= g_chunkSize g /\ (g_alignment g | g_chunkSize g) /\
  1 <= g_elements g /\ g_elements g * g_alignedSize g <= g_chunkSize g /\ (g_alignment g | g_alignedSize g).
Proof. exact c15_geometry_asserts. Qed.
Print Assumptions C15_geometry.

Theorem C15_geometry_poolallocator : forall sT aT s g, 1 <= sT -> 1 <= aT -> c15_pa_geometry sT aT s = Some g -> c15_geom_good sT aT g.
Proof. exact c15_pa_geometry_good. Qed.
Print Assumptions C15_geometry_poolallocator.

(* the guard of C15_geometry is met by every moderate parameter choice *)
Theorem C15_geometry_defined : forall sT aT s, 1 <= sT -> 1 <= aT -> sT + 8 * aT + 8 <= c15_int_max -> s + 8 * aT <= c15_int_max ->
  exists g, c15_geometry sT aT s = Some g.
Proof. exact c15_geometry_defined. Qed.
Print Assumptions C15_geometry_defined.

(* --- C15_pool_inv: for EVERY history of allocate(n)/free(live block) from the empty pool:
       the spec oracle accepts the trace (every block inside its chunk, offset aligned for T, disjoint from every live block —
       hence reuse only after release; n <> 1 refused; every free succeeds), destroy releases every chunk exactly once, and
       free list + live blocks partition the slots of all chunks without repetition. *)
Theorem C15_pool_inv : forall sT aT g ops, c15_geom_good sT aT g -> c15_ops_ok 0 ops = true ->
  let r := c15_run g c15_client_empty ops in
  c15_spec_trace sT aT (g_chunkSize g) 0 [] ops (fst r) = true /\
  c15_spec_destroy (c15_spec_nchunks (fst r)) (c15_pool_destroy (cl_pool (snd r))) = true /\
  (p_chunks (cl_pool (snd r)) = rev (seq 0 (length (p_chunks (cl_pool (snd r))))) /\
   NoDup (p_free (cl_pool (snd r)) ++ cl_live (snd r)) /\
   forall b, In b (p_free (cl_pool (snd r)) ++ cl_live (snd r)) <->
             ((fst b < length (p_chunks (cl_pool (snd r))))%nat /\ exists k, k < g_elements g /\ snd b = k * g_alignedSize g)).
Proof. exact c15_pool_history. Qed.
Print Assumptions C15_pool_inv.

(* --- C15_pool_blocks: as address ranges, for any placement `base` of the chunks that honours the contract of `new Chunk`
       (aligned, pairwise disjoint): after EVERY history all live blocks are aligned for T, inside their chunk's storage,
       sizeof T bytes long and pairwise disjoint. *)
Theorem C15_pool_blocks : forall g sT aT (base : nat -> N), c15_geom_good sT aT g ->
  (forall c, (g_alignment g | base c)) ->
  (forall c c', c <> c' -> base c + g_chunkSize g <= base c' \/ base c' + g_chunkSize g <= base c) ->
  forall ops, c15_ops_ok 0 ops = true ->
    let live := cl_live (snd (c15_run g c15_client_empty ops)) in
    NoDup live /\
    (forall b, In b live -> (aT | base (fst b) + snd b) /\ base (fst b) <= base (fst b) + snd b /\
                            base (fst b) + snd b + sT <= base (fst b) + g_chunkSize g) /\
    (forall b1 b2, In b1 live -> In b2 live -> b1 <> b2 ->
       base (fst b1) + snd b1 + sT <= base (fst b2) + snd b2 \/ base (fst b2) + snd b2 + sT <= base (fst b1) + snd b1).
Proof. exact c15_pool_live_blocks. Qed.
Print Assumptions C15_pool_blocks.

(* --- C15_malloc_guard: n > max_size is refused; otherwise n*sizeof T does not wrap and the system allocator is asked for exactly
       that many bytes (aligned_alloc(alignof T, .) for over-aligned T after fixes/C15-3); a null result is refused. *)
Theorem C15_malloc_guard : forall sT aT n sys sysal, 1 <= sT ->
  (c15_max_size sT < n -> c15_malloc_allocate sT aT n sys sysal = C15BadAlloc) /\
  (n <= c15_max_size sT ->
     n * sT <= c15_size_max /\
     c15_malloc_allocate sT aT n sys sysal =
       match (if c15_max_align <? aT then sysal aT (n * sT) else sys (n * sT)) with
       | None => C15BadAlloc | Some p => C15Ok p end).
Proof. exact c15_malloc_guard. Qed.
Print Assumptions C15_malloc_guard.

Theorem C15_malloc_aligned : forall sT aT n sys sysal p,
  (forall b q, sys b = Some q -> (c15_max_align | q)) ->
  (forall a b q, sysal a b = Some q -> (a | q)) ->
  (c15_max_align < aT \/ (aT | c15_max_align)) ->
  c15_malloc_allocate sT aT n sys sysal = C15Ok p -> (aT | p).
Proof. exact c15_malloc_aligned. Qed.
Print Assumptions C15_malloc_aligned.

(* the tree as found (malloc for every T): refuted — finding F-C15-3 *)
Theorem C15_malloc_align_orig_refuted :
  exists sT aT n sys sysal p,
    (forall b q, sys b = Some q -> (c15_max_align | q)) /\ (forall a b q, sysal a b = Some q -> (a | q)) /\
    aT = 32 /\ (aT | sT) /\ c15_malloc_allocate_orig sT aT n sys sysal = C15Ok p /\ ~ (aT | p).
Proof. exact c15_malloc_align_orig_refuted. Qed.
Print Assumptions C15_malloc_align_orig_refuted.

Theorem C15_aligned_guard : forall sT aT al n sys, 1 <= sT ->
  (c15_max_size sT < n -> c15_aligned_allocate sT aT al n sys = C15BadAlloc) /\
  (n <= c15_max_size sT ->
     n * sT <= c15_size_max /\
     c15_aligned_allocate sT aT al n sys =
       match sys (c15_aligned_alignment aT al) (n * sT) with None => C15BadAlloc | Some p => C15Ok p end) /\
  (forall p, (forall a b q, sys a b = Some q -> (a | q)) ->
     c15_aligned_allocate sT aT al n sys = C15Ok p -> (c15_aligned_alignment aT al | p)).
Proof. exact c15_aligned_guard. Qed.
Print Assumptions C15_aligned_guard.

(* --- the model (with the stand-in system allocator) never serves a request the spec oracle calls unservable (n*sizeof T >= 2^47 bytes,
       or beyond max_size): its traces pass the oracle that rejects "returned a block for an unservable request" on the implementation *)
Theorem C15_unservable_refused : forall sT aT al n p, 1 <= sT ->
  (c15_malloc_allocate sT aT n c15_sys_malloc c15_sys_aligned = C15Ok p \/ c15_aligned_allocate sT aT al n c15_sys_aligned = C15Ok p) ->
  c15_spec_malloc_must_refuse sT n = false.
Proof. exact c15_model_serves_servable. Qed.
Print Assumptions C15_unservable_refused.

(* --- C15_debug_layout (code after fixes/C15-2): requests that do not fit are refused; otherwise nothing wraps, the block lies in the
       mapping and ends exactly at the guard page, which is the last page of the mapping. *)
Theorem C15_debug_layout : forall page ty sT n mm, 1 <= page -> 2 * page <= c15_size_max -> 1 <= sT ->
  ((c15_size_max - 2 * page) / sT < n -> c15_dbg_allocate page ty sT n mm = C15BadAlloc) /\
  (n <= (c15_size_max - 2 * page) / sT ->
     let cap := n * sT in
     let pages := cap / page + 2 in
     pages * page <= c15_size_max /\
     (mm (pages * page) = None -> c15_dbg_allocate page ty sT n mm = C15BadAlloc) /\
     (forall pp, mm (pages * page) = Some pp -> pp + pages * page <= 2 ^ 64 ->
        exists ai gp, c15_dbg_allocate page ty sT n mm = C15Ok (ai, gp) /\
          d_type ai = ty /\ d_page_ptr ai = pp /\ d_capacity ai = cap /\ d_size ai = n /\ d_pages ai = pages /\
          d_ptr ai = pp + page - cap mod page /\
          pp <= d_ptr ai /\ d_ptr ai + cap = gp /\ gp + page = pp + pages * page)).
Proof. exact c15_debug_layout. Qed.
Print Assumptions C15_debug_layout.

Theorem C15_debug_offset : forall page sT aT n pp, 1 <= page -> (page | pp) ->
  let ptr := pp + page - (n * sT) mod page in
  ptr mod page = (page - (n * sT) mod page) mod page /\ ((aT | page) -> (aT | sT) -> (aT | ptr)).
Proof. exact c15_debug_offset. Qed.
Print Assumptions C15_debug_offset.

(* --- C15_debug_dealloc (code after fixes/C15-1): deallocate finds, checks and removes exactly the entry of the block *)
Theorem C15_debug_dealloc : forall page l1 it l2 n, 1 <= page ->
  Forall (fun it => (page | d_page_ptr it) /\ d_ptr it = d_page_ptr it + page - d_capacity it mod page) (l1 ++ it :: l2) ->
  NoDup (map d_page_ptr (l1 ++ it :: l2)) ->
  (n = 0 \/ n = d_size it) ->
  c15_dbg_deallocate page (d_type it) (d_ptr it) n (l1 ++ it :: l2) = inr (l1 ++ l2).
Proof. exact c15_debug_dealloc. Qed.
Print Assumptions C15_debug_dealloc.

(* --- C15_debug_history (code after fixes/C15-1 and C15-2): for EVERY history of allocate(n) / deallocate(i-th live block) on the
       debugging allocator (any page size, any T whose alignment divides the page size) the spec oracle accepts the trace: every
       served block has exactly n*sizeof T bytes, ends at the guard page, is aligned for T; requests that cannot be represented are
       refused; every deallocate of a live block succeeds. *)
Theorem C15_debug_history : forall page sT aT, 1 <= page -> 2 * page <= c15_size_max -> 1 <= sT -> (aT | page) -> (aT | sT) ->
  forall ops, forallb (fun op => match op with OpAlloc _ | OpFree _ => true | _ => false end) ops = true ->
    ~ In DObsPrecond (c15_dbg_run true true page sT (c15_dbg_state0 page) ops) ->
    c15_spec_dbg_trace page sT aT 0 ops (c15_dbg_run true true page sT (c15_dbg_state0 page) ops) = true.
Proof. exact c15_debug_history. Qed.
Print Assumptions C15_debug_history.

(* --- misuse of the debugging allocator is detected (the run is stopped with the matching assertion), never silently accepted:
       wrong count, wrong element type, a pointer into no mapping; destructor: all mappings returned, abort iff blocks are in use;
       DEBUG_ALLOCATOR_KEEP: the second release of a block is reported *)
Theorem C15_debug_detects : forall page l1 it l2 n ty, 1 <= page ->
  Forall (fun it => (page | d_page_ptr it) /\ d_ptr it = d_page_ptr it + page - d_capacity it mod page) (l1 ++ it :: l2) ->
  NoDup (map d_page_ptr (l1 ++ it :: l2)) ->
  (n <> 0 /\ n <> d_size it -> c15_dbg_deallocate page ty (d_ptr it) n (l1 ++ it :: l2) = inl DbgSize) /\
  ((n = 0 \/ n = d_size it) -> ty <> d_type it -> c15_dbg_deallocate page ty (d_ptr it) n (l1 ++ it :: l2) = inl DbgType).
Proof. exact c15_debug_detects. Qed.
Print Assumptions C15_debug_detects.

Theorem C15_debug_foreign : forall page ty ptr n l,
  ~ In (c15_dbg_page_of_gen true page ptr) (map d_page_ptr l) -> c15_dbg_deallocate page ty ptr n l = inl DbgNotFound.
Proof. exact c15_debug_foreign. Qed.
Print Assumptions C15_debug_foreign.

Theorem C15_debug_keep_double_free : forall page l1 it l2 n, 1 <= page ->
  ((page | d_page_ptr it) /\ d_ptr it = d_page_ptr it + page - d_capacity it mod page) ->
  ~ In (d_page_ptr it) (map (fun e => d_page_ptr (fst e)) l1) -> (n = 0 \/ n = d_size it) ->
  exists l', c15_dbgk_deallocate page (d_type it) (d_ptr it) n (l1 ++ (it, true) :: l2) = inr l' /\
             c15_dbgk_deallocate page (d_type it) (d_ptr it) n l' = inl DbgNotFree.
Proof. exact c15_dbgk_double_free. Qed.
Print Assumptions C15_debug_keep_double_free.

(* --- copy / converting construction / rebind of a PoolAllocator never shares the pool: the copy starts empty and its first block
       is slot 0 of a chunk of its own (in C15_pool_inv the original's state is untouched by OpCopy) *)
Theorem C15_pa_copy : forall g sT aT, c15_geom_good sT aT g ->
  exists p', c15_pool_allocate g (c15_pa_copy c15_pool_empty) = C15Ok ((0%nat, 0), p') /\ forall p, c15_pa_copy p = c15_pool_empty.
Proof. exact c15_copy_first. Qed.
Print Assumptions C15_pa_copy.


(* the tree as found: refuted — findings F-C15-1 and F-C15-2 (witnesses replayed on the implementation by corpus/C15) *)
Theorem C15_debug_dealloc_orig_refuted :
  exists page sT n pp ai gp,
    (page | pp) /\ c15_dbg_allocate_orig page 0 sT n (fun _ => Some pp) = C15Ok (ai, gp) /\
    ((page | d_page_ptr ai) /\ d_ptr ai = d_page_ptr ai + page - d_capacity ai mod page) /\
    c15_dbg_deallocate_orig page 0 (d_ptr ai) n [ai] = inl DbgNotFound.
Proof. exact c15_debug_dealloc_orig_refuted. Qed.
Print Assumptions C15_debug_dealloc_orig_refuted.

Theorem C15_debug_alloc_orig_refuted :
  exists page sT n pp ai gp,
    c15_dbg_allocate_orig page 0 sT n (fun _ => Some pp) = C15Ok (ai, gp) /\ d_capacity ai < n * sT.
Proof. exact c15_debug_alloc_orig_refuted. Qed.
Print Assumptions C15_debug_alloc_orig_refuted.

(* --- C15_isAligned (debugalign.hh): Dune::isAligned(p, 2^k), i.e. libstdc++'s std::align on 64-bit words, decides p mod 2^k = 0
       (k <= 62: for 2^63 the `space = 2*align` argument wraps to 0 and the answer is always false) *)
Theorem C15_isAligned : forall p k, p < 2 ^ 64 -> k <= 62 -> c15_isAligned p (2 ^ k) = (p mod 2 ^ k =? 0).
Proof. exact c15_isAligned_correct. Qed.
Print Assumptions C15_isAligned.

(* ===== proof-deepening round ===== *)

(* --- C15_pool_refines: the pool with the LITERAL intrusive free list (head_, next_ words stored inside the free slots, any initial memory
       contents h0, clients overwriting the blocks they own with anything: junk) produces the same observations as the list-based pool
       for every history: the abstraction used by C15_pool_inv is sound for the code's data structure. *)
Theorem C15_pool_refines : forall g sT aT junk h0 ops, c15_geom_good sT aT g -> c15_ops_ok 0 ops = true ->
  fst (c15_hrun g junk (c15_hclient_empty h0) ops) = fst (c15_run g c15_client_empty ops).
Proof. exact c15_pool_refines. Qed.
Print Assumptions C15_pool_refines.

(* --- C15_pool_history_params: no hypothesis about the geometry: for ALL template parameters (sizeof T, alignof T, s) of Pool<T,s> or
       PoolAllocator<T,s> whose constants are representable, and all histories: oracle accepts, destroy returns every chunk, and the
       literal free list agrees. *)
Theorem C15_pool_history_params : forall sT aT s g ops, 1 <= sT -> 1 <= aT ->
  (c15_geometry sT aT s = Some g \/ c15_pa_geometry sT aT s = Some g) -> c15_ops_ok 0 ops = true ->
  let r := c15_run g c15_client_empty ops in
  c15_spec_trace sT aT (g_chunkSize g) 0 [] ops (fst r) = true /\
  c15_spec_destroy (c15_spec_nchunks (fst r)) (c15_pool_destroy (cl_pool (snd r))) = true /\
  (forall junk h0, fst (c15_hrun g junk (c15_hclient_empty h0) ops) = fst r).
Proof. exact c15_pool_history_params. Qed.
Print Assumptions C15_pool_history_params.

(* --- several allocator objects (copy construction, converting construction, rebind create a new allocator with an EMPTY pool):
       every allocator of every reachable configuration keeps its own invariant; a block is released by the allocator object it came
       from and refused (bad_alloc, nothing changes) by every other one, and operator== (object identity) tells which. *)
Theorem C15_multi_inv : forall g sT aT, c15_geom_good sT aT g -> forall ops ms,
  Forall (c15_pool_inv g) ms -> c15_mops_ok g ms ops = true -> Forall (c15_pool_inv g) (snd (c15_mrun g ms ops)).
Proof. exact c15_multi_inv. Qed.
Print Assumptions C15_multi_inv.

Theorem C15_multi_release : forall g sT aT ms k j i stk stj b, c15_geom_good sT aT g -> Forall (c15_pool_inv g) ms ->
  nth_error ms k = Some stk -> nth_error ms j = Some stj -> nth_error (cl_live stj) i = Some b ->
  snd (c15_mstep g ms (MEqual j k)) = MObsEq (Nat.eqb j k) /\
  (k <> j -> c15_mstep g ms (MFreeVia k j i) = (ms, MObs ObsBadAlloc)) /\
  (k = j -> snd (c15_mstep g ms (MFreeVia k j i)) = MObs ObsFreed).
Proof. exact c15_multi_release. Qed.
Print Assumptions C15_multi_release.

(* the address-level reason (contract of `new Chunk`: chunks of different objects are different storage) *)
Theorem C15_foreign_block_not_found : forall g sT aT (base : nat -> nat -> N), c15_geom_good sT aT g ->
  (forall k c j c', (k, c) <> (j, c') -> base k c + g_chunkSize g <= base j c' \/ base j c' + g_chunkSize g <= base k c) ->
  forall k j chunks nch b, k <> j -> c15_slot_valid g nch b ->
    c15_addr_in_pool base g k chunks (base j (fst b) + snd b) = false.
Proof. exact c15_foreign_block_not_found. Qed.
Print Assumptions C15_foreign_block_not_found.

Theorem C15_own_block_found : forall g sT aT (base : nat -> nat -> N), c15_geom_good sT aT g ->
  forall j chunks nch b, In (fst b) chunks -> c15_slot_valid g nch b ->
    c15_addr_in_pool base g j chunks (base j (fst b) + snd b) = true.
Proof. exact c15_own_block_found. Qed.
Print Assumptions C15_own_block_found.

(* --- C15_debug_blocks_disjoint: after EVERY history on the debugging allocator: each live block lies inside its own mapping and ends
       exactly one page below the mapping's end (the guard page); blocks of different live allocations are disjoint. *)
Theorem C15_debug_blocks_disjoint : forall page sT (aT : N), 1 <= page -> 2 * page <= c15_size_max -> 1 <= sT ->
  forall ops st', forallb (fun op => match op with OpAlloc _ | OpFree _ => true | _ => false end) ops = true ->
    c15_dbg_final true true page sT (c15_dbg_state0 page) ops = Some st' ->
    ds_live st' = map (fun it => (d_ptr it, d_size it)) (ds_list st') /\
    Forall (fun it => d_page_ptr it <= d_ptr it /\ d_ptr it + d_capacity it + page = d_page_ptr it + d_pages it * page) (ds_list st') /\
    ForallOrdPairs (fun a b => d_ptr a + d_capacity a <= d_ptr b) (ds_list st').
Proof. exact c15_debug_blocks_disjoint. Qed.
Print Assumptions C15_debug_blocks_disjoint.

Theorem C15_debug_destroy : forall page sT (aT : N), 1 <= page -> 2 * page <= c15_size_max -> 1 <= sT ->
  forall ops st', forallb (fun op => match op with OpAlloc _ | OpFree _ => true | _ => false end) ops = true ->
    c15_dbg_final true true page sT (c15_dbg_state0 page) ops = Some st' ->
    c15_spec_dbg_destroy (length (ds_live st')) (length (fst (c15_dbg_destroy (ds_list st')))) (snd (c15_dbg_destroy (ds_list st'))) = true.
Proof. exact c15_debug_destroy_final. Qed.
Print Assumptions C15_debug_destroy.

(* --- AlignedBase placement new: the violation handler is consulted exactly for misaligned addresses (default handler: abort; user
       handler: reported; empty handler: nothing); debugAlignment is the power of two 32 *)
Theorem C15_alignedbase_new : forall h p k, p < 2 ^ 64 -> k <= 62 ->
  c15_alignedbase_new h p (2 ^ k) =
    if p mod 2 ^ k =? 0 then PlacePlaced
    else match h with HandlerDefault => PlaceAbort | HandlerUser => PlaceReported | HandlerEmpty => PlacePlaced end.
Proof. exact c15_alignedbase_new_correct. Qed.
Print Assumptions C15_alignedbase_new.

Theorem C15_debug_alignment : c15_debug_alignment = 2 ^ 5.
Proof. exact c15_debug_alignment_pow2. Qed.
Print Assumptions C15_debug_alignment.

(* --- non-vacuity: hypotheses are met by non-trivial values *)
Example C15_ex_geometry : c15_geometry 12 4 41 = Some (C15Geom 12 41 8 16 48 3).
Proof. vm_compute; reflexivity. Qed.
Example C15_ex_geometry_single : c15_pa_geometry 64 64 2 = Some (C15Geom 64 128 64 64 128 2) /\ c15_geometry 100 4 7 = Some (C15Geom 100 100 8 104 104 1).
Proof. vm_compute; split; reflexivity. Qed.
Example C15_ex_history :
  let ops := [OpAlloc 1; OpAlloc 1; OpAlloc 1; OpAlloc 1; OpFree 1; OpAlloc 3; OpFreeN 0 0; OpCopy 0; OpFreeInvalid true; OpFreeInvalid false;
              OpFreeN 0 1; OpAlloc 1; OpAlloc 1; OpAlloc 1] in
  c15_ops_ok 0 ops = true /\
  fst (c15_run (C15Geom 12 41 8 16 48 3) c15_client_empty ops) =
    [ObsBlock 0 0; ObsBlock 0 16; ObsBlock 0 32; ObsBlock 1 0; ObsFreed; ObsBadAlloc; ObsNoop; ObsCopyOk; ObsBadAlloc; ObsBadAlloc;
     ObsFreed; ObsBlock 0 0; ObsBlock 0 16; ObsBlock 1 16].
Proof. vm_compute; split; reflexivity. Qed.
Example C15_ex_debug :
  exists ai gp, c15_dbg_allocate 4096 0 8 1000 (fun _ => Some 65536) = C15Ok (ai, gp) /\ d_ptr ai = 65536 + 4096 - 3904 /\ gp = 65536 + 2 * 4096 /\
    c15_dbg_deallocate 4096 0 (d_ptr ai) 1000 [ai] = inr [].
Proof. exact c15_ex_debug. Qed.
Example C15_ex_debug_page_multiple :
  exists ai gp, c15_dbg_allocate 4096 0 1 4096 (fun _ => Some 65536) = C15Ok (ai, gp) /\ c15_dbg_deallocate 4096 0 (d_ptr ai) 4096 [ai] = inr [] /\
    c15_dbg_allocate 4096 0 4 (2 ^ 62 + 1) (fun _ => Some 65536) = C15BadAlloc.
Proof. exact c15_ex_debug_page_multiple. Qed.
Example C15_ex_debug_history :
  let ops := [OpAlloc 100; OpAlloc 512; OpAlloc 0; OpFree 1; OpAlloc (2 ^ 61); OpFree 0; OpFree 0] in
  c15_dbg_run true true 4096 8 (c15_dbg_state0 4096) ops =
    [DObsOk 3296 800 true; DObsOk 0 4096 true; DObsOk 0 0 true; DObsFreed; DObsBadAlloc; DObsFreed; DObsFreed].
Proof. vm_compute; reflexivity. Qed.
Example C15_ex_isAligned : c15_isAligned 4128 32 = true /\ c15_isAligned 4112 32 = false /\ c15_isAligned (2 ^ 63) (2 ^ 63) = false.
Proof. vm_compute; repeat split; reflexivity. Qed.
Example C15_ex_debug_misuse :
  c15_dbg_run true true 4096 8 (c15_dbg_state0 4096) [OpAlloc 10; OpFreeN 0 7] = [DObsOk 4016 80 true; DObsAbort DbgSize] /\
  c15_dbg_run true true 4096 8 (c15_dbg_state0 4096) [OpAlloc 10; OpFreeN 0 0; OpFreeInvalid true] = [DObsOk 4016 80 true; DObsFreed; DObsAbort DbgNotFound] /\
  c15_dbg_run true true 4096 8 (c15_dbg_state0 4096) [OpAlloc 10; OpFreeBad 0 1] = [DObsOk 4016 80 true; DObsAbort DbgPtr] /\
  c15_dbgk_run 4096 8 (c15_dbgk_state0 4096) [OpAlloc 10; OpFree 0; OpFreeBad 0 2] = [DObsOk 4016 80 true; DObsFreed; DObsAbort DbgNotFree].
Proof. vm_compute; repeat split; reflexivity. Qed.
Example C15_ex_heap :
  let ops := [OpAlloc 1; OpAlloc 1; OpAlloc 1; OpAlloc 1; OpFree 1; OpFree 0; OpAlloc 1; OpAlloc 1; OpAlloc 1] in
  let junk := fun b : c15_slot => Some (7%nat, 123) in
  c15_ops_ok 0 ops = true /\
  fst (c15_hrun (C15Geom 12 41 8 16 48 3) junk (c15_hclient_empty (fun _ => Some (9%nat, 9))) ops) =
    [ObsBlock 0 0; ObsBlock 0 16; ObsBlock 0 32; ObsBlock 1 0; ObsFreed; ObsFreed; ObsBlock 0 0; ObsBlock 0 16; ObsBlock 1 16].
Proof. vm_compute; split; reflexivity. Qed.
Example C15_ex_multi :
  let g := C15Geom 12 41 8 16 48 3 in
  let ops := [MAlloc 0 1; MCopy 0; MAlloc 1 1; MEqual 0 1; MEqual 1 1; MFreeVia 1 0 0; MFreeVia 0 0 0; MFree 1 0] in
  c15_mops_ok g [c15_client_empty] ops = true /\
  fst (c15_mrun g [c15_client_empty] ops) =
    [MObs (ObsBlock 0 0); MObs ObsCopyOk; MObs (ObsBlock 0 0); MObsEq false; MObsEq true; MObs ObsBadAlloc; MObs ObsFreed; MObs ObsFreed].
Proof. vm_compute; split; reflexivity. Qed.
Example C15_ex_alignedbase : c15_alignedbase_new HandlerUser 4112 32 = PlaceReported /\ c15_alignedbase_new HandlerDefault 4112 32 = PlaceAbort /\
  c15_alignedbase_new HandlerEmpty 4112 32 = PlacePlaced /\ c15_alignedbase_new HandlerDefault 4128 32 = PlacePlaced.
Proof. vm_compute; repeat split; reflexivity. Qed.
