(* C15 property theorems: ONLY statements closed by `exact`, each followed by Print Assumptions. *)
From Coq Require Import List NArith Bool Arith.
From DuneV Require Import C15_Model C15_Spec.
