(* C16 property theorems: ONLY statements closed by `exact`, each followed by Print Assumptions.
   Reading guide: c16_iter_laws o rep lo hi (C16_Spec.v) says that on the iterators rep lo .. rep hi every operator of
   the table o (== != < <= > >= - ++ -- + += - -= [] * ) is integer arithmetic on positions. *)
From Coq Require Import List ZArith Bool.
From Coq Require Import Sorted Permutation.
From DuneV Require Import C16_Model C16_Spec C16_Proofs C16_Proofs_Ranges C16_Proofs_Audit.
Import ListNotations.
Local Open Scope Z_scope.

(* Forward/Bidirectional/RandomAccessIteratorFacade: for ANY derived class whose primitives obey the primitive laws,
   and for both instantiations of the interoperable operators (conv = is_convertible<T2,T1>, i.e. every const/mutable mix) *)
Theorem C16_facade_laws :
  forall (P V : Type) (pr : c16_prims P V) (rep : Z -> P) (lo hi : Z),
    c16_prim_laws pr rep lo hi -> forall conv : bool, c16_iter_laws (c16_legacy_ops pr conv) rep lo hi.
Proof. exact c16_legacy_facade_laws. Qed.
Print Assumptions C16_facade_laws.

(* IteratorFacade (new): everything forwarded to baseIterator() *)
Theorem C16_new_facade_laws :
  forall (B V W : Type) (bs : c16_base B V) (star : B -> W) (rep : Z -> B) (lo hi : Z),
    c16_base_laws bs rep lo hi -> c16_iter_laws (c16_nf_ops bs star) rep lo hi.
Proof. exact c16_new_facade_laws. Qed.
Print Assumptions C16_new_facade_laws.

(* what the laws give: ++/-- inverse; it+n = it+=n = it-(-n) = n single steps of either sign; it[n] = *(it+n); (it+n)-it = n *)
Theorem C16_laws_steps :
  forall (P V : Type) (o : c16_ops P V) (rep : Z -> P) (lo hi : Z), c16_iter_laws o rep lo hi ->
  forall a n, c16_in lo hi a -> c16_in lo hi (a + n) ->
      c16_o_plus o (rep a) n = c16_steps o (rep a) n /\
      c16_o_pluseq o (rep a) n = c16_steps o (rep a) n /\
      c16_o_minus o (rep a) (- n) = c16_steps o (rep a) n /\
      c16_o_minuseq o (rep a) (- n) = c16_steps o (rep a) n /\
      c16_o_index o (rep a) n = c16_o_star o (c16_o_plus o (rep a) n) /\
      c16_o_diff o (c16_o_plus o (rep a) n) (rep a) = n.
Proof. exact @c16_plus_is_steps. Qed.
Print Assumptions C16_laws_steps.

Theorem C16_laws_inc_dec_inverse :
  forall (P V : Type) (o : c16_ops P V) (rep : Z -> P) (lo hi : Z), c16_iter_laws o rep lo hi ->
  forall a, c16_in lo hi a ->
      (c16_in lo hi (a + 1) -> c16_o_dec o (c16_o_inc o (rep a)) = rep a) /\
      (c16_in lo hi (a - 1) -> c16_o_inc o (c16_o_dec o (rep a)) = rep a).
Proof. exact @c16_inc_dec_inverse. Qed.
Print Assumptions C16_laws_inc_dec_inverse.

(* the six comparisons are a strict total order consistent with ==, != and - ; == iff same position *)
Theorem C16_laws_strict_order :
  forall (P V : Type) (o : c16_ops P V) (rep : Z -> P) (lo hi : Z), c16_iter_laws o rep lo hi ->
  forall a b c, c16_in lo hi a -> c16_in lo hi b -> c16_in lo hi c ->
      let lt := c16_o_lt o in let eq := c16_o_eq o in let gt := c16_o_gt o in
      lt (rep a) (rep a) = false /\
      (lt (rep a) (rep b) = true -> lt (rep b) (rep c) = true -> lt (rep a) (rep c) = true) /\
      (lt (rep a) (rep b) = true -> lt (rep b) (rep a) = false) /\
      ((lt (rep a) (rep b) = true /\ eq (rep a) (rep b) = false /\ gt (rep a) (rep b) = false) \/
       (lt (rep a) (rep b) = false /\ eq (rep a) (rep b) = true /\ gt (rep a) (rep b) = false) \/
       (lt (rep a) (rep b) = false /\ eq (rep a) (rep b) = false /\ gt (rep a) (rep b) = true)) /\
      c16_o_le o (rep a) (rep b) = (lt (rep a) (rep b) || eq (rep a) (rep b)) /\
      c16_o_ge o (rep a) (rep b) = (gt (rep a) (rep b) || eq (rep a) (rep b)) /\
      gt (rep a) (rep b) = lt (rep b) (rep a) /\
      c16_o_ne o (rep a) (rep b) = negb (eq (rep a) (rep b)) /\
      (eq (rep a) (rep b) = true <-> a = b) /\
      (eq (rep a) (rep b) = true <-> c16_o_diff o (rep a) (rep b) = 0) /\
      (lt (rep a) (rep b) = true <-> c16_o_diff o (rep a) (rep b) < 0).
Proof. exact @c16_order. Qed.
Print Assumptions C16_laws_strict_order.

(* instances discharge the primitive laws *)
Theorem C16_dense_iterator :          (* size_t position, incl. the wrapped one-before-begin; |position| <= 2^61 *)
  forall xs, c16_prim_laws (c16_dense_prims xs) c16_dense_rep (- 2 ^ 61) (2 ^ 61).
Proof. exact c16_dense_prim_laws. Qed.
Print Assumptions C16_dense_iterator.

Theorem C16_dense_iterator_distance_representable :
  forall xs a b, c16_in (- 2 ^ 61) (2 ^ 61) a -> c16_in (- 2 ^ 61) (2 ^ 61) b ->
    - 2 ^ 63 <= c16_p_dist (c16_dense_prims xs) (c16_dense_rep a) (c16_dense_rep b) < 2 ^ 63.
Proof. exact c16_dense_dist_representable. Qed.
Print Assumptions C16_dense_iterator_distance_representable.

Theorem C16_generic_iterator :
  forall xs lo hi, c16_prim_laws (c16_generic_prims xs) (fun z => z) lo hi.
Proof. exact c16_generic_prim_laws. Qed.
Print Assumptions C16_generic_iterator.

Theorem C16_arraylist_iterator :
  forall start size st, c16_prim_laws (c16_alist_prims start size st) (c16_alist_rep start) (- 2 ^ 61) (2 ^ 61).
Proof. exact c16_alist_prim_laws. Qed.
Print Assumptions C16_arraylist_iterator.

(* IntegralRangeIterator<T>, any width/signedness, after fixes/C16-1.patch *)
Theorem C16_integral_range_iterator :
  forall t from lo hi,
    0 < c16_bits t -> lo <= 0 <= hi ->
    c16_tmin t <= from + lo -> from + hi <= c16_tmax t -> hi - lo < 2 ^ (c16_bits t - 1) ->
    c16_iter_laws (c16_ir_ops t true) (c16_ir_rep t from) lo hi.
Proof. exact c16_ir_iter_laws. Qed.
Print Assumptions C16_integral_range_iterator.

(* ... and as written in the unfixed tree: every iterator is less than and greater than itself (F-C16-1) *)
Theorem C16_integral_range_iterator_aswritten_refuted :
  forall t v, c16_o_lt (c16_ir_ops t false) v v = true /\ c16_o_gt (c16_ir_ops t false) v v = true.
Proof. exact c16_ir_aswritten_refuted. Qed.
Print Assumptions C16_integral_range_iterator_aswritten_refuted.

Theorem C16_integral_range_iterator_aswritten_laws_refuted :
  exists t from, ~ c16_iter_laws (c16_ir_ops t false) (c16_ir_rep t from) 0 1.
Proof. exact c16_ir_aswritten_not_strict. Qed.
Print Assumptions C16_integral_range_iterator_aswritten_laws_refuted.

(* IntegralRange<T>(from,to): range-based for yields exactly from .. to-1 (fixed or not: the loop uses != and ++ only) *)
Theorem C16_integral_range :
  forall t fixed from to fuel,
    0 < c16_bits t -> c16_tmin t <= from -> from <= to -> to <= c16_tmax t -> (Z.to_nat (to - from) < fuel)%nat ->
    c16_irange_elems t fixed fuel from to = C16Ok (map Some (c16_spec_irange from to)).
Proof. exact c16_irange_elems_correct. Qed.
Print Assumptions C16_integral_range.

Theorem C16_integral_range_queries :     (* size, empty, operator[], contains, StaticIntegralRange::integer_sequence *)
  forall t from to,
    0 < c16_bits t -> c16_tmin t <= from -> from <= to -> to <= c16_tmax t ->
    c16_irange_size t from to = to - from /\
    (c16_irange_empty from to = true <-> c16_spec_irange from to = []) /\
    (forall i, 0 <= i < to - from -> Some (c16_irange_at t from i) = nth_error (c16_spec_irange from to) (Z.to_nat i)) /\
    (forall x, c16_irange_contains from to x = true <-> In x (c16_spec_irange from to)) /\
    c16_sirange_seq t from to = c16_spec_irange from to.
Proof. exact c16_irange_queries_correct. Qed.
Print Assumptions C16_integral_range_queries.

(* TransformedRangeView: f applied to each element once, in order; size / empty / operator[] *)
Theorem C16_transformed :
  forall f xs fuel, (length xs < fuel)%nat -> c16_tr_elems f xs fuel = C16Ok (map (fun x => Some (f x)) xs).
Proof. exact c16_tr_elems_correct. Qed.
Print Assumptions C16_transformed.

Theorem C16_transformed_queries :
  forall f xs,
    c16_tr_size xs = Z.of_nat (length xs) /\
    (c16_tr_empty xs = true <-> xs = []) /\
    (forall i, (i < length xs)%nat -> c16_tr_at f xs (Z.of_nat i) = option_map f (nth_error xs i)).
Proof. exact c16_tr_queries_correct. Qed.
Print Assumptions C16_transformed_queries.

(* sparseRange pairs entries with their indices *)
Theorem C16_sparse :
  forall xs fuel, (length xs < fuel)%nat -> c16_sparse_elems xs (fun p => p) fuel = C16Ok (map Some (c16_spec_sparse xs)).
Proof. exact c16_sparse_elems_correct. Qed.
Print Assumptions C16_sparse.

(* IndexedIterator over any lawful iterator: after ANY in-range sequence of ++ -- += -=, index() moved exactly as the position did *)
Theorem C16_indexed_iterator :
  forall (P V : Type) (o : c16_ops P V) (rep : Z -> P) (lo hi : Z), c16_iter_laws o rep lo hi ->
  forall l a i, c16_in lo hi a -> c16_idx_inrange lo hi a l ->
    c16_idx_run o (rep a, i) l = (rep (a + c16_idx_total l), i + c16_idx_total l).
Proof. exact c16_idx_run_correct. Qed.
Print Assumptions C16_indexed_iterator.

(* Hybrid::forEach / accumulate / size / elementAt: compile-time containers (index loop) = run-time containers (range-for) = fold *)
Theorem C16_hybrid :
  forall m xs,
    c16_hy_log m xs = xs /\
    (forall f v, c16_hy_accumulate m f xs v = fold_left f xs v) /\
    c16_hy_size m xs = Z.of_nat (length xs) /\
    (forall i, c16_hy_elementAt m xs (Z.of_nat i) = nth_error xs i) /\
    c16_hy_log C16Static xs = c16_hy_log C16Dynamic xs /\
    (forall f v, c16_hy_accumulate C16Static f xs v = c16_hy_accumulate C16Dynamic f xs v).
Proof. exact c16_hy_correct. Qed.
Print Assumptions C16_hybrid.

(* Hybrid::switchCases: fold-expression variant, recursive variant and IntegralRange variant pick the branch iff the value is a case *)
Theorem C16_hybrid_switch :
  forall (A : Type) cases v (br : Z -> A) el,
    c16_hy_switch_static cases v br el = c16_spec_switch cases v br el /\
    c16_hy_switch_dynamic cases v br el = c16_spec_switch cases v br el /\
    (forall from to, c16_hy_switch_range from to v br el = c16_spec_switch (c16_spec_irange from to) v br el) /\
    (In v cases -> c16_spec_switch cases v br el = br v) /\ (~ In v cases -> c16_spec_switch cases v br el = el).
Proof. exact c16_hy_switch_correct. Qed.
Print Assumptions C16_hybrid_switch.

Theorem C16_hybrid_ifelse_functors :
  forall (A : Type) (c : bool) (a b : A) o x y m1 m2,
    c16_hy_ifElse C16Static c a b = c16_hy_ifElse C16Dynamic c a b /\
    c16_hy_ifElse C16Dynamic c a b = (if c then a else b) /\
    c16_hy_fun m1 m2 o x y = c16_hy_fun C16Dynamic C16Dynamic o x y.
Proof. exact c16_hy_ifelse_fun_correct. Qed.
Print Assumptions C16_hybrid_ifelse_functors.

(* ForwardIteratorFacade / BidirectionalIteratorFacade: == and != for every convertibility case, ++ ; SLList's three iterator kinds *)
Theorem C16_forward_facade_laws :
  forall (P V : Type) (pr : c16_prims P V) (rep : Z -> P) (lo hi : Z),
    (forall a, c16_in lo hi a -> c16_in lo hi (a + 1) -> c16_p_inc pr (rep a) = rep (a + 1)) ->
    (forall a b, c16_in lo hi a -> c16_in lo hi b -> c16_p_eq pr (rep a) (rep b) = (a =? b)) ->
    forall conv : bool,
      c16_fwd_laws (c16_legacy_ops pr conv) rep lo hi /\
      (forall a b, c16_in lo hi a -> c16_in lo hi b ->
         c16_bi_eq pr conv (rep a) (rep b) = (a =? b) /\ c16_bi_ne pr conv (rep a) (rep b) = negb (a =? b)).
Proof. exact c16_legacy_forward_laws. Qed.
Print Assumptions C16_forward_facade_laws.

Theorem C16_sllist_iterators :
  forall xs lo hi conv,
    c16_fwd_laws (c16_legacy_ops (c16_sl_prims xs) conv) (fun z => z) lo hi /\
    (forall p, c16_slmod_inc (p - 1, p) = (p + 1 - 1, p + 1)) /\
    (forall a b, c16_slmod_eq (a - 1, a) (b - 1, b) = (a =? b)).
Proof. exact c16_sl_forward_laws. Qed.
Print Assumptions C16_sllist_iterators.

(* ---- API-coverage audit: alternative protocols, further facade users, container-provided iterators, utilities ---- *)
(* IteratorFacade for a derived class without baseIterator(): ++ / -- are the `+= 1` / `-= 1` fallbacks *)
Theorem C16_new_facade_manual_protocol_laws :
  forall (B V W : Type) (bs : c16_base B V) (star : B -> W) (rep : Z -> B) (lo hi : Z),
    c16_base_laws bs rep lo hi -> c16_iter_laws (c16_nf_ops_manual bs star) rep lo hi.
Proof. exact c16_new_facade_manual_laws. Qed.
Print Assumptions C16_new_facade_manual_protocol_laws.

(* ContainerWrapperIterator (rows of DiagonalMatrix) on the BidirectionalIteratorFacade *)
Theorem C16_container_wrapper_iterator :
  forall xs conv,
    c16_fwd_laws (c16_legacy_ops (c16_cw_prims xs) conv) c16_dense_rep (- 2 ^ 61) (2 ^ 61) /\
    (forall a, c16_in (- 2 ^ 61) (2 ^ 61) a -> c16_in (- 2 ^ 61) (2 ^ 61) (a - 1) ->
       c16_o_dec (c16_legacy_ops (c16_cw_prims xs) conv) (c16_dense_rep a) = c16_dense_rep (a - 1)) /\
    (forall a b, c16_in (- 2 ^ 61) (2 ^ 61) a -> c16_in (- 2 ^ 61) (2 ^ 61) b ->
       c16_bi_eq (c16_cw_prims xs) conv (c16_dense_rep a) (c16_dense_rep b) = (a =? b) /\
       c16_bi_ne (c16_cw_prims xs) conv (c16_dense_rep a) (c16_dense_rep b) = negb (a =? b)).
Proof. exact c16_cw_bidirectional_laws. Qed.
Print Assumptions C16_container_wrapper_iterator.

(* begin / end / beforeEnd / beforeBegin / find of DenseVector and DenseMatrix are the iterators at positions 0, n, n-1, -1, min(i,n) *)
Theorem C16_dense_container_iterators :
  forall n i, 0 <= n < 2 ^ 63 -> 0 <= i < 2 ^ 64 ->
    c16_dense_begin = c16_dense_rep 0 /\ c16_dense_end n = c16_dense_rep n /\
    c16_dense_before_end n = c16_dense_rep (n - 1) /\ c16_dense_before_begin = c16_dense_rep (-1) /\
    c16_dense_find n i = c16_dense_rep (Z.min i n).
Proof. exact c16_dense_container_iterators. Qed.
Print Assumptions C16_dense_container_iterators.

(* max_value / min_value / any_true / all_true *)
Theorem C16_range_utilities :
  forall x xs bs,
    (In (c16_max_value x xs) (x :: xs) /\ forall y, In y (x :: xs) -> y <= c16_max_value x xs) /\
    (In (c16_min_value x xs) (x :: xs) /\ forall y, In y (x :: xs) -> c16_min_value x xs <= y) /\
    c16_any_true bs = existsb (fun b => b) bs /\ c16_all_true bs = forallb (fun b => b) bs.
Proof. exact c16_range_utilities_correct. Qed.
Print Assumptions C16_range_utilities.

(* integersequence.hh: contains / difference / equal / filter / sorted *)
Theorem C16_integer_sequence_helpers :
  forall s j v,
    (c16_iseq_contains s v = true <-> In v s) /\
    c16_iseq_difference_dec s j = filter (fun i => negb (c16_iseq_contains j i)) s /\
    (c16_iseq_equal s j = true <-> s = j) /\
    (forall f, c16_iseq_filter f s = filter f s) /\
    Permutation (c16_iseq_sorted Z.ltb s) s /\ StronglySorted Z.le (c16_iseq_sorted Z.ltb s) /\
    Permutation (c16_iseq_sorted Z.gtb s) s /\ StronglySorted Z.ge (c16_iseq_sorted Z.gtb s).
Proof. exact c16_integer_sequence_helpers. Qed.
Print Assumptions C16_integer_sequence_helpers.

(* ------------------------------------------------------------------ non-vacuity *)
(* the hypotheses of C16_facade_laws are satisfiable by a real instance, and the conclusion speaks about real values:
   one-before-begin (size_t(-1)) < position 2 for a mutable lhs and a const rhs *)
Example C16_ex_facade_hyp : exists (pr : c16_prims Z (option Z)) rep, c16_prim_laws pr rep (-1) 3.
Proof. exact (ex_intro _ (c16_generic_prims [10; 20; 30]) (ex_intro _ (fun z => z) (c16_generic_prim_laws [10; 20; 30] (-1) 3))). Qed.
Example C16_ex_dense_before_begin :
  c16_o_lt (c16_legacy_ops (c16_dense_prims [10; 20; 30]) false) (c16_dense_rep (-1)) (c16_dense_rep 2) = true /\
  c16_dense_rep (-1) = 18446744073709551615 /\
  c16_o_index (c16_legacy_ops (c16_dense_prims [10; 20; 30]) true) (c16_dense_rep (-1)) 3 = Some 30.
Proof. vm_compute. repeat split; reflexivity. Qed.
(* unsigned char range 250..255 with one-before-begin: the hypotheses of C16_integral_range_iterator hold *)
Example C16_ex_ir_hyp :
  let t := {| c16_bits := 8; c16_signed := false |} in
  0 < c16_bits t /\ -1 <= 0 <= 5 /\ c16_tmin t <= 250 + -1 /\ 250 + 5 <= c16_tmax t /\ 5 - -1 < 2 ^ (c16_bits t - 1).
Proof. vm_compute. repeat split; intros; discriminate. Qed.
Example C16_ex_irange : c16_irange_elems {| c16_bits := 16; c16_signed := true |} true 10 32765 32767 = C16Ok [Some 32765; Some 32766].
Proof. vm_compute. reflexivity. Qed.
Example C16_ex_idx_inrange : c16_idx_inrange 0 5 0 [C16Inc; C16PlusEq 3; C16Dec; C16MinusEq 2] /\ c16_idx_total [C16Inc; C16PlusEq 3; C16Dec; C16MinusEq 2] = 1.
Proof. vm_compute. repeat split; intros; discriminate. Qed.
Example C16_ex_switch : c16_hy_switch_dynamic [1; 4; 2] 4 (fun i => 100 + i) (-1) = 104 /\ c16_hy_switch_static [5; 5; 7] 6 (fun i => 100 + i) (-1) = -1.
Proof. vm_compute. split; reflexivity. Qed.
Example C16_ex_accumulate : c16_hy_accumulate C16Static (fun a x => 7 * a + x) [4; 5; 6] 1 = 580.
Proof. vm_compute. reflexivity. Qed.
Example C16_ex_sorted : c16_iseq_sorted Z.ltb [5; 5; 0; 9; 2; 2; 7] = [0; 2; 2; 5; 5; 7; 9] /\ c16_iseq_difference_dec [5; 5; 0; 9; 2; 2; 7] [2; 3; 9] = [5; 5; 0; 7].
Proof. vm_compute. split; reflexivity. Qed.
Example C16_ex_manual_protocol : c16_o_inc (c16_nf_ops_manual (c16_vec_base [10; 20]) (fun p => c16_at [10; 20] p)) 0 = 1 /\ c16_dense_find 3 7 = 3.
Proof. vm_compute. split; reflexivity. Qed.
