(* C16 property theorems: ONLY statements closed by `exact`, each followed by Print Assumptions.
   Reading guide: c16_iter_laws o rep lo hi (C16_Spec.v) says that on the iterators rep lo .. rep hi every operator of
   the table o (== != < <= > >= - ++ -- + += - -= [] * ) is integer arithmetic on positions. *)
From Coq Require Import List ZArith Bool.
From Coq Require Import Sorted Permutation.
From DuneV Require Import Params_gen C16_Model C16_Spec C16_Proofs C16_Proofs_Ranges C16_Proofs_Audit C16_Proofs_Deep C16_Proofs_Deep2 C16_Proofs_Audit2.
Import ListNotations.
Local Open Scope Z_scope.

(* Forward/Bidirectional/RandomAccessIteratorFacade: for ANY derived class whose primitives obey the primitive laws,
   and for both instantiations of the interoperable operators (conv = is_convertible<T2,T1>, i.e. every const/mutable mix) *)
Theorem C16_facade_laws :
  forall (P V : Type) (pr : c16_prims P V) (rep : Z -> P) (lo hi : Z),
    c16_prim_laws pr rep lo hi -> forall conv : bool, c16_iter_laws (c16_legacy_ops pr conv) rep lo hi.
Proof. exact c16_legacy_facade_laws. Qed.
Print Assumptions C16_facade_laws.

(* IteratorFacade (new): everything forwarded to baseIterator() *)
Theorem C16_new_facade_laws :
  forall (B V W : Type) (bs : c16_base B V) (star : B -> W) (rep : Z -> B) (lo hi : Z),
    c16_base_laws bs rep lo hi -> c16_iter_laws (c16_nf_ops bs star) rep lo hi.
Proof. exact c16_new_facade_laws. Qed.
Print Assumptions C16_new_facade_laws.

(* what the laws give: ++/-- inverse; it+n = it+=n = it-(-n) = n single steps of either sign; it[n] = *(it+n); (it+n)-it = n *)
Theorem C16_laws_steps :
  forall (P V : Type) (o : c16_ops P V) (rep : Z -> P) (lo hi : Z), c16_iter_laws o rep lo hi ->
  forall a n, c16_in lo hi a -> c16_in lo hi (a + n) ->
      c16_o_plus o (rep a) n = c16_steps o (rep a) n /\
      c16_o_pluseq o (rep a) n = c16_steps o (rep a) n /\
      c16_o_minus o (rep a) (- n) = c16_steps o (rep a) n /\
      c16_o_minuseq o (rep a) (- n) = c16_steps o (rep a) n /\
      c16_o_index o (rep a) n = c16_o_star o (c16_o_plus o (rep a) n) /\
      c16_o_diff o (c16_o_plus o (rep a) n) (rep a) = n.
Proof. exact @c16_plus_is_steps. Qed.
Print Assumptions C16_laws_steps.

Theorem C16_laws_inc_dec_inverse :
  forall (P V : Type) (o : c16_ops P V) (rep : Z -> P) (lo hi : Z), c16_iter_laws o rep lo hi ->
  forall a, c16_in lo hi a ->
      (c16_in lo hi (a + 1) -> c16_o_dec o (c16_o_inc o (rep a)) = rep a) /\
      (c16_in lo hi (a - 1) -> c16_o_inc o (c16_o_dec o (rep a)) = rep a).
Proof. exact @c16_inc_dec_inverse. Qed.
Print Assumptions C16_laws_inc_dec_inverse.

(* the six comparisons are a strict total order consistent with ==, != and - ; == iff same position *)
Theorem C16_laws_strict_order :
  forall (P V : Type) (o : c16_ops P V) (rep : Z -> P) (lo hi : Z), c16_iter_laws o rep lo hi ->
  forall a b c, c16_in lo hi a -> c16_in lo hi b -> c16_in lo hi c ->
      let lt := c16_o_lt o in let eq := c16_o_eq o in let gt := c16_o_gt o in
      lt (rep a) (rep a) = false /\
      (lt (rep a) (rep b) = true -> lt (rep b) (rep c) = true -> lt (rep a) (rep c) = true) /\
      (lt (rep a) (rep b) = true -> lt (rep b) (rep a) = false) /\
      ((lt (rep a) (rep b) = true /\ eq (rep a) (rep b) = false /\ gt (rep a) (rep b) = false) \/
       (lt (rep a) (rep b) = false /\ eq (rep a) (rep b) = true /\ gt (rep a) (rep b) = false) \/
       (lt (rep a) (rep b) = false /\ eq (rep a) (rep b) = false /\ gt (rep a) (rep b) = true)) /\
      c16_o_le o (rep a) (rep b) = (lt (rep a) (rep b) || eq (rep a) (rep b)) /\
      c16_o_ge o (rep a) (rep b) = (gt (rep a) (rep b) || eq (rep a) (rep b)) /\
      gt (rep a) (rep b) = lt (rep b) (rep a) /\
      c16_o_ne o (rep a) (rep b) = negb (eq (rep a) (rep b)) /\
      (eq (rep a) (rep b) = true <-> a = b) /\
      (eq (rep a) (rep b) = true <-> c16_o_diff o (rep a) (rep b) = 0) /\
      (lt (rep a) (rep b) = true <-> c16_o_diff o (rep a) (rep b) < 0).
Proof. exact @c16_order. Qed.
Print Assumptions C16_laws_strict_order.

(* instances discharge the primitive laws *)
Theorem C16_dense_iterator :          (* size_t position, incl. the wrapped one-before-begin; |position| <= 2^61 *)
  forall xs, c16_prim_laws (c16_dense_prims xs) c16_dense_rep (- 2 ^ 61) (2 ^ 61).
Proof. exact c16_dense_prim_laws. Qed.
Print Assumptions C16_dense_iterator.

Theorem C16_dense_iterator_distance_representable :
  forall xs a b, c16_in (- 2 ^ 61) (2 ^ 61) a -> c16_in (- 2 ^ 61) (2 ^ 61) b ->
    - 2 ^ 63 <= c16_p_dist (c16_dense_prims xs) (c16_dense_rep a) (c16_dense_rep b) < 2 ^ 63.
Proof. exact c16_dense_dist_representable. Qed.
Print Assumptions C16_dense_iterator_distance_representable.

Theorem C16_generic_iterator :
  forall xs lo hi, c16_prim_laws (c16_generic_prims xs) (fun z => z) lo hi.
Proof. exact c16_generic_prim_laws. Qed.
Print Assumptions C16_generic_iterator.

Theorem C16_arraylist_iterator :
  forall start size st, c16_prim_laws (c16_alist_prims start size st) (c16_alist_rep start) (- 2 ^ 61) (2 ^ 61).
Proof. exact c16_alist_prim_laws. Qed.
Print Assumptions C16_arraylist_iterator.

(* IntegralRangeIterator<T>, any width/signedness, with the comparison-operator tokens of the CURRENT source (c16_param_ir_* in
   Params_gen.v, re-read by tools/params.d/C16.py on every run): editing a token in rangeutilities.hh makes this proof fail *)
Theorem C16_integral_range_iterator :
  forall t from lo hi,
    0 < c16_bits t -> lo <= 0 <= hi ->
    c16_tmin t <= from + lo -> from + hi <= c16_tmax t -> hi - lo < 2 ^ (c16_bits t - 1) ->
    c16_iter_laws (c16_ir_ops_src t) (c16_ir_rep t from) lo hi.
Proof. exact c16_ir_src_iter_laws. Qed.
Print Assumptions C16_integral_range_iterator.

(* ... and as written in the unfixed tree: every iterator is less than and greater than itself (F-C16-1) *)
Theorem C16_integral_range_iterator_aswritten_refuted :
  forall t v, c16_o_lt (c16_ir_ops t false) v v = true /\ c16_o_gt (c16_ir_ops t false) v v = true.
Proof. exact c16_ir_aswritten_refuted. Qed.
Print Assumptions C16_integral_range_iterator_aswritten_refuted.

Theorem C16_integral_range_iterator_aswritten_laws_refuted :
  exists t from, ~ c16_iter_laws (c16_ir_ops t false) (c16_ir_rep t from) 0 1.
Proof. exact c16_ir_aswritten_not_strict. Qed.
Print Assumptions C16_integral_range_iterator_aswritten_laws_refuted.

(* IntegralRange<T>(from,to): range-based for yields exactly from .. to-1 (fixed or not: the loop uses != and ++ only) *)
Theorem C16_integral_range :
  forall t fixed from to fuel,
    0 < c16_bits t -> c16_tmin t <= from -> from <= to -> to <= c16_tmax t -> (Z.to_nat (to - from) < fuel)%nat ->
    c16_irange_elems t fixed fuel from to = C16Ok (map Some (c16_spec_irange from to)).
Proof. exact c16_irange_elems_correct. Qed.
Print Assumptions C16_integral_range.

Theorem C16_integral_range_queries :     (* size, empty, operator[], contains, StaticIntegralRange::integer_sequence *)
  forall t from to,
    0 < c16_bits t -> c16_tmin t <= from -> from <= to -> to <= c16_tmax t ->
    c16_irange_size t from to = to - from /\
    (c16_irange_empty from to = true <-> c16_spec_irange from to = []) /\
    (forall i, 0 <= i < to - from -> Some (c16_irange_at t from i) = nth_error (c16_spec_irange from to) (Z.to_nat i)) /\
    (forall x, c16_irange_contains from to x = true <-> In x (c16_spec_irange from to)) /\
    c16_sirange_seq t from to = c16_spec_irange from to.
Proof. exact c16_irange_queries_correct. Qed.
Print Assumptions C16_integral_range_queries.

(* TransformedRangeView: f applied to each element once, in order; size / empty / operator[] *)
Theorem C16_transformed :
  forall f xs fuel, (length xs < fuel)%nat -> c16_tr_elems f xs fuel = C16Ok (map (fun x => Some (f x)) xs).
Proof. exact c16_tr_elems_correct. Qed.
Print Assumptions C16_transformed.

Theorem C16_transformed_queries :
  forall f xs,
    c16_tr_size xs = Z.of_nat (length xs) /\
    (c16_tr_empty xs = true <-> xs = []) /\
    (forall i, (i < length xs)%nat -> c16_tr_at f xs (Z.of_nat i) = option_map f (nth_error xs i)).
Proof. exact c16_tr_queries_correct. Qed.
Print Assumptions C16_transformed_queries.

(* sparseRange pairs entries with their indices *)
Theorem C16_sparse :
  forall xs fuel, (length xs < fuel)%nat -> c16_sparse_elems xs (fun p => p) fuel = C16Ok (map Some (c16_spec_sparse xs)).
Proof. exact c16_sparse_elems_correct. Qed.
Print Assumptions C16_sparse.

(* IndexedIterator over any lawful iterator: after ANY in-range sequence of ++ -- += -=, index() moved exactly as the position did *)
Theorem C16_indexed_iterator :
  forall (P V : Type) (o : c16_ops P V) (rep : Z -> P) (lo hi : Z), c16_iter_laws o rep lo hi ->
  forall l a i, c16_in lo hi a -> c16_idx_inrange lo hi a l ->
    c16_idx_run o (rep a, i) l = (rep (a + c16_idx_total l), i + c16_idx_total l).
Proof. exact c16_idx_run_correct. Qed.
Print Assumptions C16_indexed_iterator.

(* Hybrid::forEach / accumulate / size / elementAt: compile-time containers (index loop) = run-time containers (range-for) = fold *)
Theorem C16_hybrid :
  forall m xs,
    c16_hy_log m xs = xs /\
    (forall f v, c16_hy_accumulate m f xs v = fold_left f xs v) /\
    c16_hy_size m xs = Z.of_nat (length xs) /\
    (forall i, c16_hy_elementAt m xs (Z.of_nat i) = nth_error xs i) /\
    c16_hy_log C16Static xs = c16_hy_log C16Dynamic xs /\
    (forall f v, c16_hy_accumulate C16Static f xs v = c16_hy_accumulate C16Dynamic f xs v).
Proof. exact c16_hy_correct. Qed.
Print Assumptions C16_hybrid.

(* Hybrid::switchCases: fold-expression variant, recursive variant and IntegralRange variant pick the branch iff the value is a case *)
Theorem C16_hybrid_switch :
  forall (A : Type) cases v (br : Z -> A) el,
    c16_hy_switch_static cases v br el = c16_spec_switch cases v br el /\
    c16_hy_switch_dynamic cases v br el = c16_spec_switch cases v br el /\
    (forall from to, c16_hy_switch_range from to v br el = c16_spec_switch (c16_spec_irange from to) v br el) /\
    (In v cases -> c16_spec_switch cases v br el = br v) /\ (~ In v cases -> c16_spec_switch cases v br el = el).
Proof. exact c16_hy_switch_correct. Qed.
Print Assumptions C16_hybrid_switch.

Theorem C16_hybrid_ifelse_functors :
  forall (A : Type) (c : bool) (a b : A) o x y m1 m2,
    c16_hy_ifElse C16Static c a b = c16_hy_ifElse C16Dynamic c a b /\
    c16_hy_ifElse C16Dynamic c a b = (if c then a else b) /\
    c16_hy_fun m1 m2 o x y = c16_hy_fun C16Dynamic C16Dynamic o x y.
Proof. exact c16_hy_ifelse_fun_correct. Qed.
Print Assumptions C16_hybrid_ifelse_functors.

(* ForwardIteratorFacade / BidirectionalIteratorFacade: == and != for every convertibility case, ++ ; SLList's three iterator kinds *)
Theorem C16_forward_facade_laws :
  forall (P V : Type) (pr : c16_prims P V) (rep : Z -> P) (lo hi : Z),
    (forall a, c16_in lo hi a -> c16_in lo hi (a + 1) -> c16_p_inc pr (rep a) = rep (a + 1)) ->
    (forall a b, c16_in lo hi a -> c16_in lo hi b -> c16_p_eq pr (rep a) (rep b) = (a =? b)) ->
    forall conv : bool,
      c16_fwd_laws (c16_legacy_ops pr conv) rep lo hi /\
      (forall a b, c16_in lo hi a -> c16_in lo hi b ->
         c16_bi_eq pr conv (rep a) (rep b) = (a =? b) /\ c16_bi_ne pr conv (rep a) (rep b) = negb (a =? b)).
Proof. exact c16_legacy_forward_laws. Qed.
Print Assumptions C16_forward_facade_laws.

Theorem C16_sllist_iterators :
  forall xs lo hi conv,
    c16_fwd_laws (c16_legacy_ops (c16_sl_prims xs) conv) (fun z => z) lo hi /\
    (forall p, c16_slmod_inc (p - 1, p) = (p + 1 - 1, p + 1)) /\
    (forall a b, c16_slmod_eq (a - 1, a) (b - 1, b) = (a =? b)).
Proof. exact c16_sl_forward_laws. Qed.
Print Assumptions C16_sllist_iterators.

(* ---- API-coverage audit: alternative protocols, further facade users, container-provided iterators, utilities ---- *)
(* IteratorFacade for a derived class without baseIterator(): ++ / -- are the `+= 1` / `-= 1` fallbacks *)
Theorem C16_new_facade_manual_protocol_laws :
  forall (B V W : Type) (bs : c16_base B V) (star : B -> W) (rep : Z -> B) (lo hi : Z),
    c16_base_laws bs rep lo hi -> c16_iter_laws (c16_nf_ops_manual bs star) rep lo hi.
Proof. exact c16_new_facade_manual_laws. Qed.
Print Assumptions C16_new_facade_manual_protocol_laws.

(* ContainerWrapperIterator (rows of DiagonalMatrix) on the BidirectionalIteratorFacade *)
Theorem C16_container_wrapper_iterator :
  forall xs conv,
    c16_fwd_laws (c16_legacy_ops (c16_cw_prims xs) conv) c16_dense_rep (- 2 ^ 61) (2 ^ 61) /\
    (forall a, c16_in (- 2 ^ 61) (2 ^ 61) a -> c16_in (- 2 ^ 61) (2 ^ 61) (a - 1) ->
       c16_o_dec (c16_legacy_ops (c16_cw_prims xs) conv) (c16_dense_rep a) = c16_dense_rep (a - 1)) /\
    (forall a b, c16_in (- 2 ^ 61) (2 ^ 61) a -> c16_in (- 2 ^ 61) (2 ^ 61) b ->
       c16_bi_eq (c16_cw_prims xs) conv (c16_dense_rep a) (c16_dense_rep b) = (a =? b) /\
       c16_bi_ne (c16_cw_prims xs) conv (c16_dense_rep a) (c16_dense_rep b) = negb (a =? b)).
Proof. exact c16_cw_bidirectional_laws. Qed.
Print Assumptions C16_container_wrapper_iterator.

(* begin / end / beforeEnd / beforeBegin / find of DenseVector and DenseMatrix are the iterators at positions 0, n, n-1, -1, min(i,n) *)
Theorem C16_dense_container_iterators :
  forall n i, 0 <= n < 2 ^ 63 -> 0 <= i < 2 ^ 64 ->
    c16_dense_begin = c16_dense_rep 0 /\ c16_dense_end n = c16_dense_rep n /\
    c16_dense_before_end n = c16_dense_rep (n - 1) /\ c16_dense_before_begin = c16_dense_rep (-1) /\
    c16_dense_find n i = c16_dense_rep (Z.min i n).
Proof. exact c16_dense_container_iterators. Qed.
Print Assumptions C16_dense_container_iterators.

(* max_value / min_value / any_true / all_true *)
Theorem C16_range_utilities :
  forall x xs bs,
    (In (c16_max_value x xs) (x :: xs) /\ forall y, In y (x :: xs) -> y <= c16_max_value x xs) /\
    (In (c16_min_value x xs) (x :: xs) /\ forall y, In y (x :: xs) -> c16_min_value x xs <= y) /\
    c16_any_true bs = existsb (fun b => b) bs /\ c16_all_true bs = forallb (fun b => b) bs.
Proof. exact c16_range_utilities_correct. Qed.
Print Assumptions C16_range_utilities.

(* integersequence.hh: contains / difference / equal / filter / sorted *)
Theorem C16_integer_sequence_helpers :
  forall s j v,
    (c16_iseq_contains s v = true <-> In v s) /\
    c16_iseq_difference_dec s j = filter (fun i => negb (c16_iseq_contains j i)) s /\
    (c16_iseq_equal s j = true <-> s = j) /\
    (forall f, c16_iseq_filter f s = filter f s) /\
    Permutation (c16_iseq_sorted Z.ltb s) s /\ StronglySorted Z.le (c16_iseq_sorted Z.ltb s) /\
    Permutation (c16_iseq_sorted Z.gtb s) s /\ StronglySorted Z.ge (c16_iseq_sorted Z.gtb s).
Proof. exact c16_integer_sequence_helpers. Qed.
Print Assumptions C16_integer_sequence_helpers.

(* ---- proof-deepening round: every operator of every class, postfix forms, conversions, container identity, ranges over any iterator ---- *)
(* postfix ++ / -- return the old value and advance; n + it = it + n; -> reaches what * yields *)
Theorem C16_postfix_nplus_arrow :
  forall (P V : Type) (o : c16_ops P V) (rep : Z -> P) (lo hi : Z), c16_iter_laws o rep lo hi ->
  forall a, c16_in lo hi a ->
    (c16_in lo hi (a + 1) -> c16_post_inc o (rep a) = (rep a, rep (a + 1))) /\
    (c16_in lo hi (a - 1) -> c16_post_dec o (rep a) = (rep a, rep (a - 1))) /\
    (forall n, c16_in lo hi (a + n) -> c16_nplus o n (rep a) = rep (a + n) /\ c16_nplus o n (rep a) = c16_o_plus o (rep a) n) /\
    c16_arrow o (rep a) = c16_o_star o (rep a).
Proof. exact c16_postfix_laws. Qed.
Print Assumptions C16_postfix_nplus_arrow.

(* iterators storing their container: the primitive laws lift; iterators into different containers are never equal; conversion keeps both members *)
Theorem C16_container_tagged_primitives :
  forall (P V : Type) (pr : c16_prims P V) (rep : Z -> P) (lo hi : Z), c16_prim_laws pr rep lo hi ->
  forall c : Z, c16_prim_laws (c16_tag_prims pr) (fun a => (c, rep a)) lo hi.
Proof. exact c16_tag_prim_laws. Qed.
Print Assumptions C16_container_tagged_primitives.

Theorem C16_container_identity :
  forall (P V : Type) (pr : c16_prims P V) (conv : bool) (c1 c2 : Z) (x y : P),
    c1 <> c2 ->
    c16_o_eq (c16_legacy_ops (c16_tag_prims pr) conv) (c1, x) (c2, y) = false /\
    c16_o_ne (c16_legacy_ops (c16_tag_prims pr) conv) (c1, x) (c2, y) = true /\
    c16_convert (c1, x) = (c1, x).
Proof. exact c16_tag_container_identity. Qed.
Print Assumptions C16_container_identity.

(* the complete operator table (comparisons, difference, increments, decrements, advance, subscript, dereference) of each class, for every const/mutable mix *)
Theorem C16_dense_iterator_all_operators :
  forall xs conv c,
    c16_iter_laws (c16_legacy_ops (c16_tag_prims (c16_dense_prims xs)) conv) (fun a => (c, c16_dense_rep a)) (- 2 ^ 61) (2 ^ 61).
Proof. exact c16_dense_iterator_laws. Qed.
Print Assumptions C16_dense_iterator_all_operators.

Theorem C16_generic_iterator_all_operators :
  forall xs conv c lo hi,
    c16_iter_laws (c16_legacy_ops (c16_tag_prims (c16_generic_prims xs)) conv) (fun a => (c, a)) lo hi.
Proof. exact c16_generic_iterator_laws. Qed.
Print Assumptions C16_generic_iterator_all_operators.

Theorem C16_arraylist_iterator_all_operators :
  forall start size st conv,
    c16_iter_laws (c16_legacy_ops (c16_alist_prims start size st) conv) (c16_alist_rep start) (- 2 ^ 61) (2 ^ 61).
Proof. exact c16_arraylist_iterator_laws. Qed.
Print Assumptions C16_arraylist_iterator_all_operators.

(* TransformedRangeIterator (value or iterator transformation) and sparseRange's iterator over ANY lawful underlying iterator *)
Theorem C16_transformed_iterator_all_operators :
  forall (P V W : Type) (o : c16_ops P V) (rep : Z -> P) (lo hi : Z), c16_iter_laws o rep lo hi ->
    (forall f : V -> W, c16_iter_laws (c16_tr_over o f) rep lo hi) /\
    (forall g : P -> W, c16_iter_laws (c16_itr_over o g) rep lo hi) /\
    (forall index, c16_iter_laws (c16_sparse_over o index) rep lo hi).
Proof. exact c16_transformed_iterator_laws. Qed.
Print Assumptions C16_transformed_iterator_all_operators.

Theorem C16_transformed_vector_iterator_all_operators :
  forall f xs lo hi,
    c16_iter_laws (c16_tr_ops f xs) (fun z => z) lo hi /\ c16_iter_laws (c16_sparse_ops xs (fun p => p)) (fun z => z) lo hi.
Proof. exact c16_tr_vector_iterator_laws. Qed.
Print Assumptions C16_transformed_vector_iterator_all_operators.

(* IndexedIterator<Iter> over any lawful Iter is a lawful iterator whose index() is start index + position; the inherited it + n / it - n drop the index *)
Theorem C16_indexed_iterator_all_operators :
  forall (P V : Type) (o : c16_ops P V) (rep : Z -> P) (lo hi : Z), c16_iter_laws o rep lo hi ->
  forall i0 : Z,
    c16_iter_laws (c16_idx_ops o) (fun a => (rep a, i0 + a)) lo hi /\
    (forall a, c16_in lo hi a -> c16_idx_index (rep a, i0 + a) = i0 + a) /\
    (forall a n, c16_in lo hi a -> c16_in lo hi (a + n) -> c16_idx_plus o (rep a, i0 + a) n = rep (a + n)) /\
    (forall a n, c16_in lo hi a -> c16_in lo hi (a - n) -> c16_idx_minus o (rep a, i0 + a) n = rep (a - n)) /\
    (forall a, c16_in lo hi a -> c16_in lo hi (a + 1) -> c16_idx_post_inc o (rep a, i0 + a) = ((rep a, i0 + a), (rep (a + 1), i0 + (a + 1)))) /\
    (forall a, c16_in lo hi a -> c16_in lo hi (a - 1) -> c16_idx_post_dec o (rep a, i0 + a) = ((rep a, i0 + a), (rep (a - 1), i0 + (a - 1)))).
Proof. exact c16_indexed_iterator_laws. Qed.
Print Assumptions C16_indexed_iterator_all_operators.

(* range-based for over an IteratorRange of forward-lawful iterators visits exactly positions a .. a+n-1 *)
Theorem C16_iterator_range :
  forall (P V : Type) (o : c16_ops P V) (rep : Z -> P) (lo hi : Z), c16_fwd_laws o rep lo hi ->
  forall (n : nat) (a : Z) (fuel : nat), c16_in lo hi a -> c16_in lo hi (a + Z.of_nat n) -> (n < fuel)%nat ->
    c16_range_for o fuel (c16_iterrange (rep a) (rep (a + Z.of_nat n))) = C16Ok (map (fun k => c16_o_star o (rep (a + Z.of_nat k))) (seq 0 n)).
Proof. exact c16_range_for_correct. Qed.
Print Assumptions C16_iterator_range.

(* transformed / sparse range over the range of ANY lawful iterator: f applied to each element once in order; entries paired with index() *)
Theorem C16_transformed_over_any_range :
  forall (P V W : Type) (o : c16_ops P V) (rep : Z -> P) (lo hi : Z), c16_iter_laws o rep lo hi ->
  forall (f : V -> W) (index : P -> Z) (n : nat) (a : Z) (fuel : nat), c16_in lo hi a -> c16_in lo hi (a + Z.of_nat n) -> (n < fuel)%nat ->
    c16_range_for (c16_tr_over o f) fuel (c16_iterrange (rep a) (rep (a + Z.of_nat n))) =
      C16Ok (map (fun k => f (c16_o_star o (rep (a + Z.of_nat k)))) (seq 0 n)) /\
    c16_range_for (c16_sparse_over o index) fuel (c16_iterrange (rep a) (rep (a + Z.of_nat n))) =
      C16Ok (map (fun k => (c16_o_star o (rep (a + Z.of_nat k)), index (rep (a + Z.of_nat k)))) (seq 0 n)).
Proof. exact c16_transformed_range_correct. Qed.
Print Assumptions C16_transformed_over_any_range.

Theorem C16_sparse_over_indexed_range :
  forall (P V : Type) (o : c16_ops P V) (rep : Z -> P) (lo hi : Z), c16_iter_laws o rep lo hi ->
  forall (i0 : Z) (n : nat) (a : Z) (fuel : nat), c16_in lo hi a -> c16_in lo hi (a + Z.of_nat n) -> (n < fuel)%nat ->
    c16_range_for (c16_sparse_over (c16_idx_ops o) c16_idx_index) fuel (c16_iterrange (rep a, i0 + a) (rep (a + Z.of_nat n), i0 + (a + Z.of_nat n))) =
      C16Ok (map (fun k => (c16_o_star o (rep (a + Z.of_nat k)), i0 + (a + Z.of_nat k))) (seq 0 n)).
Proof. exact c16_sparse_indexed_range_correct. Qed.
Print Assumptions C16_sparse_over_indexed_range.

(* SLList: iterator / const_iterator / ModifyIterator with their declared equals overloads and converting constructors: all nine
   operator== / != instantiations compare the nodes; ++ moves both parts of the modify iterator; conversions keep the node *)
Theorem C16_sllist_three_classes :
  forall l r : c16_sl,
    c16_sl_facade_eq l r = (c16_sl_cur l =? c16_sl_cur r) /\
    c16_sl_facade_ne l r = negb (c16_sl_cur l =? c16_sl_cur r) /\
    c16_sl_member_equals l r = (c16_sl_cur l =? c16_sl_cur r) /\
    c16_sl_cur (c16_sl_inc l) = c16_sl_cur l + 1 /\ c16_sl_class (c16_sl_inc l) = c16_sl_class l /\
    (c16_sl_wf l -> c16_sl_wf (c16_sl_inc l)) /\
    c16_sl_cur (c16_sl_to_const l) = c16_sl_cur l /\ c16_sl_cur (c16_sl_to_it l) = c16_sl_cur l /\
    c16_sl_wf c16_sl_begin_modify /\ (forall n, c16_sl_wf (c16_sl_end_modify n)) /\
    c16_sl_cur c16_sl_begin_modify = 0 /\ (forall n, c16_sl_cur (c16_sl_end_modify n) = n).
Proof. exact c16_sllist_classes_correct. Qed.
Print Assumptions C16_sllist_three_classes.

(* StaticIntegralRange<T,to,from>: size, operator[] (size_type and integral_constant index), integer_sequence, range-based for *)
Theorem C16_static_integral_range :
  forall t from to,
    0 < c16_bits t -> c16_tmin t <= from -> from <= to -> to <= c16_tmax t ->
    c16_sirange_size t from to = to - from /\
    (forall i, 0 <= i < to - from -> Some (c16_sirange_at t from i) = nth_error (c16_spec_irange from to) (Z.to_nat i)) /\
    c16_sirange_seq t from to = c16_spec_irange from to /\
    (forall fuel, (Z.to_nat (to - from) < fuel)%nat ->
       c16_range_for (c16_ir_ops_src t) fuel (c16_iterrange from to) = C16Ok (map Some (c16_spec_irange from to))).
Proof. exact c16_static_integral_range_correct. Qed.
Print Assumptions C16_static_integral_range.

(* Hybrid::integralRange / forEach over index ranges: compile-time and run-time loops visit the same indices from .. to-1 *)
Theorem C16_hybrid_integral_range :
  forall t from to fuel,
    0 < c16_bits t -> c16_tmin t <= from -> from <= to -> to <= c16_tmax t -> (Z.to_nat (to - from) < fuel)%nat ->
    c16_hy_log C16Static (c16_sirange_seq t from to) = c16_spec_irange from to /\
    c16_range_for (c16_ir_ops_src t) fuel (c16_iterrange from to) = C16Ok (map Some (c16_hy_log C16Static (c16_sirange_seq t from to))) /\
    c16_hy_size C16Static (c16_sirange_seq t from to) = to - from.
Proof. exact c16_hybrid_integral_range_correct. Qed.
Print Assumptions C16_hybrid_integral_range.

(* "visit exactly the intended elements": range-based for over the containers' own begin() .. end() yields the stored elements in order
   (DenseVector / DenseMatrix rows, a GenericIterator container, SLList, DiagonalMatrix rows; ArrayList with its start offset) *)
Theorem C16_container_traversal :
  forall (xs : list Z) (conv : bool) (fuel : nat),
    Z.of_nat (length xs) <= 2 ^ 61 -> (length xs < fuel)%nat ->
    let n := Z.of_nat (length xs) in
    c16_range_for (c16_legacy_ops (c16_dense_prims xs) conv) fuel (c16_iterrange c16_dense_begin (c16_dense_end n)) = C16Ok (map Some xs) /\
    c16_range_for (c16_legacy_ops (c16_generic_prims xs) conv) fuel (c16_iterrange 0 n) = C16Ok (map Some xs) /\
    c16_range_for (c16_legacy_ops (c16_sl_prims xs) conv) fuel (c16_iterrange 0 n) = C16Ok (map Some xs) /\
    c16_range_for (c16_legacy_ops (c16_cw_prims xs) conv) fuel (c16_iterrange c16_dense_begin (c16_dense_end n)) = C16Ok (map Some xs).
Proof. exact c16_container_traversal. Qed.
Print Assumptions C16_container_traversal.

Theorem C16_arraylist_traversal :
  forall (st : list Z) (start size : nat) (conv : bool) (fuel : nat),
    (start + size <= length st)%nat -> Z.of_nat (length st) <= 2 ^ 61 -> (size < fuel)%nat ->
    c16_alist_begin (Z.of_nat start) = c16_alist_rep (Z.of_nat start) 0 /\
    c16_alist_end (Z.of_nat start) (Z.of_nat size) = c16_alist_rep (Z.of_nat start) (Z.of_nat size) /\
    c16_range_for (c16_legacy_ops (c16_alist_prims (Z.of_nat start) (Z.of_nat size) st) conv) fuel
        (c16_iterrange (c16_alist_begin (Z.of_nat start)) (c16_alist_end (Z.of_nat start) (Z.of_nat size)))
      = C16Ok (map Some (firstn size (skipn start st))).
Proof. exact c16_arraylist_traversal. Qed.
Print Assumptions C16_arraylist_traversal.

(* ALIASING: an operator applied with both operands the SAME iterator object, a += (a - a), a -= (a - a), std::swap *)
Theorem C16_self_operand :
  forall (P V : Type) (o : c16_ops P V) (rep : Z -> P) (lo hi : Z), c16_iter_laws o rep lo hi ->
  forall a b, c16_in lo hi a -> c16_in lo hi b ->
    c16_o_eq o (rep a) (rep a) = true /\ c16_o_ne o (rep a) (rep a) = false /\
    c16_o_lt o (rep a) (rep a) = false /\ c16_o_le o (rep a) (rep a) = true /\
    c16_o_gt o (rep a) (rep a) = false /\ c16_o_ge o (rep a) (rep a) = true /\
    c16_o_diff o (rep a) (rep a) = 0 /\
    c16_o_pluseq o (rep a) (c16_o_diff o (rep a) (rep a)) = rep a /\
    c16_o_minuseq o (rep a) (c16_o_diff o (rep a) (rep a)) = rep a /\
    c16_swap (rep a) (rep b) = (rep b, rep a).
Proof. exact c16_self_operand_laws. Qed.
Print Assumptions C16_self_operand.

(* ------------------------------------------------------------------ non-vacuity *)
(* the hypotheses of C16_facade_laws are satisfiable by a real instance, and the conclusion speaks about real values:
   one-before-begin (size_t(-1)) < position 2 for a mutable lhs and a const rhs *)
Example C16_ex_facade_hyp : exists (pr : c16_prims Z (option Z)) rep, c16_prim_laws pr rep (-1) 3.
Proof. exact (ex_intro _ (c16_generic_prims [10; 20; 30]) (ex_intro _ (fun z => z) (c16_generic_prim_laws [10; 20; 30] (-1) 3))). Qed.
Example C16_ex_dense_before_begin :
  c16_o_lt (c16_legacy_ops (c16_dense_prims [10; 20; 30]) false) (c16_dense_rep (-1)) (c16_dense_rep 2) = true /\
  c16_dense_rep (-1) = 18446744073709551615 /\
  c16_o_index (c16_legacy_ops (c16_dense_prims [10; 20; 30]) true) (c16_dense_rep (-1)) 3 = Some 30.
Proof. vm_compute. repeat split; reflexivity. Qed.
(* unsigned char range 250..255 with one-before-begin: the hypotheses of C16_integral_range_iterator hold *)
Example C16_ex_ir_hyp :
  let t := {| c16_bits := 8; c16_signed := false |} in
  0 < c16_bits t /\ -1 <= 0 <= 5 /\ c16_tmin t <= 250 + -1 /\ 250 + 5 <= c16_tmax t /\ 5 - -1 < 2 ^ (c16_bits t - 1).
Proof. vm_compute. repeat split; intros; discriminate. Qed.
Example C16_ex_irange : c16_irange_elems {| c16_bits := 16; c16_signed := true |} true 10 32765 32767 = C16Ok [Some 32765; Some 32766].
Proof. vm_compute. reflexivity. Qed.
Example C16_ex_idx_inrange : c16_idx_inrange 0 5 0 [C16Inc; C16PlusEq 3; C16Dec; C16MinusEq 2] /\ c16_idx_total [C16Inc; C16PlusEq 3; C16Dec; C16MinusEq 2] = 1.
Proof. vm_compute. repeat split; intros; discriminate. Qed.
Example C16_ex_switch : c16_hy_switch_dynamic [1; 4; 2] 4 (fun i => 100 + i) (-1) = 104 /\ c16_hy_switch_static [5; 5; 7] 6 (fun i => 100 + i) (-1) = -1.
Proof. vm_compute. split; reflexivity. Qed.
Example C16_ex_accumulate : c16_hy_accumulate C16Static (fun a x => 7 * a + x) [4; 5; 6] 1 = 580.
Proof. vm_compute. reflexivity. Qed.
Example C16_ex_sorted : c16_iseq_sorted Z.ltb [5; 5; 0; 9; 2; 2; 7] = [0; 2; 2; 5; 5; 7; 9] /\ c16_iseq_difference_dec [5; 5; 0; 9; 2; 2; 7] [2; 3; 9] = [5; 5; 0; 7].
Proof. vm_compute. split; reflexivity. Qed.
Example C16_ex_manual_protocol : c16_o_inc (c16_nf_ops_manual (c16_vec_base [10; 20]) (fun p => c16_at [10; 20] p)) 0 = 1 /\ c16_dense_find 3 7 = 3.
Proof. vm_compute. split; reflexivity. Qed.
Example C16_ex_deep_dense : let o := c16_legacy_ops (c16_tag_prims (c16_dense_prims [10; 20; 30])) false in
  c16_o_le o (7, c16_dense_rep (-1)) (7, c16_dense_rep 0) = true /\ c16_post_dec o (7, c16_dense_rep 0) = ((7, 0), (7, 18446744073709551615)) /\
  c16_o_eq o (7, 1) (8, 1) = false.
Proof. vm_compute. repeat split; reflexivity. Qed.
Example C16_ex_deep_sllist : c16_sl_facade_eq (C16SlMod 1 2) (C16SlConst 2) = true /\ c16_sl_facade_ne (C16SlIt 1) (C16SlMod 1 2) = true /\
  c16_sl_inc c16_sl_begin_modify = C16SlMod 0 1 /\ c16_sl_wf (C16SlMod 0 1).
Proof. vm_compute. repeat split; reflexivity. Qed.
Example C16_ex_deep_sparse_indexed :
  c16_range_for (c16_sparse_over (c16_idx_ops (c16_tr_ops (fun x => x) [4; 5; 6])) c16_idx_index) 5 (c16_iterrange (0, 10) (3, 13))
  = C16Ok [(Some 4, 10); (Some 5, 11); (Some 6, 12)].
Proof. vm_compute. reflexivity. Qed.
Example C16_ex_deep_static_range : c16_sirange_at {| c16_bits := 8; c16_signed := true |} (-100) 199 = 99 /\ c16_sirange_size {| c16_bits := 8; c16_signed := true |} (-100) 100 = 200.
Proof. vm_compute. split; reflexivity. Qed.
Example C16_ex_deep_transformed_over_arraylist :
  let o := c16_legacy_ops (c16_alist_prims 2 3 [-7; -7; 1; 2; 3]) true in
  c16_range_for (c16_tr_over o (option_map (fun x => 10 * x))) 5 (c16_iterrange (c16_alist_rep 2 0) (c16_alist_rep 2 3)) = C16Ok [Some 10; Some 20; Some 30].
Proof. vm_compute. reflexivity. Qed.
Example C16_ex_deep_hybrid_range : c16_hy_log C16Static (c16_sirange_seq {| c16_bits := 64; c16_signed := false |} 2 6) = [2; 3; 4; 5].
Proof. vm_compute. reflexivity. Qed.
Example C16_ex_deep_arraylist_traversal :
  c16_range_for (c16_legacy_ops (c16_alist_prims 2 3 [-7; -7; 1; 2; 3]) false) 5 (c16_iterrange (c16_alist_begin 2) (c16_alist_end 2 3)) = C16Ok [Some 1; Some 2; Some 3].
Proof. vm_compute. reflexivity. Qed.
Example C16_ex_self_operand : let o := c16_legacy_ops (c16_alist_prims 2 3 [-7; -7; 1; 2; 3]) false in
  c16_o_lt o (c16_alist_rep 2 1) (c16_alist_rep 2 1) = false /\ c16_o_pluseq o 3 (c16_o_diff o 3 3) = 3 /\ c16_swap 1 2 = (2, 1).
Proof. vm_compute. repeat split; reflexivity. Qed.

(* ---- dimension audit 2.  A: PRE-EXISTING STATE OF THE TARGET -- copy / move / converting assignment of every iterator and range class onto a
   target that already holds another container, position, index, function object or range yields exactly the source, for ALL targets *)
Theorem C16_assignment_overwrites_target :
  (forall (P : Type) (t s : P), c16_assign_over t s = s) /\
  (forall (P : Type) (t s : Z * P), c16_tag_assign_over t s = s /\ c16_tag_convert_assign_over t s = s) /\
  (forall (P : Type) (t s : P * Z), c16_idx_assign_over t s = s /\ c16_tri_assign_over t s = s) /\
  (forall (R F : Type) (t s : R * F), c16_range_assign_over t s = s) /\
  (forall (P V W : Type) (o : c16_ops P V) (fs : Z -> V -> W) (t s : P * Z),
      c16_tri_star o fs (c16_tri_assign_over t s) = fs (snd s) (c16_o_star o (fst s))).
Proof. exact c16_assignment_overwrites_target. Qed.
Print Assumptions C16_assignment_overwrites_target.

Theorem C16_assignment_target_independent :
  forall (P V : Type) (o : c16_ops P V) (t1 t2 s x : P * Z),
    c16_idx_assign_over t1 s = c16_idx_assign_over t2 s /\
    c16_o_eq (c16_idx_ops o) (c16_idx_assign_over t1 s) x = c16_o_eq (c16_idx_ops o) s x /\
    c16_o_diff (c16_idx_ops o) (c16_idx_assign_over t1 s) x = c16_o_diff (c16_idx_ops o) s x /\
    c16_o_star (c16_idx_ops o) (c16_idx_assign_over t1 s) = c16_o_star (c16_idx_ops o) s /\
    c16_idx_index (c16_idx_assign_over t1 s) = c16_idx_index s.
Proof. exact c16_assignment_target_independent. Qed.
Print Assumptions C16_assignment_target_independent.

(* B: ASYMMETRIC CONFIGURATION -- two IndexedIterators carrying DIFFERENT indices (and an IndexedIterator against its plain base iterator) compare,
   subtract and dereference by position only; the index stored in the END iterator of a sparse range is irrelevant *)
Theorem C16_indexed_index_independent :
  forall (P V : Type) (o : c16_ops P V) (a b : P) (i j : Z),
    let io := c16_idx_ops o in
    c16_o_eq io (a, i) (b, j) = c16_o_eq o a b /\ c16_o_ne io (a, i) (b, j) = c16_o_ne o a b /\
    c16_o_lt io (a, i) (b, j) = c16_o_lt o a b /\ c16_o_le io (a, i) (b, j) = c16_o_le o a b /\
    c16_o_gt io (a, i) (b, j) = c16_o_gt o a b /\ c16_o_ge io (a, i) (b, j) = c16_o_ge o a b /\
    c16_o_diff io (a, i) (b, j) = c16_o_diff o a b /\ c16_o_star io (a, i) = c16_o_star o a /\
    c16_idx_vs_base_eq o (a, i) b = c16_o_eq o a b /\ c16_idx_vs_base_diff o (a, i) b = c16_o_diff o a b.
Proof. exact c16_indexed_index_independent. Qed.
Print Assumptions C16_indexed_index_independent.

Theorem C16_sparse_indexed_end_index_irrelevant :
  forall (P V : Type) (o : c16_ops P V) (fuel : nat) (b : P * Z) (e : P) (j j' : Z),
    c16_range_for (c16_sparse_over (c16_idx_ops o) c16_idx_index) fuel (c16_iterrange b (e, j)) =
    c16_range_for (c16_sparse_over (c16_idx_ops o) c16_idx_index) fuel (c16_iterrange b (e, j')).
Proof. exact c16_sparse_indexed_end_index_irrelevant. Qed.
Print Assumptions C16_sparse_indexed_end_index_irrelevant.

Example C16_ex_assign_over : c16_tag_convert_assign_over (8, c16_dense_rep (-1)) (7, c16_dense_rep 2) = (7, 2) /\
  c16_idx_assign_over (5, 1000000) (2, -5) = (2, -5) /\
  c16_tri_star (c16_tr_ops (fun x => x) [4; 5; 6]) (fun id v => option_map (fun x => id * x) v) (c16_tri_assign_over (2, 10) (1, 3)) = Some 15 /\
  c16_range_assign_over ([9; 9], 7) ([1; 2; 3], -1) = ([1; 2; 3], -1) /\ c16_range_assign_over (0, 9) (c16_sir_to_ir 2 6) = (2, 6).
Proof. vm_compute. repeat split; reflexivity. Qed.
Example C16_ex_indexed_asymmetric : let io := c16_idx_ops (c16_tr_ops (fun x => x) [4; 5; 6]) in
  c16_o_eq io (1, 7) (1, -5) = true /\ c16_o_lt io (0, 1000000) (2, 0) = true /\ c16_o_diff io (3, 0) (1, 77) = 2 /\
  c16_range_for (c16_sparse_over io c16_idx_index) 5 (c16_iterrange (0, 10) (3, -1)) = C16Ok [(Some 4, 10); (Some 5, 11); (Some 6, 12)].
Proof. vm_compute. repeat split; reflexivity. Qed.
