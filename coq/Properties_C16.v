(* C16 property theorems: ONLY statements closed by `exact`, each followed by Print Assumptions. *)
From Coq Require Import List ZArith Bool.
From DuneV Require Import C16_Model C16_Spec.
