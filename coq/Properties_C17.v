(* C17 property theorems: ONLY statements closed by `exact`, each followed by Print Assumptions. *)
From Coq Require Import ZArith Reals List Bool.
From Flocq Require Import Core BinarySingleNaN.
From DuneV Require Import C17_Model C17_Spec C17_Spec_Round C17_Proofs C17_Proofs_Cmp C17_Proofs_Int C17_Proofs_BinFix C17_Proofs_Round C17_Defaults C17_Proofs_Api C17_Proofs_Real.
Import ListNotations.

(* ---- comparison algebra: every IEEE binary format (prec, emax), every style, all finite a b, every finite eps >= 0;
        the model performs one correctly rounded operation per C++ operation; overflow of a-b / eps*max included ---- *)
Theorem C17_cmp_algebra :
  forall (prec emax : Z) (Hp : Prec_gt_0 prec) (Hm : Prec_lt_emax prec emax)
         (s : c17_cstyle) (eps a b : binary_float prec emax),
  is_finite a = true -> is_finite b = true -> is_finite eps = true -> (0 <= B2R eps)%R ->
  let EQ := c17_eq prec emax Hp Hm s eps in
  let NE := c17_ne prec emax Hp Hm s eps in
  let GT := c17_gt prec emax Hp Hm s eps in
  let LT := c17_lt prec emax Hp Hm s eps in
  let GE := c17_ge prec emax Hp Hm s eps in
  let LE := c17_le prec emax Hp Hm s eps in
  EQ a b = EQ b a /\ EQ a a = true /\
  NE a b = negb (EQ a b) /\
  ((LT a b = true /\ EQ a b = false /\ GT a b = false) \/
   (LT a b = false /\ EQ a b = true /\ GT a b = false) \/
   (LT a b = false /\ EQ a b = false /\ GT a b = true)) /\
  LE a b = (LT a b || EQ a b) /\ GE a b = (GT a b || EQ a b) /\
  GT a b = (Bltb b a && NE a b) /\ LT a b = (Bltb a b && NE a b) /\ GT a b = LT b a /\ GE a b = LE b a /\
  c17_cmp_laws (c17_flt prec emax a b) (c17_fgt prec emax a b) (EQ a b) (NE a b) (GT a b) (LT a b) (GE a b) (LE a b) = true.
Proof. exact C17_cmp_algebra_lemma. Qed.
Print Assumptions C17_cmp_algebra.

Example C17_cmp_algebra_nonvacuous :
  let eps := c17_ex_f32 0x35800000 in
  let one := c17_ex_f32 0x3f800000 in
  let one' := c17_ex_f32 0x3f800002 in
  let two := c17_ex_f32 0x40000000 in
  is_finite eps = true /\ (0 <= B2R eps)%R /\ is_finite one = true /\ is_finite one' = true /\ is_finite two = true /\
  c17_eq 24 128 c17_Hprec32 c17_Hmax32 C17_RelWeak eps one one' = true /\ Bltb one one' = true /\
  c17_lt 24 128 c17_Hprec32 c17_Hmax32 C17_RelWeak eps one two = true /\
  c17_gt 24 128 c17_Hprec32 c17_Hmax32 C17_RelStrong eps two one = true.
Proof. exact C17_cmp_algebra_nonvacuous_lemma. Qed.

(* the same algebra over ANY carrier with an exact order and a tolerant equality satisfying two laws
   (lt asymmetric; neither less nor greater implies tolerantly equal) -- covers number types outside Flocq,
   e.g. x87 long double, once the two laws are established for them *)
Theorem C17_cmp_algebra_abstract :
  forall (T : Type) (lt eq : T -> T -> bool) (dom : T -> Prop),
  (forall a b, dom a -> dom b -> lt a b = true -> lt b a = false) ->
  (forall a b, dom a -> dom b -> lt a b = false -> lt b a = false -> eq a b = true) ->
  forall a b, dom a -> dom b ->
  c17_cmp_laws (lt a b) (lt b a) (eq a b) (negb (eq a b)) (lt b a && negb (eq a b)) (lt a b && negb (eq a b))
               (lt b a || eq a b) (lt a b || eq a b) = true.
Proof. exact abstract_cmp_laws. Qed.
Print Assumptions C17_cmp_algebra_abstract.

(* vector comparison (std::vector, FieldVector) = equal length and conjunction over components; all lists *)
Theorem C17_veq_conjunction :
  forall (prec emax : Z) (Hp : Prec_gt_0 prec) (Hm : Prec_lt_emax prec emax)
         (s : c17_cstyle) (eps : binary_float prec emax) (a b : list (binary_float prec emax)),
  c17_veq prec emax Hp Hm s eps a b =
  Nat.eqb (length a) (length b) && forallb (fun p => c17_eq prec emax Hp Hm s eps (fst p) (snd p)) (combine a b).
Proof. exact C17_veq_conj_lemma. Qed.
Print Assumptions C17_veq_conjunction.

(* documented definition, real-number reading, absolute style: eq <-> |round(a-b)| <= eps (a-b not overflowing).
   Kept for reference; superseded by C17_eq_real below, which gives the reading for all three styles with both roundings explicit. *)
Theorem C17_eq_absolute_real_partial :
  forall (prec emax : Z) (Hp : Prec_gt_0 prec) (Hm : Prec_lt_emax prec emax) (eps a b : binary_float prec emax),
  is_finite a = true -> is_finite b = true -> is_finite eps = true ->
  (Rabs (round radix2 (SpecFloat.fexp prec emax) ZnearestE (B2R a - B2R b)) < bpow radix2 emax)%R ->
  (c17_eq prec emax Hp Hm C17_Absolute eps a b = true <->
   (Rabs (round radix2 (SpecFloat.fexp prec emax) ZnearestE (B2R a - B2R b)) <= B2R eps)%R).
Proof. exact C17_eq_absolute_real_lemma. Qed.
Print Assumptions C17_eq_absolute_real_partial.

(* ---- integer helpers over machine integers (any signedness / width) ---- *)
Local Open Scope Z_scope.
(* factorial: exact whenever n! is representable (every n; n <= 0 gives 1) *)
Theorem C17_factorial :
  forall (t : c17_ity) (n : Z),
  c17_inrange t 1 = true -> c17_inrange t (c17_spec_factorial n) = true ->
  c17_factorial t n = C17_Val (c17_spec_factorial n).
Proof. exact C17_factorial_lemma. Qed.
Print Assumptions C17_factorial.

(* power for an integral Base, p >= 0: exact whenever every partial product m^1 .. m^p is representable
   (p < 0: C17_ipower_negative below -- the integer quotient 1/m^|p| is not m^p; floating Base: C17_fpower_real / C17_fpower_exact) *)
Theorem C17_power :
  forall (t : c17_ity) (m p : Z),
  0 <= p -> (forall i, 1 <= i <= p -> c17_inrange t (m ^ i) = true) ->
  c17_ipower t m p = C17_Val (m ^ p).
Proof. exact C17_power_lemma. Qed.
Print Assumptions C17_power.

(* binomial AS FOUND: the Pascal-triangle value for 0 <= k <= n under the guard that n!/(n-k')! (k' = min(k,n-k)) is representable *)
Theorem C17_binomial :
  forall (t : c17_ity) (n k : Z),
  0 <= k <= n ->
  c17_inrange t 0 = true -> c17_inrange t 1 = true -> c17_inrange t n = true -> c17_inrange t (2 * k) = true ->
  (let k' := Z.min k (n - k) in c17_inrange t (c17_rise (n - k') (Z.to_nat k')) = true) ->
  c17_binomial t n k = C17_Val (c17_spec_binomial n k).
Proof. exact C17_binomial_lemma. Qed.
Print Assumptions C17_binomial.

Example C17_binomial_nonvacuous :
  let t := C17_Ity true 32 in
  0 <= 8 <= 16 /\ c17_inrange t 0 = true /\ c17_inrange t 1 = true /\ c17_inrange t 16 = true /\ c17_inrange t (2 * 8) = true /\
  c17_inrange t (c17_rise (16 - Z.min 8 (16 - 8)) (Z.to_nat (Z.min 8 (16 - 8)))) = true /\
  c17_binomial t 16 8 = C17_Val 12870 /\
  c17_inrange t (c17_rise (18 - Z.min 9 (18 - 9)) (Z.to_nat (Z.min 9 (18 - 9)))) = false.
Proof. exact C17_binomial_nonvacuous_lemma. Qed.

Theorem C17_binomial_outside :
  forall (t : c17_ity) (n k : Z), k < 0 \/ n < k -> c17_binomial t n k = C17_Val 0 /\ c17_spec_binomial n k = 0.
Proof. exact C17_binomial_outside_lemma. Qed.
Print Assumptions C17_binomial_outside.

(* the specification itself: Pascal's rule, symmetry, 0 outside, C(n,k) k! (n-k)! = n! *)
Theorem C17_binomial_spec :
  (forall n k : nat, c17_choose (S n) (S k) = c17_choose n k + c17_choose n (S k)) /\
  (forall n k : nat, (k <= n)%nat -> c17_choose n k = c17_choose n (n - k)) /\
  (forall n k : nat, (n < k)%nat -> c17_choose n k = 0) /\
  (forall n k : nat, (k <= n)%nat -> c17_choose n k * (c17_fact k * c17_fact (n - k)) = c17_fact n).
Proof. exact C17_binomial_spec_lemma. Qed.
Print Assumptions C17_binomial_spec.

(* F-C17-1: "exact whenever C(n,k) is representable" (the property text, without the guard) is FALSE of the
   faithful model: binomial<int>(18,9) — replayed on the implementation by corpus/C17/cases.txt *)
Theorem C17_binomial_unguarded_refuted :
  exists (t : c17_ity) (n k : Z),
    0 <= k <= n /\ c17_inrange t n = true /\ c17_inrange t (2 * k) = true /\
    c17_inrange t (c17_spec_binomial n k) = true /\
    c17_binomial t n k <> C17_Val (c17_spec_binomial n k).
Proof. exact C17_binomial_unguarded_refuted_lemma. Qed.
Print Assumptions C17_binomial_unguarded_refuted.

Theorem C17_binomial_unsigned_refuted :
  c17_spec_binomial 18 9 = 48620 /\ c17_inrange (C17_Ity false 32) 48620 = true /\
  c17_binomial (C17_Ity false 32) 18 9 = C17_Val 1276.
Proof. exact C17_binomial_unsigned_refuted_lemma. Qed.
Print Assumptions C17_binomial_unsigned_refuted.

(* ---- binomial AFTER fixes/C17-1.patch (incremental product reduced by gcd(bin,i), the gcd computed by the literal Euclid loop
        c17_euclid_loop; `k > n-k`): the property's statement at full strength:
        the exact value whenever C(n,k) is representable in T (any signedness / width); n is a value of T ---- *)
Theorem C17_binomial_exact :
  forall (t : c17_ity) (n k : Z),
  0 <= k <= n -> c17_inrange t 0 = true -> c17_inrange t n = true ->
  c17_inrange t (c17_spec_binomial n k) = true ->
  c17_binomial_fix t n k = C17_Val (c17_spec_binomial n k).
Proof. exact C17_binomial_exact_lemma. Qed.
Print Assumptions C17_binomial_exact.

(* the literal Euclid loop inside the fixed binomial: equals Z.gcd for non-negative arguments of the type;
   fuel bound: any fuel > r (the model uses r + 1), so C17_OutOfFuel never occurs *)
Theorem C17_euclid_gcd :
  forall (t : c17_ity) (fuel : nat) (g r : Z),
  c17_inrange t 0 = true -> c17_inrange t g = true -> c17_inrange t r = true ->
  0 <= g -> 0 <= r -> (Z.to_nat r < fuel)%nat ->
  c17_euclid_loop fuel t g r = C17_Val (Z.gcd g r).
Proof. exact C17_euclid_gcd_lemma. Qed.
Print Assumptions C17_euclid_gcd.

Theorem C17_binomial_exact_outside :
  forall (t : c17_ity) (n k : Z), k < 0 \/ n < k -> c17_binomial_fix t n k = C17_Val 0.
Proof. exact C17_binomial_fix_outside_lemma. Qed.
Print Assumptions C17_binomial_exact_outside.

Example C17_binomial_exact_witnesses :
  c17_binomial_fix (C17_Ity true 32) 18 9 = C17_Val 48620 /\
  c17_binomial_fix (C17_Ity false 32) 18 9 = C17_Val 48620 /\
  c17_binomial_fix (C17_Ity true 64) 40 20 = C17_Val 137846528820 /\
  c17_binomial_fix (C17_Ity true 32) 33 16 = C17_Val 1166803110 /\
  c17_binomial_fix (C17_Ity false 32) 2147483649 2147483648 = C17_Val 2147483649.
Proof. exact C17_binomial_fix_witnesses_lemma. Qed.

Theorem C17_binomial_fast_agrees_upto_16 :
  forallb (fun n => forallb (fun k => c17_spec_binomial_fast n (k - 1) =? c17_spec_binomial n (k - 1))
                            (map Z.of_nat (seq 0 19))) (map Z.of_nat (seq 0 17)) = true.
Proof. exact C17_binomial_fast_agrees_upto_16_lemma. Qed.
Print Assumptions C17_binomial_fast_agrees_upto_16.

Theorem C17_sign :
  forall v : Z, c17_isign v = c17_spec_sign v /\ (c17_isign v = -1 <-> v < 0) /\ (c17_isign v = 1 <-> 0 <= v).
Proof. exact C17_sign_lemma. Qed.
Print Assumptions C17_sign.

(* ---- classifiers: isNaN / isInf any component, isFinite all components, complex = both parts (every format) ---- *)
Theorem C17_classifiers : forall (prec emax : Z) (v : list (binary_float prec emax)) (re im : binary_float prec emax),
  c17_visnan prec emax v = existsb (@is_nan prec emax) v /\
  c17_visinf prec emax v = existsb (@c17_isinf prec emax) v /\
  c17_visfinite prec emax v = forallb (@is_finite prec emax) v /\
  c17_cisnan prec emax re im = existsb (@is_nan prec emax) [re; im] /\
  c17_cisinf prec emax re im = existsb (@c17_isinf prec emax) [re; im] /\
  c17_cisfinite prec emax re im = forallb (@is_finite prec emax) [re; im] /\
  (forall x, c17_isfinite prec emax x = negb (c17_isnan prec emax x) && negb (c17_isinf prec emax x)).
Proof. exact C17_classifiers_lemma. Qed.
Print Assumptions C17_classifiers.

(* ---- C17_trunc_round: FloatCmp::trunc / round AFTER fixes/C17-2.patch (round at the limits of I) and fixes/C17-3.patch
        (integral val returned unchanged), over Flocq, EVERY format (prec, emax), every integer type, compare style,
        rounding style, every finite val and finite eps >= 0.  Hypotheses are only what C++ needs to be defined:
        trunc: floor(val) (and floor(val)+1 if val is not integral) are values of I;  round: the cast I(val) is defined.
        c17_trunc_post / c17_round_post (C17_Spec_Round.v) are the documented results; the `_plain` theorems give the
        reading "floor or ceiling of val, within 1 of val, away from the real truncated value only if tolerantly equal". ---- *)
Local Close Scope Z_scope.
Theorem C17_trunc_round :
  forall (prec emax : Z) (Hp : Prec_gt_0 prec) (Hm : Prec_lt_emax prec emax)
         (r : c17_rstyle) (t : c17_ity) (s : c17_cstyle) (eps val : binary_float prec emax),
  is_finite eps = true -> (0 <= B2R eps)%R -> is_finite val = true ->
  (c17_inrange t (Zfloor (B2R val)) = true ->
   (IZR (Zfloor (B2R val)) <> B2R val -> c17_inrange t (Zfloor (B2R val) + 1) = true) ->
   exists z, c17_trunc_fix prec emax Hp Hm r t s eps val = C17_Val z /\
             c17_trunc_post prec emax Hp Hm (c17_dir_down prec emax r val) t s eps val z) /\
  (c17_inrange t (Ztrunc (B2R val)) = true ->
   exists z, c17_round_fix prec emax Hp Hm r t s eps val = C17_Val z /\
             c17_round_post prec emax Hp Hm (negb (c17_dir_down prec emax r val)) t s eps val z).
Proof. exact C17_trunc_round_lemma. Qed.
Print Assumptions C17_trunc_round.

Theorem C17_trunc_plain :
  forall (prec emax : Z) (Hp : Prec_gt_0 prec) (Hm : Prec_lt_emax prec emax)
         (down : bool) (t : c17_ity) (s : c17_cstyle) (eps val : binary_float prec emax) (z : Z),
  c17_trunc_post prec emax Hp Hm down t s eps val z ->
  (c17_signed t = false /\ z = 0%Z /\ c17_eq prec emax Hp Hm s eps val (c17_fzero prec emax) = true) \/
  ((z = Zfloor (B2R val) \/ z = Zceil (B2R val)) /\ (Rabs (IZR z - B2R val) < 1)%R /\
   (z <> (if down then Zfloor (B2R val) else Zceil (B2R val)) ->
    c17_eq prec emax Hp Hm s eps (c17_of_Z prec emax Hp Hm z) val = true /\ B2R (c17_of_Z prec emax Hp Hm z) = IZR z)).
Proof. exact C17_trunc_fixed_plain_lemma. Qed.
Print Assumptions C17_trunc_plain.

Theorem C17_round_plain :
  forall (prec emax : Z) (Hp : Prec_gt_0 prec) (Hm : Prec_lt_emax prec emax)
         (up : bool) (t : c17_ity) (s : c17_cstyle) (eps val : binary_float prec emax) (z : Z),
  c17_round_post prec emax Hp Hm up t s eps val z ->
  (z = Zfloor (B2R val) \/ z = Zceil (B2R val)) /\ (Rabs (IZR z - B2R val) < 1)%R.
Proof. exact C17_round_fixed_plain_lemma. Qed.
Print Assumptions C17_round_plain.

(* the former witnesses of F-C17-2 / F-C17-3 on the fixed model (binary64 / binary32), and the as-found model on the same inputs *)
Example C17_trunc_round_witnesses :
  c17_trunc 53 1024 c17_Hprec64 c17_Hmax64 C17_Downward (C17_Ity true 64) C17_Absolute (c17_ex_f64 0) (c17_ex_f64 0x4340000000000000) = C17_Val 9007199254740993%Z /\
  c17_trunc_fix 53 1024 c17_Hprec64 c17_Hmax64 C17_Downward (C17_Ity true 64) C17_Absolute (c17_ex_f64 0) (c17_ex_f64 0x4340000000000000) = C17_Val 9007199254740992%Z /\
  c17_round 53 1024 c17_Hprec64 c17_Hmax64 C17_TowardZero (C17_Ity false 32) C17_RelWeak (c17_ex_f64 0x3cb0000000000000) (c17_ex_f64 0xbfb5c28f5c28f5c3) = C17_Val 4294967295%Z /\
  c17_round_fix 53 1024 c17_Hprec64 c17_Hmax64 C17_TowardZero (C17_Ity false 32) C17_RelWeak (c17_ex_f64 0x3cb0000000000000) (c17_ex_f64 0xbfb5c28f5c28f5c3) = C17_Val 0%Z.
Proof. exact C17_trunc_round_witnesses_lemma. Qed.

(* ---- API audit: ordering comparisons on std::vector / FieldVector<T,1> (lexicographic exact order, tolerant eq), every format ---- *)
Theorem C17_vector_order :
  forall (prec emax : Z) (Hp : Prec_gt_0 prec) (Hm : Prec_lt_emax prec emax)
         (s : c17_cstyle) (eps : binary_float prec emax) (a b : list (binary_float prec emax)),
  let VEQ := c17_veq prec emax Hp Hm s eps in
  let VNE := c17_vne prec emax Hp Hm s eps in
  let VGT := c17_vgt prec emax Hp Hm s eps in
  let VLT := c17_vlt prec emax Hp Hm s eps in
  let VGE := c17_vge prec emax Hp Hm s eps in
  let VLE := c17_vle prec emax Hp Hm s eps in
  VNE a b = negb (VEQ a b) /\ VGE a b = (VGT a b || VEQ a b) /\ VLE a b = (VLT a b || VEQ a b) /\
  VLT a b && VGT a b = false /\ (VEQ a b = true -> VLT a b = false /\ VGT a b = false) /\
  (Forall (fun x => is_finite x = true) a -> Forall (fun x => is_finite x = true) b ->
   VEQ a b = VEQ b a /\ VGT a b = VLT b a /\ VGE a b = VLE b a).
Proof. exact C17_vector_order_lemma. Qed.
Print Assumptions C17_vector_order.

(* ---- DefaultEpsilon<T,style>::value() (literals and default styles re-read from float_cmp.hh/.cc into Params_gen.v on every run):
        finite, non-negative, the documented values, for float and double ---- *)
Theorem C17_default_eps :
  (forall s, is_finite (c17_deps32 s) = true /\ Bsign (c17_deps32 s) = false) /\
  (forall s, is_finite (c17_deps64 s) = true /\ Bsign (c17_deps64 s) = false) /\
  c17_to_bits 24 128 32 (c17_deps32 C17_RelWeak) = 0x35800000%Z /\
  c17_to_bits 24 128 32 (c17_deps32 C17_RelStrong) = 0x35800000%Z /\
  c17_to_bits 24 128 32 (c17_deps32 C17_Absolute) = 0x358637bd%Z /\
  c17_to_bits 53 1024 64 (c17_deps64 C17_RelWeak) = 0x3ce0000000000000%Z /\
  c17_to_bits 53 1024 64 (c17_deps64 C17_RelStrong) = 0x3ce0000000000000%Z /\
  c17_to_bits 53 1024 64 (c17_deps64 C17_Absolute) = 0x3eb0c6f7a0b5ed8d%Z /\
  c17_default_cstyle = C17_RelWeak /\ c17_default_rstyle = C17_TowardZero.
Proof. exact C17_default_eps_lemma. Qed.
Print Assumptions C17_default_eps.

(* hence the comparison algebra for the overloads that default the epsilon (float and double, every style, all finite a b) *)
Theorem C17_cmp_algebra_default_eps :
  (forall (s : c17_cstyle) (a b : binary_float 24 128), is_finite a = true -> is_finite b = true ->
     let e := c17_deps32 s in
     c17_cmp_laws (c17_flt 24 128 a b) (c17_fgt 24 128 a b)
       (c17_eq 24 128 c17_Hprec32 c17_Hmax32 s e a b) (c17_ne 24 128 c17_Hprec32 c17_Hmax32 s e a b)
       (c17_gt 24 128 c17_Hprec32 c17_Hmax32 s e a b) (c17_lt 24 128 c17_Hprec32 c17_Hmax32 s e a b)
       (c17_ge 24 128 c17_Hprec32 c17_Hmax32 s e a b) (c17_le 24 128 c17_Hprec32 c17_Hmax32 s e a b) = true) /\
  (forall (s : c17_cstyle) (a b : binary_float 53 1024), is_finite a = true -> is_finite b = true ->
     let e := c17_deps64 s in
     c17_cmp_laws (c17_flt 53 1024 a b) (c17_fgt 53 1024 a b)
       (c17_eq 53 1024 c17_Hprec64 c17_Hmax64 s e a b) (c17_ne 53 1024 c17_Hprec64 c17_Hmax64 s e a b)
       (c17_gt 53 1024 c17_Hprec64 c17_Hmax64 s e a b) (c17_lt 53 1024 c17_Hprec64 c17_Hmax64 s e a b)
       (c17_ge 53 1024 c17_Hprec64 c17_Hmax64 s e a b) (c17_le 53 1024 c17_Hprec64 c17_Hmax64 s e a b) = true).
Proof. exact C17_cmp_algebra_default_eps_lemma. Qed.
Print Assumptions C17_cmp_algebra_default_eps.

(* ---- C17_eq_real: the documented definitions, real-number reading with BOTH roundings explicit, all three styles, every format:
        eq  <->  | round(a - b) |  <=  round(eps * max(|a|,|b|))   (weak;  min for strong;  <= eps for absolute)
        for finite a b eps, when neither a - b nor eps * max|min overflows ---- *)
Theorem C17_eq_real :
  forall (prec emax : Z) (Hp : Prec_gt_0 prec) (Hm : Prec_lt_emax prec emax) (s : c17_cstyle) (eps a b : binary_float prec emax),
  let rhs := match s with
             | C17_RelWeak => round radix2 (SpecFloat.fexp prec emax) ZnearestE (B2R eps * Rmax (Rabs (B2R a)) (Rabs (B2R b)))%R
             | C17_RelStrong => round radix2 (SpecFloat.fexp prec emax) ZnearestE (B2R eps * Rmin (Rabs (B2R a)) (Rabs (B2R b)))%R
             | C17_Absolute => B2R eps
             end in
  is_finite a = true -> is_finite b = true -> is_finite eps = true ->
  (Rabs (round radix2 (SpecFloat.fexp prec emax) ZnearestE (B2R a - B2R b)) < bpow radix2 emax)%R -> (Rabs rhs < bpow radix2 emax)%R ->
  (c17_eq prec emax Hp Hm s eps a b = true <-> (Rabs (round radix2 (SpecFloat.fexp prec emax) ZnearestE (B2R a - B2R b)) <= rhs)%R).
Proof. exact C17_eq_real_spelled_lemma. Qed.
Print Assumptions C17_eq_real.

(* ---- long double: the x87 extended format is (prec, emax) = (64, 16384); the format-generic theorems at that instance ---- *)
Theorem C17_cmp_algebra_x87 :
  forall (s : c17_cstyle) (eps a b : binary_float 64 16384),
  is_finite a = true -> is_finite b = true -> is_finite eps = true -> (0 <= B2R eps)%R ->
  c17_eq 64 16384 c17_Hprec80 c17_Hmax80 s eps a b = c17_eq 64 16384 c17_Hprec80 c17_Hmax80 s eps b a /\
  c17_eq 64 16384 c17_Hprec80 c17_Hmax80 s eps a a = true /\
  c17_cmp_laws (c17_flt 64 16384 a b) (c17_fgt 64 16384 a b)
    (c17_eq 64 16384 c17_Hprec80 c17_Hmax80 s eps a b) (c17_ne 64 16384 c17_Hprec80 c17_Hmax80 s eps a b)
    (c17_gt 64 16384 c17_Hprec80 c17_Hmax80 s eps a b) (c17_lt 64 16384 c17_Hprec80 c17_Hmax80 s eps a b)
    (c17_ge 64 16384 c17_Hprec80 c17_Hmax80 s eps a b) (c17_le 64 16384 c17_Hprec80 c17_Hmax80 s eps a b) = true.
Proof. exact C17_cmp_algebra_x87_lemma. Qed.
Print Assumptions C17_cmp_algebra_x87.

Theorem C17_trunc_round_x87 :
  forall (r : c17_rstyle) (t : c17_ity) (s : c17_cstyle) (eps val : binary_float 64 16384),
  is_finite eps = true -> (0 <= B2R eps)%R -> is_finite val = true ->
  (c17_inrange t (Zfloor (B2R val)) = true ->
   (IZR (Zfloor (B2R val)) <> B2R val -> c17_inrange t (Zfloor (B2R val) + 1) = true) ->
   exists z, c17_trunc_fix 64 16384 c17_Hprec80 c17_Hmax80 r t s eps val = C17_Val z /\
             c17_trunc_post 64 16384 c17_Hprec80 c17_Hmax80 (c17_dir_down 64 16384 r val) t s eps val z) /\
  (c17_inrange t (Ztrunc (B2R val)) = true ->
   exists z, c17_round_fix 64 16384 c17_Hprec80 c17_Hmax80 r t s eps val = C17_Val z /\
             c17_round_post 64 16384 c17_Hprec80 c17_Hmax80 (negb (c17_dir_down 64 16384 r val)) t s eps val z).
Proof. exact (C17_trunc_round_lemma 64 16384 c17_Hprec80 c17_Hmax80). Qed.
Print Assumptions C17_trunc_round_x87.

Theorem C17_default_eps_x87 :
  (forall s, is_finite (c17_deps80 s) = true /\ Bsign (c17_deps80 s) = false) /\
  c17_to_bits 64 16384 79 (c17_deps80 C17_RelWeak) = 0x1fe18000000000000000%Z /\
  c17_to_bits 64 16384 79 (c17_deps80 C17_RelStrong) = 0x1fe18000000000000000%Z /\
  c17_to_bits 64 16384 79 (c17_deps80 C17_Absolute) = 0x1ff58637bd05af6c6800%Z.
Proof. exact C17_default_eps_x87_lemma. Qed.
Print Assumptions C17_default_eps_x87.

(* ---- power for floating T, any sign of the exponent, every format:
        p >= 0: the iterated product with one rounding per multiplication; p < 0: the correctly rounded reciprocal of it;
        when every partial product m^1..m^|p| is representable: exactly m^p (p >= 0) / round(1/m^|p|) (p < 0) ---- *)
Theorem C17_fpower_real :
  forall (prec emax : Z) (Hp : Prec_gt_0 prec) (Hm : Prec_lt_emax prec emax) (m : binary_float prec emax) (p : Z),
  is_finite m = true -> c17_rpow_ok prec emax (B2R m) (Z.abs_nat p) 1 ->
  let r := c17_rpow prec emax (B2R m) (Z.abs_nat p) 1 in
  ((0 <= p)%Z -> B2R (c17_fpower prec emax Hp Hm m p) = r /\ is_finite (c17_fpower prec emax Hp Hm m p) = true) /\
  ((p < 0)%Z -> r <> 0%R -> (Rabs (round radix2 (SpecFloat.fexp prec emax) ZnearestE (1 / r)) < bpow radix2 emax)%R ->
     B2R (c17_fpower prec emax Hp Hm m p) = round radix2 (SpecFloat.fexp prec emax) ZnearestE (1 / r) /\
     is_finite (c17_fpower prec emax Hp Hm m p) = true).
Proof. exact C17_fpower_real_lemma. Qed.
Print Assumptions C17_fpower_real.

Theorem C17_fpower_exact :
  forall (prec emax : Z) (Hp : Prec_gt_0 prec) (Hm : Prec_lt_emax prec emax) (m : binary_float prec emax) (p : Z),
  is_finite m = true ->
  (forall i : nat, (0 < i <= Z.abs_nat p)%nat ->
     generic_format radix2 (SpecFloat.fexp prec emax) (B2R m ^ i) /\ (Rabs (B2R m ^ i) < bpow radix2 emax)%R) ->
  ((0 <= p)%Z -> B2R (c17_fpower prec emax Hp Hm m p) = (B2R m ^ Z.abs_nat p)%R) /\
  ((p < 0)%Z -> (B2R m ^ Z.abs_nat p <> 0)%R ->
     (Rabs (round radix2 (SpecFloat.fexp prec emax) ZnearestE (1 / B2R m ^ Z.abs_nat p)) < bpow radix2 emax)%R ->
     B2R (c17_fpower prec emax Hp Hm m p) = round radix2 (SpecFloat.fexp prec emax) ZnearestE (1 / B2R m ^ Z.abs_nat p)).
Proof. exact C17_fpower_exact_lemma. Qed.
Print Assumptions C17_fpower_exact.

(* ---- power for an integral Base and p < 0 (why C17_power claims m^p only for p >= 0): the result is the integer quotient
        1 / m^|p| : undefined for m = 0, m^p for m = +-1, and 0 (not m^p) for |m| > 1 ---- *)
Theorem C17_ipower_negative :
  forall (t : c17_ity) (m p : Z),
  (p < 0)%Z -> (- 2 ^ 31 < p)%Z ->
  (forall i, (1 <= i <= - p)%Z -> c17_inrange t (m ^ i) = true) ->
  c17_inrange t 0%Z = true -> c17_inrange t 1%Z = true ->
  c17_ipower t m p = (if (m =? 0)%Z then C17_UB else if (Z.abs m =? 1)%Z then C17_Val (m ^ (- p))%Z else C17_Val 0%Z).
Proof. exact C17_ipower_negative_lemma. Qed.
Print Assumptions C17_ipower_negative.

(* ================= second proof-deepening round ================= *)
Local Open Scope Z_scope.
(* ---- power, integral Base, p >= 0: guarded on the FINAL value only -- the exact value whenever m^p is representable
        (m a value of the type, Base(1) representable); the converse for signed types: not representable => result is not m^p ---- *)
Theorem C17_power_final :
  forall (t : c17_ity) (m p : Z),
  0 <= p -> c17_inrange t 1 = true -> c17_inrange t m = true -> c17_inrange t (m ^ p) = true ->
  c17_ipower t m p = C17_Val (m ^ p).
Proof. exact C17_power_final_lemma. Qed.
Print Assumptions C17_power_final.

Theorem C17_power_final_converse :
  forall (t : c17_ity) (m p : Z),
  c17_signed t = true -> c17_inrange t 1 = true -> c17_inrange t (m ^ p) = false -> c17_ipower t m p <> C17_Val (m ^ p).
Proof. exact C17_power_final_converse_lemma. Qed.
Print Assumptions C17_power_final_converse.

Example C17_power_final_nonvacuous :
  c17_inrange (C17_Ity true 32) ((-2) ^ 31) = true /\ c17_ipower (C17_Ity true 32) (-2) 31 = C17_Val (-2147483648) /\
  c17_inrange (C17_Ity true 32) (2 ^ 31) = false /\ c17_ipower (C17_Ity true 32) 2 31 = C17_UB.
Proof. repeat split; vm_compute; reflexivity. Qed.

(* ---- width guards, every integer type of the property (signed / unsigned, 8 / 16 / 32 / 64 bit):
        factorial exact for n <= 5,5,7,8,12,12,20,20 and not beyond; binomial (fixed code) exact for all k and n <= 9,10,17,18,33,34,66,67
        and C(n+1, (n+1)/2) not representable (bounds are in the statements: c17_fact_limits, c17_binom_limits) ---- *)
Theorem C17_factorial_widths :
  forallb (fun tl => let t := fst tl in let l := snd tl in
     forallb (fun n => c17_is_val (c17_factorial t n) (c17_spec_factorial n)) (c17_range l)
     && negb (c17_inrange t (c17_spec_factorial (l + 1)))
     && negb (c17_is_val (c17_factorial t (l + 1)) (c17_spec_factorial (l + 1))))
    (combine c17_all_types c17_fact_limits) = true.
Proof. exact C17_factorial_widths_lemma. Qed.
Print Assumptions C17_factorial_widths.

Theorem C17_binomial_widths :
  forallb (fun tl => let t := fst tl in let l := snd tl in
     forallb (fun n => forallb (fun k => c17_is_val (c17_binomial_fix t n (k - 1)) (c17_spec_binomial_fast n (k - 1))
                                         || negb (c17_inrange t (k - 1)))
                               (c17_range (n + 2))) (c17_range l)
     && negb (c17_inrange t (c17_spec_binomial_fast (l + 1) ((l + 1) / 2))))
    (combine c17_all_types c17_binom_limits) = true.
Proof. exact C17_binomial_widths_lemma. Qed.
Print Assumptions C17_binomial_widths.

Theorem C17_sign_types :
  forall (t : c17_ity) (v : Z),
  (c17_isign v = -1 \/ c17_isign v = 1) /\ (c17_signed t = false -> c17_inrange t v = true -> c17_isign v = 1).
Proof. exact C17_sign_types_lemma. Qed.
Print Assumptions C17_sign_types.

(* the literals of math.hh (sign: -1 / 1; binomial(ic<n>, ic<n>): 1 / 0) re-read from the source agree with the model *)
Theorem C17_source_literals :
  (forall v : Z, c17_isign_src v = c17_isign v) /\
  (forall n : Z, c17_binomial_nn_src n = if 0 <=? n then 1 else 0) /\
  (forall (t : c17_ity) (n : Z), c17_inrange t 0 = true -> c17_inrange t n = true -> c17_inrange t 1 = true ->
     c17_binomial_fix t n n = C17_Val (c17_binomial_nn_src n)).
Proof. exact C17_source_literals_lemma. Qed.
Print Assumptions C17_source_literals.
Local Close Scope Z_scope.

(* ---- classifiers on FieldVector<std::complex<K>,n> and isUnordered (every format): any / all over ALL real and imaginary parts;
        isFinite is not the negation of isInf ---- *)
Theorem C17_classifiers_complex_vector :
  forall (prec emax : Z) (v : list (binary_float prec emax * binary_float prec emax)) (a b : binary_float prec emax),
  c17_vcisnan prec emax v = existsb (@is_nan prec emax) (c17_flat prec emax v) /\
  c17_vcisinf prec emax v = existsb (@c17_isinf prec emax) (c17_flat prec emax v) /\
  c17_vcisfinite prec emax v = forallb (@is_finite prec emax) (c17_flat prec emax v) /\
  c17_isunordered prec emax a b = (is_nan a || is_nan b) /\
  c17_visunordered1 prec emax a b = (is_nan a || is_nan b) /\
  (c17_cisfinite prec emax B754_nan a = false /\ c17_cisinf prec emax B754_nan (B754_zero false) = false).
Proof. exact C17_classifiers_complex_vector_lemma. Qed.
Print Assumptions C17_classifiers_complex_vector.

(* ---- FloatCmpOps<T,cstyle_,rstyle_>: every member is the free function at the object's (cstyle_, rstyle_, epsilon_);
        epsilon(e) / epsilon(); default constructor; the comparison algebra for the member forms (every format) ---- *)
Theorem C17_ops_forwarding :
  forall (prec emax : Z) (Hp : Prec_gt_0 prec) (Hm : Prec_lt_emax prec emax)
         (o : c17_ops prec emax) (e : binary_float prec emax) (t : c17_ity) (a b v : binary_float prec emax),
  c17_ops_eq prec emax Hp Hm o a b = c17_eq prec emax Hp Hm (c17_ops_cstyle prec emax o) (c17_ops_eps prec emax o) a b /\
  c17_ops_ne prec emax Hp Hm o a b = c17_ne prec emax Hp Hm (c17_ops_cstyle prec emax o) (c17_ops_eps prec emax o) a b /\
  c17_ops_gt prec emax Hp Hm o a b = c17_gt prec emax Hp Hm (c17_ops_cstyle prec emax o) (c17_ops_eps prec emax o) a b /\
  c17_ops_lt prec emax Hp Hm o a b = c17_lt prec emax Hp Hm (c17_ops_cstyle prec emax o) (c17_ops_eps prec emax o) a b /\
  c17_ops_ge prec emax Hp Hm o a b = c17_ge prec emax Hp Hm (c17_ops_cstyle prec emax o) (c17_ops_eps prec emax o) a b /\
  c17_ops_le prec emax Hp Hm o a b = c17_le prec emax Hp Hm (c17_ops_cstyle prec emax o) (c17_ops_eps prec emax o) a b /\
  c17_ops_round prec emax Hp Hm o t v =
    c17_round_fix prec emax Hp Hm (c17_ops_rstyle prec emax o) t (c17_ops_cstyle prec emax o) (c17_ops_eps prec emax o) v /\
  c17_ops_trunc prec emax Hp Hm o t v =
    c17_trunc_fix prec emax Hp Hm (c17_ops_rstyle prec emax o) t (c17_ops_cstyle prec emax o) (c17_ops_eps prec emax o) v /\
  c17_ops_eps prec emax (c17_ops_set_eps prec emax o e) = e /\
  c17_ops_cstyle prec emax (c17_ops_set_eps prec emax o e) = c17_ops_cstyle prec emax o /\
  c17_ops_rstyle prec emax (c17_ops_set_eps prec emax o e) = c17_ops_rstyle prec emax o /\
  (forall cs rs, c17_ops_eps prec emax (c17_ops_default prec emax Hp Hm cs rs) = c17_default_eps prec emax Hp Hm cs).
Proof. exact C17_ops_forwarding_lemma. Qed.
Print Assumptions C17_ops_forwarding.

Theorem C17_ops_algebra :
  forall (prec emax : Z) (Hp : Prec_gt_0 prec) (Hm : Prec_lt_emax prec emax) (o : c17_ops prec emax) (a b : binary_float prec emax),
  is_finite a = true -> is_finite b = true -> is_finite (c17_ops_eps prec emax o) = true -> (0 <= B2R (c17_ops_eps prec emax o))%R ->
  c17_ops_eq prec emax Hp Hm o a b = c17_ops_eq prec emax Hp Hm o b a /\
  c17_cmp_laws (c17_flt prec emax a b) (c17_fgt prec emax a b)
    (c17_ops_eq prec emax Hp Hm o a b) (c17_ops_ne prec emax Hp Hm o a b) (c17_ops_gt prec emax Hp Hm o a b)
    (c17_ops_lt prec emax Hp Hm o a b) (c17_ops_ge prec emax Hp Hm o a b) (c17_ops_le prec emax Hp Hm o a b) = true.
Proof. exact C17_ops_algebra_lemma. Qed.
Print Assumptions C17_ops_algebra.

(* the object's styles matter (a member ignoring cstyle_ / rstyle_ gives a different answer on these inputs) *)
Example C17_ops_styles_matter :
  let eps := c17_ex_f64' 0x3fa999999999999a in
  let i32 := C17_Ity true 32 in
  c17_ops_trunc 53 1024 c17_Hprec64 c17_Hmax64 (C17_Ops 53 1024 C17_RelWeak C17_Downward eps) i32 (c17_ex_f64' 0x4007333333333333) = C17_Val 3%Z /\
  c17_ops_trunc 53 1024 c17_Hprec64 c17_Hmax64 (C17_Ops 53 1024 C17_Absolute C17_Downward eps) i32 (c17_ex_f64' 0x4007333333333333) = C17_Val 2%Z /\
  c17_ops_round 53 1024 c17_Hprec64 c17_Hmax64 (C17_Ops 53 1024 C17_Absolute C17_Downward eps) i32 (c17_ex_f64' 0x4004000000000000) = C17_Val 2%Z /\
  c17_ops_round 53 1024 c17_Hprec64 c17_Hmax64 (C17_Ops 53 1024 C17_Absolute C17_Upward eps) i32 (c17_ex_f64' 0x4004000000000000) = C17_Val 3%Z.
Proof. exact C17_ops_styles_matter_lemma. Qed.

(* ---- trunc with epsilon 0 (every style, rounding style, format): exactly floor resp. ceiling of val -- no tolerance left ---- *)
Theorem C17_trunc_eps0 :
  forall (prec emax : Z) (Hp : Prec_gt_0 prec) (Hm : Prec_lt_emax prec emax)
         (r : c17_rstyle) (t : c17_ity) (s : c17_cstyle) (eps val : binary_float prec emax),
  is_finite eps = true -> B2R eps = 0%R -> is_finite val = true ->
  c17_inrange t (Zfloor (B2R val)) = true -> (IZR (Zfloor (B2R val)) <> B2R val -> c17_inrange t (Zfloor (B2R val) + 1) = true) ->
  c17_trunc_fix prec emax Hp Hm r t s eps val =
    C17_Val (if c17_dir_down prec emax r val then Zfloor (B2R val) else Zceil (B2R val)).
Proof. exact C17_trunc_eps0_lemma. Qed.
Print Assumptions C17_trunc_eps0.

(* ---- round at an exact tie val = k + 1/2 (cast value not tolerantly equal to val, both neighbours values of I):
        k in the downward direction, k + 1 in the upward direction ---- *)
Theorem C17_round_exact_tie :
  forall (prec emax : Z) (Hp : Prec_gt_0 prec) (Hm : Prec_lt_emax prec emax)
         (up : bool) (t : c17_ity) (s : c17_cstyle) (eps val : binary_float prec emax) (z : Z),
  c17_round_post prec emax Hp Hm up t s eps val z ->
  (B2R val - IZR (Zfloor (B2R val)) = 1 / 2)%R ->
  c17_eq prec emax Hp Hm s eps (c17_of_Z prec emax Hp Hm (Ztrunc (B2R val))) val = false ->
  c17_inrange t (Zfloor (B2R val)) = true -> c17_inrange t (Zfloor (B2R val) + 1) = true ->
  z = if up then (Zfloor (B2R val) + 1)%Z else Zfloor (B2R val).
Proof. exact C17_round_exact_tie_lemma. Qed.
Print Assumptions C17_round_exact_tie.


(* ---- cross-cutting audit: narrow integer result types (short, unsigned short, char) are promoted to int inside trunc_t ---- *)
Theorem C17_promotion :
  (forall (t : c17_ity) (z : Z), c17_inrange t z = true -> c17_expr t z = C17_Val z /\ c17_store t z = C17_Val z) /\
  c17_expr (C17_Ity false 16) 65536 = C17_Val 65536%Z /\ c17_store (C17_Ity false 16) 65536 = C17_Val 0%Z /\
  c17_store (C17_Ity true 16) 32768 = C17_Val (-32768)%Z /\
  c17_expr (C17_Ity false 32) 4294967296 = C17_Val 0%Z /\
  c17_trunc_v2 53 1024 c17_Hprec64 c17_Hmax64 C17_Upward (C17_Ity false 16) C17_RelStrong
    (c17_ex_f64' 0x3ff0000000000000) (c17_ex_f64' 0x40effffffffffffe) = C17_Val 1%Z /\
  c17_trunc_fix 53 1024 c17_Hprec64 c17_Hmax64 C17_Upward (C17_Ity false 16) C17_RelStrong
    (c17_ex_f64' 0x3ff0000000000000) (c17_ex_f64' 0x40effffffffffffe) = C17_Val 65535%Z.
Proof. exact C17_promotion_lemma. Qed.
Print Assumptions C17_promotion.

(* ---- F-C17-4 / fixes/C17-4.patch: trunc at the top of the integer range, every format / style: floor(val) = max(I), val > 0 not integral
        (and, for unsigned I, val not tolerantly 0): the result is max(I) -- no overflow, no wrap, whatever the tolerance ---- *)
Theorem C17_trunc_top :
  forall (prec emax : Z) (Hp : Prec_gt_0 prec) (Hm : Prec_lt_emax prec emax)
         (t : c17_ity) (s : c17_cstyle) (eps val : binary_float prec emax),
  is_finite val = true -> IZR (Zfloor (B2R val)) <> B2R val -> Zfloor (B2R val) = c17_imax t ->
  c17_inrange t (Zfloor (B2R val)) = true -> (0 < B2R val)%R ->
  negb (c17_signed t) && c17_eq prec emax Hp Hm s eps val (c17_fzero prec emax) = false ->
  c17_trunc_down_fix prec emax Hp Hm t s eps val = C17_Val (Zfloor (B2R val)).
Proof. exact C17_trunc_down_top_lemma. Qed.
Print Assumptions C17_trunc_top.

Example C17_trunc_top_witnesses :
  let eps := c17_ex_f64' 0x3f1a36e2eb1c432d in
  c17_trunc_v2 53 1024 c17_Hprec64 c17_Hmax64 C17_Downward (C17_Ity true 16) C17_RelWeak eps (c17_ex_f64' 0x40dffffffe5c91d1) = C17_Val (-32768)%Z /\
  c17_trunc_fix 53 1024 c17_Hprec64 c17_Hmax64 C17_Downward (C17_Ity true 16) C17_RelWeak eps (c17_ex_f64' 0x40dffffffe5c91d1) = C17_Val 32767%Z /\
  c17_trunc_v2 53 1024 c17_Hprec64 c17_Hmax64 C17_Downward (C17_Ity false 16) C17_RelWeak eps (c17_ex_f64' 0x40efffffff2e48e9) = C17_Val 0%Z /\
  c17_trunc_fix 53 1024 c17_Hprec64 c17_Hmax64 C17_Downward (C17_Ity false 16) C17_RelWeak eps (c17_ex_f64' 0x40efffffff2e48e9) = C17_Val 65535%Z /\
  c17_trunc_v2 53 1024 c17_Hprec64 c17_Hmax64 C17_Downward (C17_Ity true 32) C17_RelWeak eps (c17_ex_f64' 0x41dfffffffe00000) = C17_UB /\
  c17_trunc_fix 53 1024 c17_Hprec64 c17_Hmax64 C17_Downward (C17_Ity true 32) C17_RelWeak eps (c17_ex_f64' 0x41dfffffffe00000) = C17_Val 2147483647%Z.
Proof. exact C17_trunc_top_witnesses_lemma. Qed.
