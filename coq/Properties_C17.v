(* C17 property theorems: ONLY statements closed by `exact`, each followed by Print Assumptions. *)
From Coq Require Import ZArith List Bool.
From Flocq Require Import Core BinarySingleNaN.
From DuneV Require Import C17_Model C17_Spec C17_Proofs.
Import ListNotations.

(* isNaN / isInf: any component; isFinite: all components; complex = both parts (every format) *)
Theorem C17_classifiers : forall (prec emax : Z) (v : list (binary_float prec emax)) (re im : binary_float prec emax),
  c17_visnan prec emax v = existsb (@is_nan prec emax) v /\
  c17_visinf prec emax v = existsb (@c17_isinf prec emax) v /\
  c17_visfinite prec emax v = forallb (@is_finite prec emax) v /\
  c17_cisnan prec emax re im = existsb (@is_nan prec emax) [re; im] /\
  c17_cisinf prec emax re im = existsb (@c17_isinf prec emax) [re; im] /\
  c17_cisfinite prec emax re im = forallb (@is_finite prec emax) [re; im] /\
  (forall x, c17_isfinite prec emax x = negb (c17_isnan prec emax x) && negb (c17_isinf prec emax x)).
Proof. exact C17_classifiers_lemma. Qed.
Print Assumptions C17_classifiers.
