(* C18 property theorems: ONLY statements closed by `exact`, each followed by Print Assumptions.
   Model: C18_Model.v (literal transcription of path.cc / stringutility.hh); spec: C18_Spec.v. *)
From Coq Require Import List Arith Bool Ascii.
From DuneV Require Import Params_gen C18_Model C18_Spec C18_Proofs_Str C18_Proofs_Passes C18_Proofs_Pass4 C18_Proofs C18_Proofs_Tables C18_Proofs_Pretty C18_Proofs_Rel.
Import ListNotations.
Local Open Scope char_scope.

(* processPath: for EVERY string (no alphabet restriction, no length bound) the character-level passes
   return the rendering of the path's denotation; fuel |p|+2 suffices (C18_bridge of DESIGN, full). *)
Theorem C18_bridge : forall p, c18_processPath p = C18_Ok (c18_canon p).
Proof. exact c18_processPath_canon. Qed.
Print Assumptions C18_bridge.

Theorem C18_terminates : forall p fuel, length p + 1 < fuel -> c18_processPath_fuel fuel p <> C18_OutOfFuel.
Proof. exact c18_terminates. Qed.
Print Assumptions C18_terminates.

(* the documented normal form: components each followed by one '/', an empty component only first
   (absolute), no ".", ".." only as a leading run of a relative path *)
Theorem C18_normal_form : forall p, exists r, c18_processPath p = C18_Ok r /\ C18_NormalForm r.
Proof. exact c18_normal_form. Qed.
Print Assumptions C18_normal_form.

Theorem C18_denote : forall p r, c18_processPath p = C18_Ok r -> c18_denote r = c18_denote p.
Proof. exact c18_denote_preserved. Qed.
Print Assumptions C18_denote.

Theorem C18_idempotent : forall p r, c18_processPath p = C18_Ok r -> c18_processPath r = C18_Ok r.
Proof. exact c18_idempotent. Qed.
Print Assumptions C18_idempotent.

Theorem C18_abs_never_escapes : forall p, c18_is_abs p = true ->
  exists cs, c18_processPath p = C18_Ok (c18_join ([] :: cs)) /\ forallb c18_ordinary cs = true
             /\ c18_denote p = (true, 0, cs).
Proof. exact c18_abs_never_escapes. Qed.
Print Assumptions C18_abs_never_escapes.

(* pathIndicatesDirectory: the last '/'-separated component is empty, "." or ".." (all strings) *)
Theorem C18_isdir : forall p, c18_pathIndicatesDirectory p = c18_spec_isdir p.
Proof. exact c18_isdir_table. Qed.
Print Assumptions C18_isdir.

(* concatPaths: the documented table (all strings), and its meaning: for a relative p the result denotes
   "p interpreted from where base leads" *)
Theorem C18_concat : forall base p,
  c18_concatPaths base p = c18_spec_concat base p
  /\ (c18_is_abs p = false -> c18_denote (c18_concatPaths base p) = c18_denote_then base p).
Proof. exact (fun base p => conj (c18_concat_table base p) (c18_concat_denote base p)). Qed.
Print Assumptions C18_concat.

(* prettyPath: the documented table as a function of the denotation, for ALL strings and both flags;
   the one-argument overload uses pathIndicatesDirectory *)
Theorem C18_pretty : forall p d,
  c18_prettyPath p d = C18_Ok (c18_spec_pretty p d)
  /\ c18_prettyPath1 p = C18_Ok (c18_spec_pretty p (c18_spec_isdir p)).
Proof. exact (fun p d => conj (c18_pretty_table p d) (c18_pretty1_table p)). Qed.
Print Assumptions C18_pretty.

(* e.g. prettyPath p d = "." exactly for the paths whose sanitised form is empty *)
Theorem C18_pretty_current_dir : forall p d, c18_canon p = [] -> c18_prettyPath p d = C18_Ok ["."].
Proof. exact c18_pretty_current_dir. Qed.
Print Assumptions C18_pretty_current_dir.

(* relativePath, for ALL strings base, p: a reported relative path, concatenated back onto the base,
   denotes the target and is in normal form; an error is reported exactly when the absoluteness differs or
   the sanitised base has more leading ".." than the target; the fuel of processPath is never exhausted. *)
Theorem C18_relative_inverse : forall base p,
  (forall r, c18_relativePath base p = C18_Ok r ->
     c18_denote (c18_concatPaths base r) = c18_denote p /\ C18_NormalForm r)
  /\ (c18_relativePath base p = C18_NotImplemented <-> c18_spec_rel_defined base p = false)
  /\ c18_relativePath base p <> C18_OutOfFuel.
Proof. exact c18_relative_inverse. Qed.
Print Assumptions C18_relative_inverse.

(* prefix / suffix tests are the plain definitions *)
Theorem C18_prefix_suffix : forall s x,
  (c18_hasPrefix s x = true <-> exists t, s = x ++ t) /\ (c18_hasSuffix s x = true <-> exists t, s = t ++ x).
Proof. exact (fun s x => conj (c18_hasPrefix_iff s x) (c18_hasSuffix_iff s x)). Qed.
Print Assumptions C18_prefix_suffix.

(* the same through the real signature `const char*` (argument cut at its first NUL), for any character container *)
Theorem C18_prefix_suffix_cstring : forall s x,
  (c18_hasPrefix_c s x = true <-> exists t, s = c18_cstr x ++ t) /\ (c18_hasSuffix_c s x = true <-> exists t, s = t ++ c18_cstr x).
Proof. exact (fun s x => conj (c18_hasPrefix_c_iff s x) (c18_hasSuffix_c_iff s x)). Qed.
Print Assumptions C18_prefix_suffix_cstring.

(* formatString: for every expansion F of any length (shorter than, equal to, longer than the buffer size
   re-read from the source) the result is F as a C string; F itself when it has no NUL *)
Theorem C18_format : forall F, c18_formatString F = c18_cstr F /\ (c18_nulfree F -> c18_formatString F = F).
Proof. exact c18_formatString_correct. Qed.
Print Assumptions C18_format.

(* a failing conversion (snprintf < 0) is reported as an exception, a successful one never is *)
Theorem C18_format_error : forall F,
  c18_formatString_err None = None /\ c18_formatString_err (Some F) = Some (c18_cstr F).
Proof. exact c18_formatString_err_correct. Qed.
Print Assumptions C18_format_error.

Theorem C18_format_any_buffer : forall n F, 1 <= n -> c18_formatString_n n F = c18_cstr F.
Proof. exact c18_formatString_n_cstr. Qed.
Print Assumptions C18_format_any_buffer.

(* ---- non-vacuity *)
Example C18_example_process : c18_processPath ["/"; "."; "."; "/"; "a"; "/"] = C18_Ok ["/"; "a"; "/"].
Proof. vm_compute; reflexivity. Qed.
Example C18_example_collapse :   (* "a/b/../../../c" -> "../c/" : pops right after a collapsed component *)
  c18_processPath ["a";"/";"b";"/";".";".";"/";".";".";"/";".";".";"/";"c"] = C18_Ok [".";".";"/";"c";"/"].
Proof. vm_compute; reflexivity. Qed.
Example C18_example_abs : c18_is_abs ["/"; "a"; "/"; "."; "."; "/"; "."; "."] = true
  /\ c18_denote ["/"; "a"; "/"; "."; "."; "/"; "."; "."] = (true, 0, []).
Proof. vm_compute; split; reflexivity. Qed.
Example C18_example_format_long :   (* longer than the stack buffer: heap retry *)
  length (repeat "x" 1500) = 1500 /\ c18_formatString (repeat "x" 1500) = repeat "x" 1500.
Proof. vm_compute; split; reflexivity. Qed.
Example C18_example_relative :   (* base "../a", target "../../b"  ->  "../../b/" *)
  c18_relativePath [".";".";"/";"a"] [".";".";"/";".";".";"/";"b"] = C18_Ok [".";".";"/";".";".";"/";"b";"/"]
  /\ c18_relativePath [".";"."] [] = C18_NotImplemented.
Proof. vm_compute; split; reflexivity. Qed.
Example C18_example_sweep_size : length (c18_strings c18_path_alpha 4) = 341.
Proof. vm_compute; reflexivity. Qed.
Example C18_example_isdir : c18_pathIndicatesDirectory ["a";"/";".";"."] = true /\ c18_pathIndicatesDirectory ["a";".";"."] = false.
Proof. vm_compute; split; reflexivity. Qed.
Example C18_example_pretty :   (* "a/../../b//" as a directory -> "../b/" ; "/a/.." -> "/" *)
  c18_prettyPath ["a";"/";".";".";"/";".";".";"/";"b";"/";"/"] true = C18_Ok [".";".";"/";"b";"/"]
  /\ c18_prettyPath1 ["/";"a";"/";".";"."] = C18_Ok ["/"].
Proof. vm_compute; split; reflexivity. Qed.
Example C18_example_relative_sweep :   (* the former bounded theorem, kept as a cross-check of spec oracle vs model: all 341^2 pairs *)
  forallb (fun a => forallb (fun b => c18_rel_check a b) (c18_strings c18_path_alpha 4)) (c18_strings c18_path_alpha 4) = true.
Proof. exact c18_relative_sweep. Qed.
