(* C18 property theorems: ONLY statements closed by `exact`, each followed by Print Assumptions.
   Model: C18_Model.v (literal transcription of path.cc / stringutility.hh); spec: C18_Spec.v. *)
From Coq Require Import List Arith Bool Ascii.
From DuneV Require Import Params_gen C18_Model C18_Spec C18_Proofs_Str C18_Proofs_Passes C18_Proofs_Pass4 C18_Proofs C18_Proofs_Tables C18_Proofs_Pretty C18_Proofs_Rel C18_Proofs_More.
Import ListNotations.
Local Open Scope char_scope.

(* processPath: for EVERY string (no alphabet restriction, no length bound) the character-level passes
   return the rendering of the path's denotation; fuel |p|+2 suffices (C18_bridge of DESIGN, full). *)
Theorem C18_bridge : forall p, c18_processPath p = C18_Ok (c18_canon p).
Proof. exact c18_processPath_canon. Qed.
Print Assumptions C18_bridge.

Theorem C18_terminates : forall p fuel, length p + 1 < fuel -> c18_processPath_fuel fuel p <> C18_OutOfFuel.
Proof. exact c18_terminates. Qed.
Print Assumptions C18_terminates.

(* the documented normal form: components each followed by one '/', an empty component only first
   (absolute), no ".", ".." only as a leading run of a relative path *)
Theorem C18_normal_form : forall p, exists r, c18_processPath p = C18_Ok r /\ C18_NormalForm r.
Proof. exact c18_normal_form. Qed.
Print Assumptions C18_normal_form.

Theorem C18_denote : forall p r, c18_processPath p = C18_Ok r -> c18_denote r = c18_denote p.
Proof. exact c18_denote_preserved. Qed.
Print Assumptions C18_denote.

Theorem C18_idempotent : forall p r, c18_processPath p = C18_Ok r -> c18_processPath r = C18_Ok r.
Proof. exact c18_idempotent. Qed.
Print Assumptions C18_idempotent.

Theorem C18_abs_never_escapes : forall p, c18_is_abs p = true ->
  exists cs, c18_processPath p = C18_Ok (c18_join ([] :: cs)) /\ forallb c18_ordinary cs = true
             /\ c18_denote p = (true, 0, cs).
Proof. exact c18_abs_never_escapes. Qed.
Print Assumptions C18_abs_never_escapes.

(* pathIndicatesDirectory: the last '/'-separated component is empty, "." or ".." (all strings) *)
Theorem C18_isdir : forall p, c18_pathIndicatesDirectory p = c18_spec_isdir p.
Proof. exact c18_isdir_table. Qed.
Print Assumptions C18_isdir.

(* concatPaths: the documented table (all strings), and its meaning: for a relative p the result denotes
   "p interpreted from where base leads" *)
Theorem C18_concat : forall base p,
  c18_concatPaths base p = c18_spec_concat base p
  /\ (c18_is_abs p = false -> c18_denote (c18_concatPaths base p) = c18_denote_then base p).
Proof. exact (fun base p => conj (c18_concat_table base p) (c18_concat_denote base p)). Qed.
Print Assumptions C18_concat.

(* prettyPath: the documented table as a function of the denotation, for ALL strings and both flags;
   the one-argument overload uses pathIndicatesDirectory *)
Theorem C18_pretty : forall p d,
  c18_prettyPath p d = C18_Ok (c18_spec_pretty p d)
  /\ c18_prettyPath1 p = C18_Ok (c18_spec_pretty p (c18_spec_isdir p)).
Proof. exact (fun p d => conj (c18_pretty_table p d) (c18_pretty1_table p)). Qed.
Print Assumptions C18_pretty.

(* e.g. prettyPath p d = "." exactly for the paths whose sanitised form is empty *)
Theorem C18_pretty_current_dir : forall p d, c18_canon p = [] -> c18_prettyPath p d = C18_Ok ["."].
Proof. exact c18_pretty_current_dir. Qed.
Print Assumptions C18_pretty_current_dir.

(* relativePath, for ALL strings base, p: a reported relative path, concatenated back onto the base,
   denotes the target and is in normal form; an error is reported exactly when the absoluteness differs or
   the sanitised base has more leading ".." than the target; the fuel of processPath is never exhausted. *)
Theorem C18_relative_inverse : forall base p,
  (forall r, c18_relativePath base p = C18_Ok r ->
     c18_denote (c18_concatPaths base r) = c18_denote p /\ C18_NormalForm r)
  /\ (c18_relativePath base p = C18_NotImplemented <-> c18_spec_rel_defined base p = false)
  /\ c18_relativePath base p <> C18_OutOfFuel.
Proof. exact c18_relative_inverse. Qed.
Print Assumptions C18_relative_inverse.

(* string-level round trip: concat(base, relative(base, p)) sanitises to the same string as p *)
Theorem C18_relative_roundtrip : forall base p r, c18_relativePath base p = C18_Ok r ->
  c18_processPath (c18_concatPaths base r) = c18_processPath p.
Proof. exact c18_relative_roundtrip. Qed.
Print Assumptions C18_relative_roundtrip.

(* the exception payload: which of the two NotImplemented texts (re-read from path.cc) is thrown, quoting the
   ORIGINAL newbase and p verbatim; the message-carrying model agrees with c18_relativePath *)
Theorem C18_relative_errors : forall base p,
  match c18_relativePath_msg base p with
  | C18_Result r => c18_relativePath base p = C18_Ok r
  | C18_Throw m => c18_relativePath base p = C18_NotImplemented
                   /\ c18_spec_rel_defined base p = false /\ m = c18_spec_rel_message base p
  | C18_Fuel => False
  end.
Proof. exact c18_relativePath_msg_agrees. Qed.
Print Assumptions C18_relative_errors.

(* two paths denote the same location iff they sanitise to the same string *)
Theorem C18_denote_iff_same_sanitised : forall p q, c18_denote p = c18_denote q <-> c18_processPath p = c18_processPath q.
Proof. exact (fun p q => conj (c18_canon_of_denote p q) (c18_denote_of_canon p q)). Qed.
Print Assumptions C18_denote_iff_same_sanitised.

(* the documented normal forms are exactly the fixed points of processPath *)
Theorem C18_normal_form_fixpoint : forall s, C18_NormalForm s <-> c18_processPath s = C18_Ok s.
Proof. exact c18_normal_form_fixpoint. Qed.
Print Assumptions C18_normal_form_fixpoint.

(* path.hh on concatPaths: "If both base and p are sanitized as per processPath(), and if p does not contain any
   leading "../", then the result will also be sanitized." *)
Theorem C18_concat_sanitized : forall base p,
  C18_NormalForm base -> C18_NormalForm p -> c18_hasPrefix p ["."; "."; "/"] = false ->
  C18_NormalForm (c18_concatPaths base p).
Proof. exact c18_concat_sanitized. Qed.
Print Assumptions C18_concat_sanitized.

(* prettyPath's trailing '/': added for isDirectory exactly when the path has an ordinary last component
   (a component that merely ENDS in ".." such as "a.." is ordinary); never after a final ".." and not for "." or "/" *)
Theorem C18_pretty_trailing_slash : forall p,
  let '(abs, u, cs) := c18_denote p in
  (cs <> [] -> exists x, c18_prettyPath p true = C18_Ok (x ++ ["/"]) /\ c18_prettyPath p false = C18_Ok x)
  /\ (cs = [] -> c18_prettyPath p true = c18_prettyPath p false).
Proof. exact c18_pretty_trailing_slash. Qed.
Print Assumptions C18_pretty_trailing_slash.

(* pretty printing preserves the location (any flag), hence is idempotent *)
Theorem C18_pretty_denote : forall p d r, c18_prettyPath p d = C18_Ok r ->
  c18_denote r = c18_denote p /\ c18_prettyPath r d = C18_Ok r.
Proof. exact (fun p d r H => conj (c18_pretty_denote p d r H) (c18_pretty_idempotent p d r H)). Qed.
Print Assumptions C18_pretty_denote.

(* the executable oracles applied to the implementation's output by the correspondence check ARE the stated predicates *)
Theorem C18_oracles_exact : forall s a b,
  (c18_nf s = true <-> C18_NormalForm s) /\ (c18_eq_loc a b = true <-> a = b).
Proof. exact (fun s a b => conj (c18_nf_iff s) (c18_eq_loc_iff a b)). Qed.
Print Assumptions C18_oracles_exact.

(* the assertions written as comments between the passes of processPath hold for every input *)
Theorem C18_pass_invariants : forall p, exists cs,
  c18_pre4 p = c18_join cs /\ Forall c18_sf cs /\ Forall c18_pushable (tl cs) /\ hd [] cs <> ["."].
Proof. exact c18_pre4_structure. Qed.
Print Assumptions C18_pass_invariants.

(* one value in both roles: the relative path from a path to itself is the empty path (for every string);
   every string has each of its own prefixes / suffixes (the `const char*` may point into the container itself) *)
Theorem C18_self_application : forall p k,
  c18_relativePath p p = C18_Ok []
  /\ c18_hasPrefix p (firstn k p) = true /\ c18_hasSuffix p (skipn k p) = true.
Proof. exact (fun p k => conj (c18_relative_self p) (c18_self_prefix_suffix p k)). Qed.
Print Assumptions C18_self_application.

(* prefix / suffix tests are the plain definitions *)
Theorem C18_prefix_suffix : forall s x,
  (c18_hasPrefix s x = true <-> exists t, s = x ++ t) /\ (c18_hasSuffix s x = true <-> exists t, s = t ++ x).
Proof. exact (fun s x => conj (c18_hasPrefix_iff s x) (c18_hasSuffix_iff s x)). Qed.
Print Assumptions C18_prefix_suffix.

(* the same through the real signature `const char*` (argument cut at its first NUL), for any character container *)
Theorem C18_prefix_suffix_cstring : forall s x,
  (c18_hasPrefix_c s x = true <-> exists t, s = c18_cstr x ++ t) /\ (c18_hasSuffix_c s x = true <-> exists t, s = t ++ c18_cstr x).
Proof. exact (fun s x => conj (c18_hasPrefix_c_iff s x) (c18_hasSuffix_c_iff s x)). Qed.
Print Assumptions C18_prefix_suffix_cstring.

(* formatString: for every expansion F of any length (shorter than, equal to, longer than the buffer size
   re-read from the source) the result is F as a C string; F itself when it has no NUL *)
Theorem C18_format : forall F, c18_formatString F = c18_cstr F /\ (c18_nulfree F -> c18_formatString F = F).
Proof. exact c18_formatString_correct. Qed.
Print Assumptions C18_format.

(* a failing conversion (snprintf < 0) is reported as an exception, a successful one never is *)
Theorem C18_format_error : forall F,
  c18_formatString_err None = None /\ c18_formatString_err (Some F) = Some (c18_cstr F).
Proof. exact c18_formatString_err_correct. Qed.
Print Assumptions C18_format_error.

(* the length boundary: the first attempt into the stack buffer gives F exactly while |F| < bufferSize; from
   |F| = bufferSize on it is F cut to bufferSize-1 characters (so the heap retry is necessary), and the result is F *)
Theorem C18_format_boundary : forall F, c18_nulfree F ->
  let B := c18_param_format_buffer in
  let first_attempt := c18_cstr (snd (c18_snprintf B F)) in
  (length F < B -> first_attempt = F)
  /\ (B <= length F -> first_attempt = firstn (B - 1) F /\ first_attempt <> F)
  /\ c18_formatString F = F.
Proof. exact c18_format_boundary. Qed.
Print Assumptions C18_format_boundary.

Theorem C18_format_any_buffer : forall n F, 1 <= n -> c18_formatString_n n F = c18_cstr F.
Proof. exact c18_formatString_n_cstr. Qed.
Print Assumptions C18_format_any_buffer.

(* ---- non-vacuity *)
Example C18_example_process : c18_processPath ["/"; "."; "."; "/"; "a"; "/"] = C18_Ok ["/"; "a"; "/"].
Proof. vm_compute; reflexivity. Qed.
Example C18_example_collapse :   (* "a/b/../../../c" -> "../c/" : pops right after a collapsed component *)
  c18_processPath ["a";"/";"b";"/";".";".";"/";".";".";"/";".";".";"/";"c"] = C18_Ok [".";".";"/";"c";"/"].
Proof. vm_compute; reflexivity. Qed.
Example C18_example_abs : c18_is_abs ["/"; "a"; "/"; "."; "."; "/"; "."; "."] = true
  /\ c18_denote ["/"; "a"; "/"; "."; "."; "/"; "."; "."] = (true, 0, []).
Proof. vm_compute; split; reflexivity. Qed.
Example C18_example_format_long :   (* longer than the stack buffer: heap retry *)
  length (repeat "x" 1500) = 1500 /\ c18_formatString (repeat "x" 1500) = repeat "x" 1500.
Proof. vm_compute; split; reflexivity. Qed.
Example C18_example_relative :   (* base "../a", target "../../b"  ->  "../../b/" *)
  c18_relativePath [".";".";"/";"a"] [".";".";"/";".";".";"/";"b"] = C18_Ok [".";".";"/";".";".";"/";"b";"/"]
  /\ c18_relativePath [".";"."] [] = C18_NotImplemented.
Proof. vm_compute; split; reflexivity. Qed.
Example C18_example_sweep_size : length (c18_strings c18_path_alpha 4) = 341.
Proof. vm_compute; reflexivity. Qed.
Example C18_example_isdir : c18_pathIndicatesDirectory ["a";"/";".";"."] = true /\ c18_pathIndicatesDirectory ["a";".";"."] = false.
Proof. vm_compute; split; reflexivity. Qed.
Example C18_example_pretty :   (* "a/../../b//" as a directory -> "../b/" ; "/a/.." -> "/" *)
  c18_prettyPath ["a";"/";".";".";"/";".";".";"/";"b";"/";"/"] true = C18_Ok [".";".";"/";"b";"/"]
  /\ c18_prettyPath1 ["/";"a";"/";".";"."] = C18_Ok ["/"].
Proof. vm_compute; split; reflexivity. Qed.
Example C18_example_relative_sweep :   (* the former bounded theorem, kept as a cross-check of spec oracle vs model: all 341^2 pairs *)
  forallb (fun a => forallb (fun b => c18_rel_check a b) (c18_strings c18_path_alpha 4)) (c18_strings c18_path_alpha 4) = true.
Proof. exact c18_relative_sweep. Qed.
Example C18_example_pretty_ends_in_dotdot :   (* "x/a.." is an ordinary last component: gets the '/'; "x/.." does not *)
  c18_prettyPath ["x";"/";"a";".";"."] true = C18_Ok ["x";"/";"a";".";".";"/"]
  /\ c18_prettyPath [".";".";"/";"."; "."] true = C18_Ok [".";".";"/";".";"."]
  /\ c18_denote ["x";"/";"a";".";"."] = (false, 0, [["x"]; ["a";".";"."]]).
Proof. vm_compute; repeat split; reflexivity. Qed.
Example C18_example_roundtrip :   (* base "/usr/lib64/x", target "/usr/lib": "../../lib/" and back *)
  c18_relativePath ["/";"l";"i";"b";"6";"4";"/";"x"] ["/";"l";"i";"b"] = C18_Ok [".";".";"/";".";".";"/";"l";"i";"b";"/"]
  /\ c18_processPath (c18_concatPaths ["/";"l";"i";"b";"6";"4";"/";"x"] [".";".";"/";".";".";"/";"l";"i";"b";"/"]) = C18_Ok ["/";"l";"i";"b";"/"].
Proof. vm_compute; split; reflexivity. Qed.
Example C18_example_error_message :
  c18_relativePath_msg ["a"] ["/"] = C18_Throw (c18_msg_abs ["a"] ["/"])
  /\ c18_relativePath_msg [".";"."] ["b"] = C18_Throw (c18_msg_up [".";"."] ["b"])
  /\ length (c18_msg_up [".";"."] ["b"]) = 78.
Proof. vm_compute; repeat split; reflexivity. Qed.
Example C18_example_concat_sanitized :
  c18_nf ["/";"a";"/"] = true /\ c18_nf ["b";"/"] = true /\ c18_nf (c18_concatPaths ["/";"a";"/"] ["b";"/"]) = true
  /\ c18_nf (c18_concatPaths ["a";"/"] [".";".";"/"]) = false.   (* the premise "no leading ../" is needed: "a/../" is not sanitised *)
Proof. vm_compute; repeat split; reflexivity. Qed.
Example C18_doc_tables :   (* every row of the example tables of path.hh (processPath, prettyPath, concatPaths) and of pathtest.cc (relativePath) *)
  c18_doc_tables_hold = true
  /\ (length c18_doc_process_table, length c18_doc_pretty_table, length c18_doc_concat_table, length c18_doc_relative_table) = (16, 32, 12, 14).
Proof. vm_compute; split; reflexivity. Qed.
Example C18_example_self :
  c18_relativePath ["/";".";".";"/";"a";"/";"/";"b"] ["/";".";".";"/";"a";"/";"/";"b"] = C18_Ok []
  /\ c18_concatPaths ["a";"/"] ["a";"/"] = ["a";"/";"a";"/"].
Proof. vm_compute; split; reflexivity. Qed.
