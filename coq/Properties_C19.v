(* C19 — property theorems.  ONLY statements, each closed by `exact <lemma>` and followed by Print Assumptions.
   Model: C19_Model.v (transcription of mpiguard.hh, mpifuture.hh, future.hh); Spec: C19_Spec.v.

   Guard.  A communicator with P = length outs processes runs S guarded sections inside one scope
       { MPIGuard g(comm, active0);  [g.reactivate();]  sec_0  g.reactivate();  sec_1 ... sec_{S-1} }
   where sec_k of process r either throws (C19_Throws), ends with g.finalize(false) (C19_ReportsFailure) or with
   g.finalize(true) (C19_Ok): outs is the P x S matrix of these outcomes, arbitrary.  c19_sections_run executes the
   P scripts against the collective semantics of comm_->sum: it returns C19_Finished (per process: how it left the
   scope, number of collectives it issued), C19_Deadlock or C19_OutOfFuel.
   c19_spec_exit act0 S outs r  is what the property prescribes for process r:
       no section fails                  -> leaves normally after S checkpoints
       k = first section with a failure  -> leaves in section k: with its own exception if it threw there, otherwise
                                            with MPIGuardError at the checkpoint of section k; k+1 checkpoints.  *)
From Coq Require Import List Bool Arith NArith.
From DuneV Require Import C19_Model C19_Spec C19_Proofs C19_Proofs_Fut.
Import ListNotations.

(* every P, every S >= 1, every outcome matrix, guard initially active or not (then re-armed first):
   nobody is blocked (C19_Finished), and every process leaves exactly as prescribed *)
Theorem C19_agreement : forall (act0 : bool) (S : nat) (outs : list (list c19_outcome)),
  1 <= S -> Forall (fun os => length os = S) outs ->
  c19_sections_run act0 outs =
  C19_Finished (map (fun r => (Some (fst (c19_spec_exit act0 S outs r)), snd (c19_spec_exit act0 S outs r))) (seq 0 (length outs))).
Proof. exact P_agreement. Qed.
Print Assumptions C19_agreement.

(* reading of the prescription: c19_first_fail is the least failing section, c19_nfail counts the failing processes *)
Theorem C19_first_fail_none : forall S outs, c19_first_fail outs 0 S = None -> forall k, k < S -> c19_nfail outs k = 0.
Proof. exact P_first_fail_None. Qed.
Print Assumptions C19_first_fail_none.

Theorem C19_first_fail_some : forall S outs k, c19_first_fail outs 0 S = Some k ->
  k < S /\ 0 < c19_nfail outs k /\ forall j, j < k -> c19_nfail outs j = 0.
Proof. exact P_first_fail_Some. Qed.
Print Assumptions C19_first_fail_some.

Theorem C19_nfail_zero_iff : forall outs k,
  c19_nfail outs k = 0 <-> forall r, r < length outs -> c19_outcome_at outs r k = C19_Ok.
Proof. exact P_nfail_zero_iff. Qed.
Print Assumptions C19_nfail_zero_iff.

(* "the guard never deadlocks" also needs: the lock-step execution of ARBITRARY scripts (any mix of finalize / throw /
   reactivate, different on every process) ends in Finished or in a reported Deadlock, never by exhausting the fuel *)
Theorem C19_guard_terminates : forall act0 scripts, c19_guard_scope act0 scripts <> C19_OutOfFuel.
Proof. exact P_guard_terminates. Qed.
Print Assumptions C19_guard_terminates.

(* re-arming: reactivate() on an inactive guard arms it without communication; on an active guard it first takes the
   checkpoint (one collective) and then arms it - or throws MPIGuardError if a process failed *)
Theorem C19_rearm : forall rest pc,
  c19_run (C19_React :: rest) pc false = c19_run rest (S pc) true /\
  (exists c, c19_run (C19_React :: rest) pc true = C19_AtColl c (C19_KFin true true rest pc)) /\
  (forall c, c19_resume 0 (C19_AtColl c (C19_KFin true true rest pc)) = c19_run rest (S pc) true) /\
  (forall c sum, 0 < sum -> c19_resume sum (C19_AtColl c (C19_KFin true true rest pc)) = C19_Done (C19_GuardError pc sum)).
Proof. exact P_rearm. Qed.
Print Assumptions C19_rearm.

(* a guard that is not armed never throws (destructor during unwinding; finalize after finalize) *)
Theorem C19_inactive_silent : forall sum c react rest pc e,
  c19_resume sum (C19_AtColl c (C19_KDtor e)) = C19_Done e /\
  c19_resume sum (C19_AtColl c (C19_KFin false react rest pc)) = c19_run rest (S pc) react.
Proof. exact P_inactive_silent. Qed.
Print Assumptions C19_inactive_silent.

Example C19_example_sections :
  c19_sections_run true [[C19_Ok; C19_Ok]; [C19_Ok; C19_ReportsFailure]; [C19_Ok; C19_Throws]]
  = C19_Finished [(Some (C19_GuardError 2 2), 2); (Some (C19_GuardError 2 2), 2); (Some (C19_UserExc 2), 2)].
Proof. exact P_example_sections. Qed.
Print Assumptions C19_example_sections.

(* outside the documented pattern deadlocks exist (and the model reports them): an exception while the guard is not armed *)
Example C19_example_deadlock :
  c19_guard_scope true [[C19_FinOk; C19_Throw]; [C19_FinOk; C19_React; C19_FinOk]]
  = C19_Deadlock [(Some (C19_UserExc 1), 1); (None, 2)].
Proof. exact P_example_deadlock. Qed.
Print Assumptions C19_example_deadlock.

(* Futures.  c19_ftrace cfg k v h f = results of the member calls of history h (calls interleaved with the completion
   event, ANY interleaving) on an MPIFuture with buffer kind k whose operation delivers v; c19_spec_accept is the
   specification: valid() iff the result was not taken; ready() true only after completion and from then on; wait()/get()
   raise InvalidFutureException iff invalid; get() returns v.  c19_cfg_fixed = the code with fixes/C19-1.patch. *)
Theorem C19_future : forall (D : Type) (deqb : D -> D -> bool), (forall d, deqb d d = true) ->
  forall (k : c19_bkind) (v init : D) (h : list c19_fev), c19_no_move h ->
  c19_spec_accept deqb v false false false (c19_ftrace c19_cfg_fixed k v h (c19_fut_started init)) = true /\
  c19_spec_accept deqb v true false false (c19_ftrace c19_cfg_fixed k v h c19_fut_default) = true.
Proof. exact P_future. Qed.
Print Assumptions C19_future.

(* exactly once: at most one call hands out data, it is the delivered data (never the stale buffer content `init`);
   a default-constructed future hands out nothing *)
Theorem C19_future_once : forall (D : Type) (deqb : D -> D -> bool), (forall d, deqb d d = true) ->
  forall (k : c19_bkind) (v init : D) (h : list c19_fev), c19_no_move h ->
  let tr := c19_ftrace c19_cfg_fixed k v h (c19_fut_started init) in
  c19_count_data tr <= 1 /\ c19_all_data_is deqb v tr = true /\
  c19_count_data (c19_ftrace c19_cfg_fixed k v h c19_fut_default) = 0.
Proof. exact P_future_once. Qed.
Print Assumptions C19_future_once.

(* the code as it is: holds for MPIFuture<T> and MPIFuture<T&> ... *)
Theorem C19_future_unfixed_nonvoid : forall (D : Type) (deqb : D -> D -> bool), (forall d, deqb d d = true) ->
  forall (k : c19_bkind) (v init : D) (h : list c19_fev), k <> C19_BVoid -> c19_no_move h ->
  c19_spec_accept deqb v false false false (c19_ftrace c19_cfg_current k v h (c19_fut_started init)) = true.
Proof. exact P_future_unfixed_nonvoid. Qed.
Print Assumptions C19_future_unfixed_nonvoid.

(* ... and is refuted for MPIFuture<void>: still valid after get()  (finding F-C19-1) *)
Theorem C19_future_unfixed_void_refuted : exists h : list c19_fev, c19_no_move h /\
  c19_spec_accept (fun _ _ : unit => true) tt false false false
    (c19_ftrace c19_cfg_current C19_BVoid tt h (c19_fut_started tt)) = false.
Proof. exact P_future_void_refuted. Qed.
Print Assumptions C19_future_unfixed_void_refuted.

(* histories with moves: a future owning its value is invalid after being moved from (any cfg) ... *)
Theorem C19_future_moved_from_value : forall (D : Type) (deqb : D -> D -> bool), (forall d, deqb d d = true) ->
  forall (cfg : c19_cfg) (v init : D) (h : list c19_fev),
  c19_spec_accept deqb v false false false (c19_ftrace cfg C19_BValue v h (c19_fut_started init)) = true.
Proof. exact P_future_move_value. Qed.
Print Assumptions C19_future_moved_from_value.

(* ... refuted for MPIFuture<T&> and MPIFuture<void>, which stay valid  (finding F-C19-2, no fix proposed) *)
Theorem C19_future_moved_from_refuted : forall k, k <> C19_BValue ->
  c19_spec_accept Nat.eqb 7 false false false (c19_ftrace c19_cfg_fixed k 7 [C19_EvOp C19_Move] (c19_fut_started 0)) = false.
Proof. exact P_future_move_refuted. Qed.
Print Assumptions C19_future_moved_from_refuted.

(* MPIFuture<T>(true) - valid, value-initialised, no request - behaves like a completed operation delivering T();
   histories may contain get_send_data (C19_SendData, which behaves like wait) and move assignment *)
Theorem C19_future_prevalid : forall (D : Type) (deqb : D -> D -> bool), (forall d, deqb d d = true) ->
  forall (k : c19_bkind) (v : D) (h : list c19_fev), c19_no_move h ->
  c19_spec_accept deqb v false true false (c19_ftrace c19_cfg_fixed k v h (c19_fut_prevalid v)) = true.
Proof. exact P_future_prevalid. Qed.
Print Assumptions C19_future_prevalid.

(* operator=(MPIFuture&&) swaps: after  F d; d = std::move(f);  f is invalid for EVERY buffer kind (unlike the move
   constructor, F-C19-2), and d carries f's state *)
Theorem C19_future_move_assign : forall (D : Type) (cfg : c19_cfg) (k : c19_bkind) (v : D) (f : c19_fut D),
  fst (c19_fstep cfg k v C19_MoveAssign f) = [C19_TOp C19_MoveAssign (C19_RBool false)] /\
  snd (c19_fstep cfg k v C19_MoveAssign f) = f.
Proof. exact P_future_move_assign. Qed.
Print Assumptions C19_future_move_assign.

(* PseudoFuture (Communication<No_Comm>): same specification, ready at once *)
Theorem C19_pseudofuture : forall (D : Type) (deqb : D -> D -> bool), (forall d, deqb d d = true) ->
  forall (v : D) (valid0 : bool) (ops : list c19_fop), Forall (fun o => In o [C19_Valid; C19_Ready; C19_Wait; C19_Get]) ops ->
  let tr := c19_ptrace ops (C19_mkpfut valid0 v) in
  c19_spec_accept deqb v (negb valid0) true false tr = true /\
  c19_count_data tr <= (if valid0 then 1 else 0) /\ c19_all_data_is deqb v tr = true.
Proof. exact P_pseudofuture. Qed.
Print Assumptions C19_pseudofuture.

Theorem C19_pseudofuture_moved_from_refuted :
  c19_spec_accept Nat.eqb 7 false true false (c19_ptrace [C19_Move] (C19_mkpfut true 7)) = false.
Proof. exact P_pseudofuture_move_refuted. Qed.
Print Assumptions C19_pseudofuture_moved_from_refuted.

Example C19_example_future :
  c19_ftrace c19_cfg_fixed C19_BValue 42 [C19_EvOp C19_Valid; C19_EvOp C19_Ready; C19_EvComplete; C19_EvOp C19_Ready;
                                            C19_EvOp C19_Get; C19_EvOp C19_Valid; C19_EvOp C19_Get; C19_EvOp C19_Wait] (c19_fut_started 0)
  = [C19_TOp C19_Valid (C19_RBool true); C19_TOp C19_Ready (C19_RBool false); C19_TEnable; C19_TOp C19_Ready (C19_RBool true);
     C19_TOp C19_Get (C19_RData 42); C19_TOp C19_Valid (C19_RBool false); C19_TOp C19_Get C19_RInvalid; C19_TOp C19_Wait C19_RInvalid].
Proof. exact P_example_future. Qed.
Print Assumptions C19_example_future.
