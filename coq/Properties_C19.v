(* C19 — property theorems.  ONLY statements, each closed by `exact <lemma>` and followed by Print Assumptions.
   Model: C19_Model.v (transcription of mpiguard.hh, mpifuture.hh, future.hh); Spec: C19_Spec.v.

   Guard.  A communicator with P = length outs processes runs S guarded sections inside one scope
       { MPIGuard g(comm, active0);  [g.reactivate();]  sec_0  g.reactivate();  sec_1 ... sec_{S-1} }
   where sec_k of process r either throws (C19_Throws), ends with g.finalize(false) (C19_ReportsFailure) or with
   g.finalize(true) (C19_Ok): outs is the P x S matrix of these outcomes, arbitrary.  c19_sections_run executes the
   P scripts against the collective semantics of comm_->sum: it returns C19_Finished (per process: how it left the
   scope, number of collectives it issued), C19_Deadlock or C19_OutOfFuel.
   c19_spec_exit act0 S outs r  is what the property prescribes for process r:
       no section fails                  -> leaves normally after S checkpoints
       k = first section with a failure  -> leaves in section k: with its own exception if it threw there, otherwise
                                            with MPIGuardError at the checkpoint of section k; k+1 checkpoints.  *)
From Coq Require Import List Bool Arith NArith.
From DuneV Require Import Params_gen C19_Model C19_Spec C19_Proofs C19_Proofs_Fut C19_Proofs_Pool.
Import ListNotations.

(* every P, every S >= 1, every outcome matrix, guard initially active or not (then re-armed first):
   nobody is blocked (C19_Finished), and every process leaves exactly as prescribed *)
Theorem C19_agreement : forall (act0 : bool) (S : nat) (outs : list (list c19_outcome)),
  1 <= S -> Forall (fun os => length os = S) outs ->
  c19_sections_run act0 outs =
  C19_Finished (map (fun r => (Some (fst (c19_spec_exit act0 S outs r)), snd (c19_spec_exit act0 S outs r))) (seq 0 (length outs))).
Proof. exact P_agreement. Qed.
Print Assumptions C19_agreement.

(* the same, with the prescription spelled out (no auxiliary search function in the statement): nobody is blocked; if every
   outcome is Ok every process leaves normally after S checkpoints; if k is the first section in which some process does
   not end with Ok, every process leaves in section k - with its own exception if it threw there, otherwise with
   MPIGuardError (carrying the number of failing processes) at the checkpoint of section k - after k+1 checkpoints *)
Theorem C19_agreement_declarative : forall (act0 : bool) (S : nat) (outs : list (list c19_outcome)) d,
  1 <= S -> Forall (fun os => length os = S) outs ->
  exists res, c19_sections_run act0 outs = C19_Finished res /\ length res = length outs /\
    ((forall r k, r < length outs -> k < S -> c19_outcome_at outs r k = C19_Ok) ->
       forall r, r < length outs -> nth r res d = (Some C19_Normal, S)) /\
    (forall k, k < S -> (exists r, r < length outs /\ c19_outcome_at outs r k <> C19_Ok) ->
       (forall j r, j < k -> r < length outs -> c19_outcome_at outs r j = C19_Ok) ->
       forall r, r < length outs ->
       nth r res d = (Some (if c19_is_throw (c19_outcome_at outs r k) then C19_UserExc (c19_pc_of act0 k)
                            else C19_GuardError (c19_pc_of act0 k) (c19_nfail outs k)), k + 1)).
Proof. exact P_agreement_declarative. Qed.
Print Assumptions C19_agreement_declarative.

(* whatever their outcomes, all processes of the communicator took part in the same number of collectives when the scope is
   left: the collectives of the next scope are matched with each other (no mismatch between consecutive scopes) ... *)
Theorem C19_collectives_aligned : forall act0 S outs r r',
  snd (c19_spec_exit act0 S outs r) = snd (c19_spec_exit act0 S outs r').
Proof. exact P_collectives_aligned. Qed.
Print Assumptions C19_collectives_aligned.

(* ... hence any sequence of guarded scopes (a new guard each, initially active or not, any number of sections each):
   every scope ends on all processes as prescribed *)
Theorem C19_sequential : forall (scopes : list (bool * list (list c19_outcome))) (Ss : list nat),
  Forall2 (fun sc S => 1 <= S /\ Forall (fun os => length os = S) (snd sc)) scopes Ss ->
  c19_scopes_run scopes = map (fun p => c19_expected (fst (fst p)) (snd p) (snd (fst p))) (combine scopes Ss).
Proof. exact P_sequential. Qed.
Print Assumptions C19_sequential.

(* nested guards, the inner ones on the communicators of an arbitrary partition of the outer one (split communicators):
   every group ends its inner scope as prescribed, and the outer scope ends as the one-section scope in which exactly the
   processes of the failed groups "throw" (they unwind through it): c19_outer_outs *)
Theorem C19_nested : forall (S : nat) (groups : list (list (list c19_outcome))),
  1 <= S -> Forall (Forall (fun os => length os = S)) groups ->
  c19_nested_run groups = (map (c19_expected true S) groups, c19_expected true 1 (c19_outer_outs S groups)).
Proof. exact P_nested. Qed.
Print Assumptions C19_nested.

(* no process fails at the outer checkpoint iff no (non-empty) group failed inside *)
Theorem C19_nested_outer_clean_iff : forall S groups,
  c19_nfail (c19_outer_outs S groups) 0 = 0 <->
  forallb (fun g => negb (c19_group_failed S g) || match g with [] => true | _ => false end) groups = true.
Proof. exact outer_nfail_zero_iff. Qed.
Print Assumptions C19_nested_outer_clean_iff.

(* split communicators (MPI_Comm_split by colour, key = rank): c19_groups is a partition of the world ranks - every rank
   lies in exactly one group, that of its colour; groups are non-empty, duplicate-free, in rank order, of one colour, and
   pairwise different.  (The independence of collectives on the disjoint communicators is the trusted MPI assumption.) *)
Theorem C19_groups_partition : forall colors r, r < length colors ->
  In (c19_group_of colors (nth r colors 0)) (c19_groups colors) /\
  (forall g, In g (c19_groups colors) -> In r g -> g = c19_group_of colors (nth r colors 0)) /\
  In r (c19_group_of colors (nth r colors 0)).
Proof. exact P_groups_partition. Qed.
Print Assumptions C19_groups_partition.

Theorem C19_groups_shape : forall colors g, In g (c19_groups colors) ->
  g <> [] /\ NoDup g /\ (forall r, In r g -> r < length colors) /\ (forall r r', In r g -> In r' g -> nth r colors 0 = nth r' colors 0).
Proof. exact P_groups_shape. Qed.
Print Assumptions C19_groups_shape.

Theorem C19_groups_distinct : forall colors, NoDup (c19_groups colors).
Proof. exact P_groups_disjoint_count. Qed.
Print Assumptions C19_groups_distinct.

(* default arguments and the destructor, with the literals re-read from mpiguard.hh (Params_gen.v): finalize() is
   finalize(true); a constructor without `active` arms the guard; the destructor of an armed guard contributes a failure
   (also during unwinding), that of a disarmed guard does not communicate *)
Theorem C19_finalize_default : forall rest pc a, c19_run (C19_FinDefault :: rest) pc a = c19_run (C19_FinOk :: rest) pc a.
Proof. exact P_finalize_default. Qed.
Print Assumptions C19_finalize_default.

Theorem C19_ctor_default : c19_ctor_active None = true /\ forall a, c19_ctor_active (Some a) = a.
Proof. exact P_ctor_default. Qed.
Print Assumptions C19_ctor_default.

Theorem C19_destructor : forall pc,
  c19_run [] pc true = C19_AtColl 1 (C19_KDtor C19_Normal) /\
  c19_run [] pc false = C19_Done C19_Normal /\
  (forall rest, c19_run (C19_Throw :: rest) pc true = C19_AtColl 1 (C19_KDtor (C19_UserExc pc))) /\
  (forall rest, c19_run (C19_Throw :: rest) pc false = C19_Done (C19_UserExc pc)).
Proof. exact P_dtor_reports_failure. Qed.
Print Assumptions C19_destructor.

Example C19_example_nested :
  c19_nested_run [ [[C19_Ok]; [C19_ReportsFailure]] ; [[C19_Ok]; [C19_Ok]; [C19_Ok]] ] =
  ( [ C19_Finished [(Some (C19_GuardError 0 1), 1); (Some (C19_GuardError 0 1), 1)];
      C19_Finished [(Some C19_Normal, 1); (Some C19_Normal, 1); (Some C19_Normal, 1)] ],
    C19_Finished [(Some (C19_UserExc 0), 1); (Some (C19_UserExc 0), 1);
                  (Some (C19_GuardError 0 2), 1); (Some (C19_GuardError 0 2), 1); (Some (C19_GuardError 0 2), 1)] ).
Proof. exact P_example_nested. Qed.
Print Assumptions C19_example_nested.

Example C19_example_sequential :
  c19_scopes_run [(true, [[C19_Ok; C19_Throws]; [C19_Ok; C19_Ok]]); (false, [[C19_ReportsFailure]; [C19_Ok]])] =
  [ C19_Finished [(Some (C19_UserExc 2), 2); (Some (C19_GuardError 2 1), 2)];
    C19_Finished [(Some (C19_GuardError 1 1), 1); (Some (C19_GuardError 1 1), 1)] ].
Proof. exact P_example_sequential. Qed.
Print Assumptions C19_example_sequential.

(* reading of the prescription: c19_first_fail is the least failing section, c19_nfail counts the failing processes *)
Theorem C19_first_fail_none : forall S outs, c19_first_fail outs 0 S = None -> forall k, k < S -> c19_nfail outs k = 0.
Proof. exact P_first_fail_None. Qed.
Print Assumptions C19_first_fail_none.

Theorem C19_first_fail_some : forall S outs k, c19_first_fail outs 0 S = Some k ->
  k < S /\ 0 < c19_nfail outs k /\ forall j, j < k -> c19_nfail outs j = 0.
Proof. exact P_first_fail_Some. Qed.
Print Assumptions C19_first_fail_some.

Theorem C19_nfail_zero_iff : forall outs k,
  c19_nfail outs k = 0 <-> forall r, r < length outs -> c19_outcome_at outs r k = C19_Ok.
Proof. exact P_nfail_zero_iff. Qed.
Print Assumptions C19_nfail_zero_iff.

(* "the guard never deadlocks" also needs: the lock-step execution of ARBITRARY scripts (any mix of finalize / throw /
   reactivate, different on every process) ends in Finished or in a reported Deadlock, never by exhausting the fuel *)
Theorem C19_guard_terminates : forall act0 scripts, c19_guard_scope act0 scripts <> C19_OutOfFuel.
Proof. exact P_guard_terminates. Qed.
Print Assumptions C19_guard_terminates.

(* re-arming: reactivate() on an inactive guard arms it without communication; on an active guard it first takes the
   checkpoint (one collective) and then arms it - or throws MPIGuardError if a process failed *)
Theorem C19_rearm : forall rest pc,
  c19_run (C19_React :: rest) pc false = c19_run rest (S pc) true /\
  (exists c, c19_run (C19_React :: rest) pc true = C19_AtColl c (C19_KFin true true rest pc)) /\
  (forall c, c19_resume 0 (C19_AtColl c (C19_KFin true true rest pc)) = c19_run rest (S pc) true) /\
  (forall c sum, 0 < sum -> c19_resume sum (C19_AtColl c (C19_KFin true true rest pc)) = C19_Done (C19_GuardError pc sum)).
Proof. exact P_rearm. Qed.
Print Assumptions C19_rearm.

(* a guard that is not armed never throws (destructor during unwinding; finalize after finalize) *)
Theorem C19_inactive_silent : forall sum c react rest pc e,
  c19_resume sum (C19_AtColl c (C19_KDtor e)) = C19_Done e /\
  c19_resume sum (C19_AtColl c (C19_KFin false react rest pc)) = c19_run rest (S pc) react.
Proof. exact P_inactive_silent. Qed.
Print Assumptions C19_inactive_silent.

Example C19_example_sections :
  c19_sections_run true [[C19_Ok; C19_Ok]; [C19_Ok; C19_ReportsFailure]; [C19_Ok; C19_Throws]]
  = C19_Finished [(Some (C19_GuardError 2 2), 2); (Some (C19_GuardError 2 2), 2); (Some (C19_UserExc 2), 2)].
Proof. exact P_example_sections. Qed.
Print Assumptions C19_example_sections.

(* outside the documented pattern deadlocks exist (and the model reports them): an exception while the guard is not armed *)
Example C19_example_deadlock :
  c19_guard_scope true [[C19_FinOk; C19_Throw]; [C19_FinOk; C19_React; C19_FinOk]]
  = C19_Deadlock [(Some (C19_UserExc 1), 1); (None, 2)].
Proof. exact P_example_deadlock. Qed.
Print Assumptions C19_example_deadlock.

(* Futures.  c19_ftrace cfg k v h f = results of the member calls of history h (calls interleaved with the completion
   event, ANY interleaving) on an MPIFuture with buffer kind k whose operation delivers v; c19_spec_accept is the
   specification: valid() iff the result was not taken; ready() true only after completion and from then on; wait()/get()
   raise InvalidFutureException iff invalid; get() returns v.  c19_cfg_fixed = the code with fixes/C19-1.patch. *)
Theorem C19_future : forall (D : Type) (deqb : D -> D -> bool), (forall d, deqb d d = true) ->
  forall (k : c19_bkind) (v init : D) (h : list c19_fev), c19_no_move h ->
  c19_spec_accept deqb v false false false (c19_ftrace c19_cfg_fixed k v h (c19_fut_started init)) = true /\
  c19_spec_accept deqb v true false false (c19_ftrace c19_cfg_fixed k v h c19_fut_default) = true.
Proof. exact P_future. Qed.
Print Assumptions C19_future.

(* exactly once: at most one call hands out data, it is the delivered data (never the stale buffer content `init`);
   a default-constructed future hands out nothing *)
Theorem C19_future_once : forall (D : Type) (deqb : D -> D -> bool), (forall d, deqb d d = true) ->
  forall (k : c19_bkind) (v init : D) (h : list c19_fev), c19_no_move h ->
  let tr := c19_ftrace c19_cfg_fixed k v h (c19_fut_started init) in
  c19_count_data tr <= 1 /\ c19_all_data_is deqb v tr = true /\
  c19_count_data (c19_ftrace c19_cfg_fixed k v h c19_fut_default) = 0.
Proof. exact P_future_once. Qed.
Print Assumptions C19_future_once.

(* the code as it is: holds for MPIFuture<T> and MPIFuture<T&> ... *)
Theorem C19_future_unfixed_nonvoid : forall (D : Type) (deqb : D -> D -> bool), (forall d, deqb d d = true) ->
  forall (k : c19_bkind) (v init : D) (h : list c19_fev), k <> C19_BVoid -> c19_no_move h ->
  c19_spec_accept deqb v false false false (c19_ftrace c19_cfg_current k v h (c19_fut_started init)) = true.
Proof. exact P_future_unfixed_nonvoid. Qed.
Print Assumptions C19_future_unfixed_nonvoid.

(* ... and is refuted for MPIFuture<void>: still valid after get()  (finding F-C19-1) *)
Theorem C19_future_unfixed_void_refuted : exists h : list c19_fev, c19_no_move h /\
  c19_spec_accept (fun _ _ : unit => true) tt false false false
    (c19_ftrace c19_cfg_current C19_BVoid tt h (c19_fut_started tt)) = false.
Proof. exact P_future_void_refuted. Qed.
Print Assumptions C19_future_unfixed_void_refuted.

(* histories with moves: a future owning its value is invalid after being moved from (any cfg) ... *)
Theorem C19_future_moved_from_value : forall (D : Type) (deqb : D -> D -> bool), (forall d, deqb d d = true) ->
  forall (cfg : c19_cfg) (v init : D) (h : list c19_fev),
  c19_spec_accept deqb v false false false (c19_ftrace cfg C19_BValue v h (c19_fut_started init)) = true.
Proof. exact P_future_move_value. Qed.
Print Assumptions C19_future_moved_from_value.

(* ... refuted for MPIFuture<T&> and MPIFuture<void>, which stay valid  (finding F-C19-2, no fix proposed) *)
Theorem C19_future_moved_from_refuted : forall k, k <> C19_BValue ->
  c19_spec_accept Nat.eqb 7 false false false (c19_ftrace c19_cfg_fixed k 7 [C19_EvOp C19_Move] (c19_fut_started 0)) = false.
Proof. exact P_future_move_refuted. Qed.
Print Assumptions C19_future_moved_from_refuted.

(* MPIFuture<T>(true) - valid, value-initialised, no request - behaves like a completed operation delivering T();
   histories may contain get_send_data (C19_SendData, which behaves like wait) and move assignment *)
Theorem C19_future_prevalid : forall (D : Type) (deqb : D -> D -> bool), (forall d, deqb d d = true) ->
  forall (k : c19_bkind) (v : D) (h : list c19_fev), c19_no_move h ->
  c19_spec_accept deqb v false true false (c19_ftrace c19_cfg_fixed k v h (c19_fut_prevalid v)) = true.
Proof. exact P_future_prevalid. Qed.
Print Assumptions C19_future_prevalid.

(* operator=(MPIFuture&&) swaps: after  F d; d = std::move(f);  f is invalid for EVERY buffer kind (unlike the move
   constructor, F-C19-2), and d carries f's state *)
Theorem C19_future_move_assign : forall (D : Type) (cfg : c19_cfg) (k : c19_bkind) (v : D) (f : c19_fut D),
  fst (c19_fstep cfg k v C19_MoveAssign f) = [C19_TOp C19_MoveAssign (C19_RBool false)] /\
  snd (c19_fstep cfg k v C19_MoveAssign f) = f.
Proof. exact P_future_move_assign. Qed.
Print Assumptions C19_future_move_assign.

(* type-erased Dune::Future<T> holding an MPIFuture of ANY buffer kind: accepted for ALL histories, moves of the wrapper
   included (its source is always emptied), and the empty wrapper (default-constructed / moved-from) reports every misuse *)
Theorem C19_erased_future : forall (D : Type) (deqb : D -> D -> bool), (forall d, deqb d d = true) ->
  forall (k : c19_bkind) (v init : D) (h : list c19_fev), c19_no_senddata h ->
  c19_spec_accept deqb v false false false (c19_etrace c19_cfg_fixed k v h (Some (c19_fut_started init))) = true /\
  c19_spec_accept deqb v true false false (c19_etrace c19_cfg_fixed k v h None) = true.
Proof. exact P_erased_future. Qed.
Print Assumptions C19_erased_future.

(* "becomes ready once the operation has completed": after the completion event EVERY later ready() is true, for every
   buffer kind, code variant, and whatever calls / moves happen in between *)
Theorem C19_ready_after_completion : forall (D : Type) (cfg : c19_cfg) (k : c19_bkind) (v : D) (h : list c19_fev) (f : c19_fut D),
  Forall (fun it => match it with C19_TOp C19_Ready r => r = C19_RBool true | _ => True end)
         (c19_ftrace cfg k v h (c19_complete v f)).
Proof. exact P_ready_after_completion. Qed.
Print Assumptions C19_ready_after_completion.

(* "reports misuse ... instead of blocking or returning stale data" *)
Theorem C19_invalid_rejects : forall (D : Type) (cfg : c19_cfg) (k : c19_bkind) (v : D) (f : c19_fut D), c19_fvalid f = false ->
  c19_fstep cfg k v C19_Wait f = ([C19_TOp C19_Wait C19_RInvalid], f) /\
  c19_fstep cfg k v C19_Get f = ([C19_TOp C19_Get C19_RInvalid], f) /\
  c19_fstep cfg k v C19_SendData f = ([C19_TOp C19_SendData C19_RInvalid], f) /\
  c19_fstep cfg k v C19_Valid f = ([C19_TOp C19_Valid (C19_RBool false)], f).
Proof. exact P_invalid_rejects. Qed.
Print Assumptions C19_invalid_rejects.

(* get() on a started future (completed in the network or not) waits, hands out exactly the delivered data - not the
   buffer content `init` from before completion - and leaves the future invalid with a null request *)
Theorem C19_get_invalidates : forall (D : Type) (cfg : c19_cfg) (k : c19_bkind) (v init : D) (netdone : bool),
  c19_get_ok cfg k = true ->
  let f := C19_mkfut (Some (if netdone then v else init)) (C19_ReqActive netdone) in
  exists t, c19_fstep cfg k v C19_Get f = (t ++ [C19_TOp C19_Get (C19_RData v)], C19_mkfut None C19_ReqNull).
Proof. exact P_get_invalidates. Qed.
Print Assumptions C19_get_invalidates.

(* constructors MPIFuture(bool valid = <default re-read from the source>) *)
Theorem C19_future_ctor : forall (D : Type) (v0 : D),
  c19_fut_ctor None v0 = c19_fut_default /\ c19_fut_ctor (Some false) v0 = c19_fut_default /\
  c19_fut_ctor (Some true) v0 = c19_fut_prevalid v0.
Proof. exact P_fut_ctor. Qed.
Print Assumptions C19_future_ctor.

(* which non-blocking calls are refused at the start (ParallelError) *)
Theorem C19_start_rejected : forall fam op n,
  c19_start_rejected fam op n = true <->
  (fam = C19_FamSeq /\ (op = C19_Isend \/ op = C19_Irecv)) \/ (fam = C19_FamMPI /\ op = C19_Irecv /\ n = 0).
Proof. exact P_start_rejected. Qed.
Print Assumptions C19_start_rejected.

Example C19_example_erased :
  c19_etrace c19_cfg_fixed C19_BRef 5 [C19_EvOp C19_Move; C19_EvOp C19_Ready; C19_EvComplete; C19_EvOp C19_MoveAssign; C19_EvOp C19_Get; C19_EvOp C19_Get]
             (Some (c19_fut_started 0))
  = [C19_TOp C19_Move (C19_RBool false); C19_TOp C19_Ready (C19_RBool false); C19_TEnable; C19_TOp C19_MoveAssign (C19_RBool false);
     C19_TOp C19_Get (C19_RData 5); C19_TOp C19_Get C19_RInvalid].
Proof. exact P_example_erased. Qed.
Print Assumptions C19_example_erased.

(* a move hands buffer AND request to the target: every member call on the target gives what it would have given on the source *)
Theorem C19_future_move_state : forall (D : Type) (cfg : c19_cfg) (k : c19_bkind) (v : D) (f : c19_fut D),
  snd (c19_fstep cfg k v C19_Move f) = f /\ snd (c19_fstep cfg k v C19_MoveAssign f) = f /\
  forall o, c19_fstep cfg k v o (snd (c19_fstep cfg k v C19_Move f)) = c19_fstep cfg k v o f.
Proof. exact P_future_move_state. Qed.
Print Assumptions C19_future_move_state.

(* PseudoFuture (Communication<No_Comm>): same specification, ready at once *)
Theorem C19_pseudofuture : forall (D : Type) (deqb : D -> D -> bool), (forall d, deqb d d = true) ->
  forall (v : D) (valid0 : bool) (ops : list c19_fop), Forall (fun o => In o [C19_Valid; C19_Ready; C19_Wait; C19_Get]) ops ->
  let tr := c19_ptrace ops (C19_mkpfut valid0 v) in
  c19_spec_accept deqb v (negb valid0) true false tr = true /\
  c19_count_data tr <= (if valid0 then 1 else 0) /\ c19_all_data_is deqb v tr = true.
Proof. exact P_pseudofuture. Qed.
Print Assumptions C19_pseudofuture.

Theorem C19_pseudofuture_moved_from_refuted :
  c19_spec_accept Nat.eqb 7 false true false (c19_ptrace [C19_Move] (C19_mkpfut true 7)) = false.
Proof. exact P_pseudofuture_move_refuted. Qed.
Print Assumptions C19_pseudofuture_moved_from_refuted.

Example C19_example_future :
  c19_ftrace c19_cfg_fixed C19_BValue 42 [C19_EvOp C19_Valid; C19_EvOp C19_Ready; C19_EvComplete; C19_EvOp C19_Ready;
                                            C19_EvOp C19_Get; C19_EvOp C19_Valid; C19_EvOp C19_Get; C19_EvOp C19_Wait] (c19_fut_started 0)
  = [C19_TOp C19_Valid (C19_RBool true); C19_TOp C19_Ready (C19_RBool false); C19_TEnable; C19_TOp C19_Ready (C19_RBool true);
     C19_TOp C19_Get (C19_RData 42); C19_TOp C19_Valid (C19_RBool false); C19_TOp C19_Get C19_RInvalid; C19_TOp C19_Wait C19_RInvalid].
Proof. exact P_example_future. Qed.
Print Assumptions C19_example_future.

(* Several future objects and the requests posted in MPI (model part 3).  c19_xrun true e k ops (c19_xinit n): a process with n
   future variables (raw MPIFuture of buffer kind k, or type-erased Dune::Future if e) executes ANY sequence of
   post (construction from / move assignment of the future returned by irecv or isend - whatever the variable held before:
   nothing, a pending, a completed, a consumed or a moved-from operation), move construction, move assignment between variables,
   destruction, valid / ready / wait / get and message arrivals.  After every such history the multiset of requests posted in MPI
   equals the multiset of requests the live future objects stand for, no request is posted twice, none is unknown to MPI:
   no operation is left posted without a future (it would swallow a later message), no future refers to a released request *)
Theorem C19_requests_owned : forall (e : bool) (k : c19_bkind) (n : nat) (ops : list c19_xop),
  let st := c19_xrun true e k ops (c19_xinit n) in
  (forall h, count_occ Nat.eq_dec (c19_owned (c19_xslots st)) h = count_occ Nat.eq_dec (c19_handles (c19_xpool st)) h) /\
  (forall h, count_occ Nat.eq_dec (c19_handles (c19_xpool st)) h <= 1) /\
  (forall h, c19_xnext st <= h -> count_occ Nat.eq_dec (c19_handles (c19_xpool st)) h = 0).
Proof. exact P_requests_owned_init. Qed.
Print Assumptions C19_requests_owned.

(* ... hence once every future object has been destroyed nothing is left posted, whatever happened before *)
Theorem C19_no_request_left_posted : forall (e : bool) (k : c19_bkind) (n : nat) (ops : list c19_xop),
  c19_xpool (c19_xrun true e k (ops ++ map C19_XDestroy (seq 0 n)) (c19_xinit n)) = [].
Proof. exact P_no_request_left_posted. Qed.
Print Assumptions C19_no_request_left_posted.

(* non-vacuity: a receive re-posted on the same variable while the first one is pending; the message goes to the second *)
Example C19_example_repost : forall e,
  c19_xtrace true e C19_BRef [C19_XPost false 0 0; C19_XPost false 0 0; C19_XSend 42; C19_XGet 0; C19_XDestroy 0] (c19_xinit 1) =
  [(C19_XRUnit, (1, 1)); (C19_XRUnit, (1, 1)); (C19_XRUnit, (1, 1)); (C19_XRData 42, (0, 0)); (C19_XRUnit, (0, 0))].
Proof. exact P_example_repost. Qed.
Print Assumptions C19_example_repost.

(* an operator= that takes the source's members over without withdrawing the target's previous operation is refuted:
   two requests posted for one future, the abandoned receive takes the message, get() blocks *)
Theorem C19_assign_takeover_refuted :
  c19_xtrace false false C19_BRef [C19_XPost false 0 0; C19_XPost false 0 0; C19_XSend 42; C19_XGet 0; C19_XDestroy 0] (c19_xinit 1) =
  [(C19_XRUnit, (1, 1)); (C19_XRUnit, (2, 1)); (C19_XRUnit, (2, 1)); (C19_XRBlocks, (2, 1)); (C19_XRUnit, (1, 0))] /\
  ~ c19_xinv (c19_xrun false false C19_BRef [C19_XPost false 0 0; C19_XPost false 0 0; C19_XSend 42; C19_XGet 0; C19_XDestroy 0] (c19_xinit 1)).
Proof. exact P_takeover_refuted. Qed.
Print Assumptions C19_assign_takeover_refuted.
